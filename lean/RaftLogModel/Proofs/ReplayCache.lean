/-
C02, part 3: the payload cache during replay. If the cache limits of the new
configuration cover all `Append` records of the retained journal, no entry is
evicted while `open` replays it; every index entry ends up resident with the
payload of the record it points to (`CRep`), and the store-level cache
invariant holds. With the payload invariant (`PayG`) this gives `Refines` for
the reopened store.
-/
import RaftLogModel.Proofs.ReplayOpen
namespace RaftLog

/-! ### The `Append` records of a journal -/

def appendsOf : List Record → Items
  | [] => []
  | .append id p :: rs => (id, p) :: appendsOf rs
  | .saveVote _ :: rs => appendsOf rs
  | .commit _ :: rs => appendsOf rs
  | .truncateAfter _ :: rs => appendsOf rs
  | .purgeUpto _ :: rs => appendsOf rs
  | .state _ :: rs => appendsOf rs

theorem appendsOf_append (a b : List Record) : appendsOf (a ++ b) = appendsOf a ++ appendsOf b := by
  induction a with
  | nil => rfl
  | cons r rs ih => cases r <;> simp [appendsOf, ih]

def opsAppends (ops : List JOp) : Items := appendsOf (ops.map (·.r))

theorem opsAppends_append (a b : List JOp) : opsAppends (a ++ b) = opsAppends a ++ opsAppends b := by
  simp [opsAppends, appendsOf_append]

/-! ### `applyIndex`, exactly -/

theorem applyIndex_exact (s : Store) (r : Record) (chunk : Nat) (seg : Seg) {l : Log}
    (h : idxLogO r chunk seg s.log = some l) :
    s.applyIndex r chunk seg = some { s with log := l, cache := idxCache r s.cache } := by
  cases r with
  | saveVote v => simp [idxLogO] at h; subst h; rfl
  | commit id => simp [idxLogO] at h; subst h; rfl
  | state x => simp [idxLogO] at h; subst h; rfl
  | append id p => simp only [idxLogO, Option.some.injEq] at h; subst h; rfl
  | truncateAfter o =>
    simp only [idxLogO] at h
    simp only [Store.applyIndex]
    cases hn : nextIndexChecked o with
    | none => rw [hn] at h; cases h
    | some idx =>
      rw [hn] at h
      simp only [Option.some.injEq] at h; subst h
      cases o <;> rfl
  | purgeUpto id =>
    simp only [idxLogO] at h
    simp only [Store.applyIndex]
    cases hn : nextIndexChecked (some id) with
    | none => rw [hn] at h; cases h
    | some idx =>
      rw [hn] at h
      simp only [Option.some.injEq] at h; subst h
      rfl

theorem idxCache_limits (r : Record) (c : Cache) :
    (idxCache r c).maxItems = c.maxItems ∧ (idxCache r c).capacity = c.capacity := by
  cases r with
  | saveVote v => exact ⟨rfl, rfl⟩
  | commit id => exact ⟨rfl, rfl⟩
  | state x => exact ⟨rfl, rfl⟩
  | append id p => simp [idxCache, Cache.insert, Cache.tryEvict]
  | truncateAfter o => cases o <;> simp [idxCache, Cache.truncateAfter, Cache.clear]
  | purgeUpto id => simp [idxCache, Cache.purgeUpto]

/-! ### The cache while replaying -/

/-- `done` = the journal records replayed so far. -/
structure CRep (sm : Store) (done : List JOp) : Prop where
  cinv : CacheInv sm
  res : ∀ e ∈ sm.log, ∃ p, opAt e p ∈ done ∧ sm.cache.get e.2.id = some p
  cnt : sm.cache.items.length ≤ (opsAppends done).length
  byt : sm.cache.size ≤ sumLen (opsAppends done)

theorem CRep.of_fields {sm sm2 : Store} {done : List JOp} (h : CRep sm done)
    (h1 : sm2.st = sm.st) (h2 : sm2.log = sm.log) (h3 : sm2.cache.items = sm.cache.items)
    (h4 : sm2.cache.size = sm.cache.size) : CRep sm2 done := by
  refine ⟨⟨⟨by rw [h3, h4]; exact h.cinv.ok.size_eq, by rw [h3]; exact h.cinv.ok.sorted⟩,
    by rw [h3, h1]; exact h.cinv.le_last⟩, ?_, by rw [h3]; exact h.cnt, by rw [h4]; exact h.byt⟩
  intro e he
  rw [h2] at he
  obtain ⟨p, k1, k2⟩ := h.res e he
  exact ⟨p, k1, by simp only [Cache.get, h3] at k2 ⊢; exact k2⟩

theorem nextIndexChecked_some_eq {key : LogId} {idx : Nat}
    (h : nextIndexChecked (some key) = some idx) : idx = key.index + 1 := by
  simp only [nextIndexChecked] at h
  split at h
  · injection h with h; exact h.symm
  · cases h

/-- **One replayed record.** -/
theorem crep_step {sm : Store} {done : List JOp} {op : JOp} {st1 : RState} {l1 : Log}
    (h : CRep sm done) (hst : sm.st.apply op.r = .ok st1)
    (hidx : idxLogO op.r op.chunk op.seg sm.log = some l1)
    (hck : RecCheck op.r sm.st sm.log ∨ (sm.cache.items = [] ∧ ∃ x, op.r = .state x))
    (hN : (opsAppends (done ++ [op])).length ≤ sm.cache.maxItems)
    (hB : sumLen (opsAppends (done ++ [op])) ≤ sm.cache.capacity) :
    ∃ s', sm.smApply op.r op.chunk op.seg = .ok s' ∧ s'.st = st1 ∧ s'.log = l1 ∧ SameRest sm s' ∧
      CRep s' (done ++ [op]) := by
  obtain ⟨rec, chunk, ⟨off, size⟩⟩ := op
  simp only at hst hidx hck
  have hai := applyIndex_exact sm rec chunk ⟨off, size⟩ hidx
  have hlim := idxCache_limits rec sm.cache
  refine ⟨{ sm with st := st1, log := l1, cache := idxCache rec sm.cache }, ?_, rfl, rfl,
    ⟨rfl, rfl, rfl, rfl, rfl, hlim.1, hlim.2⟩, ?_⟩
  · unfold Store.smApply
    simp only [hai, hst]
  -- the cache invariant
  have hcinv : CacheInv ({ sm with st := st1, log := l1, cache := idxCache rec sm.cache } : Store) := by
    rcases hck with hck | ⟨hempty, x, hx⟩
    · have hr : ∀ x, rec = .state x → x.last = sm.st.last := by
        intro x hx; subst hx; exact hck
      exact applyIndex_cacheInv h.cinv hst hr hai
    · subst hx
      simp only [RState.apply, Res.ok.injEq] at hst
      subst hst
      refine ⟨h.cinv.ok, ?_⟩
      intro e he
      simp only [idxCache] at he
      rw [hempty] at he; cases he
  have hsorted := hcinv.ok.sorted
  simp only at hsorted
  have happ : opsAppends (done ++ [⟨rec, chunk, ⟨off, size⟩⟩])
      = opsAppends done ++ appendsOf [rec] := by
    rw [opsAppends_append]; rfl
  rw [happ] at hN hB
  -- entries that were there before and keep their cache item
  have hkeep : ∀ e ∈ sm.log, (∀ p, (e.2.id, p) ∈ sm.cache.items → (e.2.id, p) ∈ (idxCache rec sm.cache).items) →
      ∃ p, opAt e p ∈ done ++ [⟨rec, chunk, ⟨off, size⟩⟩] ∧ (idxCache rec sm.cache).get e.2.id = some p := by
    intro e he hk
    obtain ⟨p, k1, k2⟩ := h.res e he
    exact ⟨p, List.mem_append_left _ k1, Cache.get_of_mem hsorted (hk p (Cache.mem_of_get k2))⟩
  refine ⟨hcinv, ?_, ?_, ?_⟩
  · -- residency
    intro e he
    simp only at he ⊢
    cases rec with
    | saveVote v =>
      simp only [idxLogO, Option.some.injEq] at hidx; subst hidx
      exact hkeep e he (fun p hp => hp)
    | commit id =>
      simp only [idxLogO, Option.some.injEq] at hidx; subst hidx
      exact hkeep e he (fun p hp => hp)
    | state x =>
      simp only [idxLogO, Option.some.injEq] at hidx; subst hidx
      exact hkeep e he (fun p hp => hp)
    | append id p =>
      simp only [idxLogO, Option.some.injEq] at hidx; subst hidx
      obtain ⟨_, hnle⟩ := apply_append_last hst
      have hk := items_lt_of_gt_last h.cinv hnle
      have hins := Cache.insert_noevict sm.cache id p hk
        (by have := h.cnt; simp only [appendsOf, List.length_append, List.length_cons, List.length_nil] at hN; omega)
        (by have := h.byt; simp only [appendsOf, sumLen_append, sumLen] at hB; omega)
      simp only [idxCache] at hsorted hkeep ⊢
      rcases mem_logInsert he with h1 | h1
      · subst h1
        refine ⟨p, List.mem_append_right _ (List.mem_singleton.mpr rfl), ?_⟩
        apply Cache.get_of_mem hsorted
        rw [hins]; exact List.mem_append_right _ (List.mem_singleton.mpr rfl)
      · exact hkeep e h1 (fun q hq => by rw [hins]; exact List.mem_append_left _ hq)
    | truncateAfter o =>
      simp only [idxLogO] at hidx
      cases hn : nextIndexChecked o with
      | none => rw [hn] at hidx; cases hidx
      | some idx =>
        rw [hn] at hidx
        simp only [Option.some.injEq] at hidx; subst hidx
        simp only [List.mem_filter, decide_eq_true_eq] at he
        cases o with
        | none =>
          simp only [nextIndexChecked, Option.some.injEq] at hn
          omega
        | some key =>
          have hidx' := nextIndexChecked_some_eq hn
          rcases hck with hck | ⟨_, x, hx⟩
          · have hlt : key.lt e.2.id = false := hck e he.1 (by omega)
            exact hkeep e he.1 (fun q hq => (Cache.truncateAfter_facts sm.cache key).1 _ hq hlt)
          · cases hx
    | purgeUpto u =>
      simp only [idxLogO] at hidx
      cases hn : nextIndexChecked (some u) with
      | none => rw [hn] at hidx; cases hidx
      | some idx =>
        rw [hn] at hidx
        simp only [Option.some.injEq] at hidx; subst hidx
        simp only [List.mem_filter, decide_eq_true_eq] at he
        have hidx' := nextIndexChecked_some_eq hn
        rcases hck with hck | ⟨_, x, hx⟩
        · have hlt : u.lt e.2.id = true := hck e he.1 (by omega)
          have hle : e.2.id.le u = false := (LogId.not_le_iff_lt _ _).2 hlt
          exact hkeep e he.1 (fun q hq => (Cache.purgeUpto_facts sm.cache u).1 _ hq hle)
        · cases hx
  · -- number of items
    rw [happ]
    simp only
    have := h.cnt
    cases rec with
    | saveVote v => simpa [idxCache, appendsOf] using this
    | commit id => simpa [idxCache, appendsOf] using this
    | state x => simpa [idxCache, appendsOf] using this
    | append id p =>
      obtain ⟨_, hnle⟩ := apply_append_last hst
      have hk := items_lt_of_gt_last h.cinv hnle
      have hins := Cache.insert_noevict sm.cache id p hk
        (by simp only [appendsOf, List.length_append, List.length_cons, List.length_nil] at hN; omega)
        (by have := h.byt; simp only [appendsOf, sumLen_append, sumLen] at hB; omega)
      simp only [idxCache, hins, appendsOf, List.length_append, List.length_cons, List.length_nil]
      omega
    | truncateAfter o =>
      cases o with
      | none => simp [idxCache, Cache.clear, appendsOf]
      | some key =>
        have := (Cache.truncateAfter_facts sm.cache key).2.2.1
        simp only [idxCache, appendsOf, List.append_nil]
        omega
    | purgeUpto u =>
      have := (Cache.purgeUpto_facts sm.cache u).2.2.1
      simp only [idxCache, appendsOf, List.append_nil]
      omega
  · -- bytes
    rw [happ]
    simp only
    have := h.byt
    cases rec with
    | saveVote v => simpa [idxCache, appendsOf] using this
    | commit id => simpa [idxCache, appendsOf] using this
    | state x => simpa [idxCache, appendsOf] using this
    | append id p =>
      obtain ⟨_, hnle⟩ := apply_append_last hst
      have hk := items_lt_of_gt_last h.cinv hnle
      have hins := Cache.insert_noevict sm.cache id p hk
        (by have := h.cnt; simp only [appendsOf, List.length_append, List.length_cons, List.length_nil] at hN; omega)
        (by simp only [appendsOf, sumLen_append, sumLen] at hB; omega)
      simp only [idxCache, hins, appendsOf, sumLen_append, sumLen]
      omega
    | truncateAfter o =>
      cases o with
      | none => simp [idxCache, Cache.clear, appendsOf]
      | some key =>
        have := (Cache.truncateAfter_facts sm.cache key).2.2.2.1
        simp only [idxCache, appendsOf, List.append_nil]
        omega
    | purgeUpto u =>
      have := (Cache.purgeUpto_facts sm.cache u).2.2.2.1
      simp only [idxCache, appendsOf, List.append_nil]
      omega

/-! ### A chunk, then a list of chunks -/

/-- The checks hold for the records still to replay; for the very first record
(the head of the oldest retained chunk) the cache is still empty instead. -/
def HOK (ops : List JOp) (sm : Store) : Prop :=
  RunOK ops sm.st sm.log ∨
    (sm.cache.items = [] ∧ ∃ hd tl x, ops = hd :: tl ∧ hd.r = .state x ∧ RunOK tl x sm.log)

theorem HOK.of_fields {ops : List JOp} {sm sm2 : Store} (h : HOK ops sm) (h1 : sm2.st = sm.st)
    (h2 : sm2.log = sm.log) (h3 : sm2.cache.items = sm.cache.items) : HOK ops sm2 := by
  unfold HOK
  rw [h1, h2, h3]
  exact h

theorem replay_cons_ok (chunk start : Nat) (r : Record) (rs : List Record) (s s1 : Store)
    (h : s.smApply r chunk ⟨start, (encRecord r).length⟩ = .ok s1) :
    replay chunk (r :: rs) (offsetsFrom start (sizes (r :: rs))) s
      = replay chunk rs (offsetsFrom (start + (encRecord r).length) (sizes rs)) s1 := by
  obtain ⟨t, ht⟩ := offsetsFrom_eq_cons (start + (encRecord r).length) (sizes rs)
  have hoff : offsetsFrom start (sizes (r :: rs))
      = start :: (start + (encRecord r).length) :: t := by
    simp only [sizes, List.map_cons, offsetsFrom]
    simp only [sizes] at ht
    rw [ht]
  rw [hoff]
  simp only [replay, Nat.add_sub_cancel_left, h]
  rw [← ht]

theorem opsAppends_prefix_le (a b : List JOp) :
    (opsAppends a).length ≤ (opsAppends (a ++ b)).length ∧
    sumLen (opsAppends a) ≤ sumLen (opsAppends (a ++ b)) := by
  rw [opsAppends_append, List.length_append, sumLen_append]
  exact ⟨Nat.le_add_right _ _, Nat.le_add_right _ _⟩

theorem replay_crep (chunk : Nat) (all : List JOp) (M C : Nat)
    (hN : (opsAppends all).length ≤ M) (hB : sumLen (opsAppends all) ≤ C) :
    ∀ (rs : List Record) (start : Nat) (sm : Store) (done more : List JOp) (st1 : RState) (l1 : Log),
    sm.cache.maxItems = M → sm.cache.capacity = C →
    done ++ (opsFrom chunk start rs ++ more) = all → CRep sm done →
    HOK (opsFrom chunk start rs ++ more) sm → stRun rs sm.st = some st1 →
    idxRun (opsFrom chunk start rs) sm.log = some l1 →
    ∃ s', replay chunk rs (offsetsFrom start (sizes rs)) sm = .ok s' ∧ s'.st = st1 ∧ s'.log = l1 ∧
      SameRest sm s' ∧ CRep s' (done ++ opsFrom chunk start rs) ∧ HOK more s' := by
  intro rs
  induction rs with
  | nil =>
    intro start sm done more st1 l1 _ _ _ hc hok h1 h2
    simp only [stRun, Option.some.injEq] at h1
    simp only [opsFrom, idxRun, Option.some.injEq] at h2
    refine ⟨sm, by simp [replay], h1, h2, ⟨rfl, rfl, rfl, rfl, rfl, rfl, rfl⟩, ?_, ?_⟩
    · simpa [opsFrom] using hc
    · simpa [opsFrom] using hok
  | cons r rs ih =>
    intro start sm done more st1 l1 hM hC hall hc hok h1 h2
    simp only [stRun] at h1
    simp only [opsFrom, idxRun] at h2
    cases ha : sm.st.apply r with
    | err k => rw [ha] at h1; cases h1
    | panic m => rw [ha] at h1; cases h1
    | ok sta =>
      rw [ha] at h1
      cases hi : idxLogO r chunk ⟨start, (encRecord r).length⟩ sm.log with
      | none => rw [hi] at h2; cases h2
      | some la =>
        rw [hi] at h2
        simp only at h1 h2
        simp only [opsFrom, List.cons_append] at hall hok
        -- this record
        have hck : RecCheck r sm.st sm.log ∨ (sm.cache.items = [] ∧ ∃ x, r = .state x) := by
          rcases hok with hok | ⟨he, hd, tl, x, heq, hx, _⟩
          · exact Or.inl hok.1
          · simp only [List.cons.injEq] at heq
            rw [← heq.1] at hx
            exact Or.inr ⟨he, x, hx⟩
        have hall' : (done ++ [(⟨r, chunk, ⟨start, (encRecord r).length⟩⟩ : JOp)]) ++
            (opsFrom chunk (start + (encRecord r).length) rs ++ more) = all := by
          rw [← hall]; simp
        have hle := opsAppends_prefix_le (done ++ [(⟨r, chunk, ⟨start, (encRecord r).length⟩⟩ : JOp)])
          (opsFrom chunk (start + (encRecord r).length) rs ++ more)
        rw [hall'] at hle
        obtain ⟨s1, hsm, e1, e2, hsr, hc1⟩ := crep_step (op := ⟨r, chunk, ⟨start, (encRecord r).length⟩⟩)
          hc ha hi hck (by rw [hM]; omega) (by rw [hC]; omega)
        -- the remaining records
        have hok1 : HOK (opsFrom chunk (start + (encRecord r).length) rs ++ more) s1 := by
          left
          rw [e1, e2]
          rcases hok with hok | ⟨_, hd, tl, x, heq, hx, hrest⟩
          · exact hok.2 sta la ha hi
          · simp only [List.cons.injEq] at heq
            rw [← heq.1] at hx
            simp only at hx
            subst hx
            simp only [RState.apply, Res.ok.injEq] at ha
            simp only [idxLogO, Option.some.injEq] at hi
            subst ha; subst hi
            rw [heq.2]; exact hrest
        obtain ⟨s', hrep, g1, g2, g3, g4, g5⟩ :=
          ih (start + (encRecord r).length) s1 _ more st1 l1 (by rw [hsr.maxItems]; exact hM)
            (by rw [hsr.capacity]; exact hC) hall' hc1 hok1 (by rw [e1]; exact h1) (by rw [e2]; exact h2)
        refine ⟨s', ?_, g1, g2, ⟨g3.closed.trans hsr.closed, g3.cfg.trans hsr.cfg,
          g3.openOffsets.trans hsr.openOffsets, g3.pending.trans hsr.pending,
          g3.removed.trans hsr.removed, g3.maxItems.trans hsr.maxItems,
          g3.capacity.trans hsr.capacity⟩, ?_, g5⟩
        · rw [replay_cons_ok chunk start r rs sm s1 hsm]; exact hrep
        · simpa [opsFrom] using g4

theorem loads_crep (cfg : Cfg) (all : List JOp) (M C : Nat)
    (hN : (opsAppends all).length ≤ M) (hB : sumLen (opsAppends all) ≤ C) :
    ∀ (jl : List (Closed × List Record)) (a : OpenAcc) (done : List JOp) (st' : RState) (l' : Log),
    RepC jl a.sm.st a.sm.log st' l' →
    (∀ p ∈ jl, ∃ f, a.fs.find p.1.id = some f ∧ f.data = encAll p.2 ∧ AllWF p.2 ∧ p.2 ≠ [] ∧
        offsetsFrom p.1.id (sizes p.2) = p.1.offsets) →
    Chained (jl.map (·.1.offsets)) →
    (∀ p, jl.head? = some p → gapCheck a p.1.id = false) →
    a.sm.cache.maxItems = M → a.sm.cache.capacity = C → done ++ flatOps jl = all →
    CRep a.sm done → HOK (flatOps jl) a.sm →
    ∃ a', Loads cfg (jl.map (·.1.id)) a a' ∧ a'.sm.st = st' ∧ a'.sm.log = l' ∧
      a'.sm.closed = a.sm.closed ++ jl.map (·.1) ∧ a'.sm.removed = a.sm.removed ∧
      a'.sm.cfg = a.sm.cfg ∧ a'.sm.cache.maxItems = a.sm.cache.maxItems ∧
      a'.sm.cache.capacity = a.sm.cache.capacity ∧
      (jl ≠ [] → a'.lastTruncated = false) ∧ CRep a'.sm all := by
  intro jl
  induction jl with
  | nil =>
    intro a done st' l' h _ _ _ _ _ hall hc _
    obtain ⟨rfl, rfl⟩ := h
    simp only [flatOps, List.append_nil] at hall
    subst hall
    exact ⟨a, Loads.nil a, rfl, rfl, by simp, rfl, rfl, rfl, rfl, fun h => absurd rfl h, hc⟩
  | cons p rest ih =>
    intro a done st' l' h hfiles hch hgap hM hC hall hc hok
    obtain ⟨c, rs⟩ := p
    obtain ⟨st1, l1, g1, g2, g3, g4, _, g5⟩ := h
    obtain ⟨f, hf, hd, hwf, hne, hoffs⟩ := hfiles (c, rs) List.mem_cons_self
    simp only at hf hd hwf hne hoffs
    simp only [flatOps] at hall hok
    have hcpre : CRep a.pre.sm done := hc.of_fields rfl rfl rfl rfl
    have hokpre : HOK (chunkOps c.id rs ++ flatOps rest) a.pre.sm := hok.of_fields rfl rfl rfl
    obtain ⟨sm2, hrep, k1, k2, k3, k4, k5⟩ :=
      replay_crep c.id all M C hN hB rs c.id a.pre.sm done (flatOps rest) st1 l1 hM hC hall hcpre hokpre
        g1 g2
    have hg : gapCheck a c.id = false := hgap (c, rs) rfl
    have hst1 : (a.loaded c.id rs sm2).sm.st = st1 := k1
    have hl1 : (a.loaded c.id rs sm2).sm.log = l1 := k2
    have hfs1 : (a.loaded c.id rs sm2).fs = a.fs.sync c.id := rfl
    have hcl1 : (a.loaded c.id rs sm2).sm.closed = a.sm.closed ++ [c] := by
      simp only [OpenAcc.loaded, k3.closed, OpenAcc.pre, hoffs, k1, ← g3]
    have hgap1 : ∀ q, rest.head? = some q → gapCheck (a.loaded c.id rs sm2) q.1.id = false := by
      intro q hq
      apply gapCheck_loaded
      rw [hoffs]
      cases rest with
      | nil => cases hq
      | cons q' rest' =>
        simp only [List.head?_cons, Option.some.injEq] at hq
        subst hq
        simp only [List.map_cons, Chained] at hch
        exact hch.1
    obtain ⟨a', m1, m2, m3, m4, m5, m6, m7, m8, m9, m10⟩ :=
      ih (a.loaded c.id rs sm2) (done ++ chunkOps c.id rs) st' l' (by rw [hst1, hl1]; exact g5)
        (fun q hq => by
          rw [hfs1]
          obtain ⟨f0, q1, q2, q3⟩ := hfiles q (List.mem_cons_of_mem _ hq)
          obtain ⟨f', r1, r2, _⟩ := Fs.find_sync_some c.id q1
          exact ⟨f', r1, r2.trans q2, q3⟩)
        (by simp only [List.map_cons] at hch; exact hch.tail) hgap1
        (k3.maxItems.trans hM) (k3.capacity.trans hC) (by rw [← hall]; simp)
        (k4.of_fields rfl rfl rfl rfl) (k5.of_fields rfl rfl rfl)
    refine ⟨a', Loads.cons hg hf hd hwf hne hrep m1, m2, m3, ?_, ?_, ?_, ?_, ?_, ?_, m10⟩
    · rw [m4, hcl1]; simp
    · rw [m5]; exact k3.removed
    · rw [m6]; exact k3.cfg
    · rw [m7]; exact k3.maxItems
    · rw [m8]; exact k3.capacity
    · intro _
      cases rest with
      | nil => cases m1; rfl
      | cons q rest' => exact m9 (by simp)

/-! ### The `Append` records in the files -/

/-- All `Append` records (id, payload) in the linked chunk files, as `open`
will read them. -/
def fileAppends (fs : Fs) : Items :=
  fs.linkedIds.flatMap (fun id => match fs.find id with
    | some f => appendsOf ((parseChunk f.data).1.map (·.1))
    | none => [])

theorem flatRecs_append (a b : List (Closed × List Record)) : flatRecs (a ++ b) = flatRecs a ++ flatRecs b := by
  induction a with
  | nil => rfl
  | cons q rest ih =>
    obtain ⟨c, rs⟩ := q
    simp only [List.cons_append, flatRecs, ih, List.append_assoc]

theorem fileAppends_eq (fs : Fs) : ∀ (jl : List (Closed × List Record)),
    (∀ p ∈ jl, ∃ f, fs.find p.1.id = some f ∧ f.data = encAll p.2 ∧ AllWF p.2 ∧ p.2 ≠ [] ∧
        offsetsFrom p.1.id (sizes p.2) = p.1.offsets) →
    (jl.map (·.1.id)).flatMap (fun id => match fs.find id with
      | some f => appendsOf ((parseChunk f.data).1.map (·.1))
      | none => []) = appendsOf (flatRecs jl) := by
  intro jl
  induction jl with
  | nil => intro _; rfl
  | cons q rest ih =>
    intro hfiles
    obtain ⟨c, rs⟩ := q
    obtain ⟨f, hf, hd, hwf, _, _⟩ := hfiles (c, rs) List.mem_cons_self
    simp only at hf hd hwf
    simp only [List.map_cons, List.flatMap_cons, hf, hd, parse_encAll' hwf, sized_map_fst, flatRecs,
      appendsOf_append]
    rw [ih (fun p hp => hfiles p (List.mem_cons_of_mem _ hp))]

theorem allOps_head_state {s : Store} {fs : Fs} {w : Worker} {jc : List (Closed × List Record)}
    {jo : List Record} (g : RepG s fs w jc jo) :
    ∃ hd tl x, allOps s jc jo = hd :: tl ∧ hd.r = .state x := by
  cases jc with
  | nil =>
    obtain ⟨x, tl, hx⟩ := g.openRecs.2.1
    subst hx
    exact ⟨_, _, x, by simp only [allOps, flatOps, chunkOps, opsFrom, List.nil_append]; rfl, rfl⟩
  | cons q rest =>
    obtain ⟨c, rs⟩ := q
    obtain ⟨x, tl, hx⟩ := g.heads (c, rs) List.mem_cons_self
    simp only at hx
    subst hx
    exact ⟨_, _, x, by simp only [allOps, flatOps, chunkOps, opsFrom, List.cons_append]; rfl, rfl⟩

theorem emptyStore_crep (cfg : Cfg) : CRep (emptyStore cfg) [] := by
  refine ⟨⟨⟨rfl, List.Pairwise.nil⟩, fun e he => (by cases he)⟩, fun e he => (by cases he), ?_, ?_⟩
  · simp [emptyStore]
  · simp [emptyStore, opsAppends, appendsOf, sumLen]

/-- **`open` with enough cache: the reopened store refines the reference log.** -/
theorem openStore_refines (cfg : Cfg) {s : Store} {fs : Fs} {w : Worker} {r : RefLog}
    (h : RInv s fs w r) (hinf : ∀ id, w.inflight id = []) (hp : s.pending = [])
    (hlinked : fs.linkedIds = s.chunkIds)
    (hN : (fileAppends fs).length ≤ cfg.cacheItems) (hB : sumLen (fileAppends fs) ≤ cfg.cacheCap) :
    ∃ s', openStore cfg fs = (.ok (s', { files := [⟨s.openId, prevLastOf s.closed⟩] }),
        fs.syncAll s.chunkIds, syncEvs s.chunkIds) ∧
      Refines s' r ∧ s'.cache.items.length ≤ (fileAppends fs).length ∧
      s'.cache.size ≤ sumLen (fileAppends fs) := by
  obtain ⟨jc, jo, g, gp, gr, hall, hfiles, hmapoffs, hmapids, hflat⟩ := h.load_data hinf hp
  -- the Append records of the files are those of the retained journal
  have hfa : fileAppends fs = opsAppends (allOps s jc jo) := by
    unfold fileAppends
    rw [hlinked, ← hmapids, fileAppends_eq fs _ hfiles, ← hflat, opsAppends, flatOps_map_r]
  rw [hfa] at hN hB ⊢
  obtain ⟨hd, tl, x, hhd, hx⟩ := allOps_head_state g
  have hok : HOK (flatOps (jc ++ [((⟨s.openOffsets, s.st⟩ : Closed), jo)])) (emptyStore cfg) := by
    right
    rw [hflat]
    exact ⟨rfl, hd, tl, x, hhd, hx, gr hd tl hhd x hx⟩
  obtain ⟨a', m1, m2, m3, m4, m5, m6, m7, m8, m9, m10⟩ :=
    loads_crep cfg (allOps s jc jo) cfg.cacheItems cfg.cacheCap hN hB
      (jc ++ [(⟨s.openOffsets, s.st⟩, jo)]) { sm := emptyStore cfg, fs := fs } [] s.st s.log
      hall hfiles (by rw [hmapoffs]; exact h.j.chained) (fun p _ => rfl) rfl rfl
      (by rw [List.nil_append]; exact hflat) (emptyStore_crep cfg) hok
  obtain ⟨hfs', hevs'⟩ := m1.fs_evs
  rw [hmapids] at hfs' hevs'
  have hevs' : a'.evs = syncEvs s.chunkIds := by rw [hevs']; rfl
  have hloop : openLoop cfg fs.linkedIds { sm := emptyStore cfg, fs := fs } = (.ok a', a') := by
    rw [hlinked, ← hmapids]
    have := m1.openLoop_append []
    rw [List.append_nil] at this
    rw [this]
    rfl
  have hcl : a'.sm.closed = s.closed ++ [⟨s.openOffsets, s.st⟩] := by
    rw [m4]
    simp only [emptyStore, List.nil_append, List.map_append, List.map_cons, List.map_nil, g.closedEq]
  have hlt : a'.lastTruncated = false := m9 (by simp)
  refine ⟨_, openStore_of_loads cfg hloop hcl hlt hfs' hevs', ?_, m10.cnt, m10.byt⟩
  refine ⟨by simp only [m2]; exact h.abs.st, by simp only [m3]; exact h.abs.log, ?_, h.abs.wf,
    ⟨m10.cinv.ok, m10.cinv.le_last⟩,
    ⟨h.abs.pf.open2, by simp only [m2]; exact h.abs.pf.purged, by simp only [m2]; exact h.abs.pf.last,
      by simp only [m3]; exact h.abs.pf.log⟩, ?_⟩
  · -- residency
    intro e he
    have hkey : (e.1.index, e.1) ∈ logKeys s.log := by
      rw [h.abs.log]; exact List.mem_map.mpr ⟨e, he, rfl⟩
    obtain ⟨le, hle, hlk⟩ := List.mem_map.mp hkey
    simp only [Prod.mk.injEq] at hlk
    obtain ⟨p, k1, k2⟩ := m10.res le (by rw [m3]; exact hle)
    have hpe : (le.2.id, p) ∈ r.entries := gp le hle p k1
    rw [hlk.2] at hpe k2
    have hpeq : p = e.2 := by
      rcases pairwise_mem_cases h.abs.wf.mono hpe he with h1 | h1 | h1
      · rw [← h1]
      · simp only [LogId.lt_irrefl] at h1; cases h1.1
      · simp only [LogId.lt_irrefl] at h1; cases h1.1
    rw [hpeq] at k2
    exact k2
  · have h1 := m10.cnt
    have h2 := m10.byt
    simp only [emptyStore] at m7 m8
    simp only [m7, m8]
    exact ⟨Nat.le_trans h1 hN, Nat.le_trans h2 hB⟩

end RaftLog
