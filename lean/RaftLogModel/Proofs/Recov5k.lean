/-
C05 (crash recoverability), part 11: assembly for histories from a freshly opened store.
-/
import RaftLogModel.Proofs.Recov5j
namespace RaftLog

theorem gpay_of_tsys_C5b {y : Sys} {r : RefLog} {W : List Op} (ht : TSysC5b y r W) : GPayC5b y W := by
  intro s r2 A E K Bh gs hs hg
  obtain ⟨s0, T, hs0, hT⟩ := ht
  rw [hs] at hs0; cases hs0
  obtain ⟨D, hD⟩ := hT.ids
  exact jpay_of_total_C5b hT.pinv (by rw [hD, hg.order])

theorem reach_SmallSys_C5b (cfg : Cfg) (steps : List Step) (r : RefLog)
    (hsteps : ∀ st ∈ steps, st.journal = true)
    (hlegal : RefLog.run {} (stepOps steps) = some r)
    (hwf : ∀ op ∈ stepOps steps, op.WF ∧ op.small)
    (halive : ((Sys.fresh cfg).run steps).worker.pc ≠ .dead) :
    SmallSys ((Sys.fresh cfg).run steps) :=
  run_SmallSys steps (Sys.fresh cfg) {} r (fresh_RSys cfg) (fresh_SmallSys cfg) hsteps hlegal hwf halive

/-- **`open` succeeds on every crash image without torn predecessor** of a reachable
directory (with `truncate` set). -/
theorem crash_open_ok_reach_C5b (cfg cfg' : Cfg) (steps : List Step) (r : RefLog)
    (hsteps : ∀ st ∈ steps, st.journal = true)
    (hlegal : RefLog.run {} (stepOps steps) = some r)
    (hwf : ∀ op ∈ stepOps steps, op.WF ∧ op.small)
    (halive : ((Sys.fresh cfg).run steps).worker.pc ≠ .dead)
    {img : Fs} (hc : CrashImage ((Sys.fresh cfg).run steps).fs img) (hnt : NoTornPredecessor img)
    (ht : cfg'.truncate = true) :
    ∃ s' w' fs' evs, openStore cfg' img = (.ok (s', w'), fs', evs) := by
  obtain ⟨⟨s, hs, _, _⟩, ⟨s1, hs1, hli⟩, _, _⟩ := reach_HSys cfg steps r hsteps hlegal hwf halive
  rw [hs] at hs1; cases hs1
  obtain ⟨s0, Bh, gs, hs0, h⟩ := run_GSys_C3b steps (Sys.fresh cfg) {} r [] 0 0 0 0 (fresh_HSys cfg)
    (fresh_GSys_C3b cfg) hsteps hlegal hwf halive
  rw [hs] at hs0; cases hs0
  obtain ⟨jc, jo, g, hhist⟩ := h.base.hist
  have hlinked : ((Sys.fresh cfg).run steps).fs.linkedIds = (s.liftC3b (ghostClosedC3b gs)).chunkIds := by
    rw [liftC3b_chunkIds]; exact h.linkedIds hli
  obtain ⟨s', w', fs', evs, _, _, _, _, _, q1, _⟩ :=
    ghost_open_C5b g h.base.inv.j hhist h.ack (h.base.dur.live_durable_C3 g) (h.live hli) hlinked
      hli.nodup hc hnt cfg' ht
  exact ⟨s', w', fs', evs, q1⟩

/-- **The acknowledged position covers the start of the newest chunk ⇒ no torn
predecessor in any crash image.** -/
theorem noTorn_reach_C5b (cfg : Cfg) (steps : List Step) (r : RefLog) (s : Store)
    (hsteps : ∀ st ∈ steps, st.journal = true)
    (hlegal : RefLog.run {} (stepOps steps) = some r)
    (hwf : ∀ op ∈ stepOps steps, op.WF ∧ op.small)
    (halive : ((Sys.fresh cfg).run steps).worker.pc ≠ .dead)
    (hs : ((Sys.fresh cfg).run steps).store = some s)
    (hA : s.openId ≤ (Sys.fresh cfg).ackRun steps 0)
    {img : Fs} (hc : CrashImage ((Sys.fresh cfg).run steps).fs img) : NoTornPredecessor img := by
  obtain ⟨⟨s2, hs2, _, _⟩, ⟨s1, hs1, hli⟩, _, _⟩ := reach_HSys cfg steps r hsteps hlegal hwf halive
  rw [hs] at hs1 hs2; cases hs1; cases hs2
  obtain ⟨s0, Bh, gs, hs0, h⟩ := run_GSys_C3b steps (Sys.fresh cfg) {} r [] 0 0 0 0 (fresh_HSys cfg)
    (fresh_GSys_C3b cfg) hsteps hlegal hwf halive
  rw [hs] at hs0; cases hs0
  obtain ⟨jc, jo, g, _⟩ := h.base.hist
  have hlinked : ((Sys.fresh cfg).run steps).fs.linkedIds = (s.liftC3b (ghostClosedC3b gs)).chunkIds := by
    rw [liftC3b_chunkIds]; exact h.linkedIds hli
  have hack : (Sys.fresh cfg).ackRun steps 0 = 0 + (Sys.fresh cfg).ackRun steps 0 := by omega
  exact noTorn_of_acked_C5b g h.base.inv.j (h.base.dur.live_durable_C3 g) (h.live hli) hlinked
    (by simpa using hA) hc

/-- **The recovered system satisfies the invariants** (history split as `pre ++ post`
for the lower bound on the recovered prefix). -/
theorem crash_recover_reach_C5b (cfg cfg' : Cfg) (pre post : List Step) (r : RefLog)
    (hsteps : ∀ st ∈ pre ++ post, st.journal = true)
    (hlegal : RefLog.run {} (stepOps (pre ++ post)) = some r)
    (hwf : ∀ op ∈ stepOps (pre ++ post), op.WF ∧ op.small)
    (halive : ((Sys.fresh cfg).run (pre ++ post)).worker.pc ≠ .dead)
    {img : Fs} (hc : CrashImage ((Sys.fresh cfg).run (pre ++ post)).fs img)
    (hnt : NoTornPredecessor img) (ht : cfg'.truncate = true) :
    ∃ s' w' fs' evs n r', openStore cfg' img = (.ok (s', w'), fs', evs) ∧
      RefLog.run {} ((expandOps {} (stepOps (pre ++ post))).take n) = some r' ∧
      (∀ s1, ((Sys.fresh cfg).run pre).store = some s1 →
        s1.openEnd ≤ (Sys.fresh cfg).ackRun (pre ++ post) 0 → (expandOps {} (stepOps pre)).length ≤ n) ∧
      CSys (recoveredSysC5b cfg' s' w' fs') r' ∧ J (recoveredSysC5b cfg' s' w' fs') ∧
      SmallSys (recoveredSysC5b cfg' s' w' fs') ∧ SysWF (recoveredSysC5b cfg' s' w' fs') ∧
      SysCovered (recoveredSysC5b cfg' s' w' fs') ∧
      (w'.quiet = true ∧ s'.pending = [] ∧ s'.removed = [] ∧ w'.postponed = []) ∧
      s'.cfg = cfg' ∧ s'.cache.maxItems = cfg'.cacheItems ∧ s'.cache.capacity = cfg'.cacheCap ∧
      ∃ jc' jo', RecovC5b s' w' fs' jc' jo' := by
  obtain ⟨s1, hs1, hh⟩ := reach_HSys_at cfg pre post r hsteps hlegal hwf halive
  obtain ⟨s1', hs1', hg⟩ := reach_GSys_at_C3b cfg pre post r hsteps hlegal hwf halive
  rw [hs1] at hs1'; cases hs1'
  have hS := reach_SmallSys_C5b cfg (pre ++ post) r hsteps hlegal hwf halive
  have hT := reach_TSys_C5b cfg (pre ++ post) r hsteps hlegal hwf halive
  obtain ⟨s', w', fs', evs, n, r', q1, q2, q3, q4⟩ :=
    crash_recover_sys_C5b hh hg hS (gpay_of_tsys_C5b hT) hc hnt cfg' ht
  refine ⟨s', w', fs', evs, n, r', q1, q2, ?_, q4⟩
  intro s1' hs1' hle
  rw [hs1] at hs1'; cases hs1'
  exact q3 hle

end RaftLog
