/-
C09 at the system level, helpers, codec part (task C9S, target B).

`ValuePos r i`: position `i` of the frame `encRecord r` holds a VALUE byte (a byte of a
fixed-width `u64` field, of a payload / user-data body, or of the stored checksum), not a
LAYOUT byte (record tag, state version, `Option` tag, length prefix).

Replacing a value byte of `tag ‖ body` yields `tag ‖ body` of another well-formed record of
the same shape (`encTB_setC9S`); with the stored checksum kept, the decoder reads the same
extent and ends in the checksum comparison: `invalid` (`decRecord_value_byteC9S`).
-/
import RaftLogModel.Props.C09
namespace RaftLog

/-! ### Settable fields -/

/-- A codec component with a value/layout mask: replacing a byte at a value position gives
the encoding of another well-formed value. -/
structure FieldC9S {α : Type} (enc : α → Bytes) (mask : α → List Bool) (wf : α → Prop) : Prop where
  len : ∀ a, (mask a).length = (enc a).length
  set : ∀ a, wf a → ∀ (i : Nat) (y : UInt8), (mask a).getD i false = true →
    ∃ a', wf a' ∧ enc a' = (enc a).set i y

theorem getD_append_leftC9S (l l' : List Bool) (d : Bool) (n : Nat) (h : n < l.length) :
    (l ++ l').getD n d = l.getD n d := by
  simp [List.getD_eq_getElem?_getD, List.getElem?_append_left h]

theorem getD_append_rightC9S (l l' : List Bool) (d : Bool) (n : Nat) (h : l.length ≤ n) :
    (l ++ l').getD n d = l'.getD (n - l.length) d := by
  simp [List.getD_eq_getElem?_getD, List.getElem?_append_right h]

theorem getD_falses_appendC9S (n : Nat) (m : List Bool) (i : Nat)
    (h : (List.replicate n false ++ m).getD i false = true) :
    n ≤ i ∧ m.getD (i - n) false = true := by
  by_cases hi : i < n
  · exfalso
    rw [getD_append_leftC9S _ _ _ _ (by simpa using hi)] at h
    simp [List.getD_eq_getElem?_getD, hi] at h
  · have hle : n ≤ i := by omega
    rw [getD_append_rightC9S _ _ _ _ (by simpa using hle)] at h
    simp only [List.length_replicate] at h
    exact ⟨hle, h⟩

theorem getD_true_ltC9S (m : List Bool) (i : Nat) (h : m.getD i false = true) : i < m.length := by
  by_cases hi : i < m.length
  · exact hi
  · exfalso
    rw [List.getD_eq_getElem?_getD, List.getElem?_eq_none (by omega)] at h
    cases h

theorem FieldC9S.pfx {α : Type} {enc : α → Bytes} {mask wf} (g : FieldC9S enc mask wf) (c : Bytes) :
    FieldC9S (fun a => c ++ enc a) (fun a => List.replicate c.length false ++ mask a) wf where
  len := fun a => by simp [g.len a]
  set := by
    intro a ha i y h
    obtain ⟨hle, hm⟩ := getD_falses_appendC9S _ _ _ h
    obtain ⟨a', h1, h2⟩ := g.set a ha (i - c.length) y hm
    refine ⟨a', h1, ?_⟩
    simp only [h2]
    rw [List.set_append_right _ _ hle]

theorem FieldC9S.pair {α β : Type} {ea : α → Bytes} {ma wa} {eb : β → Bytes} {mb wb}
    (ga : FieldC9S ea ma wa) (gb : FieldC9S eb mb wb) :
    FieldC9S (fun x : α × β => ea x.1 ++ eb x.2) (fun x => ma x.1 ++ mb x.2)
      (fun x => wa x.1 ∧ wb x.2) where
  len := fun a => by simp [ga.len, gb.len]
  set := by
    intro x hx i y h
    obtain ⟨a, b⟩ := x
    simp only at hx h ⊢
    by_cases hi : i < (ma a).length
    · rw [getD_append_leftC9S _ _ _ _ hi] at h
      obtain ⟨a', h1, h2⟩ := ga.set a hx.1 i y h
      refine ⟨(a', b), ⟨h1, hx.2⟩, ?_⟩
      simp only [h2]
      rw [List.set_append_left _ _ (by rw [← ga.len]; exact hi)]
    · have hle : (ma a).length ≤ i := by omega
      rw [getD_append_rightC9S _ _ _ _ hle] at h
      rw [ga.len] at h hle
      obtain ⟨b', h1, h2⟩ := gb.set b hx.2 _ y h
      refine ⟨(a, b'), ⟨hx.1, h1⟩, ?_⟩
      simp only [h2]
      rw [List.set_append_right _ _ hle]

/-- Mask of an `Option<T>`: the tag byte is layout. -/
def maskOptC9S {α : Type} (m : α → List Bool) : Option α → List Bool
  | none => [false]
  | some a => false :: m a

theorem FieldC9S.opt {α : Type} {enc : α → Bytes} {mask wf} (g : FieldC9S enc mask wf) :
    FieldC9S (encOpt enc) (maskOptC9S mask) (optWFg wf) where
  len := fun o => by cases o <;> simp [maskOptC9S, encOpt, g.len]
  set := by
    intro o ho i y h
    cases o with
    | none =>
      cases i with
      | zero => simp [maskOptC9S] at h
      | succ j => simp [maskOptC9S] at h
    | some a =>
      cases i with
      | zero => simp [maskOptC9S] at h
      | succ j =>
        simp only [maskOptC9S, List.getD_cons_succ] at h
        obtain ⟨a', h1, h2⟩ := g.set a ho j y h
        exact ⟨some a', h1, by simp only [encOpt, h2, List.set_cons_succ]⟩

/-! ### The leaf fields -/

theorem encLogId_lengthC9S (id : LogId) : (encLogId id).length = 16 := by simp [encLogId]

/-- Every 16 bytes are the encoding of a well-formed log id. -/
theorem encLogId_surjC9S (bs : Bytes) (h : bs.length = 16) : ∃ id : LogId, id.WF ∧ encLogId id = bs := by
  have l1 : (bs.take 8).length = 8 := by rw [List.length_take, h]; rfl
  have l2 : (bs.drop 8).length = 8 := by rw [List.length_drop, h]
  refine ⟨⟨beToNat (bs.take 8), beToNat (bs.drop 8)⟩, ⟨?_, ?_⟩, ?_⟩
  · have := beToNat_lt (bs.take 8); rw [l1, pow_256_8] at this; exact this
  · have := beToNat_lt (bs.drop 8); rw [l2, pow_256_8] at this; exact this
  · have h1 := natToBE_beToNat (bs.take 8)
    have h2 := natToBE_beToNat (bs.drop 8)
    rw [l1] at h1
    rw [l2] at h2
    simp only [encLogId, h1, h2, List.take_append_drop]

def maskLogIdC9S : List Bool := List.replicate 16 true

theorem field_logIdC9S : FieldC9S encLogId (fun _ => maskLogIdC9S) LogId.WF where
  len := fun a => by rw [encLogId_lengthC9S]; rfl
  set := by
    intro a _ i y _
    obtain ⟨id, h1, h2⟩ := encLogId_surjC9S ((encLogId a).set i y)
      (by rw [List.length_set, encLogId_lengthC9S])
    exact ⟨id, h1, h2⟩

/-- Mask of a `Vec<u8>`: the 4 length bytes are layout, the bytes are values. -/
def maskBytesC9S (p : Bytes) : List Bool := List.replicate 4 false ++ List.replicate p.length true

theorem field_bytesC9S : FieldC9S encBytes maskBytesC9S bytesWF where
  len := fun p => by simp [maskBytesC9S, encBytes]; omega
  set := by
    intro p hp i y h
    obtain ⟨hle, _⟩ := getD_falses_appendC9S _ _ _ h
    refine ⟨p.set (i - 4) y, by unfold bytesWF at hp ⊢; rw [List.length_set]; exact hp, ?_⟩
    unfold encBytes
    rw [List.length_set, List.set_append_right _ _ (by simpa using hle)]
    simp

/-! ### Records -/

def maskStateC9S (s : RState) : List Bool :=
  [false] ++ maskOptC9S (fun _ => maskLogIdC9S) s.vote ++ maskOptC9S (fun _ => maskLogIdC9S) s.last
    ++ maskOptC9S (fun _ => maskLogIdC9S) s.committed ++ maskOptC9S (fun _ => maskLogIdC9S) s.purged
    ++ maskOptC9S maskBytesC9S s.userData

/-- Value/layout mask of a record body (parallel to `encBody`). -/
def maskBodyC9S : Record → List Bool
  | .saveVote _ => maskLogIdC9S
  | .append _ p => maskLogIdC9S ++ maskBytesC9S p
  | .commit _ => maskLogIdC9S
  | .truncateAfter o => maskOptC9S (fun _ => maskLogIdC9S) o
  | .purgeUpto _ => maskLogIdC9S
  | .state s => maskStateC9S s

/-- Mask of `tag ‖ body`: the 4 tag bytes are layout. -/
def maskTBC9S (r : Record) : List Bool := List.replicate 4 false ++ maskBodyC9S r

theorem field_stateC9S :
    FieldC9S
      (fun t : (((Option LogId × Option LogId) × Option LogId) × Option LogId) × Option Bytes =>
        [1] ++ encOpt encLogId t.1.1.1.1 ++ encOpt encLogId t.1.1.1.2 ++ encOpt encLogId t.1.1.2
          ++ encOpt encLogId t.1.2 ++ encOpt encBytes t.2)
      (fun t => [false] ++ maskOptC9S (fun _ => maskLogIdC9S) t.1.1.1.1
          ++ maskOptC9S (fun _ => maskLogIdC9S) t.1.1.1.2
          ++ maskOptC9S (fun _ => maskLogIdC9S) t.1.1.2 ++ maskOptC9S (fun _ => maskLogIdC9S) t.1.2
          ++ maskOptC9S maskBytesC9S t.2)
      (fun t => (((optWFg LogId.WF t.1.1.1.1 ∧ optWFg LogId.WF t.1.1.1.2) ∧ optWFg LogId.WF t.1.1.2)
          ∧ optWFg LogId.WF t.1.2) ∧ optWFg bytesWF t.2) :=
  ((((field_logIdC9S.opt.pfx [1]).pair field_logIdC9S.opt).pair field_logIdC9S.opt).pair
    field_logIdC9S.opt).pair field_bytesC9S.opt

theorem maskTB_lengthC9S (r : Record) : (maskTBC9S r).length = (encTB r).length := by
  cases r with
  | saveVote v => exact (field_logIdC9S.pfx (natToBE 4 0)).len v
  | append id p => exact ((field_logIdC9S.pair field_bytesC9S).pfx (natToBE 4 1)).len (id, p)
  | commit id => exact (field_logIdC9S.pfx (natToBE 4 2)).len id
  | truncateAfter o => exact (field_logIdC9S.opt.pfx (natToBE 4 3)).len o
  | purgeUpto id => exact (field_logIdC9S.pfx (natToBE 4 4)).len id
  | state s =>
    exact (field_stateC9S.pfx (natToBE 4 5)).len ((((s.vote, s.last), s.committed), s.purged), s.userData)

/-- **Replacing a value byte of `tag ‖ body` gives `tag ‖ body` of another well-formed
record** (same kind, same layout; one field value changed). -/
theorem encTB_setC9S (r : Record) (hr : r.WF) (i : Nat) (y : UInt8)
    (h : (maskTBC9S r).getD i false = true) : ∃ r', r'.WF ∧ encTB r' = (encTB r).set i y := by
  cases r with
  | saveVote v =>
    obtain ⟨v', h1, h2⟩ := (field_logIdC9S.pfx (natToBE 4 0)).set v hr i y h
    exact ⟨.saveVote v', h1, h2⟩
  | append id p =>
    obtain ⟨⟨id', p'⟩, h1, h2⟩ :=
      ((field_logIdC9S.pair field_bytesC9S).pfx (natToBE 4 1)).set (id, p) hr i y h
    exact ⟨.append id' p', h1, h2⟩
  | commit id =>
    obtain ⟨v', h1, h2⟩ := (field_logIdC9S.pfx (natToBE 4 2)).set id hr i y h
    exact ⟨.commit v', h1, h2⟩
  | truncateAfter o =>
    obtain ⟨o', h1, h2⟩ := (field_logIdC9S.opt.pfx (natToBE 4 3)).set o
      ((optWFg_logId o).mpr hr) i y h
    exact ⟨.truncateAfter o', (optWFg_logId o').mp h1, h2⟩
  | purgeUpto id =>
    obtain ⟨v', h1, h2⟩ := (field_logIdC9S.pfx (natToBE 4 4)).set id hr i y h
    exact ⟨.purgeUpto v', h1, h2⟩
  | state s =>
    have hwf := (stateWF_iff s).mpr hr
    obtain ⟨⟨⟨⟨⟨v, l⟩, c⟩, p⟩, u⟩, h1, h2⟩ := (field_stateC9S.pfx (natToBE 4 5)).set
      ((((s.vote, s.last), s.committed), s.purged), s.userData)
      ⟨⟨⟨⟨hwf.1, hwf.2.1⟩, hwf.2.2.1⟩, hwf.2.2.2.1⟩, hwf.2.2.2.2⟩ i y h
    refine ⟨.state ⟨v, l, c, p, u⟩, ?_, h2⟩
    exact (stateWF_iff _).mp ⟨h1.1.1.1.1, h1.1.1.1.2, h1.1.1.2, h1.1.2, h1.2⟩

/-! ### CRC-32 of twenty bytes with exactly one non-zero byte is not 0 -/

theorem crcBits_addC9S (m n : Nat) (c : BitVec 32) : crcBits (m + n) c = crcBits n (crcBits m c) := by
  induction m generalizing c with
  | zero => rw [Nat.zero_add]; rfl
  | succ m ih =>
    have : m + 1 + n = (m + n) + 1 := by omega
    rw [this]
    exact ih (crcBit c)

theorem crcFeed_zerosC9S (k : Nat) (c : BitVec 32) :
    crcFeed c (List.replicate k 0) = crcBits (8 * k) c := by
  induction k generalizing c with
  | zero => rfl
  | succ k ih =>
    rw [List.replicate_succ, crcFeed_cons, ih]
    have h0 : crcByte c 0 = crcBits 8 c := by
      unfold crcByte
      have : BitVec.ofNat 32 (0 : UInt8).toNat = 0#32 := rfl
      rw [this, BitVec.xor_zero]
    have : 8 * (k + 1) = 8 + 8 * k := by omega
    rw [h0, this, crcBits_addC9S]

def uncrcBitsC9S : Nat → BitVec 32 → BitVec 32
  | 0, d => d
  | n + 1, d => uncrcBit (uncrcBitsC9S n d)

theorem crcBits_uncrcBitsC9S (n : Nat) (d : BitVec 32) : crcBits n (uncrcBitsC9S n d) = d := by
  induction n generalizing d with
  | zero => rfl
  | succ n ih =>
    show crcBits n (crcBit (uncrcBit (uncrcBitsC9S n d))) = d
    rw [crcBit_uncrcBit, ih]

theorem crc_tableC9S : ∀ k < 16,
    (crcBits (8 * (19 - k)) 0xFFFFFFFF#32 ^^^ uncrcBitsC9S (8 + 8 * k) 0xFFFFFFFF#32).toNat = 0 ∨
    256 ≤ (crcBits (8 * (19 - k)) 0xFFFFFFFF#32 ^^^ uncrcBitsC9S (8 + 8 * k) 0xFFFFFFFF#32).toNat := by
  decide +kernel


/-- `tag = 0 ‖ log id` with exactly one non-zero byte (in the log id) never has CRC-32 zero.
(Meet in the middle: the register before the non-zero byte is known, the register after it
is determined by the trailing zeros because every step is a bijection; the byte would have
to be their xor, which is not a byte value. 16 positions, checked by `decide`.) -/
theorem crc_onebyteC9S (j k : Nat) (hjk : j + k = 19) (hj : 4 ≤ j) (x : UInt8) (hx : x ≠ 0) :
    crc32 (List.replicate j 0 ++ x :: List.replicate k 0) ≠ 0 := by
  intro h
  unfold crc32 at h
  have h1 : crcFeed 0xFFFFFFFF#32 (List.replicate j 0 ++ x :: List.replicate k 0) ^^^ 0xFFFFFFFF#32
      = 0xFFFFFFFF#32 ^^^ 0xFFFFFFFF#32 := by
    apply BitVec.eq_of_toNat_eq
    rw [h]; rfl
  have h2 := xor_right_cancel _ _ _ h1
  rw [crcFeed_append, crcFeed_cons, crcFeed_zerosC9S, crcFeed_zerosC9S] at h2
  unfold crcByte at h2
  rw [← crcBits_addC9S] at h2
  have h3 := crcBits_injective _ _ _ (h2.trans (crcBits_uncrcBitsC9S (8 + 8 * k) 0xFFFFFFFF#32).symm)
  have hk : k < 16 := by omega
  have hjj : j = 19 - k := by omega
  have h4 : BitVec.ofNat 32 x.toNat
      = crcBits (8 * (19 - k)) 0xFFFFFFFF#32 ^^^ uncrcBitsC9S (8 + 8 * k) 0xFFFFFFFF#32 := by
    rw [← h3, hjj, ← BitVec.xor_assoc, BitVec.xor_self, BitVec.zero_xor]
  have h5 := congrArg BitVec.toNat h4
  have hxlt := x.toNat_lt
  have hxne : x.toNat ≠ 0 := by
    intro e
    apply hx
    apply UInt8.toNat_inj.mp
    rw [e]; rfl
  simp only [BitVec.toNat_ofNat] at h5
  have hmod : x.toNat % 2 ^ 32 = x.toNat := Nat.mod_eq_of_lt (by omega)
  rw [hmod] at h5
  rcases crc_tableC9S k hk with h6 | h6 <;> omega


/-! ### Value positions of a frame -/

/-- Value/layout mask of the whole frame `encRecord r`: `tag ‖ body` as in `maskTBC9S`, and
the 8 checksum bytes are value bytes. -/
def valueMaskC9S (r : Record) : List Bool := maskTBC9S r ++ List.replicate 8 true

/-- Position `i` of the frame `encRecord r` holds a VALUE byte: a byte of a `u64` field
(term / index / voted_for of a vote or log id), of a payload or user-data body, or of the
stored checksum — not the record tag, the state version byte, an `Option` tag or a length
prefix. Syntactic (by cases on the record kind, see `maskBodyC9S`) and decidable. -/
def ValuePos (r : Record) (i : Nat) : Prop := (valueMaskC9S r).getD i false = true

instance (r : Record) (i : Nat) : Decidable (ValuePos r i) := by
  unfold ValuePos; exact inferInstance

theorem valueMask_lengthC9S (r : Record) : (valueMaskC9S r).length = (encRecord r).length := by
  rw [encRecord_eq]; simp [valueMaskC9S, maskTB_lengthC9S]

theorem ValuePos.ltC9S {r : Record} {i : Nat} (h : ValuePos r i) : i < (encRecord r).length := by
  rw [← valueMask_lengthC9S]; exact getD_true_ltC9S _ _ h

theorem ValuePos.geC9S {r : Record} {i : Nat} (h : ValuePos r i) : 4 ≤ i := by
  unfold ValuePos valueMaskC9S maskTBC9S at h
  rw [List.append_assoc] at h
  exact (getD_falses_appendC9S 4 _ i h).1

theorem set_splitC9S (l : Bytes) (i : Nat) (hi : i < l.length) (y : UInt8) :
    l = l.take i ++ l[i] :: l.drop (i + 1) ∧ l.set i y = l.take i ++ y :: l.drop (i + 1) := by
  constructor
  · rw [← List.drop_eq_getElem_cons hi, List.take_append_drop]
  · rw [List.set_eq_take_append_cons_drop, if_pos hi]

theorem getD_eq_getElemC9S (l : Bytes) (i : Nat) (hi : i < l.length) : l.getD i 0 = l[i] := by
  simp [List.getD_eq_getElem?_getD, hi]

theorem set_ne_selfC9S (l : Bytes) (j : Nat) (y : UInt8) (hj : j < l.length) (h : l.getD j 0 ≠ y) :
    l.set j y ≠ l := by
  intro e
  apply h
  have this : (l.set j y).getD j 0 = l.getD j 0 := by rw [e]
  rw [← this, getD_eq_getElemC9S _ _ (by rw [List.length_set]; exact hj)]
  simp

/-- **A value byte of a complete record is altered: the decoder reads the same extent and
the checksum comparison fails — `invalid`**, never `eof`, never `ok`. -/
theorem decRecord_value_byteC9S (r : Record) (hr : r.WF) (i : Nat) (y : UInt8) (hpos : ValuePos r i)
    (hy : (encRecord r).getD i 0 ≠ y) (rest : Bytes) :
    decRecord ((encRecord r).set i y ++ rest) = .invalid := by
  have hlt := hpos.ltC9S
  by_cases hi : i < (encTB r).length
  · have hm : (maskTBC9S r).getD i false = true := by
      rw [← getD_append_leftC9S _ (List.replicate 8 true) _ _ (by rw [maskTB_lengthC9S]; exact hi)]
      exact hpos
    obtain ⟨r', hr', he⟩ := encTB_setC9S r hr i y hm
    have hset : (encRecord r).set i y = encTB r' ++ natToBE 8 (crc32 (encTB r)) := by
      rw [encRecord_eq, List.set_append_left _ _ hi, he]
    have hx : (encTB r)[i] ≠ y := by
      intro e
      apply hy
      rw [getD_eq_getElemC9S _ _ hlt, ← e]
      simp only [encRecord_eq]
      rw [List.getElem_append_left hi]
    have hne : natToBE 8 (crc32 (encTB r)) ≠ natToBE 8 (crc32 (encTB r')) := by
      intro e
      have hc := natToBE_injective 8 (crc32_lt _) (crc32_lt _) e
      rw [he] at hc
      obtain ⟨s1, s2⟩ := set_splitC9S (encTB r) i hi y
      have hc' : crc32 ((encTB r).take i ++ (encTB r)[i] :: (encTB r).drop (i + 1))
          = crc32 ((encTB r).take i ++ y :: (encTB r).drop (i + 1)) := by
        rw [← s1, ← s2]; exact hc
      exact crc32_single_byte _ _ _ _ hx hc'
    rw [hset]
    exact c09_wrong_sum_is_invalid r' hr' _ (natToBE_length 8 _) hne rest
  · have hle : (encTB r).length ≤ i := by omega
    have hlen : (encRecord r).length = (encTB r).length + 8 := by rw [encRecord_eq]; simp
    have hset : (encRecord r).set i y
        = encTB r ++ (natToBE 8 (crc32 (encTB r))).set (i - (encTB r).length) y := by
      rw [encRecord_eq, List.set_append_right _ _ hle]
    have hj : i - (encTB r).length < (natToBE 8 (crc32 (encTB r))).length := by
      rw [natToBE_length]; omega
    have hne : (natToBE 8 (crc32 (encTB r))).set (i - (encTB r).length) y
        ≠ natToBE 8 (crc32 (encTB r)) := by
      apply set_ne_selfC9S _ _ _ hj
      intro e
      apply hy
      rw [← e, getD_eq_getElemC9S _ _ hlt, getD_eq_getElemC9S _ _ hj]
      simp only [encRecord_eq]
      rw [List.getElem_append_right hle]
    rw [hset]
    exact c09_wrong_sum_is_invalid r hr _ (by rw [List.length_set, natToBE_length]) hne rest


/-! ### The altered frame is not all zeros -/

theorem allZero_eq_replicateC9S (bs : Bytes) (h : allZero bs = true) :
    bs = List.replicate bs.length 0 := by
  rw [List.eq_replicate_iff]
  refine ⟨rfl, fun b hb => ?_⟩
  unfold allZero at h
  rw [List.all_eq_true] at h
  simpa using h b hb

theorem allZero_appendC9S (a b : Bytes) : allZero (a ++ b) = (allZero a && allZero b) := by
  simp [allZero]

theorem crc_zeros20_bytesC9S :
    natToBE 8 (crc32 (List.replicate 20 0)) = [0, 0, 0, 0, 15, 213, 155, 141] := by decide +kernel

theorem encTB_saveVote_lengthC9S (v : Vote) : (encTB (.saveVote v)).length = 20 := by
  simp [encTB, encBody, encLogId]

/-- The frame of a record with one value byte altered is never all zeros (so the zero-tail
rule of C10 cannot hide the damage). -/
theorem frame_not_zeroC9S (r : Record) (i : Nat) (y : UInt8) (hpos : ValuePos r i)
    (hy : (encRecord r).getD i 0 ≠ y) : allZero ((encRecord r).set i y) = false := by
  cases hz : allZero ((encRecord r).set i y) with
  | false => rfl
  | true =>
    exfalso
    have hF := allZero_eq_replicateC9S _ hz
    rw [List.length_set] at hF
    have hlt := hpos.ltC9S
    have hge := hpos.geC9S
    have hy0 : y = 0 := by
      have h1 : ((encRecord r).set i y).getD i 0 = (List.replicate (encRecord r).length (0 : UInt8)).getD i 0 := by
        rw [← hF]
      rw [getD_eq_getElemC9S _ _ (by rw [List.length_set]; exact hlt),
        getD_eq_getElemC9S _ _ (by rw [List.length_replicate]; exact hlt)] at h1
      simpa using h1
    have hx : (encRecord r)[i] ≠ 0 := by
      intro e; apply hy; rw [getD_eq_getElemC9S _ _ hlt, e, hy0]
    have hE : encRecord r = (List.replicate (encRecord r).length 0).set i ((encRecord r)[i]) := by
      rw [← hF, List.set_set, List.set_getElem_self]
    have hn12 := encRecord_length_ge r
    have htag : natToBE 4 r.tag = natToBE 4 0 := by
      have h1 : (encRecord r).take 4 = natToBE 4 r.tag := by
        rw [encRecord_eq, encTB, List.append_assoc, List.take_left' (natToBE_length 4 _)]
      rw [← h1, hE, List.take_set_of_le hge, List.take_replicate]
      have : min 4 (encRecord r).length = 4 := by omega
      rw [this]; decide
    have ht0 : r.tag = 0 := natToBE_injective 4 (Record.tag_lt r) (by decide) htag
    cases r with
    | saveVote v =>
      have hl20 := encTB_saveVote_lengthC9S v
      have hn : (encRecord (.saveVote v)).length = 28 := by rw [encRecord_eq]; simp [hl20]
      rw [hn] at hE
      generalize hxx : (encRecord (.saveVote v))[i] = x at hE hx
      have htake : (encRecord (.saveVote v)).take 20 = encTB (.saveVote v) := by
        rw [encRecord_eq, List.take_left' hl20]
      have hdrop : (encRecord (.saveVote v)).drop 20 = natToBE 8 (crc32 (encTB (.saveVote v))) := by
        rw [encRecord_eq, List.drop_left' hl20]
      by_cases hi : i < 20
      · have h1 : encTB (.saveVote v) = List.replicate i 0 ++ x :: List.replicate (19 - i) 0 := by
          rw [← htake, hE, List.take_set, List.take_replicate]
          have hi' : i < (List.replicate (min 20 28) (0 : UInt8)).length := by rw [List.length_replicate]; omega
          rw [(set_splitC9S _ i hi' x).2, List.take_replicate, List.drop_replicate]
          have e1 : min i (min 20 28) = i := by omega
          have e2 : min 20 28 - (i + 1) = 19 - i := by omega
          rw [e1, e2]
        have h2 : natToBE 8 (crc32 (encTB (.saveVote v))) = natToBE 8 0 := by
          rw [← hdrop, hE, List.drop_set_of_lt hi, List.drop_replicate]; decide
        have h3 := natToBE_injective 8 (crc32_lt _) (by decide) h2
        rw [h1] at h3
        exact crc_onebyteC9S i (19 - i) (by omega) hge x hx h3
      · have hle : 20 ≤ i := by omega
        have h1 : encTB (.saveVote v) = List.replicate 20 0 := by
          rw [← htake, hE, List.take_set_of_le hle, List.take_replicate]
          rfl
        have h2 : natToBE 8 (crc32 (encTB (.saveVote v))) = (List.replicate 8 0).set (i - 20) x := by
          rw [← hdrop, hE, List.drop_set, if_neg (by omega), List.drop_replicate]
        rw [h1, crc_zeros20_bytesC9S] at h2
        by_cases h4 : i - 20 = 4
        · have := congrArg (fun l => l[5]?) h2
          rw [h4] at this
          simp at this
        · have := congrArg (fun l => l[4]?) h2
          simp [h4] at this
    | append _ _ => simp [Record.tag] at ht0
    | commit _ => simp [Record.tag] at ht0
    | truncateAfter _ => simp [Record.tag] at ht0
    | purgeUpto _ => simp [Record.tag] at ht0
    | state _ => simp [Record.tag] at ht0


/-! ### Chunk level -/

theorem set_midC9S (a b c : Bytes) (i : Nat) (y : UInt8) (hi : i < b.length) :
    (a ++ (b ++ c)).set (a.length + i) y = a ++ (b.set i y ++ c) := by
  rw [List.set_append_right _ _ (by omega), Nat.add_sub_cancel_left, List.set_append_left _ _ hi]

/-- **Chunk level.** The chunk file holds the well-formed records `rs0`, then the complete
record `r`, then any bytes `rest`; one VALUE byte of `r`'s frame (position `i` in the frame,
`|encAll rs0| + i` in the file) is replaced by a different value `y`. Then the iteration stops
at that record with `invalid` and a remainder that is not all zeros, and `Chunk::open`
returns the error `invalid` whatever `truncate` is. -/
theorem openChunk_value_byteC9S (cfg : Cfg) (id : Nat) {rs0 : List Record} (h0 : AllWF rs0)
    (r : Record) (hr : r.WF) (rest : Bytes) (i : Nat) (y : UInt8) (hpos : ValuePos r i)
    (hy : (encRecord r).getD i 0 ≠ y) :
    (encAll rs0 ++ (encRecord r ++ rest)).set ((encAll rs0).length + i) y
      = encAll rs0 ++ ((encRecord r).set i y ++ rest) ∧
    parseChunk ((encAll rs0 ++ (encRecord r ++ rest)).set ((encAll rs0).length + i) y)
      = (rs0.map (fun r => (r, (encRecord r).length)), .invalid, (encRecord r).set i y ++ rest) ∧
    allZero ((encRecord r).set i y ++ rest) = false ∧
    openChunk cfg id ((encAll rs0 ++ (encRecord r ++ rest)).set ((encAll rs0).length + i) y)
      = .error .invalid := by
  have hset := set_midC9S (encAll rs0) (encRecord r) rest i y hpos.ltC9S
  have hd := decRecord_value_byteC9S r hr i y hpos hy rest
  have hz : allZero ((encRecord r).set i y ++ rest) = false := by
    rw [allZero_appendC9S, frame_not_zeroC9S r i y hpos hy]; rfl
  rw [hset]
  exact ⟨rfl, (c09_checksum_mismatch_invalid cfg id h0 hd).1, hz, c09_invalid_reported cfg id h0 hd hz⟩

end RaftLog
