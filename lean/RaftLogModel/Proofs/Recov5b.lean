/-
C05 (crash recoverability), part 2: the end of `openStore` on a directory with complete
predecessors, in the three cases (newest chunk reused / truncated and followed by a fresh
chunk / without a complete record: removed and recreated). Each case yields a store
described by `RecovC5b`.
-/
import RaftLogModel.Proofs.Recov5a
namespace RaftLog

theorem stRun_wf_C5b : ∀ (rs : List Record) (st st' : RState), AllWF rs → st.WF →
    stRun rs st = some st' → st'.WF := by
  intro rs
  induction rs with
  | nil => intro st st' _ hs h; simp only [stRun, Option.some.injEq] at h; subst h; exact hs
  | cons r rs ih =>
    intro st st' hwf hs h
    simp only [stRun] at h
    cases ha : st.apply r with
    | ok st1 =>
      rw [ha] at h
      exact ih st1 st' (fun x hx => hwf x (List.mem_cons_of_mem _ hx))
        (apply_wf hs (hwf r List.mem_cons_self) ha) h
    | err k => rw [ha] at h; cases h
    | panic m => rw [ha] at h; cases h

theorem emptyState_wf_C5b : ({} : RState).WF := by simp [RState.WF, optWF]

theorem flatRecs_wf_C5b {jc : List (Closed × List Record)} (h : ∀ p ∈ jc, AllWF p.2) :
    AllWF (flatRecs jc) := by
  induction jc with
  | nil => intro r hr; cases hr
  | cons p rest ih =>
    obtain ⟨c, rs⟩ := p
    intro r hr
    simp only [flatRecs, List.mem_append] at hr
    rcases hr with k | k
    · exact h (c, rs) List.mem_cons_self r k
    · exact ih (fun q hq => h q (List.mem_cons_of_mem _ hq)) r k

theorem dropHeadless_has_of_C5b (a : OpenAcc) (id : Nat) (tr : Option Nat) {id' : Nat}
    (h : (a.dropHeadless id tr).fs.has id' = true) : a.fs.has id' = true := by
  have := dropHeadless_fs_find a id tr id'
  unfold Fs.has at h ⊢
  cases h1 : (a.dropHeadless id tr).fs.find id' with
  | none => rw [h1] at h; cases h
  | some f =>
    rw [h1] at h this
    cases h2 : a.fs.find id' with
    | none => rw [h2] at this; cases this
    | some f0 =>
      rw [h2] at this
      simp only [Option.map_some, Option.some.injEq, Prod.mk.injEq] at this
      simp only at h ⊢
      rw [h] at this
      by_cases hc : (f0.id == id) = true
      · rw [if_pos hc] at this; exact absurd this.2 (by simp)
      · rw [if_neg hc] at this; exact this.2.symm

theorem dropHeadless_ids_C5b (a : OpenAcc) (id : Nat) (tr : Option Nat) :
    Fs.ids (a.dropHeadless id tr).fs = Fs.ids a.fs := by
  cases tr with
  | none => simp [OpenAcc.dropHeadless, OpenAcc.afterTrunc, OpenAcc.pre]
  | some len => simp [OpenAcc.dropHeadless, OpenAcc.afterTrunc, OpenAcc.pre, ids_truncate_C5b]

theorem dropHeadless_sm_C5b (a : OpenAcc) (id : Nat) (tr : Option Nat) :
    (a.dropHeadless id tr).sm = a.pre.sm := by
  cases tr <;> rfl

theorem stRunO_flat_chunk_C5b {jc : List (Closed × List Record)} {stC stJ : RState} {lC : Log}
    {oid : Nat} {rs : List Record} (hrep : RepC jc {} [] stC lC) (h : stRun rs stC = some stJ) :
    stRunO (flatOps jc ++ chunkOps oid rs) {} = some stJ := by
  rw [stRunO_append]
  have : stRunO (flatOps jc) {} = some stC := by
    simp only [stRunO, flatOps_map_r]; exact hrep.st
  rw [this]
  simp only [Option.bind_some, stRunO, chunkOps, opsFrom_map_r]
  exact h

theorem idxRun_flat_chunk_C5b {jc : List (Closed × List Record)} {stC : RState} {lC lJ : Log}
    {oid : Nat} {rs : List Record} (hrep : RepC jc {} [] stC lC)
    (h : idxRun (chunkOps oid rs) lC = some lJ) :
    idxRun (flatOps jc ++ chunkOps oid rs) [] = some lJ := by
  rw [idxRun_append, hrep.idx]
  exact h

/-! ### The hypotheses on the directory -/

/-- The directory `img` as `open` sees it: all files linked and durable, the chunks `jc`
complete, the newest chunk `oid` (full record list `jo`) present. -/
structure ImgHypC5b (img : Fs) (jc : List (Closed × List Record)) (oid : Nat) (jo : List Record)
    (stC : RState) (lC : Log) (g0 : File) : Prop where
  nodup : (Fs.ids img).Nodup
  all : ∀ g ∈ img, g.linked = true ∧ g.durable = g.data.length
  ids : img.linkedIds = jc.map (·.1.id) ++ [oid]
  files : ∀ p ∈ jc, ∃ f, img.find p.1.id = some f ∧ f.data = encAll p.2 ∧ AllWF p.2 ∧
    (∃ st rest, p.2 = .state st :: rest) ∧ offsetsFrom p.1.id (sizes p.2) = p.1.offsets
  rep : RepC jc {} [] stC lC
  chained : Chained (jc.map (·.1.offsets) ++ [offsetsFrom oid (sizes jo)])
  g0 : img.find oid = some g0
  wfo : AllWF jo
  head : ∃ st tl, jo = .state st :: tl
  johead : jc ≠ [] → ∃ tl, jo = .state stC :: tl

theorem ImgHypC5b.allDurable {img : Fs} {jc : List (Closed × List Record)} {oid : Nat}
    {jo : List Record} {stC : RState} {lC : Log} {g0 : File} (h : ImgHypC5b img jc oid jo stC lC g0) :
    AllDurable img := fun g hg => (h.all g hg).2

theorem ImgHypC5b.lt {img : Fs} {jc : List (Closed × List Record)} {oid : Nat} {jo : List Record}
    {stC : RState} {lC : Log} {g0 : File} (h : ImgHypC5b img jc oid jo stC lC g0) :
    ∀ p ∈ jc, p.1.id < oid := by
  intro p hp
  have := (Fs.linkedIds_spec h.nodup).1
  rw [h.ids, List.pairwise_append] at this
  exact this.2.2 p.1.id (List.mem_map.mpr ⟨p, hp, rfl⟩) oid (by simp)

theorem ImgHypC5b.has {img : Fs} {jc : List (Closed × List Record)} {oid : Nat} {jo : List Record}
    {stC : RState} {lC : Log} {g0 : File} (h : ImgHypC5b img jc oid jo stC lC g0) {id : Nat}
    (hid : img.has id = true) : id ∈ jc.map (·.1.id) ++ [oid] := by
  rw [← h.ids]
  exact ((Fs.linkedIds_spec h.nodup).2 id).mpr hid

theorem ImgHypC5b.idsLe {img : Fs} {jc : List (Closed × List Record)} {oid : Nat} {jo : List Record}
    {stC : RState} {lC : Log} {g0 : File} (h : ImgHypC5b img jc oid jo stC lC g0) :
    ∀ i ∈ Fs.ids img, i ≤ oid := by
  intro i hi
  obtain ⟨g, hg, hgi⟩ := List.mem_map.mp hi
  have hhas : img.has i = true := (Fs.has_iff h.nodup i).mpr ⟨g, hg, (h.all g hg).1, hgi⟩
  rcases List.mem_append.mp (h.has hhas) with k | k
  · obtain ⟨p, hp, hpi⟩ := List.mem_map.mp k
    have := h.lt p hp
    omega
  · simp only [List.mem_singleton] at k; omega

theorem ImgHypC5b.files' {img : Fs} {jc : List (Closed × List Record)} {oid : Nat} {jo : List Record}
    {stC : RState} {lC : Log} {g0 : File} (h : ImgHypC5b img jc oid jo stC lC g0) :
    ∀ p ∈ jc, ∃ f, img.find p.1.id = some f ∧ f.data = encAll p.2 ∧ AllWF p.2 ∧ p.2 ≠ [] ∧
      offsetsFrom p.1.id (sizes p.2) = p.1.offsets := by
  intro p hp
  obtain ⟨f, k1, k2, k3, ⟨st, tl, k4⟩, k5⟩ := h.files p hp
  exact ⟨f, k1, k2, k3, by rw [k4]; simp, k5⟩

theorem ImgHypC5b.stC_wf {img : Fs} {jc : List (Closed × List Record)} {oid : Nat} {jo : List Record}
    {stC : RState} {lC : Log} {g0 : File} (h : ImgHypC5b img jc oid jo stC lC g0) : stC.WF :=
  stRun_wf_C5b _ _ _ (flatRecs_wf_C5b (fun p hp => by
    obtain ⟨_, _, _, k3, _⟩ := h.files p hp; exact k3)) emptyState_wf_C5b h.rep.st

/-- The closed chunks of the image in the form `RecovC5b` wants, for a directory `fs'`
that agrees with `img` on the ids below `oid`. -/
theorem ImgHypC5b.closedFiles {img : Fs} {jc : List (Closed × List Record)} {oid : Nat}
    {jo : List Record} {stC : RState} {lC : Log} {g0 : File} (h : ImgHypC5b img jc oid jo stC lC g0)
    {fs' : Fs} (hsame : ∀ id, id < oid → fs'.find id = img.find id) :
    ∀ p ∈ jc, ∃ f, fs'.find p.1.id = some f ∧ f.linked = true ∧ f.data = encAll p.2 ∧
      f.durable = f.data.length ∧ ChunkRecs p.1.offsets p.2 (encAll p.2) := by
  intro p hp
  obtain ⟨f, k1, k2, k3, k4, k5⟩ := h.files p hp
  have hmem : f ∈ img := List.mem_of_find?_eq_some k1
  refine ⟨f, by rw [hsame _ (h.lt p hp)]; exact k1, (h.all f hmem).1, k2, (h.all f hmem).2, k3, k4, ?_, rfl⟩
  exact k5

/-- Events / directory of the optional truncation. -/
def truncEvsC5b (id : Nat) : Option Nat → List Ev
  | none => []
  | some len => [.trunc "o" id len, .sync "o" id true]

def truncFsC5b (fs : Fs) (id : Nat) : Option Nat → Fs
  | none => fs
  | some len => fs.truncate id len

theorem dropHeadless_fs_evs_C5b (a : OpenAcc) (id : Nat) (tr : Option Nat) :
    (a.dropHeadless id tr).fs = (truncFsC5b a.fs id tr).unlink id ∧
    (a.dropHeadless id tr).evs = a.evs ++ truncEvsC5b id tr ++ [.unlink "o" id true] := by
  cases tr with
  | none => exact ⟨rfl, by simp [OpenAcc.dropHeadless, OpenAcc.afterTrunc, OpenAcc.pre, truncEvsC5b]⟩
  | some len => exact ⟨rfl, by simp [OpenAcc.dropHeadless, OpenAcc.afterTrunc, OpenAcc.pre, truncEvsC5b]⟩

/-! ### Case C: the newest chunk holds no complete record -/

theorem openStore_caseC_C5b (cfg : Cfg) {img : Fs} {jc : List (Closed × List Record)} {oid : Nat}
    {jo : List Record} {stC : RState} {lC : Log} {g0 : File}
    (h : ImgHypC5b img jc oid jo stC lC g0) {a1 : OpenAcc} {tr : Option Nat}
    {pre : List Ev}
    (hfs : a1.fs = img) (hevs : a1.evs = pre) (hst : a1.sm.st = stC) (hlog : a1.sm.log = lC)
    (hcl : a1.sm.closed = jc.map (·.1)) (hrem : a1.sm.removed = []) (hcfg : a1.sm.cfg = cfg)
    (hmi : a1.sm.cache.maxItems = cfg.cacheItems) (hcap : a1.sm.cache.capacity = cfg.cacheCap)
    (hloop : openLoop cfg img.linkedIds { sm := emptyStore cfg, fs := img } =
      (.ok (a1.dropHeadless oid tr), a1.dropHeadless oid tr)) :
    ∃ s' w' fs' evs, openStore cfg img = (.ok (s', w'), fs', evs) ∧
      RecovC5b s' w' fs' jc [.state stC] ∧ s'.st = stC ∧ s'.log = lC ∧ s'.cfg = cfg ∧
      s'.cache.maxItems = cfg.cacheItems ∧ s'.cache.capacity = cfg.cacheCap ∧ s'.openId = oid ∧
      fs' = (((truncFsC5b img oid tr).unlink oid).create oid).write oid (encRecord (.state stC)) ∧
      evs = pre ++ (truncEvsC5b oid tr ++ [.unlink "o" oid true, .create "o" oid true,
        .write "o" oid (encRecord (.state stC)) true]) := by
  have hopen := openStore_fresh (n := oid) hloop (Or.inl rfl) rfl (dropHeadless_has a1 oid tr)
  have hsm := dropHeadless_sm_C5b a1 oid tr
  have hstF : (a1.dropHeadless oid tr).sm.st = stC := by rw [hsm]; exact hst
  rw [hstF] at hopen
  obtain ⟨hfsD, hevsD⟩ := dropHeadless_fs_evs_C5b a1 oid tr
  refine ⟨_, _, _, _, hopen, ?_, hstF, by rw [hsm]; exact hlog, by rw [hsm]; exact hcfg,
    by rw [hsm]; exact hmi, by rw [hsm]; exact hcap, rfl, by rw [hfsD, hfs],
    by rw [hevsD, hevs]; simp⟩
  obtain ⟨hnew, hother⟩ := find_create_write (a1.dropHeadless oid tr).fs oid (encRecord (.state stC))
  have hclF : (a1.dropHeadless oid tr).sm.closed = jc.map (·.1) := by rw [hsm]; exact hcl
  have hwfC := h.stC_wf
  refine ⟨by rw [← hclF], ?_, ?_, ?_, ?_, rfl, by rw [hsm]; exact hrem, ⟨_, rfl⟩, ?_, ?_, ?_, ?_⟩
  rotate_right
  · apply linked_create_write_C5b
    have hall : ∀ g ∈ a1.fs, g.linked = true := by rw [hfs]; exact fun g hg => (h.all g hg).1
    cases tr with
    | none => exact linked_unlink_C5b hall oid
    | some len => exact linked_unlink_C5b (linked_truncate_C5b hall oid len) oid
  · apply h.closedFiles
    intro id hid
    have hne : id ≠ oid := by omega
    rw [hother id hne, dropHeadless_find_other a1 hne tr, hfs]
  · refine ⟨_, hnew, rfl, by simp, ⟨?_, ⟨stC, [], rfl⟩, ?_, rfl⟩, Or.inr ⟨rfl, by rw [hstF], ?_⟩⟩
    · intro x hx; simp only [List.mem_singleton] at hx; subst hx; exact hwfC
    · simp [recSizes, offsetsFrom]
    · intro hjc
      subst hjc
      obtain ⟨e1, _⟩ := h.rep
      rw [hstF, e1]
  · refine ⟨stC, lC, h.rep, ?_, ?_, fun _ => ⟨[], rfl⟩⟩
    · rw [hstF]; simp [stRun, RState.apply]
    · have : (a1.dropHeadless oid tr).sm.log = lC := by rw [hsm]; exact hlog
      simp only [this]
      simp [chunkOps, opsFrom, idxRun, idxLogO]
  · show Chained (((a1.dropHeadless oid tr).sm.closed).map (·.offsets) ++ [[oid, oid + _]])
    rw [hclF, List.map_map]
    exact h.chained.replace_last (by rw [offsetsFrom_headD_C5b]; rfl)
  · intro id hid
    rw [Fs.has_write, Fs.has_create] at hid
    rw [Store.chunkIds_eq]
    show id ∈ ((a1.dropHeadless oid tr).sm.closed).map Closed.id ++ [oid]
    rw [hclF, List.map_map]
    by_cases hio : id = oid
    · subst hio; simp
    · rw [if_neg hio] at hid
      have := dropHeadless_has_of_C5b a1 oid tr hid
      rw [hfs] at this
      exact h.has this
  · rw [Fs.ids_write]
    apply Fs.ids_create_nodup
    rw [dropHeadless_ids_C5b, hfs]
    exact h.nodup
  · intro i hi
    rw [Fs.ids_write, Fs.ids_create_eq, dropHeadless_ids_C5b, hfs] at hi
    show i ≤ oid
    rcases List.mem_append.mp hi with k | k
    · exact h.idsLe i (List.mem_filter.mp k).1
    · simp only [List.mem_singleton] at k; omega

/-! ### Case A: the newest chunk ends cleanly and is reused as the open chunk -/

theorem chunkRecs_take_C5b {oid : Nat} {jo : List Record} (hwf : AllWF jo)
    (hhead : ∃ st tl, jo = .state st :: tl) {j : Nat} (hj : 1 ≤ j) :
    ChunkRecs (offsetsFrom oid (sizes (jo.take j))) (jo.take j) (encAll (jo.take j)) := by
  obtain ⟨st, tl, e⟩ := hhead
  refine ⟨hwf.take j, ⟨st, tl.take (j - 1), ?_⟩, ?_, rfl⟩
  · rw [e]
    cases j with
    | zero => omega
    | succ j' => simp
  · rw [offsetsFrom_headD_C5b]; rfl

theorem openStore_caseA_C5b (cfg : Cfg) {img : Fs} {jc : List (Closed × List Record)} {oid : Nat}
    {jo : List Record} {stC : RState} {lC : Log} {g0 : File}
    (h : ImgHypC5b img jc oid jo stC lC g0) {a1 : OpenAcc} {sm2 : Store} {j : Nat}
    {stJ : RState} {lJ : Log} (hj : 1 ≤ j)
    (hdata : g0.data = encAll (jo.take j))
    {pre : List Ev}
    (hfs : a1.fs = img) (hevs : a1.evs = pre)
    (hcl : a1.sm.closed = jc.map (·.1)) (hrem : a1.sm.removed = []) (hcfg : a1.sm.cfg = cfg)
    (hmi : a1.sm.cache.maxItems = cfg.cacheItems) (hcap : a1.sm.cache.capacity = cfg.cacheCap)
    (hst2 : sm2.st = stJ) (hlog2 : sm2.log = lJ) (hsame : SameRest a1.pre.sm sm2)
    (hstJ : stRun (jo.take j) stC = some stJ) (hlJ : idxRun (chunkOps oid (jo.take j)) lC = some lJ)
    (hloop : openLoop cfg img.linkedIds { sm := emptyStore cfg, fs := img } =
      (.ok (a1.loadedLastC5b oid (jo.take j) none sm2), a1.loadedLastC5b oid (jo.take j) none sm2)) :
    ∃ s' w', openStore cfg img = (.ok (s', w'), img, pre ++ [.sync "o" oid true]) ∧
      RecovC5b s' w' img jc (jo.take j) ∧ s'.st = stJ ∧ s'.log = lJ ∧ s'.cfg = cfg ∧
      s'.cache.maxItems = cfg.cacheItems ∧ s'.cache.capacity = cfg.cacheCap ∧ s'.openId = oid := by
  have hclF : (a1.loadedLastC5b oid (jo.take j) none sm2).sm.closed
      = jc.map (·.1) ++ [⟨offsetsFrom oid (sizes (jo.take j)), sm2.st⟩] := by
    simp only [OpenAcc.loadedLastC5b, hsame.closed]
    rw [← hcl]; rfl
  have hfsF : (a1.loadedLastC5b oid (jo.take j) none sm2).fs = img := by
    show a1.fs.sync oid = img
    rw [hfs]; exact h.allDurable.sync_eq oid
  have hevsF : (a1.loadedLastC5b oid (jo.take j) none sm2).evs = pre ++ [.sync "o" oid true] := by
    show a1.evs ++ [Ev.sync "o" oid true] = _
    rw [hevs]
  have hopen := openStore_of_loads cfg hloop hclF rfl hfsF hevsF
  have hid : (⟨offsetsFrom oid (sizes (jo.take j)), sm2.st⟩ : Closed).id = oid := by
    simp only [Closed.id, offsetsFrom_headD_C5b]
  rw [hid] at hopen
  obtain ⟨s', w', hopen', ⟨f1, f2, f3, f4, f5, f6, f7, f8⟩, hw'⟩ :
      ∃ s' w', openStore cfg img = (.ok (s', w'), img, pre ++ [.sync "o" oid true]) ∧
        (s'.st = sm2.st ∧ s'.log = sm2.log ∧ s'.closed = jc.map (·.1) ∧
          s'.openOffsets = offsetsFrom oid (sizes (jo.take j)) ∧ s'.pending = [] ∧
          s'.removed = sm2.removed ∧ s'.cfg = sm2.cfg ∧ s'.cache = sm2.cache) ∧
        w' = { files := [⟨oid, prevLastOf (jc.map (·.1))⟩] } :=
    by refine ⟨_, _, hopen, ?_, rfl⟩; exact ⟨rfl, rfl, rfl, rfl, rfl, rfl, rfl, rfl⟩
  have hoid : s'.openId = oid := by simp only [Store.openId, f4, offsetsFrom_headD_C5b]
  refine ⟨s', w', hopen', ?_, by rw [f1]; exact hst2, by rw [f2]; exact hlog2,
    by rw [f7, hsame.cfg]; exact hcfg, by rw [f8, hsame.maxItems]; exact hmi,
    by rw [f8, hsame.capacity]; exact hcap, hoid⟩
  have hmem0 : g0 ∈ img := List.mem_of_find?_eq_some h.g0
  refine ⟨f3.symm, h.closedFiles (fun _ _ => rfl), ?_, ?_, ?_, f5, ?_, ⟨_, by rw [hoid]; exact hw'⟩,
    ?_, h.nodup, ?_, fun g hg => (h.all g hg).1⟩
  · rw [hoid, f4]
    exact ⟨g0, h.g0, (h.all g0 hmem0).1, hdata, chunkRecs_take_C5b h.wfo h.head hj,
      Or.inl (h.all g0 hmem0).2⟩
  · rw [hoid, f1, f2]
    refine ⟨stC, lC, h.rep, by rw [hst2]; exact hstJ, by rw [hlog2]; exact hlJ, ?_⟩
    intro hne
    obtain ⟨tl, e⟩ := h.johead hne
    refine ⟨tl.take (j - 1), ?_⟩
    rw [e]
    cases j with
    | zero => omega
    | succ j' => simp
  · show Chained (s'.closed.map (·.offsets) ++ [s'.openOffsets])
    rw [f3, f4, List.map_map]
    exact h.chained.replace_last (by rw [offsetsFrom_headD_C5b, offsetsFrom_headD_C5b])
  · rw [f6, hsame.removed]; exact hrem
  · intro id hid'
    rw [Store.chunkIds_eq, hoid, f3, List.map_map]
    exact h.has hid'
  · intro i hi
    rw [hoid]
    exact h.idsLe i hi

/-! ### Case B: the newest chunk has a torn tail: cut back, closed, and followed by a fresh chunk -/

theorem openStore_caseB_C5b (cfg : Cfg) {img : Fs} {jc : List (Closed × List Record)} {oid : Nat}
    {jo : List Record} {stC : RState} {lC : Log} {g0 : File}
    (h : ImgHypC5b img jc oid jo stC lC g0) {a1 : OpenAcc} {sm2 : Store} {j : Nat} {rest : Bytes}
    {stJ : RState} {lJ : Log} (hj : 1 ≤ j) (hjl : j ≤ jo.length)
    (hdata : g0.data = encAll (jo.take j) ++ rest)
    {pre : List Ev}
    (hfs : a1.fs = img) (hevs : a1.evs = pre)
    (hcl : a1.sm.closed = jc.map (·.1)) (hrem : a1.sm.removed = []) (hcfg : a1.sm.cfg = cfg)
    (hmi : a1.sm.cache.maxItems = cfg.cacheItems) (hcap : a1.sm.cache.capacity = cfg.cacheCap)
    (hst2 : sm2.st = stJ) (hlog2 : sm2.log = lJ) (hsame : SameRest a1.pre.sm sm2)
    (hstJ : stRun (jo.take j) stC = some stJ) (hlJ : idxRun (chunkOps oid (jo.take j)) lC = some lJ)
    (hbelow : ∀ e ∈ lJ, optLe (some e.2.id) stJ.last = true)
    (hloop : openLoop cfg img.linkedIds { sm := emptyStore cfg, fs := img } =
      (.ok (a1.loadedLastC5b oid (jo.take j) (some (encAll (jo.take j)).length) sm2),
        a1.loadedLastC5b oid (jo.take j) (some (encAll (jo.take j)).length) sm2)) :
    ∃ s' w' fs' evs, openStore cfg img = (.ok (s', w'), fs', evs) ∧
      RecovC5b s' w' fs' (jc ++ [(⟨offsetsFrom oid (sizes (jo.take j)), stJ⟩, jo.take j)]) [.state stJ] ∧
      s'.st = stJ ∧ s'.log = lJ ∧ s'.cfg = cfg ∧
      s'.cache.maxItems = cfg.cacheItems ∧ s'.cache.capacity = cfg.cacheCap ∧
      s'.openId = oid + (encAll (jo.take j)).length ∧
      fs' = ((img.truncate oid (encAll (jo.take j)).length).create (oid + (encAll (jo.take j)).length)).write
        (oid + (encAll (jo.take j)).length) (encRecord (.state stJ)) ∧
      evs = pre ++ [.trunc "o" oid (encAll (jo.take j)).length, .sync "o" oid true, .sync "o" oid true,
        .create "o" (oid + (encAll (jo.take j)).length) true,
        .write "o" (oid + (encAll (jo.take j)).length) (encRecord (.state stJ)) true] := by
  have hne : jo.take j ≠ [] := by
    obtain ⟨st, tl, e⟩ := h.head
    rw [e]
    cases j with
    | zero => omega
    | succ j' => simp
  have hLpos := encAll_length_pos hne
  generalize hL : (encAll (jo.take j)).length = L at hloop hLpos ⊢
  generalize hrsj : jo.take j = rsj at *
  have hpe : (a1.loadedLastC5b oid rsj (some L) sm2).prevEnd.getD 0 = oid + L := by
    simp only [OpenAcc.loadedLastC5b, lastOff_sized, Option.getD_some, hL]
  have hfsF : (a1.loadedLastC5b oid rsj (some L) sm2).fs = img.truncate oid L := by
    show (a1.fs.truncate oid L).sync oid = _
    rw [hfs]; exact (h.allDurable.truncate oid L).sync_eq oid
  have hhas : (a1.loadedLastC5b oid rsj (some L) sm2).fs.has (oid + L) = false := by
    rw [hfsF, Fs.has_truncate]
    cases hx : img.has (oid + L) with
    | false => rfl
    | true =>
      exfalso
      obtain ⟨f, hf, _⟩ := has_find_C3 hx
      have hid : oid + L ∈ Fs.ids img :=
        (Fs.find_isSome_iff img _).mp (by rw [hf]; rfl)
      have := h.idsLe _ hid
      omega
  have hopen := openStore_fresh (n := oid + L) hloop (Or.inl rfl) hpe hhas
  have hstF : (a1.loadedLastC5b oid rsj (some L) sm2).sm.st = stJ := hst2
  rw [hstF, hfsF] at hopen
  have hclF : (a1.loadedLastC5b oid rsj (some L) sm2).sm.closed
      = jc.map (·.1) ++ [⟨offsetsFrom oid (sizes rsj), stJ⟩] := by
    simp only [OpenAcc.loadedLastC5b, hsame.closed, hst2]
    rw [← hcl]; rfl
  obtain ⟨s', w', fs', evs, hopen', ⟨f1, f2, f3, f4, f5, f6, f7, f8⟩, hw', hfs', hevs'⟩ :
      ∃ s' w' fs' evs, openStore cfg img = (.ok (s', w'), fs', evs) ∧
        (s'.st = sm2.st ∧ s'.log = sm2.log ∧
          s'.closed = jc.map (·.1) ++ [⟨offsetsFrom oid (sizes rsj), stJ⟩] ∧
          s'.openOffsets = [oid + L, oid + L + (encRecord (.state stJ)).length] ∧ s'.pending = [] ∧
          s'.removed = sm2.removed ∧ s'.cfg = sm2.cfg ∧ s'.cache = sm2.cache) ∧
        (∃ pl, w' = { files := [⟨oid + L, pl⟩] }) ∧
        fs' = ((img.truncate oid L).create (oid + L)).write (oid + L) (encRecord (.state stJ)) ∧
        evs = (a1.loadedLastC5b oid rsj (some L) sm2).evs ++ [.create "o" (oid + L) true,
          .write "o" (oid + L) (encRecord (.state stJ)) true] :=
    ⟨_, _, _, _, hopen, ⟨rfl, rfl, hclF, rfl, rfl, rfl, rfl, rfl⟩, ⟨_, rfl⟩, rfl, rfl⟩
  have hoid : s'.openId = oid + L := by simp only [Store.openId, f4]; rfl
  have hevsF : (a1.loadedLastC5b oid rsj (some L) sm2).evs
      = pre ++ [.trunc "o" oid L, .sync "o" oid true, .sync "o" oid true] := by
    show (a1.evs ++ [Ev.trunc "o" oid L, Ev.sync "o" oid true]) ++ [Ev.sync "o" oid true] = _
    rw [hevs]; simp
  refine ⟨s', w', fs', evs, hopen', ?_, by rw [f1]; exact hst2, by rw [f2]; exact hlog2,
    by rw [f7, hsame.cfg]; exact hcfg, by rw [f8, hsame.maxItems]; exact hmi,
    by rw [f8, hsame.capacity]; exact hcap, hoid, hfs', by rw [hevs', hevsF]; simp⟩
  obtain ⟨hnew, hother⟩ := find_create_write (img.truncate oid L) (oid + L) (encRecord (.state stJ))
  rw [← hfs'] at hnew hother
  have hmem0 : g0 ∈ img := List.mem_of_find?_eq_some h.g0
  have hwfJ : stJ.WF := stRun_wf_C5b _ _ _ (by rw [← hrsj]; exact h.wfo.take j) h.stC_wf hstJ
  have hcid : (⟨offsetsFrom oid (sizes rsj), stJ⟩ : Closed).id = oid := by
    simp only [Closed.id, offsetsFrom_headD_C5b]
  refine ⟨by rw [f3]; simp, ?_, ?_, ?_, ?_, f5, by rw [f6, hsame.removed]; exact hrem,
    by rw [hoid]; exact hw', ?_, ?_, ?_, ?_⟩
  rotate_right
  · rw [hfs']
    apply linked_create_write_C5b
    intro f hf _
    exact linked_truncate_C5b (fun g hg => (h.all g hg).1) oid L f hf
  · intro p hp
    rcases List.mem_append.mp hp with k | k
    · refine h.closedFiles ?_ p k
      intro id hid
      rw [hother id (by omega), find_truncate_ne_C5b img (by omega) L]
    · simp only [List.mem_singleton] at k
      subst k
      simp only [hcid]
      refine ⟨{ g0 with data := g0.data.take L, durable := min g0.durable L },
        by rw [hother oid (by omega), find_truncate_self_C5b h.g0 L], (h.all g0 hmem0).1, ?_, ?_, ?_⟩
      · show g0.data.take L = encAll rsj
        rw [hdata, ← hL]
        exact List.take_left' rfl
      · show min g0.durable L = (g0.data.take L).length
        rw [(h.all g0 hmem0).2, hdata, List.length_take, List.length_append]
        omega
      · rw [← hrsj]; exact chunkRecs_take_C5b h.wfo h.head hj
  · rw [hoid, f4]
    refine ⟨_, hnew, rfl, by simp, ⟨?_, ⟨stJ, [], rfl⟩, ?_, rfl⟩, Or.inr ⟨rfl, by rw [f1, hst2], ?_⟩⟩
    · intro x hx; simp only [List.mem_singleton] at hx; subst hx; exact hwfJ
    · simp [recSizes, offsetsFrom]
    · intro hnil; simp at hnil
  · rw [hoid, f1, f2, hst2, hlog2]
    refine ⟨stJ, lJ, h.rep.snoc hstJ (by rw [hcid]; exact hlJ) rfl hbelow ?_, ?_, ?_, fun _ => ⟨[], rfl⟩⟩
    · intro hjc
      obtain ⟨tl, e⟩ := h.johead hjc
      refine ⟨tl.take (j - 1), ?_⟩
      rw [← hrsj, e]
      cases j with
      | zero => omega
      | succ j' => simp
    · simp [stRun, RState.apply]
    · simp [chunkOps, opsFrom, idxRun, idxLogO]
  · show Chained (s'.closed.map (·.offsets) ++ [s'.openOffsets])
    rw [f3, f4, List.map_append, List.map_map]
    have h1 : Chained (jc.map (·.1.offsets) ++ [offsetsFrom oid (sizes rsj)]) :=
      h.chained.replace_last (by rw [offsetsFrom_headD_C5b, offsetsFrom_headD_C5b])
    exact h1.snoc (by rw [lastOff_sized, hL]; rfl)
  · intro id hid
    rw [hfs', Fs.has_write, Fs.has_create] at hid
    rw [Store.chunkIds_eq, hoid, f3, List.map_append, List.map_map]
    by_cases hio : id = oid + L
    · subst hio; simp
    · rw [if_neg hio, Fs.has_truncate] at hid
      have := h.has hid
      simp only [List.map_cons, List.map_nil, hcid]
      exact List.mem_append_left _ this
  · rw [hfs', Fs.ids_write]
    apply Fs.ids_create_nodup
    rw [ids_truncate_C5b]
    exact h.nodup
  · intro i hi
    rw [hfs', Fs.ids_write, Fs.ids_create_eq, ids_truncate_C5b] at hi
    rw [hoid]
    rcases List.mem_append.mp hi with k | k
    · have := h.idsLe i (List.mem_filter.mp k).1; omega
    · simp only [List.mem_singleton] at k; omega

/-! ### All cases -/

theorem jstart_eq_headD_C5b (s : Store) :
    s.jstart = (s.closed.map Closed.id ++ [s.openId]).headD 0 := by
  unfold Store.jstart
  cases s.closed <;> rfl

theorem RecovC5b.jstart_eq {s' : Store} {w' : Worker} {fs' : Fs} {jc' : List (Closed × List Record)}
    {jo' : List Record} (h : RecovC5b s' w' fs' jc' jo') :
    s'.jstart = (jc'.map (·.1.id) ++ [s'.openId]).headD 0 := by
  rw [jstart_eq_headD_C5b, ← h.closedEq, List.map_map]
  rfl

/-- The head `State` record that `open` writes into a fresh chunk. -/
def headOpC5b (st : RState) (n : Nat) : JOp := ⟨.state st, n, ⟨n, (encRecord (.state st)).length⟩⟩

/-- **`open` succeeds** on a directory whose chunks `jc` are complete and whose newest
chunk parses to the first `j` records of `jo` (clean end, torn record, or zero tail),
with `truncate` set. The result is described by `RecovC5b`; its journal is the replayed
prefix `P`, possibly followed by the head record of a fresh chunk. -/
theorem openStore_image_C5b (cfg : Cfg) (ht : cfg.truncate = true) {img : Fs}
    {jc : List (Closed × List Record)} {oid : Nat} {jo : List Record} {stC : RState} {lC : Log}
    {g0 : File} (h : ImgHypC5b img jc oid jo stC lC g0)
    {j : Nat} {e : ParseEnd} {rest : Bytes} {stJ : RState} {lJ : Log} (hj : j ≤ jo.length)
    (hparse : parseChunk g0.data = (sized (jo.take j), e, rest))
    (hdata : g0.data = encAll (jo.take j) ++ rest)
    (hcase : (e = .clean ∧ rest = []) ∨
     (e = .eof ∧ rest ≠ [] ∧ j < jo.length ∧ ∃ r t, r.WF ∧ t ≠ [] ∧ rest ++ t = encRecord r) ∨
     (∃ m, 1 ≤ m ∧ rest = List.replicate m 0 ∧ e = if m < 28 then .eof else .invalid))
    (hstJ : stRun (jo.take j) stC = some stJ) (hlJ : idxRun (chunkOps oid (jo.take j)) lC = some lJ)
    (hbelow : ∀ e ∈ lJ, optLe (some e.2.id) stJ.last = true) :
    ∃ s' w' fs' evs jc' jo', openStore cfg img = (.ok (s', w'), fs', evs) ∧
      RecovC5b s' w' fs' jc' jo' ∧ s'.st = stJ ∧ s'.log = lJ ∧ s'.cfg = cfg ∧
      s'.cache.maxItems = cfg.cacheItems ∧ s'.cache.capacity = cfg.cacheCap ∧
      stRunO (flatOps jc ++ chunkOps oid (jo.take j)) {} = some stJ ∧
      idxRun (flatOps jc ++ chunkOps oid (jo.take j)) [] = some lJ ∧
      ((allOps s' jc' jo' = flatOps jc ++ chunkOps oid (jo.take j) ∧
          ∀ f, fs'.find s'.openId = some f → f.durable = f.data.length) ∨
       (allOps s' jc' jo' = (flatOps jc ++ chunkOps oid (jo.take j)) ++ [headOpC5b s'.st s'.openId] ∧
          jo' = [.state s'.st])) ∧
      s'.jstart = (jc.map (·.1.id) ++ [oid]).headD 0 := by
  have hP1 := stRunO_flat_chunk_C5b (oid := oid) h.rep hstJ
  have hP2 := idxRun_flat_chunk_C5b h.rep hlJ
  obtain ⟨a1, sm2, k1, k2, k3, k4, k5, k6, k7, k8, k9, k10, k11, k12, k13, k14, hloop⟩ :=
    openLoop_image_ok_C5b cfg ht h.ids h.files' h.rep h.chained h.g0 hparse hcase hstJ hlJ
      h.allDurable
  by_cases hnil : jo.take j = []
  · -- case C
    rw [if_pos hnil] at hloop
    rw [hnil] at hstJ hlJ
    simp only [stRun, Option.some.injEq] at hstJ
    simp only [chunkOps, opsFrom, idxRun, Option.some.injEq] at hlJ
    subst hstJ; subst hlJ
    obtain ⟨s', w', fs', evs, q1, q2, q3, q4, q5, q6, q7, q8, _, _⟩ :=
      openStore_caseC_C5b cfg h k1 k2 k3 k4 k5 k6 k7 k8 k9 hloop
    refine ⟨s', w', fs', evs, jc, [.state stC], q1, q2, q3, q4, q5, q6, q7, hP1, hP2,
      Or.inr ⟨?_, by rw [q3]⟩, by rw [q2.jstart_eq, q8]⟩
    rw [hnil]
    simp only [allOps, q8, q3, chunkOps, opsFrom, headOpC5b, List.append_nil]
  · rw [if_neg hnil] at hloop
    have hj1 : 1 ≤ j := by
      cases j with
      | zero => exact absurd rfl hnil
      | succ j' => omega
    by_cases hrest : rest = []
    · -- case A
      have htr : tailTruncC5b (jo.take j) rest = none := by simp [tailTruncC5b, hrest]
      rw [htr] at hloop
      rw [hrest, List.append_nil] at hdata
      obtain ⟨s', w', q1, q2, q3, q4, q5, q6, q7, q8⟩ :=
        openStore_caseA_C5b cfg h hj1 hdata k1 k2 k5 k6 k7 k8 k9 k12 k13 k14 hstJ hlJ hloop
      refine ⟨s', w', img, _, jc, jo.take j, q1, q2, q3, q4, q5, q6, q7, hP1, hP2, Or.inl ⟨?_, ?_⟩,
        by rw [q2.jstart_eq, q8]⟩
      · simp only [allOps, q8]
      · intro f hf
        exact (h.all f (List.mem_of_find?_eq_some hf)).2
    · -- case B
      have htr : tailTruncC5b (jo.take j) rest = some (encAll (jo.take j)).length := by
        simp [tailTruncC5b, hrest]
      rw [htr] at hloop
      obtain ⟨s', w', fs', evs, q1, q2, q3, q4, q5, q6, q7, q8, _, _⟩ :=
        openStore_caseB_C5b cfg h hj1 hj hdata k1 k2 k5 k6 k7 k8 k9 k12 k13 k14 hstJ hlJ hbelow hloop
      refine ⟨s', w', fs', evs, _, _, q1, q2, q3, q4, q5, q6, q7, hP1, hP2, Or.inr ⟨?_, by rw [q3]⟩, ?_⟩
      · simp only [allOps, q8, q3, flatOps_append, flatOps, chunkOps, opsFrom, headOpC5b, List.append_nil,
          Closed.id, offsetsFrom_headD_C5b, List.append_assoc]
      · rw [q2.jstart_eq]
        simp only [List.map_append, List.map_cons, List.map_nil, Closed.id, offsetsFrom_headD_C5b,
          List.append_assoc]
        clear q2 q1 hloop k5 hP1 hP2 h
        cases jc <;> rfl

end RaftLog
