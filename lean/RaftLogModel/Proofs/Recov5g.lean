/-
C05 (crash recoverability), part 7: a sufficient condition for "no torn predecessor":
the acknowledged position is at or beyond the start of the newest chunk. Then every
linked file except the newest is durable to its end, and every crash image keeps it whole.
-/
import RaftLogModel.Proofs.Recov5f
namespace RaftLog

theorem abut_at_C5b : ∀ (l1 : List (Closed × List Record)) (p q : Closed × List Record)
    (l2 : List (Closed × List Record)), AbutC3 (l1 ++ p :: q :: l2) →
    q.1.id = p.1.id + (encAll p.2).length := by
  intro l1
  induction l1 with
  | nil => intro p q l2 h; exact h.1
  | cons x l1 ih => intro p q l2 h; exact ih p q l2 h.tail

/-- A file that is durable to the end of its chunk survives every crash whole. -/
theorem cutOf_whole_C5b {rs : List Record} {f g : File} {t : Bytes} (hf : f.data ++ t = encAll rs)
    (hdur : (encAll rs).length ≤ f.durable) (hc : CutOf f g) : g.data = encAll rs := by
  have hlen : f.data.length ≤ (encAll rs).length := by
    have := congrArg List.length hf
    simp only [List.length_append] at this
    omega
  obtain ⟨_, _, _, hcut⟩ := hc
  rcases hcut with ⟨k, hk1, hk2, hg⟩ | ⟨b, m, hb1, _, hm, hm2, _⟩
  · have hkl : k = f.data.length := by omega
    have hfl : f.data.length = (encAll rs).length := by omega
    have ht : t = [] := by
      have := congrArg List.length hf
      simp only [List.length_append] at this
      exact List.eq_nil_of_length_eq_zero (by omega)
    rw [hg, hkl, List.take_length, ← hf, ht, List.append_nil]
  · omega

theorem noTorn_of_acked_C5b {G : Store} {fs : Fs} {w : Worker} {jc : List (Closed × List Record)}
    {jo : List Record} {A : Nat} (g : RepG G fs w jc jo) (hj : JInv G fs w)
    (hD : ∀ p ∈ liveChunksC3 G jc jo, ∀ f, fs.find p.1.id = some f →
      min (encAll p.2).length (A - p.1.id) ≤ f.durable)
    (hlive : ∀ id ∈ G.chunkIds, fs.has id = true) (hlinked : fs.linkedIds = G.chunkIds)
    (hA : G.openId ≤ A) {img : Fs} (hc : CrashImage fs img) : NoTornPredecessor img := by
  intro pre a b post hids
  rw [hc.linkedIds, hlinked, ← liveChunks_ids_C3 g] at hids
  obtain ⟨l1, l', hsplit, _, hl'⟩ := List.map_eq_append_iff.mp hids
  obtain ⟨p, l'', e1, hpa, hl''⟩ := List.map_eq_cons_iff.mp hl'
  obtain ⟨q, l2, e2, hqb, _⟩ := List.map_eq_cons_iff.mp hl''
  subst e1; subst e2
  have habut := abut_liveChunks_C5b g hj
  rw [hsplit] at habut
  have hnext := abut_at_C5b l1 p q l2 habut
  have hp : p ∈ liveChunksC3 G jc jo := by rw [hsplit]; simp
  have hq : q ∈ liveChunksC3 G jc jo := by rw [hsplit]; simp
  obtain ⟨k1, _, _, k4, t, k5⟩ := liveChunks_recs_C3 g p hp
  obtain ⟨_, _, _, k4q, _, _⟩ := liveChunks_recs_C3 g q hq
  obtain ⟨f, hf, hfl⟩ := has_find_C3 (hlive _ k4)
  obtain ⟨g', hg1, hg2⟩ := hc.find hf hfl
  rw [fdata_of_find_C3 hf] at k5
  -- `q` starts at or below the newest chunk
  have hqle : q.1.id ≤ G.openId := by
    have hs := hj.chunkIds_sorted
    rw [Store.chunkIds_eq] at hs k4q
    rcases List.mem_append.mp k4q with k | k
    · have := (List.pairwise_append.mp hs).2.2 _ k G.openId (by simp)
      omega
    · simp only [List.mem_singleton] at k; omega
  have hdur : (encAll p.2).length ≤ f.durable := by
    have := hD p hp f hf
    omega
  have hwhole := cutOf_whole_C5b k5 hdur hg2
  refine ⟨g', by rw [← hpa]; exact hg1, ?_, ?_⟩
  · rw [hwhole, parse_encAll' k1]
  · rw [hwhole, ← hpa, ← hqb, hnext]

end RaftLog
