/-
C05 (crash recoverability), part 14: a crash at any moment of recovery, for histories from
a freshly opened store.
-/
import RaftLogModel.Proofs.Recov5n
namespace RaftLog

theorem crash_recovery_steps_reach_C5b (cfg cfg' cfg'' : Cfg) (steps : List Step) (r : RefLog)
    (hsteps : ∀ st ∈ steps, st.journal = true)
    (hlegal : RefLog.run {} (stepOps steps) = some r)
    (hwf : ∀ op ∈ stepOps steps, op.WF ∧ op.small)
    (halive : ((Sys.fresh cfg).run steps).worker.pc ≠ .dead)
    {img : Fs} (hc : CrashImage ((Sys.fresh cfg).run steps).fs img) (hnt : NoTornPredecessor img)
    (ht : cfg'.truncate = true) (ht'' : cfg''.truncate = true) :
    ∃ s' w' fs' evs, openStore cfg' img = (.ok (s', w'), fs', evs) ∧ openEffsC5b evs img = fs' ∧
      ∀ k X', CrashImage (openEffsC5b (evs.take k) img) X' →
        ∃ s'' w'' fs'' evs'', openStore cfg'' X' = (.ok (s'', w''), fs'', evs'') ∧
          s''.st = s'.st ∧ s''.log = s'.log := by
  obtain ⟨⟨s, hs, _, _⟩, ⟨s1, hs1, hli⟩, _, _⟩ := reach_HSys cfg steps r hsteps hlegal hwf halive
  rw [hs] at hs1; cases hs1
  obtain ⟨s0, Bh, gs, hs0, h⟩ := run_GSys_C3b steps (Sys.fresh cfg) {} r [] 0 0 0 0 (fresh_HSys cfg)
    (fresh_GSys_C3b cfg) hsteps hlegal hwf halive
  rw [hs] at hs0; cases hs0
  obtain ⟨jc, jo, g, hhist⟩ := h.base.hist
  have hlinked : ((Sys.fresh cfg).run steps).fs.linkedIds = (s.liftC3b (ghostClosedC3b gs)).chunkIds := by
    rw [liftC3b_chunkIds]; exact h.linkedIds hli
  obtain ⟨stC, lC, g0, j, e, rest, n, r', l, N0, himg, hjl, hparse, hdata, hcase, hstJ, hlJ, hbelow, _⟩ :=
    ghost_prep_C5b g h.base.inv.j hhist h.ack (h.base.dur.live_durable_C3 g) (h.live hli) hlinked
      hli.nodup hc hnt
  obtain ⟨s', w', fs', evs, q1, q2, q3, q4, q5⟩ :=
    openStore_image_steps_C5b cfg' cfg'' ht ht'' himg hjl hparse hdata hcase hstJ hlJ hbelow
  refine ⟨s', w', fs', evs, q1, q4, ?_⟩
  intro k X' hcx
  obtain ⟨s'', w'', fs'', evs'', r1, r2, r3⟩ := q5 k X' hcx
  exact ⟨s'', w'', fs'', evs'', r1, by rw [r2, q2], by rw [r3, q3]⟩

end RaftLog
