/-
C03, closing the gap `B ≤ A` (continued): the marker invariant `MInvC3b` under the
caller-thread steps (calls, flush), under `runQuiet`, and along whole histories.
Result: `mark_le_ack_of_quiet_C3b`.
-/
import RaftLogModel.Proofs.CrashQ
namespace RaftLog

/-! ### What a caller-thread call sends, and what it does to the removal list -/

/-- The result of a (part of a) call: the journal end is at or beyond `N`, the
removal list is `R`, every write request sent has `upto ≥ N`. -/
def CallOKC3b {α : Type} (N : Nat) (R : List Nat) (x : Res α × Store × List Eff) : Prop :=
  N ≤ x.2.1.openEnd ∧ x.2.1.removed = R ∧ AllGeC3b N (effQ x.2.2)

theorem AllGeC3b.nil (B : Nat) : AllGeC3b B [] := fun r hr => by cases hr

theorem AllGeC3b.mono {B B' : Nat} {l : List WReq} (h : AllGeC3b B l) (hle : B' ≤ B) : AllGeC3b B' l :=
  fun r hr hw => Nat.le_trans hle (h r hr hw)

theorem tryCloseFull_facts_C3b (s : Store) (fsHas : Nat → Bool) :
    CallOKC3b s.openEnd s.removed (s.tryCloseFull fsHas) := by
  unfold Store.tryCloseFull
  by_cases hf : s.isOpenFull = true
  · by_cases he : fsHas s.openEnd = true
    · simp only [hf, he, Bool.not_true, Bool.false_eq_true, if_false, if_true]
      exact ⟨Nat.le_refl _, rfl, by simpa [effQ] using AllGeC3b.nil _⟩
    · simp only [hf, he, Bool.not_true, Bool.false_eq_true, if_false]
      refine ⟨?_, rfl, ?_⟩
      · simp [Store.openEnd, lastOff]
      · intro r hr hw
        by_cases hp : s.pending.isEmpty = true
        · simp [hp, effQ] at hr
          subst hr; cases hw
        · simp [hp, effQ] at hr
          rcases hr with k | k
          · subst k; exact Nat.le_refl _
          · subst k; cases hw
  · simp only [hf, Bool.not_false, if_true]
    exact ⟨Nat.le_refl _, rfl, by simpa [effQ] using AllGeC3b.nil _⟩

theorem applyIndex_keeps_C3b {s s2 : Store} {r : Record} {chunk : Nat} {seg : Seg}
    (h : s.applyIndex r chunk seg = some s2) :
    s2.openOffsets = s.openOffsets ∧ s2.removed = s.removed := by
  cases r with
  | saveVote v => simp only [Store.applyIndex, Option.some.injEq] at h; subst h; exact ⟨rfl, rfl⟩
  | commit id => simp only [Store.applyIndex, Option.some.injEq] at h; subst h; exact ⟨rfl, rfl⟩
  | state x => simp only [Store.applyIndex, Option.some.injEq] at h; subst h; exact ⟨rfl, rfl⟩
  | append id p => simp only [Store.applyIndex, Option.some.injEq] at h; subst h; exact ⟨rfl, rfl⟩
  | truncateAfter o =>
    simp only [Store.applyIndex] at h
    split at h
    · cases h
    · simp only [Option.some.injEq] at h; subst h; exact ⟨rfl, rfl⟩
  | purgeUpto id =>
    simp only [Store.applyIndex] at h
    split at h
    · cases h
    · simp only [Option.some.injEq] at h; subst h; exact ⟨rfl, rfl⟩

theorem appendAndApply_facts_C3b (s : Store) (fsHas : Nat → Bool) (r : Record) :
    CallOKC3b s.openEnd s.removed (s.appendAndApply fsHas r) := by
  unfold Store.appendAndApply
  split
  · exact ⟨Nat.le_refl _, rfl, by simpa [effQ] using AllGeC3b.nil _⟩
  · exact ⟨Nat.le_refl _, rfl, by simpa [effQ] using AllGeC3b.nil _⟩
  · dsimp only
    have hend : s.openEnd ≤ lastOff (s.openOffsets ++ [s.openEnd + (encRecord r).length]) := by
      rw [lastOff_append]; omega
    split
    · exact ⟨hend, rfl, by simpa [effQ] using AllGeC3b.nil _⟩
    · rename_i st' _ _ s2 hs2
      obtain ⟨k1, k2⟩ := applyIndex_keeps_C3b hs2
      have h3 := tryCloseFull_facts_C3b ({ s2 with st := st' } : Store) fsHas
      have e1 : ({ s2 with st := st' } : Store).openEnd
          = lastOff (s.openOffsets ++ [s.openEnd + (encRecord r).length]) := by
        simp only [Store.openEnd, k1]
      have e2 : ({ s2 with st := st' } : Store).removed = s.removed := k2
      have hend' : s.openEnd ≤ ({ s2 with st := st' } : Store).openEnd := by rw [e1]; exact hend
      have h4 : CallOKC3b s.openEnd s.removed (Store.tryCloseFull ({ s2 with st := st' } : Store) fsHas) :=
        ⟨Nat.le_trans hend' h3.1, h3.2.1.trans e2, h3.2.2.mono hend'⟩
      generalize Store.tryCloseFull ({ s2 with st := st' } : Store) fsHas = x at h4 ⊢
      obtain ⟨res, s4, effs⟩ := x
      cases res <;> exact h4

theorem appendBatch_facts_C3b (N : Nat) (es : List (LogId × Bytes)) :
    ∀ (fsHas : Nat → Bool) (s : Store) (seg : Seg) (effs : List Eff),
    N ≤ s.openEnd → AllGeC3b N (effQ effs) →
    CallOKC3b N s.removed (Store.appendBatch fsHas es s seg effs) := by
  induction es with
  | nil => intro fsHas s seg effs h1 h2; exact ⟨h1, rfl, h2⟩
  | cons e rest ih =>
    intro fsHas s seg effs h1 h2
    obtain ⟨id, p⟩ := e
    unfold Store.appendBatch
    have hf := appendAndApply_facts_C3b s fsHas (.append id p)
    split
    · exact ⟨h1, rfl, h2⟩
    split
    · rename_i seg' s' e' heq
      rw [heq] at hf
      have := ih (fun i => fsHas i || e'.any (fun e => e == .create i)) s' seg' (effs ++ e')
        (Nat.le_trans h1 hf.1) (by rw [effQ_append]; exact h2.append (hf.2.2.mono h1))
      rw [hf.2.1] at this
      exact this
    · rename_i k s' e' heq
      rw [heq] at hf
      exact ⟨Nat.le_trans h1 hf.1, hf.2.1, by rw [effQ_append]; exact h2.append (hf.2.2.mono h1)⟩
    · rename_i m s' e' heq
      rw [heq] at hf
      exact ⟨Nat.le_trans h1 hf.1, hf.2.1, by rw [effQ_append]; exact h2.append (hf.2.2.mono h1)⟩

/-- **A public call** only appends to the removal list, and every write request it
sends has `upto` at or beyond the journal end before the call. -/
theorem call_facts_C3b (s : Store) (fsHas : Nat → Bool) (op : Op) :
    (∃ x, (s.call fsHas op).2.1.removed = s.removed ++ x) ∧
      AllGeC3b s.openEnd (effQ (s.call fsHas op).2.2) := by
  have key : ∀ {x : Res Seg × Store × List Eff}, CallOKC3b s.openEnd s.removed x →
      (∃ y, x.2.1.removed = s.removed ++ y) ∧ AllGeC3b s.openEnd (effQ x.2.2) :=
    fun h => ⟨⟨[], by rw [h.2.1, List.append_nil]⟩, h.2.2⟩
  have same : ∀ (r : Res Seg), CallOKC3b s.openEnd s.removed (r, s, ([] : List Eff)) :=
    fun r => ⟨Nat.le_refl _, rfl, by simpa [effQ] using AllGeC3b.nil _⟩
  cases op with
  | saveVote v => exact key (appendAndApply_facts_C3b _ _ _)
  | commit id => exact key (appendAndApply_facts_C3b _ _ _)
  | saveUserData d => exact key (appendAndApply_facts_C3b _ _ _)
  | append es =>
    simp only [Store.call]
    split
    · exact key (same _)
    · exact key (appendBatch_facts_C3b s.openEnd es _ s _ [] (Nat.le_refl _)
        (by simpa [effQ] using AllGeC3b.nil _))
  | truncate idx =>
    simp only [Store.call]
    split
    · exact key (same _)
    · split
      · exact key (appendAndApply_facts_C3b _ _ _)
      · split
        · exact key (same _)
        · split
          · exact key (same _)
          · exact key (appendAndApply_facts_C3b _ _ _)
  | purge upto =>
    simp only [Store.call]
    split
    · exact key (same _)
    split
    · exact key (same _)
    · split
      · split <;> exact key (same _)
      · have := appendAndApply_facts_C3b s fsHas (.purgeUpto upto)
        generalize s.appendAndApply fsHas (.purgeUpto upto) = x at this ⊢
        obtain ⟨res, s4, effs⟩ := x
        cases res with
        | ok seg => exact ⟨⟨_, by simp only; rw [this.2.1]⟩, this.2.2⟩
        | err k => exact key this
        | panic m => exact key this

/-! ### `WGuardC3b` under the caller-thread steps -/

theorem WGuardC3b.push {B : Nat} {w : Worker} (h : WGuardC3b B w) (q : List WReq)
    (hq : AllGeC3b B q) : WGuardC3b B (w.push q) := by
  have h1 : GDC3b B (w.push q).rest w.postponed (PcSafeC3b B w) := by
    rw [Worker.push_rest]; exact GDC3b.push h hq
  exact h1

theorem WGuardC3b.settle {B : Nat} {w : Worker} (h : WGuardC3b B w) : WGuardC3b B w.settle := by
  unfold Worker.settle
  split
  · rename_i r q hpc hq
    have h0 : GDC3b B (r :: q) w.postponed (w.lastSyncFailed = true) := by
      simpa [WGuardC3b, Worker.rest, hpc, hq, WPc.inHand, PcSafeC3b] using h
    simpa [WGuardC3b, Worker.rest, WPc.inHand, PcSafeC3b] using h0
  · exact h

theorem MInvC3b.push_settle {s s' : Store} {w : Worker} {B A : Nat} (h : MInvC3b s w B A)
    (q : List WReq) (hq : AllGeC3b B q) (hr : s.removed ≠ [] → s'.removed ≠ []) :
    MInvC3b s' (w.push q).settle B A := by
  rcases h with h | h | h
  · exact Or.inl h
  · exact Or.inr (Or.inl (hr h))
  · exact Or.inr (Or.inr (h.push q hq).settle)

/-- A public call: the marker moves as `markAfter` says. -/
theorem MInvC3b.call {s : Store} {w : Worker} {B A : Nat} (h : MInvC3b s w B A)
    (hmk : B ≤ s.openEnd) (fsHas : Nat → Bool) (op : Op) :
    MInvC3b (s.call fsHas op).2.1 (w.push (effQ (s.call fsHas op).2.2)).settle
      (markAfter s (s.call fsHas op).2.1 B) A := by
  obtain ⟨⟨x, hx⟩, hge⟩ := call_facts_C3b s fsHas op
  unfold markAfter
  by_cases hlen : (s.call fsHas op).2.1.removed.length = s.removed.length
  · rw [if_pos hlen]
    apply h.push_settle _ (hge.mono hmk)
    intro hne e
    rw [e] at hlen
    exact hne (List.length_eq_zero_iff.mp hlen.symm)
  · rw [if_neg hlen]
    right; left
    intro e
    rw [e] at hx hlen
    have : s.removed = [] := (List.append_eq_nil_iff.mp hx.symm).1
    rw [this] at hlen
    exact hlen rfl

/-- Flush: the removal list becomes a removal request behind a write with
`upto` = the journal end. -/
theorem MInvC3b.flush {s : Store} {w : Worker} {B A : Nat} (h : MInvC3b s w B A)
    (hmk : B ≤ s.openEnd) (cb : Option Nat) :
    MInvC3b (s.flush cb).1 (w.push (effQ (s.flush cb).2)).settle B A := by
  rw [flush_effQ_C3]
  have hq : AllGeC3b B (.write s.openEnd s.pending cb ::
      (if s.removed.isEmpty then [] else [.removeChunks s.removed])) := by
    intro r hr hw
    rcases List.mem_cons.mp hr with k | k
    · subst k; exact hmk
    · by_cases hrm : s.removed.isEmpty = true
      · simp [hrm] at k
      · simp only [hrm, Bool.false_eq_true, if_false, List.mem_singleton] at k
        subst k; cases hw
  rcases h with h | h | h
  · exact Or.inl h
  · right; right
    apply WGuardC3b.settle
    have hrm : ¬ s.removed.isEmpty = true := by
      intro e; exact h (by simpa using e)
    simp only [hrm, Bool.false_eq_true, if_false] at hq ⊢
    have : GDC3b B (w.push [.write s.openEnd s.pending cb, .removeChunks s.removed]).rest
        w.postponed (PcSafeC3b B w) := by
      rw [Worker.push_rest]
      refine Or.inl ⟨w.rest, _, rfl, hq, ⟨_, _, rfl, rfl⟩, ?_⟩
      simpa [rmIds] using h
    exact this
  · exact Or.inr (Or.inr (h.push _ hq).settle)

/-! ### `runQuiet` -/

theorem WGuard_runQuiet_C3b {B : Nat} (n : Nat) : ∀ (c : WCtx) (A : Nat), c.w.WF →
    c.w.pc.ok c.w.files → (∀ a ∈ c.w.announced, a ∈ Fs.ids c.fs) →
    (B ≤ A ∨ WGuardC3b B c.w) → (WCtx.runQuiet n c).w.pc ≠ .dead →
    B ≤ WCtx.ackQuiet n c A ∨ WGuardC3b B (WCtx.runQuiet n c).w := by
  induction n with
  | zero => intro c A _ _ _ h _; exact h
  | succ n ih =>
    intro c A hwf hok hann h hnd
    unfold WCtx.runQuiet at hnd ⊢
    unfold WCtx.ackQuiet
    by_cases hq : c.w.quiet = true
    · simp only [hq, if_true] at hnd ⊢
      exact h
    · simp only [hq] at hnd ⊢
      have hnd1 : (c.step .ok).w.pc ≠ .dead := by
        intro hdead
        rw [WCtx.runQuiet_dead n _ hdead] at hnd
        exact hnd hdead
      have g := WCtx.step_good c .ok hok (hann _ (by simp [Worker.announced])) hnd1
      have hids := WCtx.step_ids c .ok
      refine ih (c.step .ok) _ (c.step_wf .ok hwf) g.wok
        (fun a ha => by rw [hids]; exact hann a (g.ann.subset ha)) ?_ hnd
      rcases h with h | h
      · exact Or.inl (Nat.le_trans h (c.le_ackStep .ok A))
      · exact WGuardC3b.step c .ok A hwf hok h hnd1

/-! ### System level -/

/-- The marker invariant of a system with a live store. -/
def QSysC3b (y : Sys) (B A : Nat) : Prop := ∃ s, y.store = some s ∧ MInvC3b s y.worker B A

theorem QSysC3b.step {y : Sys} {r : RefLog} {W : List Op} {B A E K : Nat}
    (hh : HSys y r W B A E K) (h : QSysC3b y B A) (st : Step) (hst : st.journal = true)
    (hnd : (y.step st).worker.pc ≠ .dead) :
    QSysC3b (y.step st) (y.markStep st B) (y.ackStep st A) := by
  obtain ⟨⟨s, hs, hd, hi⟩, _, _, hswf⟩ := hh
  obtain ⟨s0, hs0, hm⟩ := h
  rw [hs] at hs0; cases hs0
  have hwf : y.worker.WF := (hswf (by rw [hs]; simp)).1
  cases st with
  | drop => cases hst
  | openWith c => cases hst
  | drain =>
    have e1 : y.markStep .drain B = B := by simp [Sys.markStep]
    have e2 : y.ackStep .drain A = A := by simp [Sys.ackStep]
    rw [e1, e2]
    show QSysC3b y.drain B A
    simp only [Sys.drain, hs]
    exact ⟨_, rfl, hm⟩
  | call op =>
    obtain ⟨e1, _⟩ := Sys.call_eq y op s hs hd
    have hstep : y.step (.call op) = (y.call op).2.1 := rfl
    have hst' : (y.step (.call op)).store = some (s.call y.fs.has op).2.1 := by rw [hstep, e1]
    have hmk : y.markStep (.call op) B = markAfter s (s.call y.fs.has op).2.1 B := by
      simp only [Sys.markStep, hs, hst']
    have e2 : y.ackStep (.call op) A = A := by simp [Sys.ackStep]
    rw [hmk, e2, hstep, e1]
    exact ⟨_, rfl, hm.call hi.markLe y.fs.has op⟩
  | flush cb =>
    have e1 : y.markStep (.flush cb) B = B := by simp [Sys.markStep]
    have e2 : y.ackStep (.flush cb) A = A := by simp [Sys.ackStep]
    rw [e1, e2]
    show QSysC3b (y.flush cb).2.1 B A
    rw [Sys.flush_eq y cb s hs hd]
    exact ⟨_, rfl, hm.flush hi.markLe cb⟩
  | worker out =>
    have e1 : y.markStep (.worker out) B = B := by simp [Sys.markStep]
    rw [e1]
    have hnd' : (y.workerStep out).1.worker.pc ≠ .dead := hnd
    show QSysC3b (y.workerStep out).1 B (y.ackStep (.worker out) A)
    simp only [Sys.workerStep, hs] at hnd' ⊢
    simp only [Sys.ackStep, hs]
    refine ⟨_, rfl, ?_⟩
    rcases hm with k | k | k
    · exact Or.inl (Nat.le_trans k (WCtx.le_ackStep _ out A))
    · exact Or.inr (Or.inl k)
    · rcases WGuardC3b.step { w := y.worker, fs := y.fs, cache := s.cache } out A hwf hi.inv.j.wok k hnd'
        with k' | k'
      · exact Or.inl k'
      · exact Or.inr (Or.inr k')
  | workerIdle =>
    have e1 : y.markStep .workerIdle B = B := by simp [Sys.markStep]
    rw [e1]
    have hnd' : y.workerIdle.1.worker.pc ≠ .dead := hnd
    show QSysC3b y.workerIdle.1 B (y.ackStep .workerIdle A)
    simp only [Sys.workerIdle, hs] at hnd' ⊢
    simp only [Sys.ackStep, hs]
    refine ⟨_, rfl, ?_⟩
    rcases hm with k | k | k
    · exact Or.inl (Nat.le_trans k (WCtx.le_ackQuiet _ _ A))
    · exact Or.inr (Or.inl k)
    · rcases WGuard_runQuiet_C3b y.worker.fuel { w := y.worker, fs := y.fs, cache := s.cache } A hwf
          hi.inv.j.wok hi.inv.j.annFs (Or.inr k) hnd' with k' | k'
      · exact Or.inl k'
      · exact Or.inr (Or.inr k')

/-- **The marker invariant along histories.** -/
theorem run_QSys_C3b (steps : List Step) : ∀ (y : Sys) (r r' : RefLog) (W : List Op) (B A E K : Nat),
    HSys y r W B A E K → QSysC3b y B A → (∀ st ∈ steps, st.journal = true) →
    r.run (stepOps steps) = some r' → (∀ op ∈ stepOps steps, op.WF ∧ op.small) →
    (y.run steps).worker.pc ≠ .dead →
    QSysC3b (y.run steps) (y.markRun steps B) (y.ackRun steps A) := by
  induction steps with
  | nil => intro y r r' W B A E K _ h _ _ _ _; exact h
  | cons st rest ih =>
    intro y r r' W B A E K hh h hst hr hwf hnd
    simp only [Sys.run, List.foldl_cons] at hnd ⊢
    have hrest : ∀ s ∈ rest, s.journal = true := fun s hs => hst s (List.mem_cons_of_mem _ hs)
    have hnd1 : (y.step st).worker.pc ≠ .dead := by
      intro hdead
      exact hnd (Sys.run_dead rest _ hrest hdead)
    rw [stepOps_cons, RefLog.run_append] at hr
    cases hr1 : r.run (stepOps [st]) with
    | none => rw [hr1] at hr; cases hr
    | some r1 =>
      rw [hr1] at hr
      simp only [Option.bind_some] at hr
      have hwf1 : ∀ op, st = .call op → op.WF ∧ op.small := by
        intro op e; subst e; exact hwf op (by simp [stepOps])
      have hwf2 : ∀ op ∈ stepOps rest, op.WF ∧ op.small := by
        intro op hop
        apply hwf op
        rw [stepOps_cons]; exact List.mem_append_right _ hop
      have hh1 := hh.step st (hst st List.mem_cons_self) hr1 hwf1 hnd1
      have h1 := h.step hh st (hst st List.mem_cons_self) hnd1
      exact ih (y.step st) r1 r' _ _ _ E K hh1 h1 hrest hr hwf2 hnd

theorem fresh_QSys_C3b (cfg : Cfg) : QSysC3b (Sys.fresh cfg) 0 0 := by
  obtain ⟨⟨s, hs, _, _⟩, _⟩ := fresh_HSys cfg
  exact ⟨s, hs, Or.inl (Nat.le_refl _)⟩

/-- The marker invariant along every legal history from a freshly opened store. -/
theorem reach_QSys_C3b (cfg : Cfg) (steps : List Step) (r : RefLog)
    (hsteps : ∀ st ∈ steps, st.journal = true)
    (hlegal : RefLog.run {} (stepOps steps) = some r)
    (hwf : ∀ op ∈ stepOps steps, op.WF ∧ op.small)
    (halive : ((Sys.fresh cfg).run steps).worker.pc ≠ .dead) :
    QSysC3b ((Sys.fresh cfg).run steps) ((Sys.fresh cfg).markRun steps 0)
      ((Sys.fresh cfg).ackRun steps 0) :=
  run_QSys_C3b steps (Sys.fresh cfg) {} r [] 0 0 0 0 (fresh_HSys cfg) (fresh_QSys_C3b cfg) hsteps hlegal
    hwf halive

/-- A guarded worker still has something to unlink. -/
theorem WGuardC3b.toRemove_ne {B : Nat} {w : Worker} (h : WGuardC3b B w) : w.toRemove ≠ [] := by
  intro e
  simp only [Worker.toRemove, List.append_eq_nil_iff] at e
  obtain ⟨⟨e1, _⟩, e3⟩ := e
  have e3' : rmIds w.rest = [] := e3
  rcases h with ⟨pre, suf, h1, _, _, h5⟩ | ⟨_, _, h3⟩
  · rw [h1, rmIds_append] at e3'
    exact h5 (List.append_eq_nil_iff.mp e3').2
  · rcases h3 with k | k
    · exact k e1
    · exact k e3'

/-- **No removal outstanding ⇒ the marker is acknowledged.** Along every legal
history from a freshly opened store (worker alive at the end): if the store's
removal list is empty and the worker has nothing left to unlink (no postponed id,
no `unlink` in progress, no `removeChunks` request in hand or queued), then the
journal end right after the last purge that dropped chunks is at or below the
acknowledged position. -/
theorem mark_le_ack_of_quiet_C3b (cfg : Cfg) (steps : List Step) (r : RefLog) (s : Store)
    (hsteps : ∀ st ∈ steps, st.journal = true)
    (hlegal : RefLog.run {} (stepOps steps) = some r)
    (hwf : ∀ op ∈ stepOps steps, op.WF ∧ op.small)
    (halive : ((Sys.fresh cfg).run steps).worker.pc ≠ .dead)
    (hs : ((Sys.fresh cfg).run steps).store = some s)
    (hrem : s.removed = []) (htr : ((Sys.fresh cfg).run steps).worker.toRemove = []) :
    (Sys.fresh cfg).markRun steps 0 ≤ (Sys.fresh cfg).ackRun steps 0 := by
  obtain ⟨s0, hs0, hm⟩ := reach_QSys_C3b cfg steps r hsteps hlegal hwf halive
  rw [hs] at hs0; cases hs0
  rcases hm with k | k | k
  · exact k
  · exact absurd hrem k
  · exact absurd htr k.toRemove_ne

end RaftLog
