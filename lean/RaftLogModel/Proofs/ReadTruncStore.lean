/-
C07 with `truncate`, part 1: the read-path invariant `RdInvC7b B`, a variant of
`RdInv` (Proofs/ReadPathStore.lean) in which the bound "a published or
publishable eviction boundary is at or below `last`" is replaced by "... is at
or below the ghost bound `B`", where `B` only grows and every id appended later
is above it. `last` itself may go back (truncate). Preservation by the
caller-side building blocks and by worker steps.

All names carry the suffix `C7b`.
-/
import RaftLogModel.Proofs.ReadPath
namespace RaftLog

/-! ### The larger of two optional log ids -/

def optMaxC7b (a b : Option LogId) : Option LogId := if optLe a b then b else a

theorem optLe_total_C7b (a b : Option LogId) : optLe a b = true ∨ optLe b a = true := by
  by_cases h : optLe a b = true
  · exact .inl h
  · right
    have : optLe a b = false := by simpa using h
    exact optLe_of_lt ((optLt_iff_not_le _ _).2 this)

theorem optMax_left_C7b (a b : Option LogId) : optLe a (optMaxC7b a b) = true := by
  unfold optMaxC7b
  by_cases h : optLe a b = true
  · rw [if_pos h]; exact h
  · rw [if_neg h]; exact optLe_refl _

theorem optMax_right_C7b (a b : Option LogId) : optLe b (optMaxC7b a b) = true := by
  unfold optMaxC7b
  by_cases h : optLe a b = true
  · rw [if_pos h]; exact optLe_refl _
  · rw [if_neg h]
    rcases optLe_total_C7b a b with h1 | h1
    · exact absurd h1 h
    · exact h1

theorem optMax_le_C7b {a b c : Option LogId} (h1 : optLe a c = true) (h2 : optLe b c = true) :
    optLe (optMaxC7b a b) c = true := by
  unfold optMaxC7b
  by_cases h : optLe a b = true
  · rw [if_pos h]; exact h2
  · rw [if_neg h]; exact h1

theorem optMax_mono_C7b {a a' b b' : Option LogId} (h1 : optLe a a' = true) (h2 : optLe b b' = true) :
    optLe (optMaxC7b a b) (optMaxC7b a' b') = true :=
  optMax_le_C7b (optLe_trans h1 (optMax_left_C7b _ _)) (optLe_trans h2 (optMax_right_C7b _ _))

/-- An id above both is above the larger one. -/
theorem optMax_not_ge_C7b {a b : Option LogId} {id : LogId} (h1 : optLe (some id) a = false)
    (h2 : optLe (some id) b = false) : optLe (some id) (optMaxC7b a b) = false := by
  unfold optMaxC7b
  by_cases h : optLe a b = true
  · rw [if_pos h]; exact h2
  · rw [if_neg h]; exact h1

/-! ### Vocabulary -/

/-- `EntOK` (Proofs/ReadPathStore.lean) with the bound `B` in place of `last`:
a file entry `(n, p)` (or the eviction boundary `p` with `n` the worker's newest
file) is consistent with the store: `p` is not beyond the ghost bound `B`, and
every live entry with id at or below `p` was journalled into a chunk older than
`n`. -/
def EntOKC7b (B : Option LogId) (s : Store) (n : Nat) (p : Option LogId) : Prop :=
  optLe p B = true ∧ ∀ x ∈ s.log, optLe (some x.2.id) p = true → x.2.chunk < n

theorem EntOKC7b.mono {B : Option LogId} {s : Store} {n n' : Nat} {p : Option LogId}
    (h : EntOKC7b B s n p) (hn : n ≤ n') : EntOKC7b B s n' p :=
  ⟨h.1, fun x hx hle => Nat.lt_of_lt_of_le (h.2 x hx hle) hn⟩

/-- The store changed and the bound grew; every new index entry has an id above
the OLD bound. -/
theorem EntOKC7b.step {B B' : Option LogId} {s s' : Store} {n : Nat} {p : Option LogId}
    (h : EntOKC7b B s n p) (hB : optLe B B' = true)
    (hlog : ∀ x ∈ s'.log, x ∈ s.log ∨ optLe (some x.2.id) B = false) : EntOKC7b B' s' n p := by
  refine ⟨optLe_trans h.1 hB, ?_⟩
  intro x hx hle
  rcases hlog x hx with h1 | h1
  · exact h.2 x h1 hle
  · have := optLe_trans hle h.1
    rw [h1] at this; cases this

theorem EntOKC7b.congr {B : Option LogId} {s s' : Store} {n : Nat} {p : Option LogId}
    (h : EntOKC7b B s n p) (h2 : s'.log = s.log) : EntOKC7b B s' n p := by
  unfold EntOKC7b at *
  rw [h2]; exact h

/-- **The read-path invariant with a ghost bound** (store / file system /
worker level). `B` is at or above `last` and above every boundary that is or
can still be published. -/
structure RdInvC7b (B : Option LogId) (s : Store) (fs : Fs) (w : Worker) (r : RefLog) : Prop where
  ref : RefinesNoCache s r
  /-- a cached payload of a live id is the spec payload -/
  cval : ∀ e ∈ s.cache.items, ∀ a ∈ r.entries, a.1 = e.1 → a.2 = e.2
  /-- where each live entry's `Append` record is -/
  loc : ∀ x ∈ s.log, ∃ p, (x.2.id, p) ∈ r.entries ∧
    Located s fs w x.2 (encRecord (.append x.2.id p))
  /-- entries of a closed chunk are at or below its closing `last` -/
  clast : ∀ x ∈ s.log, ∀ c ∈ s.closed, c.id = x.2.chunk → optLe (some x.2.id) c.state.last = true
  /-- resident, or journalled into a chunk older than the worker's newest file -/
  res : ∀ x ∈ s.log, (∃ p, (x.2.id, p) ∈ s.cache.items) ∨ x.2.chunk < w.cur
  /-- the eviction boundary only covers entries in chunks older than the worker's newest file -/
  bnd : EntOKC7b B s w.cur s.cache.lastEvictable
  /-- every file entry the worker holds or will be told about is consistent -/
  ents : ∀ f ∈ w.fents, EntOKC7b B s f.id f.prevLast
  /-- `last` is at or below the ghost bound -/
  lastB : optLe s.st.last B = true

theorem RdInvC7b.id_le_last {B : Option LogId} {s : Store} {fs : Fs} {w : Worker} {r : RefLog}
    (h : RdInvC7b B s fs w r) {x : Nat × LogData} (hx : x ∈ s.log) :
    optLe (some x.2.id) s.st.last = true := by
  obtain ⟨a, ha, _, hid⟩ := mem_log_indexNC h.ref hx
  have := (h.ref.wf.below a ha).1
  rw [hid] at this
  have e : s.st.last = r.last := by rw [h.ref.st]; rfl
  rw [e]; exact this

theorem RdInvC7b.index_eq {B : Option LogId} {s : Store} {fs : Fs} {w : Worker} {r : RefLog}
    (h : RdInvC7b B s fs w r) {x : Nat × LogData} (hx : x ∈ s.log) : x.2.id.index = x.1 := by
  obtain ⟨a, _, hi, hid⟩ := mem_log_indexNC h.ref hx
  rw [← hid]; exact hi

theorem RdInvC7b.chunk_le {B : Option LogId} {s : Store} {fs : Fs} {w : Worker} {r : RefLog}
    (h : RdInvC7b B s fs w r) (hj : JInv s fs w) {x : Nat × LogData} (hx : x ∈ s.log) :
    x.2.chunk ≤ s.openId := by
  obtain ⟨p, _, hl, _⟩ := h.loc x hx
  rcases hl with h1 | ⟨c, hc, h1⟩
  · omega
  · have := hj.closed_lt hc; omega

/-- Weakening the bound. -/
theorem RdInvC7b.weaken {B B' : Option LogId} {s : Store} {fs : Fs} {w : Worker} {r : RefLog}
    (h : RdInvC7b B s fs w r) (hB : optLe B B' = true) : RdInvC7b B' s fs w r :=
  ⟨h.ref, h.cval, h.loc, h.clast, h.res, ⟨optLe_trans h.bnd.1 hB, h.bnd.2⟩,
    fun f hf => ⟨optLe_trans (h.ents f hf).1 hB, (h.ents f hf).2⟩, optLe_trans h.lastB hB⟩

/-! ### Transfer: same reference log, same index map, same `last` -/

theorem RdInvC7b.transfer {B : Option LogId} {s s' : Store} {fs fs' : Fs} {w w' : Worker} {r : RefLog}
    (h : RdInvC7b B s fs w r)
    (href : RefinesNoCache s' r) (hlog : s'.log = s.log) (hlast : s'.st.last = s.st.last)
    (hlive : ∀ x ∈ s.log, LiveChunk s x.2.chunk → LiveChunk s' x.2.chunk)
    (hbytes : ∀ x ∈ s.log, ∃ ext, chunkBytes s' fs' w' x.2.chunk = chunkBytes s fs w x.2.chunk ++ ext)
    (hclast : ∀ x ∈ s.log, ∀ c ∈ s'.closed, c.id = x.2.chunk →
      c ∈ s.closed ∨ optLe (some x.2.id) c.state.last = true)
    (hcval : ∀ e ∈ s'.cache.items, e ∈ s.cache.items)
    (hres : ∀ x ∈ s.log, ((∃ p, (x.2.id, p) ∈ s.cache.items) ∨ x.2.chunk < w.cur) →
      ((∃ p, (x.2.id, p) ∈ s'.cache.items) ∨ x.2.chunk < w'.cur))
    (hbnd : EntOKC7b B s w'.cur s'.cache.lastEvictable)
    (hents : ∀ f ∈ w'.fents, f ∈ w.fents ∨ EntOKC7b B s f.id f.prevLast) : RdInvC7b B s' fs' w' r := by
  refine ⟨href, fun e he => h.cval e (hcval e he), ?_, ?_, ?_, hbnd.congr hlog, ?_,
    by rw [hlast]; exact h.lastB⟩
  · intro x hx
    rw [hlog] at hx
    obtain ⟨p, hp, hl⟩ := h.loc x hx
    exact ⟨p, hp, hl.mono (hlive x hx hl.1) (hbytes x hx)⟩
  · intro x hx c hc hid
    rw [hlog] at hx
    rcases hclast x hx c hc hid with h1 | h1
    · exact h.clast x hx c h1 hid
    · exact h1
  · intro x hx
    rw [hlog] at hx
    exact hres x hx (h.res x hx)
  · intro f hf
    rcases hents f hf with h1 | h1
    · exact (h.ents f h1).congr hlog
    · exact h1.congr hlog

/-! ### Journalling and applying one record -/

/-- The general shape of the four kinds of journalled records (plain, append,
purge, truncate): what must be known about the new index map, cache, spec
entries and bound. -/
theorem RdInvC7b.applied_of {B B' : Option LogId} {s : Store} {fs : Fs} {w : Worker} {r r' : RefLog}
    {rec : Record} {st' : RState}
    (hj : JInv s fs w) (h : RdInvC7b B s fs w r)
    (href : RefinesNoCache (s.applied rec st') r')
    (hB : optLe B B' = true) (hlast : optLe st'.last B' = true)
    (hle : (idxCache rec s.cache).lastEvictable = s.cache.lastEvictable)
    (hlog : ∀ x ∈ idxLog rec s.openId ⟨s.openEnd, (encRecord rec).length⟩ s.log,
      (x ∈ s.log ∧ ∀ p, (x.2.id, p) ∈ r.entries → (x.2.id, p) ∈ r'.entries) ∨
      (∃ p, rec = .append x.2.id p ∧ x.2 = ⟨x.2.id, s.openId, s.openEnd, (encRecord rec).length⟩ ∧
        (x.2.id, p) ∈ r'.entries ∧ optLe (some x.2.id) B = false ∧
        (x.2.id, p) ∈ (idxCache rec s.cache).items))
    (hcval : ∀ e ∈ (idxCache rec s.cache).items, ∀ a ∈ r'.entries, a.1 = e.1 → a.2 = e.2)
    (hres : ∀ x ∈ s.log, x ∈ idxLog rec s.openId ⟨s.openEnd, (encRecord rec).length⟩ s.log →
      ((∃ p, (x.2.id, p) ∈ s.cache.items) ∨ x.2.chunk < w.cur) →
      ((∃ p, (x.2.id, p) ∈ (idxCache rec s.cache).items) ∨ x.2.chunk < w.cur)) :
    RdInvC7b B' (s.applied rec st') fs w r' := by
  have hne := hj.openBytes.ne_nil
  have hlog' : ∀ x ∈ (s.applied rec st').log, x ∈ s.log ∨ optLe (some x.2.id) B = false := by
    intro x hx
    rcases hlog x hx with ⟨h1, _⟩ | ⟨p, _, _, _, h1, _⟩
    · exact .inl h1
    · exact .inr h1
  refine ⟨href, hcval, ?_, ?_, ?_, ?_, ?_, hlast⟩
  · intro x hx
    rcases hlog x hx with ⟨h1, h2⟩ | ⟨p, hrec, hd, hp, _, _⟩
    · obtain ⟨p, hp, hl⟩ := h.loc x h1
      refine ⟨p, h2 p hp, hl.mono (hl.1.applied hne) ⟨_, chunkBytes_applied fs w hne _⟩⟩
    · refine ⟨p, hp, ?_, ?_, ?_, chunkBytes s fs w s.openId, [], ?_, ?_⟩
      · rw [hd]; exact .inl (Store.applied_openId hne).symm
      · rw [hd]; exact Nat.le_of_lt hj.openId_lt
      · rw [hd, hrec]
      · rw [hd]
        simp only
        rw [chunkBytes_applied fs w hne, if_pos rfl, hrec, List.append_nil]
      · rw [hd]; exact chunkBytes_open_length hj
  · intro x hx c hc hid
    rcases hlog x hx with ⟨h1, _⟩ | ⟨p, _, hd, _, _, _⟩
    · exact h.clast x h1 c hc hid
    · exfalso
      rw [hd] at hid
      simp only at hid
      have := hj.closed_lt (c := c) hc
      omega
  · intro x hx
    rcases hlog x hx with ⟨h1, _⟩ | ⟨p, _, _, _, _, h2⟩
    · exact hres x h1 hx (h.res x h1)
    · exact .inl ⟨p, h2⟩
  · have := h.bnd.step (s' := s.applied rec st') hB hlog'
    show EntOKC7b B' (s.applied rec st') w.cur (idxCache rec s.cache).lastEvictable
    rw [hle]; exact this
  · intro f hf
    exact (h.ents f hf).step hB hlog'

theorem RdInvC7b.plain {B : Option LogId} {s : Store} {fs : Fs} {w : Worker} {r r' : RefLog}
    {rec : Record} {st' : RState}
    (hj : JInv s fs w) (h : RdInvC7b B s fs w r) (href : RefinesNoCache (s.applied rec st') r')
    (hkind : (∃ v, rec = .saveVote v) ∨ (∃ id, rec = .commit id) ∨ (∃ x, rec = .state x))
    (hent : r'.entries = r.entries) (hlast : st'.last = s.st.last) :
    RdInvC7b B (s.applied rec st') fs w r' := by
  have hidx : (∀ chunk seg, idxLog rec chunk seg s.log = s.log) ∧ idxCache rec s.cache = s.cache := by
    rcases hkind with ⟨v, hv⟩ | ⟨id, hv⟩ | ⟨x, hv⟩ <;> subst hv <;> exact ⟨fun _ _ => rfl, rfl⟩
  apply RdInvC7b.applied_of hj h href (optLe_refl _)
  · rw [hlast]; exact h.lastB
  · rw [hidx.2]
  · intro x hx
    rw [hidx.1] at hx
    exact .inl ⟨hx, fun p hp => by rw [hent]; exact hp⟩
  · rw [hidx.2, hent]; exact h.cval
  · rw [hidx.2]; exact fun _ _ _ hx => hx

/-- One accepted append whose id is above the bound `B`. -/
theorem RdInvC7b.append1 {B B' : Option LogId} {s : Store} {fs : Fs} {w : Worker} {r r1 : RefLog}
    {id : LogId} {p : Bytes}
    (hj : JInv s fs w) (h : RdInvC7b B s fs w r) (hc : r.append1 id p = .ok r1)
    (hfresh : optLe (some id) B = false) (hB : optLe B B' = true) (hid : optLe (some id) B' = true)
    (href : RefinesNoCache (s.applied (.append id p) r1.state) r1) :
    RdInvC7b B' (s.applied (.append id p) r1.state) fs w r1 := by
  obtain ⟨hr1, hnle, _, hold, _⟩ := RefLog.append1_facts h.ref.wf hc
  have hlastEq : s.st.last = r.last := by rw [h.ref.st]; rfl
  have hnle' : optLe (some id) s.st.last = false := by rw [hlastEq]; exact hnle
  have hk := items_lt_of_gt_last h.ref.cinv hnle'
  obtain ⟨pre, hsplit, hpre⟩ := Cache.insert_split (v := p) h.ref.cinv.ok hk
  have hent : r1.entries = r.entries ++ [(id, p)] := by rw [hr1]
  -- the new entry stays resident: its id is above the boundary
  have hmem : (id, p) ∈ (s.cache.insert id p).items := by
    have : (id, p) ∈ pre ++ (s.cache.insert id p).items := by rw [← hsplit]; simp
    rcases List.mem_append.mp this with h1 | h1
    · have := optLe_trans (hpre _ h1) h.bnd.1
      rw [hfresh] at this; cases this
    · exact h1
  have hsub : ∀ e ∈ (s.cache.insert id p).items, e ∈ s.cache.items ∨ e = (id, p) := by
    intro e he
    have : e ∈ s.cache.items ++ [(id, p)] := by rw [hsplit]; exact List.mem_append_right _ he
    simpa using this
  apply RdInvC7b.applied_of hj h href hB
  · show optLe r1.state.last B' = true
    rw [hr1]; exact hid
  · rfl
  · intro x hx
    rw [append1_log h.ref hc] at hx
    rcases List.mem_append.mp hx with h1 | h1
    · exact .inl ⟨h1, fun q hq => by rw [hent]; exact List.mem_append_left _ hq⟩
    · simp only [List.mem_singleton] at h1
      subst h1
      exact .inr ⟨p, rfl, rfl, by rw [hent]; simp, hfresh, hmem⟩
  · intro e he a ha hae
    rw [hent] at ha
    rcases hsub e he with h1 | h1 <;> rcases List.mem_append.mp ha with h2 | h2
    · exact h.cval e h1 a h2 hae
    · exfalso
      simp only [List.mem_singleton] at h2
      subst h2
      have := h.ref.cinv.le_last e h1
      rw [← hae, hnle'] at this; cases this
    · exfalso
      subst h1
      have := (hold a h2).1
      rw [hae] at this
      simp [LogId.lt_irrefl] at this
    · simp only [List.mem_singleton] at h2
      subst h1; subst h2; rfl
  · intro x hx _ hres
    apply res_of_suffix h.bnd.2 hsplit hpre hx
    rcases hres with ⟨q, hq⟩ | hres
    · exact .inl ⟨q, List.mem_append_left _ hq⟩
    · exact .inr hres

theorem RdInvC7b.purge {B B' : Option LogId} {s : Store} {fs : Fs} {w : Worker} {r : RefLog} {upto : LogId}
    (hj : JInv s fs w) (h : RdInvC7b B s fs w r)
    (hB : optLe B B' = true) (hlast : optLe (r.purged' upto).last B' = true)
    (href : RefinesNoCache (s.applied (.purgeUpto upto) (r.purged' upto).state) (r.purged' upto)) :
    RdInvC7b B' (s.applied (.purgeUpto upto) (r.purged' upto).state) fs w (r.purged' upto) := by
  obtain ⟨pre, hsplit, hpre⟩ := purgeLoop_pre upto s.cache.lastEvictable s.cache.size s.cache.items
  apply RdInvC7b.applied_of hj h href hB
  · exact hlast
  · rfl
  · intro x hx
    have hx' : x ∈ s.log ∧ upto.index + 1 ≤ x.1 := by
      simpa [idxLog] using hx
    refine .inl ⟨hx'.1, fun q hq => ?_⟩
    simp only [RefLog.purged', List.mem_filter, decide_eq_true_eq]
    have := h.index_eq hx'.1
    exact ⟨hq, by omega⟩
  · intro e he a ha hae
    have he' : e ∈ s.cache.items := (Cache.purgeUpto_facts s.cache upto).2.1 e he
    have ha' : a ∈ r.entries := by
      simp only [RefLog.purged', List.mem_filter] at ha; exact ha.1
    exact h.cval e he' a ha' hae
  · intro x hx _ hres
    exact res_of_suffix h.bnd.2 hsplit hpre hx hres

/-- **The new case: `truncate`.** The index map and the spec entries lose the
same suffix; a resident survivor stays resident (the cache only drops ids above
the truncation key, survivors are at or below it); the bound is unchanged
although `last` goes back. -/
theorem RdInvC7b.truncate {B : Option LogId} {s : Store} {fs : Fs} {w : Worker} {r : RefLog}
    {o : Option LogId}
    (hj : JInv s fs w) (h : RdInvC7b B s fs w r) (ho : r.TruncArg o)
    (href : RefinesNoCache (s.applied (.truncateAfter o) (r.truncateTo o).state) (r.truncateTo o)) :
    RdInvC7b B (s.applied (.truncateAfter o) (r.truncateTo o).state) fs w (r.truncateTo o) := by
  have hlastEq : s.st.last = r.last := by rw [h.ref.st]; rfl
  have hkeys := RefLog.truncateTo_keys h.ref.wf ho
  have hsubC : ∀ e ∈ (idxCache (.truncateAfter o) s.cache).items, e ∈ s.cache.items := by
    intro e he
    cases o with
    | none => simp [idxCache, Cache.clear] at he
    | some k => exact (Cache.truncateAfter_facts s.cache k).2.1 e he
  apply RdInvC7b.applied_of hj h href (optLe_refl _)
  · show optLe (r.truncateTo o).last B = true
    simp only [RefLog.truncateTo]
    by_cases hlt : optLt o r.last = true
    · simp only [hlt, if_true]
      exact optLe_trans (optLe_of_lt hlt) (hlastEq ▸ h.lastB)
    · simp only [hlt]
      exact hlastEq ▸ h.lastB
  · cases o <;> rfl
  · intro x hx
    have hx' : x ∈ s.log ∧ x.1 < nextIndex o := by
      simpa [idxLog] using hx
    refine .inl ⟨hx'.1, fun q hq => ?_⟩
    simp only [RefLog.truncateTo, List.mem_filter, decide_eq_true_eq]
    have := h.index_eq hx'.1
    exact ⟨hq, by omega⟩
  · intro e he a ha hae
    have ha' : a ∈ r.entries := by
      simp only [RefLog.truncateTo, List.mem_filter] at ha; exact ha.1
    exact h.cval e (hsubC e he) a ha' hae
  · intro x hx hxn hres
    rcases hres with ⟨q, hq⟩ | hres
    · left
      have hx' : x ∈ s.log ∧ x.1 < nextIndex o := by
        simpa [idxLog] using hxn
      obtain ⟨a, ha, hai, haid⟩ := mem_log_indexNC h.ref hx
      have hmem : a ∈ (r.truncateTo o).entries := by
        simp only [RefLog.truncateTo, List.mem_filter, decide_eq_true_eq]
        exact ⟨ha, by omega⟩
      cases o with
      | none =>
        have := hx'.2
        simp [nextIndex] at this
      | some k =>
        have hk := hkeys a hmem k rfl
        rw [haid] at hk
        exact ⟨q, (Cache.truncateAfter_facts s.cache k).1 _ hq hk⟩
    · exact .inr hres

/-! ### Chunk rotation -/

theorem RdInvC7b.rotate {B : Option LogId} {s : Store} {fs : Fs} {w : Worker} {r : RefLog}
    (hj : JInv s fs w) (h : RdInvC7b B s fs w r) :
    RdInvC7b B s.rotated (effFs (rotateEffs s) fs) (w.push (effQ (rotateEffs s))) r := by
  have hlt := hj.openId_lt
  apply h.transfer (s' := s.rotated) h.ref.rotated rfl rfl
  · intro x _ hl
    rcases hl with h1 | ⟨c, hc, h1⟩
    · refine .inr ⟨⟨s.openOffsets, s.st⟩, ?_, ?_⟩
      · simp [Store.rotated]
      · rw [h1]; rfl
    · exact .inr ⟨c, by simp [Store.rotated, hc], h1⟩
  · intro x hx
    have := h.chunk_le hj hx
    exact ⟨[], by rw [chunkBytes_rotated hj (by omega)]; simp⟩
  · intro x hx c hc hid
    have hc' : c ∈ s.closed ∨ c = ⟨s.openOffsets, s.st⟩ := by
      simpa [Store.rotated] using hc
    rcases hc' with h1 | h1
    · exact .inl h1
    · right; subst h1; exact h.id_le_last hx
  · exact fun e he => he
  · exact fun x _ hr => hr
  · exact h.bnd
  · intro f hf
    rw [Worker.push_fents, reqEnts_rotateEffs] at hf
    rcases List.mem_append.mp hf with h1 | h1
    · exact .inl h1
    · right
      simp only [List.mem_singleton] at h1
      subst h1
      refine ⟨h.lastB, fun x hx _ => ?_⟩
      have := h.chunk_le hj hx
      show x.2.chunk < s.openEnd
      omega

/-! ### Purge drops obsolete closed chunks -/

theorem RdInvC7b.dropObsolete {B : Option LogId} {s : Store} {fs : Fs} {w : Worker} {r : RefLog}
    {upto : LogId}
    (h : RdInvC7b B s fs w r) (hgt : ∀ x ∈ s.log, upto.lt x.2.id = true) :
    RdInvC7b B ({ s with closed := (popObsolete upto s.closed).2, removed := s.removed ++ (popObsolete upto s.closed).1 } : Store) fs w r := by
  obtain ⟨k, _, h2, h3, _⟩ := popObsolete_spec upto s.closed
  apply h.transfer (s' := ({ s with closed := (popObsolete upto s.closed).2, removed := s.removed ++ (popObsolete upto s.closed).1 } : Store))
    (h.ref.of_fields rfl rfl rfl rfl) rfl rfl
  · intro x hx hl
    rcases hl with h1 | ⟨c, hc, h1⟩
    · exact .inl h1
    · refine .inr ⟨c, ?_, h1⟩
      show c ∈ (popObsolete upto s.closed).2
      rw [h2]
      rw [← List.take_append_drop k s.closed] at hc
      rcases List.mem_append.mp hc with h4 | h4
      · exfalso
        have hle := h.clast x hx c (List.mem_of_mem_take h4) h1
        have hcl := h3 c h4
        have hcl' : optLe c.state.last (some upto) = true := (optLe_iff_not_lt _ _).2 hcl
        have := optLe_trans hle hcl'
        simp only [optLe_some_some] at this
        have hg := hgt x hx
        rw [← LogId.not_le_iff_lt] at hg
        rw [hg] at this; cases this
      · exact h4
  · intro x _
    exact ⟨[], by rw [List.append_nil]; rfl⟩
  · intro x _ c hc _
    left
    have : c ∈ (popObsolete upto s.closed).2 := hc
    rw [h2] at this
    exact List.mem_of_mem_drop this
  · exact fun e he => he
  · exact fun x _ hr => hr
  · exact h.bnd
  · exact fun f hf => .inl hf

/-! ### Flush -/

theorem RdInvC7b.flush {B : Option LogId} {s : Store} {fs : Fs} {w : Worker} {r : RefLog}
    (hj : JInv s fs w) (h : RdInvC7b B s fs w r) (cb : Option Nat) :
    RdInvC7b B (s.flush cb).1 (effFs (s.flush cb).2 fs) (w.push (effQ (s.flush cb).2)) r := by
  rw [effFs_flush]
  apply h.transfer (s' := (s.flush cb).1) (h.ref.of_fields rfl rfl rfl rfl) rfl rfl
  · exact fun x _ hl => hl
  · intro x _
    refine ⟨[], ?_⟩
    have e1 : (s.flush cb).1.openId = s.openId := rfl
    have e2 : (s.flush cb).1.pending = [] := rfl
    simp only [chunkBytes, e1, e2, inflight_flush hj]
    by_cases e : s.openId = x.2.chunk <;> simp [e]
  · exact fun x _ c hc _ => .inl hc
  · exact fun e he => he
  · exact fun x _ hr => hr
  · exact h.bnd
  · intro f hf
    rw [Worker.push_fents, reqEnts_flush, List.append_nil] at hf
    exact .inl hf

/-! ### `settle` -/

theorem RdInvC7b.settle {B : Option LogId} {s : Store} {fs : Fs} {w : Worker} {r : RefLog}
    (h : RdInvC7b B s fs w r) : RdInvC7b B s fs w.settle r := by
  apply h.transfer h.ref rfl rfl
  · exact fun x _ hl => hl
  · intro x _
    exact ⟨[], by simp only [chunkBytes, Worker.settle_inflight, List.append_nil]⟩
  · exact fun x _ c hc _ => .inl hc
  · exact fun e he => he
  · intro x _ hr
    rw [Worker.settle_cur]; exact hr
  · rw [Worker.settle_cur]; exact h.bnd
  · intro f hf
    rw [Worker.settle_fents] at hf
    exact .inl hf

/-! ### Worker steps -/

theorem RdInvC7b.wstep {B : Option LogId} {s : Store} {c c' : WCtx} {r : RefLog} (hj : JInv s c.fs c.w)
    (h : RdInvC7b B ({ s with cache := c.cache } : Store) c.fs c.w r)
    (g : StepGood c c') (hsame : SameItems c'.cache c.cache)
    (hents : ∀ x ∈ c'.w.fents, x ∈ c.w.fents) (hb : BndStep c c') :
    RdInvC7b B ({ s with cache := c'.cache } : Store) c'.fs c'.w r := by
  have hcur := g.cur_le hj
  have href : RefinesNoCache ({ s with cache := c'.cache } : Store) r := h.ref.of_same hsame
  apply h.transfer (s' := ({ s with cache := c'.cache } : Store)) href rfl rfl
  · exact fun x _ hl => hl
  · intro x _
    refine ⟨[], ?_⟩
    simp only [chunkBytes, List.append_nil]
    rw [g.bytes]
    rfl
  · exact fun x _ c hc _ => .inl hc
  · intro e he
    have : e ∈ c'.cache.items := he
    rw [hsame.1] at this
    exact this
  · intro x _ hr
    rcases hr with ⟨p, hp⟩ | hr
    · left
      refine ⟨p, ?_⟩
      show (x.2.id, p) ∈ c'.cache.items
      rw [hsame.1]; exact hp
    · right; omega
  · show EntOKC7b B ({ s with cache := c.cache } : Store) c'.w.cur c'.cache.lastEvictable
    rcases hb with hb | ⟨f, hf, hb⟩
    · rw [hb]; exact h.bnd.mono hcur
    · rw [hb]
      have hmem : f ∈ c'.w.fents := by
        rw [Worker.fents, hf]; simp
      have := h.ents f (hents f hmem)
      have e : c'.w.cur = f.id := by
        simp only [Worker.cur, hf, newestId_singleton]
      rw [e]; exact this
  · exact fun f hf => .inl (hents f hf)

/-! ### `drain` -/

theorem RdInvC7b.drain {B : Option LogId} {s : Store} {fs : Fs} {w : Worker} {r : RefLog}
    (h : RdInvC7b B s fs w r) :
    RdInvC7b B ({ s with cache := s.cache.drainEvictable } : Store) fs w r := by
  obtain ⟨pre, h1, _, h3, _⟩ :=
    drainLoop_spec s.cache.lastEvictable s.cache.size s.cache.items h.ref.cinv.ok.size_eq
  apply h.transfer (s' := ({ s with cache := s.cache.drainEvictable } : Store)) h.ref.drain rfl rfl
  · exact fun x _ hl => hl
  · intro x _
    exact ⟨[], by rw [List.append_nil]; rfl⟩
  · exact fun x _ c hc _ => .inl hc
  · intro e he
    have : e ∈ (drainLoop s.cache.lastEvictable s.cache.size s.cache.items).2 := he
    rw [h1]; exact List.mem_append_right _ this
  · intro x hx hr
    exact res_of_suffix h.bnd.2 h1 h3 hx hr
  · exact h.bnd
  · exact fun f hf => .inl hf

end RaftLog
