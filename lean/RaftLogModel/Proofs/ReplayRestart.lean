/-
C02: drop + open of a quiescent, flushed system. `CSys y r` = replay invariant
(`RSys`) ∧ linked-files invariant (`LSys`); `restart_core`: after `.drop` and
`.openWith cfg'` the store is back with the same state, index map and chunk
table, no file was touched, and `CSys` holds again.
-/
import RaftLogModel.Proofs.ReplayLinked
namespace RaftLog

/-- The combined invariant used for C02. -/
def CSys (y : Sys) (r : RefLog) : Prop := RSys y r ∧ LSys y

theorem fresh_CSys (cfg : Cfg) : CSys (Sys.fresh cfg) {} := ⟨fresh_RSys cfg, fresh_LSys cfg⟩

theorem run_CSys (steps : List Step) (y : Sys) (r r' : RefLog) (h : CSys y r)
    (hst : ∀ st ∈ steps, st.journal = true) (hr : r.run (stepOps steps) = some r')
    (hwf : ∀ op ∈ stepOps steps, op.WF ∧ op.small) (hnd : (y.run steps).worker.pc ≠ .dead) :
    CSys (y.run steps) r' :=
  ⟨run_RSys steps y r r' h.1 hst hr hwf hnd,
    run_LSys steps y h.2 h.1.J hst (fun op hop => (hwf op hop).1) hnd⟩

/-! ### A quiet live worker -/

theorem quiet_alive {w : Worker} (hq : w.quiet = true) (hd : w.pc ≠ .dead) :
    w.pc = .idle ∧ w.queue = [] := by
  unfold Worker.quiet at hq
  split at hq
  · rename_i hpc; exact ⟨hpc, by simpa using hq⟩
  · rename_i hpc; exact absurd hpc hd
  · cases hq

theorem inflight_quiet {w : Worker} (hpc : w.pc = .idle) (hqe : w.queue = []) (id : Nat) :
    w.inflight id = [] := by
  simp [Worker.inflight, infl, Worker.rest, hpc, hqe, WPc.todoBytes, WPc.inHand, inflightFrom]

theorem toRemove_quiet {w : Worker} (hpc : w.pc = .idle) (hqe : w.queue = []) :
    w.toRemove = w.postponed := by
  simp [Worker.toRemove, hpc, hqe, WPc.unl, WPc.inHand, rmIds]

/-- Dropping the store while the worker is blocked on an empty queue: the worker
just exits; no file changes. -/
theorem dropStore_quiet (y : Sys) (s : Store) (hs : y.store = some s) (hpc : y.worker.pc = .idle)
    (hqe : y.worker.queue = []) :
    y.dropStore.1.fs = y.fs ∧ y.dropStore.1.locked = false ∧ y.dropStore.1.store = none ∧
      y.dropStore.2 = [.workerExit true] := by
  have key : ∀ c : WCtx, c.w.queue = [] → c.w.senderAlive = false → c.fs = y.fs → c.evs = [] →
      (WCtx.runQuiet c.toRecv.w.fuel c.toRecv).fs = y.fs ∧
      (WCtx.runQuiet c.toRecv.w.fuel c.toRecv).evs = [.workerExit true] := by
    intro c h1 h2 h3 h4
    have hdead : c.toRecv.w.pc = .dead := by simp [WCtx.toRecv, h1, h2, WCtx.emit]
    rw [WCtx.runQuiet_dead _ _ hdead]
    exact ⟨by rw [WCtx.toRecv_fs]; exact h3, by simp [WCtx.toRecv, h1, h2, WCtx.emit, h4]⟩
  simp only [Sys.dropStore, hs, hpc]
  exact ⟨(key _ hqe rfl rfl rfl).1, trivial, trivial, (key _ hqe rfl rfl rfl).2⟩

/-! ### The invariants on the reopened store -/

theorem reopen_worker_facts (id : Nat) (pl : Option LogId) :
    (∀ i, ({ files := [⟨id, pl⟩] } : Worker).inflight i = []) ∧
    ({ files := [⟨id, pl⟩] } : Worker).announced = [id] ∧
    ({ files := [⟨id, pl⟩] } : Worker).toRemove = [] := by
  refine ⟨fun i => ?_, ?_, ?_⟩
  · simp [Worker.inflight, infl, Worker.rest, WPc.inHand, WPc.todoBytes, inflightFrom]
  · simp [Worker.announced, Worker.cur, newestId, Worker.rest, WPc.inHand, annIds]
  · simp [Worker.toRemove, WPc.unl, WPc.inHand, rmIds]

/-- A file system with the same ids and bytes (D15: `open` syncs the kept files). -/
structure SameBytes (fs fs' : Fs) : Prop where
  ids : Fs.ids fs' = Fs.ids fs
  data : ∀ i, fdata fs' i = fdata fs i
  has : ∀ i, fs'.has i = fs.has i

theorem SameBytes.refl (fs : Fs) : SameBytes fs fs := ⟨rfl, fun _ => rfl, fun _ => rfl⟩

theorem SameBytes.syncAll (fs : Fs) (ids : List Nat) : SameBytes fs (fs.syncAll ids) :=
  ⟨Fs.ids_syncAll fs ids, fdata_syncAll fs ids, Fs.has_syncAll fs ids⟩

theorem JInv.reopen {s s' : Store} {fs fs' : Fs} {w : Worker} (hj : JInv s fs w)
    (hsb : SameBytes fs fs')
    (hinf : ∀ id, w.inflight id = []) (hp : s.pending = [])
    (h1 : s'.st = s.st) (h2 : s'.log = s.log) (h3 : s'.openOffsets = s.openOffsets)
    (h4 : s'.pending = []) (h5 : s'.closed = s.closed) (pl : Option LogId) :
    JInv s' fs' { files := [⟨s.openId, pl⟩] } := by
  obtain ⟨f1, f2, _⟩ := reopen_worker_facts s.openId pl
  have e1 : s'.openId = s.openId := by simp [Store.openId, h3]
  have e2 : s'.openEnd = s.openEnd := by simp [Store.openEnd, h3]
  have e3 : s'.chunks = s.chunks := by simp [Store.chunks, h3, h5]
  refine ⟨trivial, by rw [h1]; exact hj.stWF, by rw [h2]; exact hj.logWF,
    by rw [e2, hsb.ids]; exact hj.fsLt,
    by rw [f2, e1]; rfl, by rw [f2]; simp [Incr], ?_, by rw [e3]; exact hj.chained,
    by rw [h5, e1]; exact hj.closedLe, by rw [h5, hsb.ids]; exact hj.closedFs, ?_, ?_⟩
  · intro a ha
    rw [f2] at ha
    simp at ha; subst ha
    rw [hsb.ids]
    exact hj.annFs _ hj.openId_mem
  · rw [h3, e1, f1, h4, hsb.data]
    have := hj.openBytes
    rw [hinf, hp] at this
    exact this
  · intro c hc
    rw [h5] at hc
    rw [f1, hsb.data]
    have := hj.closedBytes c hc
    rw [hinf] at this
    exact this

theorem RInv.reopen {s s' : Store} {fs fs' : Fs} {w : Worker} {r : RefLog} (h : RInv s fs w r)
    (hsb : SameBytes fs fs')
    (hinf : ∀ id, w.inflight id = []) (hp : s.pending = [])
    (h1 : s'.st = s.st) (h2 : s'.log = s.log) (h3 : s'.openOffsets = s.openOffsets)
    (h4 : s'.pending = []) (h5 : s'.closed = s.closed) (pl : Option LogId) :
    RInv s' fs' { files := [⟨s.openId, pl⟩] } r := by
  obtain ⟨f1, _, _⟩ := reopen_worker_facts s.openId pl
  refine ⟨h.j.reopen hsb hinf hp h1 h2 h3 h4 h5 pl, h.abs.of_fields h1 h2 h3,
    h.rep.transport h1 h2 h3 h5 (fun id => ?_)⟩
  have e1 : s'.openId = s.openId := by simp [Store.openId, h3]
  simp only [chunkBytes, f1, hinf, h4, hp, e1, hsb.data]

theorem LInv.reopen {s s' : Store} {fs fs' : Fs} {w : Worker} (h : LInv s fs w)
    (hsb : SameBytes fs fs')
    (hrem : s.removed = []) (htr : w.toRemove = [])
    (h3 : s'.openOffsets = s.openOffsets) (h5 : s'.closed = s.closed) (h6 : s'.removed = [])
    (pl : Option LogId) : LInv s' fs' { files := [⟨s.openId, pl⟩] } := by
  obtain ⟨_, _, f3⟩ := reopen_worker_facts s.openId pl
  have e : s'.chunkIds = s.chunkIds := by
    rw [Store.chunkIds_eq, Store.chunkIds_eq, h5]; simp [Store.openId, h3]
  refine ⟨by rw [hsb.ids]; exact h.nodup, by rw [e]; intro id hid; rw [hsb.has]; exact h.live id hid,
    fun id hid => ?_, fun x hx => ?_⟩
  · rw [hsb.has] at hid
    rcases h.dead id hid with k | k | k
    · exact Or.inl (by rw [e]; exact k)
    · rw [hrem] at k; cases k
    · rw [htr] at k; cases k
  · rw [h6, f3] at hx
    rcases hx with k | k <;> cases k

/-- D15: when every linked file is already durable, syncing the linked files changes nothing
(the normal case of a clean restart). -/
theorem syncAll_linkedIds_self {fs : Fs} (hn : (Fs.ids fs).Nodup)
    (hd : ∀ f ∈ fs, f.linked = true → f.durable = f.data.length) :
    fs.syncAll fs.linkedIds = fs := by
  apply Fs.syncAll_eq_self
  intro f hf hid
  apply hd f hf
  have hhas := ((Fs.linkedIds_spec hn).2 f.id).mp hid
  unfold Fs.has at hhas
  cases hg : fs.find f.id with
  | none => rw [hg] at hhas; cases hhas
  | some g =>
    rw [hg] at hhas
    have hgm : g ∈ fs := List.mem_of_find?_eq_some hg
    have hgid : g.id = f.id := find_id hg
    rw [← eq_of_nodup_ids hn hgm hf hgid]
    exact hhas

/-- D15: after the syncs of `open`, every linked file is durable up to its length. -/
theorem syncAll_linkedIds_durable {fs : Fs} (hn : (Fs.ids fs).Nodup) :
    ∀ f ∈ fs.syncAll fs.linkedIds, f.linked = true → f.durable = f.data.length := by
  intro f hf hl
  rw [Fs.syncAll_eq_map] at hf
  obtain ⟨f0, h0, e⟩ := List.mem_map.mp hf
  by_cases hc : fs.linkedIds.contains f0.id = true
  · rw [if_pos hc] at e; subst e; rfl
  · exfalso
    rw [if_neg hc] at e; subst e
    have hhas : fs.has f0.id = true := (Fs.has_iff hn f0.id).mpr ⟨f0, h0, hl, rfl⟩
    have := ((Fs.linkedIds_spec hn).2 f0.id).mpr hhas
    exact hc (by simpa using this)

theorem CSys.nodup {y : Sys} {r : RefLog} (h : CSys y r) : (Fs.ids y.fs).Nodup := by
  obtain ⟨_, ⟨s1, _, hli⟩⟩ := h
  exact hli.nodup

/-- **Drop and reopen.** The system is quiescent (worker blocked on an empty
queue), everything is flushed (`pending = []`, `removed = []`) and the worker
holds no postponed removal. Then `.drop` followed by `.openWith cfg'` succeeds,
only syncs the live chunk files (D15: events `syncEvs y.fs.linkedIds`, file system
`y.fs.syncAll y.fs.linkedIds`; old: no event, `y.fs`), and the reopened store has the same
state, index map, closed chunks and open chunk; the invariants hold again. -/
theorem restart_core (y : Sys) (s : Store) (r : RefLog) (cfg' : Cfg) (h : CSys y r)
    (hs : y.store = some s) (hq : y.worker.quiet = true) (hp : s.pending = [])
    (hrem : s.removed = []) (hpost : y.worker.postponed = []) :
    ∃ s', ((y.step .drop).step (.openWith cfg')).store = some s' ∧
      ({ (y.step .drop) with cfg := cfg' } : Sys).open.1 = .ok () ∧
      ({ (y.step .drop) with cfg := cfg' } : Sys).open.2.2 = syncEvs y.fs.linkedIds ∧
      (y.step .drop).fs = y.fs ∧
      ((y.step .drop).step (.openWith cfg')).fs = y.fs.syncAll y.fs.linkedIds ∧
      s'.st = s.st ∧ s'.log = s.log ∧ s'.closed = s.closed ∧ s'.openOffsets = s.openOffsets ∧
      s'.pending = [] ∧ s'.removed = [] ∧ s'.cfg = cfg' ∧
      s'.cache.maxItems = cfg'.cacheItems ∧ s'.cache.capacity = cfg'.cacheCap ∧
      CSys ((y.step .drop).step (.openWith cfg')) r ∧
      ((fileAppends y.fs).length ≤ cfg'.cacheItems → sumLen (fileAppends y.fs) ≤ cfg'.cacheCap →
        Refines s' r ∧ s'.cache.items.length ≤ (fileAppends y.fs).length ∧
          s'.cache.size ≤ sumLen (fileAppends y.fs)) := by
  obtain ⟨⟨s0, hs0, hd, hinv⟩, ⟨s1, hs1, hli⟩⟩ := h
  rw [hs] at hs0 hs1; cases hs0; cases hs1
  obtain ⟨hpc, hqe⟩ := quiet_alive hq hd
  have hinf := inflight_quiet hpc hqe
  have htr : y.worker.toRemove = [] := by rw [toRemove_quiet hpc hqe]; exact hpost
  obtain ⟨d1, d2, d3, _⟩ := dropStore_quiet y s hs hpc hqe
  have hlinked := hli.linkedIds_eq hinv.j hrem htr
  obtain ⟨s', ho, k1, k2, k3, k4, k5, k6, k7, k8, k9⟩ := openStore_of_rep cfg' hinv hinf hp hlinked
  rw [← hlinked] at ho
  have hopen : ({ (y.step .drop) with cfg := cfg' } : Sys).open =
      (.ok (), { ({ (y.step .drop) with cfg := cfg' } : Sys) with
        fs := y.fs.syncAll y.fs.linkedIds, store := some s',
        worker := { files := [⟨s.openId, prevLastOf s.closed⟩] }, locked := true },
        syncEvs y.fs.linkedIds) := by
    simp only [Sys.step, Sys.open, d2, d1, ho]
    simp
  have hy2 : (y.step .drop).step (.openWith cfg') =
      { ({ (y.step .drop) with cfg := cfg' } : Sys) with
        fs := y.fs.syncAll y.fs.linkedIds, store := some s',
        worker := { files := [⟨s.openId, prevLastOf s.closed⟩] }, locked := true } := by
    show ({ (y.step .drop) with cfg := cfg' } : Sys).open.2.1 = _
    rw [hopen]
  refine ⟨s', by rw [hy2], by rw [hopen], by rw [hopen], d1, by rw [hy2], k1, k2, k3, k4, k5, k6, k7,
    k8, k9, ?_, ?_⟩
  · rw [hy2]
    exact ⟨⟨s', rfl, by simp, hinv.reopen (SameBytes.syncAll _ _) hinf hp k1 k2 k4 k5 k3 _⟩,
      ⟨s', rfl, hli.reopen (SameBytes.syncAll _ _) hrem htr k4 k3 k6 _⟩⟩
  · intro hN hB
    obtain ⟨s'', ho', href⟩ := openStore_refines cfg' hinv hinf hp hlinked hN hB
    rw [← hlinked, ho] at ho'
    simp only [Prod.mk.injEq, Res.ok.injEq] at ho'
    rw [ho'.1.1]
    exact href

end RaftLog
