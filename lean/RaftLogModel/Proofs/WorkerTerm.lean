/-
Termination of the all-ok worker run: a measure that every non-quiet step
decreases, its comparison with the model's `Worker.fuel`, and what the run
reaches once the channel is closed.
-/
import RaftLogModel.Proofs.WorkerInv
namespace RaftLog

/-- Steps needed for a queued request. -/
def reqC : WReq → Nat
  | .write .. => 4
  | .appendFile .. => 2
  | .removeChunks ids => ids.length + 2

/-- Steps (plus new work) left after a non-flush request was executed. -/
def nfC : WReq → Nat
  | .write .. => 0
  | .appendFile .. => 1
  | .removeChunks ids => ids.length + 1

def tailC : Option WReq → Nat
  | none => 0
  | some r => nfC r

def queueC (q : List WReq) : Nat := (q.map reqC).sum

def pcC (w : Worker) : Nat :=
  match w.pc with
  | .dead => 0
  | .idle => if w.queue.isEmpty then 0 else 1
  | .got r => reqC r
  | .writing todo _ t => todo.length + tailC t + 2
  | .syncOld _ t => tailC t + 1
  | .syncNew _ t => tailC t + 1
  | .unlinking ids => ids.length + 1

/-- Steps for the postponed removals: one `unlink` each, plus the step that finds the list empty
(a good batch starts their removal even when no removal request follows it). -/
def postC (p : List Nat) : Nat := if p = [] then 0 else p.length + 1

@[simp] theorem postC_nil : postC [] = 0 := rfl
theorem postC_le (p : List Nat) : postC p ≤ p.length + 1 := by unfold postC; split <;> omega
theorem length_le_postC (p : List Nat) : p.length ≤ postC p := by
  unfold postC; split
  · rename_i h; simp [h]
  · omega
theorem postC_of_ne {p : List Nat} (h : p ≠ []) : postC p = p.length + 1 := by simp [postC, h]
theorem postC_append_le (p q : List Nat) : postC (p ++ q) ≤ postC p + q.length + 1 := by
  have := length_le_postC p
  have := postC_le (p ++ q)
  simp only [List.length_append] at this
  by_cases hp : p = []
  · subst hp; simpa using postC_le q
  · rw [postC_of_ne hp]; omega

/-- The work the worker still has: an upper bound on the number of all-ok steps
until it is quiet. Unlike the first `Worker.fuel` it counts the postponed removals. -/
def Worker.drainCost (w : Worker) : Nat :=
  pcC w + queueC w.queue + w.files.length + postC w.postponed

def WCtx.base (c : WCtx) : Nat := queueC c.w.queue + c.w.files.length + postC c.w.postponed

theorem nfC_le_reqC (r : WReq) : nfC r ≤ reqC r := by cases r <;> simp [nfC, reqC]
theorem nfC_lt_reqC {r : WReq} (h : r.isWrite = false) : nfC r < reqC r := by
  cases r <;> simp_all [nfC, reqC, WReq.isWrite]

@[simp] theorem queueC_nil : queueC [] = 0 := rfl
@[simp] theorem queueC_cons (r : WReq) (q : List WReq) : queueC (r :: q) = reqC r + queueC q := by
  simp [queueC]
@[simp] theorem queueC_append (p q : List WReq) : queueC (p ++ q) = queueC p + queueC q := by
  simp [queueC]

theorem length_le_queueC (q : List WReq) : q.length ≤ queueC q := by
  induction q with
  | nil => simp
  | cons r q ih =>
    have : 1 ≤ reqC r := by cases r <;> simp [reqC]
    simp only [List.length_cons, queueC_cons]; omega

theorem tailC_le_queueC (t : Option WReq) : tailC t ≤ queueC t.toList := by
  cases t with
  | none => simp [tailC]
  | some r => simpa [tailC] using nfC_le_reqC r

theorem drainCost_eq (w : Worker) :
    w.drainCost = pcC w + queueC w.queue + w.files.length + postC w.postponed := rfl

theorem WCtx.toRecv_cost (c : WCtx) : c.toRecv.w.drainCost ≤ c.base := by
  rcases c.toRecv_cases with ⟨r, q, hq, h⟩ | ⟨hq, _, h⟩ | ⟨hq, _, h⟩ <;> rw [h] <;>
    simp [Worker.drainCost, pcC, WCtx.base, hq] <;> omega

theorem WCtx.nonFlush_cost (c : WCtx) (r : WReq) : (c.nonFlush r).w.drainCost ≤ nfC r + c.base := by
  rcases c.nonFlush_cases r with ⟨c0, h, _, _, hq, hf, _, _, hp⟩ | ⟨ids, hr, _, _, h⟩
  · rw [h]
    refine Nat.le_trans c0.toRecv_cost ?_
    simp only [WCtx.base, hq, hf, List.length_append]
    rcases hp with hp | ⟨ids, hr, _, hp⟩
    · rw [hp]; cases r <;> simp [WReq.ents, nfC] <;> omega
    · have := postC_append_le c.w.postponed ids
      rw [hp, hr]; simp [WReq.ents, nfC]; omega
  · have := length_le_postC c.w.postponed
    rw [h, hr]; simp [Worker.drainCost, pcC, WCtx.base, nfC]; omega

/-- The retried removal behind a batch costs nothing extra: `postC` already pays for it. -/
theorem WCtx.nonFlush_nil_cost (c : WCtx) : (c.nonFlush (.removeChunks [])).w.drainCost ≤ c.base := by
  rcases c.nonFlush_cases (.removeChunks []) with ⟨c0, h, _, _, hq, hf, _, _, hp⟩ | ⟨ids, hr, _, hne, h⟩
  · rw [h]
    refine Nat.le_trans c0.toRecv_cost ?_
    simp only [WCtx.base, hq, hf, List.length_append]
    rcases hp with hp | ⟨ids, hr, _, hp⟩
    · rw [hp]; simp [WReq.ents]
    · cases hr; rw [hp]; simp [WReq.ents]
  · cases hr
    simp only [List.append_nil] at hne h
    rw [h]; simp [Worker.drainCost, pcC, WCtx.base, postC_of_ne hne]; omega

theorem WCtx.finishBatch_cost (c : WCtx) (b : List WReq) (t : Option WReq) (ok : Bool) :
    (c.finishBatch b t ok).w.drainCost ≤ tailC t + c.base := by
  rw [WCtx.finishBatch_eq]
  by_cases ht : tailIds t = []
  · have hr : tailReq t = .removeChunks [] ∨ ∃ u d cb, t = some (.write u d cb) := by
      cases t with
      | none => exact .inl rfl
      | some r =>
        cases r with
        | write u d cb => exact .inr ⟨u, d, cb, rfl⟩
        | appendFile i p => exact .inl rfl
        | removeChunks ids => simp only [tailIds] at ht; subst ht; exact .inl rfl
    rcases hr with hr | ⟨u, d, cb, rfl⟩
    · rw [hr]
      refine Nat.le_trans (c.fb1 b t ok).nonFlush_nil_cost ?_
      have : (tailEnts t).length ≤ tailC t := by
        cases t with
        | none => simp [tailEnts]
        | some r => cases r <;> simp [tailEnts, tailC, nfC, WReq.ents]
      simp [WCtx.base]; omega
    · refine Nat.le_trans ((c.fb1 b _ ok).nonFlush_cost _) ?_
      simp [WCtx.base, tailC, tailReq, nfC, tailEnts, WReq.ents]
  · obtain ⟨ids, rfl⟩ : ∃ ids, t = some (.removeChunks ids) := by
      cases t with
      | none => exact absurd rfl ht
      | some r =>
        cases r with
        | removeChunks ids => exact ⟨ids, rfl⟩
        | write u d cb => exact absurd rfl ht
        | appendFile i p => exact absurd rfl ht
    refine Nat.le_trans ((c.fb1 b _ ok).nonFlush_cost _) ?_
    simp [WCtx.base, tailC, tailReq, tailIds, nfC, tailEnts, WReq.ents]

theorem WCtx.startSync_cost (c : WCtx) (b : List WReq) (t : Option WReq) :
    (c.startSync b t).w.drainCost ≤ tailC t + 1 + c.base := by
  rcases c.startSync_cases b t with ⟨_, he⟩ | ⟨f, _, he⟩ | ⟨_, he⟩ <;> rw [he]
  · have := c.finishBatch_cost b t true; omega
  · simp [Worker.drainCost, pcC, WCtx.base]; omega
  · simp [Worker.drainCost, pcC, WCtx.base]; omega

theorem WCtx.startWrites_cost (c : WCtx) (b : List WReq) (t : Option WReq) :
    (c.startWrites b t).w.drainCost ≤ b.length + tailC t + 2 + c.base := by
  rcases c.startWrites_cases b t with ⟨_, he⟩ | ⟨_, he⟩ <;> rw [he]
  · have := c.startSync_cost b t; omega
  · have := todoOf_length_le b
    simp [Worker.drainCost, pcC, WCtx.base]; omega

theorem drainCost_of_pc {w : Worker} {pc : WPc} (h : w.pc = pc) :
    w.drainCost = pcC { w with pc := pc } + queueC w.queue + w.files.length + postC w.postponed := by
  subst h; rfl

/-- Every all-ok step from a non-quiet state decreases `drainCost`. -/
theorem WCtx.step_ok_decreases (c : WCtx) (hq : c.w.quiet = false) :
    (c.step .ok).w.drainCost < c.w.drainCost := by
  apply c.step_elim (P := fun c' => c'.w.drainCost < c.w.drainCost) .ok
  · intro hpc _; simp [Worker.quiet, hpc] at hq
  · intro hpc _
    have := c.toRecv_cost
    simp only [Worker.quiet, hpc, List.isEmpty_eq_false_iff] at hq
    rw [drainCost_of_pc hpc]
    simp only [pcC, WCtx.base] at *
    have : c.w.queue.isEmpty = false := by simpa using hq
    simp only [this]; simp; omega
  · intro r hpc hr _
    have h6 : reqC r = 4 := by cases r <;> simp_all [WReq.isWrite, reqC]
    have h1 := WCtx.startWrites_cost (c.setQueue (collectBatch 1024 c.w.queue).2.2)
      (r :: (collectBatch 1024 c.w.queue).1) (collectBatch 1024 c.w.queue).2.1
    have h3 := congrArg queueC (collectBatch_specW 1024 c.w.queue).1
    have h4 := length_le_queueC (collectBatch 1024 c.w.queue).1
    have h5 := tailC_le_queueC (collectBatch 1024 c.w.queue).2.1
    rw [drainCost_of_pc hpc]
    simp only [pcC, WCtx.base, WCtx.setQueue_w, List.length_cons, queueC_append] at h1 h3 ⊢
    omega
  · intro r hpc hr _
    have h1 := c.nonFlush_cost r
    have h2 := nfC_lt_reqC hr
    rw [drainCost_of_pc hpc]
    simp only [pcC, WCtx.base] at *
    omega
  · intro b t hpc _
    have h1 := c.startSync_cost b t
    rw [drainCost_of_pc hpc]
    simp only [pcC, WCtx.base, List.length_nil] at *
    omega
  · intro d rest b t hpc ho _; cases ho
  · intro d rest b t k hpc ho _ _ _; obtain ⟨k0, ho⟩ := ho; cases ho
  · intro d b t hpc _ _
    have h1 := WCtx.startSync_cost (c.wrote (newestId c.w.files) d) b t
    rw [drainCost_of_pc hpc]
    simp only [pcC, WCtx.base, WCtx.wrote_w, List.length_cons, List.length_nil] at *
    omega
  · intro d d' rest b t hpc _ _
    rw [drainCost_of_pc hpc]
    simp [Worker.drainCost, pcC]
  · intro b t hpc hf _
    have h1 := c.finishBatch_cost b t true
    rw [drainCost_of_pc hpc]
    simp only [pcC, WCtx.base] at *
    omega
  · intro b t f rest hpc hf ho _; cases ho
  · intro b t f rest hpc hf _ _
    have h1 := WCtx.startSync_cost ((c.setFiles rest).synced f.id) b t
    rw [drainCost_of_pc hpc]
    simp only [pcC, WCtx.base, WCtx.synced_w, WCtx.setFiles_w, hf, List.length_cons] at *
    omega
  · intro b t hpc hf _
    have h1 := c.finishBatch_cost b t true
    rw [drainCost_of_pc hpc]
    simp only [pcC, WCtx.base] at *
    omega
  · intro b t f rest hpc hf ho _; cases ho
  · intro b t f rest hpc hf _ _
    have h1 := WCtx.finishBatch_cost (c.synced f.id) b t true
    rw [drainCost_of_pc hpc]
    simp only [pcC, WCtx.base, WCtx.synced_w] at *
    omega
  · intro hpc _
    have h1 := c.toRecv_cost
    rw [drainCost_of_pc hpc]
    simp only [pcC, WCtx.base, List.length_nil] at *
    omega
  · intro i rest hpc ho _; cases ho
  · intro i hpc _ _
    have h1 := (c.unlinked i).toRecv_cost
    rw [drainCost_of_pc hpc]
    simp only [pcC, WCtx.base, WCtx.unlinked_w, List.length_cons, List.length_nil] at *
    omega
  · intro i j rest hpc _ _
    rw [drainCost_of_pc hpc]
    simp [Worker.drainCost, pcC]

/-! ## `runQuiet` reaches a quiet state -/

theorem WCtx.runQuiet_of_quiet (n : Nat) (c : WCtx) (h : c.w.quiet = true) : WCtx.runQuiet n c = c := by
  cases n with
  | zero => rfl
  | succ n => simp [WCtx.runQuiet, h]

theorem WCtx.runQuiet_succ_of_not_quiet (n : Nat) (c : WCtx) (h : c.w.quiet = false) :
    WCtx.runQuiet (n + 1) c = WCtx.runQuiet n (c.step .ok) := by
  simp [WCtx.runQuiet, h]

/-- Any fuel of at least `drainCost` suffices. -/
theorem WCtx.runQuiet_quiet (n : Nat) (c : WCtx) (h : c.w.drainCost ≤ n) :
    (WCtx.runQuiet n c).w.quiet = true := by
  induction n generalizing c with
  | zero =>
    cases hq : c.w.quiet with
    | true => exact hq
    | false => have := c.step_ok_decreases hq; omega
  | succ n ih =>
    cases hq : c.w.quiet with
    | true => rw [WCtx.runQuiet_of_quiet _ _ hq]; exact hq
    | false =>
      rw [WCtx.runQuiet_succ_of_not_quiet _ _ hq]
      have := c.step_ok_decreases hq
      exact ih _ (by omega)

/-- Induction principle for properties preserved by all-ok steps. -/
theorem WCtx.runQuiet_induct {P : WCtx → Prop} (hstep : ∀ c, P c → c.w.quiet = false → P (c.step .ok))
    (n : Nat) (c : WCtx) (h : P c) : P (WCtx.runQuiet n c) := by
  induction n generalizing c with
  | zero => exact h
  | succ n ih =>
    cases hq : c.w.quiet with
    | true => rw [WCtx.runQuiet_of_quiet _ _ hq]; exact h
    | false => rw [WCtx.runQuiet_succ_of_not_quiet _ _ hq]; exact ih _ (hstep c h hq)

/-! ## Comparison with the model's `Worker.fuel` -/

/-- The per-request cost inside `Worker.fuel`. -/
def fuelReq : WReq → Nat
  | .write _ d _ => d.length + 4
  | .appendFile .. => 2
  | .removeChunks ids => ids.length + 2

theorem foldl_add_eq_sum (l : List Nat) : l.foldl (· + ·) 0 = l.sum := by
  rw [List.sum_eq_foldl]

theorem reqC_le_fuelReq (r : WReq) : reqC r ≤ fuelReq r := by
  cases r <;> simp [reqC, fuelReq]

theorem queueC_le (q : List WReq) : queueC q ≤ (q.map fuelReq).sum := by
  induction q with
  | nil => simp
  | cons r q ih => have := reqC_le_fuelReq r; simp only [queueC_cons, List.map_cons, List.sum_cons]; omega

theorem length_le_sum_lengths (todo : List Bytes) (h : ∀ d ∈ todo, d ≠ []) :
    todo.length ≤ (todo.map List.length).sum := by
  induction todo with
  | nil => simp
  | cons d rest ih =>
    have h1 : 1 ≤ d.length := by
      have := h d (by simp)
      cases d with
      | nil => exact absurd rfl this
      | cons _ _ => simp
    have := ih (fun x hx => h x (by simp [hx]))
    simp only [List.length_cons, List.map_cons, List.sum_cons]; omega

/-- Every datum a parked `write` still has to write is non-empty (an invariant:
`startWrites` filters, short writes keep a non-empty rest). -/
def Worker.TodoOK (w : Worker) : Prop :=
  ∀ todo b t, w.pc = .writing todo b t → ∀ d ∈ todo, d ≠ []

theorem Worker.fuel_eq (w : Worker) :
    w.fuel = (match w.pc with
      | .writing todo batch tail => (todo.map List.length).foldl (· + ·) 0 + 4 * (batch.length + 2)
          + (tail.toList.map fuelReq).foldl (· + ·) 0
      | .syncOld batch tail => 4 * (batch.length + 2) + (tail.toList.map fuelReq).foldl (· + ·) 0
      | .syncNew batch tail => 4 * (batch.length + 2) + (tail.toList.map fuelReq).foldl (· + ·) 0
      | .unlinking ids => ids.length + 2
      | .got r => fuelReq r + 2
      | _ => 2) + (w.queue.map fuelReq).foldl (· + ·) 0 + 2 * w.files.length
        + w.postponed.length + 8 := by
  rfl

theorem tailC_le_fuel (t : Option WReq) : tailC t ≤ (t.toList.map fuelReq).sum := by
  cases t with
  | none => simp [tailC]
  | some r =>
    have := nfC_le_reqC r
    have := reqC_le_fuelReq r
    simp [tailC]; omega

/-- The model's fuel covers the real cost, with a slack of `files.length + 6`.
(The first version of `Worker.fuel` forgot the postponed removals; it was
corrected to count `postponed.length` after this proof found the gap. The retried
removal after a good batch costs one more step (`postC`), taken from the slack.) -/
theorem Worker.drainCost_le_fuel (w : Worker) (ht : w.TodoOK) :
    w.drainCost + w.files.length + 6 ≤ w.fuel := by
  rw [Worker.fuel_eq, drainCost_eq]
  simp only [foldl_add_eq_sum]
  have hq := queueC_le w.queue
  have hpo := postC_le w.postponed
  cases hpc : w.pc with
  | dead => simp [pcC, hpc]; omega
  | idle => simp only [pcC, hpc]; split <;> omega
  | got r => have := reqC_le_fuelReq r; simp only [pcC, hpc]; omega
  | writing todo b t =>
    have h1 := length_le_sum_lengths todo (ht todo b t hpc)
    have h2 := tailC_le_fuel t
    simp only [pcC, hpc]; omega
  | syncOld b t => have h2 := tailC_le_fuel t; simp only [pcC, hpc]; omega
  | syncNew b t => have h2 := tailC_le_fuel t; simp only [pcC, hpc]; omega
  | unlinking ids => simp only [pcC, hpc]; omega

/-- `Worker.fuel` is enough to reach a quiet state. -/
theorem WCtx.runQuiet_fuel_quiet (c : WCtx) (ht : c.w.TodoOK) :
    (WCtx.runQuiet c.w.fuel c).w.quiet = true := by
  apply WCtx.runQuiet_quiet
  have := c.w.drainCost_le_fuel ht
  omega

/-! ## `TodoOK` is invariant -/

theorem Worker.TodoOK.of_not_writing {w : Worker} (h : ∀ todo b t, w.pc ≠ .writing todo b t) : w.TodoOK :=
  fun todo b t hpc => absurd hpc (h todo b t)

theorem Worker.TodoOK.of_isRest {w : Worker} (h : w.pc.isRest) : w.TodoOK :=
  .of_not_writing fun todo b t hpc => by rw [hpc] at h; cases h

theorem WCtx.startSync_todoOK (c : WCtx) (b : List WReq) (t : Option WReq) : (c.startSync b t).w.TodoOK := by
  rcases c.startSync_cases b t with ⟨_, he⟩ | ⟨f, _, he⟩ | ⟨_, he⟩ <;> rw [he]
  · exact .of_isRest (c.finishBatch_pc b t true).1
  · exact .of_not_writing (by simp)
  · exact .of_not_writing (by simp)

theorem WCtx.startWrites_todoOK (c : WCtx) (b : List WReq) (t : Option WReq) :
    (c.startWrites b t).w.TodoOK := by
  rcases c.startWrites_cases b t with ⟨_, he⟩ | ⟨_, he⟩ <;> rw [he]
  · exact c.startSync_todoOK b t
  · intro todo b' t' hpc
    simp only [WPc.writing.injEq] at hpc
    rw [← hpc.1]; exact todoOf_nonempty b

theorem WCtx.step_todoOK (c : WCtx) (out : Outcome) (h : c.w.TodoOK) : (c.step out).w.TodoOK := by
  apply c.step_elim (P := fun c' => c'.w.TodoOK) out
  · intro _ _; exact h
  · intro _ _; exact .of_isRest c.toRecv_pc.1.isRest
  · intro r _ _ _; exact WCtx.startWrites_todoOK _ _ _
  · intro r _ _ _; exact .of_isRest (c.nonFlush_pc r).1
  · intro b t _ _; exact c.startSync_todoOK b t
  · intro d rest b t _ _ _; exact .of_not_writing (by simp)
  · intro d rest b t k hpc _ _ hk _
    intro todo b' t' hpc'
    simp only [WCtx.setPc_w, WPc.writing.injEq] at hpc'
    rw [← hpc'.1]
    intro x hx
    rcases List.mem_cons.mp hx with rfl | hx
    · intro h0
      have := congrArg List.length h0
      simp at this; omega
    · exact h _ _ _ hpc x (by simp [hx])
  · intro d b t _ _ _; exact WCtx.startSync_todoOK _ b t
  · intro d d' rest b t hpc _ _
    intro todo b' t' hpc'
    simp only [WCtx.setPc_w, WPc.writing.injEq] at hpc'
    rw [← hpc'.1]
    intro x hx
    exact h _ _ _ hpc x (by simp [List.mem_cons.mp hx])
  · intro b t _ _ _; exact .of_isRest (c.finishBatch_pc b t true).1
  · intro b t f rest _ _ _ _; exact .of_isRest (WCtx.finishBatch_pc _ b t false).1
  · intro b t f rest _ _ _ _; exact WCtx.startSync_todoOK _ b t
  · intro b t _ _ _; exact .of_isRest (c.finishBatch_pc b t true).1
  · intro b t f rest _ _ _ _; exact .of_isRest (WCtx.finishBatch_pc _ b t false).1
  · intro b t f rest _ _ _ _; exact .of_isRest (WCtx.finishBatch_pc _ b t true).1
  · intro _ _; exact .of_isRest c.toRecv_pc.1.isRest
  · intro i rest _ _ _; exact .of_not_writing (by simp)
  · intro i _ _ _; exact .of_isRest (c.unlinked i).toRecv_pc.1.isRest
  · intro i j rest _ _ _; exact .of_not_writing (by simp)

/-! ## After the channel is closed -/

/-- The sender is gone and the worker is not blocked in `recv`. -/
structure Worker.Closing (w : Worker) : Prop where
  closed : w.senderAlive = false
  not_idle : w.pc ≠ .idle
  dead_queue : w.pc = .dead → w.queue = []

theorem WCtx.toRecv_closing (c : WCtx) (h : c.w.senderAlive = false) : c.toRecv.w.Closing := by
  rcases c.toRecv_cases with ⟨r, q, hq, he⟩ | ⟨hq, ha, he⟩ | ⟨hq, _, he⟩
  · rw [he]; exact ⟨h, by simp, by simp⟩
  · rw [ha] at h; cases h
  · rw [he]; exact ⟨h, by simp, by simp [hq]⟩

theorem WCtx.nonFlush_closing (c : WCtx) (r : WReq) (h : c.w.senderAlive = false) :
    (c.nonFlush r).w.Closing := by
  rcases c.nonFlush_cases r with ⟨c0, he, _, _, _, _, _, ha, _⟩ | ⟨ids, _, _, _, he⟩ <;> rw [he]
  · exact c0.toRecv_closing (by rw [ha]; exact h)
  · exact ⟨h, by simp, by simp⟩

theorem WCtx.finishBatch_closing (c : WCtx) (b : List WReq) (t : Option WReq) (ok : Bool)
    (h : c.w.senderAlive = false) : (c.finishBatch b t ok).w.Closing := by
  rw [WCtx.finishBatch_eq]
  cases t with
  | none => exact WCtx.nonFlush_closing _ _ (by simpa using h)
  | some r => exact WCtx.nonFlush_closing _ _ (by simpa using h)

theorem WCtx.startSync_closing (c : WCtx) (b : List WReq) (t : Option WReq)
    (h : c.w.senderAlive = false) : (c.startSync b t).w.Closing := by
  rcases c.startSync_cases b t with ⟨_, he⟩ | ⟨f, _, he⟩ | ⟨_, he⟩ <;> rw [he]
  · exact c.finishBatch_closing b t true h
  · exact ⟨h, by simp, by simp⟩
  · exact ⟨h, by simp, by simp⟩

theorem WCtx.startWrites_closing (c : WCtx) (b : List WReq) (t : Option WReq)
    (h : c.w.senderAlive = false) : (c.startWrites b t).w.Closing := by
  rcases c.startWrites_cases b t with ⟨_, he⟩ | ⟨_, he⟩ <;> rw [he]
  · exact c.startSync_closing b t h
  · exact ⟨h, by simp, by simp⟩

theorem WCtx.step_closing (c : WCtx) (out : Outcome) (h : c.w.Closing) : (c.step out).w.Closing := by
  have ha := h.closed
  apply c.step_elim (P := fun c' => c'.w.Closing) out
  · intro _ _; exact h
  · intro _ _; exact c.toRecv_closing ha
  · intro r _ _ _; exact WCtx.startWrites_closing _ _ _ ha
  · intro r _ _ _; exact c.nonFlush_closing r ha
  · intro b t _ _; exact c.startSync_closing b t ha
  · intro d rest b t _ _ _; exact ⟨by simpa using ha, by simp, by simp⟩
  · intro d rest b t k _ _ _ _ _; exact ⟨ha, by simp, by simp⟩
  · intro d b t _ _ _; exact WCtx.startSync_closing _ b t ha
  · intro d d' rest b t _ _ _; exact ⟨ha, by simp, by simp⟩
  · intro b t _ _ _; exact c.finishBatch_closing b t true ha
  · intro b t f rest _ _ _ _; exact WCtx.finishBatch_closing _ b t false ha
  · intro b t f rest _ _ _ _; exact WCtx.startSync_closing _ b t ha
  · intro b t _ _ _; exact c.finishBatch_closing b t true ha
  · intro b t f rest _ _ _ _; exact WCtx.finishBatch_closing _ b t false ha
  · intro b t f rest _ _ _ _; exact WCtx.finishBatch_closing _ b t true ha
  · intro _ _; exact c.toRecv_closing ha
  · intro i rest _ _ _; exact ⟨by simpa using ha, by simp, by simp⟩
  · intro i _ _ _; exact WCtx.toRecv_closing _ ha
  · intro i j rest _ _ _; exact ⟨ha, by simp, by simp⟩

theorem Worker.Closing.quiet_dead {w : Worker} (h : w.Closing) (hq : w.quiet = true) :
    w.pc = .dead ∧ w.queue = [] := by
  have hn := h.not_idle
  unfold Worker.quiet at hq
  cases hpc : w.pc with
  | dead => exact ⟨rfl, h.dead_queue hpc⟩
  | idle => exact absurd hpc hn
  | _ => simp [hpc] at hq

/-- With the channel closed, the all-ok run ends with the worker thread gone
and nothing queued, given enough fuel. -/
theorem WCtx.runQuiet_closing (n : Nat) (c : WCtx) (h : c.w.Closing) (hn : c.w.drainCost ≤ n) :
    (WCtx.runQuiet n c).w.pc = .dead ∧ (WCtx.runQuiet n c).w.queue = [] := by
  have h1 : (WCtx.runQuiet n c).w.Closing :=
    WCtx.runQuiet_induct (P := fun c => c.w.Closing) (fun c hc _ => c.step_closing .ok hc) n c h
  exact h1.quiet_dead (WCtx.runQuiet_quiet n c hn)

end RaftLog
