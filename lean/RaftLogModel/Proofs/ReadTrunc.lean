/-
C07 with `truncate`, part 2: the freshness predicate on histories
(`AppendsFresh`: every appended log id is above every id appended earlier),
every public call — `truncate` included — keeps `RdInvC7b` with the ghost bound
`max (largest id appended so far) purged`, the system-level invariant
`ReadInvC7b`, its preservation along a history, and the read lemma.

Part 1: `Proofs/ReadTruncStore.lean`. Property statements: `Props/C07Trunc.lean`.
-/
import RaftLogModel.Proofs.ReadTruncStore
namespace RaftLog

/-! ### Freshness of appended ids -/

/-- The ids of one batch, in order: each must be above the largest id appended
so far (`m`); returns the new largest id, `none` on a violation. -/
def freshIdsC7b (m : Option LogId) : List (LogId × Bytes) → Option (Option LogId)
  | [] => some m
  | (id, _) :: rest => if optLt m (some id) then freshIdsC7b (some id) rest else none

/-- One op: only `append` adds ids. -/
def freshOpC7b (m : Option LogId) : Op → Option (Option LogId)
  | .append es => freshIdsC7b m es
  | _ => some m

/-- Fold over the ops of a history, carrying the largest id appended so far. -/
def freshOpsC7b (m : Option LogId) : List Op → Option (Option LogId)
  | [] => some m
  | op :: rest =>
    match freshOpC7b m op with
    | some m' => freshOpsC7b m' rest
    | none => none

/-- **Every log id appended in the history is strictly greater (LogId order:
term, then index) than every log id appended earlier in the history.** -/
def AppendsFresh (steps : List Step) : Bool := (freshOpsC7b none (stepOps steps)).isSome

/-! ### `appendAndApply`, batches, and every public call -/

theorem aa_rinv_C7b {B B' : Option LogId} {s : Store} {fs : Fs} {w : Worker} {r r' : RefLog}
    (fsHas : Nat → Bool) {rec : Record}
    (hj : JInv s fs w) (h : RdInvC7b B s fs w r) (hrec : rec.WF) (hsm : rec.small)
    (hfs : ∀ i, s.openEnd ≤ i → fsHas i = false)
    (hst : s.st.apply rec = .ok r'.state)
    (hnc : ∃ seg s' effs, s.appendAndApply fsHas rec = (.ok seg, s', effs) ∧ RefinesNoCache s' r' ∧
      Growth0 s s' effs)
    (hstage : RefinesNoCache (s.applied rec r'.state) r' → RdInvC7b B' (s.applied rec r'.state) fs w r') :
    ∃ seg s' effs, s.appendAndApply fsHas rec = (.ok seg, s', effs) ∧
      JInv s' (effFs effs fs) (w.push (effQ effs)) ∧
      RdInvC7b B' s' (effFs effs fs) (w.push (effQ effs)) r' ∧ Growth0 s s' effs := by
  have hne := hj.openBytes.ne_nil
  have hfs' : fsHas (s.openEnd + (encRecord rec).length) = false := hfs _ (by omega)
  have h3 := hstage (refinesNC_applied fsHas hst hsm h.ref.pf hfs' hnc)
  have hj3 := hj.applied hrec hsm hst
  have hjj := (appendAndApply_J fsHas hj hrec hfs).inv
  obtain ⟨seg, s', effs, heq, _, hg⟩ := hnc
  refine ⟨seg, s', effs, heq, by rw [heq] at hjj; exact hjj, ?_, hg⟩
  rw [appendAndApply_shapeRd fsHas hst hsm hne hfs'] at heq
  rcases tryCloseFull_cases (s.applied rec r'.state) fsHas (by rw [Store.applied_openEnd]; exact hfs')
    with e | e <;> rw [e] at heq <;> simp only [Prod.mk.injEq] at heq <;> obtain ⟨_, rfl, rfl⟩ := heq
  · simpa [effFs, effQ] using h3
  · exact h3.rotate hj3

theorem appendBatch_rinv_C7b (es : List (LogId × Bytes)) :
    ∀ (s : Store) (r r' : RefLog) (fsHas : Nat → Bool) (seg : Seg) (effs : List Eff) (fs : Fs) (w : Worker)
      (m m' : Option LogId),
    JInv s (effFs effs fs) (w.push (effQ effs)) →
    RdInvC7b (optMaxC7b m r.purged) s (effFs effs fs) (w.push (effQ effs)) r →
    (∀ i, s.openEnd ≤ i → fsHas i = false) → r.appendAll es = .ok r' →
    (∀ e ∈ es, smallId e.1) → (∀ e ∈ es, e.1.WF ∧ bytesWF e.2) → freshIdsC7b m es = some m' →
    ∃ seg' s' effs', Store.appendBatch fsHas es s seg effs = (.ok seg', s', effs ++ effs') ∧
      RdInvC7b (optMaxC7b m' r'.purged) s' (effFs (effs ++ effs') fs) (w.push (effQ (effs ++ effs'))) r' := by
  induction es with
  | nil =>
    intro s r r' fsHas seg effs fs w m m' _ h _ hc _ _ hfr
    simp only [RefLog.appendAll] at hc
    injection hc with hc
    subst hc
    simp only [freshIdsC7b, Option.some.injEq] at hfr
    subst hfr
    exact ⟨seg, s, [], by simp [Store.appendBatch], by simpa using h⟩
  | cons e rest ih =>
    obtain ⟨id, p⟩ := e
    intro s r r' fsHas seg effs fs w m m' hj h hfs hc hsm hwf hfr
    simp only [RefLog.appendAll] at hc
    simp only [freshIdsC7b] at hfr
    split at hfr
    · rename_i hlt
      split at hc
      · rename_i r1 hc1
        have hsm1 : smallId id := hsm (id, p) List.mem_cons_self
        have hwf1 : (Record.append id p).WF := hwf (id, p) List.mem_cons_self
        obtain ⟨hr1, _, _, _, hpg⟩ := RefLog.append1_facts h.ref.wf hc1
        have hpu1 : r1.purged = r.purged := by rw [hr1]
        have hfresh : optLe (some id) (optMaxC7b m r.purged) = false :=
          optMax_not_ge_C7b ((optLt_iff_not_le _ _).1 hlt) ((optLt_iff_not_le _ _).1 hpg.1)
        have hB : optLe (optMaxC7b m r.purged) (optMaxC7b (some id) r1.purged) = true := by
          rw [hpu1]; exact optMax_mono_C7b (optLe_of_lt hlt) (optLe_refl _)
        obtain ⟨seg1, s1, e1, heq1, hj1, h1, hg1⟩ :=
          aa_rinv_C7b fsHas (rec := .append id p) hj h hwf1 hsm1 hfs (append1_state h.ref hc1)
            (append1_refinesNC fsHas h.ref hfs hc1 hsm1)
            (fun href => RdInvC7b.append1 hj h hc1 hfresh hB (optMax_left_C7b _ _) href)
        rw [← effFs_append, Worker.push_push, ← effQ_append] at hj1 h1
        have hfs1 : ∀ i, s1.openEnd ≤ i →
            (fsHas i || e1.any (fun e => e == Eff.create i)) = false := by
          intro i hi
          have h1 : fsHas i = false := hfs i (by have := hg1.openEnd; omega)
          have h2 : e1.any (fun e => e == Eff.create i) = false := by
            rw [List.any_eq_false]
            intro x hx hxe
            have : x = Eff.create i := by simpa using hxe
            subst this
            have := hg1.creates i hx
            omega
          simp [h1, h2]
        obtain ⟨seg2, s2, e2, heq2, h2⟩ :=
          ih s1 r1 r' _ seg1 (effs ++ e1) fs w (some id) m' hj1 h1 hfs1 hc
            (fun e he => hsm e (List.mem_cons_of_mem _ he))
            (fun e he => hwf e (List.mem_cons_of_mem _ he)) hfr
        refine ⟨seg2, s2, e1 ++ e2, ?_, by rw [← List.append_assoc]; exact h2⟩
        have hidxD12 : id.index + 1 ≠ U64 := by
          have : id.index + 1 < U64 := hsm1
          omega
        rw [appendBatch_cons_small_D12 _ _ _ _ _ _ _ hidxD12]
        rw [heq1]
        simp only
        rw [heq2, List.append_assoc]
      · cases hc
    · cases hfr

theorem truncate_state_C7b {s : Store} {r : RefLog} (h : RefinesNoCache s r) (o : Option LogId) :
    s.st.apply (.truncateAfter o) = .ok (r.truncateTo o).state := by
  simp only [RState.apply, h.st, RState.truncateAfter, RefLog.truncateTo, RefLog.state]
  by_cases hlt : optLt o r.last = true <;> simp [hlt]

/-- **Every legal, accepted, small, well-formed call — `truncate` included —
whose appended ids are above the largest id appended so far** keeps the
read-path invariant with the ghost bound `max (largest appended id) purged`. -/
theorem call_rinv_C7b {m m' : Option LogId} {s : Store} {fs : Fs} {w : Worker} {r r' : RefLog}
    (fsHas : Nat → Bool) {op : Op}
    (hj : JInv s fs w) (h : RdInvC7b (optMaxC7b m r.purged) s fs w r)
    (hfs : ∀ i, s.openEnd ≤ i → fsHas i = false)
    (hl : r.legal op = true) (hc : r.call op = .ok r') (hsm : op.small) (hwf : op.WF)
    (hfr : freshOpC7b m op = some m') :
    ∃ seg s' effs, s.call fsHas op = (.ok seg, s', effs) ∧
      RdInvC7b (optMaxC7b m' r'.purged) s' (effFs effs fs) (w.push (effQ effs)) r' := by
  have hpu : s.st.purged = r.purged := by rw [h.ref.st]; rfl
  have hla : s.st.last = r.last := by rw [h.ref.st]; rfl
  cases op with
  | saveVote v =>
    simp only [freshOpC7b, Option.some.injEq] at hfr
    subst hfr
    simp only [RefLog.call] at hc
    split at hc
    · rename_i hcond
      injection hc with hc; subst hc
      have hst : s.st.apply (.saveVote v) = .ok (RefLog.state { r with vote := some v }) := by
        simp [RState.apply, RState.updateVote, h.ref.st, RefLog.state, hcond]
      obtain ⟨seg, s', effs, heq, _, h', _⟩ := aa_rinv_C7b fsHas (rec := .saveVote v) hj h hwf trivial hfs hst
        (refinesNC_step_plain fsHas h.ref hfs hst (Or.inl ⟨v, rfl⟩) rfl rfl rfl)
        (fun href => RdInvC7b.plain hj h href (Or.inl ⟨v, rfl⟩) rfl hla.symm)
      exact ⟨seg, s', effs, heq, h'⟩
    · cases hc
  | commit id =>
    simp only [freshOpC7b, Option.some.injEq] at hfr
    subst hfr
    simp only [RefLog.call] at hc
    split at hc
    · cases hc
    · rename_i hcond
      injection hc with hc; subst hc
      have hst : s.st.apply (.commit id) = .ok (RefLog.state { r with committed := some id }) := by
        simp [RState.apply, RState.commit, h.ref.st, RefLog.state, hcond]
      obtain ⟨seg, s', effs, heq, _, h', _⟩ := aa_rinv_C7b fsHas (rec := .commit id) hj h hwf trivial hfs hst
        (refinesNC_step_plain fsHas h.ref hfs hst (Or.inr (Or.inl ⟨id, rfl⟩)) rfl rfl rfl)
        (fun href => RdInvC7b.plain hj h href (Or.inr (Or.inl ⟨id, rfl⟩)) rfl hla.symm)
      exact ⟨seg, s', effs, heq, h'⟩
  | saveUserData d =>
    simp only [freshOpC7b, Option.some.injEq] at hfr
    subst hfr
    simp only [RefLog.call] at hc
    injection hc with hc; subst hc
    have hst : s.st.apply (.state { s.st with userData := d }) =
        .ok (RefLog.state { r with userData := d }) := by
      simp [RState.apply, h.ref.st, RefLog.state]
    have hrwf : (Record.state { s.st with userData := d }).WF := by
      obtain ⟨h1, h2, h3, h4, _⟩ := hj.stWF
      exact ⟨h1, h2, h3, h4, by cases d <;> simp [Op.WF] at hwf ⊢ <;> exact hwf⟩
    obtain ⟨seg, s', effs, heq, _, h', _⟩ :=
      aa_rinv_C7b fsHas (rec := .state { s.st with userData := d }) hj h hrwf trivial hfs hst
        (refinesNC_step_plain fsHas h.ref hfs hst (Or.inr (Or.inr ⟨_, rfl, rfl, rfl⟩)) rfl rfl rfl)
        (fun href => RdInvC7b.plain hj h href (Or.inr (Or.inr ⟨_, rfl⟩)) rfl hla.symm)
    exact ⟨seg, s', effs, heq, h'⟩
  | append es =>
    simp only [freshOpC7b] at hfr
    simp only [Store.call]
    obtain ⟨seg0, hseg⟩ := lastSegment_some h.ref.pf.open2
    rw [hseg]
    simp only
    obtain ⟨seg', s', effs', heq, h'⟩ :=
      appendBatch_rinv_C7b es s r r' fsHas seg0 [] fs w m m' (by simpa [effFs, effQ] using hj)
        (by simpa [effFs, effQ] using h) hfs hc hsm hwf hfr
    exact ⟨seg', s', effs', by simpa using heq, by simpa using h'⟩
  | truncate idx =>
    simp only [freshOpC7b, Option.some.injEq] at hfr
    subst hfr
    simp only [Store.call]
    rw [nextIndexChecked_eq h.ref.pf.purged]
    simp only [hpu]
    rcases RefLog.truncate_arg hc with ⟨h1, h2⟩ | ⟨h1, h2, e, he, h3⟩
    · rw [if_pos h1]
      subst h2
      have hos : optSmall r.purged := hpu ▸ h.ref.pf.purged
      have howf : (Record.truncateAfter r.purged).WF := hpu ▸ hj.stWF.2.2.2.1
      obtain ⟨seg, s', effs, heq, _, h', _⟩ :=
        aa_rinv_C7b fsHas (rec := .truncateAfter r.purged) (r' := r.truncateTo r.purged) hj h howf hos hfs
          (truncate_state_C7b h.ref _) (truncateAfter_refinesNC fsHas h.ref hfs (Or.inl rfl) hos)
          (fun href => RdInvC7b.truncate hj h (Or.inl rfl) href)
      exact ⟨seg, s', effs, heq, h'⟩
    · rw [if_neg h1, if_neg h2]
      obtain ⟨d, hd, hde, hds⟩ := logGet_of_entryAtNC h.ref he
      rw [hd]
      simp only [hde]
      subst h3
      have harg : r.TruncArg (some e.1) := Or.inr ⟨e, (RefLog.entryAt_some he).1, rfl⟩
      have hos : optSmall (some e.1) := by rw [← hde]; exact hds
      have howf : (Record.truncateAfter (some e.1)).WF := by
        obtain ⟨x, hx, hxd⟩ := logGet_mem hd
        have : d.id.WF := by rw [← hxd]; exact hj.logWF x hx
        rw [← hde]; exact this
      obtain ⟨seg, s', effs, heq, _, h', _⟩ :=
        aa_rinv_C7b fsHas (rec := .truncateAfter (some e.1)) (r' := r.truncateTo (some e.1)) hj h howf hos hfs
          (truncate_state_C7b h.ref _) (truncateAfter_refinesNC fsHas h.ref hfs harg hos)
          (fun href => RdInvC7b.truncate hj h harg href)
      exact ⟨seg, s', effs, heq, h'⟩
  | purge upto =>
    simp only [freshOpC7b, Option.some.injEq] at hfr
    subst hfr
    have hidxD12 : upto.index + 1 ≠ U64 := by
      have : upto.index + 1 < U64 := hsm
      omega
    simp only [Store.call, if_neg hidxD12]
    rw [nextIndexChecked_eq h.ref.pf.purged]
    simp only [hpu]
    simp only [RefLog.call] at hc
    by_cases hnn : upto.index < nextIndex r.purged
    · rw [if_pos hnn]
      rw [if_pos hnn] at hc
      injection hc with hc; subst hc
      obtain ⟨seg0, hseg⟩ := lastSegment_some h.ref.pf.open2
      rw [hseg]
      exact ⟨seg0, s, [], rfl, by simpa [effFs, effQ] using h⟩
    · rw [if_neg hnn]
      rw [if_neg hnn] at hc
      injection hc with hc; subst hc
      have hpp : optLe r.purged (r.purged' upto).purged = true := by
        simp only [RefLog.purged']
        by_cases hlt : optLt r.purged (some upto) = true
        · simp only [hlt, if_true]; exact optLe_of_lt hlt
        · simp only [hlt]; exact optLe_refl _
      have hup : optLe (some upto) (r.purged' upto).purged = true := by
        simp only [RefLog.purged']
        by_cases hlt : optLt r.purged (some upto) = true
        · simp only [hlt, if_true]; exact optLe_refl _
        · simp only [hlt]; exact (optLe_iff_not_lt _ _).2 (by simpa using hlt)
      have hB : optLe (optMaxC7b m r.purged) (optMaxC7b m (r.purged' upto).purged) = true :=
        optMax_mono_C7b (optLe_refl _) hpp
      have hlast : optLe (r.purged' upto).last (optMaxC7b m (r.purged' upto).purged) = true := by
        have hl0 : optLe r.last (optMaxC7b m r.purged) = true := hla ▸ h.lastB
        show optLe (if optLt r.last (some upto) then some upto else r.last) _ = true
        by_cases hlt : optLt r.last (some upto) = true
        · simp only [hlt, if_true]; exact optLe_trans hup (optMax_right_C7b _ _)
        · simp only [hlt]; exact optLe_trans hl0 hB
      obtain ⟨seg, s', effs, heq, _, h', _⟩ :=
        aa_rinv_C7b fsHas (rec := .purgeUpto upto) (r' := r.purged' upto) hj h hwf hsm hfs
          (purge_state h.ref upto) (purgeUpto_refinesNC fsHas h.ref hfs hl hnn hsm)
          (fun href => RdInvC7b.purge hj h hB hlast href)
      rw [heq]
      simp only
      refine ⟨seg, _, effs, rfl, ?_⟩
      apply h'.dropObsolete
      intro x hx
      obtain ⟨a, ha, hai, hid⟩ := mem_log_indexNC h'.ref hx
      simp only [RefLog.purged', List.mem_filter, decide_eq_true_eq] at ha
      rw [← hid]
      exact RefLog.purge_keys h.ref.wf hl hnn a ha.1 ha.2

/-! ### The system-level invariant -/

/-- **The read-path invariant of a system with a live store and worker, for
histories with `truncate`**: `ReadInv` (Proofs/ReadPath.lean) with `RdInvC7b`
and the ghost bound `max m r.purged`, `m` the largest log id appended so far. -/
def ReadInvC7b (y : Sys) (r : RefLog) (m : Option LogId) : Prop :=
  ∃ s, y.store = some s ∧ y.worker.pc ≠ .dead ∧ JInv s y.fs y.worker ∧
    RdInvC7b (optMaxC7b m r.purged) s y.fs y.worker r ∧ r.EntriesWF

theorem ReadInvC7b.toJ {y : Sys} {r : RefLog} {m : Option LogId} (h : ReadInvC7b y r m) : J y := by
  obtain ⟨s, hs, hd, hj, _⟩ := h
  exact ⟨s, hs, hd, hj⟩

/-- A legal, accepted, small, well-formed call (any op) with fresh ids. -/
theorem ReadInvC7b.call {y : Sys} {r r' : RefLog} {m m' : Option LogId} {op : Op} (h : ReadInvC7b y r m)
    (hl : r.legal op = true) (hc : r.call op = .ok r') (hsm : op.small) (hwf : op.WF)
    (hfr : freshOpC7b m op = some m') :
    ReadInvC7b (y.step (.call op)) r' m' ∧ ∃ seg, (y.call op).1 = .ok seg := by
  obtain ⟨s, hs, hd, hj, hr, hew⟩ := h
  have hfs := Fs.has_false_of_lt hj.fsLt
  obtain ⟨seg, s', effs, heq, h'⟩ := call_rinv_C7b y.fs.has hj hr hfs hl hc hsm hwf hfr
  have hcj := (call_J y.fs.has op hj hwf hfs).inv
  obtain ⟨e1, e2⟩ := Sys.call_eq y op s hs hd
  rw [heq] at hcj e1 e2
  refine ⟨?_, seg, e2⟩
  show ReadInvC7b (y.call op).2.1 r' m'
  rw [e1]
  exact ⟨s', rfl, (Worker.settle_facts _).2.2.2.2 hd, hcj.settle, h'.settle,
    RefLog.call_entriesWF hew hwf hc⟩

theorem ReadInvC7b.flush {y : Sys} {r : RefLog} {m : Option LogId} (h : ReadInvC7b y r m)
    (cb : Option Nat) : ReadInvC7b (y.step (.flush cb)) r m := by
  obtain ⟨s, hs, hd, hj, hr, hew⟩ := h
  show ReadInvC7b (y.flush cb).2.1 r m
  rw [Sys.flush_eq y cb s hs hd]
  exact ⟨_, rfl, (Worker.settle_facts _).2.2.2.2 hd, (flush_J hj cb).settle, (hr.flush hj cb).settle, hew⟩

/-- A worker step of any outcome that leaves the worker alive. -/
theorem ReadInvC7b.worker {y : Sys} {r : RefLog} {m : Option LogId} (h : ReadInvC7b y r m)
    (out : Outcome) (hnd : (y.step (.worker out)).worker.pc ≠ .dead) :
    ReadInvC7b (y.step (.worker out)) r m := by
  obtain ⟨s, hs, hd, hj, hr, hew⟩ := h
  simp only [Sys.step, Sys.workerStep, hs] at hnd ⊢
  have g := WCtx.step_good { w := y.worker, fs := y.fs, cache := s.cache } out hj.wok
    (hj.annFs _ (by simp [Worker.announced])) hnd
  have hids := WCtx.step_ids { w := y.worker, fs := y.fs, cache := s.cache } out
  have hj' := JInv.worker (c := { w := y.worker, fs := y.fs, cache := s.cache }) hj g hids
  have hr' := RdInvC7b.wstep (s := s) (c := { w := y.worker, fs := y.fs, cache := s.cache }) hj hr g
    (WCtx.step_same _ out) (WCtx.step_fents _ out) (WCtx.step_bnd _ out)
  exact ⟨_, rfl, hnd, hj'.of_fields rfl rfl rfl rfl rfl, hr', hew⟩

theorem RdInvC7b.runQuiet {B : Option LogId} {s : Store} {r : RefLog} (n : Nat) :
    ∀ (c : WCtx), JInv s c.fs c.w →
    RdInvC7b B ({ s with cache := c.cache } : Store) c.fs c.w r → (WCtx.runQuiet n c).w.pc ≠ .dead →
    JInv s (WCtx.runQuiet n c).fs (WCtx.runQuiet n c).w ∧
    RdInvC7b B ({ s with cache := (WCtx.runQuiet n c).cache } : Store) (WCtx.runQuiet n c).fs
      (WCtx.runQuiet n c).w r := by
  induction n with
  | zero => intro c hj hr _; exact ⟨hj, hr⟩
  | succ n ih =>
    intro c hj hr hnd
    unfold WCtx.runQuiet at hnd ⊢
    split
    · exact ⟨hj, hr⟩
    · rename_i hq
      simp only [hq] at hnd
      have hnd1 : (c.step .ok).w.pc ≠ .dead := by
        intro hdead
        rw [WCtx.runQuiet_dead n _ hdead] at hnd
        exact hnd hdead
      have g := WCtx.step_good c .ok hj.wok (hj.annFs _ (by simp [Worker.announced])) hnd1
      have hj' := JInv.worker hj g (WCtx.step_ids c .ok)
      have hr' := RdInvC7b.wstep hj hr g (WCtx.step_same c .ok) (WCtx.step_fents c .ok) (WCtx.step_bnd c .ok)
      exact ih (c.step .ok) hj' hr' hnd

theorem ReadInvC7b.workerIdle {y : Sys} {r : RefLog} {m : Option LogId} (h : ReadInvC7b y r m)
    (hnd : (y.step .workerIdle).worker.pc ≠ .dead) : ReadInvC7b (y.step .workerIdle) r m := by
  obtain ⟨s, hs, hd, hj, hr, hew⟩ := h
  simp only [Sys.step, Sys.workerIdle, hs] at hnd ⊢
  obtain ⟨hj', hr'⟩ := RdInvC7b.runQuiet (s := s) y.worker.fuel
    { w := y.worker, fs := y.fs, cache := s.cache } hj hr hnd
  exact ⟨_, rfl, hnd, hj'.of_fields rfl rfl rfl rfl rfl, hr', hew⟩

theorem ReadInvC7b.drain {y : Sys} {r : RefLog} {m : Option LogId} (h : ReadInvC7b y r m) :
    ReadInvC7b (y.step .drain) r m := by
  obtain ⟨s, hs, hd, hj, hr, hew⟩ := h
  simp only [Sys.step, Sys.drain, hs]
  exact ⟨_, rfl, hd, hj.of_fields rfl rfl rfl rfl rfl, hr.drain, hew⟩

/-! ### `ReadInv` and `ReadInvC7b` -/

/-- The truncate-free invariant is the instance "bound = `last`" of the new
one, whenever `last` is at or below the bound. -/
theorem RdInv.toC7b {B : Option LogId} {s : Store} {fs : Fs} {w : Worker} {r : RefLog}
    (h : RdInv s fs w r) (hB : optLe s.st.last B = true) : RdInvC7b B s fs w r :=
  ⟨h.ref, h.cval, h.loc, h.clast, h.res, ⟨optLe_trans h.bnd.1 hB, h.bnd.2⟩,
    fun f hf => ⟨optLe_trans (h.ents f hf).1 hB, (h.ents f hf).2⟩, hB⟩

/-- The freshly opened store. -/
theorem fresh_readInv_C7b (cfg : Cfg) : ReadInvC7b (Sys.fresh cfg) {} none := by
  obtain ⟨s, hs, hd, hj, hr, hew⟩ := fresh_readInv cfg
  refine ⟨s, hs, hd, hj, hr.toC7b ?_, hew⟩
  have : s.st.last = none := by rw [hr.ref.st]; rfl
  rw [this]; simp

/-! ### Histories -/

theorem run_readInv_C7b (steps : List Step) : ∀ (y : Sys) (r r' : RefLog) (m m' : Option LogId),
    ReadInvC7b y r m →
    (∀ st ∈ steps, st.journal = true) → r.run (stepOps steps) = some r' →
    (∀ op ∈ stepOps steps, op.small ∧ op.WF) → freshOpsC7b m (stepOps steps) = some m' →
    (y.run steps).worker.pc ≠ .dead →
    ReadInvC7b (y.run steps) r' m' ∧
    ∀ pre op post, steps = pre ++ Step.call op :: post → ∃ seg, ((y.run pre).call op).1 = .ok seg := by
  induction steps with
  | nil =>
    intro y r r' m m' h _ hr _ hfr _
    simp only [stepOps, RefLog.run, Option.some.injEq] at hr
    subst hr
    simp only [stepOps, freshOpsC7b, Option.some.injEq] at hfr
    subst hfr
    refine ⟨h, ?_⟩
    intro pre op post hsplit
    cases pre <;> cases hsplit
  | cons st rest ih =>
    intro y r r' m m' h hst hr hops hfr hnd
    have hrest : ∀ st' ∈ rest, st'.journal = true := fun s hs => hst s (List.mem_cons_of_mem _ hs)
    simp only [Sys.run, List.foldl_cons] at hnd
    have hnd1 : (y.step st).worker.pc ≠ .dead := by
      intro hdead
      exact hnd (Sys.run_dead rest _ hrest hdead)
    -- a non-call step: same reference log
    have hother : stepOps (st :: rest) = stepOps rest → ReadInvC7b (y.step st) r m → (∀ op, st ≠ .call op) →
        ReadInvC7b ((y.step st).run rest) r' m' ∧
        ∀ pre op post, st :: rest = pre ++ Step.call op :: post →
          ∃ seg, ((y.run pre).call op).1 = .ok seg := by
      intro he h' hne
      rw [he] at hr hops hfr
      obtain ⟨g1, g2⟩ := ih (y.step st) r r' m m' h' hrest hr hops hfr hnd
      refine ⟨g1, ?_⟩
      intro pre op post hsplit
      cases pre with
      | nil =>
        simp only [List.nil_append, List.cons.injEq] at hsplit
        exact absurd hsplit.1 (hne op)
      | cons p pre' =>
        simp only [List.cons_append, List.cons.injEq] at hsplit
        obtain ⟨hp, hrest'⟩ := hsplit
        subst hp
        exact g2 pre' op post hrest'
    cases st with
    | drop => have := hst _ List.mem_cons_self; cases this
    | openWith c => have := hst _ List.mem_cons_self; cases this
    | drain => exact hother rfl h.drain (by intro op hh; cases hh)
    | flush cb => exact hother rfl (h.flush cb) (by intro op hh; cases hh)
    | worker out => exact hother rfl (h.worker out hnd1) (by intro op hh; cases hh)
    | workerIdle => exact hother rfl (h.workerIdle hnd1) (by intro op hh; cases hh)
    | call op =>
      simp only [stepOps, RefLog.run] at hr
      simp only [stepOps, freshOpsC7b] at hfr
      obtain ⟨hsm0, hwf0⟩ := hops op (by simp [stepOps])
      have hops' : ∀ o ∈ stepOps rest, o.small ∧ o.WF := fun o ho => hops o (by simp [stepOps, ho])
      split at hfr
      · rename_i m1 hfr1
        split at hr
        · rename_i hl
          split at hr
          · rename_i r1 hc
            obtain ⟨h1, hok⟩ := h.call hl hc hsm0 hwf0 hfr1
            obtain ⟨g1, g2⟩ := ih (y.step (.call op)) r1 r' m1 m' h1 hrest hr hops' hfr hnd
            refine ⟨g1, ?_⟩
            intro pre op' post hsplit
            cases pre with
            | nil =>
              simp only [List.nil_append, List.cons.injEq, Step.call.injEq] at hsplit
              obtain ⟨hop, _⟩ := hsplit
              subst hop
              exact hok
            | cons p pre' =>
              simp only [List.cons_append, List.cons.injEq] at hsplit
              obtain ⟨hp, hrest'⟩ := hsplit
              subst hp
              exact g2 pre' op' post hrest'
          · cases hr
        · cases hr
      · cases hfr

/-! ### Reads -/

/-- `RdInv.on_disk` for `RdInvC7b`. -/
theorem RdInvC7b.on_disk {B : Option LogId} {s : Store} {fs : Fs} {w : Worker} {r : RefLog}
    (hj : JInv s fs w)
    (h : RdInvC7b B s fs w r) (hew : r.EntriesWF) {x : Nat × LogData} (hx : x ∈ s.log) {p : Bytes}
    (hp : (x.2.id, p) ∈ r.entries) (hlt : x.2.chunk < w.cur) :
    (∃ c ∈ s.closed, c.id = x.2.chunk) ∧
    (∃ f, fs.find x.2.chunk = some f ∧ x.2.off - x.2.chunk + x.2.size ≤ f.data.length ∧
      (f.data.drop (x.2.off - x.2.chunk)).take x.2.size = encRecord (.append x.2.id p)) ∧
    w.inflight x.2.chunk = [] ∧
    loadPayload s.closed fs x.2 = .ok x.2.id p := by
  obtain ⟨p', hp', hl, hoff, hsz, pre, post, hbytes, hpre⟩ := h.loc x hx
  have hpp : p' = p := h.ref.wf.payload_unique hp' hp
  subst hpp
  have hcur_le : w.cur ≤ s.openId := hj.ann_le _ (by simp [Worker.announced])
  have hclosed : ∃ c ∈ s.closed, c.id = x.2.chunk := by
    rcases hl with h1 | h1
    · omega
    · exact h1
  obtain ⟨c, hc, hcid⟩ := hclosed
  have hna : x.2.chunk ∉ w.announced := by
    intro hm
    have := incr_head_le (a := w.cur) (l := annIds w.rest) hj.annAsc _ hm
    omega
  have hinf := w.inflight_not_announced _ hna
  have hsome := (Fs.find_isSome_iff fs x.2.chunk).mpr (hcid ▸ hj.closedFs c hc)
  cases hf : fs.find x.2.chunk with
  | none => rw [hf] at hsome; cases hsome
  | some f =>
    have hfd : fdata fs x.2.chunk = f.data := by unfold fdata; rw [hf]
    have hno : ¬ s.openId = x.2.chunk := by omega
    have hcb : chunkBytes s fs w x.2.chunk = f.data := by
      simp [chunkBytes, hinf, hfd, hno]
    rw [hcb] at hbytes
    have hslice : (f.data.drop (x.2.off - x.2.chunk)).take x.2.size =
        encRecord (.append x.2.id p') := by
      rw [hbytes, ← hpre, hsz]; simp
    have hlen : x.2.off - x.2.chunk + x.2.size ≤ f.data.length := by
      rw [hbytes, hsz, ← hpre]; simp
    refine ⟨⟨c, hc, hcid⟩, ⟨f, rfl, hlen, hslice⟩, hinf, ?_⟩
    unfold loadPayload
    cases hfind : s.closed.find? (fun c => c.id == x.2.chunk) with
    | none =>
      have := List.find?_eq_none.mp hfind c hc
      simp [hcid] at this
    | some c' =>
      have hc'id : c'.id = x.2.chunk := by simpa using List.find?_some hfind
      have hrt := record_rt (.append x.2.id p') [] (hew _ hp)
      rw [List.append_nil] at hrt
      simp only [hc'id, Fs.readAt, hf, hlen, if_true, hslice, hrt]

/-- Every lookup of a live entry returns its spec payload: from the cache, or
from the file of its closed chunk. -/
theorem RdInvC7b.itemOK {B : Option LogId} {s : Store} {fs : Fs} {w : Worker} {r : RefLog}
    (hj : JInv s fs w) (h : RdInvC7b B s fs w r) (hew : r.EntriesWF) :
    ∀ x ∈ s.log, ∀ e ∈ r.entries, e.1 = x.2.id → ItemOK s fs x.2 e.2 := by
  intro x hx e he hid
  obtain ⟨a, b⟩ := e
  simp only at hid
  subst hid
  refine ⟨?_, ?_⟩
  · intro q hq
    exact (h.cval _ (Cache.mem_of_get hq) _ he rfl).symm
  · intro hnone
    have hlt : x.2.chunk < w.cur := by
      rcases h.res x hx with ⟨q, hq⟩ | h1
      · have := Cache.get_of_mem h.ref.cinv.ok.sorted hq
        rw [hnone] at this; cases this
      · exact h1
    exact (h.on_disk hj hew hx he hlt).2.2.2

/-- **ReadInvC7b ⇒ read = spec read.** -/
theorem ReadInvC7b.read {y : Sys} {r : RefLog} {m : Option LogId} (h : ReadInvC7b y r m) :
    ∃ s, y.store = some s ∧ s.st = r.state ∧
      (∀ a b, (s.read y.fs a b).1 = (r.read a b).map (fun e => ReadItem.ok e.1 e.2)) ∧
      s.iter y.fs = r.entries.map (fun e => ReadItem.ok e.1 e.2) := by
  obtain ⟨s, hs, _, hj, hr, hew⟩ := h
  have hitem := hr.itemOK hj hew
  refine ⟨s, hs, hr.ref.st, ?_, ?_⟩
  · intro a b
    unfold Store.read RefLog.read
    simp only
    apply readLoop_itemOK
    · have h1 := logKeys_filter (fun i => decide (a ≤ i) && decide (i < b)) s.log
      have h2 := entKeys_filter (fun i => decide (a ≤ i) && decide (i < b)) r.entries
      have h3 : logKeys s.log = entKeys r.entries := hr.ref.log
      rw [h1, h2, h3]
    · intro x hx e he
      exact hitem x (List.mem_filter.mp hx).1 e (List.mem_filter.mp he).1
  · unfold Store.iter
    exact readLoop_itemOK s y.fs s.log r.entries hr.ref.log hitem 0 0

/-- Every live entry is resident with its payload, or its chunk is closed and
its record is completely WRITTEN to the chunk file. -/
theorem ReadInvC7b.resident_or_on_disk {y : Sys} {r : RefLog} {m : Option LogId} (h : ReadInvC7b y r m) :
    ∃ s, y.store = some s ∧ ∀ x ∈ s.log, ∃ p, (x.2.id, p) ∈ r.entries ∧
      (s.cache.get x.2.id = some p ∨
        ((∃ c ∈ s.closed, c.id = x.2.chunk) ∧ y.worker.inflight x.2.chunk = [] ∧
          ∃ f, y.fs.find x.2.chunk = some f ∧ x.2.off - x.2.chunk + x.2.size ≤ f.data.length ∧
            (f.data.drop (x.2.off - x.2.chunk)).take x.2.size = encRecord (.append x.2.id p))) := by
  obtain ⟨s, hs, _, hj, hr, hew⟩ := h
  refine ⟨s, hs, ?_⟩
  intro x hx
  obtain ⟨p, hp, _⟩ := hr.loc x hx
  refine ⟨p, hp, ?_⟩
  rcases hr.res x hx with ⟨q, hq⟩ | hlt
  · left
    have := hr.cval _ hq _ hp rfl
    simp only at this
    subst this
    exact Cache.get_of_mem hr.ref.cinv.ok.sorted hq
  · right
    obtain ⟨h1, h2, h3, _⟩ := hr.on_disk hj hew hx hp hlt
    exact ⟨h1, h3, h2⟩

end RaftLog
