/-
C05 (crash recoverability), part 6: system level. The system `open` builds on a crash
image of a reachable directory satisfies the replay, journal and linked-files invariants
for the reference log reached by a prefix of the entry-level writes.
-/
import RaftLogModel.Proofs.Recov5e
namespace RaftLog

/-- Payload mirroring for every ghost store of the system. -/
def GPayC5b (y : Sys) (W : List Op) : Prop :=
  ∀ s r A E K Bh gs, y.store = some s → GInvC3b s y.fs y.worker r W A E K Bh gs →
    JPayC5b (s.liftC3b (ghostClosedC3b gs)) y.fs y.worker W

/-- The system `Sys.open` builds from a successful `openStore`. -/
def recoveredSysC5b (cfg' : Cfg) (s' : Store) (w' : Worker) (fs' : Fs) : Sys :=
  { fs := fs', store := some s', worker := w', cfg := cfg', locked := true }

theorem open_eq_recovered_C5b {cfg' : Cfg} {img fs' : Fs} {s' : Store} {w' : Worker} {evs : List Ev}
    (h : openStore cfg' img = (.ok (s', w'), fs', evs)) :
    ({ fs := img, cfg := cfg' } : Sys).open = (.ok (), recoveredSysC5b cfg' s' w' fs', evs) := by
  simp [Sys.open, h, recoveredSysC5b]

theorem RecovC5b.covered {s' : Store} {w' : Worker} {fs' : Fs} {jc' : List (Closed × List Record)}
    {jo' : List Record} (h : RecovC5b s' w' fs' jc' jo') : CoveredFW fs' w' := by
  intro f hf hdur _
  obtain ⟨pl, hw⟩ := h.worker
  left
  rw [hw]
  simp only [List.map_cons, List.map_nil, List.mem_singleton]
  -- `f` is a chunk file; closed chunk files are durable
  have hhas : fs'.has f.id = true := (Fs.has_iff h.nodup f.id).mpr ⟨f, hf, h.allLinked f hf, rfl⟩
  have hmem := h.has f.id hhas
  rw [Store.chunkIds_eq] at hmem
  rcases List.mem_append.mp hmem with k | k
  · exfalso
    obtain ⟨c, hc, e⟩ := List.mem_map.mp k
    obtain ⟨p, hp, e2⟩ := h.mem_closed hc
    obtain ⟨f', k1, _, _, k4, _⟩ := h.files p hp
    have hf' : f' ∈ fs' := List.mem_of_find?_eq_some k1
    have : f' = f := eq_of_nodup_ids h.nodup hf' hf (by rw [Fs.find_id k1, e2]; exact e)
    subst this
    omega
  · simpa using k

theorem crash_recover_sys_C5b {y : Sys} {r : RefLog} {W : List Op} {B A E K : Nat}
    (hh : HSys y r W B A E K) (hg : GSysC3b y r W A E K) (hS : SmallSys y) (hpay : GPayC5b y W)
    {img : Fs} (hc : CrashImage y.fs img) (hnt : NoTornPredecessor img)
    (cfg' : Cfg) (ht : cfg'.truncate = true) :
    ∃ s' w' fs' evs n r', openStore cfg' img = (.ok (s', w'), fs', evs) ∧
      RefLog.run {} (W.take n) = some r' ∧ (E ≤ A → K ≤ n) ∧
      CSys (recoveredSysC5b cfg' s' w' fs') r' ∧ J (recoveredSysC5b cfg' s' w' fs') ∧
      SmallSys (recoveredSysC5b cfg' s' w' fs') ∧ SysWF (recoveredSysC5b cfg' s' w' fs') ∧
      SysCovered (recoveredSysC5b cfg' s' w' fs') ∧
      (w'.quiet = true ∧ s'.pending = [] ∧ s'.removed = [] ∧ w'.postponed = []) ∧
      s'.cfg = cfg' ∧ s'.cache.maxItems = cfg'.cacheItems ∧ s'.cache.capacity = cfg'.cacheCap ∧
      ∃ jc' jo', RecovC5b s' w' fs' jc' jo' := by
  obtain ⟨⟨s, hs, _, _⟩, ⟨s1, hs1, hli⟩, _, _⟩ := hh
  rw [hs] at hs1; cases hs1
  obtain ⟨s0, Bh, gs, hs0, h⟩ := hg
  rw [hs] at hs0; cases hs0
  have hlinked : y.fs.linkedIds = (s.liftC3b (ghostClosedC3b gs)).chunkIds := by
    rw [liftC3b_chunkIds]; exact h.linkedIds hli
  obtain ⟨s', w', fs', evs, n, r', q1, q2, q3, q4, q5, q6, q7, q8, q9, q10, q11, q12, q13, jc', jo', q14⟩ :=
    ghost_recover_C5b h.base h.ack (smallJ_lift_C5b (hS s hs) _) (hpay s r A E K Bh gs hs h)
      (h.live hli) hlinked hli.nodup hc hnt cfg' ht
  have hnd : w'.pc ≠ .dead := by rw [q6]; intro e; cases e
  have hR : RSys (recoveredSysC5b cfg' s' w' fs') r' := ⟨s', rfl, hnd, q4⟩
  refine ⟨s', w', fs', evs, n, r', q1, q2, q3, ⟨hR, ⟨s', rfl, q5⟩⟩, hR.J, ?_, ?_, q14.covered, ?_,
    q8, q11, q12, jc', jo', q14⟩
  · intro s2 hs2
    have : s2 = s' := by
      simp only [recoveredSysC5b, Option.some.injEq] at hs2; exact hs2.symm
    subst this; exact q13
  · intro _
    obtain ⟨pl, hw⟩ := q14.worker
    constructor
    · show Worker.WF w'
      rw [hw]; simp [Worker.WF]
    · exact .of_not_writing (by intro todo b t e; rw [hw] at e; cases e)
  · refine ⟨?_, q9, q10, ?_⟩
    · simp [Worker.quiet, q6, q7]
    · obtain ⟨pl, hw⟩ := q14.worker
      rw [hw]

end RaftLog
