/-
D12 — C16 without `small`.

Since `append` (per entry) and `purge` refuse a log id whose index is u64::MAX
with `InvalidInput`, no well-formed argument (u64 ids, u32 payload lengths) of
the public write API reaches a panic branch any more, and every record the
store journals is small. This file proves, WITHOUT the reference log and without
`Op.small`:

* store level: `call_ok_D12` (no panic, `PanicFree` kept), `call_SJ_D12` (the
  small-journal invariant `SmallJ` is kept by every call — accepted, rejected or
  refused);
* system level: `PFSys_D12`, `SmallSys` along every history of calls with
  well-formed arguments, flushes, worker steps, `workerIdle`, `drain`;
* recovery: the directory of every such reachable state, what `drop` leaves of
  it, and every crash image of it satisfy `FsSmall`, so `open` does not panic.
-/
import RaftLogModel.Proofs.SmallJournalSys
import RaftLogModel.Proofs.CrashOpen
namespace RaftLog

/-! ### Store level: no call panics -/

theorem smallId_of_WF_D12 {id : LogId} (hwf : id.WF) (h : id.index + 1 ≠ U64) : smallId id := by
  have h2 : id.index < U64 := hwf.2
  show id.index + 1 < U64
  omega

theorem appendBatch_ok_D12 (fsHas : Nat → Bool) (es : List (LogId × Bytes)) (s : Store) (seg : Seg)
    (effs : List Eff) (hp : PanicFree s) (hes : ∀ e ∈ es, e.1.WF ∧ bytesWF e.2) :
    (∀ m, (Store.appendBatch fsHas es s seg effs).1 ≠ .panic m) ∧
      PanicFree (Store.appendBatch fsHas es s seg effs).2.1 := by
  induction es generalizing s seg effs fsHas with
  | nil => exact ⟨(by intro m h; cases h), hp⟩
  | cons e rest ih =>
    obtain ⟨id, p⟩ := e
    by_cases hidx : id.index + 1 = U64
    · rw [appendBatch_cons_refused_D12 _ _ _ _ _ _ _ hidx]
      exact ⟨(by intro m h; cases h), hp⟩
    have hsmall : (Record.append id p).small :=
      smallId_of_WF_D12 (hes (id, p) List.mem_cons_self).1 hidx
    have h1 := appendAndApply_not_panic fsHas hp hsmall
    have h2 := appendAndApply_panicFree fsHas hp hsmall (by intro x hx; cases hx)
    rw [appendBatch_cons_small_D12 _ _ _ _ _ _ _ hidx]
    split
    · rename_i seg' s' e' heq
      rw [heq] at h2
      exact ih _ s' seg' _ h2 (fun e he => hes e (List.mem_cons_of_mem _ he))
    · rename_i k s' e' heq
      rw [heq] at h2
      exact ⟨(by intro m h; cases h), h2⟩
    · rename_i m s' e' heq
      rw [heq] at h1
      exact absurd rfl (h1 m)

/-- **No public write call panics, whatever its (well-formed) arguments, and the
invariant is kept** — accepted, rejected or refused. -/
theorem call_ok_D12 {s : Store} (fsHas : Nat → Bool) (op : Op) (hp : PanicFree s) (hop : op.WF) :
    (∀ m, (s.call fsHas op).1 ≠ .panic m) ∧ PanicFree (s.call fsHas op).2.1 := by
  cases op with
  | saveVote v => exact call_ok fsHas _ hp trivial
  | commit id => exact call_ok fsHas _ hp trivial
  | saveUserData d => exact call_ok fsHas _ hp trivial
  | truncate idx => exact call_ok fsHas _ hp trivial
  | append es =>
    simp only [Store.call]
    obtain ⟨seg, hseg⟩ := lastSegment_some hp.open2
    rw [hseg]
    exact appendBatch_ok_D12 fsHas es s seg [] hp hop
  | purge upto =>
    by_cases hidx : upto.index + 1 = U64
    · rw [call_purge_refused_D12 _ _ _ hidx]
      exact ⟨(by intro m h; cases h), hp⟩
    · exact call_ok fsHas _ hp (smallId_of_WF_D12 hop hidx)

/-! ### Store level: every journalled record is small -/

/-- One journalled record — accepted (with rotation if the chunk is full) or
rejected by the state. -/
theorem appendAndApply_SJ_D12 {s : Store} {fs : Fs} {w : Worker} (fsHas : Nat → Bool) {rec : Record}
    (hj : JInv s fs w) (hS : SmallJ s fs w) (hp : PanicFree s) (hwf : rec.WF) (hsm : RecSmall rec)
    (hfs : ∀ i, s.openEnd ≤ i → fsHas i = false) :
    SmallJ (s.appendAndApply fsHas rec).2.1 (effFs (s.appendAndApply fsHas rec).2.2 fs)
      (w.push (effQ (s.appendAndApply fsHas rec).2.2)) := by
  cases hst : s.st.apply rec with
  | ok st' =>
    exact smallJ_step fsHas hj hS hwf hsm hst (apply_small hsm.1 hsm.2 hp.purged hp.last hst) hfs
  | err k =>
    have : s.appendAndApply fsHas rec = (.err k, s, []) := by simp [Store.appendAndApply, hst]
    rw [this]; simpa [effFs, effQ] using hS
  | panic m =>
    have : s.appendAndApply fsHas rec = (.panic m, s, []) := by simp [Store.appendAndApply, hst]
    rw [this]; simpa [effFs, effQ] using hS

theorem appendBatch_SJ_D12 (es : List (LogId × Bytes)) :
    ∀ (fsHas : Nat → Bool) (s : Store) (seg : Seg) (effs : List Eff) (fs : Fs) (w : Worker),
    JInv s (effFs effs fs) (w.push (effQ effs)) → SmallJ s (effFs effs fs) (w.push (effQ effs)) →
    PanicFree s → (∀ e ∈ es, e.1.WF ∧ bytesWF e.2) →
    (∀ i, s.openEnd ≤ i → fsHas i = false) →
    SmallJ (Store.appendBatch fsHas es s seg effs).2.1
      (effFs (Store.appendBatch fsHas es s seg effs).2.2 fs)
      (w.push (effQ (Store.appendBatch fsHas es s seg effs).2.2)) := by
  induction es with
  | nil => intro fsHas s seg effs fs w _ hS _ _ _; exact hS
  | cons e rest ih =>
    intro fsHas s seg effs fs w h hS hp hes hfs
    obtain ⟨id, p⟩ := e
    by_cases hidx : id.index + 1 = U64
    · rw [appendBatch_cons_refused_D12 _ _ _ _ _ _ _ hidx]
      exact hS
    have hr : (Record.append id p).WF := hes (id, p) List.mem_cons_self
    have hsmall : (Record.append id p).small := smallId_of_WF_D12 hr.1 hidx
    have hrs : RecSmall (Record.append id p) := ⟨hsmall, by intro x hx; cases hx⟩
    have g := appendAndApply_J fsHas h hr hfs
    have gS := appendAndApply_SJ_D12 fsHas h hS hp hr hrs hfs
    have gP := appendAndApply_panicFree fsHas hp hsmall (by intro x hx; cases hx)
    rw [appendBatch_cons_small_D12 _ _ _ _ _ _ _ hidx]
    rcases hres : s.appendAndApply fsHas (.append id p) with ⟨res, s', e'⟩
    rw [hres] at g gS gP
    have ginv := g.inv
    simp only at ginv gS gP
    rw [← effFs_append, Worker.push_push, ← effQ_append] at ginv gS
    cases res with
    | ok seg' =>
      simp only
      refine ih _ s' seg' _ fs w ginv gS gP (fun e he => hes e (List.mem_cons_of_mem _ he)) ?_
      intro i hi
      have h1 := g.openEnd
      simp only [Bool.or_eq_false_iff]
      refine ⟨hfs i (by simp only at h1; omega), ?_⟩
      rw [List.any_eq_false]
      intro x hx hxe
      have : x = Eff.create i := by simpa using hxe
      subst this
      have := (g.creates i hx).2
      simp only at this
      omega
    | err k => exact gS
    | panic m => exact gS

/-- **Every public write call keeps the small-journal invariant**, whatever its
(well-formed) arguments, accepted, rejected or refused. No reference log. -/
theorem call_SJ_D12 {s : Store} {fs : Fs} {w : Worker} (fsHas : Nat → Bool) (op : Op)
    (h : JInv s fs w) (hS : SmallJ s fs w) (hp : PanicFree s) (hop : op.WF)
    (hfs : ∀ i, s.openEnd ≤ i → fsHas i = false) :
    SmallJ (s.call fsHas op).2.1 (effFs (s.call fsHas op).2.2 fs)
      (w.push (effQ (s.call fsHas op).2.2)) := by
  have same : ∀ (x : Res Seg), SmallJ (x, s, ([] : List Eff)).2.1 (effFs (x, s, ([] : List Eff)).2.2 fs)
      (w.push (effQ (x, s, ([] : List Eff)).2.2)) := by
    intro x; simpa [effFs, effQ] using hS
  cases op with
  | saveVote v =>
    exact appendAndApply_SJ_D12 fsHas h hS hp (rec := .saveVote v) hop
      ⟨trivial, by intro x hx; cases hx⟩ hfs
  | commit id =>
    exact appendAndApply_SJ_D12 fsHas h hS hp (rec := .commit id) hop
      ⟨trivial, by intro x hx; cases hx⟩ hfs
  | saveUserData d =>
    refine appendAndApply_SJ_D12 fsHas h hS hp (rec := .state { s.st with userData := d }) ?_
      ⟨trivial, by intro x hx; injection hx with hx; subst hx; exact ⟨hp.purged, hp.last⟩⟩ hfs
    obtain ⟨h1, h2, h3, h4, _⟩ := h.stWF
    exact ⟨h1, h2, h3, h4, by cases d <;> simp [Op.WF] at hop ⊢ <;> exact hop⟩
  | append es =>
    simp only [Store.call]
    split
    · exact same _
    · exact appendBatch_SJ_D12 es fsHas s _ [] fs w (by simpa [effFs, effQ] using h)
        (by simpa [effFs, effQ] using hS) hp hop hfs
  | truncate idx =>
    simp only [Store.call]
    split
    · exact same _
    · split
      · exact appendAndApply_SJ_D12 fsHas h hS hp (rec := .truncateAfter s.st.purged)
          h.stWF.2.2.2.1 ⟨hp.purged, by intro x hx; cases hx⟩ hfs
      · split
        · exact same _
        · split
          · exact same _
          · rename_i d hd
            obtain ⟨e, he, hed⟩ := logGet_mem hd
            have hwf : d.id.WF := by rw [← hed]; exact h.logWF e he
            have hsm : smallId d.id := by rw [← hed]; exact hp.log e he
            exact appendAndApply_SJ_D12 fsHas h hS hp (rec := .truncateAfter (some d.id)) hwf
              ⟨hsm, by intro x hx; cases hx⟩ hfs
  | purge upto =>
    by_cases hidx : upto.index + 1 = U64
    · rw [call_purge_refused_D12 _ _ _ hidx]
      exact same _
    rw [call_purge_small_D12 _ _ _ hidx]
    split
    · exact same _
    · split
      · split
        · exact same _
        · exact same _
      · have gS := appendAndApply_SJ_D12 fsHas h hS hp (rec := .purgeUpto upto) hop
          ⟨smallId_of_WF_D12 hop hidx, by intro x hx; cases hx⟩ hfs
        split
        · rename_i seg s' effs heq
          rw [heq] at gS
          exact gS.transport (fun id hid => hid) (fun id => rfl)
        · exact gS

/-! ### System level: `PanicFree` along every history -/

/-- The store of the system (if there is one) is `PanicFree`. -/
def PFSys_D12 (y : Sys) : Prop := ∀ s, y.store = some s → PanicFree s

theorem PanicFree.of_fields_D12 {s s2 : Store} (h : PanicFree s) (h1 : s2.st = s.st)
    (h2 : s2.log = s.log) (h3 : s2.openOffsets = s.openOffsets) : PanicFree s2 :=
  ⟨by rw [h3]; exact h.open2, by rw [h1]; exact h.purged, by rw [h1]; exact h.last,
    by rw [h2]; exact h.log⟩

theorem fresh_PFSys_D12 (cfg : Cfg) : PFSys_D12 (Sys.fresh cfg) := by
  have h : ∃ s, (Sys.fresh cfg).store = some s ∧ s.openOffsets.length = 2 ∧ s.st = {} ∧ s.log = [] := by
    simp [Sys.fresh, Sys.open, openStore, Fs.linkedIds, openLoop, emptyStore, Fs.has, Fs.find]
  obtain ⟨s, h1, h2, h3, h4⟩ := h
  intro s' hs'
  rw [h1] at hs'; cases hs'
  exact ⟨by omega, by rw [h3]; trivial, by rw [h3]; trivial, by rw [h4]; intro e he; cases he⟩

theorem Sys.call_store_D12 (y : Sys) (op : Op) (s : Store) (hs : y.store = some s) :
    (y.call op).2.1.store = some (s.call y.fs.has op).2.1 := by
  simp only [Sys.call, hs]

/-- A system-level call panics only if the store-level call does. -/
theorem Sys.call_panic_D12 (y : Sys) (op : Op) (m : String) (h : (y.call op).1 = .panic m) :
    ∃ s, y.store = some s ∧ (s.call y.fs.has op).1 = .panic m := by
  cases hs : y.store with
  | none => simp only [Sys.call, hs] at h; cases h
  | some s =>
    refine ⟨s, rfl, ?_⟩
    simp only [Sys.call, hs] at h
    split at h
    · exact h
    · split at h
      · rename_i m' hm'
        rw [hm']; exact h
      · cases h

theorem PFSys_D12.call {y : Sys} (h : PFSys_D12 y) (op : Op) (hop : op.WF) :
    PFSys_D12 (y.call op).2.1 ∧ ∀ m, (y.call op).1 ≠ .panic m := by
  refine ⟨?_, ?_⟩
  · cases hs : y.store with
    | none =>
      have : (y.call op).2.1 = y := by simp only [Sys.call, hs]
      rw [this]; exact h
    | some s =>
      intro s' hs'
      rw [Sys.call_store_D12 y op s hs] at hs'
      injection hs' with hs'
      subst hs'
      exact (call_ok_D12 y.fs.has op (h s hs) hop).2
  · intro m hm
    obtain ⟨s, hs, hp⟩ := Sys.call_panic_D12 y op m hm
    exact (call_ok_D12 y.fs.has op (h s hs) hop).1 m hp

theorem PFSys_D12.flush {y : Sys} (h : PFSys_D12 y) (cb : Option Nat) : PFSys_D12 (y.flush cb).2.1 := by
  cases hs : y.store with
  | none =>
    have : (y.flush cb).2.1 = y := by simp only [Sys.flush, hs]
    rw [this]; exact h
  | some s =>
    intro s' hs'
    simp only [Sys.flush, hs] at hs'
    injection hs' with hs'
    subst hs'
    split
    · exact (h s hs).of_fields_D12 rfl rfl rfl
    · exact (h s hs).of_fields_D12 rfl rfl rfl

theorem PFSys_D12.worker {y : Sys} (h : PFSys_D12 y) (out : Outcome) :
    PFSys_D12 (y.workerStep out).1 := by
  cases hs : y.store with
  | none =>
    have : (y.workerStep out).1 = y := by simp only [Sys.workerStep, hs]
    rw [this]; exact h
  | some s =>
    intro s' hs'
    simp only [Sys.workerStep, hs] at hs'
    injection hs' with hs'
    subst hs'
    exact (h s hs).of_fields_D12 rfl rfl rfl

theorem PFSys_D12.workerIdle {y : Sys} (h : PFSys_D12 y) : PFSys_D12 y.workerIdle.1 := by
  cases hs : y.store with
  | none =>
    have : y.workerIdle.1 = y := by simp only [Sys.workerIdle, hs]
    rw [this]; exact h
  | some s =>
    intro s' hs'
    simp only [Sys.workerIdle, hs] at hs'
    injection hs' with hs'
    subst hs'
    exact (h s hs).of_fields_D12 rfl rfl rfl

theorem PFSys_D12.drain {y : Sys} (h : PFSys_D12 y) : PFSys_D12 y.drain := by
  cases hs : y.store with
  | none =>
    have : y.drain = y := by simp only [Sys.drain, hs]
    rw [this]; exact h
  | some s =>
    intro s' hs'
    simp only [Sys.drain, hs] at hs'
    injection hs' with hs'
    subst hs'
    exact (h s hs).of_fields_D12 rfl rfl rfl

/-- One step of any of the five kinds — the worker may die, a send may fail. -/
theorem PFSys_D12.step {y : Sys} (h : PFSys_D12 y) (st : Step) (hst : st.journal = true)
    (hwf : ∀ op, st = .call op → op.WF) : PFSys_D12 (y.step st) := by
  cases st with
  | drop => cases hst
  | openWith c => cases hst
  | drain => exact h.drain
  | call op => exact (h.call op (hwf op rfl)).1
  | flush cb => exact h.flush cb
  | worker out => exact h.worker out
  | workerIdle => exact h.workerIdle

theorem run_PFSys_D12 (steps : List Step) : ∀ (y : Sys), PFSys_D12 y →
    (∀ st ∈ steps, st.journal = true) → (∀ op ∈ stepOps steps, op.WF) → PFSys_D12 (y.run steps) := by
  induction steps with
  | nil => intro y h _ _; exact h
  | cons st rest ih =>
    intro y h hst hwf
    simp only [Sys.run, List.foldl_cons]
    have hwf1 : ∀ op, st = .call op → op.WF := by
      intro op e; subst e; exact hwf op (by simp [stepOps])
    have hwf2 : ∀ op ∈ stepOps rest, op.WF := by
      intro op hop
      apply hwf op
      rw [stepOps_cons]; exact List.mem_append_right _ hop
    exact ih (y.step st) (h.step st (hst st List.mem_cons_self) hwf1)
      (fun s hs => hst s (List.mem_cons_of_mem _ hs)) hwf2

theorem stepOps_append_D12 (a b : List Step) : stepOps (a ++ b) = stepOps a ++ stepOps b := by
  induction a with
  | nil => rfl
  | cons st rest ih =>
    rw [List.cons_append, stepOps_cons, stepOps_cons st rest, ih, List.append_assoc]

/-- **No call of a history panics**: calls with ANY well-formed arguments
(accepted, rejected, refused), flushes, worker steps of any outcome (the worker
may die), `workerIdle`, `drain`. -/
theorem history_no_panic_D12 (steps : List Step) (y : Sys) (hp : PFSys_D12 y)
    (hsteps : ∀ st ∈ steps, st.journal = true) (hwf : ∀ op ∈ stepOps steps, op.WF) :
    ∀ pre op post, steps = pre ++ .call op :: post →
      (∀ m, ((y.run pre).call op).1 ≠ .panic m) ∧ PFSys_D12 (y.run pre) := by
  intro pre op post hsplit
  have hpre : PFSys_D12 (y.run pre) :=
    run_PFSys_D12 pre y hp (fun st hst => hsteps st (by rw [hsplit]; exact List.mem_append_left _ hst))
      (fun o ho => hwf o (by rw [hsplit, stepOps_append_D12]; exact List.mem_append_left _ ho))
  have hop : op.WF := hwf op (by
    rw [hsplit, stepOps_append_D12]
    exact List.mem_append_right _ (by simp [stepOps]))
  exact ⟨(hpre.call op hop).2, hpre⟩

/-! ### System level: small journals along every history (no reference log) -/

theorem SmallSys.call_D12 {y : Sys} (h : J y) (hp : PFSys_D12 y) (hS : SmallSys y) (op : Op)
    (hop : op.WF) : SmallSys (y.call op).2.1 := by
  obtain ⟨s, hs, hd, hj⟩ := h
  have hfs := Fs.has_false_of_lt hj.fsLt
  rw [(Sys.call_eq y op s hs hd).1]
  intro s2 hs2
  have e : (s.call y.fs.has op).2.1 = s2 := by injection hs2
  subst e
  exact (call_SJ_D12 y.fs.has op hj (hS s hs) (hp s hs) hop hfs).settle

theorem SmallSys.flush_D12 {y : Sys} (h : J y) (hS : SmallSys y) (cb : Option Nat) :
    SmallSys (y.flush cb).2.1 := by
  obtain ⟨s, hs, hd, hj⟩ := h
  rw [Sys.flush_eq y cb s hs hd]
  intro s2 hs2
  have : (s.flush cb).1 = s2 := by injection hs2
  subst this
  have h1 : SmallJ (s.flush cb).1 (effFs (s.flush cb).2 y.fs) (y.worker.push (effQ (s.flush cb).2)) :=
    (hS s hs).transport (fun id hid => by rw [effFs_flush] at hid; exact hid) (flush_bytes hj cb)
  exact h1.settle

theorem SmallSys.worker_D12 {y : Sys} (h : J y) (hS : SmallSys y) (out : Outcome)
    (hnd : (y.workerStep out).1.worker.pc ≠ .dead) : SmallSys (y.workerStep out).1 := by
  obtain ⟨s, hs, hd, hj⟩ := h
  simp only [Sys.workerStep, hs] at hnd ⊢
  have g := WCtx.step_good { w := y.worker, fs := y.fs, cache := s.cache } out hj.wok
    (hj.annFs _ (by simp [Worker.announced])) hnd
  have hids := WCtx.step_ids { w := y.worker, fs := y.fs, cache := s.cache } out
  intro s2 hs2
  have e : ({ s with cache := (WCtx.step { w := y.worker, fs := y.fs, cache := s.cache } out).cache } : Store)
      = s2 := by injection hs2
  subst e
  exact SmallJ.wstep (c := { w := y.worker, fs := y.fs, cache := s.cache }) (hS s hs) g hids _

theorem SmallSys.workerIdle_D12 {y : Sys} (h : J y) (hS : SmallSys y)
    (hnd : y.workerIdle.1.worker.pc ≠ .dead) : SmallSys y.workerIdle.1 := by
  obtain ⟨s, hs, hd, hj⟩ := h
  simp only [Sys.workerIdle, hs] at hnd ⊢
  have g := WCtx.runQuiet_good y.worker.fuel { w := y.worker, fs := y.fs, cache := s.cache }
    hj.wok hj.annFs hnd
  have hids := WCtx.runQuiet_ids y.worker.fuel { w := y.worker, fs := y.fs, cache := s.cache }
  intro s2 hs2
  have e : ({ s with cache := (WCtx.runQuiet y.worker.fuel
      { w := y.worker, fs := y.fs, cache := s.cache }).cache } : Store) = s2 := by injection hs2
  subst e
  exact SmallJ.wstep (c := { w := y.worker, fs := y.fs, cache := s.cache }) (hS s hs) g hids _

/-- The invariants recovery needs, none of which mentions the reference log:
journal (`J`), linked files (`LSys`), `PanicFree`, small journals. -/
structure RecInv_D12 (y : Sys) : Prop where
  j : J y
  l : LSys y
  pf : PFSys_D12 y
  small : SmallSys y

theorem fresh_RecInv_D12 (cfg : Cfg) : RecInv_D12 (Sys.fresh cfg) :=
  ⟨fresh_J cfg, fresh_LSys cfg, fresh_PFSys_D12 cfg, fresh_SmallSys cfg⟩

theorem RecInv_D12.step {y : Sys} (h : RecInv_D12 y) (st : Step) (hst : st.journal = true)
    (hwf : ∀ op, st = .call op → op.WF) (hnd : (y.step st).worker.pc ≠ .dead) :
    RecInv_D12 (y.step st) := by
  refine ⟨h.j.step st hst hwf hnd, h.l.step h.j st hst hwf hnd, h.pf.step st hst hwf, ?_⟩
  cases st with
  | drop => cases hst
  | openWith c => cases hst
  | drain => exact h.small.drain
  | call op => exact h.small.call_D12 h.j h.pf op (hwf op rfl)
  | flush cb => exact h.small.flush_D12 h.j cb
  | worker out => exact h.small.worker_D12 h.j out hnd
  | workerIdle => exact h.small.workerIdle_D12 h.j hnd

theorem run_RecInv_D12 (steps : List Step) : ∀ (y : Sys), RecInv_D12 y →
    (∀ st ∈ steps, st.journal = true) → (∀ op ∈ stepOps steps, op.WF) →
    (y.run steps).worker.pc ≠ .dead → RecInv_D12 (y.run steps) := by
  induction steps with
  | nil => intro y h _ _ _; exact h
  | cons st rest ih =>
    intro y h hst hwf hnd
    simp only [Sys.run, List.foldl_cons] at hnd ⊢
    have hrest : ∀ s ∈ rest, s.journal = true := fun s hs => hst s (List.mem_cons_of_mem _ hs)
    have hnd1 : (y.step st).worker.pc ≠ .dead := by
      intro hdead
      exact hnd (Sys.run_dead rest _ hrest hdead)
    have hwf1 : ∀ op, st = .call op → op.WF := by
      intro op e; subst e; exact hwf op (by simp [stepOps])
    have hwf2 : ∀ op ∈ stepOps rest, op.WF := by
      intro op hop
      apply hwf op
      rw [stepOps_cons]; exact List.mem_append_right _ hop
    exact ih (y.step st) (h.step st (hst st List.mem_cons_self) hwf1 hnd1) hrest hwf2 hnd

/-! ### Recovery never panics -/

/-- The directory as it is, and what `drop` leaves of it. -/
theorem RecInv_D12.fsSmall {y : Sys} (h : RecInv_D12 y) (hset : y.Settled) :
    FsSmall y.fs ∧ FsSmall (y.step .drop).fs := by
  obtain ⟨s, hs, _, hj⟩ := h.j
  exact ⟨(h.small s hs).prefixSmall.fsSmall,
    (dropStore_prefixSmall y s hs hj hset (h.small s hs)).fsSmall⟩

/-- Every crash image of the directory. -/
theorem RecInv_D12.crash_fsSmall {y : Sys} (h : RecInv_D12 y) {img : Fs}
    (hc : CrashImage y.fs img) : FsSmall img := by
  obtain ⟨s, hs, _, hj⟩ := h.j
  obtain ⟨s1, hs1, hli⟩ := h.l
  rw [hs] at hs1; cases hs1
  have hS := h.small s hs
  intro id hid g hg
  rw [hc.linkedIds] at hid
  have hhas : y.fs.has id = true := ((Fs.linkedIds_spec hli.nodup).2 id).mp hid
  obtain ⟨f, hf, hfl⟩ := has_find_C3 hhas
  obtain ⟨g', hg1, hg2⟩ := hc.find hf hfl
  rw [hg] at hg1; cases hg1
  have hidm : id ∈ Fs.ids y.fs := (Fs.find_isSome_iff y.fs id).mp (by rw [hf]; rfl)
  obtain ⟨rs, k1, k2, k3⟩ := hS id hidm
  have k5 : f.data ++ (y.worker.inflight id ++ (if s.openId = id then s.pending else []))
      = encAll rs := by
    rw [← k3, ← fdata_of_find_C3 hf]; simp [chunkBytes]
  obtain ⟨j, _, e, rest, hparse, _⟩ := cutOf_parses_C3 k1 k5 hg2
  intro x hx
  rw [hparse] at hx
  obtain ⟨rec, hrec, e2⟩ := List.mem_map.mp hx
  rw [← e2]
  exact k2 rec (List.mem_of_mem_take hrec)

end RaftLog
