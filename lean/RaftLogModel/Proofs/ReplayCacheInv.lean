/-
C15 across restarts: the store-level cache invariant (`CacheInv`: byte counter
exact, keys sorted, every resident key at or below `last`) while `open` replays
the retained journal — for ANY cache limits (entries may be evicted during
replay; compare `Proofs/ReplayCache.lean`, which needs enough room).

Why it holds: an `Append` record that `RState.append` accepts has an id above
`last`, hence above every resident key; a `State` record other than the very
first one keeps `last` (`RecCheck`, from `RunG`); when the very first record (the
head `State` record of the oldest retained chunk) is replayed the cache is
still empty.
-/
import RaftLogModel.Proofs.ReplayRestart
namespace RaftLog

/-- **One replayed record**, any cache limits. -/
theorem cinv_stepRC {sm : Store} {op : JOp} {st1 : RState} {l1 : Log}
    (h : CacheInv sm) (hst : sm.st.apply op.r = .ok st1)
    (hidx : idxLogO op.r op.chunk op.seg sm.log = some l1)
    (hck : RecCheck op.r sm.st sm.log ∨ (sm.cache.items = [] ∧ ∃ x, op.r = .state x)) :
    ∃ s', sm.smApply op.r op.chunk op.seg = .ok s' ∧ s'.st = st1 ∧ s'.log = l1 ∧ SameRest sm s' ∧
      CacheInv s' := by
  obtain ⟨rec, chunk, ⟨off, size⟩⟩ := op
  simp only at hst hidx hck
  have hai := applyIndex_exact sm rec chunk ⟨off, size⟩ hidx
  have hlim := idxCache_limits rec sm.cache
  refine ⟨{ sm with st := st1, log := l1, cache := idxCache rec sm.cache }, ?_, rfl, rfl,
    ⟨rfl, rfl, rfl, rfl, rfl, hlim.1, hlim.2⟩, ?_⟩
  · unfold Store.smApply
    simp only [hai, hst]
  · rcases hck with hck | ⟨hempty, x, hx⟩
    · have hr : ∀ x, rec = .state x → x.last = sm.st.last := by
        intro x hx; subst hx; exact hck
      exact applyIndex_cacheInv h hst hr hai
    · subst hx
      simp only [RState.apply, Res.ok.injEq] at hst
      subst hst
      refine ⟨h.ok, ?_⟩
      intro e he
      simp only [idxCache] at he
      rw [hempty] at he; cases he

/-- A chunk. -/
theorem replay_cinvRC (chunk : Nat) :
    ∀ (rs : List Record) (start : Nat) (sm : Store) (more : List JOp) (st1 : RState) (l1 : Log),
    CacheInv sm → HOK (opsFrom chunk start rs ++ more) sm → stRun rs sm.st = some st1 →
    idxRun (opsFrom chunk start rs) sm.log = some l1 →
    ∃ s', replay chunk rs (offsetsFrom start (sizes rs)) sm = .ok s' ∧ s'.st = st1 ∧ s'.log = l1 ∧
      SameRest sm s' ∧ CacheInv s' ∧ HOK more s' := by
  intro rs
  induction rs with
  | nil =>
    intro start sm more st1 l1 hc hok h1 h2
    simp only [stRun, Option.some.injEq] at h1
    simp only [opsFrom, idxRun, Option.some.injEq] at h2
    refine ⟨sm, by simp [replay], h1, h2, ⟨rfl, rfl, rfl, rfl, rfl, rfl, rfl⟩, hc, ?_⟩
    simpa [opsFrom] using hok
  | cons r rs ih =>
    intro start sm more st1 l1 hc hok h1 h2
    simp only [stRun] at h1
    simp only [opsFrom, idxRun] at h2
    cases ha : sm.st.apply r with
    | err k => rw [ha] at h1; cases h1
    | panic m => rw [ha] at h1; cases h1
    | ok sta =>
      rw [ha] at h1
      cases hi : idxLogO r chunk ⟨start, (encRecord r).length⟩ sm.log with
      | none => rw [hi] at h2; cases h2
      | some la =>
        rw [hi] at h2
        simp only at h1 h2
        simp only [opsFrom, List.cons_append] at hok
        have hck : RecCheck r sm.st sm.log ∨ (sm.cache.items = [] ∧ ∃ x, r = .state x) := by
          rcases hok with hok | ⟨he, hd, tl, x, heq, hx, _⟩
          · exact Or.inl hok.1
          · simp only [List.cons.injEq] at heq
            rw [← heq.1] at hx
            exact Or.inr ⟨he, x, hx⟩
        obtain ⟨s1, hsm, e1, e2, hsr, hc1⟩ :=
          cinv_stepRC (op := ⟨r, chunk, ⟨start, (encRecord r).length⟩⟩) hc ha hi hck
        have hok1 : HOK (opsFrom chunk (start + (encRecord r).length) rs ++ more) s1 := by
          left
          rw [e1, e2]
          rcases hok with hok | ⟨_, hd, tl, x, heq, hx, hrest⟩
          · exact hok.2 sta la ha hi
          · simp only [List.cons.injEq] at heq
            rw [← heq.1] at hx
            simp only at hx
            subst hx
            simp only [RState.apply, Res.ok.injEq] at ha
            simp only [idxLogO, Option.some.injEq] at hi
            subst ha; subst hi
            rw [heq.2]; exact hrest
        obtain ⟨s', hrep, g1, g2, g3, g4, g5⟩ :=
          ih (start + (encRecord r).length) s1 more st1 l1 hc1 hok1 (by rw [e1]; exact h1)
            (by rw [e2]; exact h2)
        refine ⟨s', ?_, g1, g2, ⟨g3.closed.trans hsr.closed, g3.cfg.trans hsr.cfg,
          g3.openOffsets.trans hsr.openOffsets, g3.pending.trans hsr.pending,
          g3.removed.trans hsr.removed, g3.maxItems.trans hsr.maxItems,
          g3.capacity.trans hsr.capacity⟩, g4, g5⟩
        rw [replay_cons_ok chunk start r rs sm s1 hsm]; exact hrep

theorem CacheInv.of_fieldsRC {sm sm2 : Store} (h : CacheInv sm) (h1 : sm2.st = sm.st)
    (h3 : sm2.cache.items = sm.cache.items) (h4 : sm2.cache.size = sm.cache.size) : CacheInv sm2 :=
  ⟨⟨by rw [h3, h4]; exact h.ok.size_eq, by rw [h3]; exact h.ok.sorted⟩,
    by rw [h3, h1]; exact h.le_last⟩

/-- A list of chunks. -/
theorem loads_cinvRC (cfg : Cfg) :
    ∀ (jl : List (Closed × List Record)) (a : OpenAcc) (st' : RState) (l' : Log),
    RepC jl a.sm.st a.sm.log st' l' →
    (∀ p ∈ jl, ∃ f, a.fs.find p.1.id = some f ∧ f.data = encAll p.2 ∧ AllWF p.2 ∧ p.2 ≠ [] ∧
        offsetsFrom p.1.id (sizes p.2) = p.1.offsets) →
    Chained (jl.map (·.1.offsets)) →
    (∀ p, jl.head? = some p → gapCheck a p.1.id = false) →
    CacheInv a.sm → HOK (flatOps jl) a.sm →
    ∃ a', Loads cfg (jl.map (·.1.id)) a a' ∧ a'.sm.st = st' ∧ a'.sm.log = l' ∧
      a'.sm.closed = a.sm.closed ++ jl.map (·.1) ∧
      (jl ≠ [] → a'.lastTruncated = false) ∧ CacheInv a'.sm := by
  intro jl
  induction jl with
  | nil =>
    intro a st' l' h _ _ _ hc _
    obtain ⟨rfl, rfl⟩ := h
    exact ⟨a, Loads.nil a, rfl, rfl, by simp, fun h => absurd rfl h, hc⟩
  | cons p rest ih =>
    intro a st' l' h hfiles hch hgap hc hok
    obtain ⟨c, rs⟩ := p
    obtain ⟨st1, l1, g1, g2, g3, g4, _, g5⟩ := h
    obtain ⟨f, hf, hd, hwf, hne, hoffs⟩ := hfiles (c, rs) List.mem_cons_self
    simp only at hf hd hwf hne hoffs
    simp only [flatOps] at hok
    have hcpre : CacheInv a.pre.sm := hc.of_fieldsRC rfl rfl rfl
    have hokpre : HOK (chunkOps c.id rs ++ flatOps rest) a.pre.sm := hok.of_fields rfl rfl rfl
    obtain ⟨sm2, hrep, k1, k2, k3, k4, k5⟩ :=
      replay_cinvRC c.id rs c.id a.pre.sm (flatOps rest) st1 l1 hcpre hokpre g1 g2
    have hg : gapCheck a c.id = false := hgap (c, rs) rfl
    have hst1 : (a.loaded c.id rs sm2).sm.st = st1 := k1
    have hl1 : (a.loaded c.id rs sm2).sm.log = l1 := k2
    have hfs1 : (a.loaded c.id rs sm2).fs = a.fs.sync c.id := rfl
    have hcl1 : (a.loaded c.id rs sm2).sm.closed = a.sm.closed ++ [c] := by
      simp only [OpenAcc.loaded, k3.closed, OpenAcc.pre, hoffs, k1, ← g3]
    have hgap1 : ∀ q, rest.head? = some q → gapCheck (a.loaded c.id rs sm2) q.1.id = false := by
      intro q hq
      apply gapCheck_loaded
      rw [hoffs]
      cases rest with
      | nil => cases hq
      | cons q' rest' =>
        simp only [List.head?_cons, Option.some.injEq] at hq
        subst hq
        simp only [List.map_cons, Chained] at hch
        exact hch.1
    obtain ⟨a', m1, m2, m3, m4, m9, m10⟩ :=
      ih (a.loaded c.id rs sm2) st' l' (by rw [hst1, hl1]; exact g5)
        (fun q hq => by
          rw [hfs1]
          obtain ⟨f0, q1, q2, q3⟩ := hfiles q (List.mem_cons_of_mem _ hq)
          obtain ⟨f', r1, r2, _⟩ := Fs.find_sync_some c.id q1
          exact ⟨f', r1, r2.trans q2, q3⟩)
        (by simp only [List.map_cons] at hch; exact hch.tail) hgap1
        (k4.of_fieldsRC rfl rfl rfl) (k5.of_fields rfl rfl rfl)
    refine ⟨a', Loads.cons hg hf hd hwf hne hrep m1, m2, m3, ?_, ?_, m10⟩
    · rw [m4, hcl1]; simp
    · intro _
      cases rest with
      | nil => cases m1; rfl
      | cons q rest' => exact m9 (by simp)

theorem emptyStore_cinvRC (cfg : Cfg) : CacheInv (emptyStore cfg) :=
  ⟨⟨rfl, List.Pairwise.nil⟩, fun e he => (by cases he)⟩

/-- **`open` on the files of a quiescent, flushed store: the cache invariant
holds for the reopened store**, whatever the new cache limits. -/
theorem openStore_cacheInv (cfg : Cfg) {s : Store} {fs : Fs} {w : Worker} {r : RefLog}
    (h : RInv s fs w r) (hinf : ∀ id, w.inflight id = []) (hp : s.pending = [])
    (hlinked : fs.linkedIds = s.chunkIds) :
    ∃ s', openStore cfg fs = (.ok (s', { files := [⟨s.openId, prevLastOf s.closed⟩] }),
        fs.syncAll s.chunkIds, syncEvs s.chunkIds) ∧
      CacheInv s' := by
  obtain ⟨jc, jo, g, gp, gr, hall, hfiles, hmapoffs, hmapids, hflat⟩ := h.load_data hinf hp
  obtain ⟨hd, tl, x, hhd, hx⟩ := allOps_head_state g
  have hok : HOK (flatOps (jc ++ [((⟨s.openOffsets, s.st⟩ : Closed), jo)])) (emptyStore cfg) := by
    right
    rw [hflat]
    exact ⟨rfl, hd, tl, x, hhd, hx, gr hd tl hhd x hx⟩
  obtain ⟨a', m1, m2, m3, m4, m9, m10⟩ :=
    loads_cinvRC cfg (jc ++ [(⟨s.openOffsets, s.st⟩, jo)]) { sm := emptyStore cfg, fs := fs } s.st s.log
      hall hfiles (by rw [hmapoffs]; exact h.j.chained) (fun p _ => rfl) (emptyStore_cinvRC cfg) hok
  obtain ⟨hfs', hevs'⟩ := m1.fs_evs
  rw [hmapids] at hfs' hevs'
  have hevs' : a'.evs = syncEvs s.chunkIds := by rw [hevs']; rfl
  have hloop : openLoop cfg fs.linkedIds { sm := emptyStore cfg, fs := fs } = (.ok a', a') := by
    rw [hlinked, ← hmapids]
    have := m1.openLoop_append []
    rw [List.append_nil] at this
    rw [this]
    rfl
  have hcl : a'.sm.closed = s.closed ++ [⟨s.openOffsets, s.st⟩] := by
    rw [m4]
    simp only [emptyStore, List.nil_append, List.map_append, List.map_cons, List.map_nil, g.closedEq]
  have hlt : a'.lastTruncated = false := m9 (by simp)
  exact ⟨_, openStore_of_loads cfg hloop hcl hlt hfs' hevs', ⟨m10.ok, m10.le_last⟩⟩

/-- **Drop + reopen of a clean system**: the reopened store satisfies the
cache invariant. -/
theorem restart_cacheInv (y : Sys) (r : RefLog) (cfg' : Cfg) (h : CSys y r)
    (hc : ∃ s, y.store = some s ∧ y.worker.quiet = true ∧ s.pending = [] ∧ s.removed = [] ∧
      y.worker.postponed = []) :
    ∀ s', ((y.step .drop).step (.openWith cfg')).store = some s' → CacheInv s' := by
  obtain ⟨s, hs, hq, hp, hrem, hpost⟩ := hc
  obtain ⟨⟨s0, hs0, hd, hinv⟩, ⟨s1, hs1, hli⟩⟩ := h
  rw [hs] at hs0 hs1; cases hs0; cases hs1
  obtain ⟨hpc, hqe⟩ := quiet_alive hq hd
  have hinf := inflight_quiet hpc hqe
  have htr : y.worker.toRemove = [] := by rw [toRemove_quiet hpc hqe]; exact hpost
  obtain ⟨d1, d2, _, _⟩ := dropStore_quiet y s hs hpc hqe
  have hlinked := hli.linkedIds_eq hinv.j hrem htr
  obtain ⟨s2, ho, hci⟩ := openStore_cacheInv cfg' hinv hinf hp hlinked
  intro s' hs'
  have : ((y.step .drop).step (.openWith cfg')).store = some s2 := by
    simp only [Sys.step, Sys.open, d2, d1, ho]
    simp
  rw [this] at hs'
  cases hs'
  exact hci

end RaftLog
