/-
C03 without "no removal outstanding", part 8: the ghost invariant along histories, and
the assembly: `open` on a crash image of ANY reachable state returns the state and index
keys of the reference log after a prefix of the entry-level writes that contains every
write journalled at or below the acknowledged position.
-/
import RaftLogModel.Proofs.CrashQG7
namespace RaftLog

theorem GInvC3b.of_cache {s : Store} {fs : Fs} {w : Worker} {r : RefLog} {W : List Op} {A E K Bh : Nat}
    {gs : List GhostC3b} (h : GInvC3b s fs w r W A E K Bh gs) (c : Cache) :
    GInvC3b { s with cache := c } fs w r W A E K Bh gs :=
  ⟨h.base.of_cache c, fun p hp => ⟨(h.ents p hp).hinv.of_cache c, (h.ents p hp).cov, (h.ents p hp).mlo,
    (h.ents p hp).mhi, (h.ents p hp).linked, (h.ents p hp).guard⟩, h.order, h.ack, h.mono, h.lo, h.unl⟩

theorem GInvC3b.retarget {s : Store} {fs : Fs} {w : Worker} {r : RefLog} {W : List Op} {A E K Bh : Nat}
    {gs : List GhostC3b} (h : GInvC3b s fs w r W A E K Bh gs) :
    GInvC3b s fs w r W A s.openEnd W.length Bh gs :=
  ⟨h.base.retarget_C3b, h.ents, h.order, h.ack, h.mono, h.lo, h.unl⟩

/-- The ghost invariant of a system with a live store. -/
def GSysC3b (y : Sys) (r : RefLog) (W : List Op) (A E K : Nat) : Prop :=
  ∃ s Bh gs, y.store = some s ∧ GInvC3b s y.fs y.worker r W A E K Bh gs

theorem GSysC3b.step {y : Sys} {r r' : RefLog} {W : List Op} {B A E K : Nat}
    (hh : HSys y r W B A E K) (h : GSysC3b y r W A E K) (st : Step)
    (hst : st.journal = true) (hr : r.run (stepOps [st]) = some r')
    (hwf : ∀ op, st = .call op → op.WF ∧ op.small) (hnd : (y.step st).worker.pc ≠ .dead) :
    GSysC3b (y.step st) r' (W ++ expandOps r (stepOps [st])) (y.ackStep st A) E K := by
  obtain ⟨⟨s, hs, hd, hi⟩, ⟨s1, hs1, hli⟩, hcov, hswf⟩ := hh
  rw [hs] at hs1; cases hs1
  obtain ⟨s0, Bh, gs, hs0, hg⟩ := h
  rw [hs] at hs0; cases hs0
  have hwfw : y.worker.WF := (hswf (by rw [hs]; simp)).1
  cases st with
  | drop => cases hst
  | openWith c => cases hst
  | drain =>
    simp only [stepOps, RefLog.run, Option.some.injEq] at hr; subst hr
    have e2 : y.ackStep .drain A = A := by simp [Sys.ackStep]
    rw [e2]
    simp only [stepOps, expandOps, List.append_nil]
    show GSysC3b y.drain r W A E K
    simp only [Sys.drain, hs]
    exact ⟨_, Bh, gs, rfl, hg.of_cache _⟩
  | flush cb =>
    simp only [stepOps, RefLog.run, Option.some.injEq] at hr; subst hr
    have e2 : y.ackStep (.flush cb) A = A := by simp [Sys.ackStep]
    rw [e2]
    simp only [stepOps, expandOps, List.append_nil]
    show GSysC3b (y.flush cb).2.1 r W A E K
    rw [Sys.flush_eq y cb s hs hd]
    exact ⟨_, Bh, gs, rfl, hg.flush cb⟩
  | worker out =>
    simp only [stepOps, RefLog.run, Option.some.injEq] at hr; subst hr
    simp only [stepOps, expandOps, List.append_nil]
    have hnd' : (y.workerStep out).1.worker.pc ≠ .dead := hnd
    show GSysC3b (y.workerStep out).1 r W (y.ackStep (.worker out) A) E K
    simp only [Sys.workerStep, hs] at hnd' ⊢
    simp only [Sys.ackStep, hs]
    obtain ⟨Bh', gs', h'⟩ := GInvC3b.step (c := { w := y.worker, fs := y.fs, cache := s.cache }) out hg hli
      hcov hwfw hnd'
    exact ⟨_, Bh', gs', rfl, h'.of_cache _⟩
  | workerIdle =>
    simp only [stepOps, RefLog.run, Option.some.injEq] at hr; subst hr
    simp only [stepOps, expandOps, List.append_nil]
    have hnd' : y.workerIdle.1.worker.pc ≠ .dead := hnd
    show GSysC3b y.workerIdle.1 r W (y.ackStep .workerIdle A) E K
    simp only [Sys.workerIdle, hs] at hnd' ⊢
    simp only [Sys.ackStep, hs]
    obtain ⟨Bh', gs', h'⟩ := GInvC3b.runQuiet y.worker.fuel { w := y.worker, fs := y.fs, cache := s.cache }
      A Bh gs hg hli hcov hwfw hnd'
    exact ⟨_, Bh', gs', rfl, h'.of_cache _⟩
  | call op =>
    simp only [stepOps, RefLog.run] at hr
    split at hr
    · rename_i hl
      split at hr
      · rename_i r1 hc
        simp only [Option.some.injEq] at hr; subst hr
        have e2 : y.ackStep (.call op) A = A := by simp [Sys.ackStep]
        rw [e2]
        have hex : expandOps r (stepOps [.call op]) = op.expand1 r := by
          simp [stepOps, expandOps, hc]
        rw [hex]
        obtain ⟨hopwf, hopsm⟩ := hwf op rfl
        have hfs := Fs.has_false_of_lt hi.inv.j.fsLt
        obtain ⟨e1, _⟩ := Sys.call_eq y op s hs hd
        show GSysC3b (y.call op).2.1 r1 (W ++ op.expand1 r) A E K
        rw [e1]
        have habs := hg.base.inv.abs
        have hpu : s.st.purged = r.purged := by
          have := habs.st
          simp only [Store.liftC3b_st] at this
          rw [this]; rfl
        have hn : nextIndexChecked s.st.purged = some (nextIndex r.purged) := by
          have := nextIndexChecked_eq habs.pf.purged
          simp only [Store.liftC3b_st] at this
          rw [this, hpu]
        by_cases hp : ∃ upto, op = .purge upto
        · obtain ⟨upto, rfl⟩ := hp
          by_cases hnn : upto.index < nextIndex r.purged
          · obtain ⟨k1, k2⟩ := call_lift_purge_noop_C3b s (ghostClosedC3b gs) y.fs.has upto _ hn hnn
            exact ⟨_, Bh, gs, rfl, hg.call_lifted y.fs.has k1 k2 hfs hl hc hopsm hopwf⟩
          · obtain ⟨gs', h'⟩ := hg.call_purge y.fs.has hli hi.inv.j hfs hl hc hopsm hopwf hnn
            have hex1 : (Op.purge upto).expand1 r = [.purge upto] := by simp [Op.expand1, hnn]
            rw [hex1]
            exact ⟨_, Bh, gs', rfl, h'⟩
        · have hp' : ∀ upto, op ≠ .purge upto := fun upto e => hp ⟨upto, e⟩
          exact ⟨_, Bh, gs, rfl, hg.call_lifted y.fs.has (call_lift_C3b s _ y.fs.has op hp')
            (call_removed_C3b s y.fs.has op hp') hfs hl hc hopsm hopwf⟩
      · cases hr
    · cases hr

/-- **The ghost invariant along histories.** -/
theorem run_GSys_C3b (steps : List Step) : ∀ (y : Sys) (r r' : RefLog) (W : List Op) (B A E K : Nat),
    HSys y r W B A E K → GSysC3b y r W A E K → (∀ st ∈ steps, st.journal = true) →
    r.run (stepOps steps) = some r' → (∀ op ∈ stepOps steps, op.WF ∧ op.small) →
    (y.run steps).worker.pc ≠ .dead →
    GSysC3b (y.run steps) r' (W ++ expandOps r (stepOps steps)) (y.ackRun steps A) E K := by
  induction steps with
  | nil =>
    intro y r r' W B A E K _ h _ hr _ _
    simp only [stepOps, RefLog.run, Option.some.injEq] at hr; subst hr
    simpa [stepOps, expandOps, Sys.ackRun, Sys.run] using h
  | cons st rest ih =>
    intro y r r' W B A E K hh h hst hr hwf hnd
    simp only [Sys.run, List.foldl_cons] at hnd ⊢
    have hrest : ∀ s ∈ rest, s.journal = true := fun s hs => hst s (List.mem_cons_of_mem _ hs)
    have hnd1 : (y.step st).worker.pc ≠ .dead := by
      intro hdead
      exact hnd (Sys.run_dead rest _ hrest hdead)
    rw [stepOps_cons, RefLog.run_append] at hr
    cases hr1 : r.run (stepOps [st]) with
    | none => rw [hr1] at hr; cases hr
    | some r1 =>
      rw [hr1] at hr
      simp only [Option.bind_some] at hr
      have hwf1 : ∀ op, st = .call op → op.WF ∧ op.small := by
        intro op e; subst e; exact hwf op (by simp [stepOps])
      have hwf2 : ∀ op ∈ stepOps rest, op.WF ∧ op.small := by
        intro op hop
        apply hwf op
        rw [stepOps_cons]; exact List.mem_append_right _ hop
      have hh1 := hh.step st (hst st List.mem_cons_self) hr1 hwf1 hnd1
      have h1 := h.step hh st (hst st List.mem_cons_self) hr1 hwf1 hnd1
      have h2 := ih (y.step st) r1 r' _ _ _ E K hh1 h1 hrest hr hwf2 hnd
      rw [stepOps_cons, expandOps_append _ _ r r1 hr1, ← List.append_assoc]
      exact h2

theorem fresh_GSys_C3b (cfg : Cfg) : GSysC3b (Sys.fresh cfg) {} [] 0 0 0 := by
  obtain ⟨⟨s, hs, _, hi⟩, ⟨s1, hs1, hli⟩, _, _⟩ := fresh_HSys cfg
  rw [hs] at hs1; cases hs1
  have hjs : s.jstart = 0 := by
    have hshape : ∃ s, (Sys.fresh cfg).store = some s ∧ s.closed = [] ∧
        s.openOffsets = [0, 0 + (encRecord (.state {})).length] := by
      simp [Sys.fresh, Sys.open, openStore, Fs.linkedIds, openLoop, emptyStore, Fs.has, Fs.find,
        Fs.create, Fs.write, Fs.update]
    obtain ⟨s0, hs0, h3, h5⟩ := hshape
    rw [hs] at hs0; cases hs0
    simp [Store.jstart, h3, Store.openId, h5]
  obtain ⟨hrem, htr⟩ := no_removals_of_jstart_zero_C3 hli hjs
  have hpc : (Sys.fresh cfg).worker.pc = .idle := by
    have : (Sys.fresh cfg).worker = { files := [⟨0, none⟩] } := by
      simp [Sys.fresh, Sys.open, openStore, Fs.linkedIds, openLoop, emptyStore, Fs.has, Fs.find,
        Fs.create, Fs.write, Fs.update]
    rw [this]
  refine ⟨s, 0, [], hs, ?_, (fun p hp => by cases hp), ?_, Nat.le_refl _, List.Pairwise.nil,
    (fun p hp => by cases hp), ?_⟩
  · simpa [ghostClosedC3b] using hi
  · rw [hrem, htr]; rfl
  · intro ids h; rw [hpc] at h; cases h

/-- The ghost invariant at the end of `pre ++ post`, tracking the journal end and the
number of entry-level writes at the end of `pre`. -/
theorem reach_GSys_at_C3b (cfg : Cfg) (pre post : List Step) (r : RefLog)
    (hsteps : ∀ st ∈ pre ++ post, st.journal = true)
    (hlegal : RefLog.run {} (stepOps (pre ++ post)) = some r)
    (hwf : ∀ op ∈ stepOps (pre ++ post), op.WF ∧ op.small)
    (halive : ((Sys.fresh cfg).run (pre ++ post)).worker.pc ≠ .dead) :
    ∃ s1, ((Sys.fresh cfg).run pre).store = some s1 ∧
      GSysC3b ((Sys.fresh cfg).run (pre ++ post)) r (expandOps {} (stepOps (pre ++ post)))
        ((Sys.fresh cfg).ackRun (pre ++ post) 0) s1.openEnd (expandOps {} (stepOps pre)).length := by
  have hpre : ∀ st ∈ pre, st.journal = true := fun st h => hsteps st (List.mem_append_left _ h)
  have hpost : ∀ st ∈ post, st.journal = true := fun st h => hsteps st (List.mem_append_right _ h)
  have hrun : (Sys.fresh cfg).run (pre ++ post) = ((Sys.fresh cfg).run pre).run post := by
    simp [Sys.run, List.foldl_append]
  rw [stepOps_append, RefLog.run_append] at hlegal
  cases hr1 : RefLog.run {} (stepOps pre) with
  | none => rw [hr1] at hlegal; cases hlegal
  | some r1 =>
    rw [hr1] at hlegal
    simp only [Option.bind_some] at hlegal
    have halive1 : ((Sys.fresh cfg).run pre).worker.pc ≠ .dead := by
      intro hdead
      apply halive
      rw [hrun]
      exact Sys.run_dead post _ hpost hdead
    have hwfpre : ∀ op ∈ stepOps pre, op.WF ∧ op.small :=
      fun op hop => hwf op (by rw [stepOps_append]; exact List.mem_append_left _ hop)
    have hh1 := reach_HSys cfg pre r1 hpre hr1 hwfpre halive1
    have hg1 := run_GSys_C3b pre (Sys.fresh cfg) {} r1 [] 0 0 0 0 (fresh_HSys cfg) (fresh_GSys_C3b cfg)
      hpre hr1 hwfpre halive1
    simp only [List.nil_append] at hg1
    obtain ⟨s1, hs1, hh1'⟩ := hh1.retarget
    obtain ⟨s0, Bh, gs, hs0, hg0⟩ := hg1
    rw [hs1] at hs0; cases hs0
    have hg1' : GSysC3b ((Sys.fresh cfg).run pre) r1 (expandOps {} (stepOps pre))
        ((Sys.fresh cfg).ackRun pre 0) s1.openEnd (expandOps {} (stepOps pre)).length :=
      ⟨s1, Bh, gs, hs1, hg0.retarget⟩
    refine ⟨s1, hs1, ?_⟩
    have h2 := run_GSys_C3b post _ r1 r _ _ _ _ _ hh1' hg1' hpost hlegal
      (fun op hop => hwf op (by rw [stepOps_append]; exact List.mem_append_right _ hop))
      (by rw [← hrun]; exact halive)
    rw [hrun, stepOps_append, expandOps_append _ _ {} r1 hr1, Sys.ackRun_append]
    exact h2

end RaftLog
