/-
LIFT, part 2: the payload-cache invariant `CacheInv` of the store `open` builds on a crash
image (crash RECOVERY), for any cache limits — from the crash invariant `CrashInvC5b`
alone (the C07 development, `recover_readInv_C7c`, derives it on the way to the read
invariant under an additional hypothesis on the cache of the crashed system; nothing of
the crashed system's cache is needed for the accounting).

All names carry the suffix `_LIFT`.
-/
import RaftLogModel.Proofs.ReadRestartRecover
import RaftLogModel.Proofs.LiftRestart
namespace RaftLog

/-- **The recovered store satisfies the cache invariant**: byte counter exact, resident
keys strictly increasing, none above `last`. -/
theorem recover_cacheInv_LIFT {y : Sys} {r : RefLog} {W : List Op} {A E K : Nat}
    (h : CrashInvC5b y r W A E K) {img : Fs} (hc : CrashImage y.fs img)
    (hnt : NoTornPredecessor img) (cfg' : Cfg) (ht : cfg'.truncate = true)
    {s' : Store} {w' : Worker} {fs' : Fs} {evs : List Ev}
    (q1 : openStore cfg' img = (.ok (s', w'), fs', evs)) : CacheInv s' := by
  obtain ⟨B, hh, hg, _, _⟩ := h
  obtain ⟨⟨s, hs, _, _⟩, ⟨s1, hs1, hli⟩, _, _⟩ := hh
  rw [hs] at hs1; cases hs1
  obtain ⟨s0, Bh, gs, hs0, hgi⟩ := hg
  rw [hs] at hs0; cases hs0
  obtain ⟨jc, jo, g, hhist⟩ := hgi.base.hist
  have hlinked : y.fs.linkedIds = (s.liftC3b (ghostClosedC3b gs)).chunkIds := by
    rw [liftC3b_chunkIds]; exact hgi.linkedIds hli
  obtain ⟨stC, lC, g0, j, e, rest, n2, r2, l, N0, himg, hjl, hparse, hdata, hcase, hstJ, hlJ, hbelow,
    hP, _⟩ :=
    ghost_prep_C5b g hgi.base.inv.j hhist hgi.ack (hgi.base.dur.live_durable_C3 g) (hgi.live hli) hlinked
      hli.nodup hc hnt
  obtain ⟨jc0, jo0, gg0, _, gr0⟩ := hgi.base.inv.rep
  obtain ⟨u1, u2⟩ := g.unique_C3b gg0
  subst u1; subst u2
  obtain ⟨t, ht'⟩ := hP
  have hok : HOK (flatOps jc ++ chunkOps (s.liftC3b (ghostClosedC3b gs)).openId (jo.take j))
      (emptyStore cfg') :=
    hok_prefix_C7c cfg' ht'.symm (allOps_head_state g) gr0
  obtain ⟨a', hloop, a1, a2, a3, a4, a5, a6⟩ :=
    openLoop_image_ck_C7c cfg' ht himg.ids himg.files' himg.rep himg.chained himg.g0 hparse hcase hstJ
      hlJ hok (fun p hp => Nat.ne_of_lt (himg.lt p hp))
  obtain ⟨x, a, hloop2, c1, c2, c3, c4, c5⟩ := openStore_shape_C7c q1
  rw [hloop] at hloop2
  simp only [Prod.mk.injEq, Res.ok.injEq] at hloop2
  obtain ⟨_, ea⟩ := hloop2
  subst ea
  exact ⟨by rw [c1]; exact a3.cinv.ok, by rw [c1, c2]; exact a3.cinv.le_last⟩

end RaftLog
