/-
C02: from the replay invariant to `RaftLog::open`. The cache-free runs lift to
the model's `replay` (`replay_of_runs`); a list of chunks that replays
(`RepC`) and whose files hold exactly the encodings loads cleanly in `openLoop`
(`loads_repC`); and `openStore` on the files of a quiescent, flushed store
reuses the last chunk and returns the same state, index map and chunk table
(`openStore_of_rep`).
-/
import RaftLogModel.Proofs.ReplaySys
import RaftLogModel.Proofs.Recover
namespace RaftLog

/-! ### `syncAll` leaves ids and bytes alone (D15) -/

theorem Fs.ids_syncAll (fs : Fs) (ids : List Nat) : Fs.ids (fs.syncAll ids) = Fs.ids fs := by
  induction ids generalizing fs with
  | nil => rfl
  | cons id ids ih => rw [Fs.syncAll_cons, ih, Fs.ids_sync]

theorem fdata_syncAll (fs : Fs) (ids : List Nat) (i : Nat) : fdata (fs.syncAll ids) i = fdata fs i := by
  induction ids generalizing fs with
  | nil => rfl
  | cons id ids ih => rw [Fs.syncAll_cons, ih, fdata_sync]

/-! ### `smApply` / `replay` from the cache-free runs -/

theorem smApply_of_runs (s : Store) (r : Record) (chunk : Nat) (seg : Seg) {st1 : RState} {l1 : Log}
    (h1 : s.st.apply r = .ok st1) (h2 : idxLogO r chunk seg s.log = some l1) :
    ∃ c, s.smApply r chunk seg = .ok { s with st := st1, log := l1, cache := c } ∧
      c.maxItems = s.cache.maxItems ∧ c.capacity = s.cache.capacity := by
  obtain ⟨c, hc, hm, hcap⟩ := (applyIndex_proj s r chunk seg).2 l1 h2
  refine ⟨c, ?_, hm, hcap⟩
  unfold Store.smApply
  rw [hc]
  simp only [h1]

theorem offsetsFrom_eq_cons (x : Nat) (l : List Nat) : ∃ t, offsetsFrom x l = x :: t := by
  cases l with
  | nil => exact ⟨[], rfl⟩
  | cons a l => exact ⟨_, rfl⟩

/-- What `replay` leaves untouched. -/
structure SameRest (s s' : Store) : Prop where
  closed : s'.closed = s.closed
  cfg : s'.cfg = s.cfg
  openOffsets : s'.openOffsets = s.openOffsets
  pending : s'.pending = s.pending
  removed : s'.removed = s.removed
  maxItems : s'.cache.maxItems = s.cache.maxItems
  capacity : s'.cache.capacity = s.cache.capacity

theorem replay_of_runs (chunk : Nat) : ∀ (rs : List Record) (start : Nat) (s : Store)
    (st1 : RState) (l1 : Log), stRun rs s.st = some st1 →
    idxRun (opsFrom chunk start rs) s.log = some l1 →
    ∃ s', replay chunk rs (offsetsFrom start (sizes rs)) s = .ok s' ∧ s'.st = st1 ∧ s'.log = l1 ∧
      SameRest s s' := by
  intro rs
  induction rs with
  | nil =>
    intro start s st1 l1 h1 h2
    simp only [stRun, Option.some.injEq] at h1
    simp only [opsFrom, idxRun, Option.some.injEq] at h2
    exact ⟨s, by simp [replay], h1, h2, ⟨rfl, rfl, rfl, rfl, rfl, rfl, rfl⟩⟩
  | cons r rs ih =>
    intro start s st1 l1 h1 h2
    simp only [stRun] at h1
    simp only [opsFrom, idxRun] at h2
    cases ha : s.st.apply r with
    | err k => rw [ha] at h1; cases h1
    | panic m => rw [ha] at h1; cases h1
    | ok sta =>
      rw [ha] at h1
      cases hi : idxLogO r chunk ⟨start, (encRecord r).length⟩ s.log with
      | none => rw [hi] at h2; cases h2
      | some la =>
        rw [hi] at h2
        simp only at h1 h2
        obtain ⟨c, hsm, hm, hcap⟩ := smApply_of_runs s r chunk ⟨start, (encRecord r).length⟩ ha hi
        obtain ⟨s', hrep, g1, g2, g3⟩ :=
          ih (start + (encRecord r).length) ({ s with st := sta, log := la, cache := c } : Store)
            st1 l1 h1 h2
        obtain ⟨t, ht⟩ := offsetsFrom_eq_cons (start + (encRecord r).length) (sizes rs)
        refine ⟨s', ?_, g1, g2, ⟨g3.closed, g3.cfg, g3.openOffsets, g3.pending, g3.removed,
          g3.maxItems.trans hm, g3.capacity.trans hcap⟩⟩
        have hoff : offsetsFrom start (sizes (r :: rs))
            = start :: (start + (encRecord r).length) :: t := by
          simp only [sizes, List.map_cons, offsetsFrom]
          simp only [sizes] at ht
          rw [ht]
        rw [hoff]
        simp only [replay, Nat.add_sub_cancel_left, hsm]
        rw [← ht]
        exact hrep

/-! ### Loading a list of chunks -/

theorem gapCheck_loaded (a : OpenAcc) (id : Nat) (rs : List Record) (sm2 : Store) (next : Nat)
    (h : lastOff (offsetsFrom id (sizes rs)) = next) : gapCheck (a.loaded id rs sm2) next = false := by
  simp [gapCheck, OpenAcc.loaded, h]

theorem loads_repC (cfg : Cfg) : ∀ (jl : List (Closed × List Record)) (a : OpenAcc) (st' : RState)
    (l' : Log), RepC jl a.sm.st a.sm.log st' l' →
    (∀ p ∈ jl, ∃ f, a.fs.find p.1.id = some f ∧ f.data = encAll p.2 ∧ AllWF p.2 ∧ p.2 ≠ [] ∧
        offsetsFrom p.1.id (sizes p.2) = p.1.offsets) →
    Chained (jl.map (·.1.offsets)) →
    (∀ p, jl.head? = some p → gapCheck a p.1.id = false) →
    ∃ a', Loads cfg (jl.map (·.1.id)) a a' ∧ a'.sm.st = st' ∧ a'.sm.log = l' ∧
      a'.sm.closed = a.sm.closed ++ jl.map (·.1) ∧ a'.sm.removed = a.sm.removed ∧
      a'.sm.cfg = a.sm.cfg ∧ a'.sm.cache.maxItems = a.sm.cache.maxItems ∧
      a'.sm.cache.capacity = a.sm.cache.capacity ∧
      (jl ≠ [] → a'.lastTruncated = false) := by
  intro jl
  induction jl with
  | nil =>
    intro a st' l' h _ _ _
    obtain ⟨rfl, rfl⟩ := h
    exact ⟨a, Loads.nil a, rfl, rfl, by simp, rfl, rfl, rfl, rfl, fun h => absurd rfl h⟩
  | cons p rest ih =>
    intro a st' l' h hfiles hch hgap
    obtain ⟨c, rs⟩ := p
    obtain ⟨st1, l1, g1, g2, g3, g4, _, g5⟩ := h
    obtain ⟨f, hf, hd, hwf, hne, hoffs⟩ := hfiles (c, rs) List.mem_cons_self
    simp only at hf hd hwf hne hoffs
    obtain ⟨sm2, hrep, k1, k2, k3⟩ := replay_of_runs c.id rs c.id a.pre.sm st1 l1 g1 g2
    have hg : gapCheck a c.id = false := hgap (c, rs) rfl
    -- the next accumulator
    have hst1 : (a.loaded c.id rs sm2).sm.st = st1 := k1
    have hl1 : (a.loaded c.id rs sm2).sm.log = l1 := k2
    have hfs1 : (a.loaded c.id rs sm2).fs = a.fs.sync c.id := rfl
    have hcl1 : (a.loaded c.id rs sm2).sm.closed = a.sm.closed ++ [c] := by
      simp only [OpenAcc.loaded, k3.closed, OpenAcc.pre, hoffs, k1, ← g3]
    have hgap1 : ∀ q, rest.head? = some q → gapCheck (a.loaded c.id rs sm2) q.1.id = false := by
      intro q hq
      apply gapCheck_loaded
      rw [hoffs]
      cases rest with
      | nil => cases hq
      | cons q' rest' =>
        simp only [List.head?_cons, Option.some.injEq] at hq
        subst hq
        simp only [List.map_cons, Chained] at hch
        exact hch.1
    obtain ⟨a', m1, m2, m3, m4, m5, m6, m7, m8, m9⟩ :=
      ih (a.loaded c.id rs sm2) st' l' (by rw [hst1, hl1]; exact g5)
        (fun q hq => by
          rw [hfs1]
          obtain ⟨f0, q1, q2, q3⟩ := hfiles q (List.mem_cons_of_mem _ hq)
          obtain ⟨f', r1, r2, _⟩ := Fs.find_sync_some c.id q1
          exact ⟨f', r1, r2.trans q2, q3⟩)
        (by simp only [List.map_cons] at hch; exact hch.tail) hgap1
    refine ⟨a', Loads.cons hg hf hd hwf hne hrep m1, m2, m3, ?_, ?_, ?_, ?_, ?_, ?_⟩
    · rw [m4, hcl1]; simp
    · rw [m5]; exact k3.removed
    · rw [m6]; exact k3.cfg
    · rw [m7]; exact k3.maxItems
    · rw [m8]; exact k3.capacity
    · intro _
      cases rest with
      | nil => cases m1; rfl
      | cons q rest' => exact m9 (by simp)

/-! ### `openStore` on the files of a quiescent store -/

/-- The ids of the live chunks, oldest first. -/
def Store.chunkIds (s : Store) : List Nat := s.chunks.map (fun offs => offs.headD 0)

/-- What `open` needs to know about the live chunks of a quiescent, flushed
store: as one list `jl` (the open chunk last) they replay to `(s.st, s.log)`,
and their files hold exactly the encodings. -/
theorem RInv.load_data {s : Store} {fs : Fs} {w : Worker} {r : RefLog}
    (h : RInv s fs w r) (hinf : ∀ id, w.inflight id = []) (hp : s.pending = []) :
    ∃ jc jo, RepG s fs w jc jo ∧ PayG s r jc jo ∧ RunG s jc jo ∧
      RepC (jc ++ [(⟨s.openOffsets, s.st⟩, jo)]) {} [] s.st s.log ∧
      (∀ p ∈ jc ++ [((⟨s.openOffsets, s.st⟩ : Closed), jo)],
        ∃ f, fs.find p.1.id = some f ∧ f.data = encAll p.2 ∧ AllWF p.2 ∧ p.2 ≠ [] ∧
          offsetsFrom p.1.id (sizes p.2) = p.1.offsets) ∧
      (jc ++ [((⟨s.openOffsets, s.st⟩ : Closed), jo)]).map (·.1.offsets) = s.chunks ∧
      (jc ++ [((⟨s.openOffsets, s.st⟩ : Closed), jo)]).map (·.1.id) = s.chunkIds ∧
      flatOps (jc ++ [((⟨s.openOffsets, s.st⟩ : Closed), jo)]) = allOps s jc jo := by
  obtain ⟨jc, jo, g, gp, gr⟩ := h.rep
  obtain ⟨stC, lC, g1, g2, g3, g4⟩ := g.run
  have hall : RepC (jc ++ [(⟨s.openOffsets, s.st⟩, jo)]) {} [] s.st s.log :=
    g1.snoc g2 g3 rfl h.abs.log_below g4
  have hbytes : ∀ id, chunkBytes s fs w id = fdata fs id := by
    intro id
    simp [chunkBytes, hinf, hp]
  have hfile : ∀ (offs : List Nat) (rs : List Record) (id : Nat), id ∈ Fs.ids fs →
      ChunkRecs offs rs (chunkBytes s fs w id) → offs.headD 0 = id →
      ∃ f, fs.find id = some f ∧ f.data = encAll rs ∧ AllWF rs ∧ rs ≠ [] ∧
        offsetsFrom id (sizes rs) = offs := by
    intro offs rs id hid hc hhd
    have hsome := (Fs.find_isSome_iff fs id).mpr hid
    cases hf : fs.find id with
    | none => rw [hf] at hsome; cases hsome
    | some f =>
      have hfd : fdata fs id = f.data := by unfold fdata; rw [hf]
      obtain ⟨h1, ⟨x, tl, h2⟩, h3, h4⟩ := hc
      rw [hbytes, hfd] at h4
      refine ⟨f, rfl, h4, h1, by rw [h2]; simp, ?_⟩
      rw [← hhd]; exact h3
  have hfiles : ∀ p ∈ jc ++ [((⟨s.openOffsets, s.st⟩ : Closed), jo)],
      ∃ f, fs.find p.1.id = some f ∧ f.data = encAll p.2 ∧ AllWF p.2 ∧ p.2 ≠ [] ∧
        offsetsFrom p.1.id (sizes p.2) = p.1.offsets := by
    intro p hp'
    rcases List.mem_append.mp hp' with h1 | h1
    · exact hfile p.1.offsets p.2 p.1.id (h.j.closedFs _ (g.mem_closed h1)) (g.closedRecs p h1) rfl
    · simp only [List.mem_singleton] at h1
      subst h1
      exact hfile s.openOffsets jo s.openId (h.j.annFs _ h.j.openId_mem) g.openRecs rfl
  have hmapoffs : (jc ++ [((⟨s.openOffsets, s.st⟩ : Closed), jo)]).map (·.1.offsets) = s.chunks := by
    simp only [Store.chunks, List.map_append, List.map_cons, List.map_nil, ← g.closedEq, List.map_map]
    rfl
  have hmapids : (jc ++ [((⟨s.openOffsets, s.st⟩ : Closed), jo)]).map (·.1.id) = s.chunkIds := by
    simp only [Store.chunkIds, ← hmapoffs, List.map_map]
    rfl
  refine ⟨jc, jo, g, gp, gr, hall, hfiles, hmapoffs, hmapids, ?_⟩
  simp only [flatOps_append, flatOps, List.append_nil, allOps]
  rfl

/-- The end of `openStore` when the loop loaded `closed ++ [lastC]` without
truncation: the last chunk is reused as the open chunk. (D15: the file system and the
events are those of the loop, `fs'`/`evs`; old: `fs`/`[]`.) -/
theorem openStore_of_loads (cfg : Cfg) {fs fs' : Fs} {evs : List Ev} {a' : OpenAcc}
    {closed : List Closed} {lastC : Closed}
    (hloop : openLoop cfg fs.linkedIds { sm := emptyStore cfg, fs := fs } = (.ok a', a'))
    (hcl : a'.sm.closed = closed ++ [lastC]) (hlt : a'.lastTruncated = false)
    (hfs' : a'.fs = fs') (hevs' : a'.evs = evs) :
    openStore cfg fs =
      (.ok ({ a'.sm with closed := closed, openOffsets := lastC.offsets, pending := [] },
        { files := [⟨lastC.id, prevLastOf closed⟩] }), fs', evs) := by
  unfold openStore
  simp only [hloop]
  have hre : (!a'.sm.closed.isEmpty && !a'.lastTruncated) = true := by
    rw [hcl, hlt]; simp
  rw [hre]
  simp only [if_true]
  have hgl : a'.sm.closed.getLast? = some lastC := by rw [hcl]; simp
  have hdl : a'.sm.closed.dropLast = closed := by rw [hcl]; simp
  rw [hgl]
  simp only [hdl, hfs', hevs']
  rfl

/-- **`open` on a clean directory of a replayable store.** Nothing in flight,
nothing pending, the linked files are exactly the live chunks: `openStore`
returns ok, only syncs the live chunk files (D15), and the store it returns has the same state, index
map, chunk table and an empty pending buffer and removal list. -/
theorem openStore_of_rep (cfg : Cfg) {s : Store} {fs : Fs} {w : Worker} {r : RefLog}
    (h : RInv s fs w r) (hinf : ∀ id, w.inflight id = []) (hp : s.pending = [])
    (hlinked : fs.linkedIds = s.chunkIds) :
    ∃ s' , openStore cfg fs = (.ok (s', { files := [⟨s.openId, prevLastOf s.closed⟩] }),
        fs.syncAll s.chunkIds, syncEvs s.chunkIds) ∧
      s'.st = s.st ∧ s'.log = s.log ∧ s'.closed = s.closed ∧ s'.openOffsets = s.openOffsets ∧
      s'.pending = [] ∧ s'.removed = [] ∧ s'.cfg = cfg ∧ s'.cache.maxItems = cfg.cacheItems ∧
      s'.cache.capacity = cfg.cacheCap := by
  obtain ⟨jc, jo, g, _, _, hall, hfiles, hmapoffs, hmapids, _⟩ := h.load_data hinf hp
  obtain ⟨a', m1, m2, m3, m4, m5, m6, m7, m8, m9⟩ :=
    loads_repC cfg (jc ++ [(⟨s.openOffsets, s.st⟩, jo)]) { sm := emptyStore cfg, fs := fs } s.st s.log
      hall hfiles (by rw [hmapoffs]; exact h.j.chained) (fun p _ => rfl)
  obtain ⟨hfs', hevs'⟩ := m1.fs_evs
  rw [hmapids] at hfs' hevs'
  have hevs' : a'.evs = syncEvs s.chunkIds := by rw [hevs']; rfl
  have hloop : openLoop cfg fs.linkedIds { sm := emptyStore cfg, fs := fs } = (.ok a', a') := by
    rw [hlinked, ← hmapids]
    have := m1.openLoop_append []
    rw [List.append_nil] at this
    rw [this]
    rfl
  have hcl : a'.sm.closed = s.closed ++ [⟨s.openOffsets, s.st⟩] := by
    rw [m4]
    simp only [emptyStore, List.nil_append, List.map_append, List.map_cons, List.map_nil, g.closedEq]
  have hlt : a'.lastTruncated = false := m9 (by simp)
  exact ⟨_, openStore_of_loads cfg hloop hcl hlt hfs' hevs', m2, m3, rfl, rfl, rfl,
    by simp only [m5]; rfl, by simp only [m6]; rfl, by simp only [m7]; rfl, by simp only [m8]; rfl⟩

end RaftLog
