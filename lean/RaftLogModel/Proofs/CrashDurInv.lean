/-
C03, part 4 (continued): the durability invariant `DInv s fs w A`. `A` is the
acknowledged position: the largest `upto` of a `write` request whose batch was
finished by a successful sync of the newest (and then only) file of the
worker's list. Every live chunk file is written and durable up to `A` (or to
its end if the chunk ends below `A`).
-/
import RaftLogModel.Proofs.CrashDurWorker
namespace RaftLog

/-! ### The acknowledged position -/

def maxUpto : List WReq → Nat
  | [] => 0
  | r :: rest => max r.upto (maxUpto rest)

theorem le_maxUpto {b : List WReq} {r : WReq} (h : r ∈ b) : r.upto ≤ maxUpto b := by
  induction b with
  | nil => cases h
  | cons x b ih =>
    simp only [maxUpto]
    rcases List.mem_cons.mp h with e | e
    · subst e; exact Nat.le_max_left _ _
    · exact Nat.le_trans (ih e) (Nat.le_max_right _ _)

theorem maxUpto_le {b : List WReq} {N : Nat} (h : ∀ r ∈ b, r.upto ≤ N) : maxUpto b ≤ N := by
  induction b with
  | nil => exact Nat.zero_le _
  | cons x b ih =>
    simp only [maxUpto]
    exact Nat.max_le.mpr ⟨h x List.mem_cons_self, ih (fun r hr => h r (List.mem_cons_of_mem _ hr))⟩

/-- The acknowledged position after a worker step: a successful sync of the
newest file acknowledges the batch in hand. -/
def WCtx.ackStep (c : WCtx) (out : Outcome) (A : Nat) : Nat :=
  match c.w.pc with
  | .syncNew b _ => if out = .eio then A else max A (maxUpto b)
  | _ => A

/-- The acknowledged position after `runQuiet`. -/
def WCtx.ackQuiet : Nat → WCtx → Nat → Nat
  | 0, _, A => A
  | n + 1, c, A => if c.w.quiet then A else WCtx.ackQuiet n (c.step .ok) (c.ackStep .ok A)

/-! ### The invariant -/

structure DInv (s : Store) (fs : Fs) (w : Worker) (A : Nat) : Prop where
  wu : WU fs w
  /-- `A` is at or below every file announced beyond the worker's newest one -/
  a1 : ∀ i ∈ annIds w.rest, A ≤ i
  a2 : A ≤ s.openEnd
  /-- every live chunk is written up to `A` (or to its end) -/
  dw : ∀ offs ∈ s.chunks,
    min (lastOff offs - offs.headD 0) (A - offs.headD 0) ≤ (fdata fs (offs.headD 0)).length
  /-- ... and durable up to `A` (or to its end) -/
  dd : ∀ offs ∈ s.chunks, ∀ f, fs.find (offs.headD 0) = some f →
    min (lastOff offs - offs.headD 0) (A - offs.headD 0) ≤ f.durable

/-! ### Facts from the journal invariant -/

theorem held_eq_inHand_C3 (pc : WPc) : pc.held = pc.inHand := by
  cases pc <;> rfl

theorem filterMap_appendId_C3 (l : List WReq) : l.filterMap WReq.appendId = annIds l := by
  induction l with
  | nil => rfl
  | cons r l ih => cases r <;> simp only [List.filterMap_cons, WReq.appendId, annIds, ih]

theorem pendingAppends_eq_C3 (w : Worker) : pendingAppends w = annIds w.rest := by
  simp only [pendingAppends, held_eq_inHand_C3, filterMap_appendId_C3, Worker.rest]

theorem JInv.live_ids_C3 {s : Store} {fs : Fs} {w : Worker} (hj : JInv s fs w) :
    ∀ offs ∈ s.chunks, offs.headD 0 ∈ Fs.ids fs := by
  intro offs ho
  simp only [Store.chunks, List.mem_append, List.mem_map, List.mem_singleton] at ho
  rcases ho with ⟨c, hc, rfl⟩ | rfl
  · exact hj.closedFs c hc
  · exact hj.annFs _ hj.openId_mem

/-- A live chunk below the worker's newest file is completely written. -/
theorem JInv.old_chunk_full_C3 {s : Store} {fs : Fs} {w : Worker} (hj : JInv s fs w) :
    ∀ offs ∈ s.chunks, offs.headD 0 < w.cur →
      (fdata fs (offs.headD 0)).length = lastOff offs - offs.headD 0 := by
  intro offs ho hlt
  have hna : offs.headD 0 ∉ w.announced := by
    intro hm
    have hinc := hj.annAsc
    simp only [Worker.announced, Incr, List.pairwise_cons, List.mem_cons] at hinc hm
    rcases hm with e | e
    · omega
    · have := hinc.1 _ e; omega
  have hinf := w.inflight_not_announced _ hna
  simp only [Store.chunks, List.mem_append, List.mem_map, List.mem_singleton] at ho
  rcases ho with ⟨c, hc, rfl⟩ | rfl
  · have := (hj.closedBytes c hc).lastOff_eq
    have hinf' : w.inflight c.id = [] := hinf
    rw [hinf', List.append_nil] at this
    simp only [Closed.id] at this ⊢
    omega
  · exfalso
    exact hna hj.openId_mem

/-- The position of the newest file is at or below the journal end. -/
theorem WU.pos_le_end {s : Store} {fs : Fs} {w : Worker} (h : WU fs w) (hj : JInv s fs w) :
    w.cur + (fdata fs w.cur).length + w.pc.todoBytes.length ≤ s.openEnd := by
  by_cases e : w.cur = s.openId
  · have h1 := hj.openBytes.lastOff_eq
    have h2 : (w.inflight s.openId).length ≥ w.pc.todoBytes.length := by
      simp only [Worker.inflight, infl, e, if_true, List.length_append]
      omega
    simp only [List.length_append] at h1
    rw [e]
    simp only [Store.openEnd, Store.openId] at h1 h2 ⊢
    omega
  · have hmem : s.openId ∈ w.announced := hj.openId_mem
    simp only [Worker.announced, List.mem_cons] at hmem
    rcases hmem with e' | e'
    · exact absurd e'.symm e
    · have := uptoOK_ann_ge fs w.rest _ _ h.u1 _ e'
      have := hj.openId_lt
      omega

/-! ### The file system under one worker step -/

inductive FsStep (fs : Fs) (cur : Nat) : Fs → Prop
  | same : FsStep fs cur fs
  | write (d : Bytes) : FsStep fs cur (fs.write cur d)
  | sync (id : Nat) : FsStep fs cur (fs.sync id)
  | unlink (i : Nat) : FsStep fs cur (fs.unlink i)

theorem WCtx.die_fs_C3 (c : WCtx) (l : List WReq) : (c.die l).fs = c.fs := by
  simp [WCtx.die, foldl_emit_fsW]

theorem WCtx.step_fs_C3 (c : WCtx) (out : Outcome) :
    FsStep c.fs (newestId c.w.files) (c.step out).fs := by
  apply WCtx.step_elim (P := fun c' => FsStep c.fs (newestId c.w.files) c'.fs) c out
  all_goals intros
  all_goals first
    | (simp only [WCtx.toRecv_fsW, WCtx.nonFlush_fsW, WCtx.finishBatch_fsW, WCtx.startSync_fsW,
        WCtx.startWrites_fsW, WCtx.setQueue_fs, WCtx.setPc_fs, WCtx.setFiles_fs, WCtx.emit_fs,
        WCtx.wrote_fs, WCtx.synced_fs, WCtx.unlinked_fs, WCtx.die_fs_C3]
       first
        | exact FsStep.same
        | exact FsStep.write _
        | exact FsStep.sync _
        | exact FsStep.unlink _)
    | exact FsStep.same

theorem FsStep.ids {fs fs' : Fs} {cur : Nat} (h : FsStep fs cur fs') : Fs.ids fs' = Fs.ids fs := by
  cases h <;> simp

theorem FsStep.fdata_mono {fs fs' : Fs} {cur : Nat} (h : FsStep fs cur fs') (hcur : cur ∈ Fs.ids fs)
    (id : Nat) : (fdata fs id).length ≤ (fdata fs' id).length := by
  cases h with
  | same => exact Nat.le_refl _
  | write d => rw [fdata_write_len_C3 _ _ _ hcur]; omega
  | sync i => rw [fdata_sync]; exact Nat.le_refl _
  | unlink i => rw [fdata_unlink]; exact Nat.le_refl _

theorem find_update_durable_C3 (fs : Fs) (i id : Nat) (g : File → File) (hg : ∀ f, (g f).id = f.id)
    {f' : File} (h : (fs.update i g).find id = some f') :
    ∃ f, fs.find id = some f ∧ ((f.id ≠ i ∧ f' = f) ∨ (f.id = i ∧ f' = g f)) := by
  rw [Fs.find_update fs i id g hg] at h
  cases hf : fs.find id with
  | none => rw [hf] at h; cases h
  | some f =>
    rw [hf] at h
    simp only [Option.map_some, Option.some.injEq] at h
    refine ⟨f, rfl, ?_⟩
    by_cases e : (f.id == i) = true
    · rw [if_pos e] at h
      exact Or.inr ⟨by simpa using e, h.symm⟩
    · rw [if_neg e] at h
      exact Or.inl ⟨by simpa using e, h.symm⟩

/-- What a step does to the file `find id` returns. -/
theorem FsStep.find {fs fs' : Fs} {cur : Nat} (h : FsStep fs cur fs') {id : Nat} {f' : File}
    (hf : fs'.find id = some f') :
    ∃ f, fs.find id = some f ∧ (f'.durable = f.durable ∨ f'.durable = f'.data.length) := by
  cases h with
  | same => exact ⟨f', hf, Or.inl rfl⟩
  | write d =>
    obtain ⟨f, h1, h2⟩ := find_update_durable_C3 fs cur id (fun f => { f with data := f.data ++ d }) (fun _ => rfl) hf
    refine ⟨f, h1, Or.inl ?_⟩
    rcases h2 with ⟨_, e⟩ | ⟨_, e⟩ <;> rw [e]
  | sync i =>
    obtain ⟨f, h1, h2⟩ := find_update_durable_C3 fs i id (fun f => { f with durable := f.data.length }) (fun _ => rfl) hf
    refine ⟨f, h1, ?_⟩
    rcases h2 with ⟨_, e⟩ | ⟨_, e⟩
    · left; rw [e]
    · right; rw [e]
  | unlink i =>
    obtain ⟨f, h1, h2⟩ := find_update_durable_C3 fs i id (fun f => { f with linked := false }) (fun _ => rfl) hf
    refine ⟨f, h1, Or.inl ?_⟩
    rcases h2 with ⟨_, e⟩ | ⟨_, e⟩ <;> rw [e]

/-! ### One worker step -/

theorem WF_syncNew_files_C3 {w : Worker} {b : List WReq} {t : Option WReq} (hw : w.WF)
    (hpc : w.pc = .syncNew b t) : ∃ f, w.files = [f] := by
  simp only [Worker.WF, hpc] at hw
  match hf : w.files, hw with
  | [f], _ => exact ⟨f, rfl⟩

/-- **The durability invariant under one worker step** (any outcome that leaves
the worker alive); the acknowledged position moves as `ackStep` says. -/
theorem DInv.step {s : Store} {c : WCtx} {A : Nat} (out : Outcome) (h : DInv s c.fs c.w A)
    (hj : JInv s c.fs c.w) (hl : LInv s c.fs c.w) (hcov : Covered c) (hwf : c.w.WF)
    (hnd : (c.step out).w.pc ≠ .dead) :
    DInv s (c.step out).fs (c.step out).w (c.ackStep out A) := by
  have hcur : c.w.cur ∈ Fs.ids c.fs := hj.annFs _ (by simp [Worker.announced])
  have hcur' : newestId c.w.files ∈ Fs.ids c.fs := hcur
  have hwu' := WCtx.step_wu c out h.wu hj.wok hj.annAsc hcur hnd
  have g := WCtx.step_good c out hj.wok hcur hnd
  have hj' : JInv s (c.step out).fs (c.step out).w := hj.worker g (WCtx.step_ids c out)
  have hfs := c.step_fs_C3 out
  -- the announced files after the step were announced before
  have hann : ∀ i ∈ annIds (c.step out).w.rest, i ∈ annIds c.w.rest := by
    intro i hi
    have hm : i ∈ (c.step out).w.announced := by simp [Worker.announced, hi]
    have hm2 := g.ann.subset hm
    simp only [Worker.announced, List.mem_cons] at hm2
    rcases hm2 with e | e
    · -- `i` is the old newest file: impossible, it is announced beyond the new newest file
      exfalso
      have hinc' := hj'.annAsc
      have hcm : (c.step out).w.cur ∈ c.w.announced := g.ann.subset (by simp [Worker.announced])
      simp only [Worker.announced, Incr, List.pairwise_cons, List.mem_cons] at hinc' hcm
      have h1 := hinc'.1 i hi
      have hinc := hj.annAsc
      simp only [Worker.announced, Incr, List.pairwise_cons] at hinc
      rcases hcm with e2 | e2
      · omega
      · have := hinc.1 _ e2; omega
    · exact e
  -- the position of the newest file before the step
  have hpos := h.wu.pos_le_end hj
  by_cases hack : ∃ b t, c.w.pc = .syncNew b t ∧ out ≠ .eio
  · -- the acknowledging step
    obtain ⟨b, t, hpc, hout⟩ := hack
    obtain ⟨f, hf⟩ := WF_syncNew_files_C3 hwf hpc
    have hA : c.ackStep out A = max A (maxUpto b) := by
      simp only [WCtx.ackStep, hpc, hout, if_false]
    have hcurf : c.w.cur = f.id := by simp [Worker.cur, hf, newestId]
    have hstep : (c.step out).fs = c.fs.sync f.id := by
      cases out with
      | eio => exact absurd rfl hout
      | ok => simp [WCtx.step, hpc, hf]
      | short k => simp [WCtx.step, hpc, hf]
    have htodo : c.w.pc.todoBytes = [] := by rw [hpc]; rfl
    have hmu : maxUpto b ≤ c.w.cur + (fdata c.fs c.w.cur).length := by
      apply maxUpto_le
      intro r hr
      have := h.wu.u2 r (by rw [hpc]; exact hr)
      rw [htodo] at this
      simpa using this
    rw [htodo] at hpos
    simp only [List.length_nil, Nat.add_zero] at hpos
    rw [hA]
    have hbeyond : ∀ i ∈ annIds c.w.rest, max A (maxUpto b) ≤ i := by
      intro i hi
      have h1 := h.a1 i hi
      have h2 := uptoOK_ann_ge c.fs c.w.rest _ _ h.wu.u1 i hi
      rw [htodo] at h2
      simp only [List.length_nil, Nat.add_zero] at h2
      exact Nat.max_le.mpr ⟨h1, by omega⟩
    -- every live chunk: written and durable up to the new position
    have hlive : ∀ offs ∈ s.chunks,
        min (lastOff offs - offs.headD 0) (max A (maxUpto b) - offs.headD 0)
          ≤ (fdata c.fs (offs.headD 0)).length ∧
        (offs.headD 0 ≠ c.w.cur → ∀ f0, c.fs.find (offs.headD 0) = some f0 →
          min (lastOff offs - offs.headD 0) (max A (maxUpto b) - offs.headD 0) ≤ f0.durable) := by
      intro offs ho
      have hid := hj.live_ids_C3 offs ho
      rcases Nat.lt_trichotomy (offs.headD 0) c.w.cur with hlt | heq | hgt
      · -- an older chunk: complete, and not tracked by the worker any more
        have hfull := hj.old_chunk_full_C3 offs ho hlt
        refine ⟨by rw [hfull]; exact Nat.min_le_left _ _, fun _ f0 hf0 => ?_⟩
        have hmem : f0 ∈ c.fs := List.mem_of_find?_eq_some hf0
        have hf0id : f0.id = offs.headD 0 := Fs.find_id hf0
        have hlinked : f0.linked = true := by
          have := hl.live (offs.headD 0) (List.mem_map.mpr ⟨offs, ho, rfl⟩)
          unfold Fs.has at this
          rw [hf0] at this
          exact this
        have hfd : fdata c.fs (offs.headD 0) = f0.data := fdata_of_find_C3 hf0
        by_cases hd : f0.durable < f0.data.length
        · exfalso
          rcases hcov f0 hmem hd hlinked with k | k
          · rw [hf] at k
            simp only [List.map_cons, List.map_nil, List.mem_singleton] at k
            omega
          · rw [pendingAppends_eq_C3] at k
            have hinc := hj.annAsc
            simp only [Worker.announced, Incr, List.pairwise_cons] at hinc
            have := hinc.1 _ k
            omega
        · rw [hfd] at hfull
          have := Nat.min_le_left (lastOff offs - offs.headD 0) (max A (maxUpto b) - offs.headD 0)
          omega
      · -- the newest file itself
        refine ⟨?_, fun hne => absurd heq hne⟩
        have h1 := h.dw offs ho
        rw [heq] at h1 ⊢
        rcases Nat.le_total A (maxUpto b) with hle | hle
        · rw [Nat.max_eq_right hle]
          have := Nat.min_le_right (lastOff offs - c.w.cur) (maxUpto b - c.w.cur)
          omega
        · rw [Nat.max_eq_left hle]; exact h1
      · -- a newer chunk: announced, so it starts at or beyond the new position
        have hmem := h.wu.u3 _ hid hgt
        have := hbeyond _ hmem
        have hz : max A (maxUpto b) - offs.headD 0 = 0 := by omega
        rw [hz, Nat.min_zero]
        exact ⟨Nat.zero_le _, fun _ _ _ => Nat.zero_le _⟩
    refine ⟨hwu', fun i hi => hbeyond i (hann i hi), ?_, ?_, ?_⟩
    · exact Nat.max_le.mpr ⟨h.a2, by omega⟩
    · intro offs ho
      rw [hstep, fdata_sync]
      exact (hlive offs ho).1
    · intro offs ho f' hf'
      rw [hstep] at hf'
      obtain ⟨f0, h1, h2⟩ := find_update_durable_C3 c.fs f.id (offs.headD 0) (fun f => { f with durable := f.data.length }) (fun _ => rfl) hf'
      rcases h2 with ⟨e0, e⟩ | ⟨e1, e2⟩
      · rw [e]
        have hid0 := Fs.find_id h1
        exact (hlive offs ho).2 (by rw [← hid0, hcurf]; exact e0) f0 h1
      · rw [e2]
        have := (hlive offs ho).1
        rw [fdata_of_find_C3 h1] at this
        exact this
  · -- any other step: the position does not move
    have hA : c.ackStep out A = A := by
      unfold WCtx.ackStep
      split
      · rename_i b t hpc
        by_cases ho : out = .eio
        · rw [if_pos ho]
        · exact absurd ⟨b, t, hpc, ho⟩ hack
      · rfl
    rw [hA]
    refine ⟨hwu', fun i hi => h.a1 i (hann i hi), h.a2, ?_, ?_⟩
    · intro offs ho
      exact Nat.le_trans (h.dw offs ho) (hfs.fdata_mono hcur' _)
    · intro offs ho f' hf'
      obtain ⟨f0, h1, h2⟩ := hfs.find hf'
      rcases h2 with e | e
      · rw [e]; exact h.dd offs ho f0 h1
      · rw [e, ← fdata_of_find_C3 hf']
        exact Nat.le_trans (h.dw offs ho) (hfs.fdata_mono hcur' _)

end RaftLog
