/-
Journal invariant: consequences. Where a journalled record sits; what the
files hold when the worker is quiet and nothing is pending.
-/
import RaftLogModel.Proofs.JournalSys
namespace RaftLog

/-! ### Parsing a clean chunk -/

theorem encAll_length_ge (rs : List Record) : rs.length ≤ (encAll rs).length := by
  induction rs with
  | nil => simp
  | cons r rs ih =>
    have := encRecord_length_pos r
    simp only [encAll_cons, List.length_append, List.length_cons]
    omega

theorem parseLoop_encAll (rs : List Record) (hwf : AllWF rs) : ∀ fuel, rs.length < fuel →
    parseLoop fuel (encAll rs) = (rs.map (fun r => (r, (encRecord r).length)), .clean, []) := by
  induction rs with
  | nil =>
    intro fuel hf
    cases fuel with
    | zero => simp at hf
    | succ f => simp [parseLoop]
  | cons r rs ih =>
    intro fuel hf
    cases fuel with
    | zero => simp at hf
    | succ f =>
      have hpos := encRecord_length_pos r
      have hne : (encRecord r ++ encAll rs).isEmpty = false := by
        cases h : encRecord r ++ encAll rs with
        | nil => have := congrArg List.length h; simp only [List.length_append, List.length_nil] at this; omega
        | cons x xs => rfl
      have hrt := record_rt r (encAll rs) (hwf r List.mem_cons_self)
      have hf' : rs.length < f := by simp only [List.length_cons] at hf; omega
      have hih := ih (fun x hx => hwf x (List.mem_cons_of_mem _ hx)) f hf'
      rw [parseLoop]
      simp only [encAll_cons, hne, Bool.false_eq_true, if_false, hrt, hih, List.map_cons,
        List.length_append, Nat.add_sub_cancel]

theorem parseChunk_encAll (rs : List Record) (hwf : AllWF rs) :
    parseChunk (encAll rs) = (rs.map (fun r => (r, (encRecord r).length)), .clean, []) := by
  unfold parseChunk
  exact parseLoop_encAll rs hwf _ (by have := encAll_length_ge rs; omega)

/-! ### Sizes along a chain -/

theorem Chained.head_eq {a : List Nat} {M : List (List Nat)} (h : Chained (a :: M)) (hM : M ≠ []) :
    lastOff a = (M.headD []).headD 0 := by
  cases M with
  | nil => exact absurd rfl hM
  | cons b M' => exact h.1

theorem chunks_sum (cl : List (List Nat)) (o : List Nat) (hc : Chained (cl ++ [o]))
    (hle : ∀ x ∈ cl ++ [o], x.headD 0 ≤ lastOff x) :
    sumNat ((cl ++ [o]).map (fun x => lastOff x - x.headD 0)) = lastOff o - ((cl ++ [o]).headD []).headD 0 ∧
      ((cl ++ [o]).headD []).headD 0 ≤ lastOff o := by
  induction cl with
  | nil =>
    have := hle o (by simp)
    refine ⟨?_, ?_⟩ <;>
      simp only [List.nil_append, List.map_cons, List.map_nil, sumNat, List.headD_cons, Nat.add_zero]
    exact this
  | cons a cl ih =>
    have hne : cl ++ [o] ≠ [] := by simp
    have h1 := Chained.head_eq (a := a) (M := cl ++ [o]) hc hne
    obtain ⟨i1, i2⟩ := ih hc.tail (fun x hx => hle x (List.mem_cons_of_mem _ hx))
    have ha := hle a (by simp)
    simp only [List.cons_append, List.map_cons, sumNat, List.headD_cons]
    rw [i1]
    omega

/-! ### Where a journalled record sits -/

theorem chunkBytes_congr {s1 s2 : Store} (fs : Fs) (w : Worker) (id : Nat)
    (h1 : s2.openOffsets = s1.openOffsets) (h2 : s2.pending = s1.pending) :
    chunkBytes s2 fs w id = chunkBytes s1 fs w id := by
  simp [chunkBytes, Store.openId, h1, h2]

/-- The record a single-record call journals (if it journals one). -/
def Store.opRecord (s : Store) : Op → Option Record
  | .saveVote v => some (.saveVote v)
  | .commit id => some (.commit id)
  | .saveUserData d => some (.state { s.st with userData := d })
  | .append es =>
    match es with
    | [(id, p)] => some (.append id p)
    | _ => none
  | .truncate idx =>
    match nextIndexChecked s.st.purged with
    | none => none
    | some nxt =>
      if idx = nxt then some (.truncateAfter s.st.purged)
      else if idx = 0 then none
      else match s.logGet (idx - 1) with
        | none => none
        | some d => some (.truncateAfter (some d.id))
  | .purge upto =>
    match nextIndexChecked s.st.purged with
    | none => none
    | some nxt => if upto.index < nxt then none else some (.purgeUpto upto)

/-- Where the record is and what the open chunk's bytes become. -/
def SegGood (s : Store) (fs : Fs) (w : Worker) (r : Record) (res : Res Seg × Store × List Eff) : Prop :=
  ∀ seg, res.1 = .ok seg → seg = ⟨s.openEnd, (encRecord r).length⟩ ∧
    chunkBytes res.2.1 (effFs res.2.2 fs) (w.push (effQ res.2.2)) s.openId
      = chunkBytes s fs w s.openId ++ encRecord r

theorem call_segment {s : Store} {fs : Fs} {w : Worker} (fsHas : Nat → Bool) (op : Op) (r : Record)
    (h : JInv s fs w) (hop : op.WF) (hfs : ∀ i, s.openEnd ≤ i → fsHas i = false)
    (hrec : s.opRecord op = some r) : SegGood s fs w r (s.call fsHas op) := by
  cases op with
  | saveVote v =>
    simp only [Store.opRecord, Option.some.injEq] at hrec; subst hrec
    exact (appendAndApply_J fsHas h (r := .saveVote v) hop hfs).seg
  | commit id =>
    simp only [Store.opRecord, Option.some.injEq] at hrec; subst hrec
    exact (appendAndApply_J fsHas h (r := .commit id) hop hfs).seg
  | saveUserData d =>
    simp only [Store.opRecord, Option.some.injEq] at hrec; subst hrec
    refine (appendAndApply_J fsHas h (r := .state { s.st with userData := d }) ?_ hfs).seg
    obtain ⟨h1, h2, h3, h4, _⟩ := h.stWF
    exact ⟨h1, h2, h3, h4, by cases d <;> simp [Op.WF] at hop ⊢ <;> exact hop⟩
  | append es =>
    simp only [Store.opRecord] at hrec
    split at hrec
    · rename_i id p
      simp only [Option.some.injEq] at hrec; subst hrec
      obtain ⟨seg0, hseg0⟩ := lastSegment_some h.openBytes.length
      by_cases hidx : id.index + 1 = U64
      · simp only [Store.call, hseg0, Store.appendBatch, if_pos hidx]
        intro seg hs; cases hs
      have g := appendAndApply_J fsHas h (r := .append id p) (hop (id, p) List.mem_cons_self) hfs
      rcases hres : s.appendAndApply fsHas (.append id p) with ⟨res, s', e'⟩
      rw [hres] at g
      have gs := g.seg
      cases res with
      | ok seg' =>
        simp only [Store.call, hseg0, Store.appendBatch, if_neg hidx, hres, List.nil_append]
        exact gs
      | err k =>
        simp only [Store.call, hseg0, Store.appendBatch, if_neg hidx, hres, List.nil_append]
        intro seg hs; cases hs
      | panic m =>
        simp only [Store.call, hseg0, Store.appendBatch, if_neg hidx, hres, List.nil_append]
        intro seg hs; cases hs
    · cases hrec
  | truncate idx =>
    cases hn : nextIndexChecked s.st.purged with
    | none => simp [Store.opRecord, hn] at hrec
    | some nxt =>
      simp only [Store.opRecord, hn] at hrec
      simp only [Store.call, hn]
      by_cases h1 : idx = nxt
      · simp only [h1, if_true, Option.some.injEq] at hrec ⊢; subst hrec
        exact (appendAndApply_J fsHas h (r := .truncateAfter s.st.purged) h.stWF.2.2.2.1 hfs).seg
      · simp only [h1, if_false] at hrec ⊢
        by_cases h2 : idx = 0
        · simp [h2] at hrec
        · simp only [h2, if_false] at hrec ⊢
          cases hg : s.logGet (idx - 1) with
          | none => simp [hg] at hrec
          | some d =>
            simp only [hg, Option.some.injEq] at hrec ⊢; subst hrec
            obtain ⟨e, he, hed⟩ := logGet_mem hg
            have hwf : d.id.WF := by rw [← hed]; exact h.logWF e he
            exact (appendAndApply_J fsHas h (r := .truncateAfter (some d.id)) hwf hfs).seg
  | purge upto =>
    cases hn : nextIndexChecked s.st.purged with
    | none => simp [Store.opRecord, hn] at hrec
    | some nxt =>
      simp only [Store.opRecord, hn] at hrec
      by_cases hidx : upto.index + 1 = U64
      · rw [call_purge_refused_D12 _ _ _ hidx]
        intro seg hs; cases hs
      simp only [Store.call, if_neg hidx, hn]
      by_cases h1 : upto.index < nxt
      · simp [h1] at hrec
      · simp only [h1, if_false, Option.some.injEq] at hrec ⊢; subst hrec
        have g := appendAndApply_J fsHas h (r := .purgeUpto upto) hop hfs
        rcases hres : s.appendAndApply fsHas (.purgeUpto upto) with ⟨res, s', e'⟩
        rw [hres] at g
        have gs := g.seg
        cases res with
        | ok seg' =>
          simp only
          intro seg hs
          obtain ⟨g1, g2⟩ := gs seg hs
          refine ⟨g1, ?_⟩
          rw [← g2]
          exact chunkBytes_congr _ _ _ rfl rfl
        | err k => simp only; intro seg hs; cases hs
        | panic m => simp only; intro seg hs; cases hs

/-- The slice of `a ++ e` that starts at `a.length`. -/
theorem slice_append (a e : Bytes) : ((a ++ e).drop a.length).take e.length = e := by
  simp

end RaftLog
