/-
Journal invariant, caller side: the effects of a call (file creation, head
write, requests sent), journalling a record, chunk rotation, batches, flush,
purge; and the invariant transported over worker steps.
-/
import RaftLogModel.Proofs.JournalWorker
namespace RaftLog

/-! ### Small list facts -/

theorem incr_last_le {l : List Nat} {x : Nat} (h : Incr l) (hl : l.getLast? = some x) : ∀ a ∈ l, a ≤ x := by
  obtain ⟨ys, rfl⟩ := List.getLast?_eq_some_iff.mp hl
  intro a ha
  rcases List.mem_append.mp ha with h1 | h1
  · have := (List.pairwise_append.mp h).2.2 a h1 x (by simp); omega
  · simp at h1; omega

theorem incr_snoc {l : List Nat} {n : Nat} (h : Incr l) (hn : ∀ a ∈ l, a < n) : Incr (l ++ [n]) := by
  apply List.pairwise_append.mpr
  refine ⟨h, List.pairwise_singleton _ _, ?_⟩
  intro a ha b hb
  simp at hb; subst hb; exact hn a ha

theorem suffix_getLast? {a : Nat} {t l : List Nat} (h : (a :: t) <:+ l) : l.getLast? = (a :: t).getLast? := by
  obtain ⟨pre, rfl⟩ := h
  rw [List.getLast?_append]
  cases h : (a :: t).getLast? with
  | none => simp at h
  | some x => rfl

/-! ### Call effects as pure functions (worker not dead) -/

def effFs : List Eff → Fs → Fs
  | [], fs => fs
  | .create id :: r, fs => effFs r (fs.create id)
  | .createFailed _ :: r, fs => effFs r fs
  | .writeHead id bs :: r, fs => effFs r (fs.write id bs)
  | .send _ :: r, fs => effFs r fs

def effQ : List Eff → List WReq
  | [] => []
  | .create _ :: r => effQ r
  | .createFailed _ :: r => effQ r
  | .writeHead _ _ :: r => effQ r
  | .send q :: r => q :: effQ r

def Worker.push (w : Worker) (q : List WReq) : Worker := { w with queue := w.queue ++ q }

@[simp] theorem Worker.push_nil (w : Worker) : w.push [] = w := by simp [Worker.push]
theorem Worker.push_push (w : Worker) (a b : List WReq) : (w.push a).push b = w.push (a ++ b) := by
  simp [Worker.push]
@[simp] theorem Worker.push_pc (w : Worker) (q : List WReq) : (w.push q).pc = w.pc := rfl
@[simp] theorem Worker.push_files (w : Worker) (q : List WReq) : (w.push q).files = w.files := rfl
theorem Worker.push_rest (w : Worker) (q : List WReq) : (w.push q).rest = w.rest ++ q := by
  simp [Worker.rest, Worker.push]

theorem effFs_append (a b : List Eff) (fs : Fs) : effFs (a ++ b) fs = effFs b (effFs a fs) := by
  induction a generalizing fs with
  | nil => rfl
  | cons e r ih => cases e <;> simp [effFs, ih]

theorem effQ_append (a b : List Eff) : effQ (a ++ b) = effQ a ++ effQ b := by
  induction a with
  | nil => rfl
  | cons e r ih => cases e <;> simp [effQ, ih]

theorem applyEffs_live (effs : List Eff) : ∀ (fs : Fs) (w : Worker) (evs : List Ev), w.pc ≠ .dead →
    (applyEffs effs fs w evs).1 = true ∧ (applyEffs effs fs w evs).2.1 = effFs effs fs ∧
      (applyEffs effs fs w evs).2.2.1 = w.push (effQ effs) := by
  induction effs with
  | nil => intro fs w evs _; exact ⟨rfl, rfl, by simp [applyEffs, effQ]⟩
  | cons e rest ih =>
    intro fs w evs h
    cases e with
    | create id => simp only [applyEffs, effFs, effQ]; exact ih _ _ _ h
    | createFailed id => simp only [applyEffs, effFs, effQ]; exact ih _ _ _ h
    | writeHead id bs => simp only [applyEffs, effFs, effQ]; exact ih _ _ _ h
    | send r =>
      simp only [applyEffs, effFs, effQ]
      have := ih fs { w with queue := w.queue ++ [r] } evs h
      refine ⟨this.1, this.2.1, ?_⟩
      rw [this.2.2]
      simp [Worker.push]

/-! ### Queue growth -/

/-- The file the last request of a queue leaves as the newest one. -/
def lastAnn (cur : Nat) : List WReq → Nat
  | [] => cur
  | .write _ _ _ :: q => lastAnn cur q
  | .appendFile n _ :: q => lastAnn n q
  | .removeChunks _ :: q => lastAnn cur q

theorem lastAnn_getLast (cur : Nat) (R : List WReq) : (cur :: annIds R).getLast? = some (lastAnn cur R) := by
  induction R generalizing cur with
  | nil => rfl
  | cons r R ih =>
    cases r with
    | write u d cb => exact ih cur
    | appendFile n p =>
      simp only [annIds, lastAnn, List.getLast?_cons_cons]
      exact ih n
    | removeChunks ids => exact ih cur

theorem annIds_append (a b : List WReq) : annIds (a ++ b) = annIds a ++ annIds b := by
  induction a with
  | nil => rfl
  | cons r R ih => cases r <;> simp [annIds, ih]

theorem inflightFrom_snoc_write (cur : Nat) (R : List WReq) (u : Nat) (d : Bytes) (cb : Option Nat) (id : Nat) :
    inflightFrom cur (R ++ [.write u d cb]) id =
      inflightFrom cur R id ++ (if lastAnn cur R = id then d else []) := by
  induction R generalizing cur with
  | nil => simp only [List.nil_append, inflightFrom, lastAnn, List.append_nil] <;> rfl
  | cons r R ih =>
    cases r with
    | write u' d' cb' => simp only [List.cons_append, inflightFrom, lastAnn, ih, List.append_assoc] <;> rfl
    | appendFile n p => simp only [List.cons_append, inflightFrom, lastAnn, ih] <;> rfl
    | removeChunks ids => simp only [List.cons_append, inflightFrom, lastAnn, ih] <;> rfl

theorem inflightFrom_snoc_other (cur : Nat) (R : List WReq) (r : WReq) (hr : r.isWrite = false) (id : Nat) :
    inflightFrom cur (R ++ [r]) id = inflightFrom cur R id := by
  induction R generalizing cur with
  | nil => cases r <;> simp [inflightFrom] at hr ⊢ <;> cases hr
  | cons x R ih => cases x <;> simp [inflightFrom, ih]

theorem inflightFrom_not_announced (cur : Nat) (R : List WReq) (id : Nat)
    (h : id ∉ cur :: annIds R) : inflightFrom cur R id = [] := by
  induction R generalizing cur with
  | nil => rfl
  | cons r R ih =>
    cases r with
    | write u d cb =>
      simp only [annIds] at h
      have hc : ¬ cur = id := fun e => h (by simp [e])
      simp [inflightFrom, hc, ih cur h]
    | appendFile n p =>
      simp only [annIds] at h
      simp only [inflightFrom]
      exact ih n (fun hm => h (List.mem_cons_of_mem _ hm))
    | removeChunks ids =>
      simp only [annIds] at h
      simp only [inflightFrom]
      exact ih cur h

theorem Worker.inflight_not_announced (w : Worker) (id : Nat) (h : id ∉ w.announced) :
    w.inflight id = [] := by
  have hc : ¬ w.cur = id := fun e => h (by simp [Worker.announced, e])
  simp only [Worker.inflight, infl, hc, if_false, List.nil_append]
  exact inflightFrom_not_announced _ _ _ h

theorem Worker.push_write (w : Worker) (u : Nat) (d : Bytes) (cb : Option Nat) (x : Nat)
    (hl : w.announced.getLast? = some x) (id : Nat) :
    (w.push [.write u d cb]).inflight id = w.inflight id ++ (if x = id then d else []) ∧
    (w.push [.write u d cb]).announced = w.announced := by
  have hx : lastAnn w.cur w.rest = x := by
    have := lastAnn_getLast w.cur w.rest
    rw [Worker.announced] at hl
    rw [hl] at this
    exact (Option.some.inj this).symm
  constructor
  · simp only [Worker.inflight, Worker.push_rest, infl, Worker.cur, Worker.push_files, Worker.push_pc,
      inflightFrom_snoc_write, List.append_assoc]
    rw [← hx]; rfl
  · simp [Worker.announced, Worker.push_rest, annIds_append, annIds, Worker.cur]

theorem Worker.push_appendFile (w : Worker) (n : Nat) (p : Option LogId) (id : Nat) :
    (w.push [.appendFile n p]).inflight id = w.inflight id ∧
    (w.push [.appendFile n p]).announced = w.announced ++ [n] := by
  constructor
  · simp only [Worker.inflight, Worker.push_rest, infl, Worker.cur, Worker.push_files, Worker.push_pc]
    rw [inflightFrom_snoc_other _ _ _ rfl]
    rfl
  · simp [Worker.announced, Worker.push_rest, annIds_append, annIds, Worker.cur]

theorem Worker.push_removeChunks (w : Worker) (ids : List Nat) (id : Nat) :
    (w.push [.removeChunks ids]).inflight id = w.inflight id ∧
    (w.push [.removeChunks ids]).announced = w.announced := by
  constructor
  · simp only [Worker.inflight, Worker.push_rest, infl, Worker.cur, Worker.push_files, Worker.push_pc]
    rw [inflightFrom_snoc_other _ _ _ rfl]
    rfl
  · simp [Worker.announced, Worker.push_rest, annIds_append, annIds, Worker.cur]

theorem Worker.settle_facts (w : Worker) :
    w.settle.rest = w.rest ∧ w.settle.files = w.files ∧ w.settle.pc.todoBytes = w.pc.todoBytes ∧
    (w.pc.ok w.files → w.settle.pc.ok w.settle.files) ∧ (w.pc ≠ .dead → w.settle.pc ≠ .dead) := by
  unfold Worker.settle
  split
  · rename_i r q hpc hq
    refine ⟨?_, rfl, ?_, fun _ => trivial, fun _ => by simp⟩
    · simp [Worker.rest, hpc, hq, WPc.inHand]
    · simp [hpc, WPc.todoBytes]
  · exact ⟨rfl, rfl, rfl, id, id⟩

theorem Worker.settle_inflight (w : Worker) (id : Nat) : w.settle.inflight id = w.inflight id := by
  obtain ⟨h1, h2, h3, _, _⟩ := w.settle_facts
  simp only [Worker.inflight, Worker.cur, h1, h2, h3]

theorem Worker.settle_announced (w : Worker) : w.settle.announced = w.announced := by
  obtain ⟨h1, h2, _, _, _⟩ := w.settle_facts
  simp only [Worker.announced, Worker.cur, h1, h2]

/-! ### Chains of chunks -/

theorem Chained.snoc {L : List (List Nat)} {a b : List Nat} (h : Chained (L ++ [a]))
    (hab : lastOff a = b.headD 0) : Chained (L ++ [a] ++ [b]) := by
  induction L with
  | nil => exact ⟨hab, trivial⟩
  | cons x L ih =>
    cases L with
    | nil =>
      simp only [List.cons_append, List.nil_append, Chained] at h ⊢
      exact ⟨h.1, hab, trivial⟩
    | cons y L' =>
      simp only [List.cons_append, Chained] at h ih ⊢
      exact ⟨h.1, ih h.2⟩

/-- Replacing the last list by one with the same head. -/
theorem Chained.replace_last {L : List (List Nat)} {a a' : List Nat} (h : Chained (L ++ [a]))
    (hh : a'.headD 0 = a.headD 0) : Chained (L ++ [a']) := by
  induction L with
  | nil => trivial
  | cons x L ih =>
    cases L with
    | nil =>
      simp only [List.cons_append, List.nil_append, Chained] at h ⊢
      exact ⟨by rw [hh]; exact h.1, trivial⟩
    | cons y L' =>
      simp only [List.cons_append, Chained] at h ih ⊢
      exact ⟨h.1, ih h.2⟩

theorem Chained.tail {x : List Nat} {L : List (List Nat)} (h : Chained (x :: L)) : Chained L := by
  cases L with
  | nil => trivial
  | cons y L' => exact h.2

theorem Chained.drop_prefix {P L : List (List Nat)} (h : Chained (P ++ L)) : Chained L := by
  induction P with
  | nil => exact h
  | cons x P ih => exact ih h.tail

/-! ### Well-formedness of what gets journalled -/

def Op.WF : Op → Prop
  | .saveVote v => v.WF
  | .append es => ∀ e ∈ es, e.1.WF ∧ bytesWF e.2
  | .truncate _ => True
  | .purge id => id.WF
  | .commit id => id.WF
  | .saveUserData d => match d with
    | none => True
    | some b => bytesWF b

theorem apply_wf {st st' : RState} {r : Record} (hs : st.WF) (hr : r.WF) (h : st.apply r = .ok st') :
    st'.WF := by
  obtain ⟨h1, h2, h3, h4, h5⟩ := hs
  cases r with
  | saveVote v =>
    simp only [RState.apply, RState.updateVote] at h
    split at h
    · injection h with h; subst h; exact ⟨hr, h2, h3, h4, h5⟩
    · cases h
  | commit id =>
    simp only [RState.apply, RState.commit] at h
    split at h
    · cases h
    · injection h with h; subst h; exact ⟨h1, h2, hr, h4, h5⟩
  | state x => simp only [RState.apply, Res.ok.injEq] at h; subst h; exact hr
  | truncateAfter o =>
    simp only [RState.apply, Res.ok.injEq] at h; subst h
    simp only [RState.truncateAfter]
    split
    · exact ⟨h1, hr, h3, h4, h5⟩
    · exact ⟨h1, h2, h3, h4, h5⟩
  | purgeUpto id =>
    simp only [RState.apply, Res.ok.injEq] at h; subst h
    simp only [RState.purge]
    split <;> split <;>
      exact ⟨h1, by first | exact hr | exact h2, h3, by first | exact hr | exact h4, h5⟩
  | append id p =>
    simp only [RState.apply, RState.append] at h
    split at h
    · cases h
    · split at h
      · injection h with h; subst h; exact ⟨h1, hr.1, h3, h4, h5⟩
      · split at h
        · cases h
        · split at h
          · cases h
          · injection h with h; subst h; exact ⟨h1, hr.1, h3, h4, h5⟩

theorem applyIndex_fields {s s2 : Store} {r : Record} {chunk : Nat} {seg : Seg}
    (hr : r.WF) (hlog : ∀ e ∈ s.log, e.2.id.WF) (h : s.applyIndex r chunk seg = some s2) :
    (∀ e ∈ s2.log, e.2.id.WF) ∧ s2.st = s.st ∧ s2.openOffsets = s.openOffsets ∧
      s2.pending = s.pending ∧ s2.closed = s.closed := by
  cases r with
  | saveVote v => simp only [Store.applyIndex, Option.some.injEq] at h; subst h; exact ⟨hlog, rfl, rfl, rfl, rfl⟩
  | commit id => simp only [Store.applyIndex, Option.some.injEq] at h; subst h; exact ⟨hlog, rfl, rfl, rfl, rfl⟩
  | state x => simp only [Store.applyIndex, Option.some.injEq] at h; subst h; exact ⟨hlog, rfl, rfl, rfl, rfl⟩
  | append id p =>
    simp only [Store.applyIndex, Option.some.injEq] at h; subst h
    refine ⟨?_, rfl, rfl, rfl, rfl⟩
    intro e he
    rcases mem_logInsert he with h1 | h1
    · subst h1; exact hr.1
    · exact hlog e h1
  | truncateAfter o =>
    simp only [Store.applyIndex] at h
    split at h
    · cases h
    · simp only [Option.some.injEq] at h; subst h
      exact ⟨fun e he => hlog e (List.mem_filter.mp he).1, rfl, rfl, rfl, rfl⟩
  | purgeUpto id =>
    simp only [Store.applyIndex] at h
    split at h
    · cases h
    · simp only [Option.some.injEq] at h; subst h
      exact ⟨fun e he => hlog e (List.mem_filter.mp he).1, rfl, rfl, rfl, rfl⟩

/-! ### The invariant under changes of the store -/

/-- All bytes of chunk `id`: file, in flight, pending (open chunk only). -/
def chunkBytes (s : Store) (fs : Fs) (w : Worker) (id : Nat) : Bytes :=
  fdata fs id ++ w.inflight id ++ (if s.openId = id then s.pending else [])

theorem JInv.of_fields {s s2 : Store} {fs : Fs} {w : Worker} (h : JInv s fs w) (h1 : s2.st = s.st)
    (h2 : s2.log = s.log) (h3 : s2.openOffsets = s.openOffsets) (h4 : s2.pending = s.pending)
    (h5 : s2.closed = s.closed) : JInv s2 fs w := by
  have e1 : s2.openId = s.openId := by simp [Store.openId, h3]
  have e2 : s2.openEnd = s.openEnd := by simp [Store.openEnd, h3]
  have e3 : s2.chunks = s.chunks := by simp [Store.chunks, h3, h5]
  exact ⟨h.wok, by rw [h1]; exact h.stWF, by rw [h2]; exact h.logWF, by rw [e2]; exact h.fsLt,
    by rw [e1]; exact h.annLast, h.annAsc, h.annFs, by rw [e3]; exact h.chained,
    by rw [h5, e1]; exact h.closedLe, by rw [h5]; exact h.closedFs,
    by rw [h3, e1, h4]; exact h.openBytes, by rw [h5]; exact h.closedBytes⟩

theorem JInv.openId_lt {s : Store} {fs : Fs} {w : Worker} (h : JInv s fs w) : s.openId < s.openEnd :=
  h.openBytes.head_lt

theorem JInv.openId_mem {s : Store} {fs : Fs} {w : Worker} (h : JInv s fs w) : s.openId ∈ w.announced :=
  List.mem_of_getLast? h.annLast

theorem JInv.ann_le {s : Store} {fs : Fs} {w : Worker} (h : JInv s fs w) : ∀ a ∈ w.announced, a ≤ s.openId :=
  incr_last_le h.annAsc h.annLast

theorem JInv.closed_lt {s : Store} {fs : Fs} {w : Worker} (h : JInv s fs w) {c : Closed} (hc : c ∈ s.closed) :
    c.id < s.openId := by
  have h1 := (h.closedBytes c hc).head_lt
  have h2 := h.closedLe c hc
  exact Nat.lt_of_lt_of_le h1 h2

/-- Journalling one record into the pending buffer. -/
theorem JInv.journal {s s3 : Store} {fs : Fs} {w : Worker} {r : Record} (h : JInv s fs w) (hr : r.WF)
    (hst : s3.st.WF) (hlog : ∀ e ∈ s3.log, e.2.id.WF)
    (hoff : s3.openOffsets = s.openOffsets ++ [s.openEnd + (encRecord r).length])
    (hp : s3.pending = s.pending ++ encRecord r) (hc : s3.closed = s.closed) :
    JInv s3 fs w ∧ s3.openId = s.openId ∧ s3.openEnd = s.openEnd + (encRecord r).length ∧
      chunkBytes s3 fs w s.openId = chunkBytes s fs w s.openId ++ encRecord r := by
  have hne := h.openBytes.ne_nil
  have e1 : s3.openId = s.openId := by
    simp only [Store.openId, hoff]; exact headD_append_of_ne_nil hne _
  have e2 : s3.openEnd = s.openEnd + (encRecord r).length := by
    simp only [Store.openEnd, hoff]; exact lastOff_append _ _
  refine ⟨⟨h.wok, hst, hlog, ?_, by rw [e1]; exact h.annLast, h.annAsc, h.annFs, ?_,
    by rw [hc, e1]; exact h.closedLe, by rw [hc]; exact h.closedFs, ?_, by rw [hc]; exact h.closedBytes⟩,
    e1, e2, ?_⟩
  · intro i hi; have := h.fsLt i hi; omega
  · have := h.chained
    simp only [Store.chunks, hc] at this ⊢
    exact this.replace_last (by rw [hoff]; exact headD_append_of_ne_nil hne _)
  · rw [hoff, e1, hp, ← List.append_assoc]
    exact h.openBytes.snoc hr
  · simp only [chunkBytes, e1, if_true, hp, List.append_assoc]

/-- Dropping closed chunks from the front (purge). -/
theorem JInv.dropClosed {s s2 : Store} {fs : Fs} {w : Worker} (h : JInv s fs w) (pre : List Closed)
    (h1 : s2.st = s.st) (h2 : s2.log = s.log) (h3 : s2.openOffsets = s.openOffsets)
    (h4 : s2.pending = s.pending) (h5 : s.closed = pre ++ s2.closed) : JInv s2 fs w := by
  have e1 : s2.openId = s.openId := by simp [Store.openId, h3]
  have e2 : s2.openEnd = s.openEnd := by simp [Store.openEnd, h3]
  have hm : ∀ c ∈ s2.closed, c ∈ s.closed := fun c hc => by rw [h5]; exact List.mem_append_right _ hc
  refine ⟨h.wok, by rw [h1]; exact h.stWF, by rw [h2]; exact h.logWF, by rw [e2]; exact h.fsLt,
    by rw [e1]; exact h.annLast, h.annAsc, h.annFs, ?_,
    fun c hc => by rw [e1]; exact h.closedLe c (hm c hc), fun c hc => h.closedFs c (hm c hc),
    by rw [h3, e1, h4]; exact h.openBytes, fun c hc => h.closedBytes c (hm c hc)⟩
  have := h.chained
  simp only [Store.chunks, h5, List.map_append, List.append_assoc, h3] at this ⊢
  exact this.drop_prefix

/-- Requests that carry no data for any chunk and announce nothing. -/
theorem JInv.push_removeChunks {s : Store} {fs : Fs} {w : Worker} (h : JInv s fs w) (ids : List Nat) :
    JInv s fs (w.push [.removeChunks ids]) := by
  have hi := fun id => (w.push_removeChunks ids id).1
  have ha := (w.push_removeChunks ids 0).2
  exact ⟨h.wok, h.stWF, h.logWF, h.fsLt, by rw [ha]; exact h.annLast, by rw [ha]; exact h.annAsc,
    by rw [ha]; exact h.annFs, h.chained, h.closedLe, h.closedFs, by rw [hi]; exact h.openBytes,
    fun c hc => by rw [hi]; exact h.closedBytes c hc⟩

/-- `flush` hands the pending bytes to the worker: they are now in flight to
the open chunk. -/
theorem JInv.push_pending {s s2 : Store} {fs : Fs} {w : Worker} (h : JInv s fs w) (u : Nat) (cb : Option Nat)
    (h1 : s2.st = s.st) (h2 : s2.log = s.log) (h3 : s2.openOffsets = s.openOffsets)
    (h4 : s2.pending = []) (h5 : s2.closed = s.closed) :
    JInv s2 fs (w.push [.write u s.pending cb]) := by
  have e1 : s2.openId = s.openId := by simp [Store.openId, h3]
  have e2 : s2.openEnd = s.openEnd := by simp [Store.openEnd, h3]
  have e3 : s2.chunks = s.chunks := by simp [Store.chunks, h3, h5]
  have hi := fun id => (w.push_write u s.pending cb s.openId h.annLast id).1
  have ha := (w.push_write u s.pending cb s.openId h.annLast 0).2
  refine ⟨h.wok, by rw [h1]; exact h.stWF, by rw [h2]; exact h.logWF, by rw [e2]; exact h.fsLt,
    by rw [ha, e1]; exact h.annLast, by rw [ha]; exact h.annAsc, by rw [ha]; exact h.annFs,
    by rw [e3]; exact h.chained, by rw [h5, e1]; exact h.closedLe, by rw [h5]; exact h.closedFs, ?_, ?_⟩
  · rw [h3, e1, h4, hi]
    simpa [List.append_assoc] using h.openBytes
  · intro c hc
    rw [h5] at hc
    rw [hi]
    have : ¬ s.openId = c.id := by have := h.closed_lt hc; omega
    simpa [this] using h.closedBytes c hc

/-- Chunk rotation. -/
theorem JInv.rotate {s s' : Store} {fs : Fs} {w : Worker} (h : JInv s fs w)
    (hst : s'.st = s.st) (hlog : s'.log = s.log)
    (hoff : s'.openOffsets = [s.openEnd, s.openEnd + (encRecord (.state s.st)).length])
    (hpend : s'.pending = []) (hclosed : s'.closed = s.closed ++ [⟨s.openOffsets, s.st⟩]) :
    JInv s' ((fs.create s.openEnd).write s.openEnd (encRecord (.state s.st)))
      (w.push ((if s.pending.isEmpty then [] else [.write s.openEnd s.pending none]) ++
        [.appendFile s.openEnd s.st.last])) ∧
    chunkBytes s' ((fs.create s.openEnd).write s.openEnd (encRecord (.state s.st)))
      (w.push ((if s.pending.isEmpty then [] else [.write s.openEnd s.pending none]) ++
        [.appendFile s.openEnd s.st.last])) s.openId = chunkBytes s fs w s.openId := by
  -- names
  generalize hN : s.openEnd = newId at *
  generalize hH : encRecord (.state s.st) = head at *
  generalize hfs' : (fs.create newId).write newId head = fs'
  generalize hw' : w.push ((if s.pending.isEmpty then [] else [.write newId s.pending none]) ++
        [.appendFile newId s.st.last]) = w'
  have hlt : s.openId < newId := by rw [← hN]; exact h.openId_lt
  have hpos : 0 < head.length := by rw [← hH]; exact encRecord_length_pos _
  have e1 : s'.openId = newId := by simp [Store.openId, hoff]
  have e2 : s'.openEnd = newId + head.length := by simp [Store.openEnd, hoff, lastOff]
  have hnew_notin : newId ∉ Fs.ids fs := by
    intro hm; have := h.fsLt _ hm; omega
  -- file system
  have hids1 : ∀ i, i ∈ Fs.ids fs → i ∈ Fs.ids fs' := by
    intro i hi; rw [← hfs', Fs.ids_write]; exact Fs.ids_create_mono fs newId hi
  have hids2 : newId ∈ Fs.ids fs' := by
    rw [← hfs', Fs.ids_write]; exact Fs.ids_create_self fs newId
  have hids3 : ∀ i, i ∈ Fs.ids fs' → i ∈ Fs.ids fs ∨ i = newId := by
    intro i hi; rw [← hfs', Fs.ids_write] at hi; exact Fs.ids_create hi
  have hfd_ne : ∀ i, i ≠ newId → fdata fs' i = fdata fs i := by
    intro i hi
    have hi' : ¬ newId = i := fun e => hi e.symm
    rw [← hfs', fdata_write _ _ _ _ (Fs.ids_create_self fs newId), fdata_create_ne fs hi]
    simp [hi']
  have hfd_new : fdata fs' newId = head := by
    rw [← hfs', fdata_write _ _ _ _ (Fs.ids_create_self fs newId), fdata_create_self]
    simp
  -- worker
  have hwpc : w'.pc = w.pc := by rw [← hw']; rfl
  have hwfiles : w'.files = w.files := by rw [← hw']; rfl
  have hinf : ∀ id, w'.inflight id = w.inflight id ++ (if s.openId = id then s.pending else []) := by
    intro id
    rw [← hw']
    by_cases hp : s.pending.isEmpty = true
    · have hp' : s.pending = [] := by simpa using hp
      simp only [hp, if_true, List.nil_append]
      rw [(w.push_appendFile newId s.st.last id).1, hp']
      simp
    · rw [if_neg hp]
      rw [← Worker.push_push]
      rw [((w.push [.write newId s.pending none]).push_appendFile newId s.st.last id).1]
      exact (w.push_write newId s.pending none s.openId h.annLast id).1
  have hann : w'.announced = w.announced ++ [newId] := by
    rw [← hw']
    by_cases hp : s.pending.isEmpty = true
    · simp only [hp, if_true, List.nil_append]
      exact (w.push_appendFile newId s.st.last 0).2
    · rw [if_neg hp]
      rw [← Worker.push_push]
      rw [((w.push [.write newId s.pending none]).push_appendFile newId s.st.last 0).2]
      rw [(w.push_write newId s.pending none s.openId h.annLast 0).2]
  have hnew_notann : newId ∉ w.announced := by
    intro hm; have := h.ann_le _ hm; omega
  have hinf_new : w'.inflight newId = [] := by
    rw [hinf, w.inflight_not_announced newId hnew_notann]
    have : ¬ s.openId = newId := by omega
    simp [this]
  refine ⟨⟨?_, by rw [hst]; exact h.stWF, by rw [hlog]; exact h.logWF, ?_, ?_, ?_, ?_, ?_, ?_, ?_, ?_, ?_⟩, ?_⟩
  · rw [hwpc, hwfiles]; exact h.wok
  · intro i hi
    rw [e2]
    rcases hids3 i hi with h1 | h1
    · have := h.fsLt i h1; omega
    · omega
  · rw [hann, e1]; simp
  · rw [hann]
    exact incr_snoc h.annAsc (fun a ha => by have := h.ann_le a ha; omega)
  · intro a ha
    rw [hann] at ha
    rcases List.mem_append.mp ha with h1 | h1
    · exact hids1 a (h.annFs a h1)
    · simp at h1; subst h1; exact hids2
  · have := h.chained
    simp only [Store.chunks, hclosed, List.map_append, List.map_cons, List.map_nil] at this ⊢
    rw [hoff]
    refine Chained.snoc this ?_
    simp only [List.headD_cons]
    exact hN
  · intro c hc
    rw [hclosed] at hc
    rw [e1]
    rcases List.mem_append.mp hc with h1 | h1
    · have := h.closedLe c h1; omega
    · simp at h1; subst h1
      show lastOff s.openOffsets ≤ newId
      rw [← hN]; exact Nat.le_refl _
  · intro c hc
    rw [hclosed] at hc
    rcases List.mem_append.mp hc with h1 | h1
    · exact hids1 _ (h.closedFs c h1)
    · simp at h1; subst h1
      exact hids1 _ (h.annFs _ h.openId_mem)
  · rw [hoff, e1, hfd_new, hinf_new, hpend]
    simp only [List.append_nil]
    rw [← hH]
    exact ChunkOK.fresh newId h.stWF
  · intro c hc
    rw [hclosed] at hc
    rcases List.mem_append.mp hc with h1 | h1
    · have hlt' := h.closed_lt h1
      rw [hfd_ne c.id (by omega), hinf]
      have : ¬ s.openId = c.id := by omega
      simpa [this] using h.closedBytes c h1
    · simp at h1; subst h1
      show ChunkOK s.openOffsets (fdata fs' s.openId ++ w'.inflight s.openId)
      rw [hfd_ne s.openId (by omega), hinf]
      simpa [List.append_assoc] using h.openBytes
  · simp only [chunkBytes, e1]
    rw [hfd_ne s.openId (by omega), hinf]
    have : ¬ newId = s.openId := by omega
    simp [this]

end RaftLog
