/-
C02: the replay invariant `RInv` under every public call, flush, worker step and
`drain`, and along whole histories from a freshly opened store.
-/
import RaftLogModel.Proofs.Replay
namespace RaftLog

/-! ### Batches -/

theorem appendBatch_R (es : List (LogId × Bytes)) :
    ∀ (s : Store) (r r' : RefLog) (fsHas : Nat → Bool) (seg : Seg) (effs : List Eff) (fs : Fs)
      (w : Worker),
    RInv s (effFs effs fs) (w.push (effQ effs)) r → (∀ i, s.openEnd ≤ i → fsHas i = false) →
    r.appendAll es = .ok r' → (∀ e ∈ es, smallId e.1) → (∀ e ∈ es, e.1.WF ∧ bytesWF e.2) →
    ∃ seg' s' effs', Store.appendBatch fsHas es s seg effs = (.ok seg', s', effs') ∧
      RInv s' (effFs effs' fs) (w.push (effQ effs')) r' := by
  induction es with
  | nil =>
    intro s r r' fsHas seg effs fs w h _ hc _ _
    simp only [RefLog.appendAll] at hc
    injection hc with hc
    subst hc
    exact ⟨seg, s, effs, by simp [Store.appendBatch], h⟩
  | cons e rest ih =>
    obtain ⟨id, p⟩ := e
    intro s r r' fsHas seg effs fs w h hfs hc hsm hwf
    simp only [RefLog.appendAll] at hc
    split at hc
    · rename_i r1 hc1
      have ok := stepOK_append1 h.abs hc1 (hsm (id, p) List.mem_cons_self)
      obtain ⟨s1, e1, heq1, hinv1, hend1, hcr1⟩ :=
        rinv_step fsHas h hfs ok (hwf (id, p) List.mem_cons_self)
      rw [← effFs_append, Worker.push_push, ← effQ_append] at hinv1
      have hfs1 : ∀ i, s1.openEnd ≤ i →
          (fsHas i || e1.any (fun e => e == Eff.create i)) = false := by
        intro i hi
        have h1 : fsHas i = false := hfs i (by omega)
        have h2 : e1.any (fun e => e == Eff.create i) = false := by
          rw [List.any_eq_false]
          intro x hx hxe
          have : x = Eff.create i := by simpa using hxe
          subst this
          have := hcr1 i hx
          omega
        simp [h1, h2]
      obtain ⟨seg2, s2, e2, heq2, hinv2⟩ :=
        ih s1 r1 r' _ ⟨s.openEnd, (encRecord (.append id p)).length⟩ (effs ++ e1) fs w hinv1 hfs1 hc
          (fun e he => hsm e (List.mem_cons_of_mem _ he))
          (fun e he => hwf e (List.mem_cons_of_mem _ he))
      refine ⟨seg2, s2, e2, ?_, hinv2⟩
      have hidxD12 : id.index + 1 ≠ U64 := by
        have : id.index + 1 < U64 := hsm (id, p) List.mem_cons_self
        omega
      rw [appendBatch_cons_small_D12 _ _ _ _ _ _ _ hidxD12]
      rw [heq1]
      simp only
      exact heq2
    · cases hc

/-! ### Every legal accepted call -/

theorem call_R {s : Store} {fs : Fs} {w : Worker} {r r' : RefLog} (fsHas : Nat → Bool) {op : Op}
    (h : RInv s fs w r) (hfs : ∀ i, s.openEnd ≤ i → fsHas i = false)
    (hl : r.legal op = true) (hc : r.call op = .ok r') (hsm : op.small) (hwf : op.WF) :
    ∃ seg s' effs, s.call fsHas op = (.ok seg, s', effs) ∧
      RInv s' (effFs effs fs) (w.push (effQ effs)) r' := by
  have hpu : s.st.purged = r.purged := by rw [h.abs.st]; rfl
  have step : ∀ {rec : Record}, StepOK s r r' rec → rec.WF →
      ∃ seg s' effs, s.appendAndApply fsHas rec = (.ok seg, s', effs) ∧
        RInv s' (effFs effs fs) (w.push (effQ effs)) r' := by
    intro rec ok hw
    obtain ⟨s', effs, heq, hinv, _, _⟩ := rinv_step fsHas h hfs ok hw
    exact ⟨_, s', effs, heq, hinv⟩
  cases op with
  | saveVote v =>
    simp only [RefLog.call] at hc
    split at hc
    · rename_i hcond
      injection hc with hc; subst hc
      exact step (stepOK_plain (rec := .saveVote v) h.abs
        (by simp [RState.apply, RState.updateVote, h.abs.st, RefLog.state, hcond])
        (Or.inl ⟨v, rfl⟩) rfl rfl rfl) hwf
    · cases hc
  | commit id =>
    simp only [RefLog.call] at hc
    split at hc
    · cases hc
    · rename_i hcond
      injection hc with hc; subst hc
      exact step (stepOK_plain (rec := .commit id) h.abs
        (by simp [RState.apply, RState.commit, h.abs.st, RefLog.state, hcond])
        (Or.inr (Or.inl ⟨id, rfl⟩)) rfl rfl rfl) hwf
  | saveUserData d =>
    simp only [RefLog.call] at hc
    injection hc with hc; subst hc
    refine step (stepOK_plain (rec := .state { s.st with userData := d }) h.abs
      (by simp [RState.apply, h.abs.st, RefLog.state])
      (Or.inr (Or.inr ⟨_, rfl, rfl, rfl⟩)) rfl rfl rfl) ?_
    obtain ⟨h1, h2, h3, h4, _⟩ := h.j.stWF
    exact ⟨h1, h2, h3, h4, by cases d <;> simp [Op.WF] at hwf ⊢ <;> exact hwf⟩
  | append es =>
    simp only [Store.call]
    obtain ⟨seg0, hseg⟩ := lastSegment_some h.abs.pf.open2
    rw [hseg]
    simp only
    exact appendBatch_R es s r r' fsHas seg0 [] fs w (by simpa [effFs, effQ] using h) hfs hc hsm hwf
  | truncate idx =>
    simp only [Store.call]
    rw [nextIndexChecked_eq h.abs.pf.purged]
    simp only [hpu]
    rcases RefLog.truncate_arg hc with ⟨h1, h2⟩ | ⟨h1, h2, e, he, h3⟩
    · rw [if_pos h1]
      subst h2
      exact step (stepOK_truncateAfter h.abs (Or.inl rfl) (hpu ▸ h.abs.pf.purged))
        (by rw [← hpu]; exact h.j.stWF.2.2.2.1)
    · rw [if_neg h1, if_neg h2]
      obtain ⟨d, hd, hde, hds⟩ := h.abs.logGet_of_entryAt he
      rw [hd]
      simp only [hde]
      subst h3
      obtain ⟨x, hx, hxd⟩ := logGet_mem hd
      have hidwf : e.1.WF := by rw [← hde, ← hxd]; exact h.j.logWF x hx
      exact step (stepOK_truncateAfter h.abs (Or.inr ⟨e, (RefLog.entryAt_some he).1, rfl⟩)
        (by rw [← hde]; exact hds)) hidwf
  | purge upto =>
    have hidxD12 : upto.index + 1 ≠ U64 := by
      have : upto.index + 1 < U64 := hsm
      omega
    simp only [Store.call, if_neg hidxD12]
    rw [nextIndexChecked_eq h.abs.pf.purged]
    simp only [hpu]
    simp only [RefLog.call] at hc
    by_cases hnn : upto.index < nextIndex r.purged
    · rw [if_pos hnn]
      rw [if_pos hnn] at hc
      injection hc with hc; subst hc
      obtain ⟨seg0, hseg⟩ := lastSegment_some h.abs.pf.open2
      rw [hseg]
      exact ⟨seg0, s, [], rfl, by simpa [effFs, effQ] using h⟩
    · rw [if_neg hnn]
      rw [if_neg hnn] at hc
      injection hc with hc; subst hc
      have ok := stepOK_purgeUpto h.abs hl hnn hsm
      obtain ⟨s', effs, heq, hinv, _, _⟩ := rinv_step fsHas h hfs ok hwf
      rw [heq]
      simp only
      refine ⟨_, _, effs, rfl, ?_⟩
      obtain ⟨pre, hpre⟩ := popObsolete_suffix upto s'.closed
      refine ⟨hinv.j.dropClosed pre rfl rfl rfl rfl hpre, hinv.abs.of_fields rfl rfl rfl, ?_⟩
      refine hinv.rep.pop upto ?_ rfl rfl rfl rfl rfl
      intro e he
      have h1 := hinv.abs.log_above e he
      have h2 : optLe (some upto) s'.st.purged = true := by
        rw [hinv.abs.st]
        simp only [RefLog.state]
        by_cases h3 : optLt r.purged (some upto) = true
        · simp [h3, LogId.le_refl]
        · simp only [h3, Bool.false_eq_true, if_false]
          rw [optLe_iff_not_lt]; simpa using h3
      exact optLt_of_le_of_lt h2 h1

/-! ### Flush -/

theorem flush_bytes {s : Store} {fs : Fs} {w : Worker} (h : JInv s fs w) (cb : Option Nat) (id : Nat) :
    chunkBytes (s.flush cb).1 (effFs (s.flush cb).2 fs) (w.push (effQ (s.flush cb).2)) id
      = chunkBytes s fs w id := by
  have hi := (w.push_write s.openEnd s.pending cb s.openId h.annLast id).1
  have hid : (s.flush cb).1.openId = s.openId := rfl
  have hp : (s.flush cb).1.pending = [] := rfl
  have hfs : effFs (s.flush cb).2 fs = fs := by
    unfold Store.flush
    by_cases hr : s.removed.isEmpty = true <;> simp [hr, effFs]
  have hinf : (w.push (effQ (s.flush cb).2)).inflight id
      = w.inflight id ++ (if s.openId = id then s.pending else []) := by
    unfold Store.flush
    by_cases hr : s.removed.isEmpty = true
    · simp only [hr, if_true, List.append_nil, effQ]
      exact hi
    · simp only [hr, Bool.false_eq_true, if_false, List.cons_append, List.nil_append, effQ]
      have : w.push [WReq.write s.openEnd s.pending cb, WReq.removeChunks s.removed]
          = (w.push [.write s.openEnd s.pending cb]).push [.removeChunks s.removed] := by
        rw [Worker.push_push]; rfl
      rw [this, ((w.push [.write s.openEnd s.pending cb]).push_removeChunks s.removed id).1]
      exact hi
  simp only [chunkBytes, hid, hp, hfs, hinf]
  by_cases hx : s.openId = id <;> simp [hx]

theorem flush_R {s : Store} {fs : Fs} {w : Worker} {r : RefLog} (h : RInv s fs w r) (cb : Option Nat) :
    RInv (s.flush cb).1 (effFs (s.flush cb).2 fs) (w.push (effQ (s.flush cb).2)) r :=
  ⟨flush_J h.j cb, h.abs.of_fields rfl rfl rfl,
    h.rep.transport rfl rfl rfl rfl (flush_bytes h.j cb)⟩

/-! ### Worker steps, settle, cache changes -/

theorem RInv.settle {s : Store} {fs : Fs} {w : Worker} {r : RefLog} (h : RInv s fs w r) :
    RInv s fs w.settle r :=
  ⟨h.j.settle, h.abs, h.rep.transport rfl rfl rfl rfl
    (fun id => by simp only [chunkBytes, Worker.settle_inflight])⟩

theorem RInv.of_cache {s : Store} {fs : Fs} {w : Worker} {r : RefLog} (h : RInv s fs w r)
    (c : Cache) : RInv { s with cache := c } fs w r :=
  ⟨h.j.of_fields rfl rfl rfl rfl rfl, h.abs.of_fields rfl rfl rfl,
    h.rep.transport rfl rfl rfl rfl (fun id => chunkBytes_congr fs w id rfl rfl)⟩

theorem RInv.worker {s : Store} {c c' : WCtx} {r : RefLog} (h : RInv s c.fs c.w r)
    (g : StepGood c c') (hids : Fs.ids c'.fs = Fs.ids c.fs) : RInv s c'.fs c'.w r :=
  ⟨h.j.worker g hids, h.abs, h.rep.transport rfl rfl rfl rfl
    (fun id => by simp only [chunkBytes]; rw [g.bytes])⟩

/-! ### System level -/

/-- **The replay invariant of a system** with a live store and worker, relative
to the reference log `r`. -/
def RSys (y : Sys) (r : RefLog) : Prop :=
  ∃ s, y.store = some s ∧ y.worker.pc ≠ .dead ∧ RInv s y.fs y.worker r

theorem RSys.J {y : Sys} {r : RefLog} (h : RSys y r) : J y := by
  obtain ⟨s, hs, hd, hi⟩ := h
  exact ⟨s, hs, hd, hi.j⟩

theorem RSys.call {y : Sys} {r r' : RefLog} (h : RSys y r) {op : Op}
    (hl : r.legal op = true) (hc : r.call op = .ok r') (hsm : op.small) (hwf : op.WF) :
    RSys (y.call op).2.1 r' ∧ ∃ seg, (y.call op).1 = .ok seg := by
  obtain ⟨s, hs, hd, hi⟩ := h
  have hfs := Fs.has_false_of_lt hi.j.fsLt
  obtain ⟨seg, s', effs, heq, hinv⟩ := call_R y.fs.has hi hfs hl hc hsm hwf
  obtain ⟨e1, e2⟩ := Sys.call_eq y op s hs hd
  rw [e1, e2, heq]
  exact ⟨⟨s', rfl, (Worker.settle_facts _).2.2.2.2 hd, hinv.settle⟩, seg, rfl⟩

theorem RSys.flush {y : Sys} {r : RefLog} (h : RSys y r) (cb : Option Nat) :
    RSys (y.flush cb).2.1 r := by
  obtain ⟨s, hs, hd, hi⟩ := h
  rw [Sys.flush_eq y cb s hs hd]
  exact ⟨_, rfl, (Worker.settle_facts _).2.2.2.2 hd, (flush_R hi cb).settle⟩

theorem RSys.worker {y : Sys} {r : RefLog} (h : RSys y r) (out : Outcome)
    (hnd : (y.workerStep out).1.worker.pc ≠ .dead) : RSys (y.workerStep out).1 r := by
  obtain ⟨s, hs, hd, hi⟩ := h
  simp only [Sys.workerStep, hs] at hnd ⊢
  have g := WCtx.step_good { w := y.worker, fs := y.fs, cache := s.cache } out hi.j.wok
    (hi.j.annFs _ (by simp [Worker.announced])) hnd
  have hids := WCtx.step_ids { w := y.worker, fs := y.fs, cache := s.cache } out
  have := RInv.worker (c := { w := y.worker, fs := y.fs, cache := s.cache }) hi g hids
  exact ⟨_, rfl, hnd, this.of_cache _⟩

theorem RSys.workerIdle {y : Sys} {r : RefLog} (h : RSys y r)
    (hnd : y.workerIdle.1.worker.pc ≠ .dead) : RSys y.workerIdle.1 r := by
  obtain ⟨s, hs, hd, hi⟩ := h
  simp only [Sys.workerIdle, hs] at hnd ⊢
  have g := WCtx.runQuiet_good y.worker.fuel { w := y.worker, fs := y.fs, cache := s.cache }
    hi.j.wok hi.j.annFs hnd
  have hids := WCtx.runQuiet_ids y.worker.fuel { w := y.worker, fs := y.fs, cache := s.cache }
  have := RInv.worker (c := { w := y.worker, fs := y.fs, cache := s.cache }) hi g hids
  exact ⟨_, rfl, hnd, this.of_cache _⟩

theorem RSys.drain {y : Sys} {r : RefLog} (h : RSys y r) : RSys y.drain r := by
  obtain ⟨s, hs, hd, hi⟩ := h
  simp only [Sys.drain, hs]
  exact ⟨_, rfl, hd, hi.of_cache _⟩

/-! ### The freshly opened store -/

theorem fresh_RSys (cfg : Cfg) : RSys (Sys.fresh cfg) {} := by
  obtain ⟨s, hs, hd, hj⟩ := fresh_J cfg
  have hshape : ∃ s, (Sys.fresh cfg).store = some s ∧ s.st = {} ∧ s.log = [] ∧ s.closed = [] ∧ s.pending = [] ∧
      s.openOffsets = [0, 0 + (encRecord (.state {})).length] ∧
      (Sys.fresh cfg).fs = [{ id := 0, data := encRecord (.state {}) }] ∧
      (Sys.fresh cfg).worker = { files := [⟨0, none⟩] } := by
    simp [Sys.fresh, Sys.open, openStore, Fs.linkedIds, openLoop, emptyStore, Fs.has, Fs.find,
      Fs.create, Fs.write, Fs.update]
  obtain ⟨s0, hs0, h1, h2, h3, h4, h5, h6, h7⟩ := hshape
  rw [hs] at hs0; cases hs0
  have hid : s.openId = 0 := by simp [Store.openId, h5]
  have hinf : ∀ id, (Sys.fresh cfg).worker.inflight id = [] := by
    intro id
    rw [h7]; simp [Worker.inflight, infl, Worker.rest, WPc.inHand, WPc.todoBytes, inflightFrom]
  have hfd : fdata (Sys.fresh cfg).fs 0 = encRecord (.state {}) := by
    rw [h6]; simp [fdata, Fs.find]
  have hwf : ({} : RState).WF := ⟨trivial, trivial, trivial, trivial, trivial⟩
  refine ⟨s, hs, hd, hj, ⟨by rw [h1]; rfl, by rw [h2]; rfl, RefLog.wf_empty,
    ⟨by rw [h5]; simp, by rw [h1]; trivial, by rw [h1]; trivial, by rw [h2]; intro e he; cases he⟩⟩,
    [], [.state {}], ⟨by rw [h3]; rfl, (by intro p hp; cases hp), ?_, ?_⟩, ?_, ?_⟩
  · have : chunkBytes s (Sys.fresh cfg).fs (Sys.fresh cfg).worker s.openId = encRecord (.state {}) := by
      simp only [chunkBytes, hid, hfd, hinf, h4, if_true, List.append_nil]
    rw [this, h5]
    simpa using ChunkRecs.fresh 0 hwf
  · exact ⟨{}, [], ⟨rfl, rfl⟩, by rw [h1]; simp [stRun, RState.apply],
      by rw [h2]; simp [chunkOps, opsFrom, idxRun, idxLogO], fun hne => absurd rfl hne⟩
  · intro e he
    rw [h2] at he; cases he
  · intro hd tl hall x _
    simp only [allOps, flatOps, chunkOps, opsFrom, List.nil_append, List.cons.injEq] at hall
    rw [← hall.2]; trivial

/-! ### Histories -/

theorem RSys.step {y : Sys} {r r' : RefLog} (h : RSys y r) (st : Step) (hst : st.journal = true)
    (hr : r.run (stepOps [st]) = some r') (hwf : ∀ op, st = .call op → op.WF ∧ op.small)
    (hnd : (y.step st).worker.pc ≠ .dead) : RSys (y.step st) r' := by
  cases st with
  | drop => cases hst
  | openWith c => cases hst
  | drain =>
    simp only [stepOps, RefLog.run, Option.some.injEq] at hr; subst hr
    exact h.drain
  | flush cb =>
    simp only [stepOps, RefLog.run, Option.some.injEq] at hr; subst hr
    exact h.flush cb
  | worker out =>
    simp only [stepOps, RefLog.run, Option.some.injEq] at hr; subst hr
    exact h.worker out hnd
  | workerIdle =>
    simp only [stepOps, RefLog.run, Option.some.injEq] at hr; subst hr
    exact h.workerIdle hnd
  | call op =>
    simp only [stepOps, RefLog.run] at hr
    split at hr
    · rename_i hl
      split at hr
      · rename_i r1 hc
        simp only [Option.some.injEq] at hr; subst hr
        exact (h.call hl hc (hwf op rfl).2 (hwf op rfl).1).1
      · cases hr
    · cases hr

theorem stepOps_cons (st : Step) (rest : List Step) :
    stepOps (st :: rest) = stepOps [st] ++ stepOps rest := by
  cases st <;> simp [stepOps]

theorem RefLog.run_append (r : RefLog) (a b : List Op) :
    r.run (a ++ b) = (r.run a).bind (fun r1 => r1.run b) := by
  induction a generalizing r with
  | nil => rfl
  | cons op rest ih =>
    simp only [List.cons_append, RefLog.run]
    split
    · split
      · exact ih _
      · rfl
    · rfl

/-- **The replay invariant along histories.** Calls legal and accepted by the
reference log, well-formed and small; the worker alive at the end. -/
theorem run_RSys (steps : List Step) : ∀ (y : Sys) (r r' : RefLog), RSys y r →
    (∀ st ∈ steps, st.journal = true) → r.run (stepOps steps) = some r' →
    (∀ op ∈ stepOps steps, op.WF ∧ op.small) → (y.run steps).worker.pc ≠ .dead →
    RSys (y.run steps) r' := by
  induction steps with
  | nil =>
    intro y r r' h _ hr _ _
    simp only [stepOps, RefLog.run, Option.some.injEq] at hr; subst hr
    exact h
  | cons st rest ih =>
    intro y r r' h hst hr hwf hnd
    simp only [Sys.run, List.foldl_cons] at hnd ⊢
    have hrest : ∀ s ∈ rest, s.journal = true := fun s hs => hst s (List.mem_cons_of_mem _ hs)
    have hnd1 : (y.step st).worker.pc ≠ .dead := by
      intro hdead
      exact hnd (Sys.run_dead rest _ hrest hdead)
    rw [stepOps_cons, RefLog.run_append] at hr
    cases hr1 : r.run (stepOps [st]) with
    | none => rw [hr1] at hr; cases hr
    | some r1 =>
      rw [hr1] at hr
      simp only [Option.bind_some] at hr
      have hwf1 : ∀ op, st = .call op → op.WF ∧ op.small := by
        intro op e; subst e; exact hwf op (by simp [stepOps])
      have hwf2 : ∀ op ∈ stepOps rest, op.WF ∧ op.small := by
        intro op hop
        apply hwf op
        rw [stepOps_cons]; exact List.mem_append_right _ hop
      exact ih (y.step st) r1 r' (h.step st (hst st List.mem_cons_self) hr1 hwf1 hnd1) hrest hr hwf2 hnd

end RaftLog
