/-
Journal invariant: every caller-thread call, flush, worker step, and whole
histories from a freshly opened store.
-/
import RaftLogModel.Proofs.JournalStore
namespace RaftLog

/-! ### `tryCloseFull`, `appendAndApply` -/

theorem tryCloseFull_J {s s' : Store} {fs : Fs} {w : Worker} {fsHas : Nat → Bool} {effs : List Eff}
    (h : JInv s fs w) (heq : s.tryCloseFull fsHas = (.ok (), s', effs)) :
    JInv s' (effFs effs fs) (w.push (effQ effs)) ∧
    chunkBytes s' (effFs effs fs) (w.push (effQ effs)) s.openId = chunkBytes s fs w s.openId := by
  unfold Store.tryCloseFull at heq
  by_cases hf : s.isOpenFull = true
  · by_cases he : fsHas s.openEnd = true
    · simp [hf, he] at heq
    · simp only [hf, he, Bool.not_true, Bool.false_eq_true, if_false, Prod.mk.injEq, true_and] at heq
      obtain ⟨rfl, rfl⟩ := heq
      have e1 : effFs ([Eff.create s.openEnd, Eff.writeHead s.openEnd (encRecord (.state s.st))] ++
          (if s.pending.isEmpty then [] else [Eff.send (.write s.openEnd s.pending none)]) ++
          [Eff.send (.appendFile s.openEnd s.st.last)]) fs
          = (fs.create s.openEnd).write s.openEnd (encRecord (.state s.st)) := by
        by_cases hp : s.pending.isEmpty = true <;> simp [effFs, hp]
      have e2 : effQ ([Eff.create s.openEnd, Eff.writeHead s.openEnd (encRecord (.state s.st))] ++
          (if s.pending.isEmpty then [] else [Eff.send (.write s.openEnd s.pending none)]) ++
          [Eff.send (.appendFile s.openEnd s.st.last)])
          = (if s.pending.isEmpty then [] else [.write s.openEnd s.pending none]) ++
            [.appendFile s.openEnd s.st.last] := by
        by_cases hp : s.pending.isEmpty = true <;> simp [effQ, hp]
      rw [e1, e2]
      exact h.rotate rfl rfl rfl rfl rfl
  · simp only [hf, Bool.not_false, if_true, Prod.mk.injEq, true_and] at heq
    obtain ⟨rfl, rfl⟩ := heq
    simp only [effFs, effQ, Worker.push_nil]
    refine ⟨h, ?_⟩
    first | rfl | trivial

theorem apply_ne_exists {st : RState} {r : Record} (h : st.apply r = .err .exists) : False := by
  cases r with
  | saveVote v => simp only [RState.apply, RState.updateVote] at h; split at h <;> cases h
  | commit id => simp only [RState.apply, RState.commit] at h; split at h <;> cases h
  | truncateAfter o => cases h
  | purgeUpto id => cases h
  | state x => cases h
  | append id p =>
    simp only [RState.apply, RState.append] at h
    split at h
    · cases h
    · split at h
      · cases h
      · split at h
        · cases h
        · split at h <;> cases h

/-- Everything the invariant needs to know about `append_and_apply`. -/
structure AAGood (s : Store) (fs : Fs) (w : Worker) (r : Record) (res : Res Seg × Store × List Eff) : Prop where
  inv : JInv res.2.1 (effFs res.2.2 fs) (w.push (effQ res.2.2))
  openEnd : s.openEnd ≤ res.2.1.openEnd
  creates : ∀ i, Eff.create i ∈ res.2.2 → s.openEnd ≤ i ∧ i < res.2.1.openEnd
  seg : ∀ seg, res.1 = .ok seg → seg = ⟨s.openEnd, (encRecord r).length⟩ ∧
    chunkBytes res.2.1 (effFs res.2.2 fs) (w.push (effQ res.2.2)) s.openId
      = chunkBytes s fs w s.openId ++ encRecord r
  notExists : res.1 ≠ .err .exists
  rejected : ∀ k, res.1 = .err k → res.2.1 = s ∧ res.2.2 = []

theorem appendAndApply_J {s : Store} {fs : Fs} {w : Worker} (fsHas : Nat → Bool) {r : Record}
    (h : JInv s fs w) (hr : r.WF) (hfs : ∀ i, s.openEnd ≤ i → fsHas i = false) :
    AAGood s fs w r (s.appendAndApply fsHas r) := by
  generalize hres : s.appendAndApply fsHas r = res
  unfold Store.appendAndApply at hres
  split at hres
  · rename_i k hk
    subst hres
    have hne : (Res.err k : Res Seg) ≠ .err .exists := by
      intro e; injection e with e; subst e; exact apply_ne_exists hk
    exact ⟨by simpa [effFs, effQ] using h, Nat.le_refl _, (by intro i hi; cases hi),
      (by intro seg hs; cases hs), hne, fun _ _ => ⟨rfl, rfl⟩⟩
  · subst hres
    exact ⟨by simpa [effFs, effQ] using h, Nat.le_refl _, (by intro i hi; cases hi),
      (by intro seg hs; cases hs), (by intro e; cases e), (by intro k e; cases e)⟩
  · rename_i st' hst
    simp only at hres
    have hstWF : st'.WF := apply_wf h.stWF hr hst
    split at hres
    · subst hres
      obtain ⟨hj, e1, e2, _⟩ := h.journal (s3 := ({ s with pending := s.pending ++ encRecord r, openOffsets := s.openOffsets ++ [s.openEnd + (encRecord r).length] } : Store)) hr h.stWF h.logWF rfl rfl rfl
      exact ⟨by simpa [effFs, effQ] using hj, by rw [e2]; omega, (by intro i hi; cases hi),
        (by intro seg hs; cases hs), (by intro e; cases e), (by intro k e; cases e)⟩
    · rename_i s2 hs2
      obtain ⟨hlog2, f1, f2, f3, f4⟩ := applyIndex_fields (s := ({ s with pending := s.pending ++ encRecord r, openOffsets := s.openOffsets ++ [s.openEnd + (encRecord r).length] } : Store)) hr h.logWF hs2
      obtain ⟨hj, e1, e2, e3⟩ := h.journal (s3 := ({ s2 with st := st' } : Store)) (r := r) hr hstWF hlog2
        (by rw [f2]) (by rw [f3]) (by rw [f4])
      have hfs3 : fsHas ({ s2 with st := st' } : Store).openEnd = false := hfs _ (by rw [e2]; omega)
      obtain ⟨s4, effs, heq, _, _, _, g4, g5⟩ := tryCloseFull_ok ({ s2 with st := st' } : Store) fsHas hfs3
      rw [heq] at hres
      simp only at hres
      subst hres
      obtain ⟨hj4, hcb⟩ := tryCloseFull_J hj heq
      rw [e1] at hcb
      refine ⟨hj4, by rw [e2] at g4; exact Nat.le_trans (Nat.le_add_right _ _) g4, ?_, ?_, (by intro e; cases e),
        (by intro k e; cases e)⟩
      · intro i hi
        have := g5 i hi
        rw [e2] at this
        show s.openEnd ≤ i ∧ i < s4.openEnd
        omega
      · intro seg hs
        injection hs with hs
        exact ⟨hs.symm, by rw [hcb, e3]⟩

/-! ### Batches -/

/-- What a store-level call guarantees: the invariant on the state after its
effects, and it did not fail on `create_new`. -/
structure CallGood (fs : Fs) (w : Worker) (res : Res Seg × Store × List Eff) : Prop where
  inv : JInv res.2.1 (effFs res.2.2 fs) (w.push (effQ res.2.2))
  notExists : res.1 ≠ .err .exists

theorem AAGood.callGood {s : Store} {fs : Fs} {w : Worker} {r : Record} {res : Res Seg × Store × List Eff}
    (g : AAGood s fs w r res) : CallGood fs w res := ⟨g.inv, g.notExists⟩

theorem appendBatch_J (es : List (LogId × Bytes)) :
    ∀ (fsHas : Nat → Bool) (s : Store) (seg : Seg) (effs : List Eff) (fs : Fs) (w : Worker),
    JInv s (effFs effs fs) (w.push (effQ effs)) → (∀ e ∈ es, e.1.WF ∧ bytesWF e.2) →
    (∀ i, s.openEnd ≤ i → fsHas i = false) →
    CallGood fs w (Store.appendBatch fsHas es s seg effs) := by
  induction es with
  | nil => intro fsHas s seg effs fs w h _ _; exact ⟨h, by intro e; cases e⟩
  | cons e rest ih =>
    intro fsHas s seg effs fs w h hes hfs
    obtain ⟨id, p⟩ := e
    have hr : (Record.append id p).WF := hes (id, p) List.mem_cons_self
    have g := appendAndApply_J fsHas h hr hfs
    by_cases hidx : id.index + 1 = U64
    · rw [appendBatch_cons_refused_D12 _ _ _ _ _ _ _ hidx]
      exact ⟨h, by intro e; cases e⟩
    rw [appendBatch_cons_small_D12 _ _ _ _ _ _ _ hidx]
    rcases hres : s.appendAndApply fsHas (.append id p) with ⟨res, s', e'⟩
    rw [hres] at g
    have ginv := g.inv
    have gne := g.notExists
    simp only at ginv gne
    rw [← effFs_append, Worker.push_push, ← effQ_append] at ginv
    cases res with
    | ok seg' =>
      simp only
      refine ih _ s' seg' _ fs w ginv (fun e he => hes e (List.mem_cons_of_mem _ he)) ?_
      intro i hi
      have h1 := g.openEnd
      simp only [Bool.or_eq_false_iff]
      refine ⟨hfs i (by simp only at h1; omega), ?_⟩
      rw [List.any_eq_false]
      intro x hx hxe
      have : x = Eff.create i := by simpa using hxe
      subst this
      have := (g.creates i hx).2
      simp only at this
      omega
    | err k => exact ⟨ginv, gne⟩
    | panic m => exact ⟨ginv, by intro e; cases e⟩

/-! ### Every public write call -/

theorem popObsolete_suffix (upto : LogId) (l : List Closed) : ∃ pre, l = pre ++ (popObsolete upto l).2 := by
  induction l with
  | nil => exact ⟨[], rfl⟩
  | cons c rest ih =>
    unfold popObsolete
    split
    · exact ⟨[], rfl⟩
    · obtain ⟨pre, hpre⟩ := ih
      exact ⟨c :: pre, by simp only [List.cons_append]; rw [← hpre]⟩

theorem call_J {s : Store} {fs : Fs} {w : Worker} (fsHas : Nat → Bool) (op : Op)
    (h : JInv s fs w) (hop : op.WF) (hfs : ∀ i, s.openEnd ≤ i → fsHas i = false) :
    CallGood fs w (s.call fsHas op) := by
  have same : ∀ (x : Res Seg), x ≠ .err .exists → CallGood fs w (x, s, []) := by
    intro x hx; exact ⟨by simpa [effFs, effQ] using h, hx⟩
  cases op with
  | saveVote v => exact (appendAndApply_J fsHas h (r := .saveVote v) hop hfs).callGood
  | commit id => exact (appendAndApply_J fsHas h (r := .commit id) hop hfs).callGood
  | saveUserData d =>
    refine (appendAndApply_J fsHas h (r := .state { s.st with userData := d }) ?_ hfs).callGood
    obtain ⟨h1, h2, h3, h4, _⟩ := h.stWF
    exact ⟨h1, h2, h3, h4, by cases d <;> simp [Op.WF] at hop ⊢ <;> exact hop⟩
  | append es =>
    simp only [Store.call]
    split
    · exact same _ (by intro e; cases e)
    · exact appendBatch_J es fsHas s _ [] fs w (by simpa [effFs, effQ] using h) hop hfs
  | truncate idx =>
    simp only [Store.call]
    split
    · exact same _ (by intro e; cases e)
    · split
      · exact (appendAndApply_J fsHas h (r := .truncateAfter s.st.purged) h.stWF.2.2.2.1 hfs).callGood
      · split
        · exact same _ (by intro e; cases e)
        · split
          · exact same _ (by intro e; cases e)
          · rename_i d hd
            obtain ⟨e, he, hed⟩ := logGet_mem hd
            have hwf : d.id.WF := by rw [← hed]; exact h.logWF e he
            exact (appendAndApply_J fsHas h (r := .truncateAfter (some d.id)) hwf hfs).callGood
  | purge upto =>
    simp only [Store.call]
    split
    · exact same _ (by intro e; cases e)
    split
    · exact same _ (by intro e; cases e)
    · split
      · split
        · exact same _ (by intro e; cases e)
        · exact same _ (by intro e; cases e)
      · have g := appendAndApply_J fsHas h (r := .purgeUpto upto) hop hfs
        split
        · rename_i seg s' effs heq
          rw [heq] at g
          obtain ⟨pre, hpre⟩ := popObsolete_suffix upto s'.closed
          exact ⟨g.inv.dropClosed pre rfl rfl rfl rfl hpre, by intro e; cases e⟩
        · exact g.callGood

/-! ### System level -/

theorem JInv.settle {s : Store} {fs : Fs} {w : Worker} (h : JInv s fs w) : JInv s fs w.settle := by
  have hi := w.settle_inflight
  have ha := w.settle_announced
  obtain ⟨_, _, _, hok, _⟩ := w.settle_facts
  exact ⟨hok h.wok, h.stWF, h.logWF, h.fsLt, by rw [ha]; exact h.annLast, by rw [ha]; exact h.annAsc,
    by rw [ha]; exact h.annFs, h.chained, h.closedLe, h.closedFs, by rw [hi]; exact h.openBytes,
    fun c hc => by rw [hi]; exact h.closedBytes c hc⟩

theorem Sys.call_eq (y : Sys) (op : Op) (s : Store) (hs : y.store = some s) (hd : y.worker.pc ≠ .dead) :
    (y.call op).2.1 = { y with store := some (s.call y.fs.has op).2.1,
                               fs := effFs (s.call y.fs.has op).2.2 y.fs,
                               worker := (y.worker.push (effQ (s.call y.fs.has op).2.2)).settle } ∧
    (y.call op).1 = (s.call y.fs.has op).1 := by
  obtain ⟨l1, l2, l3⟩ := applyEffs_live (s.call y.fs.has op).2.2 y.fs y.worker [] hd
  simp [Sys.call, hs, l1, l2, l3]

/-- (B) `.call op`: accepted, rejected or panicking, the invariant is kept. A
failure with `exists` cannot happen (see `Sys.call_not_exists`). -/
theorem J.call {y : Sys} (h : J y) (op : Op) (hop : op.WF) : J (y.call op).2.1 := by
  obtain ⟨s, hs, hd, hj⟩ := h
  have hfs := Fs.has_false_of_lt hj.fsLt
  rw [(Sys.call_eq y op s hs hd).1]
  exact ⟨_, rfl, (Worker.settle_facts _).2.2.2.2 hd, (call_J y.fs.has op hj hop hfs).inv.settle⟩

theorem Sys.flush_eq (y : Sys) (cb : Option Nat) (s : Store) (hs : y.store = some s) (hd : y.worker.pc ≠ .dead) :
    (y.flush cb).2.1 = { y with store := some (s.flush cb).1,
                                fs := effFs (s.flush cb).2 y.fs,
                                worker := (y.worker.push (effQ (s.flush cb).2)).settle } := by
  obtain ⟨l1, l2, l3⟩ := applyEffs_live (s.flush cb).2 y.fs y.worker [] hd
  simp [Sys.flush, hs, l1, l2, l3]

theorem flush_J {s : Store} {fs : Fs} {w : Worker} (h : JInv s fs w) (cb : Option Nat) :
    JInv (s.flush cb).1 (effFs (s.flush cb).2 fs) (w.push (effQ (s.flush cb).2)) := by
  have h1 := h.push_pending (s2 := (s.flush cb).1) s.openEnd cb rfl rfl rfl rfl rfl
  unfold Store.flush
  by_cases hr : s.removed.isEmpty = true
  · simpa [hr, effFs, effQ, Store.flush] using h1
  · have h2 := h1.push_removeChunks s.removed
    rw [Worker.push_push] at h2
    simpa [hr, effFs, effQ, Store.flush] using h2

/-- (B) `.flush cb`. -/
theorem J.flush {y : Sys} (h : J y) (cb : Option Nat) : J (y.flush cb).2.1 := by
  obtain ⟨s, hs, hd, hj⟩ := h
  rw [Sys.flush_eq y cb s hs hd]
  exact ⟨_, rfl, (Worker.settle_facts _).2.2.2.2 hd, (flush_J hj cb).settle⟩

/-- The invariant over a worker transition that is `StepGood`. -/
theorem JInv.worker {s : Store} {c c' : WCtx} (h : JInv s c.fs c.w) (g : StepGood c c')
    (hids : Fs.ids c'.fs = Fs.ids c.fs) : JInv s c'.fs c'.w := by
  have hsub : ∀ a ∈ c'.w.announced, a ∈ c.w.announced := fun a ha => g.ann.subset ha
  have hlast : c'.w.announced.getLast? = c.w.announced.getLast? := (suffix_getLast? g.ann).symm
  refine ⟨g.wok, h.stWF, h.logWF, by rw [hids]; exact h.fsLt, by rw [hlast]; exact h.annLast,
    h.annAsc.sublist g.ann.sublist, fun a ha => by rw [hids]; exact h.annFs a (hsub a ha),
    h.chained, h.closedLe, by rw [hids]; exact h.closedFs, by rw [g.bytes]; exact h.openBytes,
    fun c0 hc => by rw [g.bytes]; exact h.closedBytes c0 hc⟩

theorem StepGood.refl (c : WCtx) (h : c.w.pc.ok c.w.files) : StepGood c c :=
  ⟨h, fun _ => rfl, List.suffix_refl _⟩

theorem StepGood.trans {a b c : WCtx} (h1 : StepGood a b) (h2 : StepGood b c) : StepGood a c :=
  ⟨h2.wok, fun id => (h2.bytes id).trans (h1.bytes id), h2.ann.trans h1.ann⟩

/-- (B) `.worker out`, any outcome, as long as the worker survives the step. -/
theorem J.worker {y : Sys} (h : J y) (out : Outcome) (hnd : (y.workerStep out).1.worker.pc ≠ .dead) :
    J (y.workerStep out).1 := by
  obtain ⟨s, hs, hd, hj⟩ := h
  simp only [Sys.workerStep, hs] at hnd ⊢
  have g := WCtx.step_good { w := y.worker, fs := y.fs, cache := s.cache } out hj.wok
    (hj.annFs _ (by simp [Worker.announced])) hnd
  have hids := WCtx.step_ids { w := y.worker, fs := y.fs, cache := s.cache } out
  have := JInv.worker (c := { w := y.worker, fs := y.fs, cache := s.cache }) hj g hids
  exact ⟨_, rfl, hnd, this.of_fields rfl rfl rfl rfl rfl⟩

theorem WCtx.step_dead (c : WCtx) (out : Outcome) (h : c.w.pc = .dead) : c.step out = c := by
  simp [WCtx.step, h]

theorem WCtx.runQuiet_dead (n : Nat) (c : WCtx) (h : c.w.pc = .dead) : WCtx.runQuiet n c = c := by
  cases n with
  | zero => rfl
  | succ n => simp [WCtx.runQuiet, Worker.quiet, h]

theorem WCtx.runQuiet_good (n : Nat) : ∀ (c : WCtx), c.w.pc.ok c.w.files →
    (∀ a ∈ c.w.announced, a ∈ Fs.ids c.fs) → (WCtx.runQuiet n c).w.pc ≠ .dead →
    StepGood c (WCtx.runQuiet n c) := by
  induction n with
  | zero => intro c h _ _; exact StepGood.refl c h
  | succ n ih =>
    intro c hok hann hnd
    unfold WCtx.runQuiet at hnd ⊢
    split
    · exact StepGood.refl c hok
    · rename_i hq
      simp only [hq] at hnd
      have hnd1 : (c.step .ok).w.pc ≠ .dead := by
        intro hdead
        rw [WCtx.runQuiet_dead n _ hdead] at hnd
        exact hnd hdead
      have g := WCtx.step_good c .ok hok (hann _ (by simp [Worker.announced])) hnd1
      have hids := WCtx.step_ids c .ok
      exact g.trans (ih _ g.wok (fun a ha => by rw [hids]; exact hann a (g.ann.subset ha)) hnd)

/-- (B) `.workerIdle`. -/
theorem J.workerIdle {y : Sys} (h : J y) (hnd : y.workerIdle.1.worker.pc ≠ .dead) : J y.workerIdle.1 := by
  obtain ⟨s, hs, hd, hj⟩ := h
  simp only [Sys.workerIdle, hs] at hnd ⊢
  have g := WCtx.runQuiet_good y.worker.fuel { w := y.worker, fs := y.fs, cache := s.cache } hj.wok hj.annFs hnd
  have hids := WCtx.runQuiet_ids y.worker.fuel { w := y.worker, fs := y.fs, cache := s.cache }
  have := JInv.worker (c := { w := y.worker, fs := y.fs, cache := s.cache }) hj g hids
  exact ⟨_, rfl, hnd, this.of_fields rfl rfl rfl rfl rfl⟩

/-- (B) `.drain`. -/
theorem J.drain {y : Sys} (h : J y) : J y.drain := by
  obtain ⟨s, hs, hd, hj⟩ := h
  simp only [Sys.drain, hs]
  exact ⟨_, rfl, hd, hj.of_fields rfl rfl rfl rfl rfl⟩

/-! ### (A) the freshly opened store -/

theorem fresh_J (cfg : Cfg) : J (Sys.fresh cfg) := by
  have hshape : ∃ s, (Sys.fresh cfg).store = some s ∧ s.st = {} ∧ s.log = [] ∧ s.closed = [] ∧ s.pending = [] ∧
      s.openOffsets = [0, 0 + (encRecord (.state {})).length] ∧
      (Sys.fresh cfg).fs = [{ id := 0, data := encRecord (.state {}) }] ∧
      (Sys.fresh cfg).worker = { files := [⟨0, none⟩] } := by
    simp [Sys.fresh, Sys.open, openStore, Fs.linkedIds, openLoop, emptyStore, Fs.has, Fs.find,
      Fs.create, Fs.write, Fs.update]
  obtain ⟨s, hs, h1, h2, h3, h4, h5, h6, h7⟩ := hshape
  have hwf : ({} : RState).WF := ⟨trivial, trivial, trivial, trivial, trivial⟩
  have hpos := encRecord_length_pos (.state {})
  have hid : s.openId = 0 := by simp [Store.openId, h5]
  have hend : s.openEnd = (encRecord (.state {})).length := by simp [Store.openEnd, h5, lastOff]
  have hann : (Sys.fresh cfg).worker.announced = [0] := by
    rw [h7]; simp [Worker.announced, Worker.cur, newestId, Worker.rest, WPc.inHand, annIds]
  have hinf : ∀ id, (Sys.fresh cfg).worker.inflight id = [] := by
    intro id
    rw [h7]; simp [Worker.inflight, infl, Worker.rest, WPc.inHand, WPc.todoBytes, inflightFrom]
  have hfd : fdata (Sys.fresh cfg).fs 0 = encRecord (.state {}) := by
    rw [h6]; simp [fdata, Fs.find]
  have hids : Fs.ids (Sys.fresh cfg).fs = [0] := by rw [h6]; simp [Fs.ids]
  refine ⟨s, hs, by rw [h7]; simp, ?_⟩
  refine ⟨by rw [h7]; trivial, by rw [h1]; exact hwf, (by rw [h2]; intro e he; cases he), ?_,
    by rw [hann, hid]; rfl, by rw [hann]; simp [Incr], by rw [hann, hids]; simp, ?_,
    (by rw [h3]; intro c hc; cases hc), (by rw [h3]; intro c hc; cases hc), ?_,
    (by rw [h3]; intro c hc; cases hc)⟩
  · intro i hi
    rw [hids] at hi
    simp at hi; subst hi
    rw [hend]; exact hpos
  · simp [Store.chunks, h3, Chained]
  · rw [hid, hfd, hinf, h4, h5]
    simpa using ChunkOK.fresh 0 hwf

/-- A call never fails on `create_new` ("exists"): no file sits at or beyond
the journal end, so the rotation target is always free. -/
theorem J.call_not_exists {y : Sys} (h : J y) (op : Op) (hop : op.WF) : (y.call op).1 ≠ .err .exists := by
  obtain ⟨s, hs, hd, hj⟩ := h
  rw [(Sys.call_eq y op s hs hd).2]
  exact (call_J y.fs.has op hj hop (Fs.has_false_of_lt hj.fsLt)).notExists

/-! ### Histories -/

/-- The steps the invariant is claimed for. -/
def Step.journal : Step → Bool
  | .call _ => true
  | .flush _ => true
  | .worker _ => true
  | .workerIdle => true
  | .drain => true
  | _ => false

theorem applyEffs_pc (effs : List Eff) : ∀ (fs : Fs) (w : Worker) (evs : List Ev),
    (applyEffs effs fs w evs).2.2.1.pc = w.pc := by
  induction effs with
  | nil => intro fs w evs; rfl
  | cons e rest ih =>
    intro fs w evs
    cases e with
    | create id => simp only [applyEffs]; exact ih _ _ _
    | createFailed id => simp only [applyEffs]; exact ih _ _ _
    | writeHead id bs => simp only [applyEffs]; exact ih _ _ _
    | send r =>
      simp only [applyEffs]
      split
      · rfl
      · exact ih _ _ _

theorem Worker.settle_dead (w : Worker) (h : w.pc = .dead) : w.settle.pc = .dead := by
  unfold Worker.settle
  split
  · rename_i hpc _; rw [h] at hpc; cases hpc
  · exact h

/-- A dead worker stays dead under the steps considered. -/
theorem Sys.step_dead (y : Sys) (st : Step) (hst : st.journal = true) (h : y.worker.pc = .dead) :
    (y.step st).worker.pc = .dead := by
  cases st with
  | drop => cases hst
  | openWith c => cases hst
  | drain =>
    simp only [Sys.step, Sys.drain]
    cases y.store <;> exact h
  | call op =>
    simp only [Sys.step, Sys.call]
    cases hs : y.store with
    | none => exact h
    | some s =>
      simp only
      exact Worker.settle_dead _ (by rw [applyEffs_pc]; exact h)
  | flush cb =>
    simp only [Sys.step, Sys.flush]
    cases hs : y.store with
    | none => exact h
    | some s =>
      simp only
      exact Worker.settle_dead _ (by rw [applyEffs_pc]; exact h)
  | worker out =>
    simp only [Sys.step, Sys.workerStep]
    cases hs : y.store with
    | none => exact h
    | some s =>
      simp only
      rw [WCtx.step_dead _ _ h]; exact h
  | workerIdle =>
    simp only [Sys.step, Sys.workerIdle]
    cases hs : y.store with
    | none => exact h
    | some s =>
      simp only
      rw [WCtx.runQuiet_dead _ _ h]; exact h

theorem Sys.run_dead (steps : List Step) : ∀ (y : Sys), (∀ st ∈ steps, st.journal = true) →
    y.worker.pc = .dead → (y.run steps).worker.pc = .dead := by
  induction steps with
  | nil => intro y _ h; exact h
  | cons st rest ih =>
    intro y hst h
    simp only [Sys.run, List.foldl_cons]
    exact ih (y.step st) (fun s hs => hst s (List.mem_cons_of_mem _ hs))
      (Sys.step_dead y st (hst st List.mem_cons_self) h)

/-- (B) one step of any of the five kinds that leaves the worker alive. -/
theorem J.step {y : Sys} (h : J y) (st : Step) (hst : st.journal = true)
    (hwf : ∀ op, st = .call op → op.WF) (hnd : (y.step st).worker.pc ≠ .dead) : J (y.step st) := by
  cases st with
  | drop => cases hst
  | openWith c => cases hst
  | drain => exact h.drain
  | call op => exact h.call op (hwf op rfl)
  | flush cb => exact h.flush cb
  | worker out => exact h.worker out hnd
  | workerIdle => exact h.workerIdle hnd

theorem run_J (steps : List Step) : ∀ (y : Sys), J y → (∀ st ∈ steps, st.journal = true) →
    (∀ op ∈ stepOps steps, op.WF) → (y.run steps).worker.pc ≠ .dead → J (y.run steps) := by
  induction steps with
  | nil => intro y h _ _ _; exact h
  | cons st rest ih =>
    intro y h hst hwf hnd
    simp only [Sys.run, List.foldl_cons] at hnd ⊢
    have hrest : ∀ s ∈ rest, s.journal = true := fun s hs => hst s (List.mem_cons_of_mem _ hs)
    have hnd1 : (y.step st).worker.pc ≠ .dead := by
      intro hdead
      exact hnd (Sys.run_dead rest _ hrest hdead)
    have hwf1 : ∀ op, st = .call op → op.WF := by
      intro op e; subst e; exact hwf op (by simp [stepOps])
    have hwf2 : ∀ op ∈ stepOps rest, op.WF := by
      intro op hop
      apply hwf op
      cases st <;> simp [stepOps, hop]
    exact ih (y.step st) (h.step st (hst st List.mem_cons_self) hwf1 hnd1) hrest hwf2 hnd

end RaftLog
