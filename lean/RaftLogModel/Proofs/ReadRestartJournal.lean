/-
C07 after crash recovery, part 1: freshness as a property of a JOURNAL.

`FreshRunC7c ops st m`: replaying the records `ops` from state `st`, with `m` the
largest log id appended so far (ghost): every `Append` record carries an id above
`m` and above `purged`; every `State` record keeps `last` and `purged` (chunk
heads, user data). `FTotC7c L mEnd`: the journal `L` starts with a `State`
record `x` (the head of its oldest chunk) and is fresh after it, from some ghost
value `m0` with `x.last ≤ max m0 x.purged`; `mEnd` is the ghost value at the end.

Along a fresh run the ghost bound `max m purged` only grows and `last` stays at
or below it (`freshRun_bound_C7c`), and every `Append` record of the rest of the
run is above the bound reached so far (`freshRun_above_C7c`). Hence for a split
`L = Q ++ R` at a chunk boundary: the closing `last` of `Q` is at or below the
final bound, and every id appended in `R` is above it (`FTotC7c.split`) — the
closed-chunk invariant `ClosedOKC7c` (Proofs/ReadRestartInv.lean), read off the
journal alone. `FTotC7c` is closed under prefixes, under chunk-aligned suffixes
and under journalling one more checked record.

All names carry the suffix `C7c`.
-/
import RaftLogModel.Proofs.ReadTruncStore
import RaftLogModel.Proofs.ReplayLog
namespace RaftLog

/-! ### The checks -/

/-- The largest appended id after a record. -/
def freshMC7c (r : Record) (m : Option LogId) : Option LogId :=
  match r with
  | .append id _ => some id
  | _ => m

def FreshChkC7c (r : Record) (st : RState) (m : Option LogId) : Prop :=
  match r with
  | .append id _ => optLt m (some id) = true ∧ optLt st.purged (some id) = true
  | .state x => x.last = st.last ∧ x.purged = st.purged
  | _ => True

def FreshRunC7c : List JOp → RState → Option LogId → Prop
  | [], _, _ => True
  | op :: ops, st, m =>
    FreshChkC7c op.r st m ∧ ∀ st', st.apply op.r = .ok st' → FreshRunC7c ops st' (freshMC7c op.r m)

/-- The ghost value after a list of records. -/
def freshEndC7c : List JOp → Option LogId → Option LogId
  | [], m => m
  | op :: ops, m => freshEndC7c ops (freshMC7c op.r m)

theorem freshEnd_append_C7c (a b : List JOp) (m : Option LogId) :
    freshEndC7c (a ++ b) m = freshEndC7c b (freshEndC7c a m) := by
  induction a generalizing m with
  | nil => rfl
  | cons op ops ih => simp only [List.cons_append, freshEndC7c, ih]

theorem freshRun_append_C7c {a b : List JOp} {st : RState} {m : Option LogId} :
    FreshRunC7c (a ++ b) st m ↔ FreshRunC7c a st m ∧
      ∀ st', stRunO a st = some st' → FreshRunC7c b st' (freshEndC7c a m) := by
  induction a generalizing st m with
  | nil =>
    simp only [List.nil_append, FreshRunC7c, true_and, freshEndC7c]
    constructor
    · intro h st' h1
      simp only [stRunO, List.map_nil, stRun, Option.some.injEq] at h1
      subst h1; exact h
    · intro h; exact h st rfl
  | cons op ops ih =>
    simp only [List.cons_append, FreshRunC7c, freshEndC7c]
    constructor
    · rintro ⟨h1, h2⟩
      refine ⟨⟨h1, fun st' ha => (ih.mp (h2 st' ha)).1⟩, ?_⟩
      intro st2 hs
      rw [stRunO_cons] at hs
      cases ha : st.apply op.r with
      | err k => rw [ha] at hs; cases hs
      | panic x => rw [ha] at hs; cases hs
      | ok st' =>
        rw [ha] at hs
        exact (ih.mp (h2 st' ha)).2 st2 hs
    · rintro ⟨⟨h1, h2⟩, h3⟩
      refine ⟨h1, fun st' ha => ih.mpr ⟨h2 st' ha, ?_⟩⟩
      intro st2 hs
      apply h3 st2
      rw [stRunO_cons, ha]; exact hs

/-! ### The ghost bound along a fresh run -/

/-- One checked record: the bound `max m purged` does not decrease. -/
theorem freshStep_mono_C7c {r : Record} {st st' : RState} {m : Option LogId}
    (hc : FreshChkC7c r st m) (ha : st.apply r = .ok st') :
    optLe (optMaxC7b m st.purged) (optMaxC7b (freshMC7c r m) st'.purged) = true := by
  cases r with
  | saveVote v =>
    simp only [RState.apply, RState.updateVote] at ha
    split at ha
    · injection ha with ha; subst ha; exact optLe_refl _
    · cases ha
  | commit id =>
    simp only [RState.apply, RState.commit] at ha
    split at ha
    · cases ha
    · injection ha with ha; subst ha; exact optLe_refl _
  | state x =>
    simp only [RState.apply, Res.ok.injEq] at ha; subst ha
    obtain ⟨_, h2⟩ := hc
    simp only [freshMC7c, h2]; exact optLe_refl _
  | append id p =>
    obtain ⟨h1, _⟩ := hc
    have hp : st'.purged = st.purged := by
      simp only [RState.apply, RState.append] at ha
      split at ha
      · cases ha
      · split at ha
        · injection ha with ha; subst ha; rfl
        · split at ha
          · cases ha
          · split at ha
            · cases ha
            · injection ha with ha; subst ha; rfl
    simp only [freshMC7c, hp]
    exact optMax_mono_C7b (optLe_of_lt h1) (optLe_refl _)
  | truncateAfter o =>
    simp only [RState.apply, Res.ok.injEq] at ha; subst ha
    have : (st.truncateAfter o).purged = st.purged := by
      unfold RState.truncateAfter; split <;> rfl
    simp only [freshMC7c, this]; exact optLe_refl _
  | purgeUpto u =>
    simp only [RState.apply, Res.ok.injEq] at ha; subst ha
    have : optLe st.purged (st.purge u).purged = true := by
      unfold RState.purge
      by_cases h1 : optLt st.purged (some u) = true <;>
        by_cases h2 : optLt st.last (some u) = true <;> simp [h1, h2]
      · exact optLe_of_lt h1
      · exact optLe_of_lt h1
      · exact optLe_refl _
      · exact optLe_refl _
    simp only [freshMC7c]
    exact optMax_mono_C7b (optLe_refl _) this

/-- One checked record: `last` stays at or below the bound. -/
theorem freshStep_last_C7c {r : Record} {st st' : RState} {m : Option LogId}
    (hb : optLe st.last (optMaxC7b m st.purged) = true)
    (hc : FreshChkC7c r st m) (ha : st.apply r = .ok st') :
    optLe st'.last (optMaxC7b (freshMC7c r m) st'.purged) = true := by
  have hmono := freshStep_mono_C7c hc ha
  cases r with
  | saveVote v =>
    simp only [RState.apply, RState.updateVote] at ha
    split at ha
    · injection ha with ha; subst ha; exact hb
    · cases ha
  | commit id =>
    simp only [RState.apply, RState.commit] at ha
    split at ha
    · cases ha
    · injection ha with ha; subst ha; exact hb
  | state x =>
    simp only [RState.apply, Res.ok.injEq] at ha; subst ha
    obtain ⟨h1, h2⟩ := hc
    simp only [freshMC7c, h1, h2]; exact hb
  | append id p =>
    obtain ⟨hl, _⟩ := apply_append_last ha
    rw [hl]
    exact optMax_left_C7b _ _
  | truncateAfter o =>
    simp only [RState.apply, Res.ok.injEq] at ha; subst ha
    have hle : optLe (st.truncateAfter o).last st.last = true := by
      unfold RState.truncateAfter
      by_cases h : optLt o st.last = true
      · simp only [h, if_true]; exact optLe_of_lt h
      · simp only [h]; exact optLe_refl _
    exact optLe_trans hle (optLe_trans hb hmono)
  | purgeUpto u =>
    simp only [RState.apply, Res.ok.injEq] at ha; subst ha
    simp only [freshMC7c] at hmono ⊢
    have hup : optLt st.last (some u) = true → optLe (some u) (st.purge u).purged = true := by
      intro _
      unfold RState.purge
      by_cases h1 : optLt st.purged (some u) = true <;>
        by_cases h2 : optLt st.last (some u) = true <;> simp [h1, h2]
      · exact LogId.le_refl _
      · exact LogId.le_refl _
      · exact (optLe_iff_not_lt _ _).2 (by simpa using h1)
      · exact (optLe_iff_not_lt _ _).2 (by simpa using h1)
    by_cases h2 : optLt st.last (some u) = true
    · have hl : (st.purge u).last = some u := by
        unfold RState.purge
        by_cases h1 : optLt st.purged (some u) = true <;> simp [h1, h2]
      rw [hl]
      exact optLe_trans (hup h2) (optMax_right_C7b _ _)
    · have hl : (st.purge u).last = st.last := by
        unfold RState.purge
        by_cases h1 : optLt st.purged (some u) = true <;> simp [h1, h2]
      rw [hl]
      exact optLe_trans hb hmono

/-- Along a fresh run: the bound grows, `last` stays below it. -/
theorem freshRun_bound_C7c : ∀ (ops : List JOp) (st st' : RState) (m : Option LogId),
    FreshRunC7c ops st m → optLe st.last (optMaxC7b m st.purged) = true →
    stRunO ops st = some st' →
    optLe st'.last (optMaxC7b (freshEndC7c ops m) st'.purged) = true ∧
    optLe (optMaxC7b m st.purged) (optMaxC7b (freshEndC7c ops m) st'.purged) = true := by
  intro ops
  induction ops with
  | nil =>
    intro st st' m _ hb hs
    simp only [stRunO, List.map_nil, stRun, Option.some.injEq] at hs
    subst hs
    exact ⟨hb, optLe_refl _⟩
  | cons op ops ih =>
    intro st st' m h hb hs
    obtain ⟨h1, h2⟩ := h
    rw [stRunO_cons] at hs
    cases ha : st.apply op.r with
    | err k => rw [ha] at hs; cases hs
    | panic x => rw [ha] at hs; cases hs
    | ok st1 =>
      rw [ha] at hs
      obtain ⟨k1, k2⟩ := ih st1 st' _ (h2 st1 ha) (freshStep_last_C7c hb h1 ha) hs
      exact ⟨k1, optLe_trans (freshStep_mono_C7c h1 ha) k2⟩

/-- Every id appended in a fresh run is above the bound at its start. -/
theorem freshRun_above_C7c : ∀ (ops : List JOp) (st st' : RState) (m : Option LogId),
    FreshRunC7c ops st m → stRunO ops st = some st' →
    ∀ op ∈ ops, ∀ id p, op.r = .append id p → optLe (some id) (optMaxC7b m st.purged) = false := by
  intro ops
  induction ops with
  | nil => intro _ _ _ _ _ op hop; cases hop
  | cons o ops ih =>
    intro st st' m h hs op hop id p hr
    obtain ⟨h1, h2⟩ := h
    rw [stRunO_cons] at hs
    cases ha : st.apply o.r with
    | err k => rw [ha] at hs; cases hs
    | panic x => rw [ha] at hs; cases hs
    | ok st1 =>
      rw [ha] at hs
      rcases List.mem_cons.mp hop with e | e
      · subst e
        rw [hr] at h1
        obtain ⟨k1, k2⟩ := h1
        exact optMax_not_ge_C7b ((optLt_iff_not_le _ _).1 k1) ((optLt_iff_not_le _ _).1 k2)
      · have := ih st1 st' _ (h2 st1 ha) hs op e id p hr
        have hmono := freshStep_mono_C7c h1 ha
        cases hle : optLe (some id) (optMaxC7b m st.purged) with
        | false => rfl
        | true => rw [optLe_trans hle hmono] at this; cases this

/-! ### Fresh journals -/

/-- The journal starts with a `State` record and is fresh after it; `mEnd` is
the ghost value (largest id appended) at its end. -/
def FTotC7c (L : List JOp) (mEnd : Option LogId) : Prop :=
  ∃ hd tl x m0, L = hd :: tl ∧ hd.r = .state x ∧ optLe x.last (optMaxC7b m0 x.purged) = true ∧
    FreshRunC7c tl x m0 ∧ freshEndC7c tl m0 = mEnd

theorem stRunO_state_head_C7c {hd : JOp} {tl : List JOp} {x : RState} (hx : hd.r = .state x)
    (st : RState) : stRunO (hd :: tl) st = stRunO tl x := by
  rw [stRunO_cons, hx]
  rfl

/-- One more checked record at the end. -/
theorem FTotC7c.snoc {L : List JOp} {m : Option LogId} {st : RState} {op : JOp} (h : FTotC7c L m)
    (hst : stRunO L {} = some st) (hc : FreshChkC7c op.r st m) :
    FTotC7c (L ++ [op]) (freshMC7c op.r m) := by
  obtain ⟨hd, tl, x, m0, hL, hx, hb, hrun, hend⟩ := h
  subst hL
  rw [stRunO_state_head_C7c hx] at hst
  refine ⟨hd, tl ++ [op], x, m0, rfl, hx, hb, ?_, ?_⟩
  · rw [freshRun_append_C7c]
    refine ⟨hrun, ?_⟩
    intro st' hs
    rw [hst] at hs
    injection hs with hs
    subst hs
    rw [hend]
    exact ⟨hc, fun _ _ => trivial⟩
  · rw [freshEnd_append_C7c, hend]; rfl

/-- A non-empty prefix. -/
theorem FTotC7c.prefix {P S : List JOp} {m : Option LogId} (h : FTotC7c (P ++ S) m) (hne : P ≠ []) :
    ∃ m', FTotC7c P m' := by
  obtain ⟨hd, tl, x, m0, hL, hx, hb, hrun, _⟩ := h
  cases P with
  | nil => exact absurd rfl hne
  | cons p P' =>
    simp only [List.cons_append, List.cons.injEq] at hL
    obtain ⟨e1, e2⟩ := hL
    subst e1
    rw [← e2, freshRun_append_C7c] at hrun
    exact ⟨_, p, P', x, m0, rfl, hx, hb, hrun.1, rfl⟩

/-- A suffix that starts with a `State` record (a chunk head). -/
theorem FTotC7c.suffix {A S : List JOp} {m : Option LogId} {st : RState} (h : FTotC7c (A ++ S) m)
    (hst : stRunO (A ++ S) {} = some st)
    (hS : ∃ hd tl x, S = hd :: tl ∧ hd.r = .state x) : FTotC7c S m := by
  cases A with
  | nil => exact h
  | cons a A' =>
    obtain ⟨hd, tl, x, m0, hL, hx, hb, hrun, hend⟩ := h
    simp only [List.cons_append, List.cons.injEq] at hL
    obtain ⟨e1, e2⟩ := hL
    subst e1
    obtain ⟨hd', tl', x', hS', hx'⟩ := hS
    subst hS'
    rw [List.cons_append, stRunO_state_head_C7c hx] at hst
    rw [← e2] at hrun hend
    obtain ⟨stA, k1, k2⟩ := stRunO_prefix hst
    rw [freshRun_append_C7c] at hrun
    obtain ⟨r1, r2⟩ := hrun
    obtain ⟨b1, _⟩ := freshRun_bound_C7c A' x stA m0 r1 hb k1
    obtain ⟨c1, c2⟩ := r2 stA k1
    rw [hx'] at c1
    obtain ⟨d1, d2⟩ := c1
    have hc2 := c2 x' (by rw [hx']; rfl)
    rw [hx'] at hc2
    refine ⟨hd', tl', x', freshEndC7c A' m0, rfl, hx', ?_, hc2, ?_⟩
    · rw [d1, d2]; exact b1
    · rw [freshEnd_append_C7c] at hend
      simp only [freshEndC7c, hx', freshMC7c] at hend
      exact hend

/-- **The closed-chunk facts, from the journal.** `L = Q ++ R`, `Q` non-empty
(it contains the head record), the whole journal replays to `stEnd`, `Q` to
`stQ`: then `stQ.last` is at or below the final bound, and every id appended in
`R` is above `stQ.last`. -/
theorem FTotC7c.split {Q R : List JOp} {m : Option LogId} {stQ stEnd : RState}
    (h : FTotC7c (Q ++ R) m) (hne : Q ≠ [])
    (hQ : stRunO Q {} = some stQ) (hR : stRunO R stQ = some stEnd) :
    optLe stQ.last (optMaxC7b m stEnd.purged) = true ∧
    ∀ op ∈ R, ∀ id p, op.r = .append id p → optLe (some id) stQ.last = false := by
  obtain ⟨hd, tl, x, m0, hL, hx, hb, hrun, hend⟩ := h
  cases Q with
  | nil => exact absurd rfl hne
  | cons q Q' =>
    simp only [List.cons_append, List.cons.injEq] at hL
    obtain ⟨e1, e2⟩ := hL
    subst e1
    rw [stRunO_state_head_C7c hx] at hQ
    rw [← e2] at hrun hend
    rw [freshRun_append_C7c] at hrun
    obtain ⟨r1, r2⟩ := hrun
    obtain ⟨b1, _⟩ := freshRun_bound_C7c Q' x stQ m0 r1 hb hQ
    have rR := r2 stQ hQ
    obtain ⟨_, b3⟩ := freshRun_bound_C7c R stQ stEnd _ rR b1 hR
    rw [freshEnd_append_C7c] at hend
    rw [hend] at b3
    refine ⟨optLe_trans b1 b3, ?_⟩
    intro op hop id p hr
    have := freshRun_above_C7c R stQ stEnd _ rR hR op hop id p hr
    cases hle : optLe (some id) stQ.last with
    | false => rfl
    | true => rw [optLe_trans hle b1] at this; cases this

/-- At the end of a fresh journal `last` is at or below the bound. -/
theorem FTotC7c.lastB {L : List JOp} {m : Option LogId} {st : RState} (h : FTotC7c L m)
    (hst : stRunO L {} = some st) : optLe st.last (optMaxC7b m st.purged) = true := by
  obtain ⟨hd, tl, x, m0, hL, hx, hb, hrun, hend⟩ := h
  subst hL
  rw [stRunO_state_head_C7c hx] at hst
  have := (freshRun_bound_C7c tl x st m0 hrun hb hst).1
  rw [hend] at this
  exact this

/-- The ghost value does not decrease along a fresh run. -/
theorem freshRun_m_mono_C7c : ∀ (ops : List JOp) (st st' : RState) (m : Option LogId),
    FreshRunC7c ops st m → stRunO ops st = some st' → optLe m (freshEndC7c ops m) = true := by
  intro ops
  induction ops with
  | nil => intro _ _ m _ _; exact optLe_refl _
  | cons op ops ih =>
    intro st st' m h hs
    obtain ⟨h1, h2⟩ := h
    rw [stRunO_cons] at hs
    cases ha : st.apply op.r with
    | err k => rw [ha] at hs; cases hs
    | panic x => rw [ha] at hs; cases hs
    | ok st1 =>
      rw [ha] at hs
      have k := ih st1 st' _ (h2 st1 ha) hs
      simp only [freshEndC7c]
      refine optLe_trans ?_ k
      cases hr : op.r with
      | append id p => rw [hr] at h1; simp only [freshMC7c]; exact optLe_of_lt h1.1
      | saveVote v => exact optLe_refl _
      | commit id => exact optLe_refl _
      | state x => exact optLe_refl _
      | truncateAfter o => exact optLe_refl _
      | purgeUpto u => exact optLe_refl _

/-- A non-empty prefix of a fresh journal that replays: fresh, with a ghost value
at or below the one of the whole journal. -/
theorem FTotC7c.prefix_le {P S : List JOp} {m : Option LogId} {st : RState} (h : FTotC7c (P ++ S) m)
    (hne : P ≠ []) (hst : stRunO (P ++ S) {} = some st) :
    ∃ m', FTotC7c P m' ∧ optLe m' m = true := by
  obtain ⟨hd, tl, x, m0, hL, hx, hb, hrun, hend⟩ := h
  cases P with
  | nil => exact absurd rfl hne
  | cons p P' =>
    simp only [List.cons_append, List.cons.injEq] at hL
    obtain ⟨e1, e2⟩ := hL
    subst e1
    rw [List.cons_append, stRunO_state_head_C7c hx] at hst
    rw [← e2] at hrun hend
    obtain ⟨stP, k1, k2⟩ := stRunO_prefix hst
    rw [freshRun_append_C7c] at hrun
    refine ⟨freshEndC7c P' m0, ⟨p, P', x, m0, rfl, hx, hb, hrun.1, rfl⟩, ?_⟩
    rw [freshEnd_append_C7c] at hend
    rw [← hend]
    exact freshRun_m_mono_C7c S stP st _ (hrun.2 stP k1) k2

end RaftLog
