/-
C03 without "no removal outstanding", part 5: the ghost invariant. `DInv.step` with the
only fact it uses about linked files (every live chunk has a linked file) as hypothesis.
-/
import RaftLogModel.Proofs.CrashQG4
namespace RaftLog

/-- **The durability invariant under one worker step** (any outcome that leaves
the worker alive); the acknowledged position moves as `ackStep` says. -/
theorem DInv.step_live_C3b {s : Store} {c : WCtx} {A : Nat} (out : Outcome) (h : DInv s c.fs c.w A)
    (hj : JInv s c.fs c.w) (hlive : ∀ id ∈ s.chunkIds, c.fs.has id = true) (hcov : Covered c) (hwf : c.w.WF)
    (hnd : (c.step out).w.pc ≠ .dead) :
    DInv s (c.step out).fs (c.step out).w (c.ackStep out A) := by
  have hcur : c.w.cur ∈ Fs.ids c.fs := hj.annFs _ (by simp [Worker.announced])
  have hcur' : newestId c.w.files ∈ Fs.ids c.fs := hcur
  have hwu' := WCtx.step_wu c out h.wu hj.wok hj.annAsc hcur hnd
  have g := WCtx.step_good c out hj.wok hcur hnd
  have hj' : JInv s (c.step out).fs (c.step out).w := hj.worker g (WCtx.step_ids c out)
  have hfs := c.step_fs_C3 out
  -- the announced files after the step were announced before
  have hann : ∀ i ∈ annIds (c.step out).w.rest, i ∈ annIds c.w.rest := by
    intro i hi
    have hm : i ∈ (c.step out).w.announced := by simp [Worker.announced, hi]
    have hm2 := g.ann.subset hm
    simp only [Worker.announced, List.mem_cons] at hm2
    rcases hm2 with e | e
    · -- `i` is the old newest file: impossible, it is announced beyond the new newest file
      exfalso
      have hinc' := hj'.annAsc
      have hcm : (c.step out).w.cur ∈ c.w.announced := g.ann.subset (by simp [Worker.announced])
      simp only [Worker.announced, Incr, List.pairwise_cons, List.mem_cons] at hinc' hcm
      have h1 := hinc'.1 i hi
      have hinc := hj.annAsc
      simp only [Worker.announced, Incr, List.pairwise_cons] at hinc
      rcases hcm with e2 | e2
      · omega
      · have := hinc.1 _ e2; omega
    · exact e
  -- the position of the newest file before the step
  have hpos := h.wu.pos_le_end hj
  by_cases hack : ∃ b t, c.w.pc = .syncNew b t ∧ out ≠ .eio
  · -- the acknowledging step
    obtain ⟨b, t, hpc, hout⟩ := hack
    obtain ⟨f, hf⟩ := WF_syncNew_files_C3 hwf hpc
    have hA : c.ackStep out A = max A (maxUpto b) := by
      simp only [WCtx.ackStep, hpc, hout, if_false]
    have hcurf : c.w.cur = f.id := by simp [Worker.cur, hf, newestId]
    have hstep : (c.step out).fs = c.fs.sync f.id := by
      cases out with
      | eio => exact absurd rfl hout
      | ok => simp [WCtx.step, hpc, hf]
      | short k => simp [WCtx.step, hpc, hf]
    have htodo : c.w.pc.todoBytes = [] := by rw [hpc]; rfl
    have hmu : maxUpto b ≤ c.w.cur + (fdata c.fs c.w.cur).length := by
      apply maxUpto_le
      intro r hr
      have := h.wu.u2 r (by rw [hpc]; exact hr)
      rw [htodo] at this
      simpa using this
    rw [htodo] at hpos
    simp only [List.length_nil, Nat.add_zero] at hpos
    rw [hA]
    have hbeyond : ∀ i ∈ annIds c.w.rest, max A (maxUpto b) ≤ i := by
      intro i hi
      have h1 := h.a1 i hi
      have h2 := uptoOK_ann_ge c.fs c.w.rest _ _ h.wu.u1 i hi
      rw [htodo] at h2
      simp only [List.length_nil, Nat.add_zero] at h2
      exact Nat.max_le.mpr ⟨h1, by omega⟩
    -- every live chunk: written and durable up to the new position
    have hlive : ∀ offs ∈ s.chunks,
        min (lastOff offs - offs.headD 0) (max A (maxUpto b) - offs.headD 0)
          ≤ (fdata c.fs (offs.headD 0)).length ∧
        (offs.headD 0 ≠ c.w.cur → ∀ f0, c.fs.find (offs.headD 0) = some f0 →
          min (lastOff offs - offs.headD 0) (max A (maxUpto b) - offs.headD 0) ≤ f0.durable) := by
      intro offs ho
      have hid := hj.live_ids_C3 offs ho
      rcases Nat.lt_trichotomy (offs.headD 0) c.w.cur with hlt | heq | hgt
      · -- an older chunk: complete, and not tracked by the worker any more
        have hfull := hj.old_chunk_full_C3 offs ho hlt
        refine ⟨by rw [hfull]; exact Nat.min_le_left _ _, fun _ f0 hf0 => ?_⟩
        have hmem : f0 ∈ c.fs := List.mem_of_find?_eq_some hf0
        have hf0id : f0.id = offs.headD 0 := Fs.find_id hf0
        have hlinked : f0.linked = true := by
          have := hlive (offs.headD 0) (List.mem_map.mpr ⟨offs, ho, rfl⟩)
          unfold Fs.has at this
          rw [hf0] at this
          exact this
        have hfd : fdata c.fs (offs.headD 0) = f0.data := fdata_of_find_C3 hf0
        by_cases hd : f0.durable < f0.data.length
        · exfalso
          rcases hcov f0 hmem hd hlinked with k | k
          · rw [hf] at k
            simp only [List.map_cons, List.map_nil, List.mem_singleton] at k
            omega
          · rw [pendingAppends_eq_C3] at k
            have hinc := hj.annAsc
            simp only [Worker.announced, Incr, List.pairwise_cons] at hinc
            have := hinc.1 _ k
            omega
        · rw [hfd] at hfull
          have := Nat.min_le_left (lastOff offs - offs.headD 0) (max A (maxUpto b) - offs.headD 0)
          omega
      · -- the newest file itself
        refine ⟨?_, fun hne => absurd heq hne⟩
        have h1 := h.dw offs ho
        rw [heq] at h1 ⊢
        rcases Nat.le_total A (maxUpto b) with hle | hle
        · rw [Nat.max_eq_right hle]
          have := Nat.min_le_right (lastOff offs - c.w.cur) (maxUpto b - c.w.cur)
          omega
        · rw [Nat.max_eq_left hle]; exact h1
      · -- a newer chunk: announced, so it starts at or beyond the new position
        have hmem := h.wu.u3 _ hid hgt
        have := hbeyond _ hmem
        have hz : max A (maxUpto b) - offs.headD 0 = 0 := by omega
        rw [hz, Nat.min_zero]
        exact ⟨Nat.zero_le _, fun _ _ _ => Nat.zero_le _⟩
    refine ⟨hwu', fun i hi => hbeyond i (hann i hi), ?_, ?_, ?_⟩
    · exact Nat.max_le.mpr ⟨h.a2, by omega⟩
    · intro offs ho
      rw [hstep, fdata_sync]
      exact (hlive offs ho).1
    · intro offs ho f' hf'
      rw [hstep] at hf'
      obtain ⟨f0, h1, h2⟩ := find_update_durable_C3 c.fs f.id (offs.headD 0) (fun f => { f with durable := f.data.length }) (fun _ => rfl) hf'
      rcases h2 with ⟨e0, e⟩ | ⟨e1, e2⟩
      · rw [e]
        have hid0 := Fs.find_id h1
        exact (hlive offs ho).2 (by rw [← hid0, hcurf]; exact e0) f0 h1
      · rw [e2]
        have := (hlive offs ho).1
        rw [fdata_of_find_C3 h1] at this
        exact this
  · -- any other step: the position does not move
    have hA : c.ackStep out A = A := by
      unfold WCtx.ackStep
      split
      · rename_i b t hpc
        by_cases ho : out = .eio
        · rw [if_pos ho]
        · exact absurd ⟨b, t, hpc, ho⟩ hack
      · rfl
    rw [hA]
    refine ⟨hwu', fun i hi => h.a1 i (hann i hi), h.a2, ?_, ?_⟩
    · intro offs ho
      exact Nat.le_trans (h.dw offs ho) (hfs.fdata_mono hcur' _)
    · intro offs ho f' hf'
      obtain ⟨f0, h1, h2⟩ := hfs.find hf'
      rcases h2 with e | e
      · rw [e]; exact h.dd offs ho f0 h1
      · rw [e, ← fdata_of_find_C3 hf']
        exact Nat.le_trans (h.dw offs ho) (hfs.fdata_mono hcur' _)


/-! ### Small facts -/

/-- The invariant does not look at the removal list, the counters, the configuration. -/
theorem HInv.congr_C3b {s s2 : Store} {fs : Fs} {w : Worker} {r : RefLog} {W : List Op} {B A E K : Nat}
    (h : HInv s fs w r W B A E K) (h1 : s2.st = s.st) (h2 : s2.log = s.log)
    (h3 : s2.openOffsets = s.openOffsets) (h4 : s2.pending = s.pending) (h5 : s2.closed = s.closed) :
    HInv s2 fs w r W B A E K := by
  have hb : ∀ id, chunkBytes s2 fs w id = chunkBytes s fs w id := fun id => chunkBytes_congr fs w id h3 h4
  have hj : JInv s2 fs w := h.inv.j.dropClosed [] h1 h2 h3 h4 (by rw [h5]; rfl)
  exact h.transport ⟨hj, h.inv.abs.of_fields h1 h2 h3, h.inv.rep.transport h1 h2 h3 h5 hb⟩ h1 h2 h3 h5 hb
    (h.dur.of_fields h3 h5)

/-- Track the current journal end and the current number of writes. -/
theorem HInv.retarget_C3b {s : Store} {fs : Fs} {w : Worker} {r : RefLog} {W : List Op} {B A E K : Nat}
    (h : HInv s fs w r W B A E K) : HInv s fs w r W B A s.openEnd W.length := by
  obtain ⟨jc, jo, g, hg⟩ := h.hist
  have hend := g.journal_end_C3 h.inv.j
  refine ⟨h.inv, h.run, ⟨jc, jo, g, ?_⟩, h.mark, h.markLe, h.dur⟩
  have := hg.retarget
  rw [hend] at this
  exact this

/-- Every sufficiently long prefix of the writes has purged everything up to `cl`. -/
def CovC3b (W : List Op) (k : Nat) (cl : Option LogId) : Prop :=
  ∀ n, k ≤ n → n ≤ W.length → ∀ r', RefLog.run {} (W.take n) = some r' → optLe cl r'.purged = true

theorem CovC3b.extend {W Wn : List Op} {k : Nat} {cl : Option LogId} {r r' : RefLog}
    (h : CovC3b W k cl) (hk : k ≤ W.length) (hr : RefLog.run {} W = some r) (_hw : r.run Wn = some r') :
    CovC3b (W ++ Wn) k cl := by
  intro n hkn hn r'' hr''
  by_cases hle : n ≤ W.length
  · rw [List.take_append_of_le_length hle] at hr''
    exact h n hkn hle r'' hr''
  · have hcur := h W.length hk (Nat.le_refl _) r (by rw [List.take_length]; exact hr)
    have e : (W ++ Wn).take n = W ++ Wn.take (n - W.length) := by
      rw [List.take_append]
      rw [List.take_of_length_le (by omega)]
    rw [e, RefLog.run_append, hr] at hr''
    simp only [Option.bind_some] at hr''
    exact optLe_trans hcur (RefLog.run_purged_mono_C3b _ r r'' hr'')

theorem popObsolete_pre_C3b (upto : LogId) (l : List Closed) :
    ∃ pre, l = pre ++ (popObsolete upto l).2 ∧ (popObsolete upto l).1 = pre.map Closed.id ∧
      ∀ c ∈ pre, optLt (some upto) c.state.last = false := by
  induction l with
  | nil => exact ⟨[], rfl, rfl, fun c hc => by cases hc⟩
  | cons c rest ih =>
    unfold popObsolete
    split
    · exact ⟨[], rfl, rfl, fun c hc => by cases hc⟩
    · rename_i hlt
      obtain ⟨pre, hpre, hids, hall⟩ := ih
      refine ⟨c :: pre, ?_, ?_, ?_⟩
      · simp only [List.cons_append]; rw [← hpre]
      · simp only [List.map_cons]; rw [← hids]
      · intro x hx
        rcases List.mem_cons.mp hx with e | e
        · subst e; simpa using hlt
        · exact hall x e

/-- The caller thread never unlinks. -/
theorem effFs_has_mono_C3b (effs : List Eff) : ∀ (fs : Fs) (id : Nat), fs.has id = true →
    (effFs effs fs).has id = true := by
  induction effs with
  | nil => intro fs id h; exact h
  | cons e rest ih =>
    intro fs id h
    cases e with
    | create n =>
      simp only [effFs]
      apply ih
      rw [Fs.has_create]
      by_cases hx : id = n <;> simp [hx, h]
    | createFailed n => simp only [effFs]; exact ih _ _ h
    | writeHead n bs =>
      simp only [effFs]
      apply ih
      rw [Fs.has_write]; exact h
    | send q => simp only [effFs]; exact ih _ _ h

/-- Every call except a purge leaves the removal list alone. -/
theorem call_removed_C3b (s : Store) (fsHas : Nat → Bool) (op : Op) (hop : ∀ upto, op ≠ .purge upto) :
    (s.call fsHas op).2.1.removed = s.removed := by
  cases op with
  | saveVote v => exact (appendAndApply_facts_C3b _ _ _).2.1
  | commit id => exact (appendAndApply_facts_C3b _ _ _).2.1
  | saveUserData d => exact (appendAndApply_facts_C3b _ _ _).2.1
  | append es =>
    simp only [Store.call]
    split
    · rfl
    · exact (appendBatch_facts_C3b s.openEnd es _ s _ [] (Nat.le_refl _)
        (by simpa [effQ] using AllGeC3b.nil _)).2.1
  | truncate idx =>
    simp only [Store.call]
    split
    · rfl
    · split
      · exact (appendAndApply_facts_C3b _ _ _).2.1
      · split
        · rfl
        · split
          · rfl
          · exact (appendAndApply_facts_C3b _ _ _).2.1
  | purge upto => exact absurd rfl (hop upto)

theorem liftC3b_chunkIds (s : Store) (cs : List Closed) :
    (s.liftC3b cs).chunkIds = cs.map Closed.id ++ s.chunkIds := by
  rw [Store.chunkIds_eq, Store.chunkIds_eq]
  simp [Store.liftC3b_closed, List.append_assoc]

end RaftLog
