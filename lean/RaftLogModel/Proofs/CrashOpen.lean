/-
C03, part 2: `RaftLog::open` on a crash image. Whenever `openStore` succeeds on
a directory in which every chunk file parses to a prefix of its chunk's records
(`ParsesToPrefix`) and the chunks abut, the state and index map it returns are
those of replaying a PREFIX of the journal: the gap check forces every chunk
but the newest to be complete; a newest chunk without a complete record is
removed.
-/
import RaftLogModel.Proofs.Crash
import RaftLogModel.Proofs.ReplayRestart
namespace RaftLog

/-! ### From `replay` back to the cache-free runs -/

theorem smApply_runs_C3 {s s' : Store} {r : Record} {chunk : Nat} {seg : Seg}
    (h : s.smApply r chunk seg = .ok s') :
    s.st.apply r = .ok s'.st ∧ idxLogO r chunk seg s.log = some s'.log := by
  unfold Store.smApply at h
  cases hi : s.applyIndex r chunk seg with
  | none => rw [hi] at h; cases h
  | some s1 =>
    rw [hi] at h
    simp only at h
    have hst := applyIndex_st hi
    have hlog := applyIndex_log hi
    cases ha : s1.st.apply r with
    | ok st' =>
      rw [ha] at h
      injection h with h
      subst h
      exact ⟨by rw [← hst]; exact ha, hlog⟩
    | err k => rw [ha] at h; cases h
    | panic m => rw [ha] at h; cases h

theorem runs_of_replay_C3 (chunk : Nat) : ∀ (rs : List Record) (start : Nat) (s s' : Store),
    replay chunk rs (offsetsFrom start (sizes rs)) s = .ok s' →
    stRun rs s.st = some s'.st ∧ idxRun (opsFrom chunk start rs) s.log = some s'.log := by
  intro rs
  induction rs with
  | nil =>
    intro start s s' h
    simp only [replay, Res.ok.injEq] at h
    subst h
    exact ⟨rfl, rfl⟩
  | cons r rs ih =>
    intro start s s' h
    obtain ⟨t, ht⟩ := offsetsFrom_eq_cons (start + (encRecord r).length) (sizes rs)
    have hoff : offsetsFrom start (sizes (r :: rs))
        = start :: (start + (encRecord r).length) :: t := by
      simp only [sizes, List.map_cons, offsetsFrom]
      simp only [sizes] at ht
      rw [ht]
    rw [hoff] at h
    simp only [replay, Nat.add_sub_cancel_left] at h
    cases hsm : s.smApply r chunk ⟨start, (encRecord r).length⟩ with
    | err k => rw [hsm] at h; cases h
    | panic m => rw [hsm] at h; cases h
    | ok s1 =>
      rw [hsm] at h
      simp only at h
      rw [← ht] at h
      obtain ⟨k1, k2⟩ := smApply_runs_C3 hsm
      obtain ⟨i1, i2⟩ := ih _ s1 s' h
      exact ⟨by simp only [stRun, k1]; exact i1, by simp only [opsFrom, idxRun, k2]; exact i2⟩

/-! ### `openChunk` on a file with a known parse -/

theorem openChunk_parse_C3 {cfg : Cfg} {id : Nat} {data : Bytes} {rs : List Record} {e : ParseEnd}
    {rest : Bytes} {oc : OpenedChunk} (hp : parseChunk data = (sized rs, e, rest))
    (h : openChunk cfg id data = .ok oc) :
    oc.records = rs ∧ oc.offsets = offsetsFrom id (sizes rs) := by
  rw [openChunk_of_parse hp] at h
  unfold chunkResult at h
  split at h
  · injection h with h; subst h; exact ⟨rfl, rfl⟩
  · split at h
    · injection h with h; subst h; exact ⟨rfl, rfl⟩
    · cases h
  · split at h
    · injection h with h; subst h; exact ⟨rfl, rfl⟩
    · cases h

/-! ### The chunks as the loop sees them -/

/-- Chunk `p` (its table entry and its full record list) in the directory `fs`:
the file exists and parses to a prefix `p.2.take j` of the records that contains
every record ending at or below the global offset `D`. -/
def ImgChunk (fs : Fs) (D : Nat) (p : Closed × List Record) : Prop :=
  AllWF p.2 ∧ p.2 ≠ [] ∧ ∃ g, fs.find p.1.id = some g ∧ ∃ j, j ≤ p.2.length ∧
    (∃ e rest, parseChunk g.data = (sized (p.2.take j), e, rest)) ∧
    ∀ i, i ≤ p.2.length → p.1.id + (encAll (p.2.take i)).length ≤ D → i ≤ j

/-- D15: syncing a file does not change what any chunk file parses to. -/
theorem ImgChunk.sync {fs : Fs} {D : Nat} {p : Closed × List Record} (h : ImgChunk fs D p)
    (id : Nat) : ImgChunk (fs.sync id) D p := by
  obtain ⟨k1, k2, g, k3, k4⟩ := h
  obtain ⟨g', r1, r2, _⟩ := Fs.find_sync_some id k3
  exact ⟨k1, k2, g', r1, by rw [r2]; exact k4⟩

/-- Each chunk starts where the full previous one ends. -/
def AbutC3 : List (Closed × List Record) → Prop
  | [] => True
  | [_] => True
  | p :: q :: rest => q.1.id = p.1.id + (encAll p.2).length ∧ AbutC3 (q :: rest)

theorem AbutC3.tail {p : Closed × List Record} {rest : List (Closed × List Record)}
    (h : AbutC3 (p :: rest)) : AbutC3 rest := by
  cases rest with
  | nil => trivial
  | cons q rest' => exact h.2

theorem abut_lt_C3 : ∀ (rest : List (Closed × List Record)) (p : Closed × List Record),
    AbutC3 (p :: rest) → (∀ q ∈ p :: rest, q.2 ≠ []) → ∀ q ∈ rest, p.1.id < q.1.id := by
  intro rest
  induction rest with
  | nil => intro p _ _ q hq; cases hq
  | cons q0 rest ih =>
    intro p ha hne q hq
    have h0 : p.1.id < q0.1.id := by
      have := encAll_length_pos (hne p List.mem_cons_self)
      have := ha.1
      omega
    rcases List.mem_cons.mp hq with e | e
    · subst e; exact h0
    · have := ih q0 ha.2 (fun x hx => hne x (List.mem_cons_of_mem _ hx)) q e
      omega

theorem abut_of_chained_C3 : ∀ (jl : List (Closed × List Record)),
    Chained (jl.map (·.1.offsets)) →
    (∀ p ∈ jl, lastOff p.1.offsets = p.1.id + (encAll p.2).length) → AbutC3 jl := by
  intro jl
  induction jl with
  | nil => intro _ _; trivial
  | cons p rest ih =>
    intro hc hl
    cases rest with
    | nil => trivial
    | cons q rest' =>
      simp only [List.map_cons, Chained] at hc
      refine ⟨?_, ih (by simpa using hc.2) (fun x hx => hl x (List.mem_cons_of_mem _ hx))⟩
      have := hl p List.mem_cons_self
      have h1 := hc.1
      simp only [Closed.id]
      simp only [Closed.id] at this
      omega

/-- If the first `j` records take as many bytes as all of them, they are all. -/
theorem take_full_of_length_C3 {rs : List Record} {j : Nat}
    (h : (encAll (rs.take j)).length = (encAll rs).length) : rs.take j = rs := by
  have e := encAll_take_drop_C3 rs j
  have hl : (encAll (rs.drop j)).length = 0 := by
    have := congrArg List.length e
    simp only [List.length_append] at this
    omega
  have h0 : rs.drop j = [] := by
    have := encAll_length_geP (rs.drop j)
    rw [hl] at this
    exact List.eq_nil_of_length_eq_zero (by omega)
  have := List.take_append_drop j rs
  rw [h0, List.append_nil] at this
  exact this

theorem afterTrunc_find_other_C3 (a : OpenAcc) {id id' : Nat} (h : id' ≠ id) (tr : Option Nat) :
    (a.pre.afterTrunc id tr).fs.find id' = a.fs.find id' := by
  cases tr with
  | none => rfl
  | some len =>
    simp only [OpenAcc.afterTrunc, OpenAcc.pre]
    rw [Fs.find_truncate]
    cases hf : a.fs.find id' with
    | none => rfl
    | some f =>
      have hid := find_id hf
      have : (f.id == id) = false := by rw [hid]; exact beq_false_of_ne h
      simp only [Option.map_some, this, Bool.false_eq_true, if_false]

theorem afterTrunc_sm_C3 (a : OpenAcc) (id : Nat) (tr : Option Nat) :
    (a.pre.afterTrunc id tr).sm.st = a.sm.st ∧ (a.pre.afterTrunc id tr).sm.log = a.sm.log := by
  cases tr <;> exact ⟨rfl, rfl⟩

theorem opsFrom_take_prefix_C3 (chunk start : Nat) (rs : List Record) (j : Nat) :
    opsFrom chunk start (rs.take j) <+: opsFrom chunk start rs := by
  have : opsFrom chunk start rs = opsFrom chunk start (rs.take j ++ rs.drop j) := by
    rw [List.take_append_drop]
  rw [this, opsFrom_append]
  exact List.prefix_append _ _

theorem openLoop_ok_gap_C3 {cfg : Cfg} {id : Nat} {rest : List Nat} {a x a' : OpenAcc}
    (h : openLoop cfg (id :: rest) a = (.ok x, a')) : gapCheck a id = false := by
  cases hg : gapCheck a id with
  | false => rfl
  | true =>
    rw [openLoop_gap cfg id rest a hg] at h
    cases h

def headIdC3 : List (Closed × List Record) → Nat
  | [] => 0
  | p :: _ => p.1.id

/-- Total encoded size of a list of journal records. -/
def sizeSum (P : List JOp) : Nat := sumNat (P.map (·.seg.size))

theorem sizeSum_append (a b : List JOp) : sizeSum (a ++ b) = sizeSum a + sizeSum b := by
  simp [sizeSum, sumNat_append]

/-- The id of the oldest live chunk: where the retained journal starts. -/
def Store.jstart (s : Store) : Nat :=
  match s.closed with
  | c :: _ => c.id
  | [] => s.openId

theorem opsFrom_take_C3 (chunk : Nat) : ∀ (rs : List Record) (start n : Nat),
    (opsFrom chunk start rs).take n = opsFrom chunk start (rs.take n) := by
  intro rs
  induction rs with
  | nil => intro start n; simp [opsFrom]
  | cons r rs ih =>
    intro start n
    cases n with
    | zero => simp [opsFrom]
    | succ n => simp only [opsFrom, List.take_succ_cons, ih]

theorem opsFrom_length_C3 (chunk start : Nat) (rs : List Record) :
    (opsFrom chunk start rs).length = rs.length := by
  induction rs generalizing start with
  | nil => rfl
  | cons r rs ih => simp only [opsFrom, List.length_cons, ih]

theorem prefix_opsFrom_C3 {chunk start : Nat} {rs : List Record} {Q : List JOp}
    (h : Q <+: opsFrom chunk start rs) :
    Q = opsFrom chunk start (rs.take Q.length) ∧ Q.length ≤ rs.length := by
  have h1 := List.prefix_iff_eq_take.mp h
  have h2 := h.length_le
  rw [opsFrom_length_C3] at h2
  rw [opsFrom_take_C3] at h1
  exact ⟨h1, h2⟩

theorem sizeSum_opsFrom_eq_C3 (chunk start : Nat) (rs : List Record) :
    sumNat ((opsFrom chunk start rs).map (·.seg.size)) = (encAll rs).length := by
  induction rs generalizing start with
  | nil => rfl
  | cons r rs ih =>
    simp only [opsFrom, List.map_cons, sumNat, encAll_cons, List.length_append, ih]

/-! ### The loop on a damaged directory -/

/-- **`openLoop` returns the replay of a prefix of the journal.** -/
theorem openLoop_image_C3 (cfg : Cfg) (D : Nat) : ∀ (jl : List (Closed × List Record)) (a x a' : OpenAcc),
    openLoop cfg (jl.map (·.1.id)) a = (.ok x, a') →
    (∀ p ∈ jl, ImgChunk a.fs D p) → AbutC3 jl →
    ∃ P, P <+: flatOps jl ∧ stRunO P a.sm.st = some a'.sm.st ∧ idxRun P a.sm.log = some a'.sm.log ∧
      ∀ Q, Q <+: flatOps jl → headIdC3 jl + sumNat (Q.map (·.seg.size)) ≤ D → Q <+: P := by
  intro jl
  induction jl with
  | nil =>
    intro a x a' h _ _
    simp only [List.map_nil, openLoop, Prod.mk.injEq] at h
    obtain ⟨_, rfl⟩ := h
    exact ⟨[], List.nil_prefix, rfl, rfl, fun Q hQ _ => by simpa [flatOps] using hQ⟩
  | cons p rest ih =>
    intro a x a' h himg habut
    obtain ⟨c, rs⟩ := p
    simp only [List.map_cons] at h
    have hg := openLoop_ok_gap_C3 h
    rw [openLoop_nogap cfg c.id _ a hg] at h
    obtain ⟨hwf, hne, g, hfind, j, hj, ⟨e, rst, hparse⟩, hlo⟩ := himg (c, rs) List.mem_cons_self
    simp only at hwf hne hfind hparse hj hlo
    simp only [hfind] at h
    cases hoc : openChunk cfg c.id g.data with
    | error k => rw [hoc] at h; cases h
    | ok oc =>
      rw [hoc] at h
      simp only at h
      obtain ⟨hrecs, hoffs⟩ := openChunk_parse_C3 hparse hoc
      obtain ⟨hst1, hlog1⟩ := afterTrunc_sm_C3 a c.id oc.truncatedTo
      have hfs1 : ∀ q ∈ rest, ImgChunk (a.pre.afterTrunc c.id oc.truncatedTo).fs D q := by
        intro q hq
        obtain ⟨k1, k2, g', k3, k4⟩ := himg q (List.mem_cons_of_mem _ hq)
        have hlt := abut_lt_C3 rest (c, rs) habut (fun x hx => (himg x hx).2.1) q hq
        have hne' : q.1.id ≠ c.id := by simp only at hlt; omega
        exact ⟨k1, k2, g', by rw [afterTrunc_find_other_C3 a hne']; exact k3, k4⟩
      generalize a.pre.afterTrunc c.id oc.truncatedTo = a1 at h hst1 hlog1 hfs1
      unfold openTail at h
      cases hrep : replay c.id oc.records oc.offsets a1.sm with
      | err k => rw [hrep] at h; cases h
      | panic m => rw [hrep] at h; cases h
      | ok sm2 =>
        rw [hrep] at h
        simp only at h
        rw [hrecs, hoffs] at hrep
        obtain ⟨r1, r2⟩ := runs_of_replay_C3 c.id (rs.take j) c.id a1.sm sm2 hrep
        rw [hst1] at r1
        rw [hlog1] at r2
        -- a prefix of this chunk's records that ends at or below `D` was parsed
        have hlocal : ∀ Q, Q <+: opsFrom c.id c.id rs → c.id + sumNat (Q.map (·.seg.size)) ≤ D →
            Q <+: opsFrom c.id c.id (rs.take j) := by
          intro Q hQ hD
          obtain ⟨e1, e2⟩ := prefix_opsFrom_C3 hQ
          rw [e1, sizeSum_opsFrom_eq_C3] at hD
          have hij := hlo Q.length e2 hD
          rw [e1]
          have : rs.take Q.length = (rs.take j).take Q.length := by
            rw [List.take_take]; congr 1; omega
          rw [this]
          exact opsFrom_take_prefix_C3 c.id c.id (rs.take j) Q.length
        by_cases hemp : (oc.records.isEmpty && (rest.map (·.1.id)).isEmpty) = true
        · rw [if_pos hemp] at h
          simp only [Prod.mk.injEq] at h
          obtain ⟨_, rfl⟩ := h
          simp only [Bool.and_eq_true, List.isEmpty_iff] at hemp
          have hnil : rs.take j = [] := by rw [← hrecs]; exact hemp.1
          rw [hnil] at r1 r2
          simp only [stRun, opsFrom, idxRun] at r1 r2
          refine ⟨[], List.nil_prefix, r1, r2, ?_⟩
          intro Q hQ hD
          have hrest : rest = [] := by simpa using hemp.2
          subst hrest
          simp only [flatOps, List.append_nil, chunkOps] at hQ
          have := hlocal Q hQ (by simpa [headIdC3] using hD)
          rw [hnil] at this
          simpa [opsFrom] using this
        · rw [if_neg hemp] at h
          obtain ⟨P, hP, q1, q2, q3⟩ := ih _ x a' h (fun q hq => (hfs1 q hq).sync c.id) habut.tail
          simp only at q1 q2
          -- the chunk is complete, or it is the last one
          have hfull : rs.take j = rs ∨ P = [] := by
            cases rest with
            | nil =>
              right
              simpa [flatOps] using hP
            | cons q rest' =>
              left
              simp only [List.map_cons] at h
              have hg2 := openLoop_ok_gap_C3 h
              simp only [gapCheck, bne_eq_false_iff_eq] at hg2
              rw [hoffs, lastOff_sized] at hg2
              have := habut.1
              simp only at this
              exact take_full_of_length_C3 (by omega)
          refine ⟨opsFrom c.id c.id (rs.take j) ++ P, ?_, ?_, ?_, ?_⟩
          · simp only [flatOps, chunkOps]
            rcases hfull with hf | hf
            · rw [hf]
              exact (List.prefix_append_right_inj _).mpr hP
            · subst hf
              rw [List.append_nil]
              exact (opsFrom_take_prefix_C3 c.id c.id rs j).trans (List.prefix_append _ _)
          · rw [stRunO_append]
            have : stRunO (opsFrom c.id c.id (rs.take j)) a.sm.st = some sm2.st := by
              simp only [stRunO, opsFrom_map_r]; exact r1
            rw [this]
            exact q1
          · rw [idxRun_append, r2]
            exact q2
          · intro Q hQ hD
            simp only [flatOps, chunkOps, headIdC3] at hQ hD
            rcases List.prefix_or_prefix_of_prefix hQ (List.prefix_append _ (flatOps rest)) with hqa | haq
            · exact (hlocal Q hqa hD).trans (List.prefix_append _ _)
            · obtain ⟨Q', rfl⟩ := haq
              have hQ' : Q' <+: flatOps rest := (List.prefix_append_right_inj _).mp hQ
              cases rest with
              | nil =>
                have : Q' = [] := by simpa [flatOps] using hQ'
                subst this
                rw [List.append_nil] at hD ⊢
                exact (hlocal _ (List.prefix_refl _) hD).trans (List.prefix_append _ _)
              | cons q rest' =>
                have hf : rs.take j = rs := by
                  rcases hfull with hf | hf
                  · exact hf
                  · simp only [List.map_cons] at h
                    have hg2 := openLoop_ok_gap_C3 h
                    simp only [gapCheck, bne_eq_false_iff_eq] at hg2
                    rw [hoffs, lastOff_sized] at hg2
                    have := habut.1
                    simp only at this
                    exact take_full_of_length_C3 (by omega)
                rw [hf]
                apply (List.prefix_append_right_inj _).mpr
                apply q3 Q' hQ'
                have := habut.1
                simp only at this
                simp only [List.map_append, sumNat_append, sizeSum_opsFrom_eq_C3] at hD
                simp only [headIdC3, this]
                omega

/-! ### The end of `openStore` -/

/-- A successful `openStore` returns the state and index map the loop computed. -/
theorem openStore_ok_C3 {cfg : Cfg} {fs fs' : Fs} {s' : Store} {w' : Worker} {evs : List Ev}
    (h : openStore cfg fs = (.ok (s', w'), fs', evs)) :
    ∃ x a, openLoop cfg fs.linkedIds { sm := emptyStore cfg, fs := fs } = (.ok x, a) ∧
      s'.st = a.sm.st ∧ s'.log = a.sm.log := by
  unfold openStore at h
  simp only at h
  split at h
  · cases h
  · cases h
  · rename_i x a heq
    refine ⟨x, a, heq, ?_⟩
    split at h
    · split at h
      · cases h
      · simp only [Prod.mk.injEq, Res.ok.injEq] at h
        obtain ⟨⟨rfl, _⟩, _, _⟩ := h
        exact ⟨rfl, rfl⟩
    · split at h
      · cases h
      · simp only [Prod.mk.injEq, Res.ok.injEq] at h
        obtain ⟨⟨rfl, _⟩, _, _⟩ := h
        exact ⟨rfl, rfl⟩

/-! ### S2 from the invariants -/

/-- The live chunks with their records, the open chunk last (as in `RInv.load_data`). -/
def liveChunksC3 (s : Store) (jc : List (Closed × List Record)) (jo : List Record) :
    List (Closed × List Record) :=
  jc ++ [((⟨s.openOffsets, s.st⟩ : Closed), jo)]

theorem liveChunks_flatOps_C3 (s : Store) (jc : List (Closed × List Record)) (jo : List Record) :
    flatOps (liveChunksC3 s jc jo) = allOps s jc jo := by
  simp only [liveChunksC3, flatOps_append, flatOps, List.append_nil, allOps]
  rfl

theorem liveChunks_ids_C3 {s : Store} {fs : Fs} {w : Worker} {jc : List (Closed × List Record)}
    {jo : List Record} (g : RepG s fs w jc jo) :
    (liveChunksC3 s jc jo).map (·.1.id) = s.chunkIds := by
  have hmapoffs : (liveChunksC3 s jc jo).map (·.1.offsets) = s.chunks := by
    simp only [liveChunksC3, Store.chunks, List.map_append, List.map_cons, List.map_nil, ← g.closedEq,
      List.map_map]
    rfl
  simp only [Store.chunkIds, ← hmapoffs, List.map_map]
  rfl

theorem liveChunks_offsets_C3 {s : Store} {fs : Fs} {w : Worker} {jc : List (Closed × List Record)}
    {jo : List Record} (g : RepG s fs w jc jo) :
    (liveChunksC3 s jc jo).map (·.1.offsets) = s.chunks := by
  simp only [liveChunksC3, Store.chunks, List.map_append, List.map_cons, List.map_nil, ← g.closedEq,
    List.map_map]
  rfl

/-- Every live chunk: its records, and its file's bytes as a prefix of their encoding. -/
theorem liveChunks_recs_C3 {s : Store} {fs : Fs} {w : Worker} {jc : List (Closed × List Record)}
    {jo : List Record} (g : RepG s fs w jc jo) :
    ∀ p ∈ liveChunksC3 s jc jo, AllWF p.2 ∧ (∃ st rest, p.2 = .state st :: rest) ∧
      offsetsFrom p.1.id (recSizes p.2) = p.1.offsets ∧ p.1.id ∈ s.chunkIds ∧
      ∃ t, fdata fs p.1.id ++ t = encAll p.2 := by
  intro p hp
  have hid : p.1.id ∈ s.chunkIds := by
    rw [← liveChunks_ids_C3 g]; exact List.mem_map.mpr ⟨p, hp, rfl⟩
  simp only [liveChunksC3, List.mem_append, List.mem_singleton] at hp
  rcases hp with h1 | h1
  · obtain ⟨k1, k2, k3, k4⟩ := g.closedRecs p h1
    refine ⟨k1, k2, k3, hid, w.inflight p.1.id ++ (if s.openId = p.1.id then s.pending else []), ?_⟩
    rw [← List.append_assoc]; exact k4
  · subst h1
    obtain ⟨k1, k2, k3, k4⟩ := g.openRecs
    refine ⟨k1, k2, k3, hid, w.inflight s.openId ++ (if s.openId = s.openId then s.pending else []), ?_⟩
    rw [← List.append_assoc]; exact k4

theorem has_find_C3 {fs : Fs} {id : Nat} (h : fs.has id = true) :
    ∃ f, fs.find id = some f ∧ f.linked = true := by
  unfold Fs.has at h
  cases hf : fs.find id with
  | none => rw [hf] at h; cases h
  | some f => rw [hf] at h; exact ⟨f, rfl, h⟩

theorem liveChunks_head_C3 {s : Store} {fs : Fs} {w : Worker} {jc : List (Closed × List Record)}
    {jo : List Record} (g : RepG s fs w jc jo) : headIdC3 (liveChunksC3 s jc jo) = s.jstart := by
  unfold Store.jstart liveChunksC3
  rw [← g.closedEq]
  cases jc with
  | nil => rfl
  | cons p jc' => rfl

/-- **S2, in terms of the invariants.** `fs` is the directory of a live store
with replay witnesses `jc`, `jo`; its linked files are exactly the live chunks;
`img` is a crash image of it. If `openStore` succeeds on `img`, the state and
the index map it returns are the replay of a prefix `P` of the journal; and if
every live chunk file is durable up to the global offset `D` (or to its end),
`P` contains every journal prefix that ends at or below `D`. -/
theorem crash_open_prefix_C3 {s : Store} {fs : Fs} {w : Worker} {jc : List (Closed × List Record)}
    {jo : List Record} (g : RepG s fs w jc jo) (hj : JInv s fs w) (hl : LInv s fs w)
    (hlinked : fs.linkedIds = s.chunkIds) {img : Fs} (hc : CrashImage fs img) (cfg' : Cfg) (D : Nat)
    (hD : ∀ p ∈ liveChunksC3 s jc jo, ∀ f, fs.find p.1.id = some f →
      min (encAll p.2).length (D - p.1.id) ≤ f.durable)
    {s' : Store} {w' : Worker} {fs' : Fs} {evs : List Ev}
    (hopen : openStore cfg' img = (.ok (s', w'), fs', evs)) :
    ∃ P, P <+: allOps s jc jo ∧ stRunO P {} = some s'.st ∧ idxRun P [] = some s'.log ∧
      ∀ Q, Q <+: allOps s jc jo → s.jstart + sizeSum Q ≤ D → Q <+: P := by
  obtain ⟨x, a, hloop, e1, e2⟩ := openStore_ok_C3 hopen
  rw [hc.linkedIds, hlinked, ← liveChunks_ids_C3 g] at hloop
  have hrecs := liveChunks_recs_C3 g
  have himg : ∀ p ∈ liveChunksC3 s jc jo, ImgChunk img D p := by
    intro p hp
    obtain ⟨k1, ⟨st, rest, k2⟩, _, k4, t, k5⟩ := hrecs p hp
    obtain ⟨f, hf, hfl⟩ := has_find_C3 (hl.live _ k4)
    obtain ⟨g', hg1, hg2⟩ := hc.find hf hfl
    rw [fdata_of_find_C3 hf] at k5
    obtain ⟨j, hj1, hj2, hj3⟩ := cutOf_parses_lo_C3 k1 k5 hg2
    refine ⟨k1, by rw [k2]; simp, g', hg1, j, hj1, hj2, ?_⟩
    intro i hi hle
    apply hj3 i hi
    have h1 := hD p hp f hf
    have h2 := encAll_take_le_C3 p.2 i
    omega
  have habut : AbutC3 (liveChunksC3 s jc jo) := by
    apply abut_of_chained_C3
    · rw [liveChunks_offsets_C3 g]; exact hj.chained
    · intro p hp
      obtain ⟨k1, k2, k3, _, _⟩ := hrecs p hp
      have := lastOff_offsetsFrom p.1.id (recSizes p.2)
      rw [k3, ← encAll_length] at this
      exact this
  obtain ⟨P, hP, q1, q2, q3⟩ := openLoop_image_C3 cfg' D (liveChunksC3 s jc jo)
    { sm := emptyStore cfg', fs := img } x a hloop himg habut
  rw [liveChunks_flatOps_C3] at hP q3
  rw [liveChunks_head_C3 g] at q3
  exact ⟨P, hP, by rw [e1]; exact q1, by rw [e2]; exact q2, q3⟩

end RaftLog
