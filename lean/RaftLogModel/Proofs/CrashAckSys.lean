/-
C03, part 4 (end, system level): the request a flush sends keeps its `upto`
until the batch that acknowledges it; public calls send requests without
callbacks.
-/
import RaftLogModel.Proofs.CrashAck
namespace RaftLog

/-! ### Requests sent by public calls carry no callback -/

def EffsNoCb (effs : List Eff) : Prop := ∀ r ∈ effQ effs, r.cbId = none

theorem EffsNoCb.nil : EffsNoCb [] := fun r hr => by cases hr

theorem EffsNoCb.append {a b : List Eff} (ha : EffsNoCb a) (hb : EffsNoCb b) : EffsNoCb (a ++ b) := by
  intro r hr
  rw [effQ_append] at hr
  rcases List.mem_append.mp hr with k | k
  · exact ha r k
  · exact hb r k

theorem EffsNoCb.tryCloseFull (s : Store) (fsHas : Nat → Bool) : EffsNoCb (s.tryCloseFull fsHas).2.2 := by
  unfold Store.tryCloseFull
  intro r hr
  by_cases hf : s.isOpenFull = true
  · by_cases he : fsHas s.openEnd = true
    · simp [hf, he, effQ] at hr
    · by_cases hp : s.pending.isEmpty = true
      · simp [hf, he, hp, effQ] at hr
        subst hr; rfl
      · simp [hf, he, hp, effQ] at hr
        rcases hr with k | k <;> subst k <;> rfl
  · simp [hf, effQ] at hr

theorem EffsNoCb.appendAndApply (s : Store) (fsHas : Nat → Bool) (r : Record) :
    EffsNoCb (s.appendAndApply fsHas r).2.2 := by
  unfold Store.appendAndApply
  split
  · exact .nil
  · exact .nil
  · dsimp only
    split
    · exact .nil
    · rename_i st' _ _ s2 _
      have := EffsNoCb.tryCloseFull ({ s2 with st := st' } : Store) fsHas
      generalize Store.tryCloseFull ({ s2 with st := st' } : Store) fsHas = x at this ⊢
      obtain ⟨res, s4, effs⟩ := x
      cases res <;> exact this

theorem EffsNoCb.appendBatch (fsHas : Nat → Bool) (es : List (LogId × Bytes)) (s : Store) (seg : Seg)
    (effs : List Eff) (h : EffsNoCb effs) : EffsNoCb (Store.appendBatch fsHas es s seg effs).2.2 := by
  induction es generalizing fsHas s seg effs with
  | nil => exact h
  | cons e rest ih =>
    obtain ⟨id, p⟩ := e
    unfold Store.appendBatch
    have h1 := EffsNoCb.appendAndApply s fsHas (.append id p)
    split
    · exact h
    split
    · rename_i seg' s' e' heq
      rw [heq] at h1
      exact ih _ _ _ _ (h.append h1)
    · rename_i k s' e' heq
      rw [heq] at h1
      exact h.append h1
    · rename_i m s' e' heq
      rw [heq] at h1
      exact h.append h1

theorem EffsNoCb.call (s : Store) (fsHas : Nat → Bool) (op : Op) : EffsNoCb (s.call fsHas op).2.2 := by
  cases op with
  | saveVote v => exact .appendAndApply _ _ _
  | commit id => exact .appendAndApply _ _ _
  | saveUserData d => exact .appendAndApply _ _ _
  | append es =>
    simp only [Store.call]
    split
    · exact .nil
    · exact .appendBatch _ _ _ _ _ .nil
  | truncate idx =>
    simp only [Store.call]
    split
    · exact .nil
    · split
      · exact .appendAndApply _ _ _
      · split
        · exact .nil
        · split
          · exact .nil
          · exact .appendAndApply _ _ _
  | purge upto =>
    simp only [Store.call]
    split
    · exact .nil
    split
    · exact .nil
    · split
      · split <;> exact .nil
      · have := EffsNoCb.appendAndApply s fsHas (.purgeUpto upto)
        generalize s.appendAndApply fsHas (.purgeUpto upto) = x at this ⊢
        obtain ⟨res, s4, effs⟩ := x
        cases res <;> exact this

/-! ### `Tagged` under the caller-thread steps -/

theorem Worker.push_reqs (w : Worker) (q : List WReq) : (w.push q).reqs = w.reqs ++ q := by
  simp [Worker.reqs, Worker.push_rest, List.append_assoc]

theorem Worker.settle_reqs (w : Worker) : w.settle.reqs = w.reqs := by
  simp only [Worker.reqs, settle_batchW_C3, (Worker.settle_facts w).1]

theorem Tagged.push {i : Nat} {Q : WReq → Prop} {w : Worker} (h : Tagged i Q w) (q : List WReq)
    (hq : ∀ r ∈ q, r.cbId = some i → Q r) : Tagged i Q (w.push q).settle := by
  intro r hr hi
  rw [Worker.settle_reqs, Worker.push_reqs] at hr
  rcases List.mem_append.mp hr with k | k
  · exact h r k hi
  · exact hq r k hi

/-- What a flush sends: one `write` whose `upto` is the journal end at the call
and whose callback is the flush's, then possibly the removal request. -/
theorem flush_effQ_C3 (s : Store) (cb : Option Nat) :
    effQ (s.flush cb).2 = .write s.openEnd s.pending cb ::
      (if s.removed.isEmpty then [] else [.removeChunks s.removed]) := by
  unfold Store.flush
  by_cases hr : s.removed.isEmpty = true <;> simp [hr, effQ]

/-- One journal step other than a flush with callback `i` keeps `Tagged i Q`
(live store and worker). -/
theorem Tagged.sys_step {i : Nat} {Q : WReq → Prop} {y : Sys} {s : Store} (hs : y.store = some s)
    (hd : y.worker.pc ≠ .dead) (h : Tagged i Q y.worker) (st : Step) (hst : st.journal = true)
    (hne : ∀ cb, st = .flush cb → cb ≠ some i) : Tagged i Q (y.step st).worker := by
  cases st with
  | drop => cases hst
  | openWith c => cases hst
  | drain =>
    show Tagged i Q y.drain.worker
    simp only [Sys.drain, hs]; exact h
  | call op =>
    show Tagged i Q (y.call op).2.1.worker
    rw [(Sys.call_eq y op s hs hd).1]
    apply h.push
    intro r hr hi
    have := EffsNoCb.call s y.fs.has op r hr
    rw [this] at hi; cases hi
  | flush cb =>
    show Tagged i Q (y.flush cb).2.1.worker
    rw [Sys.flush_eq y cb s hs hd]
    apply h.push
    intro r hr hi
    rw [flush_effQ_C3] at hr
    rcases List.mem_cons.mp hr with k | k
    · subst k
      exact absurd hi (hne cb rfl)
    · by_cases hrm : s.removed.isEmpty = true
      · simp [hrm] at k
      · simp only [hrm, Bool.false_eq_true, if_false, List.mem_singleton] at k
        subst k; cases hi
  | worker out =>
    show Tagged i Q (y.workerStep out).1.worker
    simp only [Sys.workerStep, hs]
    exact Tagged.step (c := { w := y.worker, fs := y.fs, cache := s.cache }) h out
  | workerIdle =>
    show Tagged i Q y.workerIdle.1.worker
    simp only [Sys.workerIdle, hs]
    exact Tagged.runQuiet _ { w := y.worker, fs := y.fs, cache := s.cache } h

/-- The flush with callback `i` itself: afterwards every held request with
callback `i` has `upto` = the journal end at the call, provided none was held
before. -/
theorem Tagged.sys_flush {i : Nat} {y : Sys} {s : Store} (hs : y.store = some s)
    (hd : y.worker.pc ≠ .dead) (h : Tagged i (fun _ => False) y.worker) :
    Tagged i (fun r => s.openEnd ≤ r.upto) (y.step (.flush (some i))).worker := by
  show Tagged i _ (y.flush (some i)).2.1.worker
  rw [Sys.flush_eq y (some i) s hs hd]
  apply Tagged.push (Q := fun r => s.openEnd ≤ r.upto) (fun r hr hi => (h r hr hi).elim)
  intro r hr hi
  rw [flush_effQ_C3] at hr
  rcases List.mem_cons.mp hr with k | k
  · subst k; exact Nat.le_refl _
  · by_cases hrm : s.removed.isEmpty = true
    · simp [hrm] at k
    · simp only [hrm, Bool.false_eq_true, if_false, List.mem_singleton] at k
      subst k; cases hi

/-! ### Along histories -/

theorem journal_keepsStore_C3 {st : Step} (h : st.journal = true) : st.keepsStore = true := by
  cases st <;> first | rfl | cases h

theorem Tagged.sys_run {i : Nat} {Q : WReq → Prop} (steps : List Step) : ∀ (y : Sys),
    (∀ st ∈ steps, st.journal = true) → (∀ st ∈ steps, st ≠ .flush (some i)) →
    y.store.isSome = true → (y.run steps).worker.pc ≠ .dead → Tagged i Q y.worker →
    Tagged i Q (y.run steps).worker := by
  induction steps with
  | nil => intro y _ _ _ _ h; exact h
  | cons st rest ih =>
    intro y hst hne hsome hnd h
    simp only [Sys.run, List.foldl_cons] at hnd ⊢
    have hrest : ∀ x ∈ rest, x.journal = true := fun x hx => hst x (List.mem_cons_of_mem _ hx)
    have hj := hst st List.mem_cons_self
    have hd : y.worker.pc ≠ .dead := by
      intro hdead
      exact hnd (Sys.run_dead rest _ hrest (Sys.step_dead y st hj hdead))
    cases hs : y.store with
    | none => rw [hs] at hsome; cases hsome
    | some s =>
      have h1 := h.sys_step hs hd st hj (fun cb e hcb => hne st List.mem_cons_self (by rw [e, hcb]))
      exact ih (y.step st) hrest (fun x hx => hne x (List.mem_cons_of_mem _ hx))
        (Sys.step_store_isSome (journal_keepsStore_C3 hj) (by rw [hs]; rfl)) hnd h1

/-- The events of the worker thread in one step of a history. -/
def Sys.stepEvs (y : Sys) : Step → List Ev
  | .worker out => (y.workerStep out).2
  | .workerIdle => y.workerIdle.2
  | _ => []

/-- One step: a positive callback `i` among its events, every held request with
callback `i` has `upto ≥ E`: the acknowledged position reaches `E`. -/
theorem ack_reaches_sys_C3 {y : Sys} (hwf : SysWF y) {i E : Nat}
    (htag : Tagged i (fun r => E ≤ r.upto) y.worker) (st : Step) (A : Nat)
    (hcb : Ev.cb i true ∈ y.stepEvs st) : E ≤ y.ackStep st A := by
  cases st with
  | worker out =>
    simp only [Sys.stepEvs, Sys.workerStep] at hcb
    cases hs : y.store with
    | none => rw [hs] at hcb; cases hcb
    | some s =>
      rw [hs] at hcb
      simp only [Sys.ackStep, hs]
      have hw : y.worker.WF := (hwf (by rw [hs]; simp)).1
      exact ack_reaches_C3 { w := y.worker, fs := y.fs, cache := s.cache } out i E A hw htag
        (by simp) hcb
  | workerIdle =>
    simp only [Sys.stepEvs, Sys.workerIdle] at hcb
    cases hs : y.store with
    | none => rw [hs] at hcb; cases hcb
    | some s =>
      rw [hs] at hcb
      simp only [Sys.ackStep, hs]
      have hw : y.worker.WF := (hwf (by rw [hs]; simp)).1
      exact ack_reaches_quiet_C3 i E _ { w := y.worker, fs := y.fs, cache := s.cache } A hw htag
        (by simp) hcb
  | call op => cases hcb
  | flush cb => cases hcb
  | drain => cases hcb
  | drop => cases hcb
  | openWith c => cases hcb

theorem fresh_reqs_C3 (cfg : Cfg) : (Sys.fresh cfg).worker.reqs = [] := by
  have : (Sys.fresh cfg).worker = { files := [⟨0, none⟩] } := by
    simp [Sys.fresh, Sys.open, openStore, Fs.linkedIds, openLoop, emptyStore, Fs.has, Fs.find,
      Fs.create, Fs.write, Fs.update]
  rw [this]; rfl

/-- **A positive callback means the flush is covered.** In a history
`pre ++ [flush (some i)] ++ mid ++ [st] ++ post` of journal steps from a fresh
store in which no other flush uses callback `i` before `st`, if the worker
thread emits `Ev.cb i true` in step `st`, then the acknowledged position at the
end is at or beyond the journal end at the time of that flush. -/
theorem acked_flush_C3 (cfg : Cfg) (pre mid post : List Step) (i : Nat) (st : Step) (s1 : Store)
    (hpre : ∀ x ∈ pre, x.journal = true) (hmid : ∀ x ∈ mid, x.journal = true)
    (hfresh : ∀ x ∈ pre ++ mid, x ≠ .flush (some i))
    (hs1 : ((Sys.fresh cfg).run pre).store = some s1)
    (halive : ((Sys.fresh cfg).run (pre ++ [.flush (some i)] ++ mid)).worker.pc ≠ .dead)
    (hcb : Ev.cb i true ∈ ((Sys.fresh cfg).run (pre ++ [.flush (some i)] ++ mid)).stepEvs st) :
    s1.openEnd ≤ (Sys.fresh cfg).ackRun (pre ++ [.flush (some i)] ++ mid ++ [st] ++ post) 0 := by
  have hrun : (Sys.fresh cfg).run (pre ++ [.flush (some i)] ++ mid)
      = (((Sys.fresh cfg).run pre).step (.flush (some i))).run mid := by
    simp [Sys.run, List.foldl_append]
  rw [hrun] at halive hcb
  have hfj : (Step.flush (some i)).journal = true := rfl
  -- the worker is alive all along
  have hd2 : (((Sys.fresh cfg).run pre).step (.flush (some i))).worker.pc ≠ .dead := by
    intro hdead
    exact halive (Sys.run_dead mid _ hmid hdead)
  have hd1 : ((Sys.fresh cfg).run pre).worker.pc ≠ .dead := by
    intro hdead
    exact hd2 (Sys.step_dead _ _ hfj hdead)
  -- no request with callback `i` before the flush
  have t1 : Tagged i (fun _ => False) ((Sys.fresh cfg).run pre).worker := by
    refine Tagged.sys_run (Q := fun _ => False) pre (Sys.fresh cfg) hpre
      (fun x hx => hfresh x (List.mem_append_left _ hx)) (Sys.fresh_store_isSome cfg) hd1 ?_
    intro r hr _
    rw [fresh_reqs_C3] at hr; cases hr
  have t2 := Tagged.sys_flush hs1 hd1 t1
  have hsome2 : (((Sys.fresh cfg).run pre).step (.flush (some i))).store.isSome = true :=
    Sys.step_store_isSome rfl (by rw [hs1]; rfl)
  have t3 := Tagged.sys_run mid _ hmid (fun x hx => hfresh x (List.mem_append_right _ hx)) hsome2
    halive t2
  have hwf : SysWF ((((Sys.fresh cfg).run pre).step (.flush (some i))).run mid) := by
    rw [← hrun]; exact (SysWF.fresh cfg).run _
  have key := ack_reaches_sys_C3 hwf t3 st
    ((Sys.fresh cfg).ackRun (pre ++ [.flush (some i)] ++ mid) 0) hcb
  have e1 : (Sys.fresh cfg).ackRun (pre ++ [.flush (some i)] ++ mid ++ [st] ++ post) 0
      = (((Sys.fresh cfg).run (pre ++ [.flush (some i)] ++ mid)).step st).ackRun post
          (((Sys.fresh cfg).run (pre ++ [.flush (some i)] ++ mid)).ackStep st
            ((Sys.fresh cfg).ackRun (pre ++ [.flush (some i)] ++ mid) 0)) := by
    rw [List.append_assoc _ [st] post, Sys.ackRun_append]
    rfl
  rw [e1, hrun]
  exact Nat.le_trans key (Sys.le_ackRun _ _ _)

end RaftLog
