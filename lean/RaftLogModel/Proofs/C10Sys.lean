/-
C10 at the system level, helpers (task C10S).

The newest linked chunk file of a clean system is replaced by `encAll rs1 ++ tail`, where
`rs1` is a non-empty prefix of its record list and `tail` is a torn tail (a strict non-empty
prefix of a record encoding, or zero bytes): what `open` does for both settings of
`truncate`, and what it does on the undamaged shorter file `encAll rs1`.
-/
import RaftLogModel.Props.C10
import RaftLogModel.Proofs.C09Sys
namespace RaftLog

/-! ## The Driver's `fsop cut` and `fsop zero` -/

/-- File `c` is cut to `k` bytes: the Driver's `fsop cut c k` (`fs.truncate c k`). -/
def Fs.cutC10S (fs : Fs) (c k : Nat) : Fs := fs.truncate c k

/-- The bytes of file `c` from position `b` on are replaced by `m` zero bytes: the Driver's
`fsop zero c b m`. -/
def Fs.zeroC10S (fs : Fs) (c b m : Nat) : Fs :=
  fs.update c fun f =>
    { f with data := f.data.take b ++ List.replicate m 0, durable := min f.durable b }

theorem Fs.find_update_otherC10S (fs : Fs) {c id : Nat} (h : id ≠ c) (g : File → File)
    (hg : ∀ f, (g f).id = f.id) : (fs.update c g).find id = fs.find id := by
  rw [Fs.find_updateP _ _ _ _ hg]
  cases hf : fs.find id with
  | none => rfl
  | some f =>
    have hid := find_id hf
    have : (f.id == c) = false := by simp [hid, h]
    simp only [Option.map_some, this, Bool.false_eq_true, if_false]

theorem Fs.find_update_selfC10S (fs : Fs) {c : Nat} {f : File} (hf : fs.find c = some f)
    (g : File → File) (hg : ∀ f, (g f).id = f.id) : (fs.update c g).find c = some (g f) := by
  rw [Fs.find_updateP _ _ _ _ hg, hf]
  have hid := find_id hf
  have : (f.id == c) = true := by simp [hid]
  simp only [Option.map_some, this, if_true]

theorem Fs.has_update_otherC10S (fs : Fs) {c id : Nat} (h : id ≠ c) (g : File → File)
    (hg : ∀ f, (g f).id = f.id) : (fs.update c g).has id = fs.has id := by
  unfold Fs.has
  rw [Fs.find_update_otherC10S fs h g hg]

/-! ## Pure lemmas about the replay of a chunk list -/

theorem RepC.splitLastC10S : ∀ (j1 : List (Closed × List Record)) (pc : Closed × List Record)
    (st : RState) (l : Log) (st' : RState) (l' : Log), RepC (j1 ++ [pc]) st l st' l' →
    ∃ st1 l1, RepC j1 st l st1 l1 ∧ stRun pc.2 st1 = some st' ∧
      idxRun (chunkOps pc.1.id pc.2) l1 = some l' := by
  intro j1
  induction j1 with
  | nil =>
    intro pc st l st' l' h
    obtain ⟨c, rs⟩ := pc
    obtain ⟨st1, l1, g1, g2, _, _, _, g6⟩ := h
    obtain ⟨e1, e2⟩ := g6
    subst e1 e2
    exact ⟨st, l, ⟨rfl, rfl⟩, g1, g2⟩
  | cons p rest ih =>
    intro pc st l st' l' h
    obtain ⟨c, rs⟩ := p
    obtain ⟨sta, la, g1, g2, g3, g4, g5, g6⟩ := h
    obtain ⟨st1, l1, hr, k1, k2⟩ := ih pc sta la st' l' g6
    refine ⟨st1, l1, ⟨sta, la, g1, g2, g3, g4, ?_, hr⟩, k1, k2⟩
    cases rest with
    | nil => trivial
    | cons q rest' => exact g5

theorem stRun_prefixC10S {a b : List Record} {st st' : RState} (h : stRun (a ++ b) st = some st') :
    ∃ x, stRun a st = some x ∧ stRun b x = some st' := by
  rw [stRun_append] at h
  cases hx : stRun a st with
  | none => rw [hx] at h; cases h
  | some x => rw [hx] at h; exact ⟨x, rfl, h⟩

theorem idxRun_prefixC10S {a b : List JOp} {l l' : Log} (h : idxRun (a ++ b) l = some l') :
    ∃ x, idxRun a l = some x ∧ idxRun b x = some l' := by
  rw [idxRun_append] at h
  cases hx : idxRun a l with
  | none => rw [hx] at h; cases h
  | some x => rw [hx] at h; exact ⟨x, rfl, h⟩

/-! ## Chunk-level core -/

/-- The chunks `j1` before the newest chunk `pc` are undamaged in `fs0`: the loop loads them,
accepts the id of `pc`, and replaying the prefix `rs1` of `pc`'s records succeeds with the
state and index map given by the cache-free runs. -/
theorem loads_newestC10S (cfg : Cfg) (fs0 : Fs) (j1 : List (Closed × List Record))
    (pc : Closed × List Record) (rs1 : List Record) (st1 : RState) (l1 : Log) (stJ : RState)
    (lJ : Log) (hr1 : RepC j1 {} [] st1 l1) (hs : stRun rs1 st1 = some stJ)
    (hi : idxRun (opsFrom pc.1.id pc.1.id rs1) l1 = some lJ)
    (hfiles : ∀ p ∈ j1, ∃ f, fs0.find p.1.id = some f ∧ f.data = encAll p.2 ∧ AllWF p.2 ∧
      p.2 ≠ [] ∧ offsetsFrom p.1.id (sizes p.2) = p.1.offsets)
    (hch : Chained ((j1 ++ [pc]).map (·.1.offsets))) :
    ∃ a' sm2, Loads cfg (j1.map (·.1.id)) { sm := emptyStore cfg, fs := fs0 } a' ∧
      gapCheck a' pc.1.id = false ∧
      replay pc.1.id rs1 (offsetsFrom pc.1.id (sizes rs1)) a'.pre.sm = .ok sm2 ∧
      sm2.st = stJ ∧ sm2.log = lJ ∧ sm2.closed = j1.map (·.1) := by
  have hch1 : Chained (j1.map (·.1.offsets)) := by
    rw [List.map_append] at hch
    exact Chained.prefixC9S _ _ hch
  obtain ⟨a', m1, m2, m3, m4, _⟩ :=
    loads_repC cfg j1 { sm := emptyStore cfg, fs := fs0 } st1 l1 hr1 hfiles hch1 (fun p _ => rfl)
  have hgap : gapCheck a' pc.1.id = false := by
    rcases List.eq_nil_or_concat j1 with h | ⟨j1', pl, h⟩
    · subst h
      cases m1
      rfl
    · have h' : j1 = j1' ++ [pl] := by rw [h]; simp
      subst h'
      have hlast : ((j1' ++ [pl]).map (·.1.id)).getLast? = some pl.1.id := by simp
      have hprev := m1.prevEndC9S pl.1.id hlast
      obtain ⟨f, hf, hd, _, _, hoffs⟩ := hfiles pl (by simp)
      have hfd : fdata fs0 pl.1.id = encAll pl.2 := by unfold fdata; rw [hf]; exact hd
      simp only [hfd] at hprev
      have hch2 : Chained (pl.1.offsets :: pc.1.offsets :: []) := by
        have : (j1' ++ [pl] ++ [pc]).map (·.1.offsets)
            = j1'.map (·.1.offsets) ++ (pl.1.offsets :: pc.1.offsets :: []) := by
          simp
        rw [this] at hch
        exact hch.drop_prefix
      have e1 : lastOff pl.1.offsets = pc.1.id := hch2.1
      have hend : pl.1.id + (encAll pl.2).length = pc.1.id := by
        rw [← lastOff_sized, hoffs, e1]
      rw [hend] at hprev
      simp [gapCheck, hprev]
  have hst : a'.pre.sm.st = st1 := m2
  have hlog : a'.pre.sm.log = l1 := m3
  obtain ⟨sm2, hrep, k1, k2, k3⟩ := replay_of_runs pc.1.id rs1 pc.1.id a'.pre.sm stJ lJ
    (by rw [hst]; exact hs) (by rw [hlog]; exact hi)
  refine ⟨a', sm2, m1, hgap, hrep, k1, k2, ?_⟩
  rw [k3.closed]
  have : a'.pre.sm.closed = a'.sm.closed := rfl
  rw [this, m4]
  simp [emptyStore]

/-- `open` on the directory whose newest file `i` holds the complete records `rs` followed by a
torn tail, `truncate` enabled: `c10_open_truncates_and_creates` with the index map of the
returned store added. -/
theorem open_truncatesC10S (cfg : Cfg) (fs : Fs) (ids : List Nat) (i : Nat)
    (a' : OpenAcc) (f : File) (rs : List Record) (tail : Bytes) (sm2 : Store)
    (ht : cfg.truncate = true)
    (hids : fs.linkedIds = ids ++ [i])
    (hload : Loads cfg ids { sm := emptyStore cfg, fs := fs } a')
    (habut : gapCheck a' i = false)
    (hfind : fs.find i = some f) (hd : f.data = encAll rs ++ tail)
    (hwf : AllWF rs) (hne : rs ≠ []) (htail : TornTail tail)
    (hr : replay i rs (offsetsFrom i (sizes rs)) a'.pre.sm = .ok sm2)
    (hfree : fs.has (i + (encAll rs).length) = false) :
    ∃ s w fs',
      openStore cfg fs = (.ok (s, w), fs',
        syncEvs ids ++ [.trunc "o" i (encAll rs).length, .sync "o" i true, .sync "o" i true,
         .create "o" (i + (encAll rs).length) true,
         .write "o" (i + (encAll rs).length) (encRecord (.state sm2.st)) true]) ∧
      s.st = sm2.st ∧ s.log = sm2.log ∧
      s.closed = sm2.closed ++ [⟨offsetsFrom i (sizes rs), sm2.st⟩] ∧
      s.pending = [] ∧
      s.openOffsets = [i + (encAll rs).length,
        i + (encAll rs).length + (encRecord (.state sm2.st)).length] ∧
      w.files = [⟨i + (encAll rs).length, sm2.st.last⟩] ∧
      fs'.find i = some { f with data := encAll rs, durable := (encAll rs).length } ∧
      fs'.find (i + (encAll rs).length)
        = some { id := i + (encAll rs).length, data := encRecord (.state sm2.st), durable := 0,
                 linked := true } ∧
      ∀ id, id ≠ i → id ≠ i + (encAll rs).length → fs'.find id = (fs.syncAll ids).find id := by
  obtain ⟨hfs, hevs⟩ := hload.fs_evs
  have hfs' : a'.fs = fs.syncAll ids := hfs
  have hevs' : a'.evs = syncEvs ids := by rw [hevs]; rfl
  obtain ⟨f1, hfind1, hd1, hid1, hlk1⟩ : ∃ f1, (fs.syncAll ids).find i = some f1 ∧
      f1.data = f.data ∧ f1.id = f.id ∧ f1.linked = f.linked := by
    rw [Fs.find_syncAll, hfind]
    by_cases hc : ids.contains f.id = true
    · exact ⟨{ f with durable := f.data.length }, by simp only [Option.map_some, if_pos hc],
        rfl, rfl, rfl⟩
    · exact ⟨f, by simp only [Option.map_some, if_neg hc], rfl, rfl, rfl⟩
  have hfind' : a'.fs.find i = some f1 := by rw [hfs']; exact hfind1
  have hl := openLoop_torn_last ht habut hfind' (hd1.trans hd) hwf hne htail hr
  have hloop : openLoop cfg fs.linkedIds { sm := emptyStore cfg, fs := fs }
      = (.ok (a'.loadedTrunc i rs sm2), a'.loadedTrunc i rs sm2) := by
    rw [hids, hload.openLoop_append, hl]
  have hlen := encAll_length_pos hne
  have hprev : (a'.loadedTrunc i rs sm2).prevEnd.getD 0 = i + (encAll rs).length := by
    simp only [OpenAcc.loadedTrunc, lastOff_sized, Option.getD_some]
  have hafs : (a'.loadedTrunc i rs sm2).fs
      = (((fs.syncAll ids).truncate i (encAll rs).length).sync i) := by
    simp only [OpenAcc.loadedTrunc, OpenAcc.synced, OpenAcc.afterTrunc, OpenAcc.pre, hfs']
  have hhas : (a'.loadedTrunc i rs sm2).fs.has (i + (encAll rs).length) = false := by
    rw [hafs, Fs.has_sync, Fs.has_truncate, Fs.has_syncAll]; exact hfree
  have hst := openStore_fresh hloop (Or.inl rfl) hprev hhas
  have hev : (a'.loadedTrunc i rs sm2).evs
      = syncEvs ids ++ [.trunc "o" i (encAll rs).length, .sync "o" i true, .sync "o" i true] := by
    simp only [OpenAcc.loadedTrunc, OpenAcc.synced, OpenAcc.afterTrunc, OpenAcc.pre, hevs',
      List.append_assoc, List.cons_append, List.nil_append]
  have hcl : prevLastOf (a'.loadedTrunc i rs sm2).sm.closed = sm2.st.last :=
    prevLastOf_concat _ _
  have hsm : (a'.loadedTrunc i rs sm2).sm.st = sm2.st := rfl
  rw [hev, hcl, hsm, hafs] at hst
  obtain ⟨hnew, hother⟩ := find_create_write
    (((fs.syncAll ids).truncate i (encAll rs).length).sync i)
    (i + (encAll rs).length) (encRecord (.state sm2.st))
  simp only [List.append_assoc, List.cons_append, List.nil_append] at hst
  refine ⟨_, _, _, hst, rfl, rfl, rfl, rfl, rfl, rfl, ?_, hnew, ?_⟩
  · rw [hother i (by omega), Fs.find_sync, Fs.find_truncate, hfind1]
    have hid : (f1.id == i) = true := by rw [find_id hfind1]; exact beq_self_eq_true i
    simp only [Option.map_some, hid, if_true]
    simp only [hd1, hd, List.take_left' rfl, hid1, hlk1]
  · intro id h1 h2
    rw [hother id h2, Fs.find_sync, Fs.find_truncate]
    cases hf : (fs.syncAll ids).find id with
    | none => rfl
    | some g =>
      have : (g.id == i) = false := by rw [find_id hf]; exact beq_false_of_ne h1
      simp only [Option.map_some, this, Bool.false_eq_true, if_false]

/-- `open` on the directory whose newest file `i` holds exactly the complete records `rs`
(undamaged): the chunk is reused as the open chunk. -/
theorem open_clean_newestC10S (cfg : Cfg) (fs : Fs) (ids : List Nat) (i : Nat)
    (a' : OpenAcc) (f : File) (rs : List Record) (sm2 : Store) (cl : List Closed)
    (hids : fs.linkedIds = ids ++ [i])
    (hload : Loads cfg ids { sm := emptyStore cfg, fs := fs } a')
    (habut : gapCheck a' i = false)
    (hfind : fs.find i = some f) (hd : f.data = encAll rs)
    (hwf : AllWF rs) (hne : rs ≠ [])
    (hr : replay i rs (offsetsFrom i (sizes rs)) a'.pre.sm = .ok sm2)
    (hcl : sm2.closed = cl) :
    ∃ s w,
      openStore cfg fs = (.ok (s, w), fs.syncAll (ids ++ [i]), syncEvs (ids ++ [i])) ∧
      s.st = sm2.st ∧ s.log = sm2.log ∧ s.closed = cl ∧ s.pending = [] ∧
      s.openOffsets = offsetsFrom i (sizes rs) ∧ w.files = [⟨i, prevLastOf cl⟩] := by
  obtain ⟨f1, hfind1, hd1, _, _⟩ := Fs.find_syncAll_some ids hfind
  obtain ⟨hfs, hevs⟩ := hload.fs_evs
  have hfs' : a'.fs = fs.syncAll ids := hfs
  have hevs' : a'.evs = syncEvs ids := by rw [hevs]; rfl
  have hfind' : a'.fs.find i = some f1 := by rw [hfs']; exact hfind1
  have hstep := openLoop_clean_step (cfg := cfg) [] habut hfind' (hd1.trans hd) hwf (Or.inl hne) hr
  have hloop : openLoop cfg fs.linkedIds { sm := emptyStore cfg, fs := fs }
      = (.ok (a'.loaded i rs sm2), a'.loaded i rs sm2) := by
    rw [hids, hload.openLoop_append, hstep]
    rfl
  have hclosed : (a'.loaded i rs sm2).sm.closed = cl ++ [⟨offsetsFrom i (sizes rs), sm2.st⟩] := by
    simp only [OpenAcc.loaded, hcl]
  have hfsL : (a'.loaded i rs sm2).fs = fs.syncAll (ids ++ [i]) := by
    rw [Fs.syncAll_append]
    simp only [OpenAcc.loaded, OpenAcc.synced, OpenAcc.pre, hfs']
    rfl
  have hevL : (a'.loaded i rs sm2).evs = syncEvs (ids ++ [i]) := by
    rw [syncEvs_append]
    simp only [OpenAcc.loaded, OpenAcc.synced, OpenAcc.pre, hevs']
    rfl
  have := openStore_of_loads cfg hloop hclosed rfl hfsL hevL
  refine ⟨_, _, this, rfl, rfl, rfl, rfl, rfl, ?_⟩
  obtain ⟨t, ht⟩ := offsetsFrom_eq_cons i (sizes rs)
  simp only [Closed.id, ht, List.headD_cons]

/-! ## Cut positions -/

theorem encAll_take_boundaryC10S (rs : List Record) (j : Nat) :
    (encAll rs).take (encAll (rs.take j)).length = encAll (rs.take j) := by
  have e : encAll rs = encAll (rs.take j) ++ encAll (rs.drop j) := by
    rw [← encAll_appendP, List.take_append_drop]
  rw [e]
  exact List.take_left' rfl

/-- A cut position strictly inside record number `j`: the file is the complete records
`rs.take j` followed by a non-empty strict prefix of the encoding of `rs[j]`. -/
theorem take_insideC10S (rs : List Record) (hwf : AllWF rs) (j k : Nat)
    (h1 : (encAll (rs.take j)).length < k) (h2 : k < (encAll (rs.take (j + 1))).length) :
    ∃ r pfx, r ∈ rs ∧ r.WF ∧ (encAll rs).take k = encAll (rs.take j) ++ pfx ∧
      (pfx ≠ [] ∧ ∃ t, t ≠ [] ∧ pfx ++ t = encRecord r) ∧
      pfx.length = k - (encAll (rs.take j)).length := by
  have hj : j < rs.length := by
    apply Classical.byContradiction
    intro hn
    have e1 : rs.take (j + 1) = rs := List.take_of_length_le (by omega)
    have e2 : rs.take j = rs := List.take_of_length_le (by omega)
    rw [e1] at h2; rw [e2] at h1; omega
  have hsucc : rs.take (j + 1) = rs.take j ++ [rs[j]] := by
    rw [List.take_succ_eq_append_getElem hj]
  have hrs : rs = rs.take j ++ rs[j] :: rs.drop (j + 1) := by
    conv => lhs; rw [← List.take_append_drop j rs]
    rw [List.drop_eq_getElem_cons hj]
  rw [hsucc, encAll_appendP] at h2
  simp only [encAll_consP, encAll_nilP, List.append_nil, List.length_append] at h2
  generalize hn : (encAll (rs.take j)).length = n at h1 h2
  have hmem : rs[j] ∈ rs := List.getElem_mem hj
  refine ⟨rs[j], (encRecord rs[j]).take (k - n), hmem, hwf _ hmem, ?_, ⟨?_, (encRecord rs[j]).drop (k - n),
    ?_, List.take_append_drop _ _⟩, ?_⟩
  · conv => lhs; rw [hrs, encAll_appendP, encAll_consP]
    have hk : k = (encAll (rs.take j)).length + (k - n) := by omega
    conv => lhs; rw [hk]
    rw [List.take_length_add_append, List.take_append_of_le_length (by omega)]
  · intro e
    have := congrArg List.length e
    simp only [List.length_take, List.length_nil] at this; omega
  · intro e
    have := congrArg List.length e
    simp only [List.length_drop, List.length_nil] at this; omega
  · simp only [List.length_take]; omega

/-! ## System level -/

/-- What "every other file is as before, up to the sync marks" means below. -/
def sameBytesC10S (a b : Option File) : Prop :=
  a.map (fun g => (g.id, g.data, g.linked)) = b.map (fun g => (g.id, g.data, g.linked))

theorem sameBytes_syncAllC10S (fs : Fs) (ids : List Nat) (id : Nat) :
    sameBytesC10S ((fs.syncAll ids).find id) (fs.find id) := by
  unfold sameBytesC10S
  rw [Fs.find_syncAll]
  cases fs.find id with
  | none => rfl
  | some f => simp only [Option.map_some]; split <;> rfl

theorem sameBytes_hasC10S {fs1 fs2 : Fs} {i : Nat} (h : sameBytesC10S (fs1.find i) (fs2.find i)) :
    fs1.has i = fs2.has i := by
  unfold sameBytesC10S at h
  unfold Fs.has
  cases h1 : fs1.find i with
  | none =>
    cases h2 : fs2.find i with
    | none => rfl
    | some b => rw [h1, h2] at h; cases h
  | some a =>
    cases h2 : fs2.find i with
    | none => rw [h1, h2] at h; cases h
    | some b =>
      rw [h1, h2] at h
      simp only [Option.map_some, Option.some.injEq, Prod.mk.injEq] at h
      exact h.2.2

/-- **The general form.** `y` satisfies the C02 invariant and is clean; `c` is the newest
linked chunk id. Its file `f` is `encAll rs` (well-formed records, the first one a `State`
record). For every split `rs = rs1 ++ rs2` with `rs1 ≠ []` there are a state `stJ` and an index
map `lJ` (those of the store itself when `rs2 = []`) such that for every replacement `g` of
the file's contents (`y.fs.update c g`, `g` keeps id and link):
* if the new contents are exactly `encAll rs1`, `open` (any configuration) succeeds by
  reusing `c`, with state `stJ` and index map `lJ`;
* if they are `encAll rs1 ++ tail` with a torn tail and `truncate` is on, `open` succeeds
  with state `stJ` and index map `lJ`, cuts `c` to `|encAll rs1|` and creates the chunk
  `c + |encAll rs1|`;
* if `Chunk::open` reports the error `k` on the new contents, so does `open`, after syncing
  the earlier chunks only. -/
theorem sys_torn_newestC10S {y : Sys} {rl : RefLog} (h : CSys y rl) (hc : y.Clean)
    {pre : List Nat} {c : Nat} (hsplit : y.fs.linkedIds = pre ++ [c]) :
    ∃ f rs s, y.store = some s ∧ s.st = rl.state ∧ y.fs.find c = some f ∧ f.linked = true ∧
      f.data = encAll rs ∧ AllWF rs ∧ (∃ st tl, rs = .state st :: tl) ∧
      (offsetsFrom c (sizes rs) = s.openOffsets ∧ Abs s rl ∧ ∀ n, c < n → y.fs.has n = false) ∧
      ∀ rs1 rs2, rs = rs1 ++ rs2 → rs1 ≠ [] →
      ∃ stJ lJ, (rs2 = [] → stJ = s.st ∧ lJ = s.log) ∧
        ∀ (g : File → File), (∀ x, (g x).id = x.id) → (∀ x, (g x).linked = x.linked) →
        ((g f).data = encAll rs1 → ∀ cfg', ∃ s0 w0,
          openStore cfg' (y.fs.update c g)
            = (.ok (s0, w0), (y.fs.update c g).syncAll (pre ++ [c]), syncEvs (pre ++ [c])) ∧
          s0.st = stJ ∧ s0.log = lJ ∧ s0.closed = s.closed ∧ s0.pending = [] ∧
          s0.openOffsets = offsetsFrom c (sizes rs1) ∧ w0.files = [⟨c, prevLastOf s.closed⟩]) ∧
        (∀ tail, (g f).data = encAll rs1 ++ tail → TornTail tail → ∀ cfg', cfg'.truncate = true →
          ∃ s' w' fs'',
            openStore cfg' (y.fs.update c g) = (.ok (s', w'), fs'',
              syncEvs pre ++ [.trunc "o" c (encAll rs1).length, .sync "o" c true, .sync "o" c true,
                .create "o" (c + (encAll rs1).length) true,
                .write "o" (c + (encAll rs1).length) (encRecord (.state stJ)) true]) ∧
            s'.st = stJ ∧ s'.log = lJ ∧
            s'.closed = s.closed ++ [⟨offsetsFrom c (sizes rs1), stJ⟩] ∧ s'.pending = [] ∧
            s'.openOffsets = [c + (encAll rs1).length,
              c + (encAll rs1).length + (encRecord (.state stJ)).length] ∧
            w'.files = [⟨c + (encAll rs1).length, stJ.last⟩] ∧
            fs''.find c = some { g f with data := encAll rs1, durable := (encAll rs1).length } ∧
            fs''.find (c + (encAll rs1).length)
              = some { id := c + (encAll rs1).length, data := encRecord (.state stJ), durable := 0,
                       linked := true } ∧
            ∀ id, id ≠ c → id ≠ c + (encAll rs1).length →
              sameBytesC10S (fs''.find id) (y.fs.find id)) ∧
        (∀ tail k cfg', (g f).data = encAll rs1 ++ tail →
          openChunk cfg' c (encAll rs1 ++ tail) = .error k →
          openStore cfg' (y.fs.update c g)
            = (.err k, (y.fs.update c g).syncAll pre, syncEvs pre)) := by
  obtain ⟨s, hs, hq, hp, hrem, hpostp⟩ := hc
  obtain ⟨⟨s0, hs0, hd, hinv⟩, ⟨s1, hs1, hli⟩⟩ := h
  rw [hs] at hs0 hs1; cases hs0; cases hs1
  obtain ⟨hpc, hqe⟩ := quiet_alive hq hd
  have hinf := inflight_quiet hpc hqe
  have htr : y.worker.toRemove = [] := by rw [toRemove_quiet hpc hqe]; exact hpostp
  have hlinked := hli.linkedIds_eq hinv.j hrem htr
  have hn := hli.nodup
  obtain ⟨jc, jo, g0, _, _, hall, hfiles, hmapoffs, hmapids, _⟩ := hinv.load_data hinf hp
  have hhead : ∃ st tl, jo = .state st :: tl := g0.openRecs.2.1
  have hclosedEq := g0.closedEq
  have hchained : Chained ((jc ++ [((⟨s.openOffsets, s.st⟩ : Closed), jo)]).map (·.1.offsets)) := by
    rw [hmapoffs]; exact hinv.j.chained
  rw [← hlinked, hsplit] at hmapids
  -- `c` is the id of the open chunk, `pre` are the ids of the closed chunks
  have hmi : jc.map (·.1.id) = pre ∧ (⟨s.openOffsets, s.st⟩ : Closed).id = c := by
    rw [List.map_append] at hmapids
    simp only [List.map_cons, List.map_nil] at hmapids
    have := List.append_inj' hmapids rfl
    exact ⟨this.1, by simpa using this.2⟩
  obtain ⟨hpre, hcid⟩ := hmi
  generalize hpcdef : ((⟨s.openOffsets, s.st⟩ : Closed), jo) = pc at hall hfiles hchained
  have hpcid : pc.1.id = c := by rw [← hpcdef]; exact hcid
  have hpc2 : pc.2 = jo := by rw [← hpcdef]
  have hpc1 : pc.1 = ⟨s.openOffsets, s.st⟩ := by rw [← hpcdef]
  obtain ⟨f, k1, k2, k3, k4, k5⟩ := hfiles pc (by simp)
  rw [hpcid] at k1 k5
  rw [hpc2] at k2 k3 k4 k5
  rw [hpc1] at k5
  have hsorted := (Fs.linkedIds_spec hn).1
  have hmem := (Fs.linkedIds_spec hn).2
  have hflinked : f.linked = true := by
    have := (hmem c).mp (by rw [hsplit]; simp)
    unfold Fs.has at this
    rw [k1] at this
    exact this
  have hprelt : ∀ p ∈ jc, p.1.id ≠ c := by
    intro p hp1
    rw [hsplit, List.pairwise_append] at hsorted
    have := hsorted.2.2 p.1.id (by rw [← hpre]; exact List.mem_map.mpr ⟨p, hp1, rfl⟩) c (by simp)
    omega
  have hnofile : ∀ n, c < n → y.fs.has n = false := by
    intro n hlt
    cases hh : y.fs.has n with
    | false => rfl
    | true =>
      exfalso
      have hm := (hmem n).mpr hh
      rw [hsplit] at hm hsorted
      rw [List.pairwise_append] at hsorted
      rcases List.mem_append.mp hm with h1 | h1
      · have := hsorted.2.2 n h1 c (by simp); omega
      · simp only [List.mem_singleton] at h1; omega
  obtain ⟨st1, l1, hr1, hsrun, hirun⟩ := RepC.splitLastC10S jc pc {} [] s.st s.log hall
  rw [hpc2] at hsrun
  rw [hpc2, hpcid] at hirun
  refine ⟨f, jo, s, hs, hinv.abs.st, k1, hflinked, k2, k3, hhead, ⟨k5, hinv.abs, hnofile⟩, ?_⟩
  intro rs1 rs2 hrs hne1
  subst hrs
  obtain ⟨stJ, hsJ, hsJ2⟩ := stRun_prefixC10S hsrun
  have hirun' : idxRun (opsFrom c c rs1 ++ opsFrom c (c + (encAll rs1).length) rs2) l1
      = some s.log := by
    rw [← opsFrom_append]; exact hirun
  obtain ⟨lJ, hiJ, hiJ2⟩ := idxRun_prefixC10S hirun'
  have hwf1 : AllWF rs1 := fun x hx => k3 x (by simp [hx])
  refine ⟨stJ, lJ, ?_, ?_⟩
  · intro e
    subst e
    simp only [stRun, Option.some.injEq] at hsJ2
    simp only [opsFrom, idxRun, Option.some.injEq] at hiJ2
    exact ⟨hsJ2, hiJ2⟩
  intro g hgid hglk
  -- the damaged directory
  have hfind0 : (y.fs.update c g).find c = some (g f) := Fs.find_update_selfC10S _ k1 g hgid
  have hids0 : (y.fs.update c g).linkedIds = jc.map (·.1.id) ++ [pc.1.id] := by
    rw [Fs.linkedIds_update _ _ _ hgid hglk, hsplit, hpre, hpcid]
  have hfiles0 : ∀ p ∈ jc, ∃ f0, (y.fs.update c g).find p.1.id = some f0 ∧ f0.data = encAll p.2 ∧
      AllWF p.2 ∧ p.2 ≠ [] ∧ offsetsFrom p.1.id (sizes p.2) = p.1.offsets := by
    intro p hp1
    obtain ⟨f0, q1, q2⟩ := hfiles p (by simp [hp1])
    exact ⟨f0, by rw [Fs.find_update_otherC10S _ (hprelt p hp1) g hgid]; exact q1, q2⟩
  have hiJ' : idxRun (opsFrom pc.1.id pc.1.id rs1) l1 = some lJ := by rw [hpcid]; exact hiJ
  have hcl1 : jc.map (·.1) = s.closed := hclosedEq
  refine ⟨?_, ?_, ?_⟩
  · intro hdata cfg'
    obtain ⟨a', sm2, m1, m2, m3, m4, m5, m6⟩ := loads_newestC10S cfg' (y.fs.update c g) jc pc rs1
      st1 l1 stJ lJ hr1 hsJ hiJ' hfiles0 hchained
    rw [hpcid] at m2 m3 hids0
    obtain ⟨sA, wA, e1, e2, e3, e4, e5, e6, e7⟩ := open_clean_newestC10S cfg' (y.fs.update c g) _ c a'
      (g f) rs1 sm2 s.closed hids0 m1 m2 hfind0 hdata hwf1 hne1 m3 (by rw [m6, hcl1])
    rw [hpre] at e1
    exact ⟨sA, wA, e1, e2.trans m4, e3.trans m5, e4, e5, e6, e7⟩
  · intro tail hdata htail cfg' htr'
    obtain ⟨a', sm2, m1, m2, m3, m4, m5, m6⟩ := loads_newestC10S cfg' (y.fs.update c g) jc pc rs1
      st1 l1 stJ lJ hr1 hsJ hiJ' hfiles0 hchained
    rw [hpcid] at m2 m3 hids0
    have hlen := encAll_length_pos hne1
    have hfree : (y.fs.update c g).has (c + (encAll rs1).length) = false := by
      rw [Fs.has_update_otherC10S _ (by omega) g hgid]
      exact hnofile _ (by omega)
    obtain ⟨sA, wA, fsA, e1, e2, e3, e4, e5, e6, e7, e8, e9, e10⟩ :=
      open_truncatesC10S cfg' (y.fs.update c g) _ c a' (g f) rs1 tail sm2 htr' hids0 m1 m2 hfind0
        hdata hwf1 hne1 htail m3 hfree
    rw [m4] at e1 e4 e6 e7 e9
    rw [hpre] at e1
    refine ⟨sA, wA, fsA, e1, e2.trans m4, e3.trans m5, by rw [e4, m6, hcl1], e5, e6, e7, e8, e9, ?_⟩
    intro id h1 h2
    rw [e10 id h1 h2]
    have := sameBytes_syncAllC10S (y.fs.update c g) (jc.map (·.1.id)) id
    rw [Fs.find_update_otherC10S _ h1 g hgid] at this
    exact this
  · intro tail k cfg' hdata hoc
    have hall' : RepC (jc ++ pc :: []) {} [] s.st s.log := hall
    have := openStore_err_of_chunksC9S cfg' (y.fs.update c g) jc pc [] s.st s.log hall' hfiles0
      hchained (by rw [hids0]; rfl) (g f) (by rw [hpcid]; exact hfind0) k
      (by rw [hpcid, hdata]; exact hoc)
    rw [hpre] at this
    exact this

end RaftLog
