/-
C03 without "no removal outstanding", part 7: the ghost invariant under the
caller-thread steps. A purge that drops chunks adds them to the ghost list; nothing
else changes the list.
-/
import RaftLogModel.Proofs.CrashQG6
namespace RaftLog

/-! ### More facts about calls -/

/-- The journal end never moves back. -/
theorem call_openEnd_C3b (s : Store) (fsHas : Nat → Bool) (op : Op) :
    s.openEnd ≤ (s.call fsHas op).2.1.openEnd := by
  have same : ∀ (r : Res Seg), CallOKC3b s.openEnd s.removed (r, s, ([] : List Eff)) :=
    fun r => ⟨Nat.le_refl _, rfl, by simpa [effQ] using AllGeC3b.nil _⟩
  cases op with
  | saveVote v => exact (appendAndApply_facts_C3b _ _ _).1
  | commit id => exact (appendAndApply_facts_C3b _ _ _).1
  | saveUserData d => exact (appendAndApply_facts_C3b _ _ _).1
  | append es =>
    simp only [Store.call]
    split
    · exact Nat.le_refl _
    · exact (appendBatch_facts_C3b s.openEnd es _ s _ [] (Nat.le_refl _)
        (by simpa [effQ] using AllGeC3b.nil _)).1
  | truncate idx =>
    simp only [Store.call]
    split
    · exact Nat.le_refl _
    · split
      · exact (appendAndApply_facts_C3b _ _ _).1
      · split
        · exact Nat.le_refl _
        · split
          · exact Nat.le_refl _
          · exact (appendAndApply_facts_C3b _ _ _).1
  | purge upto =>
    simp only [Store.call]
    split
    · exact Nat.le_refl _
    split
    · exact Nat.le_refl _
    · split
      · split <;> exact Nat.le_refl _
      · have := appendAndApply_facts_C3b s fsHas (.purgeUpto upto)
        generalize s.appendAndApply fsHas (.purgeUpto upto) = x at this ⊢
        obtain ⟨res, s4, effs⟩ := x
        cases res with
        | ok seg => exact this.1
        | err k => exact this.1
        | panic m => exact this.1

/-- A purge at or below the purge point changes nothing, lifted or not. -/
theorem call_lift_purge_noop_C3b (s : Store) (cs : List Closed) (fsHas : Nat → Bool) (upto : LogId)
    (nxt : Nat) (hn : nextIndexChecked s.st.purged = some nxt) (hlt : upto.index < nxt) :
    (s.liftC3b cs).call fsHas (.purge upto) = liftResC3b cs (s.call fsHas (.purge upto)) ∧
      (s.call fsHas (.purge upto)).2.1.removed = s.removed := by
  by_cases hidxD12 : upto.index + 1 = U64
  · rw [call_purge_refused_D12 _ _ _ hidxD12, call_purge_refused_D12 _ _ _ hidxD12]
    exact ⟨rfl, rfl⟩
  simp only [Store.call, if_neg hidxD12, Store.liftC3b_st, hn, hlt, if_true, Store.liftC3b_openOffsets]
  cases lastSegment s.openOffsets <;> exact ⟨rfl, rfl⟩

/-! ### Flush -/

theorem flush_fs_C3b (s : Store) (cb : Option Nat) (fs : Fs) : effFs (s.flush cb).2 fs = fs := by
  unfold Store.flush
  by_cases hr : s.removed.isEmpty = true <;> simp [hr, effFs]

theorem GInvC3b.flush {s : Store} {fs : Fs} {w : Worker} {r : RefLog} {W : List Op} {A E K Bh : Nat}
    {gs : List GhostC3b} (h : GInvC3b s fs w r W A E K Bh gs) (cb : Option Nat) :
    GInvC3b (s.flush cb).1 (effFs (s.flush cb).2 fs) (w.push (effQ (s.flush cb).2)).settle r W A E K Bh gs := by
  have hstepH : ∀ {E' K' : Nat}, HInv (s.liftC3b (ghostClosedC3b gs)) fs w r W Bh A E' K' →
      HInv ((s.flush cb).1.liftC3b (ghostClosedC3b gs)) (effFs (s.flush cb).2 fs)
        (w.push (effQ (s.flush cb).2)).settle r W Bh A E' K' :=
    fun hi => (flush_H hi cb).settle
  refine ⟨hstepH h.base, fun p hp => ?_, ?_, h.ack, h.mono, h.lo, (h.unl.push _).settle⟩
  · have hpe := h.ents p hp
    refine ⟨hstepH hpe.hinv, hpe.cov, hpe.mlo, hpe.mhi, ?_, ?_⟩
    · rw [flush_fs_C3b]; exact hpe.linked
    · rcases hpe.guard with k | k | k
      · exact Or.inl k
      · exact Or.inr (Or.inr (flush_guardAt_C3b s w cb hpe.mhi k))
      · exact Or.inr (Or.inr (k.push _ (flush_allGe_C3b s cb hpe.mhi)).settle)
  · rw [Worker.toRemove_settle, toRemove_push_C3b, flush_rmIds_C3b]
    have : (s.flush cb).1.removed = [] := rfl
    rw [this, List.append_nil]
    exact h.order

/-! ### A call that commutes with the lift -/

theorem GInvC3b.call_lifted {s : Store} {fs : Fs} {w : Worker} {r r' : RefLog} {W : List Op}
    {A E K Bh : Nat} {gs : List GhostC3b} (fsHas : Nat → Bool) {op : Op}
    (h : GInvC3b s fs w r W A E K Bh gs)
    (hlift : (s.liftC3b (ghostClosedC3b gs)).call fsHas op
      = liftResC3b (ghostClosedC3b gs) (s.call fsHas op))
    (hrem : (s.call fsHas op).2.1.removed = s.removed)
    (hfs : ∀ i, s.openEnd ≤ i → fsHas i = false)
    (hl : r.legal op = true) (hc : r.call op = .ok r') (hsm : op.small) (hwf : op.WF) :
    GInvC3b (s.call fsHas op).2.1 (effFs (s.call fsHas op).2.2 fs)
      (w.push (effQ (s.call fsHas op).2.2)).settle r' (W ++ op.expand1 r) A E K Bh gs := by
  have hstepH : ∀ {E' K' : Nat}, HInv (s.liftC3b (ghostClosedC3b gs)) fs w r W Bh A E' K' →
      HInv ((s.call fsHas op).2.1.liftC3b (ghostClosedC3b gs)) (effFs (s.call fsHas op).2.2 fs)
        (w.push (effQ (s.call fsHas op).2.2)).settle r' (W ++ op.expand1 r) Bh A E' K' := by
    intro E' K' hi
    obtain ⟨seg, s', effs, heq, hinv⟩ := call_H fsHas hi hfs hl hc hsm hwf
    rw [hlift] at heq
    simp only [liftResC3b, Prod.mk.injEq] at heq
    obtain ⟨_, hs', heffs⟩ := heq
    subst hs'; subst heffs
    have hmk : markAfter (s.liftC3b (ghostClosedC3b gs))
        ((s.call fsHas op).2.1.liftC3b (ghostClosedC3b gs)) Bh = Bh := by
      simp only [markAfter, Store.liftC3b_removed, hrem, if_true]
    rw [hmk] at hinv
    exact hinv.settle
  obtain ⟨_, hge⟩ := call_facts_C3b s fsHas op
  have hoe := call_openEnd_C3b s fsHas op
  refine ⟨hstepH h.base, fun p hp => ?_, ?_, h.ack, h.mono, h.lo, (h.unl.push _).settle⟩
  · have hpe := h.ents p hp
    have hk : p.k ≤ W.length := by
      obtain ⟨jc, jo, _, hg⟩ := hpe.hinv.hist
      exact hg.count_le_C3b
    refine ⟨hstepH hpe.hinv, hpe.cov.extend hk h.base.run (run_expand1_C3 hl hc), hpe.mlo,
      Nat.le_trans hpe.mhi hoe, effFs_has_mono_C3b _ _ _ hpe.linked, ?_⟩
    rcases hpe.guard with k | k | k
    · exact Or.inl k
    · exact Or.inr (Or.inl (by rw [hrem]; exact k))
    · exact Or.inr (Or.inr (k.push _ (hge.mono hpe.mhi)).settle)
  · rw [Worker.toRemove_settle, toRemove_push_C3b, NoRmC3b.call s fsHas op, List.append_nil, hrem]
    exact h.order

/-! ### A purge that journals a record (and may drop chunks) -/

theorem GInvC3b.call_purge {s : Store} {fs : Fs} {w : Worker} {r r' : RefLog} {W : List Op}
    {A E K Bh : Nat} {gs : List GhostC3b} (fsHas : Nat → Bool) {upto : LogId}
    (h : GInvC3b s fs w r W A E K Bh gs) (hli : LInv s fs w) (hjr : JInv s fs w)
    (hfs : ∀ i, s.openEnd ≤ i → fsHas i = false)
    (hl : r.legal (.purge upto) = true) (hc : r.call (.purge upto) = .ok r')
    (hsm : (Op.purge upto).small) (hwf : (Op.purge upto).WF)
    (hnn : ¬ upto.index < nextIndex r.purged) :
    ∃ gs', GInvC3b (s.call fsHas (.purge upto)).2.1 (effFs (s.call fsHas (.purge upto)).2.2 fs)
      (w.push (effQ (s.call fsHas (.purge upto)).2.2)).settle r' (W ++ [.purge upto]) A E K Bh gs' := by
  have habs := h.base.inv.abs
  have hpu : s.st.purged = r.purged := by
    have := habs.st
    simp only [Store.liftC3b_st] at this
    rw [this]; rfl
  have hc0 := hc
  simp only [RefLog.call, if_neg hnn] at hc
  injection hc with hc
  have ok := stepOK_purgeUpto habs hl hnn hsm
  rw [hc] at ok
  have hrun1 : r.run [.purge upto] = some r' := run_single_C3 hl hc0
  -- the real `appendAndApply`
  obtain ⟨s'0, effs0, heq0, _, _, _, _⟩ := hinv_step fsHas h.base hfs ok hwf hrun1 rfl
  rw [appendAndApply_lift_C3b] at heq0
  rcases hx : s.appendAndApply fsHas (.purgeUpto upto) with ⟨res, s1, effs1⟩
  rw [hx] at heq0
  simp only [liftResC3b, Prod.mk.injEq] at heq0
  obtain ⟨hres, _, _⟩ := heq0
  subst hres
  have hstep : ∀ {E' K' : Nat}, HInv (s.liftC3b (ghostClosedC3b gs)) fs w r W Bh A E' K' →
      HInv (s1.liftC3b (ghostClosedC3b gs)) (effFs effs1 fs) (w.push (effQ effs1)) r'
        (W ++ [.purge upto]) Bh A E' K' := by
    intro E' K' hi
    obtain ⟨s', effs, heq, hinv, _⟩ := hinv_step fsHas hi hfs ok hwf hrun1 rfl
    rw [appendAndApply_lift_C3b, hx] at heq
    simp only [liftResC3b, Prod.mk.injEq] at heq
    obtain ⟨_, hs', heffs⟩ := heq
    subst hs'; subst heffs
    exact hinv
  have hfacts := appendAndApply_facts_C3b s fsHas (.purgeUpto upto)
  rw [hx] at hfacts
  obtain ⟨hoe, hrm1, hge⟩ := hfacts
  simp only at hoe hrm1 hge
  have hL1 : LInv s1 (effFs effs1 fs) (w.push (effQ effs1)) := by
    have := appendAndApply_L fsHas hli hjr (r := .purgeUpto upto) hwf hfs
    rw [hx] at this
    exact this
  -- the real call
  have hn : nextIndexChecked s.st.purged = some (nextIndex r.purged) := by
    have := nextIndexChecked_eq habs.pf.purged
    simp only [Store.liftC3b_st] at this
    rw [this, hpu]
  have hidxD12 : upto.index + 1 ≠ U64 := by
    have : upto.index + 1 < U64 := hsm
    omega
  rw [call_purge_C3b s fsHas upto _ hn hnn hidxD12 hx]
  simp only
  obtain ⟨pre, hpre, hids, hall⟩ := popObsolete_pre_C3b upto s1.closed
  generalize hs2 : ({ s1 with closed := (popObsolete upto s1.closed).2, removed := s1.removed ++ (popObsolete upto s1.closed).1 } : Store) = s2
  have k1 : s2.st = s1.st := by rw [← hs2]
  have k2 : s2.log = s1.log := by rw [← hs2]
  have k3 : s2.openOffsets = s1.openOffsets := by rw [← hs2]
  have k4 : s2.pending = s1.pending := by rw [← hs2]
  have k5 : s2.closed = (popObsolete upto s1.closed).2 := by rw [← hs2]
  have k6 : s2.removed = s.removed ++ pre.map Closed.id := by rw [← hs2, ← hids, ← hrm1]
  have e3 : s2.openEnd = s1.openEnd := by simp [Store.openEnd, k3]
  let W' := W ++ [Op.purge upto]
  let gs' := gs ++ pre.map (fun c => (⟨c, s1.openEnd, W'.length⟩ : GhostC3b))
  have hcs' : ghostClosedC3b gs' = ghostClosedC3b gs ++ pre := by
    simp [gs', ghostClosedC3b, List.map_map, Function.comp_def]
  have hcong : ∀ {E' K' : Nat} {w2 : Worker},
      HInv (s1.liftC3b (ghostClosedC3b gs)) (effFs effs1 fs) w2 r' W' Bh A E' K' →
      HInv (s2.liftC3b (ghostClosedC3b gs')) (effFs effs1 fs) w2 r' W' Bh A E' K' := by
    intro E' K' w2 hi
    refine hi.congr_C3b k1 k2 k3 k4 ?_
    rw [hcs']
    simp only [Store.liftC3b_closed, k5, List.append_assoc]
    rw [← hpre]
  have hfin : ∀ {E' K' : Nat}, HInv (s.liftC3b (ghostClosedC3b gs)) fs w r W Bh A E' K' →
      HInv (s2.liftC3b (ghostClosedC3b gs')) (effFs effs1 fs) (w.push (effQ effs1)).settle r' W' Bh A E' K' :=
    fun hi => hcong (hstep hi).settle
  have hj1 : JInv (s1.liftC3b (ghostClosedC3b gs)) (effFs effs1 fs) (w.push (effQ effs1)) :=
    (hstep h.base).inv.j
  have hmkle : Bh ≤ s1.openEnd := Nat.le_trans h.base.markLe hoe
  refine ⟨gs', hfin h.base, ?_, ?_, h.ack, ?_, ?_, (h.unl.push _).settle⟩
  · intro p hp
    rcases List.mem_append.mp hp with hp | hp
    · -- an older ghost chunk
      have hpe := h.ents p hp
      have hk : p.k ≤ W.length := by
        obtain ⟨jc, jo, _, hg⟩ := hpe.hinv.hist
        exact hg.count_le_C3b
      refine ⟨hfin hpe.hinv, hpe.cov.extend hk h.base.run hrun1, hpe.mlo,
        by rw [e3]; exact Nat.le_trans hpe.mhi hoe, effFs_has_mono_C3b _ _ _ hpe.linked, ?_⟩
      rcases hpe.guard with k | k | k
      · exact Or.inl k
      · exact Or.inr (Or.inl (by rw [k6]; exact List.mem_append_left _ k))
      · exact Or.inr (Or.inr (k.push _ (hge.mono hpe.mhi)).settle)
    · -- a chunk dropped by this purge
      obtain ⟨c, hcm, rfl⟩ := List.mem_map.mp hp
      have hc1 : c ∈ s1.closed := by rw [hpre]; exact List.mem_append_left _ hcm
      refine ⟨?_, ?_, ?_, by rw [e3]; exact Nat.le_refl _, ?_, ?_⟩
      · have := (hfin h.base).retarget_C3b
        simpa [e3, W'] using this
      · intro n hkn hn r'' hr''
        have hnn' : n = W'.length := Nat.le_antisymm hn hkn
        rw [hnn', List.take_length] at hr''
        have hrw : RefLog.run {} W' = some r' := (hstep h.base).run
        rw [hrw] at hr''
        injection hr'' with hr''
        subst hr''
        have h1 : optLe c.state.last (some upto) = true := optLe_of_not_lt (hall c hcm)
        refine optLe_trans h1 ?_
        rw [← hc]
        simp only
        split
        · exact optLe_refl _
        · rename_i hlt
          exact optLe_of_not_lt (by simpa using hlt)
      · have h1 := hj1.closedLe c (by simp [hc1])
        have h2 := hj1.openId_lt
        simp only [Store.liftC3b_openId, Store.liftC3b_openEnd] at h1 h2
        simp only
        omega
      · apply effFs_has_mono_C3b [] 
        have : c.id ∈ s1.chunkIds := by
          rw [Store.chunkIds_eq]
          exact List.mem_append_left _ (List.mem_map.mpr ⟨c, hc1, rfl⟩)
        exact hL1.live _ this
      · exact Or.inr (Or.inl (by rw [k6]; exact List.mem_append_right _ (List.mem_map.mpr ⟨c, hcm, rfl⟩)))
  · have hnr : rmIds (effQ effs1) = [] := by
      have := NoRmC3b.appendAndApply s fsHas (.purgeUpto upto)
      rw [hx] at this
      exact this
    rw [Worker.toRemove_settle, toRemove_push_C3b, hnr, List.append_nil, k6, hcs', List.map_append,
      ← List.append_assoc, h.order]
  · rw [List.pairwise_append]
    refine ⟨h.mono, ?_, ?_⟩
    · rw [List.pairwise_map]
      exact List.pairwise_of_forall (fun _ _ => Nat.le_refl _)
    · intro a ha b hb
      obtain ⟨c, _, rfl⟩ := List.mem_map.mp hb
      exact Nat.le_trans (h.ents a ha).mhi hoe
  · intro p hp
    rcases List.mem_append.mp hp with hp | hp
    · exact h.lo p hp
    · obtain ⟨c, _, rfl⟩ := List.mem_map.mp hp
      exact hmkle

end RaftLog
