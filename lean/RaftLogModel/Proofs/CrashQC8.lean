/-
C08 at system level: helper lemmas on top of the ghost invariant of `Proofs/CrashQG*.lean`.
-/
import RaftLogModel.Proofs.CrashQG9
import RaftLogModel.Props.C08
namespace RaftLog

/-! ### Reachable states satisfy the ghost invariant -/

theorem reach_GSys_C8s (cfg : Cfg) (steps : List Step) (r : RefLog)
    (hsteps : ∀ st ∈ steps, st.journal = true)
    (hlegal : RefLog.run {} (stepOps steps) = some r)
    (hwf : ∀ op ∈ stepOps steps, op.WF ∧ op.small)
    (halive : ((Sys.fresh cfg).run steps).worker.pc ≠ .dead) :
    GSysC3b ((Sys.fresh cfg).run steps) r (expandOps {} (stepOps steps))
      ((Sys.fresh cfg).ackRun steps 0) 0 0 := by
  have := run_GSys_C3b steps (Sys.fresh cfg) {} r [] 0 0 0 0 (fresh_HSys cfg) (fresh_GSys_C3b cfg)
    hsteps hlegal hwf halive
  simpa using this

/-! ### Index entries point into linked chunks -/

theorem idxRun_chunks_C8s (ops : List JOp) : ∀ (l l' : Log), idxRun ops l = some l' →
    ∀ e ∈ l', e ∈ l ∨ ∃ op ∈ ops, e.2.chunk = op.chunk := by
  induction ops with
  | nil =>
    intro l l' h e he
    simp only [idxRun, Option.some.injEq] at h
    subst h; exact Or.inl he
  | cons op ops ih =>
    intro l l' h e he
    simp only [idxRun] at h
    split at h
    · cases h
    · rename_i l1 h1
      rcases ih l1 l' h e he with k | ⟨op', hop', k⟩
      · have hk : e ∈ l ∨ e.2.chunk = op.chunk := by
          cases hr : op.r with
          | append id p =>
            rw [hr] at h1
            simp only [idxLogO, Option.some.injEq] at h1
            subst h1
            rcases mem_logInsert k with k' | k'
            · right; rw [k']
            · exact Or.inl k'
          | truncateAfter o =>
            rw [hr] at h1
            simp only [idxLogO] at h1
            split at h1
            · cases h1
            · injection h1 with h1; subst h1; exact Or.inl (List.mem_filter.mp k).1
          | purgeUpto id =>
            rw [hr] at h1
            simp only [idxLogO] at h1
            split at h1
            · cases h1
            · injection h1 with h1; subst h1; exact Or.inl (List.mem_filter.mp k).1
          | saveVote v => rw [hr] at h1; simp only [idxLogO, Option.some.injEq] at h1; subst h1; exact Or.inl k
          | commit id => rw [hr] at h1; simp only [idxLogO, Option.some.injEq] at h1; subst h1; exact Or.inl k
          | state x => rw [hr] at h1; simp only [idxLogO, Option.some.injEq] at h1; subst h1; exact Or.inl k
        rcases hk with k' | k'
        · exact Or.inl k'
        · exact Or.inr ⟨op, List.mem_cons_self, k'⟩
      · exact Or.inr ⟨op', List.mem_cons_of_mem _ hop', k⟩

theorem RepG.op_chunk_C8s {s : Store} {fs : Fs} {w : Worker} {jc : List (Closed × List Record)}
    {jo : List Record} (g : RepG s fs w jc jo) : ∀ op ∈ allOps s jc jo, op.chunk ∈ s.chunkIds := by
  intro op hop
  rw [Store.chunkIds_eq]
  rcases List.mem_append.mp hop with h1 | h1
  · obtain ⟨p, hp, hop'⟩ := mem_flatOps.mp h1
    rw [(opsFrom_off_lt hop').2.2]
    exact List.mem_append_left _ (List.mem_map.mpr ⟨p.1, g.mem_closed hp, rfl⟩)
  · rw [(opsFrom_off_lt h1).2.2]
    exact List.mem_append_right _ (by simp)

/-- Every index entry points into a chunk of the store. -/
theorem RepG.log_chunk_C8s {s : Store} {fs : Fs} {w : Worker} {jc : List (Closed × List Record)}
    {jo : List Record} (g : RepG s fs w jc jo) : ∀ e ∈ s.log, e.2.chunk ∈ s.chunkIds := by
  intro e he
  rcases idxRun_chunks_C8s _ [] s.log g.flat_run.2 e he with k | ⟨op, hop, k⟩
  · cases k
  · rw [k]; exact g.op_chunk_C8s op hop

/-! ### The chunk being unlinked is the oldest ghost chunk, and its marker is acknowledged -/

theorem GInvC3b.head_acked_C8s {s : Store} {fs : Fs} {w : Worker} {r : RefLog} {W : List Op}
    {A E K Bh : Nat} {gs : List GhostC3b} (h : GInvC3b s fs w r W A E K Bh gs) {i : Nat} {ids : List Nat}
    (hpc : w.pc = .unlinking (i :: ids)) :
    ∃ p0 gs', gs = p0 :: gs' ∧ p0.c.id = i ∧ p0.m ≤ A := by
  have hj := h.base.inv.j
  have hpost : w.postponed = [] := h.unl _ hpc
  have htr : w.toRemove = (i :: ids) ++ rmIds w.rest := by
    simp [Worker.toRemove, hpc, WPc.unl, WPc.inHand, hpost, Worker.rest]
  have hord := h.order
  rw [htr, List.cons_append, List.cons_append] at hord
  cases gs with
  | nil => simp [ghostClosedC3b] at hord
  | cons p0 gs' =>
    simp only [ghostClosedC3b, List.map_cons, List.cons.injEq] at hord
    obtain ⟨hi0, hord'⟩ := hord
    have hlt := ghost_ids_lt_C3b hj
    have hp0 := h.ents p0 List.mem_cons_self
    have hnotin : i ∉ ids ++ rmIds w.rest ++ s.removed := by
      intro hm
      rw [hord'] at hm
      have := hlt i (List.mem_append_left _ (by simpa [ghostClosedC3b] using hm))
      omega
    refine ⟨p0, gs', rfl, hi0.symm, ?_⟩
    rcases hp0.guard with k | k | k
    · exact k
    · exact absurd (List.mem_append_right _ (hi0 ▸ k)) hnotin
    · rcases k.mem with k' | k'
      · rw [hpost] at k'; cases k'
      · exact absurd (List.mem_append_left _ (List.mem_append_right _ (hi0 ▸ k'))) hnotin

/-- An `unlink` event of a worker step: the worker is parked at `unlinking (c :: _)`. -/
theorem unlink_ev_pc_C8s {c : WCtx} {out : Outcome} {i : Nat} (hev : c.evs = [])
    (h : Ev.unlink "w" i true ∈ (c.step out).evs) : ∃ rest, c.w.pc = .unlinking (i :: rest) := by
  rcases mem_step_evs_unlink h with h | h
  · rw [hev] at h; cases h
  · obtain ⟨rest, hpc, _, _⟩ := mem_stepSys_unlink h
    exact ⟨rest, hpc⟩

/-! ### Linked ids under a worker step -/

theorem linkedIds_of_has_eq_C8s {fs fs' : Fs} (hn : (Fs.ids fs).Nodup) (hn' : (Fs.ids fs').Nodup)
    (h : ∀ id, fs'.has id = fs.has id) : fs'.linkedIds = fs.linkedIds := by
  obtain ⟨k1, k2⟩ := Fs.linkedIds_spec hn
  obtain ⟨k1', k2'⟩ := Fs.linkedIds_spec hn'
  apply sorted_ext (fun x : Nat => x) _ _ k1' k1
  intro x
  rw [k2, k2', h]

theorem linkedIds_of_unlink_head_C8s {fs fs' : Fs} {i : Nat} {rest : List Nat}
    (hn : (Fs.ids fs).Nodup) (hn' : (Fs.ids fs').Nodup)
    (h : ∀ id, fs'.has id = (fs.has id && id != i)) (hl : fs.linkedIds = i :: rest) :
    fs'.linkedIds = rest := by
  obtain ⟨k1, k2⟩ := Fs.linkedIds_spec hn
  obtain ⟨k1', k2'⟩ := Fs.linkedIds_spec hn'
  rw [hl] at k1 k2
  have hp := List.pairwise_cons.mp k1
  apply sorted_ext (fun x : Nat => x) _ _ k1' hp.2
  intro x
  rw [k2', h]
  constructor
  · intro hx
    simp only [Bool.and_eq_true, bne_iff_ne, ne_eq] at hx
    have := (k2 x).mpr hx.1
    rcases List.mem_cons.mp this with e | e
    · exact absurd e hx.2
    · exact e
  · intro hx
    have h1 := (k2 x).mp (List.mem_cons_of_mem _ hx)
    have h2 := hp.1 x hx
    have : x ≠ i := by omega
    simp [h1, this]

/-! ### No failed sync, nothing postponed -/

/-- A worker step whose outcome is not `eio` keeps "the last sync did not fail and
nothing is postponed". -/
theorem step_clean_C8s (c : WCtx) (out : Outcome) (hw : c.w.WF) (ho : out ≠ .eio)
    (h : c.w.lastSyncFailed = false ∧ c.w.postponed = []) :
    (c.step out).w.lastSyncFailed = false ∧ (c.step out).w.postponed = [] := by
  have h1 := (c08_lastSyncFailed c out hw).1
  have hl : (c.step out).w.lastSyncFailed = false := by
    rw [h1]
    cases hpc : c.w.pc <;> simp [h.1, ho]
  refine ⟨hl, ?_⟩
  rcases c08_postponed_in_request_order c out hw with k | ⟨ids, _, k, _⟩ | ⟨ids, _, _, k⟩
  · rw [k]; exact h.2
  · rw [hl] at k; cases k
  · exact k

theorem runQuiet_clean_C8s (n : Nat) (c : WCtx) (hw : c.w.WF)
    (h : c.w.lastSyncFailed = false ∧ c.w.postponed = []) :
    (WCtx.runQuiet n c).w.lastSyncFailed = false ∧ (WCtx.runQuiet n c).w.postponed = [] :=
  (WCtx.runQuiet_induct (P := fun c => c.w.WF ∧ c.w.lastSyncFailed = false ∧ c.w.postponed = [])
    (fun c hc _ => ⟨c.step_wf .ok hc.1, step_clean_C8s c .ok hc.1 (by simp) hc.2⟩) n c ⟨hw, h⟩).2

theorem settle_clean_C8s (w : Worker) :
    w.settle.lastSyncFailed = w.lastSyncFailed ∧ w.settle.postponed = w.postponed := by
  rcases w.settle_cases with ⟨r, q, _, _, e⟩ | e <;> rw [e] <;> exact ⟨rfl, rfl⟩

/-- A quiet live worker with nothing postponed has nothing to unlink. -/
theorem toRemove_of_quiet_C8s {w : Worker} (hq : w.quiet = true) (hd : w.pc ≠ .dead)
    (hp : w.postponed = []) : w.toRemove = [] := by
  unfold Worker.quiet at hq
  cases hpc : w.pc with
  | idle =>
    rw [hpc] at hq
    have hqe : w.queue = [] := by simpa using hq
    simp [Worker.toRemove, hpc, WPc.unl, WPc.inHand, hqe, hp, rmIds]
  | dead => exact absurd hpc hd
  | got r => rw [hpc] at hq; cases hq
  | writing a b t => rw [hpc] at hq; cases hq
  | syncOld b t => rw [hpc] at hq; cases hq
  | syncNew b t => rw [hpc] at hq; cases hq
  | unlinking ids => rw [hpc] at hq; cases hq

end RaftLog
