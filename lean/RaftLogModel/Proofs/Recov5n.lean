/-
C05 (crash recoverability), part 13: a crash at ANY moment of recovery. `open` applies its
file-system effects one by one (truncate + sync of a torn tail; unlink of a newest file
without a complete record; create; write of the head). After every prefix of these effects
the directory is one whose every crash image can be opened again, with the same state and
index map.
-/
import RaftLogModel.Proofs.Recov5m
namespace RaftLog

/-! ### `open` on a crash image of a directory of complete, durable chunk files -/

theorem open_complete_dir_C5b (cfg : Cfg) (ht : cfg.truncate = true) {X : Fs}
    {jcX : List (Closed × List Record)} {oidX : Nat} {joX : List Record} {stCX : RState} {lCX : Log}
    {fX : File} {j' : Nat} {stJ : RState} {lJ : Log}
    (hn : (Fs.ids X).Nodup)
    (hids : X.linkedIds = jcX.map (·.1.id) ++ [oidX])
    (hfiles : ∀ p ∈ jcX, ∃ f, X.find p.1.id = some f ∧ f.linked = true ∧ f.data = encAll p.2 ∧
      f.durable = f.data.length ∧ AllWF p.2 ∧ (∃ st rest, p.2 = .state st :: rest) ∧
      offsetsFrom p.1.id (sizes p.2) = p.1.offsets)
    (hrep : RepC jcX {} [] stCX lCX)
    (hch : Chained (jcX.map (·.1.offsets) ++ [offsetsFrom oidX (sizes joX)]))
    (hfX : X.find oidX = some fX) (hlX : fX.linked = true) (hdX : fX.data = encAll (joX.take j'))
    (hdurX : fX.durable = fX.data.length)
    (hwfo : AllWF joX) (hhead : ∃ st tl, joX = .state st :: tl)
    (hjohead : jcX ≠ [] → ∃ tl, joX = .state stCX :: tl) (hj' : j' ≤ joX.length)
    (hstJ : stRun (joX.take j') stCX = some stJ)
    (hlJ : idxRun (chunkOps oidX (joX.take j')) lCX = some lJ)
    (hbelow : ∀ e ∈ lJ, optLe (some e.2.id) stJ.last = true)
    {X' : Fs} (hc : CrashImage X X') :
    ∃ s'' w'' fs'' evs'', openStore cfg X' = (.ok (s'', w''), fs'', evs'') ∧ s''.st = stJ ∧ s''.log = lJ := by
  obtain ⟨g0, hg0, hcut0⟩ := hc.find hfX hlX
  have hwhole0 : g0.data = encAll (joX.take j') :=
    cutOf_whole_C5b (rs := joX.take j') (t := []) (by rw [List.append_nil]; exact hdX)
      (by rw [hdurX, hdX]; exact Nat.le_refl _) hcut0
  have himg : ImgHypC5b X' jcX oidX joX stCX lCX g0 := by
    refine ⟨hc.ids_nodup_C5b hn, hc.durable_C5b, by rw [hc.linkedIds]; exact hids, ?_, hrep, hch, hg0,
      hwfo, hhead, hjohead⟩
    intro p hp
    obtain ⟨f, k1, k2, k3, k4, k5, k6, k7⟩ := hfiles p hp
    obtain ⟨g, m1, m2⟩ := hc.find k1 k2
    have hwhole := cutOf_whole_C5b (rs := p.2) (t := []) (by rw [List.append_nil]; exact k3)
      (by rw [k4, k3]; exact Nat.le_refl _) m2
    exact ⟨g, m1, hwhole, k5, k6, k7⟩
  have hparse : parseChunk g0.data = (sized (joX.take j'), .clean, []) := by
    rw [hwhole0]; exact parse_encAll' (hwfo.take j')
  obtain ⟨s'', w'', fs'', evs'', _, _, q1, _, q3, q4, _⟩ :=
    openStore_image_C5b cfg ht himg hj' hparse (by rw [hwhole0, List.append_nil]) (Or.inl ⟨rfl, rfl⟩)
      hstJ hlJ hbelow
  exact ⟨s'', w'', fs'', evs'', q1, q3, q4⟩

/-! ### Taking the last chunk off a replayable list -/

theorem RepC.unsnoc_C5b : ∀ (jl : List (Closed × List Record)) (c : Closed) (rs : List Record)
    (st st' : RState) (l l' : Log), RepC (jl ++ [(c, rs)]) st l st' l' →
    ∃ st0 l0, RepC jl st l st0 l0 ∧ stRun rs st0 = some st' ∧ idxRun (chunkOps c.id rs) l0 = some l' ∧
      (∀ e ∈ l', optLe (some e.2.id) st'.last = true) ∧ (jl ≠ [] → ∃ tl, rs = .state st0 :: tl) := by
  intro jl
  induction jl with
  | nil =>
    intro c rs st st' l l' h
    obtain ⟨st1, l1, g1, g2, _, g4, _, g6⟩ := h
    obtain ⟨e1, e2⟩ := g6
    subst e1; subst e2
    exact ⟨st, l, ⟨rfl, rfl⟩, g1, g2, g4, fun hne => absurd rfl hne⟩
  | cons p rest ih =>
    intro c rs st st' l l' h
    obtain ⟨c0, rs0⟩ := p
    obtain ⟨st1, l1, g1, g2, g3, g4, g5, g6⟩ := h
    obtain ⟨st0, l0, k1, k2, k3, k4, k5⟩ := ih c rs st1 st' l1 l' g6
    refine ⟨st0, l0, ⟨st1, l1, g1, g2, g3, g4, ?_, k1⟩, k2, k3, k4, ?_⟩
    · cases rest with
      | nil => trivial
      | cons q rest' => exact g5
    · intro _
      cases rest with
      | nil =>
        obtain ⟨e1, _⟩ := k1
        subst e1
        exact g5
      | cons q rest' => exact k5 (by simp)

/-! ### Directories with the same linked files -/

theorem linkedIds_congr_C5b {fs fs2 : Fs} (hn : (Fs.ids fs).Nodup) (hn2 : (Fs.ids fs2).Nodup)
    (h : ∀ x, fs2.has x = fs.has x) : fs2.linkedIds = fs.linkedIds := by
  obtain ⟨k1, k2⟩ := Fs.linkedIds_spec hn
  obtain ⟨m1, m2⟩ := Fs.linkedIds_spec hn2
  apply sorted_ext (fun x : Nat => x) _ _ m1 k1
  intro x
  rw [k2, m2, h]

theorem linkedIds_snoc_C5b {fs fs2 : Fs} {n : Nat} (hn : (Fs.ids fs).Nodup) (hn2 : (Fs.ids fs2).Nodup)
    (hlt : ∀ x ∈ fs.linkedIds, x < n)
    (h : ∀ x, fs2.has x = true ↔ (fs.has x = true ∨ x = n)) : fs2.linkedIds = fs.linkedIds ++ [n] := by
  obtain ⟨k1, k2⟩ := Fs.linkedIds_spec hn
  obtain ⟨m1, m2⟩ := Fs.linkedIds_spec hn2
  apply sorted_ext (fun x : Nat => x) _ _ m1
  · rw [List.pairwise_append]
    exact ⟨k1, by simp, fun a ha b hb => by simp only [List.mem_singleton] at hb; subst hb; exact hlt a ha⟩
  · intro x
    rw [m2, h, List.mem_append, k2]
    simp

theorem linkedIds_dropLast_C5b {fs fs2 : Fs} {l : List Nat} {n : Nat} (hn : (Fs.ids fs).Nodup)
    (hn2 : (Fs.ids fs2).Nodup) (hl : fs.linkedIds = l ++ [n])
    (h : ∀ x, fs2.has x = (fs.has x && x != n)) : fs2.linkedIds = l := by
  obtain ⟨k1, k2⟩ := Fs.linkedIds_spec hn
  obtain ⟨m1, m2⟩ := Fs.linkedIds_spec hn2
  rw [hl] at k1 k2
  have hk := List.pairwise_append.mp k1
  apply sorted_ext (fun x : Nat => x) _ _ m1 hk.1
  intro x
  rw [m2, h]
  constructor
  · intro hx
    simp only [Bool.and_eq_true, bne_iff_ne, ne_eq] at hx
    have := (k2 x).mpr hx.1
    rcases List.mem_append.mp this with k | k
    · exact k
    · simp only [List.mem_singleton] at k; exact absurd k hx.2
  · intro hx
    have h1 := (k2 x).mp (List.mem_append_left _ hx)
    have h2 := hk.2.2 x hx n (by simp)
    simp only [Bool.and_eq_true, bne_iff_ne, ne_eq]
    exact ⟨h1, by omega⟩

/-! ### The directory after the truncation of the torn tail -/

theorem find_trunc_open_C5b {img : Fs} {oid : Nat} {g0 : File} {rsj : List Record} {rest : Bytes}
    (hg0 : img.find oid = some g0) (hdur : g0.durable = g0.data.length) (hdata : g0.data = encAll rsj ++ rest) :
    ∃ f, (img.truncate oid (encAll rsj).length).find oid = some f ∧ f.linked = g0.linked ∧
      f.data = encAll rsj ∧ f.durable = f.data.length := by
  refine ⟨_, find_truncate_self_C5b hg0 _, rfl, ?_, ?_⟩
  · show g0.data.take (encAll rsj).length = encAll rsj
    rw [hdata]; exact List.take_left' rfl
  · show min g0.durable (encAll rsj).length = (g0.data.take (encAll rsj).length).length
    rw [hdur, hdata, List.length_take, List.length_append]
    omega

theorem steps_K1_C5b (cfg : Cfg) (ht : cfg.truncate = true) {img : Fs}
    {jc : List (Closed × List Record)} {oid : Nat} {jo : List Record} {stC : RState} {lC : Log}
    {g0 : File} (h : ImgHypC5b img jc oid jo stC lC g0)
    {j : Nat} {rest : Bytes} {stJ : RState} {lJ : Log} (hj : j ≤ jo.length)
    (hdata : g0.data = encAll (jo.take j) ++ rest)
    (hstJ : stRun (jo.take j) stC = some stJ) (hlJ : idxRun (chunkOps oid (jo.take j)) lC = some lJ)
    (hbelow : ∀ e ∈ lJ, optLe (some e.2.id) stJ.last = true)
    {X' : Fs} (hc : CrashImage (img.truncate oid (encAll (jo.take j)).length) X') :
    ∃ s'' w'' fs'' evs'', openStore cfg X' = (.ok (s'', w''), fs'', evs'') ∧ s''.st = stJ ∧ s''.log = lJ := by
  have hmem0 : g0 ∈ img := List.mem_of_find?_eq_some h.g0
  obtain ⟨f, k1, k2, k3, k4⟩ := find_trunc_open_C5b h.g0 (h.all g0 hmem0).2 hdata
  refine open_complete_dir_C5b cfg ht (by rw [ids_truncate_C5b]; exact h.nodup) ?_ ?_ h.rep h.chained k1
    (by rw [k2]; exact (h.all g0 hmem0).1) k3 k4 h.wfo h.head h.johead hj hstJ hlJ hbelow hc
  · rw [linkedIds_congr_C5b h.nodup (by rw [ids_truncate_C5b]; exact h.nodup)
      (fun x => Fs.has_truncate img oid _ x)]
    exact h.ids
  · intro p hp
    obtain ⟨f', m1, m2, m3, m4, m5⟩ := h.closedFiles (fs' := img.truncate oid (encAll (jo.take j)).length)
      (fun id hid => find_truncate_ne_C5b img (by omega) _) p hp
    exact ⟨f', m1, m2, m3, m4, m5.1, m5.2.1, m5.2.2.1⟩

/-! ### The directory after the new chunk file was created (head not written yet) -/

theorem steps_K3B_C5b (cfg : Cfg) (ht : cfg.truncate = true) {img : Fs}
    {jc : List (Closed × List Record)} {oid : Nat} {jo : List Record} {stC : RState} {lC : Log}
    {g0 : File} (h : ImgHypC5b img jc oid jo stC lC g0)
    {j : Nat} {rest : Bytes} {stJ : RState} {lJ : Log} (hj1 : 1 ≤ j)
    (hdata : g0.data = encAll (jo.take j) ++ rest)
    (hstJ : stRun (jo.take j) stC = some stJ) (hlJ : idxRun (chunkOps oid (jo.take j)) lC = some lJ)
    (hbelow : ∀ e ∈ lJ, optLe (some e.2.id) stJ.last = true)
    {X' : Fs}
    (hc : CrashImage ((img.truncate oid (encAll (jo.take j)).length).create
      (oid + (encAll (jo.take j)).length)) X') :
    ∃ s'' w'' fs'' evs'', openStore cfg X' = (.ok (s'', w''), fs'', evs'') ∧ s''.st = stJ ∧ s''.log = lJ := by
  have hne : jo.take j ≠ [] := by
    obtain ⟨st, tl, e⟩ := h.head
    rw [e]
    cases j with
    | zero => omega
    | succ j' => simp
  have hLpos := encAll_length_pos hne
  have hmem0 : g0 ∈ img := List.mem_of_find?_eq_some h.g0
  obtain ⟨f, k1, k2, k3, k4⟩ := find_trunc_open_C5b h.g0 (h.all g0 hmem0).2 hdata
  generalize hL : (encAll (jo.take j)).length = L at *
  have hwfJ : stJ.WF := stRun_wf_C5b _ _ _ (h.wfo.take j) h.stC_wf hstJ
  have hcid : (⟨offsetsFrom oid (sizes (jo.take j)), stJ⟩ : Closed).id = oid := by
    simp only [Closed.id, offsetsFrom_headD_C5b]
  have hn1 : (Fs.ids (img.truncate oid L)).Nodup := by rw [ids_truncate_C5b]; exact h.nodup
  have hids1 : (img.truncate oid L).linkedIds = jc.map (·.1.id) ++ [oid] := by
    rw [linkedIds_congr_C5b h.nodup hn1 (fun x => Fs.has_truncate img oid _ x)]; exact h.ids
  have hcr := chunkRecs_take_C5b (oid := oid) h.wfo h.head hj1
  refine open_complete_dir_C5b cfg ht (jcX := jc ++ [(⟨offsetsFrom oid (sizes (jo.take j)), stJ⟩, jo.take j)])
    (oidX := oid + L) (joX := [.state stJ]) (j' := 0) (fX := { id := oid + L })
    (Fs.ids_create_nodup hn1 _) ?_ ?_
    (h.rep.snoc hstJ (by rw [hcid]; exact hlJ) rfl hbelow ?_) ?_ (Fs.find_create_self _ _) rfl rfl rfl
    (by intro x hx; simp only [List.mem_singleton] at hx; subst hx; exact hwfJ) ⟨stJ, [], rfl⟩
    (fun _ => ⟨[], rfl⟩) (Nat.zero_le _) rfl rfl hbelow hc
  · rw [linkedIds_snoc_C5b hn1 (Fs.ids_create_nodup hn1 _) (n := oid + L) ?_ ?_, hids1]
    · rw [List.map_append, List.map_cons, List.map_nil, hcid]
    · intro x hx
      rw [hids1] at hx
      rcases List.mem_append.mp hx with k | k
      · obtain ⟨p, hp, e⟩ := List.mem_map.mp k
        have := h.lt p hp
        omega
      · simp only [List.mem_singleton] at k; omega
    · intro x
      rw [Fs.has_create]
      by_cases hx : x = oid + L
      · simp [hx]
      · simp [hx]
  · intro p hp
    rcases List.mem_append.mp hp with k | k
    · obtain ⟨f', m1, m2, m3, m4, m5⟩ := h.closedFiles (fs' := (img.truncate oid L).create (oid + L))
        (fun id hid => by
          rw [Fs.find_create_ne _ (by omega), find_truncate_ne_C5b img (by omega) _]) p k
      exact ⟨f', m1, m2, m3, m4, m5.1, m5.2.1, m5.2.2.1⟩
    · simp only [List.mem_singleton] at k
      subst k
      simp only [hcid]
      refine ⟨f, by rw [Fs.find_create_ne _ (by omega)]; exact k1, by rw [k2]; exact (h.all g0 hmem0).1,
        k3, k4, hcr.1, hcr.2.1, ?_⟩
      trivial
  · intro hjc
    obtain ⟨tl, e⟩ := h.johead hjc
    refine ⟨tl.take (j - 1), ?_⟩
    rw [e]
    cases j with
    | zero => omega
    | succ j' => simp
  · rw [List.map_append, List.map_cons, List.map_nil]
    have h1 : Chained (jc.map (·.1.offsets) ++ [offsetsFrom oid (sizes (jo.take j))]) :=
      h.chained.replace_last (by rw [offsetsFrom_headD_C5b, offsetsFrom_headD_C5b])
    exact h1.snoc (by rw [lastOff_sized, offsetsFrom_headD_C5b, hL])

/-! ### The newest file holds no complete record: after the unlink, after the create -/

theorem truncFs_facts_C5b (img : Fs) (oid : Nat) (tr : Option Nat) :
    Fs.ids (truncFsC5b img oid tr) = Fs.ids img ∧ (∀ x, (truncFsC5b img oid tr).has x = img.has x) ∧
    ∀ id, id ≠ oid → (truncFsC5b img oid tr).find id = img.find id := by
  cases tr with
  | none => exact ⟨rfl, fun _ => rfl, fun _ _ => rfl⟩
  | some len =>
    exact ⟨ids_truncate_C5b img oid len, fun x => Fs.has_truncate img oid len x,
      fun id hid => find_truncate_ne_C5b img hid len⟩

theorem steps_K3C_C5b (cfg : Cfg) (ht : cfg.truncate = true) {img : Fs}
    {jc : List (Closed × List Record)} {oid : Nat} {jo : List Record} {stC : RState} {lC : Log}
    {g0 : File} (h : ImgHypC5b img jc oid jo stC lC g0) (tr : Option Nat)
    (hbelow : ∀ e ∈ lC, optLe (some e.2.id) stC.last = true)
    {X' : Fs} (hc : CrashImage (((truncFsC5b img oid tr).unlink oid).create oid) X') :
    ∃ s'' w'' fs'' evs'', openStore cfg X' = (.ok (s'', w''), fs'', evs'') ∧ s''.st = stC ∧ s''.log = lC := by
  obtain ⟨t1, t2, t3⟩ := truncFs_facts_C5b img oid tr
  have hn2 : (Fs.ids ((truncFsC5b img oid tr).unlink oid)).Nodup := by
    rw [Fs.ids_unlink, t1]; exact h.nodup
  have hn3 := Fs.ids_create_nodup hn2 oid
  have hmem0 : g0 ∈ img := List.mem_of_find?_eq_some h.g0
  have hhas0 : img.has oid = true := by
    unfold Fs.has; rw [h.g0]; exact (h.all g0 hmem0).1
  refine open_complete_dir_C5b cfg ht (jcX := jc) (oidX := oid) (joX := [.state stC]) (j' := 0)
    (fX := { id := oid }) hn3 ?_ ?_ h.rep ?_ (Fs.find_create_self _ _) rfl rfl rfl
    (by intro x hx; simp only [List.mem_singleton] at hx; subst hx; exact h.stC_wf) ⟨stC, [], rfl⟩
    (fun _ => ⟨[], rfl⟩) (Nat.zero_le _) rfl rfl hbelow hc
  · rw [linkedIds_congr_C5b h.nodup hn3 ?_]
    · exact h.ids
    · intro x
      rw [Fs.has_create, Fs.has_unlink, t2]
      by_cases hx : x = oid
      · subst hx; simp [hhas0]
      · simp [hx]
  · intro p hp
    obtain ⟨f', m1, m2, m3, m4, m5⟩ := h.closedFiles
      (fs' := ((truncFsC5b img oid tr).unlink oid).create oid)
      (fun id hid => by
        rw [Fs.find_create_ne _ (by omega), find_unlink_ne_C5b _ (by omega), t3 id (by omega)]) p hp
    exact ⟨f', m1, m2, m3, m4, m5.1, m5.2.1, m5.2.2.1⟩
  · exact h.chained.replace_last (by rw [offsetsFrom_headD_C5b, offsetsFrom_headD_C5b])

theorem openStore_empty_C5b (cfg : Cfg) :
    ∃ s w fs evs, openStore cfg [] = (.ok (s, w), fs, evs) ∧ s.st = {} ∧ s.log = [] := by
  simp [openStore, Fs.linkedIds, openLoop, emptyStore, Fs.has, Fs.find, Fs.create, Fs.write,
    Fs.update]

theorem steps_K2C_C5b (cfg : Cfg) (ht : cfg.truncate = true) {img : Fs}
    {jc : List (Closed × List Record)} {oid : Nat} {jo : List Record} {stC : RState} {lC : Log}
    {g0 : File} (h : ImgHypC5b img jc oid jo stC lC g0) (tr : Option Nat)
    {X' : Fs} (hc : CrashImage ((truncFsC5b img oid tr).unlink oid) X') :
    ∃ s'' w'' fs'' evs'', openStore cfg X' = (.ok (s'', w''), fs'', evs'') ∧ s''.st = stC ∧ s''.log = lC := by
  obtain ⟨t1, t2, t3⟩ := truncFs_facts_C5b img oid tr
  have hn2 : (Fs.ids ((truncFsC5b img oid tr).unlink oid)).Nodup := by
    rw [Fs.ids_unlink, t1]; exact h.nodup
  have hlids : ((truncFsC5b img oid tr).unlink oid).linkedIds = jc.map (·.1.id) :=
    linkedIds_dropLast_C5b h.nodup hn2 h.ids (fun x => by rw [Fs.has_unlink, t2])
  have hfind : ∀ id, id < oid → ((truncFsC5b img oid tr).unlink oid).find id = img.find id :=
    fun id hid => by rw [find_unlink_ne_C5b _ (by omega), t3 id (by omega)]
  cases hl : jc.getLast? with
  | none =>
    have hjc : jc = [] := List.getLast?_eq_none_iff.mp hl
    subst hjc
    obtain ⟨e1, e2⟩ := h.rep
    -- no linked file: the image is empty
    have hfil : ((truncFsC5b img oid tr).unlink oid).filter (fun f => f.linked) = [] := by
      rw [List.filter_eq_nil_iff]
      intro f hf hfl
      have hhas : ((truncFsC5b img oid tr).unlink oid).has f.id = true :=
        (Fs.has_iff hn2 f.id).mpr ⟨f, hf, hfl, rfl⟩
      have := ((Fs.linkedIds_spec hn2).2 f.id).mpr hhas
      rw [hlids] at this
      cases this
    unfold CrashImage at hc
    rw [hfil] at hc
    cases hc
    obtain ⟨s, w, fs, evs, k1, k2, k3⟩ := openStore_empty_C5b cfg
    exact ⟨s, w, fs, evs, k1, by rw [k2, e1], by rw [k3, e2]⟩
  | some pL =>
    obtain ⟨jcI, hsplit⟩ := List.getLast?_eq_some_iff.mp hl
    obtain ⟨cL, rsL⟩ := pL
    have hrep := h.rep
    rw [hsplit] at hrep
    obtain ⟨st0, l0, u1, u2, u3, u4, u5⟩ := RepC.unsnoc_C5b jcI cL rsL {} stC [] lC hrep
    have hpL : (cL, rsL) ∈ jc := by rw [hsplit]; simp
    obtain ⟨fL, m1, m2, m3, m4, m5⟩ := h.closedFiles hfind (cL, rsL) hpL
    simp only at m1 m2 m3 m4 m5
    refine open_complete_dir_C5b cfg ht (jcX := jcI) (oidX := cL.id) (joX := rsL) (j' := rsL.length)
      (fX := fL) hn2 ?_ ?_ u1 ?_ m1 m2 (by rw [List.take_length]; exact m3) m4 m5.1 m5.2.1 u5
      (Nat.le_refl _) (by rw [List.take_length]; exact u2) (by rw [List.take_length]; exact u3) u4 hc
    · rw [hlids, hsplit]; simp
    · intro p hp
      obtain ⟨f', n1, n2, n3, n4, n5⟩ := h.closedFiles hfind p (by rw [hsplit]; exact List.mem_append_left _ hp)
      exact ⟨f', n1, n2, n3, n4, n5.1, n5.2.1, n5.2.2.1⟩
    · have hch := chained_prefix_C5b _ _ h.chained
      rw [hsplit, List.map_append, List.map_cons, List.map_nil] at hch
      have e : offsetsFrom cL.id (sizes rsL) = cL.offsets := m5.2.2.1
      rw [e]
      exact hch

/-! ### Before any effect: a crash image of the image -/

theorem cutOf_durable_C5b {f g : File} (hd : f.durable = f.data.length) (hc : CutOf f g) :
    g.data = f.data := by
  obtain ⟨_, _, _, hcut⟩ := hc
  rcases hcut with ⟨k, hk1, hk2, hg⟩ | ⟨b, m, hb1, _, hm, hm2, _⟩
  · have : k = f.data.length := by omega
    rw [hg, this, List.take_length]
  · omega

theorem imgHyp_crash_C5b {img : Fs} {jc : List (Closed × List Record)} {oid : Nat} {jo : List Record}
    {stC : RState} {lC : Log} {g0 : File} (h : ImgHypC5b img jc oid jo stC lC g0)
    {X' : Fs} (hc : CrashImage img X') :
    ∃ g0', ImgHypC5b X' jc oid jo stC lC g0' ∧ g0'.data = g0.data := by
  have hmem0 : g0 ∈ img := List.mem_of_find?_eq_some h.g0
  obtain ⟨g0', hg0, hcut0⟩ := hc.find h.g0 (h.all g0 hmem0).1
  refine ⟨g0', ⟨hc.ids_nodup_C5b h.nodup, hc.durable_C5b, by rw [hc.linkedIds]; exact h.ids, ?_, h.rep,
    h.chained, hg0, h.wfo, h.head, h.johead⟩, cutOf_durable_C5b (h.all g0 hmem0).2 hcut0⟩
  intro p hp
  obtain ⟨f, k1, k2, k3, k4, k5⟩ := h.files p hp
  have hmem : f ∈ img := List.mem_of_find?_eq_some k1
  obtain ⟨g, m1, m2⟩ := hc.find k1 (h.all f hmem).1
  exact ⟨g, m1, by rw [cutOf_durable_C5b (h.all f hmem).2 m2]; exact k2, k3, k4, k5⟩

/-! ### The effects of `open`, one by one -/

/-- The file-system effect of one event of `open`. (D15: a successful `sync` makes the file
durable up to its length; `open` syncs every chunk file it keeps.) -/
def openEffC5b (fs : Fs) : Ev → Fs
  | .trunc _ id len => fs.truncate id len
  | .sync _ id true => fs.sync id
  | .unlink _ id true => fs.unlink id
  | .create _ id true => fs.create id
  | .write _ id bs true => fs.write id bs
  | _ => fs

def openEffsC5b (evs : List Ev) (fs : Fs) : Fs := evs.foldl openEffC5b fs

theorem openEffs_append_C5b (xs ys : List Ev) (fs : Fs) :
    openEffsC5b (xs ++ ys) fs = openEffsC5b ys (openEffsC5b xs fs) := by
  simp [openEffsC5b, List.foldl_append]

/-- On a directory whose files are all durable, the syncs of `open` change nothing. -/
theorem openEffs_syncEvs_C5b {fs : Fs} (hd : AllDurable fs) (ids : List Nat) :
    openEffsC5b (syncEvs ids) fs = fs := by
  induction ids with
  | nil => rfl
  | cons id ids ih =>
    show openEffsC5b (syncEvs ids) (fs.sync id) = fs
    rw [hd.sync_eq id]; exact ih

/-- A prefix of `syncEvs ids ++ rest` acts on an all-durable directory like the
corresponding prefix of `rest`. -/
theorem openEffs_take_pre_C5b {fs : Fs} (hd : AllDurable fs) (ids : List Nat) (rest : List Ev)
    (k : Nat) :
    openEffsC5b ((syncEvs ids ++ rest).take k) fs
      = openEffsC5b (rest.take (k - (syncEvs ids).length)) fs := by
  rw [List.take_append, openEffs_append_C5b]
  have : (syncEvs ids).take k = syncEvs (ids.take k) := by simp [syncEvs, List.map_take]
  rw [this, openEffs_syncEvs_C5b hd]

/-- **A crash at any moment of recovery is recoverable.** Same hypotheses as
`openStore_image_C5b`. `open` succeeds; replaying its events on the directory gives the
directory it returns; and after EVERY prefix of these events, every crash image of the
directory can be opened again (any configuration with `truncate`), with the same state and
index map. -/
theorem openStore_image_steps_C5b (cfg cfg'' : Cfg) (ht : cfg.truncate = true)
    (ht'' : cfg''.truncate = true) {img : Fs}
    {jc : List (Closed × List Record)} {oid : Nat} {jo : List Record} {stC : RState} {lC : Log}
    {g0 : File} (h : ImgHypC5b img jc oid jo stC lC g0)
    {j : Nat} {e : ParseEnd} {rest : Bytes} {stJ : RState} {lJ : Log} (hj : j ≤ jo.length)
    (hparse : parseChunk g0.data = (sized (jo.take j), e, rest))
    (hdata : g0.data = encAll (jo.take j) ++ rest)
    (hcase : (e = .clean ∧ rest = []) ∨
     (e = .eof ∧ rest ≠ [] ∧ j < jo.length ∧ ∃ r t, r.WF ∧ t ≠ [] ∧ rest ++ t = encRecord r) ∨
     (∃ m, 1 ≤ m ∧ rest = List.replicate m 0 ∧ e = if m < 28 then .eof else .invalid))
    (hstJ : stRun (jo.take j) stC = some stJ) (hlJ : idxRun (chunkOps oid (jo.take j)) lC = some lJ)
    (hbelow : ∀ e ∈ lJ, optLe (some e.2.id) stJ.last = true) :
    ∃ s' w' fs' evs, openStore cfg img = (.ok (s', w'), fs', evs) ∧ s'.st = stJ ∧ s'.log = lJ ∧
      openEffsC5b evs img = fs' ∧
      ∀ k X', CrashImage (openEffsC5b (evs.take k) img) X' →
        ∃ s'' w'' fs'' evs'', openStore cfg'' X' = (.ok (s'', w''), fs'', evs'') ∧
          s''.st = stJ ∧ s''.log = lJ := by
  -- a crash image of the untouched image
  have hK0 : ∀ X', CrashImage img X' →
      ∃ s'' w'' fs'' evs'', openStore cfg'' X' = (.ok (s'', w''), fs'', evs'') ∧
        s''.st = stJ ∧ s''.log = lJ := by
    intro X' hc
    obtain ⟨g0', himg', hd'⟩ := imgHyp_crash_C5b h hc
    obtain ⟨s'', w'', fs'', evs'', _, _, q1, _, q3, q4, _⟩ :=
      openStore_image_C5b cfg'' ht'' himg' hj (by rw [hd']; exact hparse) (by rw [hd']; exact hdata)
        hcase hstJ hlJ hbelow
    exact ⟨s'', w'', fs'', evs'', q1, q3, q4⟩
  obtain ⟨a1, sm2, k1, k2, k3, k4, k5, k6, k7, k8, k9, k10, k11, k12, k13, k14, hloop⟩ :=
    openLoop_image_ok_C5b cfg ht h.ids h.files' h.rep h.chained h.g0 hparse hcase hstJ hlJ
      h.allDurable
  have hAD := h.allDurable
  by_cases hnil : jo.take j = []
  · -- case C
    rw [if_pos hnil] at hloop
    have hstJ' := hstJ
    have hlJ' := hlJ
    rw [hnil] at hstJ' hlJ'
    simp only [stRun, Option.some.injEq] at hstJ'
    simp only [chunkOps, opsFrom, idxRun, Option.some.injEq] at hlJ'
    subst hstJ'; subst hlJ'
    obtain ⟨s', w', fs', evs, q1, q2, q3, q4, q5, q6, q7, q8, q9, q10⟩ :=
      openStore_caseC_C5b cfg h k1 k2 k3 k4 k5 k6 k7 k8 k9 hloop
    have hfinal : ∀ X', CrashImage fs' X' →
        ∃ s'' w'' fs'' evs'', openStore cfg'' X' = (.ok (s'', w''), fs'', evs'') ∧
          s''.st = stC ∧ s''.log = lC := by
      intro X' hc
      obtain ⟨s'', w'', fs'', evs'', _, _, r1, _, r3, r4⟩ :=
        recov_crash_again_C5b q2 (by rw [q3, q4]; exact hbelow) hc cfg'' ht''
      exact ⟨s'', w'', fs'', evs'', r1, by rw [r3, q3], by rw [r4, q4]⟩
    refine ⟨s', w', fs', evs, q1, q3, q4, ?_, ?_⟩
    · rw [q10, q9, openEffs_append_C5b, openEffs_syncEvs_C5b hAD]
      cases tailTruncC5b (jo.take j) rest with
      | none => rfl
      | some len =>
        have e2 := (hAD.truncate oid len).sync_eq oid
        show ((((img.truncate oid len).sync oid).unlink oid).create oid).write oid _ = _
        rw [e2]; rfl
    · intro k X' hc
      rw [q10, openEffs_take_pre_C5b hAD] at hc
      generalize k - (syncEvs (jc.map (·.1.id))).length = k' at hc
      have hL0 : (encAll (jo.take j)).length = 0 := by rw [hnil]; rfl
      cases htr : tailTruncC5b (jo.take j) rest with
      | none =>
        rw [htr] at hc q9
        simp only [truncEvsC5b, List.nil_append] at hc
        match k', hc with
        | 0, hc => exact hK0 X' hc
        | 1, hc => exact steps_K2C_C5b cfg'' ht'' h none hc
        | 2, hc => exact steps_K3C_C5b cfg'' ht'' h none hbelow hc
        | k + 3, hc =>
          apply hfinal X'
          rw [q9]
          simpa [openEffsC5b, openEffC5b, truncFsC5b] using hc
      | some len =>
        have hlen : len = 0 := by
          unfold tailTruncC5b at htr
          split at htr
          · cases htr
          · injection htr with htr; omega
        subst hlen
        rw [htr] at hc q9
        simp only [truncEvsC5b, List.cons_append, List.nil_append] at hc
        have e2 := (hAD.truncate oid 0).sync_eq oid
        match k', hc with
        | 0, hc => exact hK0 X' hc
        | 1, hc =>
          have hc' : CrashImage (img.truncate oid (encAll (jo.take j)).length) X' := by
            rw [hL0]; exact hc
          exact steps_K1_C5b cfg'' ht'' h hj hdata hstJ hlJ hbelow hc'
        | 2, hc =>
          have hc0 : CrashImage ((img.truncate oid 0).sync oid) X' := hc
          rw [e2] at hc0
          have hc' : CrashImage (img.truncate oid (encAll (jo.take j)).length) X' := by
            rw [hL0]; exact hc0
          exact steps_K1_C5b cfg'' ht'' h hj hdata hstJ hlJ hbelow hc'
        | 3, hc =>
          have hc0 : CrashImage (((img.truncate oid 0).sync oid).unlink oid) X' := hc
          rw [e2] at hc0
          exact steps_K2C_C5b cfg'' ht'' h (some 0) hc0
        | 4, hc =>
          have hc0 : CrashImage ((((img.truncate oid 0).sync oid).unlink oid).create oid) X' := hc
          rw [e2] at hc0
          exact steps_K3C_C5b cfg'' ht'' h (some 0) hbelow hc0
        | k + 5, hc =>
          apply hfinal X'
          rw [q9]
          have hc0 : CrashImage (((((img.truncate oid 0).sync oid).unlink oid).create oid).write oid
              (encRecord (.state stC))) X' := by
            simpa [openEffsC5b, openEffC5b] using hc
          rw [e2] at hc0
          exact hc0
  · rw [if_neg hnil] at hloop
    have hj1 : 1 ≤ j := by
      cases j with
      | zero => exact absurd rfl hnil
      | succ j' => omega
    by_cases hrest : rest = []
    · -- case A
      have htr : tailTruncC5b (jo.take j) rest = none := by simp [tailTruncC5b, hrest]
      rw [htr] at hloop
      have hdata' := hdata
      rw [hrest, List.append_nil] at hdata'
      obtain ⟨s', w', q1, q2, q3, q4, _⟩ :=
        openStore_caseA_C5b cfg h hj1 hdata' k1 k2 k5 k6 k7 k8 k9 k12 k13 k14 hstJ hlJ hloop
      have hsA : ∀ k, openEffsC5b ((syncEvs (jc.map (·.1.id)) ++ [Ev.sync "o" oid true]).take k) img
          = img := by
        intro k
        have : syncEvs (jc.map (·.1.id)) ++ [Ev.sync "o" oid true]
            = syncEvs (jc.map (·.1.id) ++ [oid]) := by rw [syncEvs_append]; rfl
        rw [this]
        have : (syncEvs (jc.map (·.1.id) ++ [oid])).take k
            = syncEvs ((jc.map (·.1.id) ++ [oid]).take k) := by simp [syncEvs, List.map_take]
        rw [this, openEffs_syncEvs_C5b hAD]
      refine ⟨s', w', img, _, q1, q3, q4, ?_, ?_⟩
      · have := hsA (syncEvs (jc.map (·.1.id)) ++ [Ev.sync "o" oid true]).length
        rw [List.take_length] at this
        exact this
      intro k X' hc
      rw [hsA k] at hc
      exact hK0 X' hc
    · -- case B
      have htr : tailTruncC5b (jo.take j) rest = some (encAll (jo.take j)).length := by
        simp [tailTruncC5b, hrest]
      rw [htr] at hloop
      obtain ⟨s', w', fs', evs, q1, q2, q3, q4, q5, q6, q7, q8, q9, q10⟩ :=
        openStore_caseB_C5b cfg h hj1 hj hdata k1 k2 k5 k6 k7 k8 k9 k12 k13 k14 hstJ hlJ hbelow hloop
      have hfinal : ∀ X', CrashImage fs' X' →
          ∃ s'' w'' fs'' evs'', openStore cfg'' X' = (.ok (s'', w''), fs'', evs'') ∧
            s''.st = stJ ∧ s''.log = lJ := by
        intro X' hc
        obtain ⟨s'', w'', fs'', evs'', _, _, r1, _, r3, r4⟩ :=
          recov_crash_again_C5b q2 (by rw [q3, q4]; exact hbelow) hc cfg'' ht''
        exact ⟨s'', w'', fs'', evs'', r1, by rw [r3, q3], by rw [r4, q4]⟩
      have e2 := (hAD.truncate oid (encAll (jo.take j)).length).sync_eq oid
      refine ⟨s', w', fs', evs, q1, q3, q4, ?_, ?_⟩
      · rw [q10, q9, openEffs_append_C5b, openEffs_syncEvs_C5b hAD]
        show ((((img.truncate oid _).sync oid).sync oid).create _).write _ _ = _
        rw [e2, e2]
      intro k X' hc
      rw [q10, openEffs_take_pre_C5b hAD] at hc
      generalize k - (syncEvs (jc.map (·.1.id))).length = k' at hc
      match k', hc with
      | 0, hc => exact hK0 X' hc
      | 1, hc => exact steps_K1_C5b cfg'' ht'' h hj hdata hstJ hlJ hbelow hc
      | 2, hc =>
        have hc0 : CrashImage ((img.truncate oid (encAll (jo.take j)).length).sync oid) X' := hc
        rw [e2] at hc0
        exact steps_K1_C5b cfg'' ht'' h hj hdata hstJ hlJ hbelow hc0
      | 3, hc =>
        have hc0 : CrashImage (((img.truncate oid (encAll (jo.take j)).length).sync oid).sync oid) X' :=
          hc
        rw [e2, e2] at hc0
        exact steps_K1_C5b cfg'' ht'' h hj hdata hstJ hlJ hbelow hc0
      | 4, hc =>
        have hc0 : CrashImage ((((img.truncate oid (encAll (jo.take j)).length).sync oid).sync oid).create
            (oid + (encAll (jo.take j)).length)) X' := hc
        rw [e2, e2] at hc0
        exact steps_K3B_C5b cfg'' ht'' h hj1 hdata hstJ hlJ hbelow hc0
      | k + 5, hc =>
        apply hfinal X'
        rw [q9]
        have hc0 : CrashImage (((((img.truncate oid (encAll (jo.take j)).length).sync oid).sync oid).create
            (oid + (encAll (jo.take j)).length)).write (oid + (encAll (jo.take j)).length)
            (encRecord (.state stJ))) X' := by
          simpa [openEffsC5b, openEffC5b] using hc
        rw [e2, e2] at hc0
        exact hc0

end RaftLog
