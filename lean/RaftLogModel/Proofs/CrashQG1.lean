/-
C03 without "no removal outstanding", part 1: the *ghost store*. A chunk that a
purge dropped from the chunk table keeps its file until the worker unlinks it.
`s.liftC3b cs` is the store `s` with the closed chunks `cs` (the dropped chunks whose
files are still linked) put back in front of its chunk table. Journalling a record,
rotating, flushing commute with the lift: the caller thread never looks at the
closed chunks except in `popObsolete` (purge).
-/
import RaftLogModel.Proofs.CrashQSys
namespace RaftLog

/-- The store with the closed chunks `cs` put back in front of the chunk table. -/
def Store.liftC3b (s : Store) (cs : List Closed) : Store := { s with closed := cs ++ s.closed }

@[simp] theorem Store.liftC3b_nil (s : Store) : s.liftC3b [] = s := rfl
@[simp] theorem Store.liftC3b_closed (s : Store) (cs : List Closed) :
    (s.liftC3b cs).closed = cs ++ s.closed := rfl
@[simp] theorem Store.liftC3b_st (s : Store) (cs : List Closed) : (s.liftC3b cs).st = s.st := rfl
@[simp] theorem Store.liftC3b_log (s : Store) (cs : List Closed) : (s.liftC3b cs).log = s.log := rfl
@[simp] theorem Store.liftC3b_cache (s : Store) (cs : List Closed) : (s.liftC3b cs).cache = s.cache := rfl
@[simp] theorem Store.liftC3b_openOffsets (s : Store) (cs : List Closed) :
    (s.liftC3b cs).openOffsets = s.openOffsets := rfl
@[simp] theorem Store.liftC3b_pending (s : Store) (cs : List Closed) :
    (s.liftC3b cs).pending = s.pending := rfl
@[simp] theorem Store.liftC3b_removed (s : Store) (cs : List Closed) :
    (s.liftC3b cs).removed = s.removed := rfl
@[simp] theorem Store.liftC3b_openEnd (s : Store) (cs : List Closed) :
    (s.liftC3b cs).openEnd = s.openEnd := rfl
@[simp] theorem Store.liftC3b_openId (s : Store) (cs : List Closed) :
    (s.liftC3b cs).openId = s.openId := rfl
@[simp] theorem Store.liftC3b_isOpenFull (s : Store) (cs : List Closed) :
    (s.liftC3b cs).isOpenFull = s.isOpenFull := rfl

theorem Store.liftC3b_lift (s : Store) (a b : List Closed) :
    (s.liftC3b b).liftC3b a = s.liftC3b (a ++ b) := by
  simp [Store.liftC3b, List.append_assoc]

/-- Lift the store component of a call result. -/
def liftResC3b {α : Type} (cs : List Closed) (x : α × Store × List Eff) : α × Store × List Eff :=
  (x.1, x.2.1.liftC3b cs, x.2.2)

theorem tryCloseFull_lift_C3b (s : Store) (cs : List Closed) (fsHas : Nat → Bool) :
    (s.liftC3b cs).tryCloseFull fsHas = liftResC3b cs (s.tryCloseFull fsHas) := by
  unfold Store.tryCloseFull
  rw [Store.liftC3b_isOpenFull, Store.liftC3b_openEnd]
  by_cases hf : s.isOpenFull = true
  · by_cases he : fsHas s.openEnd = true
    · simp only [hf, he, Bool.not_true, Bool.false_eq_true, if_false, if_true, liftResC3b]
    · simp only [hf, he, Bool.not_true, Bool.false_eq_true, if_false, liftResC3b]
      refine Prod.ext rfl (Prod.ext ?_ rfl)
      simp [Store.liftC3b, List.append_assoc]
  · simp only [hf, Bool.not_false, if_true, liftResC3b]

theorem applyIndex_lift_C3b (s : Store) (cs : List Closed) (r : Record) (chunk : Nat) (seg : Seg) :
    (s.liftC3b cs).applyIndex r chunk seg = (s.applyIndex r chunk seg).map (fun x => x.liftC3b cs) := by
  cases r with
  | saveVote v => rfl
  | commit id => rfl
  | state x => rfl
  | append id p => rfl
  | truncateAfter o =>
    simp only [Store.applyIndex]
    cases nextIndexChecked o <;> rfl
  | purgeUpto id =>
    simp only [Store.applyIndex]
    cases nextIndexChecked (some id) <;> rfl

@[reducible] def aaStep1C3b (s : Store) (r : Record) : Store :=
  { s with pending := s.pending ++ encRecord r, openOffsets := s.openOffsets ++ [s.openEnd + (encRecord r).length] }

theorem appendAndApply_lift_C3b (s : Store) (cs : List Closed) (fsHas : Nat → Bool) (r : Record) :
    (s.liftC3b cs).appendAndApply fsHas r = liftResC3b cs (s.appendAndApply fsHas r) := by
  unfold Store.appendAndApply
  have hst : (s.liftC3b cs).st.apply r = s.st.apply r := rfl
  rw [hst]
  cases s.st.apply r with
  | err k => rfl
  | panic m => rfl
  | ok st' =>
    dsimp only
    have h1 := applyIndex_lift_C3b (aaStep1C3b s r) cs r (aaStep1C3b (s.liftC3b cs) r).openId
      ⟨(s.liftC3b cs).openEnd, (encRecord r).length⟩
    change (aaStep1C3b (s.liftC3b cs) r).applyIndex r _ _ = _ at h1
    rw [h1]
    have hE : (aaStep1C3b s r).applyIndex r (aaStep1C3b (s.liftC3b cs) r).openId
        ⟨(s.liftC3b cs).openEnd, (encRecord r).length⟩
        = (aaStep1C3b s r).applyIndex r (aaStep1C3b s r).openId ⟨s.openEnd, (encRecord r).length⟩ := rfl
    rw [hE]
    cases (aaStep1C3b s r).applyIndex r (aaStep1C3b s r).openId ⟨s.openEnd, (encRecord r).length⟩ with
    | none => rfl
    | some s2 =>
      simp only [Option.map_some]
      have e2 : ({ s2.liftC3b cs with st := st' } : Store) = ({ s2 with st := st' } : Store).liftC3b cs := rfl
      rw [e2, tryCloseFull_lift_C3b]
      generalize Store.tryCloseFull ({ s2 with st := st' } : Store) fsHas = x
      obtain ⟨res, s4, effs⟩ := x
      cases res <;> rfl

theorem appendBatch_lift_C3b (cs : List Closed) (es : List (LogId × Bytes)) :
    ∀ (fsHas : Nat → Bool) (s : Store) (seg : Seg) (effs : List Eff),
    Store.appendBatch fsHas es (s.liftC3b cs) seg effs
      = liftResC3b cs (Store.appendBatch fsHas es s seg effs) := by
  induction es with
  | nil => intro fsHas s seg effs; rfl
  | cons e rest ih =>
    intro fsHas s seg effs
    obtain ⟨id, p⟩ := e
    by_cases hidxD12 : id.index + 1 = U64
    · rw [appendBatch_cons_refused_D12 _ _ _ _ _ _ _ hidxD12,
        appendBatch_cons_refused_D12 _ _ _ _ _ _ _ hidxD12]
      rfl
    rw [appendBatch_cons_small_D12 _ _ _ _ _ _ _ hidxD12,
      appendBatch_cons_small_D12 _ _ _ _ _ _ _ hidxD12]
    rw [appendAndApply_lift_C3b]
    generalize s.appendAndApply fsHas (.append id p) = x
    obtain ⟨res, s', e'⟩ := x
    cases res with
    | ok seg' => simp only [liftResC3b]; exact ih _ s' seg' _
    | err k => rfl
    | panic m => rfl

theorem logGet_lift_C3b (s : Store) (cs : List Closed) (idx : Nat) :
    (s.liftC3b cs).logGet idx = s.logGet idx := rfl

/-- Every call except a purge commutes with the lift. -/
theorem call_lift_C3b (s : Store) (cs : List Closed) (fsHas : Nat → Bool) (op : Op)
    (hop : ∀ upto, op ≠ .purge upto) :
    (s.liftC3b cs).call fsHas op = liftResC3b cs (s.call fsHas op) := by
  cases op with
  | saveVote v => exact appendAndApply_lift_C3b _ _ _ _
  | commit id => exact appendAndApply_lift_C3b _ _ _ _
  | saveUserData d => exact appendAndApply_lift_C3b s cs fsHas (.state { s.st with userData := d })
  | append es =>
    simp only [Store.call, Store.liftC3b_openOffsets]
    cases lastSegment s.openOffsets with
    | none => rfl
    | some seg0 => exact appendBatch_lift_C3b cs es fsHas s seg0 []
  | truncate idx =>
    simp only [Store.call, Store.liftC3b_st, logGet_lift_C3b]
    cases nextIndexChecked s.st.purged with
    | none => rfl
    | some nxt =>
      simp only
      by_cases h1 : idx = nxt
      · simp only [h1, if_true]; exact appendAndApply_lift_C3b _ _ _ _
      · simp only [h1, if_false]
        by_cases h2 : idx = 0
        · simp only [h2, if_true]; rfl
        · simp only [h2, if_false]
          cases s.logGet (idx - 1) with
          | none => rfl
          | some d => exact appendAndApply_lift_C3b _ _ _ _
  | purge upto => exact absurd rfl (hop upto)

theorem flush_lift_C3b (s : Store) (cs : List Closed) (cb : Option Nat) :
    (s.liftC3b cs).flush cb = ((s.flush cb).1.liftC3b cs, (s.flush cb).2) := rfl

/-- A purge that is not a no-op: the caller journals the record, then pops. -/
theorem call_purge_C3b (s : Store) (fsHas : Nat → Bool) (upto : LogId) (nxt : Nat)
    (hn : nextIndexChecked s.st.purged = some nxt) (hlt : ¬ upto.index < nxt)
    (hidx : upto.index + 1 ≠ U64)
    {seg : Seg} {s' : Store} {effs : List Eff}
    (h : s.appendAndApply fsHas (.purgeUpto upto) = (.ok seg, s', effs)) :
    s.call fsHas (.purge upto) = (.ok seg,
      { s' with closed := (popObsolete upto s'.closed).2,
                removed := s'.removed ++ (popObsolete upto s'.closed).1 }, effs) := by
  simp only [Store.call, if_neg hidx, hn, hlt, if_false, h]

end RaftLog
