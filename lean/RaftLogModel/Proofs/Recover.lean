/-
Recovery loop (`openLoop`, `openStore`): panic freedom, helpers for C05/C09/C10.
-/
import RaftLogModel.Proofs.Parse
namespace RaftLog

/-! ## Small records and states -/

/-- A record whose log ids can be incremented without overflowing a u64; a
`State` record must carry small `purged` / `last` ids. -/
def RecSmall (r : Record) : Prop :=
  r.small ∧ ∀ x, r = .state x → optSmall x.purged ∧ optSmall x.last

def StSmall (st : RState) : Prop := optSmall st.purged ∧ optSmall st.last

/-- Every record `parseChunk` yields from `data` is small. -/
def DataSmall (data : Bytes) : Prop := ∀ x ∈ (parseChunk data).1, RecSmall x.1

/-- Every file that `open` reads (the first entry for each linked id) yields
only small records. -/
def FsSmall (fs : Fs) : Prop :=
  ∀ id ∈ fs.linkedIds, ∀ f, fs.find id = some f → DataSmall f.data

theorem applyIndex_st {s s1 : Store} {r : Record} {c : Nat} {seg : Seg}
    (h : s.applyIndex r c seg = some s1) : s1.st = s.st := by
  cases r with
  | saveVote v => simp only [Store.applyIndex, Option.some.injEq] at h; subst h; rfl
  | commit id => simp only [Store.applyIndex, Option.some.injEq] at h; subst h; rfl
  | state x => simp only [Store.applyIndex, Option.some.injEq] at h; subst h; rfl
  | append id p => simp only [Store.applyIndex, Option.some.injEq] at h; subst h; rfl
  | truncateAfter o =>
    simp only [Store.applyIndex] at h
    split at h
    · cases h
    · simp only [Option.some.injEq] at h; subst h; rfl
  | purgeUpto id =>
    simp only [Store.applyIndex] at h
    split at h
    · cases h
    · simp only [Option.some.injEq] at h; subst h; rfl

theorem smApply_small {s : Store} {r : Record} {c : Nat} {seg : Seg} (hr : RecSmall r)
    (hs : StSmall s.st) :
    (∀ m, s.smApply r c seg ≠ .panic m) ∧
      (∀ s', s.smApply r c seg = .ok s' → StSmall s'.st) := by
  unfold Store.smApply
  cases hi : s.applyIndex r c seg with
  | none => exact absurd hi (applyIndex_ne_none hr.1 c seg)
  | some s1 =>
    have hst := applyIndex_st hi
    simp only
    cases ha : s1.st.apply r with
    | ok st' =>
      refine ⟨fun m h => (by cases h), ?_⟩
      intro s' h
      injection h with h; subst h
      rw [hst] at ha
      exact apply_small hr.1 hr.2 hs.1 hs.2 ha
    | err k => exact ⟨fun m h => (by cases h), fun s' h => (by cases h)⟩
    | panic m' =>
      rw [hst] at ha
      exact absurd ha (apply_not_panic hs.2 m')

theorem replay_small (c : Nat) (rs : List Record) (offs : List Nat) (s : Store)
    (hr : ∀ r ∈ rs, RecSmall r) (hs : StSmall s.st) :
    (∀ m, replay c rs offs s ≠ .panic m) ∧ (∀ s', replay c rs offs s = .ok s' → StSmall s'.st) := by
  induction rs generalizing offs s with
  | nil =>
    refine ⟨fun m h => (by simp [replay] at h), fun s' h => ?_⟩
    simp only [replay, Res.ok.injEq] at h; subst h; exact hs
  | cons r rs ih =>
    match offs with
    | [] =>
      refine ⟨fun m h => (by simp [replay] at h), fun s' h => ?_⟩
      simp only [replay, Res.ok.injEq] at h; subst h; exact hs
    | [_] =>
      refine ⟨fun m h => (by simp [replay] at h), fun s' h => ?_⟩
      simp only [replay, Res.ok.injEq] at h; subst h; exact hs
    | o1 :: o2 :: os =>
      obtain ⟨h1, h2⟩ := smApply_small (s := s) (c := c) (seg := ⟨o1, o2 - o1⟩)
        (hr r List.mem_cons_self) hs
      simp only [replay]
      cases hsm : s.smApply r c ⟨o1, o2 - o1⟩ with
      | ok s1 =>
        simp only
        exact ih (o2 :: os) s1 (fun x hx => hr x (List.mem_cons_of_mem _ hx)) (h2 s1 hsm)
      | err k => exact ⟨fun m h => (by cases h), fun s' h => (by cases h)⟩
      | panic m' => exact absurd hsm (h1 m')

/-! ## What `openChunk` returns -/

theorem openChunk_ok {cfg : Cfg} {id : Nat} {data : Bytes} {oc : OpenedChunk}
    (h : openChunk cfg id data = .ok oc) :
    ∃ rs rest, AllWF rs ∧ (parseChunk data).1 = sized rs ∧ data = encAll rs ++ rest ∧
      oc.records = rs ∧ oc.offsets = offsetsFrom id (sizes rs) ∧
      (oc.truncatedTo = none ∨ oc.truncatedTo = some (encAll rs).length) := by
  obtain ⟨rs, h1, h2, h3, _⟩ := parseChunk_canon data
  have hp : parseChunk data = (sized rs, (parseChunk data).2.1, (parseChunk data).2.2) := by
    rw [← h1]
  rw [openChunk_of_parse hp] at h
  refine ⟨rs, (parseChunk data).2.2, h2, h1, h3, ?_⟩
  unfold chunkResult at h
  split at h
  · injection h with h; subst h; exact ⟨rfl, rfl, Or.inl rfl⟩
  · split at h
    · injection h with h; subst h; exact ⟨rfl, rfl, Or.inr rfl⟩
    · cases h
  · split at h
    · injection h with h; subst h; exact ⟨rfl, rfl, Or.inr rfl⟩
    · cases h

/-! ## File-system lemmas -/

theorem Fs.find_updateP (fs : Fs) (id id' : Nat) (g : File → File) (hg : ∀ f, (g f).id = f.id) :
    Fs.find (Fs.update fs id g) id' = (Fs.find fs id').map (fun f => if f.id == id then g f else f) := by
  induction fs with
  | nil => rfl
  | cons x xs ih =>
    simp only [Fs.find, Fs.update] at ih
    simp only [Fs.find, Fs.update, List.map_cons, List.find?_cons]
    by_cases hx : (x.id == id) = true
    · rw [if_pos hx, hg]
      cases hx' : x.id == id'
      · exact ih
      · simp only [Option.map_some, if_pos hx]
    · rw [if_neg hx]
      cases hx' : x.id == id'
      · exact ih
      · simp only [Option.map_some, if_neg hx]

theorem Fs.find_truncate (fs : Fs) (id id' len : Nat) :
    Fs.find (Fs.truncate fs id len) id' = (Fs.find fs id').map (fun f =>
      if f.id == id then { f with data := f.data.take len, durable := min f.durable len } else f) :=
  Fs.find_updateP fs id id' _ (fun _ => rfl)

theorem Fs.find_unlink (fs : Fs) (id id' : Nat) :
    Fs.find (Fs.unlink fs id) id' = (Fs.find fs id').map (fun f =>
      if f.id == id then { f with linked := false } else f) :=
  Fs.find_updateP fs id id' _ (fun _ => rfl)

theorem Fs.find_sync (fs : Fs) (id id' : Nat) :
    Fs.find (Fs.sync fs id) id' = (Fs.find fs id').map (fun f =>
      if f.id == id then { f with durable := f.data.length } else f) :=
  Fs.find_updateP fs id id' _ (fun _ => rfl)

/-- `sync` changes no file's bytes. -/
theorem Fs.find_sync_data {fs : Fs} {id id' : Nat} {f' : File}
    (h : Fs.find (Fs.sync fs id) id' = some f') :
    ∃ f, Fs.find fs id' = some f ∧ f'.data = f.data ∧ f'.id = f.id ∧ f'.linked = f.linked := by
  rw [Fs.find_sync] at h
  cases hf : Fs.find fs id' with
  | none => rw [hf] at h; cases h
  | some f =>
    rw [hf] at h
    simp only [Option.map_some, Option.some.injEq] at h
    refine ⟨f, rfl, ?_⟩
    by_cases hid : (f.id == id) = true
    · rw [if_pos hid] at h; subst h; exact ⟨rfl, rfl, rfl⟩
    · rw [if_neg hid] at h; subst h; exact ⟨rfl, rfl, rfl⟩

/-- `fs` after one `sync` per id in `ids` (what `open` does to the chunk files it keeps). -/
def Fs.syncAll (fs : Fs) (ids : List Nat) : Fs := ids.foldl Fs.sync fs

/-- The events of those syncs. -/
def syncEvs (ids : List Nat) : List Ev := ids.map (fun id => Ev.sync "o" id true)

/-- An event of `open` syncing a kept chunk. -/
def Ev.IsOpenSync (e : Ev) : Prop := ∃ id, e = Ev.sync "o" id true

theorem syncEvs_isOpenSync (ids : List Nat) : ∀ e ∈ syncEvs ids, e.IsOpenSync := by
  intro e he
  obtain ⟨id, _, rfl⟩ := List.mem_map.mp he
  exact ⟨id, rfl⟩

@[simp] theorem Fs.syncAll_nil (fs : Fs) : fs.syncAll [] = fs := rfl
theorem Fs.syncAll_cons (fs : Fs) (id : Nat) (ids : List Nat) :
    fs.syncAll (id :: ids) = (fs.sync id).syncAll ids := rfl
@[simp] theorem syncEvs_nil : syncEvs [] = [] := rfl
theorem syncEvs_cons (id : Nat) (ids : List Nat) :
    syncEvs (id :: ids) = Ev.sync "o" id true :: syncEvs ids := rfl
theorem syncEvs_append (xs ys : List Nat) : syncEvs (xs ++ ys) = syncEvs xs ++ syncEvs ys := by
  simp [syncEvs]
theorem Fs.syncAll_append (fs : Fs) (xs ys : List Nat) :
    fs.syncAll (xs ++ ys) = (fs.syncAll xs).syncAll ys := by
  simp [Fs.syncAll, List.foldl_append]

/-- `syncAll` as one map: files whose id is in `ids` become durable up to their length. -/
theorem Fs.syncAll_eq_map (fs : Fs) (ids : List Nat) :
    fs.syncAll ids = List.map (fun f => if ids.contains f.id then
      ({ f with durable := f.data.length } : File) else f) fs := by
  induction ids generalizing fs with
  | nil => simp [Fs.syncAll]
  | cons id ids ih =>
    rw [Fs.syncAll_cons, ih]
    simp only [Fs.sync, Fs.update, List.map_map]
    apply List.map_congr_left
    intro f _
    simp only [Function.comp]
    by_cases h1 : f.id = id
    · by_cases h2 : ids.contains f.id = true <;> simp [h1, h2] <;> simp [← h1, h2]
    · by_cases h2 : ids.contains f.id = true <;> simp [h1, h2]

/-- Syncing files that are already durable changes nothing. -/
theorem Fs.syncAll_eq_self {fs : Fs} {ids : List Nat}
    (h : ∀ f ∈ fs, f.id ∈ ids → f.durable = f.data.length) : fs.syncAll ids = fs := by
  rw [Fs.syncAll_eq_map]
  conv => rhs; rw [← List.map_id fs]
  apply List.map_congr_left
  intro f hf
  by_cases h2 : ids.contains f.id = true
  · have := h f hf (by simpa using h2)
    rw [if_pos h2, ← this]; rfl
  · rw [if_neg h2]; rfl

theorem Fs.find_syncAll (fs : Fs) (ids : List Nat) (id' : Nat) :
    Fs.find (fs.syncAll ids) id' = (Fs.find fs id').map (fun f =>
      if ids.contains f.id then ({ f with durable := f.data.length } : File) else f) := by
  rw [Fs.syncAll_eq_map]
  unfold Fs.find
  induction fs with
  | nil => rfl
  | cons x xs ih =>
    simp only [List.map_cons, List.find?_cons]
    have : ((if ids.contains x.id then ({ x with durable := x.data.length } : File) else x).id == id')
        = (x.id == id') := by split <;> rfl
    rw [this]
    cases x.id == id'
    · exact ih
    · rfl

theorem Fs.find_sync_some {fs : Fs} {id' : Nat} {f : File} (id : Nat)
    (h : Fs.find fs id' = some f) :
    ∃ f', Fs.find (Fs.sync fs id) id' = some f' ∧ f'.data = f.data ∧ f'.id = f.id ∧
      f'.linked = f.linked := by
  rw [Fs.find_sync, h]
  by_cases hid : (f.id == id) = true
  · refine ⟨{ f with durable := f.data.length }, ?_, rfl, rfl, rfl⟩
    simp only [Option.map_some, if_pos hid]
  · refine ⟨f, ?_, rfl, rfl, rfl⟩
    simp only [Option.map_some, if_neg hid]

theorem Fs.has_sync (fs : Fs) (id n : Nat) : (Fs.sync fs id).has n = fs.has n := by
  unfold Fs.has
  rw [Fs.find_sync]
  cases fs.find n with
  | none => rfl
  | some f => by_cases h : f.id = id <;> simp [h]

theorem Fs.has_syncAll (fs : Fs) (ids : List Nat) (n : Nat) : (fs.syncAll ids).has n = fs.has n := by
  induction ids generalizing fs with
  | nil => rfl
  | cons id ids ih => rw [Fs.syncAll_cons, ih, Fs.has_sync]

theorem Fs.find_syncAll_some {fs : Fs} {id' : Nat} {f : File} (ids : List Nat)
    (h : Fs.find fs id' = some f) :
    ∃ f', Fs.find (fs.syncAll ids) id' = some f' ∧ f'.data = f.data ∧ f'.id = f.id ∧
      f'.linked = f.linked := by
  rw [Fs.find_syncAll, h]
  by_cases hc : ids.contains f.id = true
  · exact ⟨{ f with durable := f.data.length }, by simp only [Option.map_some, if_pos hc],
      rfl, rfl, rfl⟩
  · exact ⟨f, by simp only [Option.map_some, if_neg hc], rfl, rfl, rfl⟩

theorem Fs.linkedIds_update (fs : Fs) (id : Nat) (g : File → File) (hg : ∀ f, (g f).id = f.id)
    (hl : ∀ f, (g f).linked = f.linked) : (Fs.update fs id g).linkedIds = fs.linkedIds := by
  unfold Fs.linkedIds Fs.update
  have hf : List.filter (fun f => f.linked) (List.map (fun f => if f.id == id then g f else f) fs)
      = List.map (fun f => if f.id == id then g f else f) (List.filter (fun f => f.linked) fs) := by
    rw [List.filter_map]
    congr 1
    apply List.filter_congr
    intro f _
    simp only [Function.comp]
    split
    · exact hl f
    · rfl
  rw [hf, List.foldl_map]
  congr 1
  funext acc f
  split
  · rw [hg]
  · rfl

theorem Fs.linkedIds_sync (fs : Fs) (id : Nat) : (Fs.sync fs id).linkedIds = fs.linkedIds :=
  Fs.linkedIds_update fs id _ (fun _ => rfl) (fun _ => rfl)

theorem Fs.linkedIds_syncAll (fs : Fs) (ids : List Nat) : (fs.syncAll ids).linkedIds = fs.linkedIds := by
  induction ids generalizing fs with
  | nil => rfl
  | cons id ids ih => rw [Fs.syncAll_cons, ih, Fs.linkedIds_sync]

/-- Every file is durable up to its length (e.g. a crash image). -/
def AllDurable (fs : Fs) : Prop := ∀ g ∈ fs, g.durable = g.data.length

theorem AllDurable.sync_eq {fs : Fs} (h : AllDurable fs) (id : Nat) : Fs.sync fs id = fs := by
  have := Fs.syncAll_eq_self (fs := fs) (ids := [id]) (fun f hf _ => h f hf)
  exact this

theorem AllDurable.syncAll_eq {fs : Fs} (h : AllDurable fs) (ids : List Nat) :
    fs.syncAll ids = fs :=
  Fs.syncAll_eq_self (fun f hf _ => h f hf)

theorem AllDurable.truncate {fs : Fs} (h : AllDurable fs) (id len : Nat) :
    AllDurable (Fs.truncate fs id len) := by
  intro g hg
  unfold Fs.truncate Fs.update at hg
  obtain ⟨f0, h0, e⟩ := List.mem_map.mp hg
  have := h f0 h0
  split at e
  · subst e
    simp only [List.length_take, this]
    omega
  · subst e; exact this

/-- The accumulator after the kept chunk `id` was synced. -/
def OpenAcc.synced (a : OpenAcc) (id : Nat) : OpenAcc :=
  { a with fs := a.fs.sync id, evs := a.evs ++ [Ev.sync "o" id true] }

/-! ## One step of `openLoop` -/

def OpenAcc.pre (a : OpenAcc) : OpenAcc :=
  { a with sm := { a.sm with cache := a.sm.cache.setLastEvictable a.lastLogId } }

def gapCheck (a : OpenAcc) (id : Nat) : Bool :=
  match a.prevEnd with
  | some p => p != id
  | none => false

def OpenAcc.afterTrunc (a : OpenAcc) (id : Nat) : Option Nat → OpenAcc
  | some len => { a with fs := a.fs.truncate id len,
                         evs := a.evs ++ [.trunc "o" id len, .sync "o" id true] }
  | none => a

/-- The part of an `openLoop` step after `openChunk` succeeded. -/
def openTail (cfg : Cfg) (id : Nat) (rest : List Nat) (oc : OpenedChunk) (a1 : OpenAcc) :
    Res OpenAcc × OpenAcc :=
  match replay id oc.records oc.offsets a1.sm with
  | .err k => (.err k, a1)
  | .panic m => (.panic m, a1)
  | .ok sm2 =>
    if oc.records.isEmpty && rest.isEmpty then
      let a2 := { a1 with sm := sm2, fs := a1.fs.unlink id,
                          evs := a1.evs ++ [.unlink "o" id true], prevEnd := some id,
                          lastTruncated := true }
      (.ok a2, a2)
    else
      let sm3 := { sm2 with closed := sm2.closed ++ [⟨oc.offsets, sm2.st⟩] }
      let a1s : OpenAcc := { a1 with fs := a1.fs.sync id, evs := a1.evs ++ [Ev.sync "o" id true] }
      openLoop cfg rest { a1s with sm := sm3, prevEnd := some (lastOff oc.offsets),
                                   lastLogId := sm2.st.last,
                                   lastTruncated := oc.truncatedTo.isSome }

theorem openLoop_gap (cfg : Cfg) (id : Nat) (rest : List Nat) (a : OpenAcc)
    (h : gapCheck a id = true) : openLoop cfg (id :: rest) a = (.err .gap, a.pre) := by
  rw [openLoop]
  simp only
  split
  · rfl
  · rename_i heq
    exfalso
    unfold gapCheck at h
    cases hp : a.prevEnd <;> simp [hp] at h heq
    exact h heq

theorem openLoop_nogap (cfg : Cfg) (id : Nat) (rest : List Nat) (a : OpenAcc)
    (h : gapCheck a id = false) : openLoop cfg (id :: rest) a =
      match a.fs.find id with
      | none => (.err .notFound, a.pre)
      | some f =>
        match openChunk cfg id f.data with
        | .error k => (.err k, a.pre)
        | .ok oc => openTail cfg id rest oc (a.pre.afterTrunc id oc.truncatedTo) := by
  rw [openLoop]
  simp only
  split
  · rename_i heq
    exfalso
    unfold gapCheck at h
    cases hp : a.prevEnd <;> simp [hp] at h heq
    exact heq h
  · cases a.fs.find id with
    | none => rfl
    | some f =>
      simp only
      cases openChunk cfg id f.data with
      | error k => rfl
      | ok oc =>
        obtain ⟨recs, offs, tr⟩ := oc
        cases tr <;> rfl

/-! ## Panic freedom of the loop -/

theorem DataSmall_take {data : Bytes} {rs : List Record} {rest : Bytes} (hwf : AllWF rs)
    (h1 : (parseChunk data).1 = sized rs) (h2 : data = encAll rs ++ rest) (hd : DataSmall data) :
    DataSmall (data.take (encAll rs).length) := by
  have : data.take (encAll rs).length = encAll rs := by
    rw [h2]; exact List.take_left' rfl
  rw [this]
  unfold DataSmall
  rw [parse_encAll' hwf, ← h1]
  exact hd

/-- The files the remaining loop iterations will read yield small records. -/
def ReadsSmall (ids : List Nat) (fs : Fs) : Prop :=
  ∀ id ∈ ids, ∀ f, fs.find id = some f → DataSmall f.data

theorem openLoop_no_panic (cfg : Cfg) (ids : List Nat) (a : OpenAcc) (hs : StSmall a.sm.st)
    (hf : ReadsSmall ids a.fs) : ∀ m, (openLoop cfg ids a).1 ≠ .panic m := by
  induction ids generalizing a with
  | nil => intro m h; simp [openLoop] at h
  | cons id rest ih =>
    intro m
    cases hg : gapCheck a id with
    | true => rw [openLoop_gap cfg id rest a hg]; intro h; cases h
    | false =>
      rw [openLoop_nogap cfg id rest a hg]
      cases hfind : a.fs.find id with
      | none => intro h; cases h
      | some f =>
        simp only
        cases hoc : openChunk cfg id f.data with
        | error k => intro h; cases h
        | ok oc =>
          simp only
          obtain ⟨rs, rst, hwf, hparse, hdata, hrecs, hoffs, htr⟩ := openChunk_ok hoc
          have hfsmall : DataSmall f.data := hf id List.mem_cons_self f hfind
          have hrsmall : ∀ r ∈ oc.records, RecSmall r := by
            intro r hr
            rw [hrecs] at hr
            have : (r, (encRecord r).length) ∈ (parseChunk f.data).1 := by
              rw [hparse]; exact List.mem_map.mpr ⟨r, hr, rfl⟩
            exact hfsmall _ this
          -- the accumulator after the optional truncation
          have hsm1 : (a.pre.afterTrunc id oc.truncatedTo).sm.st = a.sm.st := by
            cases oc.truncatedTo <;> rfl
          have hfs1 : ReadsSmall rest (a.pre.afterTrunc id oc.truncatedTo).fs := by
            intro id' hid' f' hf'
            rcases htr with htr | htr
            · rw [htr] at hf'
              exact hf id' (List.mem_cons_of_mem _ hid') f' hf'
            · rw [htr] at hf'
              simp only [OpenAcc.afterTrunc, OpenAcc.pre] at hf'
              rw [Fs.find_truncate] at hf'
              cases hfo : a.fs.find id' with
              | none => rw [hfo] at hf'; cases hf'
              | some f0 =>
                rw [hfo] at hf'
                simp only [Option.map_some, Option.some.injEq] at hf'
                have h0 := hf id' (List.mem_cons_of_mem _ hid') f0 hfo
                by_cases hid : (f0.id == id) = true
                · rw [if_pos hid] at hf'
                  subst hf'
                  -- `f0` is the file just read
                  have hidd : f0.id = id := by simpa using hid
                  have hfid : (f0.id == id') = true := by
                    have := List.find?_some hfo
                    simpa using this
                  have : id' = id := by
                    have : f0.id = id' := by simpa using hfid
                    omega
                  subst this
                  rw [hfind] at hfo
                  injection hfo with hfo
                  subst hfo
                  exact DataSmall_take hwf hparse hdata hfsmall
                · rw [if_neg hid] at hf'
                  subst hf'
                  exact h0
          generalize a.pre.afterTrunc id oc.truncatedTo = a1 at hsm1 hfs1
          unfold openTail
          obtain ⟨hnp, hok⟩ := replay_small id oc.records oc.offsets a1.sm hrsmall (by rw [hsm1]; exact hs)
          cases hrep : replay id oc.records oc.offsets a1.sm with
          | err k => intro h; cases h
          | panic m' => exact absurd hrep (hnp m')
          | ok sm2 =>
            simp only
            split
            · intro h; cases h
            · apply ih
              · exact hok sm2 hrep
              · intro id' hid' f' hf'
                obtain ⟨f0, hf0, hd0, _⟩ := Fs.find_sync_data hf'
                rw [hd0]
                exact hfs1 id' hid' f0 hf0

theorem openStore_no_panic (cfg : Cfg) (fs : Fs) (h : FsSmall fs) :
    ∀ m, (openStore cfg fs).1 ≠ .panic m := by
  intro m
  have hl := openLoop_no_panic cfg fs.linkedIds { sm := emptyStore cfg, fs := fs }
    ⟨trivial, trivial⟩ h
  unfold openStore
  simp only
  split
  · intro h; cases h
  · rename_i m' a heq
    exact absurd (by rw [heq]) (hl m')
  · rename_i a heq
    split
    · rename_i hreuse
      split
      · rename_i hnone
        exfalso
        simp only [Bool.and_eq_true, Bool.not_eq_true'] at hreuse
        have : a.sm.closed = [] := List.getLast?_eq_none_iff.mp hnone
        rw [this] at hreuse
        simp at hreuse
      · intro h; cases h
    · split
      · intro h; cases h
      · intro h; cases h

/-! ## The end of `openStore` -/

def prevLastOf (closed : List Closed) : Option LogId :=
  match closed.getLast? with
  | some c => c.state.last
  | none => none

/-- The successful end of `openStore` when no chunk is reused: a fresh chunk is
created at `prevEnd`. -/
theorem openStore_fresh {cfg : Cfg} {fs : Fs} {x a : OpenAcc} {n : Nat}
    (hl : openLoop cfg fs.linkedIds { sm := emptyStore cfg, fs := fs } = (.ok x, a))
    (ht : a.lastTruncated = true ∨ a.sm.closed = []) (hp : a.prevEnd.getD 0 = n)
    (hh : a.fs.has n = false) :
    openStore cfg fs =
      (.ok (({ a.sm with openOffsets := [n, n + (encRecord (.state a.sm.st)).length],
                         pending := [] } : Store),
            { files := [⟨n, prevLastOf a.sm.closed⟩] }),
        (a.fs.create n).write n (encRecord (.state a.sm.st)),
        a.evs ++ [.create "o" n true, .write "o" n (encRecord (.state a.sm.st)) true]) := by
  unfold openStore
  simp only [hl]
  have hre : (!a.sm.closed.isEmpty && !a.lastTruncated) = false := by
    rcases ht with ht | ht
    · rw [ht]; simp
    · rw [ht]; simp
  rw [hre]
  simp only [Bool.false_eq_true, if_false, hp, hh]
  unfold prevLastOf
  cases a.sm.closed.getLast? <;> rfl

/-! ## The newest chunk holds no complete record -/

/-- `data` holds no complete record: empty, or (with `truncate`) a non-empty
strict prefix of a record encoding. -/
def Headless (cfg : Cfg) (data : Bytes) : Prop :=
  data = [] ∨ (cfg.truncate = true ∧ data ≠ [] ∧
    ∃ r t, r.WF ∧ t ≠ [] ∧ data ++ t = encRecord r)

theorem openChunk_headless {cfg : Cfg} {data : Bytes} (h : Headless cfg data) (id : Nat) :
    ∃ tr, openChunk cfg id data = .ok ⟨[], [id], tr⟩ := by
  rcases h with h | ⟨ht, hne, r, t, hr, htne, e⟩
  · subst h
    have := openChunk_of_parse (cfg := cfg) (id := id) (parse_encAll' AllWF.nil)
    exact ⟨none, this⟩
  · have hp := parse_cut' (rs := []) AllWF.nil hr hne ⟨t, htne, e⟩
    have := openChunk_of_parse (cfg := cfg) (id := id) hp
    simp only [encAll_nilP, List.nil_append] at this
    rw [this]
    exact ⟨some 0, by simp [chunkResult, ht, offsetsFrom]⟩

/-- The accumulator after the loop removed a headless newest chunk `id`. -/
def OpenAcc.dropHeadless (a : OpenAcc) (id : Nat) (tr : Option Nat) : OpenAcc :=
  let a1 := a.pre.afterTrunc id tr
  { a1 with fs := a1.fs.unlink id, evs := a1.evs ++ [.unlink "o" id true], prevEnd := some id,
            lastTruncated := true }

theorem openLoop_headless {cfg : Cfg} {a : OpenAcc} {id : Nat} {f : File}
    (hg : gapCheck a id = false) (hf : a.fs.find id = some f) (hd : Headless cfg f.data) :
    ∃ tr, openLoop cfg [id] a = (.ok (a.dropHeadless id tr), a.dropHeadless id tr) := by
  obtain ⟨tr, hoc⟩ := openChunk_headless hd id
  refine ⟨tr, ?_⟩
  rw [openLoop_nogap cfg id [] a hg]
  simp only [hf, hoc]
  unfold openTail
  simp only [replay, List.isEmpty_nil, Bool.and_self, if_true]
  rfl

theorem dropHeadless_fs_find (a : OpenAcc) (id : Nat) (tr : Option Nat) (id' : Nat) :
    ((a.dropHeadless id tr).fs.find id').map (fun f => (f.id, f.linked)) =
      (a.fs.find id').map (fun f => (f.id, if f.id == id then false else f.linked)) := by
  cases tr with
  | none =>
    simp only [OpenAcc.dropHeadless, OpenAcc.afterTrunc, OpenAcc.pre, Fs.find_unlink]
    cases a.fs.find id' with
    | none => rfl
    | some f => by_cases h : f.id = id <;> simp [h]
  | some len =>
    simp only [OpenAcc.dropHeadless, OpenAcc.afterTrunc, OpenAcc.pre, Fs.find_unlink,
      Fs.find_truncate]
    cases a.fs.find id' with
    | none => rfl
    | some f => by_cases h : f.id = id <;> simp [h]

theorem find_id {fs : Fs} {id : Nat} {f : File} (h : fs.find id = some f) : f.id = id := by
  have := List.find?_some h
  simpa using this

theorem dropHeadless_find_other (a : OpenAcc) {id id' : Nat} (h : id' ≠ id) (tr : Option Nat) :
    (a.dropHeadless id tr).fs.find id' = a.fs.find id' := by
  cases tr with
  | none =>
    simp only [OpenAcc.dropHeadless, OpenAcc.afterTrunc, OpenAcc.pre, Fs.find_unlink]
    cases hf : a.fs.find id' with
    | none => rfl
    | some f =>
      have hid := find_id hf
      have : (f.id == id) = false := by rw [hid]; exact beq_false_of_ne h
      simp only [Option.map_some, this, Bool.false_eq_true, if_false]
  | some len =>
    simp only [OpenAcc.dropHeadless, OpenAcc.afterTrunc, OpenAcc.pre, Fs.find_unlink,
      Fs.find_truncate]
    cases hf : a.fs.find id' with
    | none => rfl
    | some f =>
      have hid := find_id hf
      have : (f.id == id) = false := by rw [hid]; exact beq_false_of_ne h
      simp only [Option.map_some, this, Bool.false_eq_true, if_false]

theorem dropHeadless_has (a : OpenAcc) (id : Nat) (tr : Option Nat) :
    (a.dropHeadless id tr).fs.has id = false := by
  have := dropHeadless_fs_find a id tr id
  unfold Fs.has
  cases h1 : (a.dropHeadless id tr).fs.find id with
  | none => rfl
  | some f =>
    rw [h1] at this
    cases h2 : a.fs.find id with
    | none => rw [h2] at this; cases this
    | some f0 =>
      rw [h2] at this
      have hid := find_id h2
      simp only [Option.map_some, Option.some.injEq, Prod.mk.injEq, hid, beq_self_eq_true,
        if_true] at this
      exact this.2

/-! ### `create` / `write` -/

theorem Fs.find_create_same (fs : Fs) (id : Nat) :
    Fs.find (Fs.create fs id) id = some { id := id } := by
  unfold Fs.find Fs.create
  rw [List.find?_append]
  have : List.find? (fun f => f.id == id) (List.filter (fun f => f.id != id) fs) = none := by
    rw [List.find?_eq_none]
    intro x hx
    have := (List.mem_filter.mp hx).2
    simpa using this
  rw [this]
  simp

theorem Fs.find_create_other (fs : Fs) {id id' : Nat} (h : id' ≠ id) :
    Fs.find (Fs.create fs id) id' = Fs.find fs id' := by
  unfold Fs.find Fs.create
  rw [List.find?_append]
  have h0 : (({ id := id } : File).id == id') = false := beq_false_of_ne (Ne.symm h)
  have h1 : List.find? (fun f => f.id == id') [({ id := id } : File)] = none := by
    simp only [List.find?_cons, h0, List.find?_nil]
  rw [h1, Option.or_none]
  induction fs with
  | nil => rfl
  | cons x xs ih =>
    by_cases hx : x.id = id
    · have e1 : ¬ ((x.id != id) = true) := by simp [hx]
      have e2 : (x.id == id') = false := by rw [hx]; exact beq_false_of_ne (Ne.symm h)
      rw [List.filter_cons, if_neg e1, List.find?_cons, e2]; exact ih
    · have e1 : (x.id != id) = true := by simp [hx]
      rw [List.filter_cons, if_pos e1, List.find?_cons, List.find?_cons]
      cases x.id == id'
      · exact ih
      · rfl

theorem Fs.find_write (fs : Fs) (id id' : Nat) (bs : Bytes) :
    Fs.find (Fs.write fs id bs) id' = (Fs.find fs id').map (fun f =>
      if f.id == id then { f with data := f.data ++ bs } else f) :=
  Fs.find_updateP fs id id' _ (fun _ => rfl)

/-- After `create` + `write` of the head: the new file holds exactly the head;
every other id sees the same file as before. -/
theorem find_create_write (fs : Fs) (id : Nat) (head : Bytes) :
    Fs.find ((Fs.create fs id).write id head) id
        = some { id := id, data := head, durable := 0, linked := true } ∧
    ∀ id', id' ≠ id → Fs.find ((Fs.create fs id).write id head) id' = Fs.find fs id' := by
  constructor
  · rw [Fs.find_write, Fs.find_create_same]; simp
  · intro id' h
    rw [Fs.find_write, Fs.find_create_other fs h]
    cases hf : Fs.find fs id' with
    | none => rfl
    | some f =>
      have hid := find_id hf
      have : (f.id == id) = false := by rw [hid]; exact beq_false_of_ne h
      simp only [Option.map_some, this, Bool.false_eq_true, if_false]


/-! ## Loading a sequence of undamaged chunks -/

/-- The accumulator after chunk `id` with records `rs` was loaded without
truncation and replayed to `sm2`. -/
def OpenAcc.loaded (a : OpenAcc) (id : Nat) (rs : List Record) (sm2 : Store) : OpenAcc :=
  { a.pre.synced id with
    sm := { sm2 with closed := sm2.closed ++ [⟨offsetsFrom id (sizes rs), sm2.st⟩] },
    prevEnd := some (lastOff (offsetsFrom id (sizes rs))),
    lastLogId := sm2.st.last,
    lastTruncated := false }

theorem OpenAcc.loaded_prevEnd (a : OpenAcc) (id : Nat) (rs : List Record) (sm2 : Store) :
    (a.loaded id rs sm2).prevEnd = some (id + (encAll rs).length) := by
  simp only [OpenAcc.loaded, lastOff_sized]

/-- `Loads cfg ids a a'`: from accumulator `a` the loop loads the chunks `ids`;
each is an undamaged file `encAll rs` of well-formed records with at least one
record, starts where the previous one ended (`gapCheck`), and replays without
error; `a'` is the accumulator afterwards. -/
inductive Loads (cfg : Cfg) : List Nat → OpenAcc → OpenAcc → Prop
  | nil (a : OpenAcc) : Loads cfg [] a a
  | cons {id : Nat} {rest : List Nat} {a a' : OpenAcc} {f : File} {rs : List Record}
      {sm2 : Store} :
      gapCheck a id = false → a.fs.find id = some f → f.data = encAll rs → AllWF rs → rs ≠ [] →
      replay id rs (offsetsFrom id (sizes rs)) a.pre.sm = .ok sm2 →
      Loads cfg rest (a.loaded id rs sm2) a' → Loads cfg (id :: rest) a a'

theorem openLoop_clean_step {cfg : Cfg} {a : OpenAcc} {id : Nat} {f : File} {rs : List Record}
    {sm2 : Store} (more : List Nat)
    (hg : gapCheck a id = false) (hf : a.fs.find id = some f) (hd : f.data = encAll rs)
    (hwf : AllWF rs) (hne : rs ≠ [] ∨ more ≠ [])
    (hr : replay id rs (offsetsFrom id (sizes rs)) a.pre.sm = .ok sm2) :
    openLoop cfg (id :: more) a = openLoop cfg more (a.loaded id rs sm2) := by
  have hoc : openChunk cfg id f.data = .ok ⟨rs, offsetsFrom id (sizes rs), none⟩ := by
    rw [hd, openChunk_of_parse (parse_encAll' hwf)]; rfl
  rw [openLoop_nogap cfg id more a hg]
  simp only [hf, hoc]
  unfold openTail
  simp only [OpenAcc.afterTrunc, hr]
  have : (rs.isEmpty && more.isEmpty) = false := by
    rcases hne with h | h
    · cases rs with
      | nil => exact absurd rfl h
      | cons _ _ => rfl
    · cases more with
      | nil => exact absurd rfl h
      | cons _ _ => simp
  rw [this]
  rfl

theorem Loads.openLoop_append {cfg : Cfg} {ids : List Nat} {a a' : OpenAcc}
    (h : Loads cfg ids a a') (more : List Nat) :
    openLoop cfg (ids ++ more) a = openLoop cfg more a' := by
  induction h with
  | nil a => rfl
  | cons hg hf hd hwf hne hr _ ih =>
    rw [List.cons_append, openLoop_clean_step _ hg hf hd hwf (Or.inl hne) hr, ih]

/-- D15: loading undamaged chunks syncs each of them once (old: `a'.fs = a.fs ∧ a'.evs = a.evs`). -/
theorem Loads.fs_evs {cfg : Cfg} {ids : List Nat} {a a' : OpenAcc} (h : Loads cfg ids a a') :
    a'.fs = a.fs.syncAll ids ∧ a'.evs = a.evs ++ syncEvs ids := by
  induction h with
  | nil a => exact ⟨rfl, (List.append_nil _).symm⟩
  | cons _ _ _ _ _ _ _ ih =>
    rw [ih.1, ih.2, Fs.syncAll_cons, syncEvs_cons]
    refine ⟨rfl, ?_⟩
    simp only [OpenAcc.loaded, OpenAcc.synced, OpenAcc.pre, List.append_assoc, List.singleton_append]

/-! ## A damaged tail on the newest chunk -/

/-- A torn tail: a non-empty strict prefix of a record encoding, or a run of
`m ≥ 1` zero bytes. -/
def TornTail (tail : Bytes) : Prop :=
  (tail ≠ [] ∧ ∃ r t, r.WF ∧ t ≠ [] ∧ tail ++ t = encRecord r) ∨
  (∃ m, 1 ≤ m ∧ tail = List.replicate m 0)

theorem openChunk_torn {cfg : Cfg} (ht : cfg.truncate = true) {rs : List Record} (hwf : AllWF rs)
    {tail : Bytes} (h : TornTail tail) (id : Nat) :
    openChunk cfg id (encAll rs ++ tail)
      = .ok ⟨rs, offsetsFrom id (sizes rs), some (encAll rs).length⟩ := by
  rcases h with ⟨hne, r, t, hr, htne, e⟩ | ⟨m, hm, e⟩
  · rw [openChunk_of_parse (parse_cut' hwf hr hne ⟨t, htne, e⟩)]
    simp [chunkResult, ht]
  · subst e
    rw [openChunk_of_parse (parse_zero_tail' hwf hm)]
    by_cases h28 : m < 28 <;> simp [h28, chunkResult, ht, allZero_replicate]

/-- The accumulator after the newest chunk `id` was cut back to its complete
records `rs` and replayed to `sm2`. -/
def OpenAcc.loadedTrunc (a : OpenAcc) (id : Nat) (rs : List Record) (sm2 : Store) : OpenAcc :=
  { (a.pre.afterTrunc id (some (encAll rs).length)).synced id with
    sm := { sm2 with closed := sm2.closed ++ [⟨offsetsFrom id (sizes rs), sm2.st⟩] },
    prevEnd := some (lastOff (offsetsFrom id (sizes rs))),
    lastLogId := sm2.st.last,
    lastTruncated := true }

theorem openLoop_torn_last {cfg : Cfg} (ht : cfg.truncate = true) {a : OpenAcc} {id : Nat}
    {f : File} {rs : List Record} {tail : Bytes} {sm2 : Store}
    (hg : gapCheck a id = false) (hf : a.fs.find id = some f) (hd : f.data = encAll rs ++ tail)
    (hwf : AllWF rs) (hne : rs ≠ []) (htail : TornTail tail)
    (hr : replay id rs (offsetsFrom id (sizes rs)) a.pre.sm = .ok sm2) :
    openLoop cfg [id] a = (.ok (a.loadedTrunc id rs sm2), a.loadedTrunc id rs sm2) := by
  have hoc := openChunk_torn ht hwf htail id
  rw [← hd] at hoc
  rw [openLoop_nogap cfg id [] a hg]
  simp only [hf, hoc]
  unfold openTail
  have hr' : replay id rs (offsetsFrom id (sizes rs))
      (a.pre.afterTrunc id (some (encAll rs).length)).sm = .ok sm2 := hr
  simp only [hr']
  have : (rs.isEmpty && ([] : List Nat).isEmpty) = false := by
    cases rs with
    | nil => exact absurd rfl hne
    | cons _ _ => rfl
  rw [this]
  rfl

theorem Fs.has_truncate (fs : Fs) (id len n : Nat) :
    (Fs.truncate fs id len).has n = fs.has n := by
  unfold Fs.has
  rw [Fs.find_truncate]
  cases fs.find n with
  | none => rfl
  | some f => by_cases h : f.id = id <;> simp [h]

theorem prevLastOf_concat (cs : List Closed) (c : Closed) :
    prevLastOf (cs ++ [c]) = c.state.last := by
  simp [prevLastOf]

theorem encAll_length_pos {rs : List Record} (h : rs ≠ []) : 0 < (encAll rs).length := by
  have := encAll_length_geP rs
  cases rs with
  | nil => exact absurd rfl h
  | cons _ _ => simp only [List.length_cons] at this; omega

theorem pre_emptyStore (cfg : Cfg) (fs : Fs) :
    (OpenAcc.pre { sm := emptyStore cfg, fs := fs }).sm = emptyStore cfg := rfl

end RaftLog
