/-
C05 (crash recoverability), part 15: the recovered system satisfies the history and
durability invariant (`HInv`), the ghost invariant and payload mirroring again — so the
crash theorems (C03, C05) apply to histories that continue after a recovery, with further
crashes.
-/
import RaftLogModel.Proofs.Recov5p
namespace RaftLog

theorem cntW_head_C5b (st : RState) (n : Nat) : cntW [headOpC5b st n] = 0 := by
  simp [cntW, headOpC5b, JOp.isHead]

theorem mirrors_head_C5b {P : List JOp} {W' : List Op} {r' : RefLog} {st : RState} {l : Log} (n : Nat)
    (hrun : RefLog.run {} W' = some r') (hst : stRunO P {} = some st) (hl : idxRun P [] = some l)
    (h1 : st = r'.state) (h2 : logKeys l = entKeys r'.entries) :
    Mirrors (P ++ [headOpC5b st n]) W' := by
  refine ⟨r', hrun, ?_, l, ?_, h2⟩
  · rw [stRunO_append, hst]
    simp only [Option.bind_some, stRunO, headOpC5b, List.map_cons, List.map_nil, stRun, RState.apply, h1]
  · rw [idxRun_append, hl]
    simp only [Option.bind_some, idxRun, headOpC5b, idxLogO]

/-- **The recovered store satisfies the history and durability invariant**, with the
marker of the ghost store, the first `n` writes as its history, and an acknowledged
position `A'` at or beyond the marker. Also payload mirroring (`PInvC5b`). -/
theorem ghost_recover_full_C5b {G : Store} {fs : Fs} {w : Worker} {r : RefLog} {W : List Op}
    {Bh A E K : Nat} (hi : HInv G fs w r W Bh A E K) (hack : Bh ≤ A)
    (hS : SmallJ G fs w) (hpay : JPayC5b G fs w W)
    (hlive : ∀ id ∈ G.chunkIds, fs.has id = true) (hlinked : fs.linkedIds = G.chunkIds)
    (hn : (Fs.ids fs).Nodup) {img : Fs} (hc : CrashImage fs img) (hnt : NoTornPredecessor img)
    (cfg' : Cfg) (ht : cfg'.truncate = true) :
    ∃ s' w' fs' evs n r' A', openStore cfg' img = (.ok (s', w'), fs', evs) ∧
      RefLog.run {} (W.take n) = some r' ∧ (E ≤ A → K ≤ n) ∧
      HInv s' fs' w' r' (W.take n) Bh A' s'.openEnd n ∧ Bh ≤ A' ∧
      PInvC5b s' fs' w' r' (W.take n) ∧
      LInv s' fs' w' ∧ SmallJ s' fs' w' ∧ s'.cfg = cfg' ∧ (∃ jc' jo', RecovC5b s' w' fs' jc' jo') := by
  obtain ⟨jc, jo, g, hhist⟩ := hi.hist
  obtain ⟨s', w', fs', evs, jc', jo', P, n, r', q1, q2, q3, q4, q5, q6, q7, q8, q9, ⟨N0, hN, hn0⟩,
    q11, q12, q13, q14, q15, hB, hjs⟩ :=
    ghost_open_C5b g hi.inv.j hhist hack (hi.dur.live_durable_C3 g) hlive hlinked hn hc hnt cfg' ht
  have q9w : allOps s' jc' jo' = P ∨ allOps s' jc' jo' = P ++ [headOpC5b s'.st s'.openId] := by
    rcases q9 with ⟨k, _⟩ | ⟨k, _⟩
    · exact Or.inl k
    · exact Or.inr k
  obtain ⟨jc0, jo0, g0, gp0, gr0⟩ := hi.inv.rep
  obtain ⟨e1, e2⟩ := g.unique_C3b g0
  subst e1; subst e2
  obtain ⟨w1, w2, w3, w4⟩ := prefix_good_C5b q6 g.ops_wf_C5b (g.ops_small_C5b hi.inv.j hS) q7 q8
  have hpayP : ∀ e ∈ s'.log, ∀ p, opAt e p ∈ P → (e.2.id, p) ∈ r'.entries := by
    intro e he p hop
    exact hpay jc jo N0 g hN P q6 r' s'.log (by rw [← hn0]; exact q11) q8 e he p hop
  have hrinv : RInv s' fs' w' r' :=
    q2.rinv w1 w2 q13 q14 q12 w3 w4 (payG_recovered_C5b q8 hpayP q9w) (runG_recovered_C5b gr0 q6 q7 q9w)
  have hsmall : SmallJ s' fs' w' := by
    apply q2.smallJ
    intro op hop
    have hPgood : ∀ o ∈ P, RecSmall o.r := fun o ho => g.ops_small_C5b hi.inv.j hS o (q6.subset ho)
    rcases q9w with k | k
    · rw [k] at hop; exact hPgood op hop
    · rw [k] at hop
      rcases List.mem_append.mp hop with k2 | k2
      · exact hPgood op k2
      · simp only [List.mem_singleton] at k2
        subst k2
        exact ⟨trivial, fun x hx => by
          simp only [headOpC5b, Record.state.injEq] at hx; subst hx; exact w3⟩
  -- lengths
  have hnle : n ≤ W.length := by have := cntW_prefix_le q6; omega
  have hWlen : (W.take n).length = n := by rw [List.length_take]; omega
  have hg' := q2.repG
  have hend' := hg'.journal_end_C3 hrinv.j
  have hpos := allOps_size_pos_C3 G jc jo
  obtain ⟨N0', hN', hmir, hbd, _⟩ := hhist
  have hN0 : N0' = N0 := by omega
  subst hN0
  have hcntL : cntW (allOps s' jc' jo') = cntW P := by
    rcases q9w with k | k
    · rw [k]
    · rw [k, cntW_append, cntW_head_C5b]; rfl
  have hPL : P <+: allOps s' jc' jo' := by
    rcases q9w with k | k
    · rw [k]; exact List.prefix_refl _
    · rw [k]; exact List.prefix_append _ _
  have hsP : s'.jstart + sizeSum P ≤ s'.openEnd := by
    have := sizeSum_prefix_le hPL; omega
  -- the acknowledged position of the recovered store
  refine ⟨s', w', fs', evs, n, r', G.jstart + sizeSum P, q1, q11, q15, ?_, hB, ?_, q2.linv, hsmall, q3,
    ⟨jc', jo', q2⟩⟩
  · refine ⟨hrinv, q11, ⟨jc', jo', hg', N0', by rw [hWlen, hcntL]; exact hn0, ?_, ?_, ?_⟩, ?_, ?_, ?_⟩
    · -- every prefix at or beyond the marker mirrors a prefix of the writes
      intro P' hP' hB'
      have hold : ∀ P', P' <+: P → Bh ≤ s'.jstart + sizeSum P' →
          Mirrors P' ((W.take n).take (N0' + cntW P')) := by
        intro P' hP'P hB'
        have hle : N0' + cntW P' ≤ n := by have := cntW_prefix_le hP'P; omega
        rw [List.take_take, Nat.min_eq_left hle]
        exact hmir P' (hP'P.trans q6) (by rw [← hjs]; exact hB')
      rcases q9w with k | k
      · rw [k] at hP'; exact hold P' hP' hB'
      · rw [k] at hP'
        rcases List.prefix_concat_iff.mp hP' with e | e
        · subst e
          have hc0 : N0' + cntW (P ++ [headOpC5b s'.st s'.openId]) = n := by
            rw [cntW_append, cntW_head_C5b]; omega
          rw [hc0, List.take_take, Nat.min_self]
          exact mirrors_head_C5b s'.openId q11 q7 q8 q13 q14
        · exact hold P' e hB'
    · rcases hbd with e0 | ⟨Q, hQ, e0⟩
      · exact Or.inl e0
      · right
        refine ⟨Q, ?_, by rw [hjs]; exact e0⟩
        exact (prefix_of_sizeSum_le_C3b hQ q6 hpos (by omega)).trans hPL
    · exact Or.inl ⟨allOps s' jc' jo', List.prefix_refl _, hend', by rw [hcntL]; exact hn0.symm⟩
    · rw [hjs]; exact hi.mark
    · rw [hjs] at hsP; omega
    · -- durability
      obtain ⟨f1, f2, f3, f4⟩ := q2.worker_facts
      obtain ⟨pl, hw'⟩ := q2.worker
      have hrest : w'.rest = [] := by rw [hw']; rfl
      have hcur : w'.cur = s'.openId := by rw [hw']; rfl
      refine ⟨⟨(by rw [hrest]; trivial), (by rw [f4]; intro r hr; cases hr), ?_⟩,
        (by rw [hrest]; intro i hi; cases hi), (by rw [hjs] at hsP; exact hsP), ?_, ?_⟩
      · intro i hi hlt
        have := q2.idsLe i hi
        omega
      · -- written
        intro offs ho
        simp only [Store.chunks, List.mem_append, List.mem_map, List.mem_singleton] at ho
        rcases ho with ⟨c, hc', rfl⟩ | rfl
        · obtain ⟨p, hp, e⟩ := q2.mem_closed hc'
          obtain ⟨f, k1, _, k3, _, k5⟩ := q2.files p hp
          have hl := k5.lastOff_eq
          rw [← e]
          show min _ _ ≤ (fdata fs' p.1.id).length
          rw [fdata_of_find_C3 k1, k3]
          omega
        · obtain ⟨f, k1, _, k3, k5, _⟩ := q2.openFile
          have hl := k5.lastOff_eq
          show min _ _ ≤ (fdata fs' s'.openId).length
          rw [fdata_of_find_C3 k1, k3]
          omega
      · -- durable
        intro offs ho f hf
        simp only [Store.chunks, List.mem_append, List.mem_map, List.mem_singleton] at ho
        rcases ho with ⟨c, hc', rfl⟩ | rfl
        · obtain ⟨p, hp, e⟩ := q2.mem_closed hc'
          obtain ⟨f', k1, _, k3, k4, k5⟩ := q2.files p hp
          have hl := k5.lastOff_eq
          rw [← e] at hf ⊢
          have hf' : fs'.find p.1.id = some f := hf
          rw [k1] at hf'
          cases hf'
          rw [k4, k3]
          omega
        · obtain ⟨f', k1, _, k3, k5, _⟩ := q2.openFile
          have hl := k5.lastOff_eq
          have hoe : s'.openEnd = s'.openId + (encAll jo').length := by
            simp only [Store.openEnd, Store.openId]; exact hl
          have hf' : fs'.find s'.openId = some f := hf
          rw [k1] at hf'
          injection hf' with hf'
          subst hf'
          show min (lastOff s'.openOffsets - s'.openId) (G.jstart + sizeSum P - s'.openId) ≤ f'.durable
          rcases q9 with ⟨_, hdur⟩ | ⟨k, hjo⟩
          · rw [hdur f' k1, k3]
            have : lastOff s'.openOffsets - s'.openId = (encAll jo').length := by
              simp only [Store.openEnd] at hoe; omega
            omega
          · -- a fresh chunk: the acknowledged position is its start
            have hsz : sizeSum (allOps s' jc' jo') = sizeSum P + (encRecord (.state s'.st)).length := by
              rw [k, sizeSum_append]
              simp [sizeSum, headOpC5b, sumNat]
            have hopen : (encAll jo').length = (encRecord (.state s'.st)).length := by
              rw [hjo]; simp
            have : G.jstart + sizeSum P = s'.openId := by rw [← hjs]; omega
            omega
  · refine ⟨hrinv, q11, ⟨jc', jo', N0', hg', by rw [hWlen, hcntL]; exact hn0, ?_⟩⟩
    intro P' hP' r'' l hr'' hl e he p hop
    have hold : ∀ P', P' <+: P → ∀ r'' l, RefLog.run {} ((W.take n).take (N0' + cntW P')) = some r'' →
        idxRun P' [] = some l → ∀ e ∈ l, ∀ p, opAt e p ∈ P' → (e.2.id, p) ∈ r''.entries := by
      intro P' hP'P r'' l hr'' hl e he p hop
      have hle : N0' + cntW P' ≤ n := by have := cntW_prefix_le hP'P; omega
      rw [List.take_take, Nat.min_eq_left hle] at hr''
      exact hpay jc jo N0' g hN P' (hP'P.trans q6) r'' l hr'' hl e he p hop
    rcases q9w with k | k
    · rw [k] at hP'; exact hold P' hP' r'' l hr'' hl e he p hop
    · rw [k] at hP'
      rcases List.prefix_concat_iff.mp hP' with e0 | e0
      · subst e0
        rw [cntW_append, cntW_head_C5b, Nat.add_zero] at hr''
        have hl' : idxRun P [] = some l := by
          rw [idxRun_append, q8] at hl
          simp only [Option.bind_some, idxRun, headOpC5b, idxLogO] at hl
          rw [q8]; exact hl
        rcases List.mem_append.mp hop with k2 | k2
        · exact hold P (List.prefix_refl _) r'' l hr'' hl' e he p k2
        · simp only [List.mem_singleton, opAt, headOpC5b, JOp.mk.injEq] at k2
          cases k2.1
      · exact hold P' e0 r'' l hr'' hl e he p hop

end RaftLog
