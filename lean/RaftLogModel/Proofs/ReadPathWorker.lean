/-
C07 support, part 2: what a worker step does to (a) the file entries
`(id, prevLast)` the worker knows or will be told about, and (b) the eviction
boundary of the payload cache.

(a) entries only move from the queue into `files` or disappear;
(b) the boundary is either unchanged or it is `f.prevLast` of the single file
    `f` left in the worker's list (set in `startSync`).
-/
import RaftLogModel.Proofs.WorkerInv
namespace RaftLog

/-- The file entries announced by `appendFile` requests, in order. -/
def reqEnts (l : List WReq) : List FileEnt := l.flatMap WReq.ents

@[simp] theorem reqEnts_nil : reqEnts [] = [] := rfl
@[simp] theorem reqEnts_cons (r : WReq) (l : List WReq) : reqEnts (r :: l) = r.ents ++ reqEnts l := by
  simp [reqEnts]
@[simp] theorem reqEnts_append (a b : List WReq) : reqEnts (a ++ b) = reqEnts a ++ reqEnts b := by
  simp [reqEnts]

theorem reqEnts_writes (b : List WReq) (hb : ∀ r ∈ b, r.isWrite = true) : reqEnts b = [] := by
  induction b with
  | nil => rfl
  | cons r b ih =>
    rw [reqEnts_cons, isWrite_ents (hb r List.mem_cons_self),
      ih (fun x hx => hb x (List.mem_cons_of_mem _ hx))]
    rfl

theorem reqEnts_toList (t : Option WReq) : reqEnts t.toList = tailEnts t := by
  cases t <;> simp [tailEnts]

/-- Every file entry the worker holds: its list of open files, then the
entries of the `appendFile` requests in hand or queued. -/
def Worker.fents (w : Worker) : List FileEnt := w.files ++ reqEnts (w.pc.held ++ w.queue)

theorem Worker.fents_of_pc (w : Worker) {pc : WPc} (h : w.pc = pc) :
    w.fents = w.files ++ reqEnts (pc.held ++ w.queue) := by
  rw [Worker.fents, h]

theorem WCtx.toRecv_fents (c : WCtx) : c.toRecv.w.fents = c.w.files ++ reqEnts c.w.queue := by
  simp [Worker.fents]

theorem WCtx.nonFlush_fents (c : WCtx) (r : WReq) :
    (c.nonFlush r).w.fents = c.w.files ++ reqEnts (r :: c.w.queue) := by
  simp [Worker.fents]

theorem WCtx.finishBatch_fents (c : WCtx) (b : List WReq) (t : Option WReq) (ok : Bool) :
    (c.finishBatch b t ok).w.fents = c.w.files ++ reqEnts (t.toList ++ c.w.queue) := by
  simp [Worker.fents, reqEnts_toList]

theorem WCtx.startSync_fents (c : WCtx) (b : List WReq) (t : Option WReq) :
    (c.startSync b t).w.fents = c.w.files ++ reqEnts (t.toList ++ c.w.queue) := by
  rcases c.startSync_cases b t with ⟨_, he⟩ | ⟨f, _, he⟩ | ⟨_, he⟩ <;> rw [he]
  · exact c.finishBatch_fents b t true
  · simp [Worker.fents, WPc.held]
  · simp [Worker.fents, WPc.held]

theorem WCtx.startWrites_fents (c : WCtx) (b : List WReq) (t : Option WReq) :
    (c.startWrites b t).w.fents = c.w.files ++ reqEnts (t.toList ++ c.w.queue) := by
  rcases c.startWrites_cases b t with ⟨_, he⟩ | ⟨_, he⟩ <;> rw [he]
  · exact c.startSync_fents b t
  · simp [Worker.fents, WPc.held]

theorem WCtx.die_fents (c : WCtx) (l : List WReq) : (c.die l).w.fents = c.w.files := by
  rw [WCtx.die_w]; simp [Worker.fents, WPc.held]

/-- (a) A worker step invents no file entry. -/
theorem WCtx.step_fents (c : WCtx) (out : Outcome) : ∀ x ∈ (c.step out).w.fents, x ∈ c.w.fents := by
  apply c.step_elim (P := fun c' => ∀ x ∈ c'.w.fents, x ∈ c.w.fents) out
  · intro _ _ x hx; exact hx
  · intro hpc _ x hx
    rw [WCtx.toRecv_fents] at hx
    rw [c.w.fents_of_pc hpc]; simpa [WPc.held] using hx
  · intro r hpc hr _ x hx
    rw [WCtx.startWrites_fents] at hx
    rw [c.w.fents_of_pc hpc]
    obtain ⟨h1, h2, _⟩ := collectBatch_specW 1024 c.w.queue
    have e : reqEnts (WPc.held (.got r) ++ c.w.queue) =
        reqEnts ((collectBatch 1024 c.w.queue).2.1.toList ++ (collectBatch 1024 c.w.queue).2.2) := by
      conv => lhs; rw [h1]
      simp only [WPc.held, List.cons_append, List.nil_append, reqEnts_cons, reqEnts_append,
        isWrite_ents hr, reqEnts_writes _ h2]
    rw [e]
    simpa using hx
  · intro r hpc _ _ x hx
    rw [WCtx.nonFlush_fents] at hx
    rw [c.w.fents_of_pc hpc]; simpa [WPc.held] using hx
  · intro b t hpc _ x hx
    rw [WCtx.startSync_fents] at hx
    rw [c.w.fents_of_pc hpc]; simpa [WPc.held] using hx
  · intro d rest b t hpc _ _ x hx
    rw [WCtx.die_fents] at hx
    exact List.mem_append_left _ (by simpa using hx)
  · intro d rest b t k hpc _ _ _ _ x hx
    rw [c.w.fents_of_pc hpc]
    simpa [Worker.fents, WPc.held] using hx
  · intro d b t hpc _ _ x hx
    rw [WCtx.startSync_fents] at hx
    rw [c.w.fents_of_pc hpc]; simpa [WPc.held] using hx
  · intro d d' rest b t hpc _ _ x hx
    rw [c.w.fents_of_pc hpc]
    simpa [Worker.fents, WPc.held] using hx
  · intro b t hpc _ _ x hx
    rw [WCtx.finishBatch_fents] at hx
    rw [c.w.fents_of_pc hpc]; simpa [WPc.held] using hx
  · intro b t f rest hpc _ _ _ x hx
    rw [WCtx.finishBatch_fents] at hx
    rw [c.w.fents_of_pc hpc]; simpa [WPc.held] using hx
  · intro b t f rest hpc hf _ _ x hx
    rw [WCtx.startSync_fents] at hx
    rw [c.w.fents_of_pc hpc, hf]
    simp only [WCtx.synced_w, WCtx.setFiles_w, List.mem_append] at hx
    simp only [WPc.held, List.mem_append, List.mem_cons]
    rcases hx with h | h
    · exact .inl (.inr h)
    · exact .inr h
  · intro b t hpc _ _ x hx
    rw [WCtx.finishBatch_fents] at hx
    rw [c.w.fents_of_pc hpc]; simpa [WPc.held] using hx
  · intro b t f rest hpc _ _ _ x hx
    rw [WCtx.finishBatch_fents] at hx
    rw [c.w.fents_of_pc hpc]; simpa [WPc.held] using hx
  · intro b t f rest hpc _ _ _ x hx
    rw [WCtx.finishBatch_fents] at hx
    rw [c.w.fents_of_pc hpc]; simpa [WPc.held] using hx
  · intro hpc _ x hx
    rw [WCtx.toRecv_fents] at hx
    rw [c.w.fents_of_pc hpc]; simpa [WPc.held] using hx
  · intro i rest hpc _ _ x hx
    rw [WCtx.die_fents] at hx
    exact List.mem_append_left _ (by simpa using hx)
  · intro i hpc _ _ x hx
    rw [WCtx.toRecv_fents] at hx
    rw [c.w.fents_of_pc hpc]; simpa [WPc.held] using hx
  · intro i j rest hpc _ _ x hx
    rw [c.w.fents_of_pc hpc]
    simpa [Worker.fents, WPc.held] using hx

/-! ### The eviction boundary -/

/-- The boundary of `c'` is that of `c`, or it was just set to the
`prevLast` of the single file left in the worker's list. -/
def BndStep (c c' : WCtx) : Prop :=
  c'.cache.lastEvictable = c.cache.lastEvictable ∨
    ∃ f, c'.w.files = [f] ∧ c'.cache.lastEvictable = f.prevLast

theorem WCtx.startSync_bnd (c : WCtx) (b : List WReq) (t : Option WReq) :
    (c.startSync b t).cache.lastEvictable = c.cache.lastEvictable ∨
      ∃ f, (c.startSync b t).w.files = [f] ∧ (c.startSync b t).cache.lastEvictable = f.prevLast := by
  rcases c.startSync_cases b t with ⟨_, he⟩ | ⟨f, hf, he⟩ | ⟨_, he⟩ <;> rw [he]
  · exact .inl (by rw [WCtx.finishBatch_cache])
  · exact .inr ⟨f, hf, rfl⟩
  · exact .inl rfl

theorem WCtx.startWrites_bnd (c : WCtx) (b : List WReq) (t : Option WReq) :
    (c.startWrites b t).cache.lastEvictable = c.cache.lastEvictable ∨
      ∃ f, (c.startWrites b t).w.files = [f] ∧ (c.startWrites b t).cache.lastEvictable = f.prevLast := by
  rcases c.startWrites_cases b t with ⟨_, he⟩ | ⟨_, he⟩ <;> rw [he]
  · exact c.startSync_bnd b t
  · exact .inl rfl

/-- (b) -/
theorem WCtx.step_bnd (c : WCtx) (out : Outcome) : BndStep c (c.step out) := by
  apply c.step_elim (P := fun c' => BndStep c c') out
  · intro _ _; exact .inl rfl
  · intro _ _; exact .inl (by rw [WCtx.toRecv_cache])
  · intro r _ _ _; exact WCtx.startWrites_bnd _ _ _
  · intro r _ _ _; exact .inl (by rw [WCtx.nonFlush_cache])
  · intro b t _ _; exact WCtx.startSync_bnd _ _ _
  · intro d rest b t _ _ _; exact .inl (by rw [WCtx.die_cache]; rfl)
  · intro d rest b t k _ _ _ _ _; exact .inl rfl
  · intro d b t _ _ _; exact WCtx.startSync_bnd _ _ _
  · intro d d' rest b t _ _ _; exact .inl rfl
  · intro b t _ _ _; exact .inl (by rw [WCtx.finishBatch_cache])
  · intro b t f rest _ _ _ _; exact .inl (by rw [WCtx.finishBatch_cache]; rfl)
  · intro b t f rest _ _ _ _; exact WCtx.startSync_bnd _ _ _
  · intro b t _ _ _; exact .inl (by rw [WCtx.finishBatch_cache])
  · intro b t f rest _ _ _ _; exact .inl (by rw [WCtx.finishBatch_cache]; rfl)
  · intro b t f rest _ _ _ _; exact .inl (by rw [WCtx.finishBatch_cache]; rfl)
  · intro _ _; exact .inl (by rw [WCtx.toRecv_cache])
  · intro i rest _ _ _; exact .inl (by rw [WCtx.die_cache]; rfl)
  · intro i _ _ _; exact .inl (by rw [WCtx.toRecv_cache]; rfl)
  · intro i j rest _ _ _; exact .inl rfl

end RaftLog
