/-
C16 support: the panic branches of the checked-arithmetic model are
unreachable as long as no log index equals u64::MAX.
-/
import RaftLogModel.Proofs.StoreBasic
namespace RaftLog

/-- `index + 1` does not overflow a u64. -/
def smallId (id : LogId) : Prop := id.index + 1 < U64

def optSmall : Option LogId → Prop
  | none => True
  | some id => smallId id

structure PanicFree (s : Store) : Prop where
  open2 : 2 ≤ s.openOffsets.length
  purged : optSmall s.st.purged
  last : optSmall s.st.last
  log : ∀ e ∈ s.log, smallId e.2.id

def Op.small : Op → Prop
  | .saveVote _ => True
  | .append es => ∀ e ∈ es, smallId e.1
  | .truncate _ => True
  | .purge id => smallId id
  | .commit _ => True
  | .saveUserData _ => True

theorem nextIndexChecked_some {o : Option LogId} (h : optSmall o) : ∃ n, nextIndexChecked o = some n := by
  cases o with
  | none => exact ⟨0, rfl⟩
  | some id =>
    simp only [optSmall, smallId] at h
    exact ⟨id.index + 1, by simp [nextIndexChecked, h]⟩

theorem lastSegment_some {offs : List Nat} (h : 2 ≤ offs.length) : ∃ seg, lastSegment offs = some seg := by
  unfold lastSegment
  have : 2 ≤ offs.reverse.length := by simpa using h
  match hr : offs.reverse, this with
  | e :: b :: _, _ => exact ⟨_, rfl⟩
  | [_], h2 => simp at h2
  | [], h2 => simp at h2

/-- What a record needs for `appendAndApply` not to panic. -/
def Record.small : Record → Prop
  | .append id _ => smallId id
  | .truncateAfter o => optSmall o
  | .purgeUpto id => smallId id
  | _ => True

theorem apply_not_panic {st : RState} {r : Record} (hl : optSmall st.last) :
    ∀ m, st.apply r ≠ .panic m := by
  intro m h
  cases r with
  | saveVote v => simp only [RState.apply, RState.updateVote] at h; split at h <;> cases h
  | commit id => simp only [RState.apply, RState.commit] at h; split at h <;> cases h
  | truncateAfter o => cases h
  | purgeUpto id => cases h
  | state x => cases h
  | append id p =>
    simp only [RState.apply, RState.append] at h
    split at h
    · cases h
    · split at h
      · cases h
      · rename_i l hlast
        rw [hlast] at hl
        obtain ⟨n, hn⟩ := nextIndexChecked_some (o := some l) hl
        rw [hn] at h
        simp only at h
        split at h <;> cases h

theorem applyIndex_ne_none {s : Store} {r : Record} (hr : r.small) (chunk : Nat) (seg : Seg) :
    s.applyIndex r chunk seg ≠ none := by
  cases r with
  | saveVote v => simp [Store.applyIndex]
  | commit id => simp [Store.applyIndex]
  | state x => simp [Store.applyIndex]
  | append id p => simp [Store.applyIndex]
  | truncateAfter o =>
    obtain ⟨n, hn⟩ := nextIndexChecked_some (o := o) hr
    simp [Store.applyIndex, hn]
  | purgeUpto id =>
    obtain ⟨n, hn⟩ := nextIndexChecked_some (o := some id) hr
    simp [Store.applyIndex, hn]

theorem appendAndApply_not_panic {s : Store} (fsHas : Nat → Bool) {r : Record}
    (hp : PanicFree s) (hr : r.small) : ∀ m, (s.appendAndApply fsHas r).1 ≠ .panic m := by
  intro m h
  unfold Store.appendAndApply at h
  split at h
  · cases h
  · rename_i m' hm; exact apply_not_panic hp.last m' hm
  · simp only at h
    split at h
    · rename_i hnone; exact applyIndex_ne_none hr _ _ hnone
    · split at h
      · cases h
      · cases h
      · rename_i heq; exact tryCloseFull_not_panic heq

theorem mem_logInsert {idx : Nat} {d : LogData} {l : List (Nat × LogData)} {e : Nat × LogData}
    (h : e ∈ logInsert idx d l) : e = (idx, d) ∨ e ∈ l := by
  induction l with
  | nil => simp [logInsert] at h; exact Or.inl h
  | cons x xs ih =>
    obtain ⟨i, d'⟩ := x
    unfold logInsert at h
    split at h
    · cases h with
      | head => exact Or.inl rfl
      | tail _ h' => exact Or.inr h'
    · split at h
      · cases h with
        | head => exact Or.inl rfl
        | tail _ h' => exact Or.inr (List.mem_cons_of_mem _ h')
      · cases h with
        | head => exact Or.inr List.mem_cons_self
        | tail _ h' =>
          rcases ih h' with h1 | h1
          · exact Or.inl h1
          · exact Or.inr (List.mem_cons_of_mem _ h1)

theorem apply_small {st st' : RState} {r : Record} (hr : r.small)
    (hs : ∀ x, r = .state x → optSmall x.purged ∧ optSmall x.last)
    (hp : optSmall st.purged) (hl : optSmall st.last) (h : st.apply r = .ok st') :
    optSmall st'.purged ∧ optSmall st'.last := by
  cases r with
  | saveVote v =>
    simp only [RState.apply, RState.updateVote] at h
    split at h
    · injection h with h; subst h; exact ⟨hp, hl⟩
    · cases h
  | commit id =>
    simp only [RState.apply, RState.commit] at h
    split at h
    · cases h
    · injection h with h; subst h; exact ⟨hp, hl⟩
  | state x => simp only [RState.apply, Res.ok.injEq] at h; subst h; exact hs x rfl
  | truncateAfter o =>
    simp only [RState.apply, Res.ok.injEq] at h; subst h
    simp only [RState.truncateAfter]
    split
    · exact ⟨hp, hr⟩
    · exact ⟨hp, hl⟩
  | purgeUpto id =>
    simp only [RState.apply, Res.ok.injEq] at h; subst h
    simp only [RState.purge]
    split <;> split <;>
      exact ⟨by first | exact hr | exact hp, by first | exact hr | exact hl⟩
  | append id p =>
    simp only [RState.apply, RState.append] at h
    split at h
    · cases h
    · split at h
      · injection h with h; subst h; exact ⟨hp, hr⟩
      · split at h
        · cases h
        · split at h
          · cases h
          · injection h with h; subst h; exact ⟨hp, hr⟩

theorem applyIndex_log_small {s s2 : Store} {r : Record} {chunk : Nat} {seg : Seg}
    (hr : r.small) (hlog : ∀ e ∈ s.log, smallId e.2.id)
    (h : s.applyIndex r chunk seg = some s2) :
    (∀ e ∈ s2.log, smallId e.2.id) ∧ s2.openOffsets = s.openOffsets := by
  cases r with
  | saveVote v => simp only [Store.applyIndex, Option.some.injEq] at h; subst h; exact ⟨hlog, rfl⟩
  | commit id => simp only [Store.applyIndex, Option.some.injEq] at h; subst h; exact ⟨hlog, rfl⟩
  | state x => simp only [Store.applyIndex, Option.some.injEq] at h; subst h; exact ⟨hlog, rfl⟩
  | append id p =>
    simp only [Store.applyIndex, Option.some.injEq] at h; subst h
    refine ⟨?_, rfl⟩
    intro e he
    rcases mem_logInsert he with h1 | h1
    · subst h1; exact hr
    · exact hlog e h1
  | truncateAfter o =>
    simp only [Store.applyIndex] at h
    split at h
    · cases h
    · simp only [Option.some.injEq] at h; subst h
      exact ⟨fun e he => hlog e (List.mem_filter.mp he).1, rfl⟩
  | purgeUpto id =>
    simp only [Store.applyIndex] at h
    split at h
    · cases h
    · simp only [Option.some.injEq] at h; subst h
      exact ⟨fun e he => hlog e (List.mem_filter.mp he).1, rfl⟩

theorem tryCloseFull_panicFree {s : Store} (fsHas : Nat → Bool) (hp : PanicFree s) :
    PanicFree (s.tryCloseFull fsHas).2.1 := by
  unfold Store.tryCloseFull
  by_cases hf : s.isOpenFull <;> by_cases he : fsHas s.openEnd <;> simp [hf, he]
  · exact hp
  · exact ⟨by simp, hp.purged, hp.last, hp.log⟩
  · exact hp
  · exact hp

theorem appendAndApply_panicFree {s : Store} (fsHas : Nat → Bool) {r : Record}
    (hp : PanicFree s) (hr : r.small)
    (hs : ∀ x, r = .state x → optSmall x.purged ∧ optSmall x.last) :
    PanicFree (s.appendAndApply fsHas r).2.1 := by
  unfold Store.appendAndApply
  split
  · exact hp
  · exact hp
  · rename_i st' hst
    simp only
    have hp1 : PanicFree ({ s with pending := s.pending ++ encRecord r, openOffsets := s.openOffsets ++ [s.openEnd + (encRecord r).length] } : Store) :=
      ⟨by simp; have := hp.open2; omega, hp.purged, hp.last, hp.log⟩
    split
    · exact hp1
    · rename_i s2 hs2
      obtain ⟨hlog2, hoff2⟩ := applyIndex_log_small hr hp1.log hs2
      obtain ⟨hpu, hla⟩ := apply_small hr hs hp.purged hp.last hst
      have hp3 : PanicFree { s2 with st := st' } :=
        ⟨by simp only [hoff2]; exact hp1.open2, hpu, hla, hlog2⟩
      have := tryCloseFull_panicFree fsHas hp3
      split <;> rename_i heq <;> (rw [heq] at this; exact this)

end RaftLog

namespace RaftLog

theorem logGet_mem {s : Store} {idx : Nat} {d : LogData} (h : s.logGet idx = some d) :
    ∃ e ∈ s.log, e.2 = d := by
  unfold Store.logGet at h
  cases hf : s.log.find? (fun e => e.1 = idx) with
  | none => simp [hf] at h
  | some e =>
    simp [hf] at h
    exact ⟨e, List.mem_of_find?_eq_some hf, h⟩

theorem appendBatch_ok (fsHas : Nat → Bool) (es : List (LogId × Bytes)) (s : Store) (seg : Seg)
    (effs : List Eff) (hp : PanicFree s) (hes : ∀ e ∈ es, smallId e.1) :
    (∀ m, (Store.appendBatch fsHas es s seg effs).1 ≠ .panic m) ∧
      PanicFree (Store.appendBatch fsHas es s seg effs).2.1 := by
  induction es generalizing s seg effs fsHas with
  | nil => exact ⟨(by intro m h; cases h), hp⟩
  | cons e rest ih =>
    obtain ⟨id, p⟩ := e
    have hsmall : (Record.append id p).small := hes (id, p) List.mem_cons_self
    have h1 := appendAndApply_not_panic fsHas hp hsmall
    have h2 := appendAndApply_panicFree fsHas hp hsmall (by intro x hx; cases hx)
    have hne : id.index + 1 ≠ U64 := by
      have : id.index + 1 < U64 := hsmall
      omega
    rw [appendBatch_cons_small_D12 _ _ _ _ _ _ _ hne]
    split
    · rename_i seg' s' e' heq
      rw [heq] at h2
      exact ih _ s' seg' _ h2 (fun e he => hes e (List.mem_cons_of_mem _ he))
    · rename_i k s' e' heq
      rw [heq] at h2
      exact ⟨(by intro m h; cases h), h2⟩
    · rename_i m s' e' heq
      rw [heq] at h1
      exact absurd rfl (h1 m)

/-- No public write call panics, and the invariant is kept. -/
theorem call_ok {s : Store} (fsHas : Nat → Bool) (op : Op) (hp : PanicFree s) (hop : op.small) :
    (∀ m, (s.call fsHas op).1 ≠ .panic m) ∧ PanicFree (s.call fsHas op).2.1 := by
  cases op with
  | saveVote v =>
    exact ⟨appendAndApply_not_panic fsHas hp trivial,
      appendAndApply_panicFree fsHas hp trivial (by intro x hx; cases hx)⟩
  | commit id =>
    exact ⟨appendAndApply_not_panic fsHas hp trivial,
      appendAndApply_panicFree fsHas hp trivial (by intro x hx; cases hx)⟩
  | saveUserData d =>
    exact ⟨appendAndApply_not_panic fsHas hp trivial,
      appendAndApply_panicFree fsHas hp trivial
        (by intro x hx; injection hx with hx; subst hx; exact ⟨hp.purged, hp.last⟩)⟩
  | append es =>
    simp only [Store.call]
    obtain ⟨seg, hseg⟩ := lastSegment_some hp.open2
    rw [hseg]
    exact appendBatch_ok fsHas es s seg [] hp hop
  | truncate idx =>
    simp only [Store.call]
    obtain ⟨n, hn⟩ := nextIndexChecked_some hp.purged
    rw [hn]
    simp only
    split
    · exact ⟨appendAndApply_not_panic fsHas hp hp.purged,
        appendAndApply_panicFree fsHas hp hp.purged (by intro x hx; cases hx)⟩
    · split
      · exact ⟨(by intro m h; cases h), hp⟩
      · split
        · exact ⟨(by intro m h; cases h), hp⟩
        · rename_i d hd
          obtain ⟨e, he, hed⟩ := logGet_mem hd
          have hsm : smallId d.id := by rw [← hed]; exact hp.log e he
          exact ⟨appendAndApply_not_panic fsHas hp hsm,
            appendAndApply_panicFree fsHas hp hsm (by intro x hx; cases hx)⟩
  | purge upto =>
    have hne : upto.index + 1 ≠ U64 := by
      have : upto.index + 1 < U64 := hop
      omega
    rw [call_purge_small_D12 _ _ _ hne]
    obtain ⟨n, hn⟩ := nextIndexChecked_some hp.purged
    rw [hn]
    simp only
    split
    · obtain ⟨seg, hseg⟩ := lastSegment_some hp.open2
      rw [hseg]
      exact ⟨(by intro m h; cases h), hp⟩
    · have h1 := appendAndApply_not_panic fsHas hp (r := .purgeUpto upto) hop
      have h2 := appendAndApply_panicFree fsHas hp (r := .purgeUpto upto) hop (by intro x hx; cases hx)
      split
      · rename_i seg s' effs heq
        rw [heq] at h2
        exact ⟨(by intro m h; cases h), ⟨h2.open2, h2.purged, h2.last, h2.log⟩⟩
      · rename_i other hne
        exact ⟨h1, h2⟩

end RaftLog
