import RaftLogModel.Spec.RefLog
namespace RaftLog

theorem tryCloseFull_err {s : Store} {fsHas : Nat → Bool} {k : ErrKind} {s' : Store} {e : List Eff}
    (h : s.tryCloseFull fsHas = (.err k, s', e)) : k = .exists := by
  unfold Store.tryCloseFull at h
  by_cases hf : s.isOpenFull <;> by_cases he : fsHas s.openEnd <;> simp [hf, he] at h
  exact h.1.symm

theorem tryCloseFull_not_panic {s : Store} {fsHas : Nat → Bool} {m : String} {s' : Store} {e : List Eff}
    (h : s.tryCloseFull fsHas = (.panic m, s', e)) : False := by
  unfold Store.tryCloseFull at h
  by_cases hf : s.isOpenFull <;> by_cases he : fsHas s.openEnd <;> simp [hf, he] at h

theorem appendAndApply_err {s : Store} {fsHas : Nat → Bool} {r : Record} {k : ErrKind}
    {s' : Store} {effs : List Eff}
    (h : s.appendAndApply fsHas r = (.err k, s', effs)) (hk : k ≠ .exists) :
    s' = s ∧ effs = [] ∧ s.st.apply r = .err k := by
  unfold Store.appendAndApply at h
  split at h
  · rename_i k' hk'
    simp only [Prod.mk.injEq, Res.err.injEq] at h
    obtain ⟨h1, h2, h3⟩ := h
    subst h1
    exact ⟨h2.symm, h3.symm, hk'⟩
  · simp at h
  · simp only at h
    split at h
    · simp at h
    · split at h
      · simp at h
      · rename_i heq
        simp only [Prod.mk.injEq, Res.err.injEq] at h
        rw [h.1] at heq
        exact absurd (tryCloseFull_err heq) hk
      · simp at h

end RaftLog
