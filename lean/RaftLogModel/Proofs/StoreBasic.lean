import RaftLogModel.Spec.RefLog
namespace RaftLog

theorem tryCloseFull_err {s : Store} {fsHas : Nat → Bool} {k : ErrKind} {s' : Store} {e : List Eff}
    (h : s.tryCloseFull fsHas = (.err k, s', e)) : k = .exists := by
  unfold Store.tryCloseFull at h
  by_cases hf : s.isOpenFull <;> by_cases he : fsHas s.openEnd <;> simp [hf, he] at h
  exact h.1.symm

theorem tryCloseFull_not_panic {s : Store} {fsHas : Nat → Bool} {m : String} {s' : Store} {e : List Eff}
    (h : s.tryCloseFull fsHas = (.panic m, s', e)) : False := by
  unfold Store.tryCloseFull at h
  by_cases hf : s.isOpenFull <;> by_cases he : fsHas s.openEnd <;> simp [hf, he] at h

theorem appendAndApply_err {s : Store} {fsHas : Nat → Bool} {r : Record} {k : ErrKind}
    {s' : Store} {effs : List Eff}
    (h : s.appendAndApply fsHas r = (.err k, s', effs)) (hk : k ≠ .exists) :
    s' = s ∧ effs = [] ∧ s.st.apply r = .err k := by
  unfold Store.appendAndApply at h
  split at h
  · rename_i k' hk'
    simp only [Prod.mk.injEq, Res.err.injEq] at h
    obtain ⟨h1, h2, h3⟩ := h
    subst h1
    exact ⟨h2.symm, h3.symm, hk'⟩
  · simp at h
  · simp only at h
    split at h
    · simp at h
    · split at h
      · simp at h
      · rename_i heq
        simp only [Prod.mk.injEq, Res.err.injEq] at h
        rw [h.1] at heq
        exact absurd (tryCloseFull_err heq) hk
      · simp at h

/-! ### D12: ids with index u64::MAX are refused by `append`/`purge` -/

theorem appendBatch_cons_refused_D12 (fsHas : Nat → Bool) (id : LogId) (p : Bytes)
    (rest : List (LogId × Bytes)) (s : Store) (seg : Seg) (effs : List Eff)
    (h : id.index + 1 = U64) :
    Store.appendBatch fsHas ((id, p) :: rest) s seg effs = (.err .invalidInput, s, effs) := by
  rw [Store.appendBatch, if_pos h]

theorem appendBatch_cons_small_D12 (fsHas : Nat → Bool) (id : LogId) (p : Bytes)
    (rest : List (LogId × Bytes)) (s : Store) (seg : Seg) (effs : List Eff)
    (h : id.index + 1 ≠ U64) :
    Store.appendBatch fsHas ((id, p) :: rest) s seg effs =
      match s.appendAndApply fsHas (.append id p) with
      | (.ok seg', s', e') =>
        Store.appendBatch (fun i => fsHas i || e'.any (fun e => e == .create i)) rest s' seg' (effs ++ e')
      | (.err k, s', e') => (.err k, s', effs ++ e')
      | (.panic m, s', e') => (.panic m, s', effs ++ e') := by
  rw [Store.appendBatch, if_neg h]
  rfl

theorem call_purge_refused_D12 (s : Store) (fsHas : Nat → Bool) (upto : LogId)
    (h : upto.index + 1 = U64) :
    s.call fsHas (.purge upto) = (.err .invalidInput, s, []) := by
  simp only [Store.call, if_pos h]

theorem call_purge_small_D12 (s : Store) (fsHas : Nat → Bool) (upto : LogId)
    (h : upto.index + 1 ≠ U64) :
    s.call fsHas (.purge upto) =
      match nextIndexChecked s.st.purged with
      | none => (.panic "next_log_index overflow (purge)", s, [])
      | some nxt =>
        if upto.index < nxt then
          match lastSegment s.openOffsets with
          | none => (.panic "last_segment on empty chunk", s, [])
          | some seg => (.ok seg, s, [])
        else
          match s.appendAndApply fsHas (.purgeUpto upto) with
          | (.ok seg, s', effs) =>
            let r := popObsolete upto s'.closed
            (.ok seg, { s' with closed := r.2, removed := s'.removed ++ r.1 }, effs)
          | other => other := by
  simp only [Store.call, if_neg h]
  rfl

end RaftLog
