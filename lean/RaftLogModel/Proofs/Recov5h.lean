/-
C05 (crash recoverability), part 8: **payload mirroring**, store level. `PInvC5b s fs w r W`
adds to the replay invariant: `W` (the entry-level writes so far) reaches `r`, the journal
holds exactly `|W|` write records, and for every prefix `P` of the journal an index entry of
the replay of `P` that points to an `Append` record of `P` carries the payload of the
reference log reached by the first `cntW P` writes. It is meant for a store whose chunk table
is never shortened (the store with ALL dropped chunks put back): kept by journalling,
rotation, flush, worker steps.
-/
import RaftLogModel.Proofs.Recov5g
namespace RaftLog

def LPayC5b (L : List JOp) (W : List Op) (N0 : Nat) : Prop :=
  W.length = N0 + cntW L ∧ ∀ P, P <+: L → ∀ r' l, RefLog.run {} (W.take (N0 + cntW P)) = some r' →
    idxRun P [] = some l → ∀ e ∈ l, ∀ p, opAt e p ∈ P → (e.2.id, p) ∈ r'.entries

theorem LPayC5b.snoc {L : List JOp} {W Wn : List Op} {op : JOp} {N0 : Nat} (h : LPayC5b L W N0)
    (hlen : Wn.length = if op.isHead then 0 else 1)
    (hfull : ∀ r' l, RefLog.run {} (W ++ Wn) = some r' → idxRun (L ++ [op]) [] = some l →
      ∀ e ∈ l, ∀ p, opAt e p ∈ L ++ [op] → (e.2.id, p) ∈ r'.entries) :
    LPayC5b (L ++ [op]) (W ++ Wn) N0 := by
  obtain ⟨h1, h2⟩ := h
  have hc : cntW (L ++ [op]) = cntW L + Wn.length := by
    rw [cntW_append, hlen]
    cases hh : op.isHead <;> simp [cntW, hh]
  refine ⟨by rw [List.length_append, hc]; omega, ?_⟩
  intro P hP r' l hr hl
  rcases List.prefix_concat_iff.mp hP with e | e
  · subst e
    have : N0 + cntW (L ++ [op]) = (W ++ Wn).length := by rw [List.length_append, hc]; omega
    rw [this, List.take_length] at hr
    exact hfull r' l hr hl
  · have hle : N0 + cntW P ≤ W.length := by have := cntW_prefix_le e; omega
    rw [List.take_append_of_le_length hle] at hr
    exact h2 P e r' l hr hl

/-- The whole journal: the replay invariant's payload clause. -/
theorem payG_full_C5b {s : Store} {fs : Fs} {w : Worker} {jc : List (Closed × List Record)}
    {jo : List Record} {r : RefLog} (g : RepG s fs w jc jo) (hp : PayG s r jc jo) :
    ∀ l, idxRun (allOps s jc jo) [] = some l → ∀ e ∈ l, ∀ p, opAt e p ∈ allOps s jc jo →
      (e.2.id, p) ∈ r.entries := by
  intro l hl e he p hop
  rw [g.flat_run.2] at hl
  injection hl with hl
  subst hl
  exact hp e he p hop

structure PInvC5b (s : Store) (fs : Fs) (w : Worker) (r : RefLog) (W : List Op) : Prop where
  inv : RInv s fs w r
  run : RefLog.run {} W = some r
  pay : ∃ jc jo N0, RepG s fs w jc jo ∧ LPayC5b (allOps s jc jo) W N0

/-- The payload clause for whatever witnesses the replay invariant has. -/
theorem RInv.payG_C5b {s : Store} {fs : Fs} {w : Worker} {r : RefLog} (h : RInv s fs w r)
    {jc : List (Closed × List Record)} {jo : List Record} (g : RepG s fs w jc jo) : PayG s r jc jo := by
  obtain ⟨jc0, jo0, g0, gp0, _⟩ := h.rep
  obtain ⟨e1, e2⟩ := g.unique_C3b g0
  subst e1; subst e2
  exact gp0

theorem PInvC5b.transport {s s2 : Store} {fs fs2 : Fs} {w w2 : Worker} {r : RefLog} {W : List Op}
    (h : PInvC5b s fs w r W) (hinv : RInv s2 fs2 w2 r)
    (h1 : s2.st = s.st) (h2 : s2.log = s.log) (h3 : s2.openOffsets = s.openOffsets)
    (h5 : s2.closed = s.closed)
    (hb : ∀ id, chunkBytes s2 fs2 w2 id = chunkBytes s fs w id) : PInvC5b s2 fs2 w2 r W := by
  obtain ⟨jc, jo, N0, g, hg⟩ := h.pay
  have e1 : s2.openId = s.openId := by simp [Store.openId, h3]
  have e2 : allOps s2 jc jo = allOps s jc jo := by simp [allOps, e1]
  exact ⟨hinv, h.run, ⟨jc, jo, N0, g.transport h1 h2 h3 h5 hb, by rw [e2]; exact hg⟩⟩

/-! ### One journalled record -/

theorem pinv_step_C5b {s : Store} {fs : Fs} {w : Worker} {r r' : RefLog} {W Wn : List Op}
    (fsHas : Nat → Bool) {rec : Record} (h : PInvC5b s fs w r W)
    (hfs : ∀ i, s.openEnd ≤ i → fsHas i = false) (ok : StepOK s r r' rec) (hwf : rec.WF)
    (hw : r.run Wn = some r') (hlen : Wn.length = 1) :
    ∃ s' effs, s.appendAndApply fsHas rec = (.ok ⟨s.openEnd, (encRecord rec).length⟩, s', effs) ∧
      PInvC5b s' (effFs effs fs) (w.push (effQ effs)) r' (W ++ Wn) ∧ s.openEnd ≤ s'.openEnd ∧
      (∀ i, Eff.create i ∈ effs → s.openEnd ≤ i ∧ i < s'.openEnd) := by
  obtain ⟨s', effs, heq, hinv', hend, hcr⟩ := rinv_step fsHas h.inv hfs ok hwf
  refine ⟨s', effs, heq, ?_, hend, hcr⟩
  have hshape := appendAndApply_shape s fsHas ok.hst ok.small
  have hne := h.inv.j.openBytes.ne_nil
  generalize hs3 : ({ s with
      pending := s.pending ++ encRecord rec,
      openOffsets := s.openOffsets ++ [s.openEnd + (encRecord rec).length],
      log := idxLog rec (Store.openId { s with pending := s.pending ++ encRecord rec, openOffsets := s.openOffsets ++ [s.openEnd + (encRecord rec).length] }) ⟨s.openEnd, (encRecord rec).length⟩ s.log,
      cache := idxCache rec s.cache, st := r'.state } : Store) = s3 at hshape
  have f1 : s3.pending = s.pending ++ encRecord rec := by rw [← hs3]
  have f2 : s3.openOffsets = s.openOffsets ++ [s.openEnd + (encRecord rec).length] := by rw [← hs3]
  have f3 : s3.closed = s.closed := by rw [← hs3]
  have f4 : s3.st = r'.state := by rw [← hs3]
  have hid : Store.openId { s with pending := s.pending ++ encRecord rec, openOffsets := s.openOffsets ++ [s.openEnd + (encRecord rec).length] } = s.openId := by
    simp only [Store.openId]; exact headD_append_of_ne_nil hne _
  have f5 : s3.log = idxLog rec s.openId ⟨s.openEnd, (encRecord rec).length⟩ s.log := by
    rw [← hs3, hid]
  have hstWF : s3.st.WF := by rw [f4]; exact apply_wf h.inv.j.stWF hwf ok.hst
  have hlogWF : ∀ e ∈ s3.log, e.2.id.WF := by
    obtain ⟨x, _, _, _, _⟩ := applyIndex_fields (s := s) (chunk := s.openId)
      (seg := ⟨s.openEnd, (encRecord rec).length⟩) hwf h.inv.j.logWF (applyIndex_eq s ok.small _ _)
    rw [f5]; exact x
  obtain ⟨hj3, e1, e2, _⟩ := h.inv.j.journal (s3 := s3) (r := rec) hwf hstWF hlogWF f2 f1 f3
  have hfs3 : fsHas s3.openEnd = false := hfs _ (by rw [e2]; omega)
  obtain ⟨s4, effs4, heq4, g1, g2, _, g4, _⟩ := tryCloseFull_ok s3 fsHas hfs3
  rw [heq4] at hshape
  rw [hshape] at heq
  simp only [Prod.mk.injEq, true_and] at heq
  obtain ⟨rfl, rfl⟩ := heq
  -- the journal of the new state
  obtain ⟨jc, jo, N0, g, hg⟩ := h.pay
  obtain ⟨g3, hops3⟩ := g.journal_C3 h.inv.j hwf f2 f1 f3 (by rw [f4]; exact ok.hst)
    (by rw [f5]; exact idxLogO_of_small ok.small _ _ _)
  have hrun : RefLog.run {} (W ++ Wn) = some r' := by
    rw [RefLog.run_append, h.run]; exact hw
  have hbelow : ∀ e ∈ s3.log, optLe (some e.2.id) s3.st.last = true := by
    have := hinv'.abs.log_below
    rw [g1, g2] at this
    exact this
  obtain ⟨jc4, jo4, g4', _, _, hops4⟩ := g3.tryCloseFull_C3 hj3 hbelow heq4
  have hfull4 := payG_full_C5b g4' (hinv'.payG_C5b g4')
  have hlt := h.inv.j.openId_lt
  have hnh : (JOp.isHead ⟨rec, s.openId, ⟨s.openEnd, (encRecord rec).length⟩⟩) = false := by
    simp only [JOp.isHead, beq_eq_false_iff_ne, ne_eq]; omega
  refine ⟨hinv', hrun, ⟨jc4, jo4, N0, g4', ?_⟩⟩
  rcases hops4 with e | e
  · rw [e, hops3]
    refine hg.snoc (by rw [hnh]; exact hlen) ?_
    intro r'' l hr'' hl
    rw [hrun] at hr''
    injection hr'' with hr''
    subst hr''
    rw [← hops3, ← e] at hl ⊢
    exact hfull4 l hl
  · rw [e, hops3]
    have hidx4 := g4'.flat_run.2
    rw [e, hops3] at hidx4
    have step1 : LPayC5b (allOps s jc jo ++ [⟨rec, s.openId, ⟨s.openEnd, (encRecord rec).length⟩⟩]) (W ++ Wn) N0 := by
      refine hg.snoc (by rw [hnh]; exact hlen) ?_
      intro r'' l hr'' hl
      rw [hrun] at hr''
      injection hr'' with hr''
      subst hr''
      -- the head record of the new chunk does not change the index map
      obtain ⟨l1, k1, k2⟩ := idxRun_prefix hidx4
      rw [hl] at k1
      injection k1 with k1
      subst k1
      simp only [idxRun, idxLogO, Option.some.injEq] at k2
      intro e' he' p hop
      apply hfull4 s4.log g4'.flat_run.2 e' (by rw [← k2]; exact he') p
      rw [e, hops3]
      exact List.mem_append_left _ hop
    have := step1.snoc (Wn := []) (op := ⟨.state s3.st, s3.openEnd, ⟨s3.openEnd, (encRecord (.state s3.st)).length⟩⟩)
      (by simp [JOp.isHead]) (by
        intro r'' l hr'' hl
        rw [List.append_nil, hrun] at hr''
        injection hr'' with hr''
        subst hr''
        rw [← hops3, ← e] at hl ⊢
        exact hfull4 l hl)
    rwa [List.append_nil] at this

/-! ### Batches and calls (without dropping chunks) -/

theorem appendBatch_P_C5b (es : List (LogId × Bytes)) :
    ∀ (s : Store) (r r' : RefLog) (W : List Op) (fsHas : Nat → Bool) (seg : Seg) (effs : List Eff)
      (fs : Fs) (w : Worker),
    PInvC5b s (effFs effs fs) (w.push (effQ effs)) r W → (∀ i, s.openEnd ≤ i → fsHas i = false) →
    r.appendAll es = .ok r' → (∀ e ∈ es, smallId e.1) → (∀ e ∈ es, e.1.WF ∧ bytesWF e.2) →
    ∃ seg' s' effs', Store.appendBatch fsHas es s seg effs = (.ok seg', s', effs') ∧
      PInvC5b s' (effFs effs' fs) (w.push (effQ effs')) r' (W ++ es.map (fun e => Op.append [e])) := by
  induction es with
  | nil =>
    intro s r r' W fsHas seg effs fs w h _ hc _ _
    simp only [RefLog.appendAll] at hc
    injection hc with hc
    subst hc
    exact ⟨seg, s, effs, by simp [Store.appendBatch], by simpa using h⟩
  | cons e rest ih =>
    obtain ⟨id, p⟩ := e
    intro s r r' W fsHas seg effs fs w h hfs hc hsm hwf
    simp only [RefLog.appendAll] at hc
    split at hc
    · rename_i r1 hc1
      have ok := stepOK_append1 h.inv.abs hc1 (hsm (id, p) List.mem_cons_self)
      obtain ⟨s1, e1, heq1, hinv1, hend1, hcr1⟩ :=
        pinv_step_C5b fsHas h hfs ok (hwf (id, p) List.mem_cons_self) (run_append1_C3 hc1) rfl
      rw [← effFs_append, Worker.push_push, ← effQ_append] at hinv1
      have hfs1 : ∀ i, s1.openEnd ≤ i →
          (fsHas i || e1.any (fun e => e == Eff.create i)) = false := by
        intro i hi
        have h1 : fsHas i = false := hfs i (by omega)
        have h2 : e1.any (fun e => e == Eff.create i) = false := by
          rw [List.any_eq_false]
          intro x hx hxe
          have : x = Eff.create i := by simpa using hxe
          subst this
          have := hcr1 i hx
          omega
        simp [h1, h2]
      obtain ⟨seg2, s2, e2, heq2, hinv2⟩ :=
        ih s1 r1 r' _ _ ⟨s.openEnd, (encRecord (.append id p)).length⟩ (effs ++ e1) fs w hinv1 hfs1 hc
          (fun e he => hsm e (List.mem_cons_of_mem _ he))
          (fun e he => hwf e (List.mem_cons_of_mem _ he))
      refine ⟨seg2, s2, e2, ?_, ?_⟩
      · have hidxD12 : id.index + 1 ≠ U64 := by
          have : id.index + 1 < U64 := hsm (id, p) List.mem_cons_self
          omega
        rw [appendBatch_cons_small_D12 _ _ _ _ _ _ _ hidxD12]
        rw [heq1]
        simp only
        exact heq2
      · simpa [List.append_assoc] using hinv2
    · cases hc

/-- Every call except a purge that journals a record. -/
theorem call_P_C5b {s : Store} {fs : Fs} {w : Worker} {r r' : RefLog} {W : List Op}
    (fsHas : Nat → Bool) {op : Op}
    (h : PInvC5b s fs w r W) (hfs : ∀ i, s.openEnd ≤ i → fsHas i = false)
    (hl : r.legal op = true) (hc : r.call op = .ok r') (hsm : op.small) (hwf : op.WF)
    (hnp : ∀ upto, op = .purge upto → upto.index < nextIndex r.purged) :
    ∃ seg s' effs, s.call fsHas op = (.ok seg, s', effs) ∧
      PInvC5b s' (effFs effs fs) (w.push (effQ effs)) r' (W ++ op.expand1 r) := by
  have hpu : s.st.purged = r.purged := by rw [h.inv.abs.st]; rfl
  have step : ∀ {rec : Record}, StepOK s r r' rec → rec.WF → op.expand1 r = [op] →
      ∃ seg s' effs, s.appendAndApply fsHas rec = (.ok seg, s', effs) ∧
        PInvC5b s' (effFs effs fs) (w.push (effQ effs)) r' (W ++ op.expand1 r) := by
    intro rec ok hw hex
    obtain ⟨s', effs, heq, hinv, _, _⟩ := pinv_step_C5b fsHas h hfs ok hw (run_single_C3 hl hc) rfl
    refine ⟨_, s', effs, heq, ?_⟩
    rw [hex]
    exact hinv
  cases op with
  | saveVote v =>
    simp only [RefLog.call] at hc
    split at hc
    · rename_i hcond
      injection hc with hc; subst hc
      exact step (stepOK_plain (rec := .saveVote v) h.inv.abs
        (by simp [RState.apply, RState.updateVote, h.inv.abs.st, RefLog.state, hcond])
        (Or.inl ⟨v, rfl⟩) rfl rfl rfl) hwf rfl
    · cases hc
  | commit id =>
    simp only [RefLog.call] at hc
    split at hc
    · cases hc
    · rename_i hcond
      injection hc with hc; subst hc
      exact step (stepOK_plain (rec := .commit id) h.inv.abs
        (by simp [RState.apply, RState.commit, h.inv.abs.st, RefLog.state, hcond])
        (Or.inr (Or.inl ⟨id, rfl⟩)) rfl rfl rfl) hwf rfl
  | saveUserData d =>
    simp only [RefLog.call] at hc
    injection hc with hc; subst hc
    refine step (stepOK_plain (rec := .state { s.st with userData := d }) h.inv.abs
      (by simp [RState.apply, h.inv.abs.st, RefLog.state])
      (Or.inr (Or.inr ⟨_, rfl, rfl, rfl⟩)) rfl rfl rfl) ?_ rfl
    obtain ⟨h1, h2, h3, h4, _⟩ := h.inv.j.stWF
    exact ⟨h1, h2, h3, h4, by cases d <;> simp [Op.WF] at hwf ⊢ <;> exact hwf⟩
  | append es =>
    simp only [Store.call]
    obtain ⟨seg0, hseg⟩ := lastSegment_some h.inv.abs.pf.open2
    rw [hseg]
    simp only
    obtain ⟨seg', s', effs', heq, hinv⟩ :=
      appendBatch_P_C5b es s r r' W fsHas seg0 [] fs w (by simpa [effFs, effQ] using h) hfs hc hsm hwf
    exact ⟨seg', s', effs', heq, by simpa only [Op.expand1] using hinv⟩
  | truncate idx =>
    simp only [Store.call]
    rw [nextIndexChecked_eq h.inv.abs.pf.purged]
    simp only [hpu]
    rcases RefLog.truncate_arg hc with ⟨h1, h2⟩ | ⟨h1, h2, e, he, h3⟩
    · rw [if_pos h1]
      subst h2
      exact step (stepOK_truncateAfter h.inv.abs (Or.inl rfl) (hpu ▸ h.inv.abs.pf.purged))
        (by rw [← hpu]; exact h.inv.j.stWF.2.2.2.1) rfl
    · rw [if_neg h1, if_neg h2]
      obtain ⟨d, hd, hde, hds⟩ := h.inv.abs.logGet_of_entryAt he
      rw [hd]
      simp only [hde]
      subst h3
      obtain ⟨x, hx, hxd⟩ := logGet_mem hd
      have hidwf : e.1.WF := by rw [← hde, ← hxd]; exact h.inv.j.logWF x hx
      exact step (stepOK_truncateAfter h.inv.abs (Or.inr ⟨e, (RefLog.entryAt_some he).1, rfl⟩)
        (by rw [← hde]; exact hds)) hidwf rfl
  | purge upto =>
    have hnn := hnp upto rfl
    have hidxD12 : upto.index + 1 ≠ U64 := by
      have : upto.index + 1 < U64 := hsm
      omega
    simp only [Store.call, if_neg hidxD12]
    rw [nextIndexChecked_eq h.inv.abs.pf.purged]
    simp only [hpu]
    simp only [RefLog.call] at hc
    rw [if_pos hnn]
    rw [if_pos hnn] at hc
    injection hc with hc; subst hc
    obtain ⟨seg0, hseg⟩ := lastSegment_some h.inv.abs.pf.open2
    rw [hseg]
    refine ⟨seg0, s, [], rfl, ?_⟩
    simp only [Op.expand1, if_pos hnn, List.append_nil]
    simpa [effFs, effQ] using h

/-! ### Flush, settle, cache changes, worker steps -/

theorem flush_P_C5b {s : Store} {fs : Fs} {w : Worker} {r : RefLog} {W : List Op}
    (h : PInvC5b s fs w r W) (cb : Option Nat) :
    PInvC5b (s.flush cb).1 (effFs (s.flush cb).2 fs) (w.push (effQ (s.flush cb).2)) r W :=
  h.transport (flush_R h.inv cb) rfl rfl rfl rfl (flush_bytes h.inv.j cb)

theorem PInvC5b.settle {s : Store} {fs : Fs} {w : Worker} {r : RefLog} {W : List Op}
    (h : PInvC5b s fs w r W) : PInvC5b s fs w.settle r W :=
  h.transport h.inv.settle rfl rfl rfl rfl
    (fun id => by simp only [chunkBytes, Worker.settle_inflight])

theorem PInvC5b.of_cache {s : Store} {fs : Fs} {w : Worker} {r : RefLog} {W : List Op}
    (h : PInvC5b s fs w r W) (c : Cache) : PInvC5b { s with cache := c } fs w r W :=
  h.transport (h.inv.of_cache c) rfl rfl rfl rfl (fun id => chunkBytes_congr fs w id rfl rfl)

theorem PInvC5b.worker {s : Store} {c c' : WCtx} {r : RefLog} {W : List Op}
    (h : PInvC5b s c.fs c.w r W) (g : StepGood c c') (hids : Fs.ids c'.fs = Fs.ids c.fs) :
    PInvC5b s c'.fs c'.w r W :=
  h.transport (h.inv.worker g hids) rfl rfl rfl rfl
    (fun id => by simp only [chunkBytes]; rw [g.bytes])

/-- Same fields, same directory and worker. -/
theorem PInvC5b.congr {s s2 : Store} {fs : Fs} {w : Worker} {r : RefLog} {W : List Op}
    (h : PInvC5b s fs w r W) (h1 : s2.st = s.st) (h2 : s2.log = s.log)
    (h3 : s2.openOffsets = s.openOffsets) (h4 : s2.pending = s.pending) (h5 : s2.closed = s.closed) :
    PInvC5b s2 fs w r W := by
  have hb : ∀ id, chunkBytes s2 fs w id = chunkBytes s fs w id := fun id => chunkBytes_congr fs w id h3 h4
  refine h.transport ⟨h.inv.j.of_fields h1 h2 h3 h4 h5, h.inv.abs.of_fields h1 h2 h3,
    h.inv.rep.transport h1 h2 h3 h5 hb⟩ h1 h2 h3 h5 hb

end RaftLog
