/-
Order facts about log ids (`(term, index)` lexicographic) and `Option` of them.
Everything reduces to linear arithmetic over the two components.
-/
import RaftLogModel.Model.State
namespace RaftLog

theorem LogId.lt_iff (a b : LogId) :
    a.lt b = true ↔ a.term < b.term ∨ (a.term = b.term ∧ a.index < b.index) := by
  simp [LogId.lt]

theorem LogId.le_iff (a b : LogId) :
    a.le b = true ↔ a.term < b.term ∨ (a.term = b.term ∧ a.index ≤ b.index) := by
  simp [LogId.le]

theorem LogId.ext_iff' (a b : LogId) : a = b ↔ a.term = b.term ∧ a.index = b.index := by
  cases a; cases b; simp

theorem LogId.lt_irrefl (a : LogId) : a.lt a = false := by
  simp [LogId.lt]

theorem LogId.le_refl (a : LogId) : a.le a = true := by
  simp [LogId.le]

theorem LogId.lt_trans {a b c : LogId} (h1 : a.lt b = true) (h2 : b.lt c = true) : a.lt c = true := by
  rw [LogId.lt_iff] at *; omega

theorem LogId.le_trans {a b c : LogId} (h1 : a.le b = true) (h2 : b.le c = true) : a.le c = true := by
  rw [LogId.le_iff] at *; omega

theorem LogId.lt_of_lt_of_le {a b c : LogId} (h1 : a.lt b = true) (h2 : b.le c = true) : a.lt c = true := by
  rw [LogId.lt_iff] at *; rw [LogId.le_iff] at h2; omega

theorem LogId.lt_of_le_of_lt {a b c : LogId} (h1 : a.le b = true) (h2 : b.lt c = true) : a.lt c = true := by
  rw [LogId.lt_iff] at *; rw [LogId.le_iff] at h1; omega

theorem LogId.le_of_lt {a b : LogId} (h : a.lt b = true) : a.le b = true := by
  rw [LogId.lt_iff] at h; rw [LogId.le_iff]; omega

theorem LogId.not_le_iff_lt (a b : LogId) : a.le b = false ↔ b.lt a = true := by
  rw [← Bool.not_eq_true, LogId.le_iff, LogId.lt_iff]; omega

theorem LogId.not_lt_iff_le (a b : LogId) : a.lt b = false ↔ b.le a = true := by
  rw [← Bool.not_eq_true, LogId.le_iff, LogId.lt_iff]; omega

theorem LogId.le_antisymm {a b : LogId} (h1 : a.le b = true) (h2 : b.le a = true) : a = b := by
  rw [LogId.le_iff] at *; rw [LogId.ext_iff']; omega

theorem LogId.lt_ne {a b : LogId} (h : a.lt b = true) : a ≠ b := by
  intro e; subst e; simp [LogId.lt_irrefl] at h

theorem LogId.le_iff_lt_or_eq (a b : LogId) : a.le b = true ↔ a.lt b = true ∨ a = b := by
  rw [LogId.le_iff, LogId.lt_iff, LogId.ext_iff']; omega

@[simp] theorem optLe_none (o : Option LogId) : optLe none o = true := by
  cases o <;> rfl
@[simp] theorem optLe_some_none (a : LogId) : optLe (some a) none = false := rfl
@[simp] theorem optLe_some_some (a b : LogId) : optLe (some a) (some b) = a.le b := rfl
@[simp] theorem optLt_none_none : optLt none none = false := rfl
@[simp] theorem optLt_none_some (a : LogId) : optLt none (some a) = true := rfl
@[simp] theorem optLt_some_none (a : LogId) : optLt (some a) none = false := rfl
@[simp] theorem optLt_some_some (a b : LogId) : optLt (some a) (some b) = a.lt b := rfl

theorem optLe_refl (o : Option LogId) : optLe o o = true := by
  cases o <;> simp [LogId.le_refl]

theorem optLe_trans {a b c : Option LogId} (h1 : optLe a b = true) (h2 : optLe b c = true) :
    optLe a c = true := by
  cases a <;> cases b <;> cases c <;> simp_all
  exact LogId.le_trans h1 h2

theorem optLt_iff_not_le (a b : Option LogId) : optLt a b = true ↔ optLe b a = false := by
  cases a <;> cases b <;> simp [LogId.not_le_iff_lt]

theorem optLe_iff_not_lt (a b : Option LogId) : optLe a b = true ↔ optLt b a = false := by
  cases a <;> cases b <;> simp [LogId.not_lt_iff_le]

theorem optLe_of_lt {a b : Option LogId} (h : optLt a b = true) : optLe a b = true := by
  cases a <;> cases b <;> simp_all
  exact LogId.le_of_lt h

end RaftLog
