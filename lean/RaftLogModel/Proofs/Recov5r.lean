/-
C05 (crash recoverability), part 16: the crash invariant. `CrashInvC5b y r W A E K` bundles
what the crash theorems (C03 and C05) need of a system state: the history and durability
invariant, the ghost invariant, small journals, payload mirroring. It holds for a freshly
opened store, is kept by every legal history, AND holds again for the system `open`
builds on a crash image without torn predecessor — so the theorems apply along histories
with any number of crash + recovery rounds.
-/
import RaftLogModel.Proofs.Recov5q
namespace RaftLog

def CrashInvC5b (y : Sys) (r : RefLog) (W : List Op) (A E K : Nat) : Prop :=
  ∃ B, HSys y r W B A E K ∧ GSysC3b y r W A E K ∧ SmallSys y ∧ TSysC5b y r W

theorem fresh_CrashInv_C5b (cfg : Cfg) : CrashInvC5b (Sys.fresh cfg) {} [] 0 0 0 :=
  ⟨0, fresh_HSys cfg, fresh_GSys_C3b cfg, fresh_SmallSys cfg, fresh_TSys_C5b cfg⟩

theorem run_CrashInv_C5b (steps : List Step) (y : Sys) (r r' : RefLog) (W : List Op) (A E K : Nat)
    (h : CrashInvC5b y r W A E K) (hsteps : ∀ st ∈ steps, st.journal = true)
    (hr : r.run (stepOps steps) = some r') (hwf : ∀ op ∈ stepOps steps, op.WF ∧ op.small)
    (hnd : (y.run steps).worker.pc ≠ .dead) :
    CrashInvC5b (y.run steps) r' (W ++ expandOps r (stepOps steps)) (y.ackRun steps A) E K := by
  obtain ⟨B, hh, hg, hS, hT⟩ := h
  exact ⟨y.markRun steps B, run_HSys steps y r r' W B A E K hh hsteps hr hwf hnd,
    run_GSys_C3b steps y r r' W B A E K hh hg hsteps hr hwf hnd,
    run_SmallSys steps y r r' hh.rsys hS hsteps hr hwf hnd,
    run_TSys_C5b steps y r r' W hT hsteps hr hwf hnd⟩

/-- Track the current journal end and the current number of writes from now on. -/
theorem CrashInvC5b.retarget {y : Sys} {r : RefLog} {W : List Op} {A E K : Nat}
    (h : CrashInvC5b y r W A E K) : ∃ s, y.store = some s ∧ CrashInvC5b y r W A s.openEnd W.length := by
  obtain ⟨B, hh, hg, hS, hT⟩ := h
  obtain ⟨s, hs, hh'⟩ := hh.retarget
  obtain ⟨s0, Bh, gs, hs0, hgi⟩ := hg
  rw [hs] at hs0; cases hs0
  exact ⟨s, hs, B, hh', ⟨s, Bh, gs, hs, hgi.retarget⟩, hS, hT⟩

theorem CrashInvC5b.csys {y : Sys} {r : RefLog} {W : List Op} {A E K : Nat}
    (h : CrashInvC5b y r W A E K) : CSys y r := by
  obtain ⟨B, hh, _⟩ := h
  exact hh.csys

/-- **The crash invariant holds again after crash + recovery.** -/
theorem recover_CrashInv_C5b {y : Sys} {r : RefLog} {W : List Op} {A E K : Nat}
    (h : CrashInvC5b y r W A E K) {img : Fs} (hc : CrashImage y.fs img) (hnt : NoTornPredecessor img)
    (cfg' : Cfg) (ht : cfg'.truncate = true) :
    ∃ s' w' fs' evs n r' A', openStore cfg' img = (.ok (s', w'), fs', evs) ∧
      RefLog.run {} (W.take n) = some r' ∧ (E ≤ A → K ≤ n) ∧
      CrashInvC5b (recoveredSysC5b cfg' s' w' fs') r' (W.take n) A' s'.openEnd n ∧
      SysWF (recoveredSysC5b cfg' s' w' fs') ∧ SysCovered (recoveredSysC5b cfg' s' w' fs') ∧
      (w'.quiet = true ∧ s'.pending = [] ∧ s'.removed = [] ∧ w'.postponed = []) ∧
      s'.cfg = cfg' := by
  obtain ⟨B, hh, hg, hS, hT⟩ := h
  have hpay := gpay_of_tsys_C5b hT
  obtain ⟨⟨s, hs, _, _⟩, ⟨s1, hs1, hli⟩, _, _⟩ := hh
  rw [hs] at hs1; cases hs1
  obtain ⟨s0, Bh, gs, hs0, hgi⟩ := hg
  rw [hs] at hs0; cases hs0
  have hlinked : y.fs.linkedIds = (s.liftC3b (ghostClosedC3b gs)).chunkIds := by
    rw [liftC3b_chunkIds]; exact hgi.linkedIds hli
  obtain ⟨s', w', fs', evs, n, r', A', q1, q2, q3, q4, q5, q6, q7, q8, qcfg, jc', jo', q9⟩ :=
    ghost_recover_full_C5b hgi.base hgi.ack (smallJ_lift_C5b (hS s hs) _) (hpay s r A E K Bh gs hs hgi)
      (hgi.live hli) hlinked hli.nodup hc hnt cfg' ht
  obtain ⟨f1, f2, f3, f4⟩ := q9.worker_facts
  obtain ⟨pl, hw⟩ := q9.worker
  have hnd : w'.pc ≠ .dead := by rw [f4]; intro e; cases e
  have hwfS : SysWF (recoveredSysC5b cfg' s' w' fs') := by
    intro _
    constructor
    · show Worker.WF w'
      rw [hw]; simp [Worker.WF]
    · exact .of_not_writing (by intro todo b t e; rw [hw] at e; cases e)
  have hunl : UnlPostC3b w' := by
    intro ids hh; rw [f4] at hh; cases hh
  have hq : w'.queue = [] := by rw [hw]
  refine ⟨s', w', fs', evs, n, r', A', q1, q2, q3, ⟨Bh, ?_, ?_, ?_, ?_⟩, hwfS, q9.covered,
    ⟨by simp [Worker.quiet, f4, hq], q9.pending, q9.removed, by rw [hw]⟩, qcfg⟩
  · exact ⟨⟨s', rfl, hnd, q4⟩, ⟨s', rfl, q7⟩, q9.covered, hwfS⟩
  · refine ⟨s', Bh, [], rfl, ?_, (fun p hp => by cases hp), ?_, q5, List.Pairwise.nil,
      (fun p hp => by cases hp), hunl⟩
    · exact q4
    · show w'.toRemove ++ s'.removed = _
      rw [f3, q9.removed]; rfl
  · intro s2 hs2
    have : s2 = s' := by
      simp only [recoveredSysC5b, Option.some.injEq] at hs2; exact hs2.symm
    subst this; exact q8
  · exact ⟨s', [], rfl, by rw [Store.liftC3b_nil]; exact q6, ⟨[], by
      show [] = [] ++ (w'.toRemove ++ s'.removed)
      rw [f3, q9.removed]; rfl⟩, hunl⟩

/-- C03 from the crash invariant: whenever `open` (any configuration) succeeds on a crash
image, the recovered state and index keys are those of a prefix of the writes. -/
theorem crash_prefix_of_CrashInv_C5b {y : Sys} {r : RefLog} {W : List Op} {A E K : Nat}
    (h : CrashInvC5b y r W A E K) {img : Fs} (hc : CrashImage y.fs img) (cfg' : Cfg)
    {s' : Store} {w' : Worker} {fs' : Fs} {evs : List Ev}
    (hopen : openStore cfg' img = (.ok (s', w'), fs', evs)) :
    ∃ n r', RefLog.run {} (W.take n) = some r' ∧ s'.st = r'.state ∧
      logKeys s'.log = entKeys r'.entries ∧ (E ≤ A → K ≤ n) := by
  obtain ⟨B, hh, hg, _, _⟩ := h
  exact crash_prefix_ghost_C3b hh hg hc cfg' hopen

/-- No torn predecessor once the start of the newest chunk is acknowledged. -/
theorem noTorn_of_CrashInv_C5b {y : Sys} {r : RefLog} {W : List Op} {A E K : Nat}
    (h : CrashInvC5b y r W A E K) {s : Store} (hs : y.store = some s) (hA : s.openId ≤ A)
    {img : Fs} (hc : CrashImage y.fs img) : NoTornPredecessor img := by
  obtain ⟨B, hh, hg, _, _⟩ := h
  obtain ⟨⟨s2, hs2, _, _⟩, ⟨s1, hs1, hli⟩, _, _⟩ := hh
  rw [hs] at hs1 hs2; cases hs1; cases hs2
  obtain ⟨s0, Bh, gs, hs0, hgi⟩ := hg
  rw [hs] at hs0; cases hs0
  obtain ⟨jc, jo, g, _⟩ := hgi.base.hist
  have hlinked : y.fs.linkedIds = (s.liftC3b (ghostClosedC3b gs)).chunkIds := by
    rw [liftC3b_chunkIds]; exact hgi.linkedIds hli
  exact noTorn_of_acked_C5b g hgi.base.inv.j (hgi.base.dur.live_durable_C3 g) (hgi.live hli) hlinked
    (by simpa using hA) hc

/-- A crash at any moment of recovery, from the crash invariant. -/
theorem recovery_steps_of_CrashInv_C5b {y : Sys} {r : RefLog} {W : List Op} {A E K : Nat}
    (h : CrashInvC5b y r W A E K) {img : Fs} (hc : CrashImage y.fs img) (hnt : NoTornPredecessor img)
    (cfg' cfg'' : Cfg) (ht : cfg'.truncate = true) (ht'' : cfg''.truncate = true) :
    ∃ s' w' fs' evs, openStore cfg' img = (.ok (s', w'), fs', evs) ∧ openEffsC5b evs img = fs' ∧
      ∀ k X', CrashImage (openEffsC5b (evs.take k) img) X' →
        ∃ s'' w'' fs'' evs'', openStore cfg'' X' = (.ok (s'', w''), fs'', evs'') ∧
          s''.st = s'.st ∧ s''.log = s'.log := by
  obtain ⟨B, hh, hg, _, _⟩ := h
  obtain ⟨⟨s, hs, _, _⟩, ⟨s1, hs1, hli⟩, _, _⟩ := hh
  rw [hs] at hs1; cases hs1
  obtain ⟨s0, Bh, gs, hs0, hgi⟩ := hg
  rw [hs] at hs0; cases hs0
  obtain ⟨jc, jo, g, hhist⟩ := hgi.base.hist
  have hlinked : y.fs.linkedIds = (s.liftC3b (ghostClosedC3b gs)).chunkIds := by
    rw [liftC3b_chunkIds]; exact hgi.linkedIds hli
  obtain ⟨stC, lC, g0, j, e, rest, n, r', l, N0, himg, hjl, hparse, hdata, hcase, hstJ, hlJ, hbelow, _⟩ :=
    ghost_prep_C5b g hgi.base.inv.j hhist hgi.ack (hgi.base.dur.live_durable_C3 g) (hgi.live hli) hlinked
      hli.nodup hc hnt
  obtain ⟨s', w', fs', evs, q1, q2, q3, q4, q5⟩ :=
    openStore_image_steps_C5b cfg' cfg'' ht ht'' himg hjl hparse hdata hcase hstJ hlJ hbelow
  refine ⟨s', w', fs', evs, q1, q4, ?_⟩
  intro k X' hcx
  obtain ⟨s'', w'', fs'', evs'', r1, r2, r3⟩ := q5 k X' hcx
  exact ⟨s'', w'', fs'', evs'', r1, by rw [r2, q2], by rw [r3, q3]⟩

/-- The crash invariant along a history from a freshly opened store, tracking the journal
end and the number of writes at the end of `pre`. -/
theorem reach_CrashInv_at_C5b (cfg : Cfg) (pre post : List Step) (r : RefLog)
    (hsteps : ∀ st ∈ pre ++ post, st.journal = true)
    (hlegal : RefLog.run {} (stepOps (pre ++ post)) = some r)
    (hwf : ∀ op ∈ stepOps (pre ++ post), op.WF ∧ op.small)
    (halive : ((Sys.fresh cfg).run (pre ++ post)).worker.pc ≠ .dead) :
    ∃ s1, ((Sys.fresh cfg).run pre).store = some s1 ∧
      CrashInvC5b ((Sys.fresh cfg).run (pre ++ post)) r (expandOps {} (stepOps (pre ++ post)))
        ((Sys.fresh cfg).ackRun (pre ++ post) 0) s1.openEnd (expandOps {} (stepOps pre)).length := by
  obtain ⟨s1, hs1, hh⟩ := reach_HSys_at cfg pre post r hsteps hlegal hwf halive
  obtain ⟨s1', hs1', hg⟩ := reach_GSys_at_C3b cfg pre post r hsteps hlegal hwf halive
  rw [hs1] at hs1'; cases hs1'
  exact ⟨s1, hs1, _, hh, hg, reach_SmallSys_C5b cfg (pre ++ post) r hsteps hlegal hwf halive,
    reach_TSys_C5b cfg (pre ++ post) r hsteps hlegal hwf halive⟩

end RaftLog
