/-
Call-level facts about the payload cache (C15, middle clause): what ONE public
write call — in particular a whole `append es` batch, accepted or refused at
its k-th entry, with chunk rotations in between — leaves behind in the cache.

* `InsertedC15b s s'`: `s'` is the store after a caller-side call on `s` that
  inserted at least one entry: boundary and limits are those of `s`, `last`
  grew strictly, and if a limit is exceeded every resident key is above the
  boundary.
* `appendBatch_C15b` / `call_append_C15b`: the store after `append es` is either
  `s` itself (nothing was inserted) or `InsertedC15b s ·` holds.
* `CacheShrinkC15b c c'`: `c'` has a sublist of the resident entries of `c`,
  same boundary and limits; `call_nonappend_C15b`: the five other ops.
-/
import RaftLogModel.Proofs.StoreCache
namespace RaftLog

theorem optLt_trans_C15b {a b c : Option LogId} (h1 : optLt a b = true) (h2 : optLt b c = true) :
    optLt a c = true := by
  cases a <;> cases b <;> cases c <;> simp_all
  exact LogId.lt_trans h1 h2

theorem optLt_irrefl_C15b (a : Option LogId) : optLt a a = false := by
  cases a <;> simp [LogId.lt_irrefl]

theorem optLt_ne_C15b {a b : Option LogId} (h : optLt a b = true) : b ≠ a := by
  intro e; subst e; rw [optLt_irrefl_C15b] at h; cases h

/-! ### `Cache.insert` touches neither the boundary nor the limits -/

theorem Cache.insert_lastEvictable_C15b (c : Cache) (k : LogId) (v : Bytes) :
    (c.insert k v).lastEvictable = c.lastEvictable := rfl
theorem Cache.insert_maxItems_C15b (c : Cache) (k : LogId) (v : Bytes) :
    (c.insert k v).maxItems = c.maxItems := rfl
theorem Cache.insert_capacity_C15b (c : Cache) (k : LogId) (v : Bytes) :
    (c.insert k v).capacity = c.capacity := rfl

/-- One insertion of a key above every resident key: over a limit ⇒ only
pinned entries are resident (the cache-level lemma of Props/C15, restated here
so that this file does not depend on Props). -/
theorem Cache.insert_over_limit_C15b (c : Cache) (k : LogId) (v : Bytes) (h : c.OK)
    (hk : ∀ e ∈ c.items, e.1.lt k = true)
    (hover : (c.insert k v).items.length > c.maxItems ∨ (c.insert k v).size > c.capacity) :
    KeysGt (c.insert k v).items c.lastEvictable := by
  unfold Cache.insert at hover ⊢
  have hok : ({ c with items := insertSorted k v c.items, size := c.size + v.length } : Cache).OK := by
    refine ⟨?_, ?_⟩
    · simp only [insertSorted_of_all_lt k v c.items hk, sumLen_append, sumLen]
      have := h.size_eq; omega
    · simp only [insertSorted_of_all_lt k v c.items hk]
      unfold Sorted
      rw [List.pairwise_append]
      refine ⟨h.sorted, List.pairwise_singleton _ _, ?_⟩
      intro a ha b hb; simp at hb; subst hb; exact hk a ha
  exact Cache.tryEvict_over_limit hok hover

/-- Under the store invariant, an id accepted by `RState.append` is above every
resident key. -/
theorem accepted_above_resident_C15b {s : Store} {id : LogId} {p : Bytes} {st' : RState}
    (hinv : CacheInv s) (hst : s.st.apply (.append id p) = .ok st') :
    ∀ e ∈ s.cache.items, e.1.lt id = true := by
  obtain ⟨_, hnle⟩ := apply_append_last hst
  intro e he
  have h1 := hinv.le_last e he
  cases hlast : s.st.last with
  | none => rw [hlast] at h1; simp at h1
  | some l =>
    rw [hlast] at h1 hnle
    simp only [optLe_some_some] at h1 hnle
    exact LogId.lt_of_le_of_lt h1 ((LogId.not_le_iff_lt _ _).1 hnle)

/-! ### The store after a call that inserted -/

structure InsertedC15b (s s' : Store) : Prop where
  boundary : s'.cache.lastEvictable = s.cache.lastEvictable
  maxItems : s'.cache.maxItems = s.cache.maxItems
  capacity : s'.cache.capacity = s.cache.capacity
  last_lt : optLt s.st.last s'.st.last = true
  pinned : s'.cache.items.length > s'.cache.maxItems ∨ s'.cache.size > s'.cache.capacity →
    KeysGt s'.cache.items s'.cache.lastEvictable

theorem InsertedC15b.trans {s s1 s2 : Store} (h1 : InsertedC15b s s1) (h2 : InsertedC15b s1 s2) :
    InsertedC15b s s2 :=
  ⟨h2.boundary.trans h1.boundary, h2.maxItems.trans h1.maxItems, h2.capacity.trans h1.capacity,
   optLt_trans_C15b h1.last_lt h2.last_lt, h2.pinned⟩

theorem InsertedC15b.last_ne {s s' : Store} (h : InsertedC15b s s') : s'.st.last ≠ s.st.last :=
  optLt_ne_C15b h.last_lt

theorem InsertedC15b.ne {s s' : Store} (h : InsertedC15b s s') : s' ≠ s := by
  intro e; subst e; exact h.last_ne rfl

/-- `append_and_apply` of an `Append` record that the state refuses (error or
overflow panic): the store is returned untouched. -/
theorem appendAndApply_append_rej_C15b (s : Store) (fsHas : Nat → Bool) (id : LogId) (p : Bytes)
    (hrej : ∀ st', s.st.apply (.append id p) ≠ .ok st') :
    (s.appendAndApply fsHas (.append id p)).2.1 = s := by
  unfold Store.appendAndApply
  split
  · rfl
  · rfl
  · rename_i st' hst
    exact absurd hst (hrej st')

/-- The store with the record journalled into the pending buffer (the `s1` of
`Store.appendAndApply`). -/
abbrev Store.journalledC15b (s : Store) (r : Record) : Store :=
  { s with pending := s.pending ++ encRecord r, openOffsets := s.openOffsets ++ [s.openEnd + (encRecord r).length] }

theorem appendAndApply_store_C15b (s : Store) (fsHas : Nat → Bool) (r : Record) (st' : RState)
    (s2 : Store) (hst : s.st.apply r = .ok st')
    (hs2 : (s.journalledC15b r).applyIndex r (s.journalledC15b r).openId ⟨s.openEnd, (encRecord r).length⟩ = some s2) :
    (s.appendAndApply fsHas r).2.1 = (Store.tryCloseFull ({ s2 with st := st' } : Store) fsHas).2.1 := by
  unfold Store.appendAndApply
  rw [hst]
  simp only
  simp only [Store.journalledC15b] at hs2
  rw [hs2]
  simp only
  split <;> rename_i heq <;> rw [heq]

theorem appendAndApply_none_C15b (s : Store) (fsHas : Nat → Bool) (r : Record) (st' : RState)
    (hst : s.st.apply r = .ok st')
    (hs2 : (s.journalledC15b r).applyIndex r (s.journalledC15b r).openId ⟨s.openEnd, (encRecord r).length⟩ = none) :
    (s.appendAndApply fsHas r).2.1.cache = s.cache := by
  unfold Store.appendAndApply
  rw [hst]
  simp only
  simp only [Store.journalledC15b] at hs2
  rw [hs2]

/-- `append_and_apply` of an `Append` record that the state accepts: the cache
of the returned store is `insert` of the old one and the state is the new
state — whatever `try_close_full_chunk` does afterwards (nothing, a rotation,
or a failed `create_new`, in which case the CALL reports an error but the
entry is resident). -/
theorem appendAndApply_append_acc_cache_C15b (s : Store) (fsHas : Nat → Bool) (id : LogId) (p : Bytes)
    (st' : RState) (hst : s.st.apply (.append id p) = .ok st') :
    (s.appendAndApply fsHas (.append id p)).2.1.cache = s.cache.insert id p ∧
    (s.appendAndApply fsHas (.append id p)).2.1.st = st' := by
  rw [appendAndApply_store_C15b s fsHas _ st' _ hst rfl]
  exact tryCloseFull_cache _ fsHas

theorem appendAndApply_append_acc_C15b {s : Store} (fsHas : Nat → Bool) (id : LogId) (p : Bytes)
    (st' : RState) (hinv : CacheInv s) (hst : s.st.apply (.append id p) = .ok st') :
    InsertedC15b s (s.appendAndApply fsHas (.append id p)).2.1 := by
  obtain ⟨hc, hs⟩ := appendAndApply_append_acc_cache_C15b s fsHas id p st' hst
  obtain ⟨hl, hnle⟩ := apply_append_last hst
  refine ⟨by rw [hc]; rfl, by rw [hc]; rfl, by rw [hc]; rfl, ?_, ?_⟩
  · rw [hs, hl, optLt_iff_not_le]; exact hnle
  · rw [hc]
    exact Cache.insert_over_limit_C15b s.cache id p hinv.ok (accepted_above_resident_C15b hinv hst)

/-- Either way. -/
theorem appendAndApply_append_C15b {s : Store} (fsHas : Nat → Bool) (id : LogId) (p : Bytes)
    (hinv : CacheInv s) :
    (s.appendAndApply fsHas (.append id p)).2.1 = s ∨
    InsertedC15b s (s.appendAndApply fsHas (.append id p)).2.1 := by
  cases hst : s.st.apply (.append id p) with
  | ok st' => exact Or.inr (appendAndApply_append_acc_C15b fsHas id p st' hinv hst)
  | err k => exact Or.inl (appendAndApply_append_rej_C15b s fsHas id p (by intro st' h; rw [hst] at h; cases h))
  | panic m => exact Or.inl (appendAndApply_append_rej_C15b s fsHas id p (by intro st' h; rw [hst] at h; cases h))

/-- The batch loop: nothing inserted (the store is returned as it was), or the
final store is the result of an insertion with the boundary of `s`. -/
theorem appendBatch_C15b (fsHas : Nat → Bool) (es : List (LogId × Bytes)) (s : Store) (seg : Seg)
    (effs : List Eff) (hinv : CacheInv s) :
    (Store.appendBatch fsHas es s seg effs).2.1 = s ∨
    InsertedC15b s (Store.appendBatch fsHas es s seg effs).2.1 := by
  induction es generalizing s seg effs fsHas with
  | nil => exact Or.inl rfl
  | cons e rest ih =>
    obtain ⟨id, p⟩ := e
    by_cases hidx : id.index + 1 = U64
    · rw [appendBatch_cons_refused_D12 _ _ _ _ _ _ _ hidx]; exact Or.inl rfl
    rw [appendBatch_cons_small_D12 _ _ _ _ _ _ _ hidx]
    have h1 := appendAndApply_append_C15b fsHas id p hinv
    have hi1 := appendAndApply_cacheInv fsHas (.append id p) hinv (by intro x hx; cases hx)
    split
    · rename_i seg' s' e' heq
      rw [heq] at h1 hi1
      have h1 : s' = s ∨ InsertedC15b s s' := h1
      have hi1 : CacheInv s' := hi1
      rcases ih (fun i => fsHas i || e'.any (fun e => e == .create i)) s' seg' (effs ++ e') hi1 with h2 | h2
      · rw [h2]; exact h1
      · rcases h1 with h1 | h1
        · subst h1; exact Or.inr h2
        · exact Or.inr (h1.trans h2)
    · rename_i k s' e' heq; rw [heq] at h1; exact h1
    · rename_i m s' e' heq; rw [heq] at h1; exact h1

/-- If the FIRST entry of the batch is accepted by the state (and its index is
not u64::MAX, which `append` refuses up front), the batch inserted (whatever
happens to the later entries). -/
theorem appendBatch_first_acc_C15b (fsHas : Nat → Bool) (id : LogId) (p : Bytes)
    (rest : List (LogId × Bytes)) (s : Store) (seg : Seg) (effs : List Eff) (st' : RState)
    (hinv : CacheInv s) (hst : s.st.apply (.append id p) = .ok st')
    (hidx : id.index + 1 ≠ U64) :
    InsertedC15b s (Store.appendBatch fsHas ((id, p) :: rest) s seg effs).2.1 := by
  rw [appendBatch_cons_small_D12 _ _ _ _ _ _ _ hidx]
  have h1 := appendAndApply_append_acc_C15b fsHas id p st' hinv hst
  have hi1 := appendAndApply_cacheInv fsHas (.append id p) hinv (by intro x hx; cases hx)
  split
  · rename_i seg' s' e' heq
    rw [heq] at h1 hi1
    have h1 : InsertedC15b s s' := h1
    have hi1 : CacheInv s' := hi1
    rcases appendBatch_C15b (fun i => fsHas i || e'.any (fun e => e == .create i)) rest s' seg' (effs ++ e') hi1 with h2 | h2
    · rw [h2]; exact h1
    · exact h1.trans h2
  · rename_i k s' e' heq; rw [heq] at h1; exact h1
  · rename_i m s' e' heq; rw [heq] at h1; exact h1

/-- If the first entry is refused (or the batch is empty), nothing changes. -/
theorem appendBatch_first_rej_C15b (fsHas : Nat → Bool) (id : LogId) (p : Bytes)
    (rest : List (LogId × Bytes)) (s : Store) (seg : Seg) (effs : List Eff)
    (hrej : ∀ st', s.st.apply (.append id p) ≠ .ok st') :
    (Store.appendBatch fsHas ((id, p) :: rest) s seg effs).2.1 = s := by
  by_cases hidx : id.index + 1 = U64
  · rw [appendBatch_cons_refused_D12 _ _ _ _ _ _ _ hidx]
  rw [appendBatch_cons_small_D12 _ _ _ _ _ _ _ hidx]
  have h1 := appendAndApply_append_rej_C15b s fsHas id p hrej
  split
  · rename_i seg' s' e' heq
    exfalso
    unfold Store.appendAndApply at heq
    split at heq
    · cases heq
    · cases heq
    · rename_i st' hst; exact hrej st' hst
  · rename_i k s' e' heq; rw [heq] at h1; exact h1
  · rename_i m s' e' heq; rw [heq] at h1; exact h1

theorem call_append_C15b {s : Store} (fsHas : Nat → Bool) (es : List (LogId × Bytes))
    (hinv : CacheInv s) :
    (s.call fsHas (.append es)).2.1 = s ∨ InsertedC15b s (s.call fsHas (.append es)).2.1 := by
  simp only [Store.call]
  split
  · exact Or.inl rfl
  · exact appendBatch_C15b fsHas es s _ [] hinv

/-! ### The five other ops only remove -/

structure CacheShrinkC15b (c c' : Cache) : Prop where
  sub : c'.items.Sublist c.items
  boundary : c'.lastEvictable = c.lastEvictable
  maxItems : c'.maxItems = c.maxItems
  capacity : c'.capacity = c.capacity

theorem CacheShrinkC15b.refl (c : Cache) : CacheShrinkC15b c c :=
  ⟨List.Sublist.refl _, rfl, rfl, rfl⟩

theorem CacheShrinkC15b.of_eq {c c' : Cache} (h : c' = c) : CacheShrinkC15b c c' := by
  subst h; exact CacheShrinkC15b.refl _

theorem applyIndex_nonappend_C15b {s s2 : Store} {r : Record} {chunk : Nat} {seg : Seg}
    (hok : s.cache.OK) (hr : ∀ id p, r ≠ .append id p)
    (h : s.applyIndex r chunk seg = some s2) : CacheShrinkC15b s.cache s2.cache := by
  cases r with
  | saveVote v =>
    simp only [Store.applyIndex, Option.some.injEq] at h; subst h; exact CacheShrinkC15b.refl _
  | commit id =>
    simp only [Store.applyIndex, Option.some.injEq] at h; subst h; exact CacheShrinkC15b.refl _
  | state x =>
    simp only [Store.applyIndex, Option.some.injEq] at h; subst h; exact CacheShrinkC15b.refl _
  | append id p => exact absurd rfl (hr id p)
  | truncateAfter o =>
    simp only [Store.applyIndex] at h
    split at h
    · cases h
    · simp only [Option.some.injEq] at h; subst h
      cases o with
      | none => exact ⟨List.nil_sublist _, rfl, rfl, rfl⟩
      | some id =>
        obtain ⟨post, hpost⟩ := truncateAfter_items_prefix id s.cache hok
        refine ⟨?_, rfl, rfl, rfl⟩
        simp only
        conv => rhs; rw [hpost]
        exact List.sublist_append_left _ _
  | purgeUpto id =>
    simp only [Store.applyIndex] at h
    split at h
    · cases h
    · simp only [Option.some.injEq] at h; subst h
      obtain ⟨pre, hpre⟩ := purgeUpto_items_suffix id s.cache hok
      refine ⟨?_, rfl, rfl, rfl⟩
      simp only
      conv => rhs; rw [hpre]
      exact List.sublist_append_right _ _

theorem appendAndApply_nonappend_C15b {s : Store} (fsHas : Nat → Bool) (r : Record)
    (hok : s.cache.OK) (hr : ∀ id p, r ≠ .append id p) :
    CacheShrinkC15b s.cache (s.appendAndApply fsHas r).2.1.cache := by
  cases hst : s.st.apply r with
  | err k => unfold Store.appendAndApply; rw [hst]; exact CacheShrinkC15b.refl _
  | panic m => unfold Store.appendAndApply; rw [hst]; exact CacheShrinkC15b.refl _
  | ok st' =>
    cases hs2 : (s.journalledC15b r).applyIndex r (s.journalledC15b r).openId ⟨s.openEnd, (encRecord r).length⟩ with
    | none =>
      rw [appendAndApply_none_C15b s fsHas r st' hst hs2]
      exact CacheShrinkC15b.refl _
    | some s2 =>
      rw [appendAndApply_store_C15b s fsHas r st' s2 hst hs2, (tryCloseFull_cache _ fsHas).1]
      exact applyIndex_nonappend_C15b (s := s.journalledC15b r) (s2 := s2) hok hr hs2

/-- `true` for the five ops that are not `append`. -/
def Op.nonAppendC15b : Op → Bool
  | .append _ => false
  | _ => true

theorem call_nonappend_C15b {s : Store} (fsHas : Nat → Bool) (op : Op) (hok : s.cache.OK)
    (hop : op.nonAppendC15b = true) : CacheShrinkC15b s.cache (s.call fsHas op).2.1.cache := by
  cases op with
  | append es => cases hop
  | saveVote v => exact appendAndApply_nonappend_C15b fsHas _ hok (by intro id p h; cases h)
  | commit id => exact appendAndApply_nonappend_C15b fsHas _ hok (by intro id p h; cases h)
  | saveUserData d => exact appendAndApply_nonappend_C15b fsHas _ hok (by intro id p h; cases h)
  | truncate idx =>
    simp only [Store.call]
    split
    · exact CacheShrinkC15b.refl _
    · split
      · exact appendAndApply_nonappend_C15b fsHas _ hok (by intro id p h; cases h)
      · split
        · exact CacheShrinkC15b.refl _
        · split
          · exact CacheShrinkC15b.refl _
          · exact appendAndApply_nonappend_C15b fsHas _ hok (by intro id p h; cases h)
  | purge upto =>
    simp only [Store.call]
    split
    · exact CacheShrinkC15b.refl _
    split
    · exact CacheShrinkC15b.refl _
    · split
      · split <;> exact CacheShrinkC15b.refl _
      · have h1 := appendAndApply_nonappend_C15b fsHas (.purgeUpto upto) hok (by intro id p h; cases h)
        split
        · rename_i seg s' effs heq
          rw [heq] at h1
          exact h1
        · exact h1

/-- Vote / commit / user data do not touch the cache at all. -/
theorem call_meta_cache_C15b (s : Store) (fsHas : Nat → Bool) (op : Op)
    (hop : (∃ v, op = .saveVote v) ∨ (∃ id, op = .commit id) ∨ (∃ d, op = .saveUserData d)) :
    (s.call fsHas op).2.1.cache = s.cache := by
  have key : ∀ r : Record, (∀ id p, r ≠ .append id p) → (∀ o, r ≠ .truncateAfter o) →
      (∀ id, r ≠ .purgeUpto id) → (s.appendAndApply fsHas r).2.1.cache = s.cache := by
    intro r h1 h2 h3
    cases hst : s.st.apply r with
    | err k => unfold Store.appendAndApply; rw [hst]
    | panic m => unfold Store.appendAndApply; rw [hst]
    | ok st' =>
      have hai : ∀ (x : Store) c sg, x.applyIndex r c sg = some x := by
        intro x c sg
        cases r with
        | append id p => exact absurd rfl (h1 id p)
        | truncateAfter o => exact absurd rfl (h2 o)
        | purgeUpto id => exact absurd rfl (h3 id)
        | saveVote v => rfl
        | commit id => rfl
        | state x => rfl
      rw [appendAndApply_store_C15b s fsHas r st' _ hst (hai _ _ _), (tryCloseFull_cache _ fsHas).1]
  rcases hop with ⟨v, rfl⟩ | ⟨id, rfl⟩ | ⟨d, rfl⟩
  · exact key _ (by intro _ _ h; cases h) (by intro _ h; cases h) (by intro _ h; cases h)
  · exact key _ (by intro _ _ h; cases h) (by intro _ h; cases h) (by intro _ h; cases h)
  · exact key _ (by intro _ _ h; cases h) (by intro _ h; cases h) (by intro _ h; cases h)

/-- Every public call keeps boundary and limits (the caller side never
publishes a boundary: a rotation only SENDS `appendFile`). -/
theorem call_boundary_limits_C15b {s : Store} (fsHas : Nat → Bool) (op : Op) (hinv : CacheInv s) :
    (s.call fsHas op).2.1.cache.lastEvictable = s.cache.lastEvictable ∧
    (s.call fsHas op).2.1.cache.maxItems = s.cache.maxItems ∧
    (s.call fsHas op).2.1.cache.capacity = s.cache.capacity := by
  by_cases hop : op.nonAppendC15b = true
  · have := call_nonappend_C15b fsHas op hinv.ok hop
    exact ⟨this.boundary, this.maxItems, this.capacity⟩
  · cases op with
    | append es =>
      rcases call_append_C15b fsHas es hinv with h | h
      · rw [h]; exact ⟨rfl, rfl, rfl⟩
      · exact ⟨h.boundary, h.maxItems, h.capacity⟩
    | _ => exact absurd rfl hop

end RaftLog
