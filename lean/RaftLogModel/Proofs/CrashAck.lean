/-
C03, part 4 (end): a positive callback of a flush means the acknowledged
position has reached the journal end at the time of that flush.

Requests are never changed between `send` and the batch that handles them: the
requests a worker holds after a step are among those it held before
(`WCtx.step_reqs_sub`). A predicate on the requests that carry callback `i`
(`Tagged i Q`) therefore survives worker steps, public calls (their requests
carry no callback) and flushes with other callbacks.
-/
import RaftLogModel.Proofs.CrashFinal
namespace RaftLog

/-- Every request the worker holds: the batch in hand, the request in hand, the queue. -/
def Worker.reqs (w : Worker) : List WReq := w.pc.batchW ++ w.rest

/-- Every held request with callback `i` satisfies `Q`. -/
def Tagged (i : Nat) (Q : WReq → Prop) (w : Worker) : Prop :=
  ∀ r ∈ w.reqs, r.cbId = some i → Q r

/-! ### The building blocks -/

theorem WCtx.toRecv_reqs (c : WCtx) : ∀ r ∈ c.toRecv.w.reqs, r ∈ c.w.queue := by
  rcases c.toRecv_cases with ⟨r0, q, hq, e⟩ | ⟨hq, _, e⟩ | ⟨hq, _, e⟩
  · rw [e]
    intro r hr
    simpa [Worker.reqs, Worker.rest, WPc.batchW, WPc.inHand, hq] using hr
  · rw [e]
    intro r hr
    simp [Worker.reqs, Worker.rest, WPc.batchW, WPc.inHand, hq] at hr
  · rw [e]
    intro r hr
    simp [Worker.reqs, Worker.rest, WPc.batchW, WPc.inHand, hq] at hr

theorem WCtx.nonFlush_reqs (c : WCtx) (r0 : WReq) : ∀ r ∈ (c.nonFlush r0).w.reqs, r ∈ c.w.queue := by
  rcases c.nonFlush_cases r0 with ⟨c0, e, _, _, hq, _⟩ | ⟨ids, _, _, _, e⟩
  · rw [e, ← hq]; exact c0.toRecv_reqs
  · rw [e]
    intro r hr
    simpa [Worker.reqs, Worker.rest, WPc.batchW, WPc.inHand] using hr

theorem WCtx.finishBatch_reqs (c : WCtx) (b : List WReq) (t : Option WReq) (ok : Bool) :
    ∀ r ∈ (c.finishBatch b t ok).w.reqs, r ∈ c.w.queue := by
  rw [WCtx.finishBatch_eq]
  intro r hr
  have := (c.fb1 b t ok).nonFlush_reqs _ r hr
  simpa using this

theorem WCtx.startSync_reqs (c : WCtx) (b : List WReq) (t : Option WReq) :
    ∀ r ∈ (c.startSync b t).w.reqs, r ∈ b ++ (t.toList ++ c.w.queue) := by
  rcases c.startSync_cases b t with ⟨_, e⟩ | ⟨f, _, e⟩ | ⟨_, e⟩
  · rw [e]
    intro r hr
    exact List.mem_append_right _ (List.mem_append_right _ (c.finishBatch_reqs b t true r hr))
  · rw [e]; intro r hr; simpa [Worker.reqs, Worker.rest, WPc.batchW, WPc.inHand] using hr
  · rw [e]; intro r hr; simpa [Worker.reqs, Worker.rest, WPc.batchW, WPc.inHand] using hr

theorem WCtx.startWrites_reqs (c : WCtx) (b : List WReq) (t : Option WReq) :
    ∀ r ∈ (c.startWrites b t).w.reqs, r ∈ b ++ (t.toList ++ c.w.queue) := by
  rcases c.startWrites_cases b t with ⟨_, e⟩ | ⟨_, e⟩
  · rw [e]; exact c.startSync_reqs b t
  · rw [e]; intro r hr; simpa [Worker.reqs, Worker.rest, WPc.batchW, WPc.inHand] using hr

theorem WCtx.die_reqs (c : WCtx) (l : List WReq) : (c.die l).w.reqs = [] := by
  simp [WCtx.die, Worker.reqs, Worker.rest, WPc.batchW, WPc.inHand, WCtx.emit]

/-- **A worker step creates no request.** -/
theorem WCtx.step_reqs_sub (c : WCtx) (out : Outcome) :
    ∀ r ∈ (c.step out).w.reqs, r ∈ c.w.reqs := by
  apply WCtx.step_elim (P := fun c' => ∀ r ∈ c'.w.reqs, r ∈ c.w.reqs) c out
  · intro _ _ r hr; exact hr
  · intro hpc _ r hr
    have := c.toRecv_reqs r hr
    simp only [Worker.reqs, Worker.rest, List.mem_append]
    exact Or.inr (Or.inr this)
  · intro r0 hpc hr0 _ r hr
    obtain ⟨h1, _, _⟩ := collectBatch_spec 1024 c.w.queue
    have := WCtx.startWrites_reqs _ _ _ r hr
    simp only [WCtx.setQueue_w] at this
    simp only [Worker.reqs, Worker.rest, hpc, WPc.batchW, WPc.inHand, List.nil_append,
      List.cons_append, List.mem_cons]
    rw [h1]
    simp only [List.cons_append, List.mem_cons, List.mem_append] at this ⊢
    rcases this with k | k | k | k
    · exact Or.inl k
    · exact Or.inr (Or.inl (Or.inl k))
    · exact Or.inr (Or.inl (Or.inr k))
    · exact Or.inr (Or.inr k)
  · intro r0 hpc _ _ r hr
    have := c.nonFlush_reqs r0 r hr
    simp only [Worker.reqs, Worker.rest, List.mem_append]
    exact Or.inr (Or.inr this)
  · intro b t hpc _ r hr
    have := c.startSync_reqs b t r hr
    simpa [Worker.reqs, Worker.rest, hpc, WPc.batchW, WPc.inHand] using this
  · intro d rest b t _ _ _ r hr
    rw [WCtx.die_reqs] at hr; cases hr
  · intro d rest b t k hpc _ _ _ _ r hr
    simpa [Worker.reqs, Worker.rest, hpc, WPc.batchW, WPc.inHand] using hr
  · intro d b t hpc _ _ r hr
    have := WCtx.startSync_reqs _ b t r hr
    simpa [Worker.reqs, Worker.rest, hpc, WPc.batchW, WPc.inHand] using this
  · intro d d' rest b t hpc _ _ r hr
    simpa [Worker.reqs, Worker.rest, hpc, WPc.batchW, WPc.inHand] using hr
  · intro b t hpc _ _ r hr
    have := c.finishBatch_reqs b t true r hr
    simp only [Worker.reqs, Worker.rest, List.mem_append]
    exact Or.inr (Or.inr this)
  · intro b t f rest hpc _ _ _ r hr
    have := WCtx.finishBatch_reqs _ b t false r hr
    simp only [Worker.reqs, Worker.rest, List.mem_append]
    exact Or.inr (Or.inr (by simpa using this))
  · intro b t f rest hpc _ _ _ r hr
    have := WCtx.startSync_reqs _ b t r hr
    simpa [Worker.reqs, Worker.rest, hpc, WPc.batchW, WPc.inHand] using this
  · intro b t hpc _ _ r hr
    have := c.finishBatch_reqs b t true r hr
    simp only [Worker.reqs, Worker.rest, List.mem_append]
    exact Or.inr (Or.inr this)
  · intro b t f rest hpc _ _ _ r hr
    have := WCtx.finishBatch_reqs _ b t false r hr
    simp only [Worker.reqs, Worker.rest, List.mem_append]
    exact Or.inr (Or.inr (by simpa using this))
  · intro b t f rest hpc _ _ _ r hr
    have := WCtx.finishBatch_reqs _ b t true r hr
    simp only [Worker.reqs, Worker.rest, List.mem_append]
    exact Or.inr (Or.inr (by simpa using this))
  · intro hpc _ r hr
    have := c.toRecv_reqs r hr
    simp only [Worker.reqs, Worker.rest, List.mem_append]
    exact Or.inr (Or.inr this)
  · intro i rest _ _ _ r hr
    rw [WCtx.die_reqs] at hr; cases hr
  · intro i hpc _ _ r hr
    have := WCtx.toRecv_reqs _ r hr
    simp only [Worker.reqs, Worker.rest, List.mem_append]
    exact Or.inr (Or.inr (by simpa using this))
  · intro i j rest hpc _ _ r hr
    simpa [Worker.reqs, Worker.rest, hpc, WPc.batchW, WPc.inHand] using hr

theorem Tagged.step {i : Nat} {Q : WReq → Prop} {c : WCtx} (h : Tagged i Q c.w) (out : Outcome) :
    Tagged i Q (c.step out).w :=
  fun r hr hi => h r (c.step_reqs_sub out r hr) hi

theorem Tagged.runQuiet {i : Nat} {Q : WReq → Prop} (n : Nat) (c : WCtx) (h : Tagged i Q c.w) :
    Tagged i Q (WCtx.runQuiet n c).w :=
  WCtx.runQuiet_induct (P := fun c => Tagged i Q c.w) (fun _ hc _ => hc.step .ok) n c h

/-! ### A positive callback raises the acknowledged position -/

theorem mem_filterMap_cbId_C3 {b : List WReq} {i : Nat} (h : i ∈ b.filterMap WReq.cbId) :
    ∃ r ∈ b, r.cbId = some i := by
  obtain ⟨r, hr, hi⟩ := List.mem_filterMap.mp h
  exact ⟨r, hr, hi⟩

/-- What the callbacks a step emits look like (`StepEvs`): a positive one comes
from a `syncNew` step with a non-`eio` outcome, for a request of the batch. -/
theorem ack_step_C3 (c : WCtx) (out : Outcome) (i : Nat) (hw : c.w.WF)
    (hnew : Ev.cb i true ∉ c.evs) (h : Ev.cb i true ∈ (c.step out).evs) :
    ∃ b t r, c.w.pc = .syncNew b t ∧ out ≠ .eio ∧ r ∈ b ∧ r.cbId = some i := by
  have h1 : (i, true) ∈ cbsOf (c.step out).evs := by
    simp only [cbsOf, List.mem_filterMap]
    exact ⟨Ev.cb i true, h, rfl⟩
  rw [c.step_cbsOf out hw, List.mem_append] at h1
  rcases h1 with h1 | h1
  · exfalso
    simp only [cbsOf, List.mem_filterMap] at h1
    obtain ⟨e, he, h2⟩ := h1
    cases e <;> simp at h2
    obtain ⟨rfl, rfl⟩ := h2
    exact hnew he
  · unfold stepCbs at h1
    cases hpc : c.w.pc with
    | syncNew b t =>
      simp only [hpc, batchCbs, List.mem_map, Prod.mk.injEq] at h1
      obtain ⟨j, hj, rfl, ho⟩ := h1
      obtain ⟨r, hr, hi⟩ := mem_filterMap_cbId_C3 hj
      exact ⟨b, t, r, rfl, by simpa using ho, hr, hi⟩
    | syncOld b t =>
      simp only [hpc] at h1
      split at h1
      · simp [batchCbs] at h1
      · cases h1
    | _ => simp [hpc] at h1

/-- **One step**: a new positive callback `i` while every held request with
callback `i` has `upto ≥ E`: the acknowledged position reaches `E`. -/
theorem ack_reaches_C3 (c : WCtx) (out : Outcome) (i E A : Nat) (hw : c.w.WF)
    (htag : Tagged i (fun r => E ≤ r.upto) c.w)
    (hnew : Ev.cb i true ∉ c.evs) (h : Ev.cb i true ∈ (c.step out).evs) :
    E ≤ c.ackStep out A := by
  obtain ⟨b, t, r, hpc, ho, hr, hi⟩ := ack_step_C3 c out i hw hnew h
  have h1 := htag r (by simp [Worker.reqs, hpc, WPc.batchW, hr]) hi
  have h2 := le_maxUpto hr
  simp only [WCtx.ackStep, hpc, ho, if_false]
  exact Nat.le_trans (Nat.le_trans h1 h2) (Nat.le_max_right _ _)

/-- The same over `runQuiet`. -/
theorem ack_reaches_quiet_C3 (i E : Nat) (n : Nat) : ∀ (c : WCtx) (A : Nat), c.w.WF →
    Tagged i (fun r => E ≤ r.upto) c.w → Ev.cb i true ∉ c.evs →
    Ev.cb i true ∈ (WCtx.runQuiet n c).evs → E ≤ WCtx.ackQuiet n c A := by
  induction n with
  | zero => intro c A _ _ hnew h; exact absurd h hnew
  | succ n ih =>
    intro c A hw htag hnew h
    unfold WCtx.runQuiet at h
    unfold WCtx.ackQuiet
    by_cases hq : c.w.quiet = true
    · simp only [hq, if_true] at h
      exact absurd h hnew
    · simp only [hq] at h ⊢
      by_cases hstep : Ev.cb i true ∈ (c.step .ok).evs
      · exact Nat.le_trans (ack_reaches_C3 c .ok i E A hw htag hnew hstep) (WCtx.le_ackQuiet _ _ _)
      · exact ih (c.step .ok) _ (c.step_wf .ok hw) (htag.step .ok) hstep h

end RaftLog
