/-
C03 without "no removal outstanding", part 9: assembly. The linked files of a reachable
state are exactly the chunks of the ghost store (dropped chunks whose files are still
linked, then the live chunks); `open` on a crash image replays a prefix of the ghost
store's journal; that prefix ends at or beyond the ghost marker (which is acknowledged),
hence mirrors a prefix of the entry-level writes.
-/
import RaftLogModel.Proofs.CrashQG8
namespace RaftLog

/-- `crash_open_prefix_C3` with the only fact it uses about linked files as hypothesis. -/
theorem crash_open_prefix_live_C3b {s : Store} {fs : Fs} {w : Worker} {jc : List (Closed × List Record)}
    {jo : List Record} (g : RepG s fs w jc jo) (hj : JInv s fs w)
    (hlive : ∀ id ∈ s.chunkIds, fs.has id = true)
    (hlinked : fs.linkedIds = s.chunkIds) {img : Fs} (hc : CrashImage fs img) (cfg' : Cfg) (D : Nat)
    (hD : ∀ p ∈ liveChunksC3 s jc jo, ∀ f, fs.find p.1.id = some f →
      min (encAll p.2).length (D - p.1.id) ≤ f.durable)
    {s' : Store} {w' : Worker} {fs' : Fs} {evs : List Ev}
    (hopen : openStore cfg' img = (.ok (s', w'), fs', evs)) :
    ∃ P, P <+: allOps s jc jo ∧ stRunO P {} = some s'.st ∧ idxRun P [] = some s'.log ∧
      ∀ Q, Q <+: allOps s jc jo → s.jstart + sizeSum Q ≤ D → Q <+: P := by
  obtain ⟨x, a, hloop, e1, e2⟩ := openStore_ok_C3 hopen
  rw [hc.linkedIds, hlinked, ← liveChunks_ids_C3 g] at hloop
  have hrecs := liveChunks_recs_C3 g
  have himg : ∀ p ∈ liveChunksC3 s jc jo, ImgChunk img D p := by
    intro p hp
    obtain ⟨k1, ⟨st, rest, k2⟩, _, k4, t, k5⟩ := hrecs p hp
    obtain ⟨f, hf, hfl⟩ := has_find_C3 (hlive _ k4)
    obtain ⟨g', hg1, hg2⟩ := hc.find hf hfl
    rw [fdata_of_find_C3 hf] at k5
    obtain ⟨j, hj1, hj2, hj3⟩ := cutOf_parses_lo_C3 k1 k5 hg2
    refine ⟨k1, by rw [k2]; simp, g', hg1, j, hj1, hj2, ?_⟩
    intro i hi hle
    apply hj3 i hi
    have h1 := hD p hp f hf
    have h2 := encAll_take_le_C3 p.2 i
    omega
  have habut : AbutC3 (liveChunksC3 s jc jo) := by
    apply abut_of_chained_C3
    · rw [liveChunks_offsets_C3 g]; exact hj.chained
    · intro p hp
      obtain ⟨k1, k2, k3, _, _⟩ := hrecs p hp
      have := lastOff_offsetsFrom p.1.id (recSizes p.2)
      rw [k3, ← encAll_length] at this
      exact this
  obtain ⟨P, hP, q1, q2, q3⟩ := openLoop_image_C3 cfg' D (liveChunksC3 s jc jo)
    { sm := emptyStore cfg', fs := img } x a hloop himg habut
  rw [liveChunks_flatOps_C3] at hP q3
  rw [liveChunks_head_C3 g] at q3
  exact ⟨P, hP, by rw [e1]; exact q1, by rw [e2]; exact q2, q3⟩

/-- Every chunk of the ghost store has a linked file. -/
theorem GInvC3b.live {s : Store} {fs : Fs} {w : Worker} {r : RefLog} {W : List Op} {A E K Bh : Nat}
    {gs : List GhostC3b} (h : GInvC3b s fs w r W A E K Bh gs) (hl : LInv s fs w) :
    ∀ id ∈ (s.liftC3b (ghostClosedC3b gs)).chunkIds, fs.has id = true := by
  intro id hid
  rw [liftC3b_chunkIds] at hid
  rcases List.mem_append.mp hid with k | k
  · simp only [ghostClosedC3b, List.map_map, List.mem_map] at k
    obtain ⟨p, hp, hpid⟩ := k
    rw [← hpid]; exact (h.ents p hp).linked
  · exact hl.live id k

/-- **The linked files are exactly the chunks of the ghost store**, oldest first: the
dropped chunks whose files the worker has not unlinked yet, then the live chunks. -/
theorem GInvC3b.linkedIds {s : Store} {fs : Fs} {w : Worker} {r : RefLog} {W : List Op} {A E K Bh : Nat}
    {gs : List GhostC3b} (h : GInvC3b s fs w r W A E K Bh gs) (hl : LInv s fs w) :
    fs.linkedIds = (ghostClosedC3b gs).map Closed.id ++ s.chunkIds := by
  rw [← liftC3b_chunkIds]
  obtain ⟨k1, k2⟩ := Fs.linkedIds_spec hl.nodup
  apply sorted_ext (fun x : Nat => x) _ _ k1 h.base.inv.j.chunkIds_sorted
  intro x
  rw [k2]
  constructor
  · intro hx
    rw [liftC3b_chunkIds]
    rcases hl.dead x hx with e | e | e
    · exact List.mem_append_right _ e
    · exact List.mem_append_left _ (by rw [← h.order]; exact List.mem_append_right _ e)
    · exact List.mem_append_left _ (by rw [← h.order]; exact List.mem_append_left _ e)
  · exact h.live hl x

/-- **C03, assembled on the invariants — no hypothesis on outstanding removals.** -/
theorem crash_prefix_ghost_C3b {y : Sys} {r : RefLog} {W : List Op} {B A E K : Nat}
    (hh : HSys y r W B A E K) (hg : GSysC3b y r W A E K)
    {img : Fs} (hc : CrashImage y.fs img) (cfg' : Cfg)
    {s' : Store} {w' : Worker} {fs' : Fs} {evs : List Ev}
    (hopen : openStore cfg' img = (.ok (s', w'), fs', evs)) :
    ∃ n r', RefLog.run {} (W.take n) = some r' ∧ s'.st = r'.state ∧
      logKeys s'.log = entKeys r'.entries ∧ (E ≤ A → K ≤ n) := by
  obtain ⟨⟨s, hs, _, _⟩, ⟨s1, hs1, hli⟩, _, _⟩ := hh
  rw [hs] at hs1; cases hs1
  obtain ⟨s0, Bh, gs, hs0, h⟩ := hg
  rw [hs] at hs0; cases hs0
  have hi := h.base
  obtain ⟨jc, jo, g, N0, hN, hmir, hbd, hcnt⟩ := hi.hist
  have hlinked : y.fs.linkedIds = (s.liftC3b (ghostClosedC3b gs)).chunkIds := by
    rw [liftC3b_chunkIds]; exact h.linkedIds hli
  obtain ⟨P, hP, q1, q2, q3⟩ := crash_open_prefix_live_C3b g hi.inv.j (h.live hli) hlinked hc cfg' A
    (hi.dur.live_durable_C3 g) hopen
  have hB : Bh ≤ (s.liftC3b (ghostClosedC3b gs)).jstart + sizeSum P := by
    have hack := h.ack
    rcases hbd with e | ⟨Q, hQ, e⟩
    · omega
    · have := sizeSum_prefix_le (q3 Q hQ (by omega))
      omega
  obtain ⟨r', m1, m2, l, m3, m4⟩ := hmir P hP hB
  rw [q1] at m2; rw [q2] at m3
  refine ⟨N0 + cntW P, r', m1, Option.some.inj m2, ?_, ?_⟩
  · rw [Option.some.inj m3]; exact m4
  · intro hEA
    rcases hcnt with ⟨Q, hQ, e1, e2⟩ | ⟨_, e2⟩
    · have := cntW_prefix_le (q3 Q hQ (by omega))
      omega
    · omega

end RaftLog
