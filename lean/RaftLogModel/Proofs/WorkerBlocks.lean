/-
Invariants of the flush worker machine (`Model/Worker.lean`): what one
`WCtx.step` emits, which files it leaves unsynced, how the callback queue
moves, when chunk removal starts, and a termination measure for the
all-ok run (`WCtx.runQuiet`). Used by Props C04, C08, C14.
-/
import RaftLogModel.Model.Sys
import RaftLogModel.Proofs.WorkerCache
namespace RaftLog

/-! ## Definitions -/

def WReq.appendId : WReq → Option Nat
  | .appendFile id _ => some id
  | _ => none

/-- The non-batch request a program counter holds (`got r`, or the trailing
request of a batch). -/
def WPc.held : WPc → List WReq
  | .got r => [r]
  | .writing _ _ t => t.toList
  | .syncOld _ t => t.toList
  | .syncNew _ t => t.toList
  | _ => []

/-- The write requests a program counter holds, in batch order. -/
def WPc.batch : WPc → List WReq
  | .got r => [r]
  | .writing _ b _ => b
  | .syncOld b _ => b
  | .syncNew b _ => b
  | _ => []

/-- Ids announced by `appendFile` requests the worker has not executed yet. -/
def pendingAppends (w : Worker) : List Nat := (w.pc.held ++ w.queue).filterMap WReq.appendId

/-- Callback ids of the writes in hand (batch order), then of the queue. -/
def cbQueue (w : Worker) : List Nat := (w.pc.batch ++ w.queue).filterMap WReq.cbId

/-- `x` names a file the worker will still sync. -/
def Trk (w : Worker) (x : Nat) : Prop :=
  x ∈ w.files.map FileEnt.id ∨ x ∈ pendingAppends w

/-- Every linked file with bytes not known durable is tracked by the worker or
announced in its queue. -/
def Covered (c : WCtx) : Prop :=
  ∀ f ∈ c.fs, f.durable < f.data.length → f.linked = true → Trk c.w f.id

/-- Structural well-formedness of the worker state (an invariant of `step`,
`applyEffs`, `settle`; established by `openStore`). -/
def Worker.WF (w : Worker) : Prop :=
  match w.pc with
  | .dead => w.queue = []
  | .syncOld _ _ => 2 ≤ w.files.length
  | .syncNew _ _ => w.files.length = 1
  | .unlinking _ => w.files ≠ [] ∧ w.lastSyncFailed = false
  | _ => w.files ≠ []

instance (w : Worker) : Decidable w.WF := by
  unfold Worker.WF
  split <;> infer_instance

/-- The step kills the worker thread (failed `write` or `unlink`). -/
def WCtx.dies (c : WCtx) (out : Outcome) : Bool :=
  match c.w.pc, out with
  | .writing (_ :: _) _ _, .eio => true
  | .unlinking (_ :: _), .eio => true
  | _, _ => false

def Ev.isMisc : Ev → Bool
  | .boundary _ => true
  | .workerExit _ => true
  | .cbDropped _ => true
  | _ => false

def cbEvs (l : List (Nat × Bool)) : List Ev := l.map fun p => Ev.cb p.1 p.2

def batchCbs (batch : List WReq) (ok : Bool) : List (Nat × Bool) :=
  (batch.filterMap WReq.cbId).map fun i => (i, ok)

/-- The system-call event of a step. -/
def stepSys (c : WCtx) (out : Outcome) : List Ev :=
  match c.w.pc with
  | .writing (d :: _) _ _ =>
    let fid := newestId c.w.files
    match out with
    | .ok => [.write "w" fid d true]
    | .eio => [.write "w" fid d false]
    | .short k =>
      let k := if k = 0 then 1 else k
      if k < d.length then [.write "w" fid (d.take k) true] else [.write "w" fid d true]
  | .syncOld _ _ =>
    match c.w.files with
    | f :: _ => [.sync "w" f.id (out != .eio)]
    | [] => []
  | .syncNew _ _ =>
    match c.w.files with
    | f :: _ => [.sync "w" f.id (out != .eio)]
    | [] => []
  | .unlinking (i :: _) => [.unlink "w" i (out != .eio)]
  | _ => []

/-- The acknowledgements of a step (well-formed states). -/
def stepCbs (c : WCtx) (out : Outcome) : List (Nat × Bool) :=
  match c.w.pc with
  | .syncNew b _ => batchCbs b (out != .eio)
  | .syncOld b _ => if out = .eio then batchCbs b false else []
  | _ => []

def cbsOf (evs : List Ev) : List (Nat × Bool) :=
  evs.filterMap fun e => match e with
    | .cb i ok => some (i, ok)
    | _ => none

def unlinksOf (evs : List Ev) : List (Nat × Bool) :=
  evs.filterMap fun e => match e with
    | .unlink _ i ok => some (i, ok)
    | _ => none

/-- Run the worker with the given outcomes. -/
def WCtx.runOuts (c : WCtx) (outs : List Outcome) : WCtx := outs.foldl WCtx.step c

/-! ## Basic projections of the building blocks -/

@[simp] theorem WCtx.emit_evs (c : WCtx) (e : Ev) : (c.emit e).evs = c.evs ++ [e] := rfl

theorem foldl_emit_wW {α} (f : α → Ev) (l : List α) (c : WCtx) :
    (l.foldl (fun c i => c.emit (f i)) c).w = c.w := by
  induction l generalizing c with
  | nil => rfl
  | cons x xs ih => simp [List.foldl_cons, ih]

theorem foldl_emit_fsW {α} (f : α → Ev) (l : List α) (c : WCtx) :
    (l.foldl (fun c i => c.emit (f i)) c).fs = c.fs := by
  induction l generalizing c with
  | nil => rfl
  | cons x xs ih => simp [List.foldl_cons, ih]

theorem foldl_emit_evs {α} (f : α → Ev) (l : List α) (c : WCtx) :
    (l.foldl (fun c i => c.emit (f i)) c).evs = c.evs ++ l.map f := by
  induction l generalizing c with
  | nil => simp
  | cons x xs ih => simp [List.foldl_cons, ih]

theorem Ev.allMisc_nil : ∀ e ∈ ([] : List Ev), e.isMisc = true := by intro e h; cases h

/-! ### `toRecv` -/

theorem WCtx.toRecv_cases (c : WCtx) :
    (∃ r q, c.w.queue = r :: q ∧ c.toRecv = { c with w := { c.w with pc := .got r, queue := q } }) ∨
    (c.w.queue = [] ∧ c.w.senderAlive = true ∧ c.toRecv = { c with w := { c.w with pc := .idle } }) ∨
    (c.w.queue = [] ∧ c.w.senderAlive = false ∧
      c.toRecv = { c with w := { c.w with pc := .dead }, evs := c.evs ++ [.workerExit true] }) := by
  unfold WCtx.toRecv
  split
  · rename_i r q h; exact .inl ⟨r, q, h, rfl⟩
  · rename_i h
    by_cases ha : c.w.senderAlive = true
    · simp [ha, h]
    · simp only [Bool.not_eq_true] at ha
      simp [ha, h, WCtx.emit]

@[simp] theorem WCtx.toRecv_fsW (c : WCtx) : c.toRecv.fs = c.fs := by
  rcases c.toRecv_cases with ⟨r, q, _, h⟩ | ⟨_, _, h⟩ | ⟨_, _, h⟩ <;> rw [h]
@[simp] theorem WCtx.toRecv_files (c : WCtx) : c.toRecv.w.files = c.w.files := by
  rcases c.toRecv_cases with ⟨r, q, _, h⟩ | ⟨_, _, h⟩ | ⟨_, _, h⟩ <;> rw [h]
@[simp] theorem WCtx.toRecv_lsf (c : WCtx) : c.toRecv.w.lastSyncFailed = c.w.lastSyncFailed := by
  rcases c.toRecv_cases with ⟨r, q, _, h⟩ | ⟨_, _, h⟩ | ⟨_, _, h⟩ <;> rw [h]
@[simp] theorem WCtx.toRecv_postponed (c : WCtx) : c.toRecv.w.postponed = c.w.postponed := by
  rcases c.toRecv_cases with ⟨r, q, _, h⟩ | ⟨_, _, h⟩ | ⟨_, _, h⟩ <;> rw [h]
@[simp] theorem WCtx.toRecv_aliveW (c : WCtx) : c.toRecv.w.senderAlive = c.w.senderAlive := by
  rcases c.toRecv_cases with ⟨r, q, _, h⟩ | ⟨_, _, h⟩ | ⟨_, _, h⟩ <;> rw [h]

@[simp] theorem WCtx.toRecv_held (c : WCtx) : c.toRecv.w.pc.held ++ c.toRecv.w.queue = c.w.queue := by
  rcases c.toRecv_cases with ⟨r, q, hq, h⟩ | ⟨hq, _, h⟩ | ⟨hq, _, h⟩ <;> rw [h] <;> simp [WPc.held, hq]
@[simp] theorem WCtx.toRecv_batch (c : WCtx) : c.toRecv.w.pc.batch ++ c.toRecv.w.queue = c.w.queue := by
  rcases c.toRecv_cases with ⟨r, q, hq, h⟩ | ⟨hq, _, h⟩ | ⟨hq, _, h⟩ <;> rw [h] <;> simp [WPc.batch, hq]

theorem WCtx.toRecv_evs (c : WCtx) :
    ∃ rest, c.toRecv.evs = c.evs ++ rest ∧ ∀ e ∈ rest, e.isMisc = true := by
  rcases c.toRecv_cases with ⟨r, q, hq, h⟩ | ⟨hq, _, h⟩ | ⟨hq, _, h⟩ <;> rw [h]
  · exact ⟨[], by simp, Ev.allMisc_nil⟩
  · exact ⟨[], by simp, Ev.allMisc_nil⟩
  · exact ⟨[.workerExit true], rfl, by simp [Ev.isMisc]⟩

/-- The program counters `toRecv` can leave. -/
def WPc.isRecv : WPc → Prop
  | .got _ => True
  | .idle => True
  | .dead => True
  | _ => False

theorem WCtx.toRecv_pc (c : WCtx) : c.toRecv.w.pc.isRecv ∧ (c.toRecv.w.pc = .dead → c.toRecv.w.queue = []) := by
  rcases c.toRecv_cases with ⟨r, q, hq, h⟩ | ⟨hq, _, h⟩ | ⟨hq, _, h⟩ <;> rw [h] <;> simp [WPc.isRecv, hq]

/-! ### `nonFlush` -/

def WReq.ents : WReq → List FileEnt
  | .appendFile id p => [⟨id, p⟩]
  | _ => []

theorem WCtx.nonFlush_cases (c : WCtx) (r : WReq) :
    (∃ c0 : WCtx, c.nonFlush r = c0.toRecv ∧ c0.fs = c.fs ∧ c0.evs = c.evs ∧ c0.w.queue = c.w.queue ∧
      c0.w.files = c.w.files ++ r.ents ∧ c0.w.lastSyncFailed = c.w.lastSyncFailed ∧
      c0.w.senderAlive = c.w.senderAlive ∧
      (c0.w.postponed = c.w.postponed ∨
        ∃ ids, r = .removeChunks ids ∧ c.w.lastSyncFailed = true ∧ c0.w.postponed = c.w.postponed ++ ids)) ∨
    (∃ ids, r = .removeChunks ids ∧ c.w.lastSyncFailed = false ∧ c.w.postponed ++ ids ≠ [] ∧
      c.nonFlush r = { c with w := { c.w with pc := .unlinking (c.w.postponed ++ ids), postponed := [] } }) := by
  cases r with
  | write u d cb => exact .inl ⟨c, rfl, rfl, rfl, rfl, by simp [WReq.ents], rfl, rfl, .inl rfl⟩
  | appendFile id p => exact .inl ⟨_, rfl, rfl, rfl, rfl, rfl, rfl, rfl, .inl rfl⟩
  | removeChunks ids =>
    by_cases hl : c.w.lastSyncFailed = true
    · refine .inl ⟨{ c with w := { c.w with postponed := c.w.postponed ++ ids } }, ?_, rfl, rfl, rfl,
        by simp [WReq.ents], rfl, rfl, .inr ⟨ids, rfl, hl, rfl⟩⟩
      simp [WCtx.nonFlush, hl]
    · simp only [Bool.not_eq_true] at hl
      by_cases he : c.w.postponed ++ ids = []
      · refine .inl ⟨c, ?_, rfl, rfl, rfl, by simp [WReq.ents], rfl, rfl, .inl rfl⟩
        simp [WCtx.nonFlush, hl, he]
      · refine .inr ⟨ids, rfl, hl, he, ?_⟩
        simp [WCtx.nonFlush, hl]

@[simp] theorem WCtx.nonFlush_fsW (c : WCtx) (r : WReq) : (c.nonFlush r).fs = c.fs := by
  rcases c.nonFlush_cases r with ⟨c0, h, hfs, _⟩ | ⟨ids, _, _, _, h⟩ <;> rw [h] <;> simp [*]
@[simp] theorem WCtx.nonFlush_files (c : WCtx) (r : WReq) : (c.nonFlush r).w.files = c.w.files ++ r.ents := by
  rcases c.nonFlush_cases r with ⟨c0, h, _, _, _, hf, _⟩ | ⟨ids, hr, _, _, h⟩ <;> rw [h] <;> simp [*, WReq.ents]
@[simp] theorem WCtx.nonFlush_lsf (c : WCtx) (r : WReq) :
    (c.nonFlush r).w.lastSyncFailed = c.w.lastSyncFailed := by
  rcases c.nonFlush_cases r with ⟨c0, h, _, _, _, _, hf, _⟩ | ⟨ids, hr, _, _, h⟩ <;> rw [h] <;> simp [*]
@[simp] theorem WCtx.nonFlush_aliveW (c : WCtx) (r : WReq) :
    (c.nonFlush r).w.senderAlive = c.w.senderAlive := by
  rcases c.nonFlush_cases r with ⟨c0, h, _, _, _, _, _, hf, _⟩ | ⟨ids, hr, _, _, h⟩ <;> rw [h] <;> simp [*]
@[simp] theorem WCtx.nonFlush_held (c : WCtx) (r : WReq) :
    (c.nonFlush r).w.pc.held ++ (c.nonFlush r).w.queue = c.w.queue := by
  rcases c.nonFlush_cases r with ⟨c0, h, _, _, hq, _⟩ | ⟨ids, hr, _, _, h⟩ <;> rw [h]
  · rw [WCtx.toRecv_held, hq]
  · simp [WPc.held]
@[simp] theorem WCtx.nonFlush_batch (c : WCtx) (r : WReq) :
    (c.nonFlush r).w.pc.batch ++ (c.nonFlush r).w.queue = c.w.queue := by
  rcases c.nonFlush_cases r with ⟨c0, h, _, _, hq, _⟩ | ⟨ids, hr, _, _, h⟩ <;> rw [h]
  · rw [WCtx.toRecv_batch, hq]
  · simp [WPc.batch]

theorem WCtx.nonFlush_evs (c : WCtx) (r : WReq) :
    ∃ rest, (c.nonFlush r).evs = c.evs ++ rest ∧ ∀ e ∈ rest, e.isMisc = true := by
  rcases c.nonFlush_cases r with ⟨c0, h, _, he, _⟩ | ⟨ids, hr, _, _, h⟩ <;> rw [h]
  · rw [← he]; exact c0.toRecv_evs
  · exact ⟨[], by simp, Ev.allMisc_nil⟩

/-- The program counters a finished batch / non-flush request can leave. -/
def WPc.isRest : WPc → Prop
  | .got _ => True
  | .idle => True
  | .dead => True
  | .unlinking _ => True
  | _ => False

theorem WPc.isRecv.isRest {pc : WPc} (h : pc.isRecv) : pc.isRest := by
  cases pc <;> simp_all [WPc.isRecv, WPc.isRest]

theorem WCtx.nonFlush_pc (c : WCtx) (r : WReq) :
    (c.nonFlush r).w.pc.isRest ∧ ((c.nonFlush r).w.pc = .dead → (c.nonFlush r).w.queue = []) ∧
    (∀ ids, (c.nonFlush r).w.pc = .unlinking ids →
      c.w.lastSyncFailed = false ∧ (c.nonFlush r).w.postponed = [] ∧
      ∃ ids0, r = .removeChunks ids0 ∧ ids = c.w.postponed ++ ids0) := by
  rcases c.nonFlush_cases r with ⟨c0, h, _, he, _⟩ | ⟨ids, hr, hl, _, h⟩ <;> rw [h]
  · have := c0.toRecv_pc
    refine ⟨this.1.isRest, this.2, ?_⟩
    intro ids hp
    have h1 := this.1
    rw [hp] at h1
    cases h1
  · refine ⟨trivial, by simp, ?_⟩
    intro ids' hp
    simp only [WPc.unlinking.injEq] at hp
    exact ⟨hl, rfl, ids, hr, hp.symm⟩

/-- How `postponed` moves. -/
theorem WCtx.nonFlush_postponed (c : WCtx) (r : WReq) :
    (c.nonFlush r).w.postponed = c.w.postponed ∨
    (∃ ids, r = .removeChunks ids ∧ c.w.lastSyncFailed = true ∧
      (c.nonFlush r).w.postponed = c.w.postponed ++ ids) ∨
    (∃ ids, r = .removeChunks ids ∧ c.w.lastSyncFailed = false ∧
      (c.nonFlush r).w.pc = .unlinking (c.w.postponed ++ ids) ∧ (c.nonFlush r).w.postponed = []) := by
  rcases c.nonFlush_cases r with ⟨c0, h, _, _, _, _, _, _, hp | ⟨ids, hr, hl, hp⟩⟩ | ⟨ids, hr, hl, _, h⟩ <;> rw [h]
  · exact .inl (by simp [hp])
  · exact .inr (.inl ⟨ids, hr, hl, by simp [hp]⟩)
  · exact .inr (.inr ⟨ids, hr, hl, rfl, rfl⟩)

/-! ### `finishBatch` -/

def tailEnts (t : Option WReq) : List FileEnt :=
  match t with
  | some r => r.ents
  | none => []

/-- The context in which `finishBatch` sends the callbacks. -/
def WCtx.fb0 (c : WCtx) (batch : List WReq) (ok : Bool) : WCtx :=
  (batch.filterMap WReq.cbId).foldl (fun c i => c.emit (.cb i ok))
    { c with w := { c.w with lastSyncFailed := !ok } }

/-- The chunk ids of a trailing `removeChunks` request. -/
def tailIds (t : Option WReq) : List Nat :=
  match t with
  | some (.removeChunks ids) => ids
  | _ => []

/-- The request `finishBatch` hands to `nonFlush`: the trailing removal (empty when there is none;
the postponed removal is retried after every batch). -/
def tailReq (t : Option WReq) : WReq :=
  match t with
  | some (.write u d cb) => .write u d cb
  | _ => .removeChunks (tailIds t)

/-- The context in which `finishBatch` handles the trailing request: callbacks sent, a trailing
`appendFile` already executed. -/
def WCtx.fb1 (c : WCtx) (batch : List WReq) (tail : Option WReq) (ok : Bool) : WCtx :=
  { (c.fb0 batch ok) with w := { (c.fb0 batch ok).w with files := (c.fb0 batch ok).w.files ++ tailEnts tail } }

theorem WCtx.finishBatch_eq (c : WCtx) (batch : List WReq) (tail : Option WReq) (ok : Bool) :
    c.finishBatch batch tail ok = (c.fb1 batch tail ok).nonFlush (tailReq tail) := by
  cases tail with
  | none =>
    show (c.fb0 batch ok).nonFlush (.removeChunks []) = _
    simp [WCtx.fb1, tailEnts, tailReq, tailIds]
  | some r =>
    cases r with
    | write u d cb =>
      show (c.fb0 batch ok).nonFlush (.write u d cb) = _
      simp [WCtx.fb1, tailEnts, tailReq, WReq.ents]
    | appendFile id p => rfl
    | removeChunks ids =>
      show (c.fb0 batch ok).nonFlush (.removeChunks ids) = _
      simp [WCtx.fb1, tailEnts, tailReq, tailIds, WReq.ents]

@[simp] theorem tailIds_none : tailIds none = [] := rfl
@[simp] theorem tailIds_removeChunks (ids : List Nat) : tailIds (some (.removeChunks ids)) = ids := rfl
@[simp] theorem tailIds_appendFile (n : Nat) (p : Option LogId) : tailIds (some (.appendFile n p)) = [] := rfl
@[simp] theorem tailIds_write (u : Nat) (d : Bytes) (cb : Option Nat) : tailIds (some (.write u d cb)) = [] := rfl
@[simp] theorem tailReq_none : tailReq none = .removeChunks [] := rfl
@[simp] theorem tailReq_removeChunks_eq (ids : List Nat) :
    tailReq (some (.removeChunks ids)) = .removeChunks ids := rfl
@[simp] theorem tailReq_appendFile (n : Nat) (p : Option LogId) :
    tailReq (some (.appendFile n p)) = .removeChunks [] := rfl
@[simp] theorem tailReq_write (u : Nat) (d : Bytes) (cb : Option Nat) :
    tailReq (some (.write u d cb)) = .write u d cb := rfl
@[simp] theorem tailEnts_none : tailEnts none = [] := rfl
@[simp] theorem tailEnts_some (r : WReq) : tailEnts (some r) = r.ents := rfl

@[simp] theorem tailReq_ents (t : Option WReq) : (tailReq t).ents = [] := by
  unfold tailReq; split <;> rfl

theorem tailReq_removeChunks {t : Option WReq} {ids : List Nat} (h : tailReq t = .removeChunks ids) :
    ids = tailIds t := by
  unfold tailReq at h
  split at h
  · cases h
  · simpa using h.symm

@[simp] theorem WCtx.fb0_w (c : WCtx) (b : List WReq) (ok : Bool) :
    (c.fb0 b ok).w = { c.w with lastSyncFailed := !ok } := by
  simp [WCtx.fb0, foldl_emit_wW]
@[simp] theorem WCtx.fb0_fs (c : WCtx) (b : List WReq) (ok : Bool) : (c.fb0 b ok).fs = c.fs := by
  simp [WCtx.fb0, foldl_emit_fsW]
@[simp] theorem WCtx.fb0_evs (c : WCtx) (b : List WReq) (ok : Bool) :
    (c.fb0 b ok).evs = c.evs ++ cbEvs (batchCbs b ok) := by
  simp [WCtx.fb0, foldl_emit_evs, cbEvs, batchCbs, List.map_map, Function.comp_def]
@[simp] theorem WCtx.fb0_cache (c : WCtx) (b : List WReq) (ok : Bool) : (c.fb0 b ok).cache = c.cache := by
  simp [WCtx.fb0, foldl_emit_cache]

@[simp] theorem WCtx.fb1_w (c : WCtx) (b : List WReq) (t : Option WReq) (ok : Bool) :
    (c.fb1 b t ok).w = { c.w with lastSyncFailed := !ok, files := c.w.files ++ tailEnts t } := by
  simp [WCtx.fb1]
@[simp] theorem WCtx.fb1_fs (c : WCtx) (b : List WReq) (t : Option WReq) (ok : Bool) :
    (c.fb1 b t ok).fs = c.fs := by
  simp [WCtx.fb1]
@[simp] theorem WCtx.fb1_evs (c : WCtx) (b : List WReq) (t : Option WReq) (ok : Bool) :
    (c.fb1 b t ok).evs = c.evs ++ cbEvs (batchCbs b ok) := by
  simp [WCtx.fb1]
@[simp] theorem WCtx.fb1_cache (c : WCtx) (b : List WReq) (t : Option WReq) (ok : Bool) :
    (c.fb1 b t ok).cache = c.cache := by
  simp [WCtx.fb1]

@[simp] theorem WCtx.finishBatch_fsW (c : WCtx) (b : List WReq) (t : Option WReq) (ok : Bool) :
    (c.finishBatch b t ok).fs = c.fs := by
  rw [WCtx.finishBatch_eq]; simp
@[simp] theorem WCtx.finishBatch_files (c : WCtx) (b : List WReq) (t : Option WReq) (ok : Bool) :
    (c.finishBatch b t ok).w.files = c.w.files ++ tailEnts t := by
  rw [WCtx.finishBatch_eq]; simp
@[simp] theorem WCtx.finishBatch_lsf (c : WCtx) (b : List WReq) (t : Option WReq) (ok : Bool) :
    (c.finishBatch b t ok).w.lastSyncFailed = !ok := by
  rw [WCtx.finishBatch_eq]; simp
@[simp] theorem WCtx.finishBatch_aliveW (c : WCtx) (b : List WReq) (t : Option WReq) (ok : Bool) :
    (c.finishBatch b t ok).w.senderAlive = c.w.senderAlive := by
  rw [WCtx.finishBatch_eq]; simp
@[simp] theorem WCtx.finishBatch_held (c : WCtx) (b : List WReq) (t : Option WReq) (ok : Bool) :
    (c.finishBatch b t ok).w.pc.held ++ (c.finishBatch b t ok).w.queue = c.w.queue := by
  rw [WCtx.finishBatch_eq]; simp
@[simp] theorem WCtx.finishBatch_batch (c : WCtx) (b : List WReq) (t : Option WReq) (ok : Bool) :
    (c.finishBatch b t ok).w.pc.batch ++ (c.finishBatch b t ok).w.queue = c.w.queue := by
  rw [WCtx.finishBatch_eq]; simp

theorem WCtx.finishBatch_evs (c : WCtx) (b : List WReq) (t : Option WReq) (ok : Bool) :
    ∃ rest, (c.finishBatch b t ok).evs = c.evs ++ cbEvs (batchCbs b ok) ++ rest ∧
      ∀ e ∈ rest, e.isMisc = true := by
  rw [WCtx.finishBatch_eq]
  obtain ⟨rest, h, hm⟩ := (c.fb1 b t ok).nonFlush_evs (tailReq t)
  exact ⟨rest, by simpa using h, hm⟩

/-- New with the retried removal: a finished batch parks at `unlinking` exactly when its sync
succeeded and there is something to remove (postponed ids first, then the trailing request's). -/
theorem WCtx.finishBatch_pc (c : WCtx) (b : List WReq) (t : Option WReq) (ok : Bool) :
    (c.finishBatch b t ok).w.pc.isRest ∧
    ((c.finishBatch b t ok).w.pc = .dead → (c.finishBatch b t ok).w.queue = []) ∧
    (∀ ids, (c.finishBatch b t ok).w.pc = .unlinking ids →
      ok = true ∧ (c.finishBatch b t ok).w.postponed = [] ∧ ids = c.w.postponed ++ tailIds t) := by
  rw [WCtx.finishBatch_eq]
  have := (c.fb1 b t ok).nonFlush_pc (tailReq t)
  refine ⟨this.1, this.2.1, ?_⟩
  intro ids hp
  obtain ⟨h1, h2, ids0, h3, h4⟩ := this.2.2 ids hp
  refine ⟨by simpa using h1, h2, ?_⟩
  rw [← tailReq_removeChunks h3]
  simpa using h4

theorem WCtx.finishBatch_postponed (c : WCtx) (b : List WReq) (t : Option WReq) (ok : Bool) :
    (c.finishBatch b t ok).w.postponed = c.w.postponed ∨
    (ok = false ∧ (c.finishBatch b t ok).w.postponed = c.w.postponed ++ tailIds t) ∨
    (ok = true ∧ (c.finishBatch b t ok).w.pc = .unlinking (c.w.postponed ++ tailIds t) ∧
      (c.finishBatch b t ok).w.postponed = []) := by
  rw [WCtx.finishBatch_eq]
  rcases (c.fb1 b t ok).nonFlush_postponed (tailReq t) with h | ⟨ids, hr, hl, h⟩ | ⟨ids, hr, hl, h1, h2⟩
  · exact .inl (by simpa using h)
  · rw [tailReq_removeChunks hr] at h
    exact .inr (.inl ⟨by simpa using hl, by simpa using h⟩)
  · rw [tailReq_removeChunks hr] at h1
    exact .inr (.inr ⟨by simpa using hl, by simpa using h1, h2⟩)

/-! ### `startSync`, `startWrites` -/

theorem WCtx.startSync_cases (c : WCtx) (b : List WReq) (t : Option WReq) :
    (c.w.files = [] ∧ c.startSync b t = c.finishBatch b t true) ∨
    (∃ f, c.w.files = [f] ∧ c.startSync b t =
      { c with cache := c.cache.setLastEvictable f.prevLast, w := { c.w with pc := .syncNew b t },
               evs := c.evs ++ [.boundary f.prevLast] }) ∨
    (2 ≤ c.w.files.length ∧ c.startSync b t = { c with w := { c.w with pc := .syncOld b t } }) := by
  unfold WCtx.startSync
  split
  · rename_i h; exact .inl ⟨h, rfl⟩
  · rename_i f h; exact .inr (.inl ⟨f, h, rfl⟩)
  · rename_i h1 h2
    refine .inr (.inr ⟨?_, rfl⟩)
    match hf : c.w.files with
    | [] => exact absurd hf h1
    | [f] => exact absurd hf (h2 f)
    | _ :: _ :: _ => simp

def todoOf (batch : List WReq) : List Bytes := (batch.map WReq.data).filter (fun d => !d.isEmpty)

theorem WCtx.startWrites_cases (c : WCtx) (b : List WReq) (t : Option WReq) :
    (todoOf b = [] ∧ c.startWrites b t = c.startSync b t) ∨
    (todoOf b ≠ [] ∧ c.startWrites b t = { c with w := { c.w with pc := .writing (todoOf b) b t } }) := by
  unfold WCtx.startWrites todoOf
  cases h : (b.map WReq.data).filter (fun d => !d.isEmpty) with
  | nil => exact .inl ⟨rfl, rfl⟩
  | cons x xs => exact .inr ⟨by simp, rfl⟩

theorem todoOf_length_le (b : List WReq) : (todoOf b).length ≤ b.length := by
  unfold todoOf
  exact Nat.le_trans (List.length_filter_le _ _) (by simp)

theorem todoOf_nonempty (b : List WReq) : ∀ d ∈ todoOf b, d ≠ [] := by
  intro d hd
  simp only [todoOf, List.mem_filter] at hd
  intro h
  simp [h] at hd

/-! ### `die` -/

theorem mem_insertNat (n x : Nat) (l : List Nat) : x ∈ insertNat n l ↔ x = n ∨ x ∈ l := by
  induction l with
  | nil => simp [insertNat]
  | cons m rest ih =>
    unfold insertNat
    split
    · simp
    · simp only [List.mem_cons, ih]
      constructor
      · rintro (h | h | h)
        · exact .inr (.inl h)
        · exact .inl h
        · exact .inr (.inr h)
      · rintro (h | h | h)
        · exact .inr (.inl h)
        · exact .inl h
        · exact .inr (.inr h)

theorem mem_foldl_insertNat (l acc : List Nat) (x : Nat) :
    x ∈ l.foldl (fun acc i => insertNat i acc) acc ↔ x ∈ l ∨ x ∈ acc := by
  induction l generalizing acc with
  | nil => simp
  | cons a l ih =>
    simp only [List.foldl_cons, ih, mem_insertNat, List.mem_cons]
    constructor
    · rintro (h | h | h)
      · exact .inl (.inr h)
      · exact .inl (.inl h)
      · exact .inr h
    · rintro ((h | h) | h)
      · exact .inr (.inl h)
      · exact .inl h
      · exact .inr (.inr h)

/-- The callback ids `die` reports as dropped, ascending. -/
def droppedIds (c : WCtx) (inHandW : List WReq) : List Nat :=
  ((inHandW ++ c.w.queue).filterMap WReq.cbId).foldl (fun acc i => insertNat i acc) []

theorem mem_droppedIds (c : WCtx) (inHandW : List WReq) (i : Nat) :
    i ∈ droppedIds c inHandW ↔ i ∈ (inHandW ++ c.w.queue).filterMap WReq.cbId := by
  simp [droppedIds, mem_foldl_insertNat, or_comm]

@[simp] theorem WCtx.die_w (c : WCtx) (h : List WReq) :
    (c.die h).w = { c.w with pc := .dead, queue := [] } := by
  simp [WCtx.die, foldl_emit_wW]
@[simp] theorem WCtx.die_fsW (c : WCtx) (h : List WReq) : (c.die h).fs = c.fs := by
  simp [WCtx.die, foldl_emit_fsW]
theorem WCtx.die_evs (c : WCtx) (h : List WReq) :
    (c.die h).evs = c.evs ++ ((droppedIds c h).map Ev.cbDropped ++ [.workerExit false]) := by
  simp [WCtx.die, foldl_emit_evs, droppedIds]

theorem WCtx.die_evs_misc (c : WCtx) (h : List WReq) :
    ∃ rest, (c.die h).evs = c.evs ++ rest ∧ ∀ e ∈ rest, e.isMisc = true := by
  refine ⟨_, c.die_evs h, ?_⟩
  intro e he
  simp only [List.mem_append, List.mem_map, List.mem_singleton] at he
  rcases he with ⟨i, _, rfl⟩ | rfl <;> rfl

/-! ### `collectBatch` -/

theorem collectBatch_specW (n : Nat) (q : List WReq) :
    q = (collectBatch n q).1 ++ (collectBatch n q).2.1.toList ++ (collectBatch n q).2.2 ∧
    (∀ r ∈ (collectBatch n q).1, r.isWrite = true) ∧
    (∀ r ∈ (collectBatch n q).2.1, r.isWrite = false) := by
  induction n generalizing q with
  | zero => simp [collectBatch]
  | succ n ih =>
    cases q with
    | nil => simp [collectBatch]
    | cons r q =>
      unfold collectBatch
      by_cases hr : r.isWrite = true
      · simp only [hr, if_true]
        obtain ⟨h1, h2, h3⟩ := ih q
        refine ⟨?_, ?_, h3⟩
        · simp only [List.cons_append]; rw [← h1]
        · intro r' hr'
          rcases List.mem_cons.mp hr' with rfl | h
          · exact hr
          · exact h2 _ h
      · simp only [hr]
        simp at hr
        simp [hr]

theorem isWrite_appendId {r : WReq} (h : r.isWrite = true) : r.appendId = none := by
  cases r <;> simp_all [WReq.isWrite, WReq.appendId]
theorem not_isWrite_cbId {r : WReq} (h : r.isWrite = false) : r.cbId = none := by
  cases r <;> simp_all [WReq.isWrite, WReq.cbId]
theorem isWrite_ents {r : WReq} (h : r.isWrite = true) : r.ents = [] := by
  cases r <;> simp_all [WReq.isWrite, WReq.ents]

theorem filterMap_eq_nil_of_forall {α β} (f : α → Option β) (l : List α) (h : ∀ a ∈ l, f a = none) :
    l.filterMap f = [] := by
  induction l with
  | nil => rfl
  | cons a l ih =>
    simp [h a (by simp), ih (fun x hx => h x (by simp [hx]))]

/-! ### The cases of `step` -/

def WCtx.setPc (c : WCtx) (pc : WPc) : WCtx := { c with w := { c.w with pc := pc } }
def WCtx.setQueue (c : WCtx) (q : List WReq) : WCtx := { c with w := { c.w with queue := q } }
def WCtx.setFiles (c : WCtx) (fl : List FileEnt) : WCtx := { c with w := { c.w with files := fl } }
def WCtx.wrote (c : WCtx) (fid : Nat) (bs : Bytes) : WCtx :=
  ({ c with fs := c.fs.write fid bs }).emit (.write "w" fid bs true)
def WCtx.synced (c : WCtx) (id : Nat) : WCtx :=
  ({ c with fs := c.fs.sync id }).emit (.sync "w" id true)
def WCtx.unlinked (c : WCtx) (i : Nat) : WCtx :=
  ({ c with fs := c.fs.unlink i }).emit (.unlink "w" i true)

@[simp] theorem WCtx.setPc_w (c : WCtx) (pc : WPc) : (c.setPc pc).w = { c.w with pc := pc } := rfl
@[simp] theorem WCtx.setPc_fs (c : WCtx) (pc : WPc) : (c.setPc pc).fs = c.fs := rfl
@[simp] theorem WCtx.setPc_evs (c : WCtx) (pc : WPc) : (c.setPc pc).evs = c.evs := rfl
@[simp] theorem WCtx.setPc_cache (c : WCtx) (pc : WPc) : (c.setPc pc).cache = c.cache := rfl
@[simp] theorem WCtx.setQueue_w (c : WCtx) (q : List WReq) : (c.setQueue q).w = { c.w with queue := q } := rfl
@[simp] theorem WCtx.setQueue_fs (c : WCtx) (q : List WReq) : (c.setQueue q).fs = c.fs := rfl
@[simp] theorem WCtx.setQueue_evs (c : WCtx) (q : List WReq) : (c.setQueue q).evs = c.evs := rfl
@[simp] theorem WCtx.setFiles_w (c : WCtx) (q : List FileEnt) : (c.setFiles q).w = { c.w with files := q } := rfl
@[simp] theorem WCtx.setFiles_fs (c : WCtx) (q : List FileEnt) : (c.setFiles q).fs = c.fs := rfl
@[simp] theorem WCtx.setFiles_evs (c : WCtx) (q : List FileEnt) : (c.setFiles q).evs = c.evs := rfl
@[simp] theorem WCtx.wrote_w (c : WCtx) (fid : Nat) (bs : Bytes) : (c.wrote fid bs).w = c.w := rfl
@[simp] theorem WCtx.wrote_fs (c : WCtx) (fid : Nat) (bs : Bytes) : (c.wrote fid bs).fs = c.fs.write fid bs := rfl
@[simp] theorem WCtx.wrote_evs (c : WCtx) (fid : Nat) (bs : Bytes) :
    (c.wrote fid bs).evs = c.evs ++ [.write "w" fid bs true] := rfl
@[simp] theorem WCtx.synced_w (c : WCtx) (id : Nat) : (c.synced id).w = c.w := rfl
@[simp] theorem WCtx.synced_fs (c : WCtx) (id : Nat) : (c.synced id).fs = c.fs.sync id := rfl
@[simp] theorem WCtx.synced_evs (c : WCtx) (id : Nat) : (c.synced id).evs = c.evs ++ [.sync "w" id true] := rfl
@[simp] theorem WCtx.unlinked_w (c : WCtx) (id : Nat) : (c.unlinked id).w = c.w := rfl
@[simp] theorem WCtx.unlinked_fs (c : WCtx) (id : Nat) : (c.unlinked id).fs = c.fs.unlink id := rfl
@[simp] theorem WCtx.unlinked_evs (c : WCtx) (id : Nat) :
    (c.unlinked id).evs = c.evs ++ [.unlink "w" id true] := rfl

/-- Case analysis of one worker step. Every case also says which system-call
event the step emits (`stepSys`). -/
theorem WCtx.step_elim {P : WCtx → Prop} (c : WCtx) (out : Outcome)
    (dead : c.w.pc = .dead → stepSys c out = [] → P c)
    (idle : c.w.pc = .idle → stepSys c out = [] → P c.toRecv)
    (gotW : ∀ r, c.w.pc = .got r → r.isWrite = true → stepSys c out = [] →
      P ((c.setQueue (collectBatch 1024 c.w.queue).2.2).startWrites
          (r :: (collectBatch 1024 c.w.queue).1) (collectBatch 1024 c.w.queue).2.1))
    (gotN : ∀ r, c.w.pc = .got r → r.isWrite = false → stepSys c out = [] → P (c.nonFlush r))
    (wrNil : ∀ b t, c.w.pc = .writing [] b t → stepSys c out = [] → P (c.startSync b t))
    (wrEio : ∀ d rest b t, c.w.pc = .writing (d :: rest) b t → out = .eio →
      stepSys c out = [.write "w" (newestId c.w.files) d false] →
      P ((c.emit (.write "w" (newestId c.w.files) d false)).die (b ++ t.toList)))
    (wrPart : ∀ d rest b t k, c.w.pc = .writing (d :: rest) b t → (∃ k0, out = .short k0) → 0 < k → k < d.length →
      stepSys c out = [.write "w" (newestId c.w.files) (d.take k) true] →
      P ((c.wrote (newestId c.w.files) (d.take k)).setPc (.writing (d.drop k :: rest) b t)))
    (wrLast : ∀ d b t, c.w.pc = .writing [d] b t → out ≠ .eio →
      stepSys c out = [.write "w" (newestId c.w.files) d true] →
      P ((c.wrote (newestId c.w.files) d).startSync b t))
    (wrMore : ∀ d d' rest b t, c.w.pc = .writing (d :: d' :: rest) b t → out ≠ .eio →
      stepSys c out = [.write "w" (newestId c.w.files) d true] →
      P ((c.wrote (newestId c.w.files) d).setPc (.writing (d' :: rest) b t)))
    (soNil : ∀ b t, c.w.pc = .syncOld b t → c.w.files = [] → stepSys c out = [] →
      P (c.finishBatch b t true))
    (soEio : ∀ b t f rest, c.w.pc = .syncOld b t → c.w.files = f :: rest → out = .eio →
      stepSys c out = [.sync "w" f.id false] →
      P ((c.emit (.sync "w" f.id false)).finishBatch b t false))
    (soOk : ∀ b t f rest, c.w.pc = .syncOld b t → c.w.files = f :: rest → out ≠ .eio →
      stepSys c out = [.sync "w" f.id true] →
      P (((c.setFiles rest).synced f.id).startSync b t))
    (snNil : ∀ b t, c.w.pc = .syncNew b t → c.w.files = [] → stepSys c out = [] →
      P (c.finishBatch b t true))
    (snEio : ∀ b t f rest, c.w.pc = .syncNew b t → c.w.files = f :: rest → out = .eio →
      stepSys c out = [.sync "w" f.id false] →
      P ((c.emit (.sync "w" f.id false)).finishBatch b t false))
    (snOk : ∀ b t f rest, c.w.pc = .syncNew b t → c.w.files = f :: rest → out ≠ .eio →
      stepSys c out = [.sync "w" f.id true] →
      P ((c.synced f.id).finishBatch b t true))
    (ulNil : c.w.pc = .unlinking [] → stepSys c out = [] → P c.toRecv)
    (ulEio : ∀ i rest, c.w.pc = .unlinking (i :: rest) → out = .eio →
      stepSys c out = [.unlink "w" i false] →
      P ((c.emit (.unlink "w" i false)).die []))
    (ulLast : ∀ i, c.w.pc = .unlinking [i] → out ≠ .eio →
      stepSys c out = [.unlink "w" i true] → P (c.unlinked i).toRecv)
    (ulMore : ∀ i j rest, c.w.pc = .unlinking (i :: j :: rest) → out ≠ .eio →
      stepSys c out = [.unlink "w" i true] →
      P ((c.unlinked i).setPc (.unlinking (j :: rest)))) :
    P (c.step out) := by
  unfold WCtx.step
  cases hpc : c.w.pc with
  | dead => exact dead hpc (by simp [stepSys, hpc])
  | idle => exact idle hpc (by simp [stepSys, hpc])
  | got r =>
    dsimp only
    by_cases hr : r.isWrite = true
    · rw [if_pos hr]; exact gotW r hpc hr (by simp [stepSys, hpc])
    · rw [if_neg hr]; exact gotN r hpc (by simpa using hr) (by simp [stepSys, hpc])
  | writing todo b t =>
    cases todo with
    | nil => exact wrNil b t hpc (by simp [stepSys, hpc])
    | cons d rest =>
      cases out with
      | eio => exact wrEio d rest b t hpc rfl (by simp [stepSys, hpc])
      | ok =>
        cases rest with
        | nil => exact wrLast d b t hpc (by simp) (by simp [stepSys, hpc])
        | cons d' rest => exact wrMore d d' rest b t hpc (by simp) (by simp [stepSys, hpc])
      | short k =>
        dsimp only
        by_cases hk : (if k = 0 then 1 else k) < d.length
        · rw [if_pos hk]
          exact wrPart d rest b t (if k = 0 then 1 else k) hpc ⟨k, rfl⟩ (by split <;> omega) hk
            (by simp [stepSys, hpc, hk])
        · rw [if_neg hk]
          cases rest with
          | nil => exact wrLast d b t hpc (by simp) (by simp [stepSys, hpc, hk])
          | cons d' rest => exact wrMore d d' rest b t hpc (by simp) (by simp [stepSys, hpc, hk])
  | syncOld b t =>
    dsimp only
    cases hf : c.w.files with
    | nil => exact soNil b t hpc hf (by simp [stepSys, hpc, hf])
    | cons f rest =>
      cases out with
      | eio => exact soEio b t f rest hpc hf rfl (by simp [stepSys, hpc, hf])
      | ok => exact soOk b t f rest hpc hf (by simp) (by simp [stepSys, hpc, hf])
      | short k => exact soOk b t f rest hpc hf (by simp) (by simp [stepSys, hpc, hf])
  | syncNew b t =>
    dsimp only
    cases hf : c.w.files with
    | nil => exact snNil b t hpc hf (by simp [stepSys, hpc, hf])
    | cons f rest =>
      cases out with
      | eio => exact snEio b t f rest hpc hf rfl (by simp [stepSys, hpc, hf])
      | ok => exact snOk b t f rest hpc hf (by simp) (by simp [stepSys, hpc, hf])
      | short k => exact snOk b t f rest hpc hf (by simp) (by simp [stepSys, hpc, hf])
  | unlinking ids =>
    cases ids with
    | nil => exact ulNil hpc (by simp [stepSys, hpc])
    | cons i rest =>
      cases out with
      | eio => exact ulEio i rest hpc rfl (by simp [stepSys, hpc])
      | ok =>
        cases rest with
        | nil => exact ulLast i hpc (by simp) (by simp [stepSys, hpc])
        | cons j rest => exact ulMore i j rest hpc (by simp) (by simp [stepSys, hpc])
      | short k =>
        cases rest with
        | nil => exact ulLast i hpc (by simp) (by simp [stepSys, hpc])
        | cons j rest => exact ulMore i j rest hpc (by simp) (by simp [stepSys, hpc])

end RaftLog
