/-
C09 at the system level, helpers (task C9S).

Part A: a linked middle chunk file is removed from the directory of a clean
system: `open` loads the chunks before it, then refuses with `gap`.
-/
import RaftLogModel.Props.C02
import RaftLogModel.Props.C09
import RaftLogModel.Proofs.C09SysCodec
namespace RaftLog

/-! ## Part A: a missing middle chunk -/

/-- The file `m` is removed from the directory: what the Driver's `fsop rm m` does
(`fs.filter (fun f => f.id != m)`). -/
def Fs.rmC9S (fs : Fs) (m : Nat) : Fs := List.filter (fun f => f.id != m) fs

theorem Fs.find_rmC9S (fs : Fs) {m id : Nat} (h : id ≠ m) : (fs.rmC9S m).find id = fs.find id := by
  unfold Fs.rmC9S Fs.find
  induction fs with
  | nil => rfl
  | cons f rest ih =>
    by_cases hf : f.id = m
    · have h1 : (f.id != m) = false := by simp [hf]
      have h2 : (f.id == id) = false := by
        simp only [beq_eq_false_iff_ne, ne_eq, hf]
        exact fun e => h e.symm
      rw [List.filter_cons, h1, List.find?_cons, h2]
      exact ih
    · have h1 : (f.id != m) = true := by simp [hf]
      rw [List.filter_cons, h1]
      simp only [if_true, List.find?_cons]
      cases f.id == id with
      | true => rfl
      | false => exact ih

theorem Fs.find_rm_selfC9S (fs : Fs) (m : Nat) : (fs.rmC9S m).find m = none := by
  unfold Fs.rmC9S Fs.find
  rw [List.find?_eq_none]
  intro f hf
  have := (List.mem_filter.mp hf).2
  simpa using this

theorem Fs.has_rmC9S (fs : Fs) (m id : Nat) :
    (fs.rmC9S m).has id = (id != m && fs.has id) := by
  by_cases h : id = m
  · subst h
    simp [Fs.has, Fs.find_rm_selfC9S]
  · have : (id != m) = true := by simp [h]
    rw [this, Bool.true_and]
    unfold Fs.has
    rw [Fs.find_rmC9S fs h]

theorem Fs.ids_rm_nodupC9S {fs : Fs} (hn : (Fs.ids fs).Nodup) (m : Nat) :
    (Fs.ids (fs.rmC9S m)).Nodup :=
  hn.sublist (List.Sublist.map _ List.filter_sublist)

/-- Removing a linked file removes its id from the sorted id list. -/
theorem Fs.linkedIds_rmC9S {fs : Fs} (hn : (Fs.ids fs).Nodup) {pre post : List Nat} {m : Nat}
    (hsplit : fs.linkedIds = pre ++ m :: post) : (fs.rmC9S m).linkedIds = pre ++ post := by
  obtain ⟨k1, k2⟩ := Fs.linkedIds_spec hn
  obtain ⟨j1, j2⟩ := Fs.linkedIds_spec (Fs.ids_rm_nodupC9S hn m)
  rw [hsplit] at k1 k2
  have hs2 : (pre ++ post).Pairwise (· < ·) := by
    rw [List.pairwise_append] at k1 ⊢
    refine ⟨k1.1, (List.pairwise_cons.mp k1.2.1).2, fun a ha b hb => k1.2.2 a ha b (List.mem_cons_of_mem _ hb)⟩
  have hm : m ∉ pre ++ post := by
    intro hmem
    rw [List.pairwise_append] at k1
    rcases List.mem_append.mp hmem with h | h
    · have := k1.2.2 m h m List.mem_cons_self; omega
    · have := (List.pairwise_cons.mp k1.2.1).1 m h; omega
  apply sorted_ext (fun x : Nat => x) _ _ j1 hs2
  intro x
  rw [j2, Fs.has_rmC9S, Bool.and_eq_true, ← k2]
  simp only [bne_iff_ne, ne_eq, List.mem_append, List.mem_cons]
  constructor
  · rintro ⟨h1, h2 | h2 | h2⟩
    · exact Or.inl h2
    · exact absurd h2 h1
    · exact Or.inr h2
  · intro h
    refine ⟨?_, ?_⟩
    · intro e; subst e; exact hm (List.mem_append.mpr h)
    · rcases h with h | h
      · exact Or.inl h
      · exact Or.inr (Or.inr h)

/-- A prefix of a replayable chunk list is replayable. -/
theorem RepC.prefixC9S : ∀ (j1 j2 : List (Closed × List Record)) (st : RState) (l : Log)
    (st' : RState) (l' : Log), RepC (j1 ++ j2) st l st' l' → ∃ st1 l1, RepC j1 st l st1 l1 := by
  intro j1
  induction j1 with
  | nil => intro _ st l _ _ _; exact ⟨st, l, rfl, rfl⟩
  | cons p rest ih =>
    intro j2 st l st' l' h
    obtain ⟨c, rs⟩ := p
    obtain ⟨sta, la, g1, g2, g3, g4, g5, g6⟩ := h
    obtain ⟨st1, l1, hr⟩ := ih j2 sta la st' l' g6
    refine ⟨st1, l1, sta, la, g1, g2, g3, g4, ?_, hr⟩
    cases rest with
    | nil => trivial
    | cons q rest' => exact g5

theorem Chained.prefixC9S : ∀ (P L : List (List Nat)), Chained (P ++ L) → Chained P := by
  intro P
  induction P with
  | nil => intro _ _; trivial
  | cons x P ih =>
    intro L h
    cases P with
    | nil => trivial
    | cons y P' =>
      simp only [List.cons_append, Chained] at h ⊢
      exact ⟨h.1, ih L h.2⟩

theorem fdata_sync1C9S (fs : Fs) (id i : Nat) : fdata (Fs.sync fs id) i = fdata fs i :=
  fdata_syncAll fs [id] i

/-- After loading a non-empty list of undamaged chunks, the recorded end of the previous
chunk is the end of the last file loaded. -/
theorem Loads.prevEndC9S {cfg : Cfg} {ids : List Nat} {a a' : OpenAcc} (h : Loads cfg ids a a') :
    ∀ id, ids.getLast? = some id → a'.prevEnd = some (id + (fdata a.fs id).length) := by
  induction h with
  | nil a => intro id hid; cases hid
  | @cons id rest a a' f rs sm2 hg hf hd hwf hne hr hl ih =>
    intro id' hid
    cases rest with
    | nil =>
      cases hl
      simp only [List.getLast?_singleton, Option.some.injEq] at hid
      subst hid
      rw [OpenAcc.loaded_prevEnd]
      have : fdata a.fs id = encAll rs := by unfold fdata; rw [hf]; exact hd
      rw [this]
    | cons x rest' =>
      rw [List.getLast?_cons_cons] at hid
      rw [ih id' hid]
      have : (a.loaded id rs sm2).fs = a.fs.sync id := rfl
      rw [this, fdata_sync1C9S]

/-- The core of Part A in terms of the record lists of the chunks: the directory `fs0`
holds the files of the chunks `j1` (non-empty) undamaged, its linked ids are those of `j1`
followed by those of `q :: j2`, where in the original chain the non-empty chunk `pm` sat
between `j1` and `q`. -/
theorem openStore_gap_of_chunksC9S (cfg : Cfg) (fs0 : Fs) (j1 : List (Closed × List Record))
    (pm q : Closed × List Record) (j2 : List (Closed × List Record)) (st' : RState) (l' : Log)
    (hrep : RepC (j1 ++ pm :: q :: j2) {} [] st' l')
    (hfiles : ∀ p ∈ j1, ∃ f, fs0.find p.1.id = some f ∧ f.data = encAll p.2 ∧ AllWF p.2 ∧
      p.2 ≠ [] ∧ offsetsFrom p.1.id (sizes p.2) = p.1.offsets)
    (hch : Chained ((j1 ++ pm :: q :: j2).map (·.1.offsets)))
    (hpm : pm.1.id < lastOff pm.1.offsets) (hj1 : j1 ≠ [])
    (hids : fs0.linkedIds = j1.map (·.1.id) ++ q.1.id :: j2.map (·.1.id)) :
    openStore cfg fs0 = (.err .gap, fs0.syncAll (j1.map (·.1.id)), syncEvs (j1.map (·.1.id))) := by
  obtain ⟨st1, l1, hr1⟩ := RepC.prefixC9S j1 _ _ _ _ _ hrep
  have hch1 : Chained (j1.map (·.1.offsets)) := by
    rw [List.map_append] at hch
    exact Chained.prefixC9S _ _ hch
  obtain ⟨a', m1, _⟩ := loads_repC cfg j1 { sm := emptyStore cfg, fs := fs0 } st1 l1 hr1 hfiles hch1
    (fun p _ => rfl)
  -- the last chunk of `j1`
  obtain ⟨j1', pl, rfl⟩ : ∃ j1' pl, j1 = j1' ++ [pl] := by
    rcases List.eq_nil_or_concat j1 with h | ⟨L, b, h⟩
    · exact absurd h hj1
    · exact ⟨L, b, by rw [h]; simp⟩
  have hlast : ((j1' ++ [pl]).map (·.1.id)).getLast? = some pl.1.id := by simp
  have hprev := m1.prevEndC9S pl.1.id hlast
  obtain ⟨f, hf, hd, _, _, hoffs⟩ := hfiles pl (by simp)
  have hfd : fdata fs0 pl.1.id = encAll pl.2 := by unfold fdata; rw [hf]; exact hd
  simp only [hfd] at hprev
  have hch2 : Chained (pl.1.offsets :: pm.1.offsets :: q.1.offsets :: j2.map (·.1.offsets)) := by
    have : (j1' ++ [pl] ++ pm :: q :: j2).map (·.1.offsets)
        = j1'.map (·.1.offsets) ++ (pl.1.offsets :: pm.1.offsets :: q.1.offsets :: j2.map (·.1.offsets)) := by
      simp
    rw [this] at hch
    exact hch.drop_prefix
  have e1 : lastOff pl.1.offsets = pm.1.id := hch2.1
  have e2 : lastOff pm.1.offsets = q.1.id := hch2.2.1
  have hend : pl.1.id + (encAll pl.2).length = pm.1.id := by
    rw [← lastOff_sized, hoffs, e1]
  rw [hend] at hprev
  exact c09_open_gap cfg fs0 _ q.1.id _ a' pm.1.id hids m1 hprev (by omega)

/-- **Part A, invariant form.** A quiescent, flushed store whose linked files are exactly
its live chunks; the middle chunk file `m` is removed. -/
theorem openStore_rm_middleC9S (cfg : Cfg) {s : Store} {fs : Fs} {w : Worker} {r : RefLog}
    (h : RInv s fs w r) (hn : (Fs.ids fs).Nodup) (hinf : ∀ id, w.inflight id = [])
    (hp : s.pending = []) (hlinked : fs.linkedIds = s.chunkIds)
    {pre post : List Nat} {m : Nat} (hsplit : fs.linkedIds = pre ++ m :: post)
    (hpre : pre ≠ []) (hpost : post ≠ []) :
    openStore cfg (fs.rmC9S m) = (.err .gap, (fs.rmC9S m).syncAll pre, syncEvs pre) := by
  obtain ⟨jc, jo, _, _, _, hall, hfiles, hmapoffs, hmapids, _⟩ := h.load_data hinf hp
  generalize hjl : jc ++ [((⟨s.openOffsets, s.st⟩ : Closed), jo)] = jl at hall hfiles hmapoffs hmapids
  rw [← hlinked, hsplit] at hmapids
  obtain ⟨j1, jr, rfl, hm1, hm2⟩ := List.map_eq_append_iff.mp hmapids
  obtain ⟨pm, jr', rfl, hm3, hm4⟩ := List.map_eq_cons_iff.mp hm2
  cases jr' with
  | nil => simp only [List.map_nil] at hm4; exact absurd hm4.symm hpost
  | cons q j2 =>
    simp only [List.map_cons] at hm4
    have hj1 : j1 ≠ [] := by
      intro e; subst e; simp only [List.map_nil] at hm1; exact hpre hm1.symm
    have hsorted := (Fs.linkedIds_spec hn).1
    rw [hsplit, List.pairwise_append] at hsorted
    have hids := Fs.linkedIds_rmC9S hn hsplit
    subst hm1 hm3
    rw [← hm4] at hids
    have hpmlt : pm.1.id < lastOff pm.1.offsets := by
      obtain ⟨_, _, _, _, hne, hoffs⟩ := hfiles pm (by simp)
      rw [← hoffs, lastOff_sized]
      have := encAll_length_pos hne
      omega
    refine openStore_gap_of_chunksC9S cfg (fs.rmC9S pm.1.id) j1 pm q j2 s.st s.log hall ?_
      (by rw [hmapoffs]; exact h.j.chained) hpmlt hj1 hids
    intro p hp1
    obtain ⟨f, k1, k2⟩ := hfiles p (by simp [hp1])
    have hne : p.1.id ≠ pm.1.id := by
      have := hsorted.2.2 p.1.id (List.mem_map.mpr ⟨p, hp1, rfl⟩) pm.1.id List.mem_cons_self
      omega
    exact ⟨f, by rw [Fs.find_rmC9S fs hne]; exact k1, k2⟩

/-- **Part A for a clean system satisfying the C02 invariant.** -/
theorem sys_rm_middleC9S {y : Sys} {r : RefLog} (h : CSys y r) (hc : y.Clean) (cfg' : Cfg)
    {pre post : List Nat} {m : Nat} (hsplit : y.fs.linkedIds = pre ++ m :: post)
    (hpre : pre ≠ []) (hpost : post ≠ []) :
    openStore cfg' (y.fs.rmC9S m) = (.err .gap, (y.fs.rmC9S m).syncAll pre, syncEvs pre) := by
  obtain ⟨s, hs, hq, hp, hrem, hpostp⟩ := hc
  obtain ⟨⟨s0, hs0, hd, hinv⟩, ⟨s1, hs1, hli⟩⟩ := h
  rw [hs] at hs0 hs1; cases hs0; cases hs1
  obtain ⟨hpc, hqe⟩ := quiet_alive hq hd
  have hinf := inflight_quiet hpc hqe
  have htr : y.worker.toRemove = [] := by rw [toRemove_quiet hpc hqe]; exact hpostp
  have hlinked := hli.linkedIds_eq hinv.j hrem htr
  exact openStore_rm_middleC9S cfg' hinv hli.nodup hinf hp hlinked hsplit hpre hpost


/-! ## Part B: one value byte of a complete record is altered -/

/-- One byte of file `c` is overwritten: what the Driver's `fsop set c pos val` does. -/
def Fs.setByteC9S (fs : Fs) (c pos : Nat) (val : UInt8) : Fs :=
  fs.update c fun f => if pos < f.data.length then { f with data := f.data.set pos val } else f

theorem setByte_idC9S (pos : Nat) (val : UInt8) (f : File) :
    (if pos < f.data.length then ({ f with data := f.data.set pos val } : File) else f).id = f.id := by
  split <;> rfl

theorem setByte_linkedC9S (pos : Nat) (val : UInt8) (f : File) :
    (if pos < f.data.length then ({ f with data := f.data.set pos val } : File) else f).linked
      = f.linked := by
  split <;> rfl

theorem Fs.find_setByte_otherC9S (fs : Fs) {c id : Nat} (h : id ≠ c) (pos : Nat) (val : UInt8) :
    (fs.setByteC9S c pos val).find id = fs.find id := by
  unfold Fs.setByteC9S
  rw [Fs.find_updateP _ _ _ _ (setByte_idC9S pos val)]
  cases hf : fs.find id with
  | none => rfl
  | some f =>
    have hid := find_id hf
    have : (f.id == c) = false := by simp [hid, h]
    simp only [Option.map_some, this, Bool.false_eq_true, if_false]

theorem Fs.find_setByte_selfC9S (fs : Fs) {c : Nat} {f : File} (hf : fs.find c = some f) (pos : Nat)
    (val : UInt8) (hpos : pos < f.data.length) :
    (fs.setByteC9S c pos val).find c = some { f with data := f.data.set pos val } := by
  unfold Fs.setByteC9S
  rw [Fs.find_updateP _ _ _ _ (setByte_idC9S pos val), hf]
  have hid := find_id hf
  have : (f.id == c) = true := by simp [hid]
  simp only [Option.map_some, this, if_true, if_pos hpos]

theorem Fs.linkedIds_setByteC9S (fs : Fs) (c pos : Nat) (val : UInt8) :
    (fs.setByteC9S c pos val).linkedIds = fs.linkedIds :=
  Fs.linkedIds_update fs c _ (setByte_idC9S pos val) (setByte_linkedC9S pos val)

/-- The core of Part B in terms of the record lists of the chunks: the chunks `j1` before
`pc` are undamaged in `fs0`, and `Chunk::open` fails on the file of `pc` with error `k`. -/
theorem openStore_err_of_chunksC9S (cfg : Cfg) (fs0 : Fs) (j1 : List (Closed × List Record))
    (pc : Closed × List Record) (j2 : List (Closed × List Record)) (st' : RState) (l' : Log)
    (hrep : RepC (j1 ++ pc :: j2) {} [] st' l')
    (hfiles : ∀ p ∈ j1, ∃ f, fs0.find p.1.id = some f ∧ f.data = encAll p.2 ∧ AllWF p.2 ∧
      p.2 ≠ [] ∧ offsetsFrom p.1.id (sizes p.2) = p.1.offsets)
    (hch : Chained ((j1 ++ pc :: j2).map (·.1.offsets)))
    (hids : fs0.linkedIds = j1.map (·.1.id) ++ pc.1.id :: j2.map (·.1.id))
    (f' : File) (hf' : fs0.find pc.1.id = some f') (k : ErrKind)
    (hoc : openChunk cfg pc.1.id f'.data = .error k) :
    openStore cfg fs0 = (.err k, fs0.syncAll (j1.map (·.1.id)), syncEvs (j1.map (·.1.id))) := by
  obtain ⟨st1, l1, hr1⟩ := RepC.prefixC9S j1 _ _ _ _ _ hrep
  have hch1 : Chained (j1.map (·.1.offsets)) := by
    rw [List.map_append] at hch
    exact Chained.prefixC9S _ _ hch
  obtain ⟨a', m1, _⟩ := loads_repC cfg j1 { sm := emptyStore cfg, fs := fs0 } st1 l1 hr1 hfiles hch1
    (fun p _ => rfl)
  obtain ⟨hfs', hevs'⟩ := m1.fs_evs
  have hgap : gapCheck a' pc.1.id = false := by
    rcases List.eq_nil_or_concat j1 with h | ⟨j1', pl, h⟩
    · subst h
      cases m1
      rfl
    · have h' : j1 = j1' ++ [pl] := by rw [h]; simp
      subst h'
      have hlast : ((j1' ++ [pl]).map (·.1.id)).getLast? = some pl.1.id := by simp
      have hprev := m1.prevEndC9S pl.1.id hlast
      obtain ⟨f, hf, hd, _, _, hoffs⟩ := hfiles pl (by simp)
      have hfd : fdata fs0 pl.1.id = encAll pl.2 := by unfold fdata; rw [hf]; exact hd
      simp only [hfd] at hprev
      have hch2 : Chained (pl.1.offsets :: pc.1.offsets :: j2.map (·.1.offsets)) := by
        have : (j1' ++ [pl] ++ pc :: j2).map (·.1.offsets)
            = j1'.map (·.1.offsets) ++ (pl.1.offsets :: pc.1.offsets :: j2.map (·.1.offsets)) := by
          simp
        rw [this] at hch
        exact hch.drop_prefix
      have e1 : lastOff pl.1.offsets = pc.1.id := hch2.1
      have hend : pl.1.id + (encAll pl.2).length = pc.1.id := by
        rw [← lastOff_sized, hoffs, e1]
      rw [hend] at hprev
      simp [gapCheck, hprev]
  obtain ⟨f'', hf'', hd'', _⟩ := Fs.find_syncAll_some (j1.map (·.1.id)) hf'
  rw [← hfs'] at hf''
  have hstep : openLoop cfg (pc.1.id :: j2.map (·.1.id)) a' = (.err k, a'.pre) := by
    rw [openLoop_nogap cfg _ _ a' hgap]
    simp only [hf'', hd'', hoc]
  unfold openStore
  simp only [hids, m1.openLoop_append, hstep]
  simp only [OpenAcc.pre, hfs', hevs', List.nil_append]

/-- **Part B, invariant form.** A quiescent, flushed store whose linked files are exactly its
live chunks. The linked chunk file `c` holds `encAll rs0 ++ encRecord r ++ rest`; one value
byte of `r`'s frame is overwritten with a different value. -/
theorem openStore_value_byteC9S (cfg : Cfg) {s : Store} {fs : Fs} {w : Worker} {rl : RefLog}
    (h : RInv s fs w rl) (hn : (Fs.ids fs).Nodup) (hinf : ∀ id, w.inflight id = [])
    (hp : s.pending = []) (hlinked : fs.linkedIds = s.chunkIds)
    {pre post : List Nat} {c : Nat} (hsplit : fs.linkedIds = pre ++ c :: post)
    {f : File} (hf : fs.find c = some f) {rs0 : List Record} (h0 : AllWF rs0) (r : Record)
    (hr : r.WF) (rest : Bytes) (hdata : f.data = encAll rs0 ++ (encRecord r ++ rest))
    (i : Nat) (y : UInt8) (hpos : ValuePos r i) (hy : (encRecord r).getD i 0 ≠ y) :
    openStore cfg (fs.setByteC9S c ((encAll rs0).length + i) y)
      = (.err .invalid, (fs.setByteC9S c ((encAll rs0).length + i) y).syncAll pre, syncEvs pre) := by
  obtain ⟨jc, jo, _, _, _, hall, hfiles, hmapoffs, hmapids, _⟩ := h.load_data hinf hp
  generalize hjl : jc ++ [((⟨s.openOffsets, s.st⟩ : Closed), jo)] = jl at hall hfiles hmapoffs hmapids
  rw [← hlinked, hsplit] at hmapids
  obtain ⟨j1, jr, rfl, hm1, hm2⟩ := List.map_eq_append_iff.mp hmapids
  obtain ⟨pc, j2, rfl, hm3, hm4⟩ := List.map_eq_cons_iff.mp hm2
  have hsorted := (Fs.linkedIds_spec hn).1
  rw [hsplit, List.pairwise_append] at hsorted
  have hids := Fs.linkedIds_setByteC9S fs c ((encAll rs0).length + i) y
  rw [hsplit] at hids
  subst hm1 hm3 hm4
  have hposlt : (encAll rs0).length + i < f.data.length := by
    have := hpos.ltC9S
    rw [hdata]; simp only [List.length_append]; omega
  have hfind := Fs.find_setByte_selfC9S fs hf ((encAll rs0).length + i) y hposlt
  refine openStore_err_of_chunksC9S cfg _ j1 pc j2 s.st s.log hall ?_
    (by rw [hmapoffs]; exact h.j.chained) hids _ hfind .invalid ?_
  · intro p hp1
    obtain ⟨f0, k1, k2⟩ := hfiles p (by simp [hp1])
    have hne : p.1.id ≠ pc.1.id := by
      have := hsorted.2.2 p.1.id (List.mem_map.mpr ⟨p, hp1, rfl⟩) pc.1.id List.mem_cons_self
      omega
    exact ⟨f0, by rw [Fs.find_setByte_otherC9S fs hne]; exact k1, k2⟩
  · simp only [hdata]
    exact (openChunk_value_byteC9S cfg pc.1.id h0 r hr rest i y hpos hy).2.2.2

/-- The record list of a linked chunk file of a clean system. -/
theorem sys_chunk_recordsC9S {y : Sys} {rl : RefLog} (h : CSys y rl) (hc : y.Clean) {c : Nat}
    (hcm : c ∈ y.fs.linkedIds) :
    ∃ f rs, y.fs.find c = some f ∧ f.linked = true ∧ f.data = encAll rs ∧ AllWF rs ∧ rs ≠ [] ∧
      (parseChunk f.data).1.map (·.1) = rs := by
  obtain ⟨s, hs, hq, hp, hrem, hpostp⟩ := hc
  obtain ⟨⟨s0, hs0, hd, hinv⟩, ⟨s1, hs1, hli⟩⟩ := h
  rw [hs] at hs0 hs1; cases hs0; cases hs1
  obtain ⟨hpc, hqe⟩ := quiet_alive hq hd
  have hinf := inflight_quiet hpc hqe
  have htr : y.worker.toRemove = [] := by rw [toRemove_quiet hpc hqe]; exact hpostp
  have hlinked := hli.linkedIds_eq hinv.j hrem htr
  obtain ⟨jc, jo, _, _, _, _, hfiles, _, hmapids, _⟩ := hinv.load_data hinf hp
  rw [← hlinked] at hmapids
  rw [← hmapids] at hcm
  obtain ⟨p, hp1, hp2⟩ := List.mem_map.mp hcm
  obtain ⟨f, k1, k2, k3, k4, _⟩ := hfiles p hp1
  rw [hp2] at k1
  have hhas := ((Fs.linkedIds_spec hli.nodup).2 c).mp (by rw [← hmapids]; exact hcm)
  unfold Fs.has at hhas
  rw [k1] at hhas
  refine ⟨f, p.2, k1, hhas, k2, k3, k4, ?_⟩
  rw [k2, parse_encAll' k3, sized_map_fst]

/-- **Part B for a clean system satisfying the C02 invariant.** -/
theorem sys_value_byteC9S {y : Sys} {rl : RefLog} (h : CSys y rl) (hc : y.Clean) (cfg' : Cfg)
    {pre post : List Nat} {c : Nat} (hsplit : y.fs.linkedIds = pre ++ c :: post)
    {f : File} (hf : y.fs.find c = some f) {rs0 : List Record} (h0 : AllWF rs0) (r : Record)
    (hr : r.WF) (rest : Bytes) (hdata : f.data = encAll rs0 ++ (encRecord r ++ rest))
    (i : Nat) (v : UInt8) (hpos : ValuePos r i) (hv : (encRecord r).getD i 0 ≠ v) :
    openStore cfg' (y.fs.setByteC9S c ((encAll rs0).length + i) v)
      = (.err .invalid, (y.fs.setByteC9S c ((encAll rs0).length + i) v).syncAll pre, syncEvs pre) := by
  obtain ⟨s, hs, hq, hp, hrem, hpostp⟩ := hc
  obtain ⟨⟨s0, hs0, hd, hinv⟩, ⟨s1, hs1, hli⟩⟩ := h
  rw [hs] at hs0 hs1; cases hs0; cases hs1
  obtain ⟨hpc, hqe⟩ := quiet_alive hq hd
  have hinf := inflight_quiet hpc hqe
  have htr : y.worker.toRemove = [] := by rw [toRemove_quiet hpc hqe]; exact hpostp
  have hlinked := hli.linkedIds_eq hinv.j hrem htr
  exact openStore_value_byteC9S cfg' hinv hli.nodup hinf hp hlinked hsplit hf h0 r hr rest hdata i v
    hpos hv

end RaftLog
