/-
C11 / C02 / C03 groundwork: the byte-level journal invariant. For every chunk
of the live store, the bytes already in its file, followed by the bytes still
on their way inside the flush worker, followed (for the open chunk) by the
pending buffer, are the concatenated encodings of a well-formed record list
that starts with a `State` record and whose sizes give exactly the chunk's
offsets. Property statements: `Props/C11Journal.lean`.
-/
import RaftLogModel.Proofs.Refine
import RaftLogModel.Proofs.EncAll
namespace RaftLog

/-! ### Records, sizes, offsets -/

def recSizes (rs : List Record) : List Nat := rs.map (fun r => (encRecord r).length)

def sumNat : List Nat → Nat
  | [] => 0
  | x :: xs => x + sumNat xs

@[simp] theorem encAll_nil : encAll [] = [] := rfl
@[simp] theorem encAll_cons (r : Record) (rs : List Record) :
    encAll (r :: rs) = encRecord r ++ encAll rs := rfl

theorem encAll_append (a b : List Record) : encAll (a ++ b) = encAll a ++ encAll b := by
  induction a with
  | nil => rfl
  | cons r rs ih => simp [ih]

theorem encAll_length (rs : List Record) : (encAll rs).length = sumNat (recSizes rs) := by
  induction rs with
  | nil => rfl
  | cons r rs ih => simp [recSizes, sumNat] at ih ⊢; omega

theorem sumNat_append (a b : List Nat) : sumNat (a ++ b) = sumNat a + sumNat b := by
  induction a with
  | nil => simp [sumNat]
  | cons x xs ih => simp [sumNat, ih]; omega

@[simp] theorem offsetsFrom_headD (start : Nat) (sz : List Nat) : (offsetsFrom start sz).headD 0 = start := by
  cases sz <;> rfl

theorem offsetsFrom_ne_nil (start : Nat) (sz : List Nat) : offsetsFrom start sz ≠ [] := by
  cases sz <;> simp [offsetsFrom]

@[simp] theorem offsetsFrom_length (start : Nat) (sz : List Nat) :
    (offsetsFrom start sz).length = sz.length + 1 := by
  induction sz generalizing start with
  | nil => rfl
  | cons x xs ih => simp [offsetsFrom, ih]

theorem lastOff_cons_of_ne_nil (x : Nat) {l : List Nat} (h : l ≠ []) : lastOff (x :: l) = lastOff l := by
  cases l with
  | nil => exact absurd rfl h
  | cons y ys => simp [lastOff, List.getLastD]

theorem lastOff_offsetsFrom (start : Nat) (sz : List Nat) :
    lastOff (offsetsFrom start sz) = start + sumNat sz := by
  induction sz generalizing start with
  | nil => simp [offsetsFrom, lastOff, sumNat]
  | cons x xs ih =>
    simp only [offsetsFrom, sumNat]
    rw [lastOff_cons_of_ne_nil _ (offsetsFrom_ne_nil _ _), ih]
    omega

theorem offsetsFrom_snoc (start : Nat) (sz : List Nat) (x : Nat) :
    offsetsFrom start (sz ++ [x]) = offsetsFrom start sz ++ [lastOff (offsetsFrom start sz) + x] := by
  induction sz generalizing start with
  | nil => simp [offsetsFrom, lastOff]
  | cons y ys ih =>
    simp only [List.cons_append, offsetsFrom]
    rw [ih, lastOff_cons_of_ne_nil _ (offsetsFrom_ne_nil _ _)]

/-- Strictly increasing. -/
def Incr (l : List Nat) : Prop := l.Pairwise (· < ·)

theorem offsetsFrom_lower (start : Nat) (sz : List Nat) : ∀ o ∈ offsetsFrom start sz, start ≤ o := by
  induction sz generalizing start with
  | nil => intro o ho; simp [offsetsFrom] at ho; omega
  | cons x xs ih =>
    intro o ho
    simp only [offsetsFrom, List.mem_cons] at ho
    rcases ho with h | h
    · omega
    · have := ih _ o h; omega

theorem offsetsFrom_incr (start : Nat) (sz : List Nat) (h : ∀ x ∈ sz, 0 < x) :
    Incr (offsetsFrom start sz) := by
  induction sz generalizing start with
  | nil => simp [offsetsFrom, Incr]
  | cons x xs ih =>
    simp only [offsetsFrom, Incr, List.pairwise_cons]
    refine ⟨?_, ih _ (fun y hy => h y (List.mem_cons_of_mem _ hy))⟩
    intro o ho
    have := offsetsFrom_lower _ _ o ho
    have := h x List.mem_cons_self
    omega

theorem recSizes_pos (rs : List Record) : ∀ x ∈ recSizes rs, 0 < x := by
  intro x hx
  simp only [recSizes, List.mem_map] at hx
  obtain ⟨r, _, rfl⟩ := hx
  exact encRecord_length_pos r

/-! ### What a chunk's bytes must look like -/

/-- `bytes` are the encodings of well-formed records, the first a `State`
record, whose sizes generate exactly `offs` from the chunk id `offs.head`. -/
def ChunkOK (offs : List Nat) (bytes : Bytes) : Prop :=
  ∃ rs : List Record, AllWF rs ∧ (∃ st rest, rs = .state st :: rest) ∧
    offsetsFrom (offs.headD 0) (recSizes rs) = offs ∧ bytes = encAll rs

theorem ChunkOK.length {offs : List Nat} {b : Bytes} (h : ChunkOK offs b) : 2 ≤ offs.length := by
  obtain ⟨rs, _, ⟨st, rest, rfl⟩, ho, _⟩ := h
  rw [← ho]; simp [recSizes]

theorem ChunkOK.incr {offs : List Nat} {b : Bytes} (h : ChunkOK offs b) : Incr offs := by
  obtain ⟨rs, _, _, ho, _⟩ := h
  rw [← ho]; exact offsetsFrom_incr _ _ (recSizes_pos rs)

theorem ChunkOK.lastOff_eq {offs : List Nat} {b : Bytes} (h : ChunkOK offs b) :
    lastOff offs = offs.headD 0 + b.length := by
  obtain ⟨rs, _, _, ho, hb⟩ := h
  rw [hb, encAll_length, ← lastOff_offsetsFrom, ho]

theorem ChunkOK.head_lt {offs : List Nat} {b : Bytes} (h : ChunkOK offs b) :
    offs.headD 0 < lastOff offs := by
  have h1 := h.lastOff_eq
  obtain ⟨rs, _, ⟨st, rest, rfl⟩, _, hb⟩ := h
  have := encRecord_length_pos (.state st)
  rw [hb] at h1
  simp only [encAll_cons, List.length_append] at h1
  omega

theorem ChunkOK.ne_nil {offs : List Nat} {b : Bytes} (h : ChunkOK offs b) : offs ≠ [] := by
  have := h.length
  intro h0; subst h0; simp at this

theorem headD_append_of_ne_nil {l : List Nat} (h : l ≠ []) (x : List Nat) :
    (l ++ x).headD 0 = l.headD 0 := by
  cases l with
  | nil => exact absurd rfl h
  | cons a as => rfl

/-- Journalling one more well-formed record. -/
theorem ChunkOK.snoc {offs : List Nat} {b : Bytes} (h : ChunkOK offs b) {r : Record} (hr : r.WF) :
    ChunkOK (offs ++ [lastOff offs + (encRecord r).length]) (b ++ encRecord r) := by
  have hne := h.ne_nil
  obtain ⟨rs, hwf, ⟨st, rest, hrs⟩, ho, hb⟩ := h
  refine ⟨rs ++ [r], ?_, ⟨st, rest ++ [r], by rw [hrs]; rfl⟩, ?_, ?_⟩
  · intro x hx
    rcases List.mem_append.mp hx with h1 | h1
    · exact hwf x h1
    · simp at h1; subst h1; exact hr
  · rw [headD_append_of_ne_nil hne]
    simp only [recSizes, List.map_append, List.map_cons, List.map_nil]
    rw [offsetsFrom_snoc]
    simp only [recSizes] at ho
    rw [ho]
  · rw [encAll_append, hb]; simp

/-- A chunk that holds only its head record. -/
theorem ChunkOK.fresh (id : Nat) {st : RState} (h : st.WF) :
    ChunkOK [id, id + (encRecord (.state st)).length] (encRecord (.state st)) := by
  refine ⟨[.state st], ?_, ⟨st, [], rfl⟩, ?_, by simp⟩
  · intro x hx; simp at hx; subst hx; exact h
  · simp [recSizes, offsetsFrom]

/-! ### File data by chunk id -/

/-- The bytes of file `id` (`[]` when there is no such file). -/
def fdata (fs : Fs) (id : Nat) : Bytes :=
  match fs.find id with
  | some f => f.data
  | none => []

theorem Fs.find_update (fs : Fs) (id i : Nat) (g : File → File) (hg : ∀ f, (g f).id = f.id) :
    (fs.update id g).find i = (fs.find i).map (fun f => if f.id == id then g f else f) := by
  unfold Fs.find Fs.update
  induction fs with
  | nil => rfl
  | cons f rest ih =>
    simp only [List.map_cons, List.find?_cons]
    have e : ((if (f.id == id) = true then g f else f).id == i) = (f.id == i) := by
      split
      · rw [hg]
      · rfl
    rw [e]
    cases f.id == i with
    | true => rfl
    | false => exact ih

theorem Fs.find_id {fs : Fs} {i : Nat} {f : File} (h : fs.find i = some f) : f.id = i := by
  unfold Fs.find at h
  have := List.find?_some h
  simpa using this

theorem Fs.find_isSome_iff (fs : Fs) (i : Nat) : (fs.find i).isSome = true ↔ i ∈ Fs.ids fs := by
  unfold Fs.find Fs.ids
  rw [List.find?_isSome]
  simp only [List.mem_map, beq_iff_eq]

theorem fdata_write (fs : Fs) (id i : Nat) (bs : Bytes) (h : id ∈ Fs.ids fs) :
    fdata (fs.write id bs) i = fdata fs i ++ (if id = i then bs else []) := by
  unfold fdata Fs.write
  rw [Fs.find_update fs id i (fun f => { f with data := f.data ++ bs }) (fun _ => rfl)]
  cases hf : fs.find i with
  | none =>
    have : ¬ id = i := by
      intro e; subst e
      have := (Fs.find_isSome_iff fs id).mpr h
      rw [hf] at this; cases this
    simp [this]
  | some f =>
    have hid := Fs.find_id hf
    simp only [Option.map_some, hid]
    by_cases e : i = id
    · subst e; simp
    · have e' : ¬ id = i := fun x => e x.symm
      simp [e, e']

theorem fdata_sync (fs : Fs) (id i : Nat) : fdata (fs.sync id) i = fdata fs i := by
  unfold fdata Fs.sync
  rw [Fs.find_update fs id i (fun f => { f with durable := f.data.length }) (fun _ => rfl)]
  cases hf : fs.find i with
  | none => rfl
  | some f => simp only [Option.map_some]; split <;> rfl

theorem fdata_unlink (fs : Fs) (id i : Nat) : fdata (fs.unlink id) i = fdata fs i := by
  unfold fdata Fs.unlink
  rw [Fs.find_update fs id i (fun f => { f with linked := false }) (fun _ => rfl)]
  cases hf : fs.find i with
  | none => rfl
  | some f => simp only [Option.map_some]; split <;> rfl

theorem Fs.find_create_ne (fs : Fs) {id i : Nat} (h : i ≠ id) : (fs.create id).find i = fs.find i := by
  unfold Fs.find Fs.create
  induction fs with
  | nil => simp; exact fun e => h e.symm
  | cons f rest ih =>
    simp only [List.filter_cons]
    by_cases hf : f.id = id
    · have h1 : (f.id != id) = false := by simp [hf]
      have h2 : (f.id == i) = false := by simp [hf]; exact fun e => h e.symm
      simp only [h1, List.find?_cons, h2]
      exact ih
    · have h1 : (f.id != id) = true := by simp [hf]
      simp only [h1, if_true, List.cons_append, List.find?_cons]
      cases f.id == i with
      | true => rfl
      | false => exact ih

theorem fdata_create_ne (fs : Fs) {id i : Nat} (h : i ≠ id) : fdata (fs.create id) i = fdata fs i := by
  unfold fdata; rw [Fs.find_create_ne fs h]

theorem Fs.find_create_self (fs : Fs) (id : Nat) : (fs.create id).find id = some { id := id } := by
  unfold Fs.find Fs.create
  rw [List.find?_append]
  have : List.find? (fun f => f.id == id) (List.filter (fun f => f.id != id) fs) = none := by
    rw [List.find?_eq_none]
    intro f hf
    have := (List.mem_filter.mp hf).2
    simpa using this
  rw [this]
  simp

theorem fdata_create_self (fs : Fs) (id : Nat) : fdata (fs.create id) id = [] := by
  unfold fdata; rw [Fs.find_create_self]

theorem Fs.ids_create_self (fs : Fs) (id : Nat) : id ∈ Fs.ids (fs.create id) := by
  simp [Fs.ids, Fs.create]

theorem Fs.ids_create_mono (fs : Fs) (id : Nat) {i : Nat} (h : i ∈ Fs.ids fs) : i ∈ Fs.ids (fs.create id) := by
  by_cases e : i = id
  · subst e; exact Fs.ids_create_self fs i
  · unfold Fs.ids Fs.create
    unfold Fs.ids at h
    obtain ⟨f, hf, hfi⟩ := List.mem_map.mp h
    apply List.mem_map.mpr
    refine ⟨f, List.mem_append_left _ (List.mem_filter.mpr ⟨hf, ?_⟩), hfi⟩
    simp [hfi, e]

/-! ### Bytes in flight inside the worker -/

/-- The data of the queued `write` requests that will land in file `id`.
Requests are processed FIFO; a `write` goes to the file that is newest when it
is processed: the id of the last `appendFile` processed before it (`cur` at the
start). -/
def inflightFrom (cur : Nat) : List WReq → Nat → Bytes
  | [], _ => []
  | .write _ d _ :: q, id => (if cur = id then d else []) ++ inflightFrom cur q id
  | .appendFile n _ :: q, id => inflightFrom n q id
  | .removeChunks _ :: q, id => inflightFrom cur q id

/-- The ids announced by the `appendFile` requests of a queue, in order. -/
def annIds : List WReq → List Nat
  | [] => []
  | .write _ _ _ :: q => annIds q
  | .appendFile n _ :: q => n :: annIds q
  | .removeChunks _ :: q => annIds q

/-- Data of the batch in hand that is not written yet (all of it goes to the
newest file). -/
def WPc.todoBytes : WPc → Bytes
  | .writing todo _ _ => todo.flatten
  | _ => []

/-- Requests already taken from the channel but not handled yet: the request
at the gate, or the non-write request that ended the batch. -/
def WPc.inHand : WPc → List WReq
  | .got r => [r]
  | .writing _ _ tail => tail.toList
  | .syncOld _ tail => tail.toList
  | .syncNew _ tail => tail.toList
  | _ => []

/-- Everything the worker still has to handle, in order. -/
def Worker.rest (w : Worker) : List WReq := w.pc.inHand ++ w.queue

/-- The file the next write goes to. -/
def Worker.cur (w : Worker) : Nat := newestId w.files

def infl (cur : Nat) (tb : Bytes) (rest : List WReq) (id : Nat) : Bytes :=
  (if cur = id then tb else []) ++ inflightFrom cur rest id

/-- The bytes still on their way to file `id` inside the worker. -/
def Worker.inflight (w : Worker) (id : Nat) : Bytes := infl w.cur w.pc.todoBytes w.rest id

/-- The newest file the worker knows, followed by the ids it will be told
about, in order. -/
def Worker.announced (w : Worker) : List Nat := w.cur :: annIds w.rest

def tailOK (t : Option WReq) : Prop := ∀ r, t = some r → r.isWrite = false

/-- Shape facts about the worker's control state: the request that ended a
batch is not a write; `sync_all_files` is at an old file only while there is a
newer one. -/
def WPc.ok (files : List FileEnt) : WPc → Prop
  | .writing _ _ tail => tailOK tail
  | .syncOld _ tail => tailOK tail ∧ 2 ≤ files.length
  | .syncNew _ tail => tailOK tail
  | _ => True

/-! ### The journal invariant -/

/-- Consecutive offset lists abut: each ends where the next begins. -/
def Chained : List (List Nat) → Prop
  | [] => True
  | [_] => True
  | a :: b :: rest => lastOff a = b.headD 0 ∧ Chained (b :: rest)

/-- The offsets lists of all live chunks, oldest first. -/
def Store.chunks (s : Store) : List (List Nat) := s.closed.map (·.offsets) ++ [s.openOffsets]

/-- The invariant on store, file system and worker (worker not dead). -/
structure JInv (s : Store) (fs : Fs) (w : Worker) : Prop where
  /-- worker control state is well-shaped -/
  wok : w.pc.ok w.files
  /-- values that get journalled are well-formed -/
  stWF : s.st.WF
  logWF : ∀ e ∈ s.log, e.2.id.WF
  /-- no file at or beyond the journal end -/
  fsLt : ∀ i ∈ Fs.ids fs, i < s.openEnd
  /-- 4. worker tracking: the last announced file is the open chunk, ids are
  announced in ascending order, every announced file exists -/
  annLast : w.announced.getLast? = some s.openId
  annAsc : Incr w.announced
  annFs : ∀ a ∈ w.announced, a ∈ Fs.ids fs
  /-- 1. layout: chunks abut; every closed chunk ends at or before the open one
  starts (lengths ≥ 2 and monotonicity follow from `ChunkOK`) -/
  chained : Chained s.chunks
  closedLe : ∀ c ∈ s.closed, lastOff c.offsets ≤ s.openId
  closedFs : ∀ c ∈ s.closed, c.id ∈ Fs.ids fs
  /-- 2. bytes of the open chunk -/
  openBytes : ChunkOK s.openOffsets (fdata fs s.openId ++ w.inflight s.openId ++ s.pending)
  /-- 3. bytes of every closed chunk -/
  closedBytes : ∀ c ∈ s.closed, ChunkOK c.offsets (fdata fs c.id ++ w.inflight c.id)

/-- **The journal invariant** of a system with a live store and worker. -/
def J (y : Sys) : Prop :=
  ∃ s, y.store = some s ∧ y.worker.pc ≠ .dead ∧ JInv s y.fs y.worker

end RaftLog
