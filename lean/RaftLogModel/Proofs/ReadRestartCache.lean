/-
C07 across restarts, part 1: the payload cache while `open` replays the journal,
for ARBITRARY cache limits (0 included).

`Proofs/ReplayCache.lean` shows that nothing is evicted during replay when the
limits cover all `Append` records. Here nothing is assumed about the limits.
What survives (`CK0C7c`, `CKresC7c`):

* the store-level cache invariant;
* every index entry points to an `Append` record replayed so far, and a cached
  payload for the id of an index entry is the payload of that record;
* an index entry of chunk `j` whose id is ABOVE the eviction boundary in force is
  resident (eviction only drops ids at or below the boundary; truncations and
  purges of the journal keep the ids of the entries they keep — `RecCheck`).

`openStore_ck_C7c`: `open` on the files of a quiescent, flushed store: besides
the facts of `openStore_of_rep`, the boundary of the reopened cache is the
closing `last` of the last closed chunk, a cached payload of a live id is the
reference payload, and every entry of the reused open chunk whose id is above
that boundary is resident.

All names carry the suffix `C7c`.
-/
import RaftLogModel.Proofs.ReplayCache
import RaftLogModel.Proofs.ReadPathStore
namespace RaftLog

/-! ### The invariant -/

/-- `done` = the journal records replayed so far. -/
structure CK0C7c (sm : Store) (done : List JOp) : Prop where
  cinv : CacheInv sm
  sorted : SortedLog sm.log
  idx : ∀ e ∈ sm.log, e.2.id.index = e.1
  /-- every index entry points to an `Append` record replayed so far -/
  pts : ∀ e ∈ sm.log, ∃ p, opAt e p ∈ done
  /-- a cached payload for the id of an index entry is that record's payload -/
  val : ∀ e ∈ sm.log, ∀ p, (e.2.id, p) ∈ sm.cache.items → opAt e p ∈ done

/-- Entries of chunk `j` above the boundary are resident. -/
def CKresC7c (j : Nat) (sm : Store) : Prop :=
  ∀ e ∈ sm.log, e.2.chunk = j → optLe (some e.2.id) sm.cache.lastEvictable = false →
    ∃ p, (e.2.id, p) ∈ sm.cache.items

theorem CK0C7c.of_fields {sm sm2 : Store} {done : List JOp} (h : CK0C7c sm done)
    (h1 : sm2.st = sm.st) (h2 : sm2.log = sm.log) (h3 : sm2.cache.items = sm.cache.items)
    (h4 : sm2.cache.size = sm.cache.size) : CK0C7c sm2 done := by
  refine ⟨⟨⟨by rw [h3, h4]; exact h.cinv.ok.size_eq, by rw [h3]; exact h.cinv.ok.sorted⟩,
    by rw [h3, h1]; exact h.cinv.le_last⟩, by rw [h2]; exact h.sorted, by rw [h2]; exact h.idx,
    by rw [h2]; exact h.pts, ?_⟩
  rw [h2, h3]; exact h.val

theorem idxCache_le_C7c (r : Record) (c : Cache) :
    (idxCache r c).lastEvictable = c.lastEvictable := by
  cases r with
  | saveVote v => rfl
  | commit id => rfl
  | state x => rfl
  | append id p => rfl
  | truncateAfter o => cases o <;> rfl
  | purgeUpto id => rfl

/-- **One replayed record**, any cache limits. -/
theorem ck_step_C7c {sm : Store} {done : List JOp} {op : JOp} {st1 : RState} {l1 : Log}
    (h : CK0C7c sm done) (hst : sm.st.apply op.r = .ok st1)
    (hidx : idxLogO op.r op.chunk op.seg sm.log = some l1)
    (hck : RecCheck op.r sm.st sm.log ∨ (sm.cache.items = [] ∧ ∃ x, op.r = .state x)) :
    ∃ s', sm.smApply op.r op.chunk op.seg = .ok s' ∧ s'.st = st1 ∧ s'.log = l1 ∧ SameRest sm s' ∧
      s'.cache.lastEvictable = sm.cache.lastEvictable ∧
      CK0C7c s' (done ++ [op]) ∧ ∀ j, CKresC7c j sm → CKresC7c j s' := by
  obtain ⟨rec, chunk, ⟨off, size⟩⟩ := op
  simp only at hst hidx hck
  have hai := applyIndex_exact sm rec chunk ⟨off, size⟩ hidx
  have hlim := idxCache_limits rec sm.cache
  refine ⟨{ sm with st := st1, log := l1, cache := idxCache rec sm.cache }, ?_, rfl, rfl,
    ⟨rfl, rfl, rfl, rfl, rfl, hlim.1, hlim.2⟩, idxCache_le_C7c rec sm.cache, ?_⟩
  · unfold Store.smApply
    simp only [hai, hst]
  -- the cache invariant
  have hcinv : CacheInv ({ sm with st := st1, log := l1, cache := idxCache rec sm.cache } : Store) := by
    rcases hck with hck | ⟨hempty, x, hx⟩
    · have hr : ∀ x, rec = .state x → x.last = sm.st.last := by
        intro x hx; subst hx; exact hck
      exact applyIndex_cacheInv h.cinv hst hr hai
    · subst hx
      simp only [RState.apply, Res.ok.injEq] at hst
      subst hst
      refine ⟨h.cinv.ok, ?_⟩
      intro e he
      simp only [idxCache] at he
      rw [hempty] at he; cases he
  have hsl : SortedLog l1 := idxLogO_sorted h.sorted hidx
  have hmemL : ∀ (x : JOp), x ∈ done → x ∈ done ++ [(⟨rec, chunk, ⟨off, size⟩⟩ : JOp)] :=
    fun x hx => List.mem_append_left _ hx
  cases rec with
  | saveVote v =>
    simp only [idxLogO, Option.some.injEq] at hidx; subst hidx
    refine ⟨⟨hcinv, hsl, h.idx, ?_, ?_⟩, fun j hr => hr⟩
    · intro e he; obtain ⟨p, hp⟩ := h.pts e he; exact ⟨p, hmemL _ hp⟩
    · intro e he p hp; exact hmemL _ (h.val e he p hp)
  | commit id =>
    simp only [idxLogO, Option.some.injEq] at hidx; subst hidx
    refine ⟨⟨hcinv, hsl, h.idx, ?_, ?_⟩, fun j hr => hr⟩
    · intro e he; obtain ⟨p, hp⟩ := h.pts e he; exact ⟨p, hmemL _ hp⟩
    · intro e he p hp; exact hmemL _ (h.val e he p hp)
  | state x =>
    simp only [idxLogO, Option.some.injEq] at hidx; subst hidx
    refine ⟨⟨hcinv, hsl, h.idx, ?_, ?_⟩, fun j hr => hr⟩
    · intro e he; obtain ⟨p, hp⟩ := h.pts e he; exact ⟨p, hmemL _ hp⟩
    · intro e he p hp; exact hmemL _ (h.val e he p hp)
  | append id p0 =>
    simp only [idxLogO, Option.some.injEq] at hidx; subst hidx
    obtain ⟨_, hnle⟩ := apply_append_last hst
    have hk := items_lt_of_gt_last h.cinv hnle
    obtain ⟨pre, hsplit, hpre⟩ := Cache.insert_split (v := p0) h.cinv.ok hk
    have hsub : ∀ e ∈ (sm.cache.insert id p0).items, e ∈ sm.cache.items ∨ e = (id, p0) := by
      intro e he
      have : e ∈ sm.cache.items ++ [(id, p0)] := by rw [hsplit]; exact List.mem_append_right _ he
      simpa using this
    refine ⟨⟨hcinv, hsl, ?_, ?_, ?_⟩, ?_⟩
    · intro e he
      rcases mem_logInsert_sorted h.sorted he with h1 | ⟨h1, _⟩
      · subst h1; rfl
      · exact h.idx e h1
    · intro e he
      rcases mem_logInsert_sorted h.sorted he with h1 | ⟨h1, _⟩
      · subst h1
        exact ⟨p0, List.mem_append_right _ (List.mem_singleton.mpr rfl)⟩
      · obtain ⟨p, hp⟩ := h.pts e h1; exact ⟨p, hmemL _ hp⟩
    · intro e he p hp
      rcases mem_logInsert_sorted h.sorted he with h1 | ⟨h1, hne⟩
      · subst h1
        rcases hsub _ hp with h2 | h2
        · have := hk _ h2
          simp [LogId.lt_irrefl] at this
        · simp only [Prod.mk.injEq] at h2
          obtain ⟨_, h2⟩ := h2
          subst h2
          exact List.mem_append_right _ (List.mem_singleton.mpr rfl)
      · rcases hsub _ hp with h2 | h2
        · exact hmemL _ (h.val e h1 p h2)
        · exfalso
          simp only [Prod.mk.injEq] at h2
          have := h.idx e h1
          rw [h2.1] at this
          exact hne this.symm
    · intro j hr e he hj hgt
      have hgt' : optLe (some e.2.id) sm.cache.lastEvictable = false := hgt
      have key : ∀ q, (e.2.id, q) ∈ sm.cache.items ++ [(id, p0)] →
          ∃ q', (e.2.id, q') ∈ (sm.cache.insert id p0).items := by
        intro q hq
        rw [hsplit] at hq
        rcases List.mem_append.mp hq with h2 | h2
        · have := hpre _ h2
          simp only at this
          rw [hgt'] at this; cases this
        · exact ⟨q, h2⟩
      rcases mem_logInsert_sorted h.sorted he with h1 | ⟨h1, _⟩
      · subst h1
        exact key p0 (List.mem_append_right _ (List.mem_singleton.mpr rfl))
      · obtain ⟨q, hq⟩ := hr e h1 hj hgt'
        exact key q (List.mem_append_left _ hq)
  | truncateAfter o =>
    simp only [idxLogO] at hidx
    cases hn : nextIndexChecked o with
    | none => rw [hn] at hidx; cases hidx
    | some idx =>
      rw [hn] at hidx
      simp only [Option.some.injEq] at hidx; subst hidx
      have hsubI : ∀ e ∈ (idxCache (.truncateAfter o) sm.cache).items, e ∈ sm.cache.items := by
        intro e he
        cases o with
        | none => simp [idxCache, Cache.clear] at he
        | some k => exact (Cache.truncateAfter_facts sm.cache k).2.1 e he
      refine ⟨⟨hcinv, hsl, ?_, ?_, ?_⟩, ?_⟩
      · intro e he; exact h.idx e (List.mem_filter.mp he).1
      · intro e he
        obtain ⟨p, hp⟩ := h.pts e (List.mem_filter.mp he).1; exact ⟨p, hmemL _ hp⟩
      · intro e he p hp
        exact hmemL _ (h.val e (List.mem_filter.mp he).1 p (hsubI _ hp))
      · intro j hr e he hj hgt
        simp only [List.mem_filter, decide_eq_true_eq] at he
        have hgt' : optLe (some e.2.id) sm.cache.lastEvictable = false := by
          rw [← idxCache_le_C7c (.truncateAfter o) sm.cache]; exact hgt
        obtain ⟨q, hq⟩ := hr e he.1 hj hgt'
        cases o with
        | none =>
          simp only [nextIndexChecked, Option.some.injEq] at hn
          omega
        | some key =>
          have hidx' := nextIndexChecked_some_eq hn
          rcases hck with hck | ⟨_, x, hx⟩
          · have hlt : key.lt e.2.id = false := hck e he.1 (by omega)
            exact ⟨q, (Cache.truncateAfter_facts sm.cache key).1 _ hq hlt⟩
          · cases hx
  | purgeUpto u =>
    simp only [idxLogO] at hidx
    cases hn : nextIndexChecked (some u) with
    | none => rw [hn] at hidx; cases hidx
    | some idx =>
      rw [hn] at hidx
      simp only [Option.some.injEq] at hidx; subst hidx
      have hidx' := nextIndexChecked_some_eq hn
      refine ⟨⟨hcinv, hsl, ?_, ?_, ?_⟩, ?_⟩
      · intro e he; exact h.idx e (List.mem_filter.mp he).1
      · intro e he
        obtain ⟨p, hp⟩ := h.pts e (List.mem_filter.mp he).1; exact ⟨p, hmemL _ hp⟩
      · intro e he p hp
        exact hmemL _ (h.val e (List.mem_filter.mp he).1 p ((Cache.purgeUpto_facts sm.cache u).2.1 _ hp))
      · intro j hr e he hj hgt
        simp only [List.mem_filter, decide_eq_true_eq] at he
        have hgt' : optLe (some e.2.id) sm.cache.lastEvictable = false := hgt
        obtain ⟨q, hq⟩ := hr e he.1 hj hgt'
        rcases hck with hck | ⟨_, x, hx⟩
        · have hlt : u.lt e.2.id = true := hck e he.1 (by omega)
          have hle : e.2.id.le u = false := (LogId.not_le_iff_lt _ _).2 hlt
          exact ⟨q, (Cache.purgeUpto_facts sm.cache u).1 _ hq hle⟩
        · cases hx

/-! ### A chunk -/

theorem replay_ck_C7c (chunk : Nat) :
    ∀ (rs : List Record) (start : Nat) (sm : Store) (done more : List JOp) (st1 : RState) (l1 : Log),
    CK0C7c sm done →
    HOK (opsFrom chunk start rs ++ more) sm → stRun rs sm.st = some st1 →
    idxRun (opsFrom chunk start rs) sm.log = some l1 →
    ∃ s', replay chunk rs (offsetsFrom start (sizes rs)) sm = .ok s' ∧ s'.st = st1 ∧ s'.log = l1 ∧
      SameRest sm s' ∧ s'.cache.lastEvictable = sm.cache.lastEvictable ∧
      CK0C7c s' (done ++ opsFrom chunk start rs) ∧ HOK more s' ∧
      ∀ j, CKresC7c j sm → CKresC7c j s' := by
  intro rs
  induction rs with
  | nil =>
    intro start sm done more st1 l1 hc hok h1 h2
    simp only [stRun, Option.some.injEq] at h1
    simp only [opsFrom, idxRun, Option.some.injEq] at h2
    refine ⟨sm, by simp [replay], h1, h2, ⟨rfl, rfl, rfl, rfl, rfl, rfl, rfl⟩, rfl, ?_, ?_, fun j hr => hr⟩
    · simpa [opsFrom] using hc
    · simpa [opsFrom] using hok
  | cons r rs ih =>
    intro start sm done more st1 l1 hc hok h1 h2
    simp only [stRun] at h1
    simp only [opsFrom, idxRun] at h2
    cases ha : sm.st.apply r with
    | err k => rw [ha] at h1; cases h1
    | panic m => rw [ha] at h1; cases h1
    | ok sta =>
      rw [ha] at h1
      cases hi : idxLogO r chunk ⟨start, (encRecord r).length⟩ sm.log with
      | none => rw [hi] at h2; cases h2
      | some la =>
        rw [hi] at h2
        simp only at h1 h2
        simp only [opsFrom, List.cons_append] at hok
        have hck : RecCheck r sm.st sm.log ∨ (sm.cache.items = [] ∧ ∃ x, r = .state x) := by
          rcases hok with hok | ⟨he, hd, tl, x, heq, hx, _⟩
          · exact Or.inl hok.1
          · simp only [List.cons.injEq] at heq
            rw [← heq.1] at hx
            exact Or.inr ⟨he, x, hx⟩
        obtain ⟨s1, hsm, e1, e2, hsr, hle1, hc1, hres1⟩ :=
          ck_step_C7c (op := ⟨r, chunk, ⟨start, (encRecord r).length⟩⟩) hc ha hi hck
        have hok1 : HOK (opsFrom chunk (start + (encRecord r).length) rs ++ more) s1 := by
          left
          rw [e1, e2]
          rcases hok with hok | ⟨_, hd, tl, x, heq, hx, hrest⟩
          · exact hok.2 sta la ha hi
          · simp only [List.cons.injEq] at heq
            rw [← heq.1] at hx
            simp only at hx
            subst hx
            simp only [RState.apply, Res.ok.injEq] at ha
            simp only [idxLogO, Option.some.injEq] at hi
            subst ha; subst hi
            rw [heq.2]; exact hrest
        obtain ⟨s', hrep, g1, g2, g3, gle, g4, g5, g6⟩ :=
          ih (start + (encRecord r).length) s1 _ more st1 l1 hc1 hok1 (by rw [e1]; exact h1)
            (by rw [e2]; exact h2)
        refine ⟨s', ?_, g1, g2, ⟨g3.closed.trans hsr.closed, g3.cfg.trans hsr.cfg,
          g3.openOffsets.trans hsr.openOffsets, g3.pending.trans hsr.pending,
          g3.removed.trans hsr.removed, g3.maxItems.trans hsr.maxItems,
          g3.capacity.trans hsr.capacity⟩, gle.trans hle1, ?_, g5, fun j hr => g6 j (hres1 j hr)⟩
        · rw [replay_cons_ok chunk start r rs sm s1 hsm]; exact hrep
        · simpa [opsFrom] using g4

/-- Index entries after a run: old ones, or inserted by a record of the run. -/
theorem idxRun_chunk_C7c {ops : List JOp} {l l' : Log} (h : idxRun ops l = some l') :
    ∀ e ∈ l', e ∈ l ∨ ∃ op ∈ ops, e.2.chunk = op.chunk := by
  induction ops generalizing l with
  | nil => simp only [idxRun, Option.some.injEq] at h; subst h; exact fun e he => .inl he
  | cons op ops ih =>
    simp only [idxRun] at h
    split at h
    · cases h
    · rename_i l1 h1
      intro e he
      rcases ih h e he with k | ⟨op', hop', k⟩
      · have : e ∈ l ∨ e.2.chunk = op.chunk := by
          obtain ⟨rec, chunk, seg⟩ := op
          cases rec with
          | saveVote v => simp [idxLogO] at h1; subst h1; exact .inl k
          | commit id => simp [idxLogO] at h1; subst h1; exact .inl k
          | state x => simp [idxLogO] at h1; subst h1; exact .inl k
          | append id p =>
            simp only [idxLogO, Option.some.injEq] at h1; subst h1
            rcases mem_logInsert k with k1 | k1
            · subst k1; exact .inr rfl
            · exact .inl k1
          | truncateAfter o =>
            simp only [idxLogO] at h1
            split at h1
            · cases h1
            · injection h1 with h1; subst h1; exact .inl (List.mem_filter.mp k).1
          | purgeUpto id =>
            simp only [idxLogO] at h1
            split at h1
            · cases h1
            · injection h1 with h1; subst h1; exact .inl (List.mem_filter.mp k).1
        rcases this with k1 | k1
        · exact .inl k1
        · exact .inr ⟨op, List.mem_cons_self, k1⟩
      · exact .inr ⟨op', List.mem_cons_of_mem _ hop', k⟩

theorem opsFrom_chunk_C7c {chunk start : Nat} {rs : List Record} {op : JOp}
    (h : op ∈ opsFrom chunk start rs) : op.chunk = chunk := (opsFrom_off_lt h).2.2

/-! ### A list of chunks -/

theorem loads_ck_C7c (cfg : Cfg) :
    ∀ (jl : List (Closed × List Record)) (a : OpenAcc) (done more : List JOp) (st' : RState) (l' : Log),
    RepC jl a.sm.st a.sm.log st' l' →
    (∀ p ∈ jl, ∃ f, a.fs.find p.1.id = some f ∧ f.data = encAll p.2 ∧ AllWF p.2 ∧ p.2 ≠ [] ∧
        offsetsFrom p.1.id (sizes p.2) = p.1.offsets) →
    Chained (jl.map (·.1.offsets)) →
    (∀ p, jl.head? = some p → gapCheck a p.1.id = false) →
    a.lastLogId = prevLastOf a.sm.closed →
    CK0C7c a.sm done → HOK (flatOps jl ++ more) a.sm →
    ∃ a', Loads cfg (jl.map (·.1.id)) a a' ∧ a'.sm.st = st' ∧ a'.sm.log = l' ∧
      a'.sm.closed = a.sm.closed ++ jl.map (·.1) ∧ a'.sm.removed = a.sm.removed ∧
      a'.sm.cfg = a.sm.cfg ∧ a'.sm.cache.maxItems = a.sm.cache.maxItems ∧
      a'.sm.cache.capacity = a.sm.cache.capacity ∧
      (jl ≠ [] → a'.lastTruncated = false) ∧ CK0C7c a'.sm (done ++ flatOps jl) ∧ HOK more a'.sm ∧
      (jl ≠ [] → a'.sm.cache.lastEvictable = prevLastOf (a.sm.closed ++ (jl.map (·.1)).dropLast)) ∧
      (∀ c rs, jl.getLast? = some (c, rs) → (∀ e ∈ a.sm.log, e.2.chunk ≠ c.id) →
        (∀ q ∈ jl.dropLast, q.1.id ≠ c.id) → CKresC7c c.id a'.sm) ∧
      a'.lastLogId = prevLastOf a'.sm.closed := by
  intro jl
  induction jl with
  | nil =>
    intro a done more st' l' h _ _ _ hll hc hok
    obtain ⟨rfl, rfl⟩ := h
    refine ⟨a, Loads.nil a, rfl, rfl, by simp, rfl, rfl, rfl, rfl, fun h => absurd rfl h, ?_, ?_,
      fun h => absurd rfl h, ?_, hll⟩
    · simpa [flatOps] using hc
    · simpa [flatOps] using hok
    · intro c rs hl; cases hl
  | cons p rest ih =>
    intro a done more st' l' h hfiles hch hgap hll hc hok
    obtain ⟨c, rs⟩ := p
    obtain ⟨st1, l1, g1, g2, g3, g4, _, g5⟩ := h
    obtain ⟨f, hf, hd, hwf, hne, hoffs⟩ := hfiles (c, rs) List.mem_cons_self
    simp only at hf hd hwf hne hoffs
    simp only [flatOps, List.append_assoc] at hok
    have hcpre : CK0C7c a.pre.sm done := hc.of_fields rfl rfl rfl rfl
    have hokpre : HOK (chunkOps c.id rs ++ (flatOps rest ++ more)) a.pre.sm := hok.of_fields rfl rfl rfl
    obtain ⟨sm2, hrep, k1, k2, k3, kle, k4, k5, k6⟩ :=
      replay_ck_C7c c.id rs c.id a.pre.sm done (flatOps rest ++ more) st1 l1 hcpre hokpre g1 g2
    have hg : gapCheck a c.id = false := hgap (c, rs) rfl
    have hst1 : (a.loaded c.id rs sm2).sm.st = st1 := k1
    have hl1 : (a.loaded c.id rs sm2).sm.log = l1 := k2
    have hfs1 : (a.loaded c.id rs sm2).fs = a.fs.sync c.id := rfl
    have hcl1 : (a.loaded c.id rs sm2).sm.closed = a.sm.closed ++ [c] := by
      simp only [OpenAcc.loaded, k3.closed, OpenAcc.pre, hoffs, k1, ← g3]
    have hgap1 : ∀ q, rest.head? = some q → gapCheck (a.loaded c.id rs sm2) q.1.id = false := by
      intro q hq
      apply gapCheck_loaded
      rw [hoffs]
      cases rest with
      | nil => cases hq
      | cons q' rest' =>
        simp only [List.head?_cons, Option.some.injEq] at hq
        subst hq
        simp only [List.map_cons, Chained] at hch
        exact hch.1
    have hll1 : (a.loaded c.id rs sm2).lastLogId = prevLastOf (a.loaded c.id rs sm2).sm.closed := by
      rw [hcl1, prevLastOf_concat, g3, ← k1]; rfl
    have hle2 : sm2.cache.lastEvictable = prevLastOf a.sm.closed := by
      rw [kle, ← hll]; rfl
    obtain ⟨a', m1, m2, m3, m4, m5, m6, m7, m8, m9, m10, m11, m12, m13, m14⟩ :=
      ih (a.loaded c.id rs sm2) (done ++ chunkOps c.id rs) more st' l' (by rw [hst1, hl1]; exact g5)
        (fun q hq => by
          rw [hfs1]
          obtain ⟨f0, q1, q2, q3⟩ := hfiles q (List.mem_cons_of_mem _ hq)
          obtain ⟨f', r1, r2, _⟩ := Fs.find_sync_some c.id q1
          exact ⟨f', r1, r2.trans q2, q3⟩)
        (by simp only [List.map_cons] at hch; exact hch.tail) hgap1 hll1
        (k4.of_fields rfl rfl rfl rfl) (k5.of_fields rfl rfl rfl)
    refine ⟨a', Loads.cons hg hf hd hwf hne hrep m1, m2, m3, ?_, ?_, ?_, ?_, ?_, ?_, ?_, m11, ?_, ?_, m14⟩
    · rw [m4, hcl1]; simp
    · rw [m5]; exact k3.removed
    · rw [m6]; exact k3.cfg
    · rw [m7]; exact k3.maxItems
    · rw [m8]; exact k3.capacity
    · intro _
      cases rest with
      | nil => cases m1; rfl
      | cons q rest' => exact m9 (by simp)
    · simpa [flatOps, List.append_assoc] using m10
    · intro _
      cases rest with
      | nil =>
        cases m1
        simp only [List.map_cons, List.map_nil, List.dropLast, List.append_nil]
        exact hle2
      | cons q rest' =>
        rw [m12 (by simp), hcl1]
        simp
    · intro c' rs' hlast hnot hdl
      cases rest with
      | nil =>
        cases m1
        simp only [List.getLast?_singleton, Option.some.injEq, Prod.mk.injEq] at hlast
        obtain ⟨rfl, rfl⟩ := hlast
        have hres0 : CKresC7c c.id a.pre.sm := by
          intro e he hj _
          exact absurd hj (hnot e he)
        exact k6 c.id hres0
      | cons q rest' =>
        apply m13 c' rs'
        · simpa using hlast
        · intro e he
          rw [hl1] at he
          rcases idxRun_chunk_C7c g2 e he with k | ⟨op, hop, k⟩
          · exact hnot e k
          · rw [k, opsFrom_chunk_C7c hop]
            exact hdl (c, rs) (by simp [List.dropLast])
        · intro q' hq'
          exact hdl q' (by simp [List.dropLast] at hq' ⊢; exact Or.inr hq')

/-! ### `open` on the files of a quiescent, flushed store -/

/-- **`open` with any cache limits.** Besides what `openStore_of_rep` says: the
eviction boundary of the reopened cache is the closing `last` of the last closed
chunk, the cache invariant holds, a cached payload of a live id is the reference
payload, and every index entry of the (reused) open chunk whose id is above
that boundary is resident. -/
theorem openStore_ck_C7c (cfg : Cfg) {s : Store} {fs : Fs} {w : Worker} {r : RefLog}
    (h : RInv s fs w r) (hinf : ∀ id, w.inflight id = []) (hp : s.pending = [])
    (hlinked : fs.linkedIds = s.chunkIds) :
    ∃ s', openStore cfg fs = (.ok (s', { files := [⟨s.openId, prevLastOf s.closed⟩] }),
        fs.syncAll s.chunkIds, syncEvs s.chunkIds) ∧
      s'.st = s.st ∧ s'.log = s.log ∧ s'.closed = s.closed ∧ s'.openOffsets = s.openOffsets ∧
      s'.pending = [] ∧ s'.removed = [] ∧ s'.cfg = cfg ∧
      s'.cache.lastEvictable = prevLastOf s.closed ∧ CacheInv s' ∧
      (∀ e ∈ s'.cache.items, ∀ a ∈ r.entries, a.1 = e.1 → a.2 = e.2) ∧
      (∀ x ∈ s.log, x.2.chunk = s.openId → optLe (some x.2.id) (prevLastOf s.closed) = false →
        ∃ p, (x.2.id, p) ∈ s'.cache.items) := by
  obtain ⟨jc, jo, g, gp, gr, hall, hfiles, hmapoffs, hmapids, hflat⟩ := h.load_data hinf hp
  obtain ⟨hd, tl, x, hhd, hx⟩ := allOps_head_state g
  have hok : HOK (flatOps (jc ++ [((⟨s.openOffsets, s.st⟩ : Closed), jo)]) ++ []) (emptyStore cfg) := by
    right
    rw [List.append_nil, hflat]
    exact ⟨rfl, hd, tl, x, hhd, hx, gr hd tl hhd x hx⟩
  have hck0 : CK0C7c (emptyStore cfg) [] := by
    refine ⟨⟨⟨rfl, List.Pairwise.nil⟩, fun e he => (by cases he)⟩, SortedLog.nil,
      fun e he => (by cases he), fun e he => (by cases he), fun e he => (by cases he)⟩
  obtain ⟨a', m1, m2, m3, m4, m5, m6, m7, m8, m9, m10, _, m12, m13, _⟩ :=
    loads_ck_C7c cfg (jc ++ [(⟨s.openOffsets, s.st⟩, jo)]) { sm := emptyStore cfg, fs := fs } [] []
      s.st s.log hall hfiles (by rw [hmapoffs]; exact h.j.chained) (fun p _ => rfl) rfl hck0 hok
  obtain ⟨hfs', hevs'⟩ := m1.fs_evs
  rw [hmapids] at hfs' hevs'
  have hevs' : a'.evs = syncEvs s.chunkIds := by rw [hevs']; rfl
  have hloop : openLoop cfg fs.linkedIds { sm := emptyStore cfg, fs := fs } = (.ok a', a') := by
    rw [hlinked, ← hmapids]
    have := m1.openLoop_append []
    rw [List.append_nil] at this
    rw [this]
    rfl
  have hcl : a'.sm.closed = s.closed ++ [⟨s.openOffsets, s.st⟩] := by
    rw [m4]
    simp only [emptyStore, List.nil_append, List.map_append, List.map_cons, List.map_nil, g.closedEq]
  have hlt : a'.lastTruncated = false := m9 (by simp)
  have hle : a'.sm.cache.lastEvictable = prevLastOf s.closed := by
    rw [m12 (by simp)]
    simp only [emptyStore, List.nil_append, List.map_append, List.map_cons, List.map_nil, g.closedEq,
      List.dropLast_concat]
  have hres : CKresC7c s.openId a'.sm := by
    apply m13 (⟨s.openOffsets, s.st⟩ : Closed) jo (by simp)
    · intro e he; cases he
    · intro q hq
      rw [List.dropLast_concat] at hq
      have := h.j.closed_lt (g.mem_closed hq)
      show q.1.id ≠ s.openId
      omega
  rw [List.nil_append, hflat] at m10
  refine ⟨_, openStore_of_loads cfg hloop hcl hlt hfs' hevs', m2, m3, rfl, rfl, rfl,
    by simp only [m5]; rfl, by simp only [m6]; rfl, hle, ⟨m10.cinv.ok, by simp only [m2]; rw [← m2]; exact m10.cinv.le_last⟩, ?_, ?_⟩
  · intro e he a ha hae
    have hkey : (a.1.index, a.1) ∈ logKeys s.log := by
      rw [h.abs.log]; exact List.mem_map.mpr ⟨a, ha, rfl⟩
    obtain ⟨le, hle', hlk⟩ := List.mem_map.mp hkey
    simp only [Prod.mk.injEq] at hlk
    have hmem : (le.2.id, e.2) ∈ a'.sm.cache.items := by
      rw [hlk.2, hae]; exact he
    have hop := m10.val le (by rw [m3]; exact hle') e.2 hmem
    have hpe : (le.2.id, e.2) ∈ r.entries := gp le hle' e.2 hop
    rw [hlk.2] at hpe
    rcases pairwise_mem_cases h.abs.wf.mono hpe ha with h1 | h1 | h1
    · rw [← h1]
    · simp only [LogId.lt_irrefl] at h1; cases h1.1
    · simp only [LogId.lt_irrefl] at h1; cases h1.1
  · intro x hx hch hgt
    exact hres x (by rw [m3]; exact hx) hch (by rw [hle]; exact hgt)

end RaftLog
