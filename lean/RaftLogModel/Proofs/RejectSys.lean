/-
C06 at system level: helpers.

* `Worker.IsSettled`: a worker blocked in `recv` has an empty queue. Every
  `Sys.step` keeps it, `Sys.fresh` has it, and it is equivalent to
  `w.settle = w`.
* a rejected store-level call is the identity on the whole system;
* `appendBatch` on `pre ++ post`;
* the reference log's verdict is the store's verdict (`Abs s r`).
-/
import RaftLogModel.Proofs.ReplayRestart
namespace RaftLog

/-! ### Settled workers -/

/-- A worker blocked in `recv` (`pc = idle`) has nothing queued. -/
def Worker.IsSettled (w : Worker) : Prop := w.pc = .idle → w.queue = []

theorem Worker.settle_eq_iff (w : Worker) : w.settle = w ↔ w.IsSettled := by
  unfold Worker.settle Worker.IsSettled
  constructor
  · intro h hpc
    cases hq : w.queue with
    | nil => rfl
    | cons r q =>
      rw [hpc, hq] at h
      simp only at h
      have := congrArg Worker.pc h
      rw [hpc] at this
      cases this
  · intro h
    split
    · rename_i r q hpc hq
      have := h hpc
      rw [hq] at this; cases this
    · rfl

theorem Worker.settle_isSettled (w : Worker) : w.settle.IsSettled := by
  unfold Worker.settle Worker.IsSettled
  split
  · intro h; cases h
  · rename_i hne
    intro hpc
    cases hq : w.queue with
    | nil => rfl
    | cons r q => exact absurd hq (hne r q hpc)

/-- `settle` is idempotent. -/
theorem Worker.settle_idem (w : Worker) : w.settle.settle = w.settle :=
  (Worker.settle_eq_iff _).2 w.settle_isSettled

theorem WCtx.toRecv_isSettled (c : WCtx) : c.toRecv.w.IsSettled := by
  rcases c.toRecv_cases with ⟨r, q, _, h⟩ | ⟨hq, _, h⟩ | ⟨_, _, h⟩ <;> rw [h]
  · intro hpc; cases hpc
  · intro _; exact hq
  · intro hpc; cases hpc

theorem WCtx.nonFlush_isSettled (c : WCtx) (r : WReq) : (c.nonFlush r).w.IsSettled := by
  unfold WCtx.nonFlush
  cases r with
  | appendFile id pl => exact WCtx.toRecv_isSettled _
  | write a b d => exact WCtx.toRecv_isSettled _
  | removeChunks ids =>
    simp only
    split
    · exact WCtx.toRecv_isSettled _
    · split
      · exact WCtx.toRecv_isSettled _
      · intro hpc; cases hpc

theorem WCtx.finishBatch_isSettled (c : WCtx) (b : List WReq) (t : Option WReq) (ok : Bool) :
    (c.finishBatch b t ok).w.IsSettled := by
  rw [WCtx.finishBatch_eq]
  exact WCtx.nonFlush_isSettled _ _

theorem WCtx.startSync_isSettled (c : WCtx) (b : List WReq) (t : Option WReq) :
    (c.startSync b t).w.IsSettled := by
  unfold WCtx.startSync
  split
  · exact WCtx.finishBatch_isSettled _ _ _ _
  · intro hpc; cases hpc
  · intro hpc; cases hpc

theorem WCtx.startWrites_isSettled (c : WCtx) (b : List WReq) (t : Option WReq) :
    (c.startWrites b t).w.IsSettled := by
  unfold WCtx.startWrites
  simp only
  split
  · exact WCtx.startSync_isSettled _ _ _
  · intro hpc; cases hpc

theorem WCtx.die_isSettled (c : WCtx) (l : List WReq) : (c.die l).w.IsSettled := by
  intro hpc
  simp [WCtx.die, WCtx.emit] at hpc

/-- One worker step always ends settled. -/
theorem WCtx.step_isSettled (c : WCtx) (out : Outcome) : (c.step out).w.IsSettled := by
  apply WCtx.step_elim (P := fun c' => c'.w.IsSettled) c out
  · intro hpc _ h; rw [hpc] at h; cases h
  · intro _ _; exact WCtx.toRecv_isSettled _
  · intro r _ _ _; exact WCtx.startWrites_isSettled _ _ _
  · intro r _ _ _; exact WCtx.nonFlush_isSettled _ _
  · intro b t _ _; exact WCtx.startSync_isSettled _ _ _
  · intro d rest b t _ _ _; exact WCtx.die_isSettled _ _
  · intro d rest b t k _ _ _ _ _ hpc; cases hpc
  · intro d b t _ _ _; exact WCtx.startSync_isSettled _ _ _
  · intro d d' rest b t _ _ _ hpc; cases hpc
  · intro b t _ _ _; exact WCtx.finishBatch_isSettled _ _ _ _
  · intro b t f rest _ _ _ _; exact WCtx.finishBatch_isSettled _ _ _ _
  · intro b t f rest _ _ _ _; exact WCtx.startSync_isSettled _ _ _
  · intro b t _ _ _; exact WCtx.finishBatch_isSettled _ _ _ _
  · intro b t f rest _ _ _ _; exact WCtx.finishBatch_isSettled _ _ _ _
  · intro b t f rest _ _ _ _; exact WCtx.finishBatch_isSettled _ _ _ _
  · intro _ _; exact WCtx.toRecv_isSettled _
  · intro i rest _ _ _; exact WCtx.die_isSettled _ _
  · intro i _ _ _; exact WCtx.toRecv_isSettled _
  · intro i j rest _ _ _ hpc; cases hpc

theorem WCtx.runQuiet_isSettled (n : Nat) : ∀ (c : WCtx), c.w.IsSettled →
    (WCtx.runQuiet n c).w.IsSettled := by
  induction n with
  | zero => intro c h; exact h
  | succ n ih =>
    intro c h
    unfold WCtx.runQuiet
    split
    · exact h
    · exact ih _ (WCtx.step_isSettled c .ok)

theorem openStore_worker_queue {cfg : Cfg} {fs fs' : Fs} {s : Store} {w : Worker} {evs : List Ev}
    (h : openStore cfg fs = (.ok (s, w), fs', evs)) : w.queue = [] := by
  unfold openStore at h
  simp only at h
  split at h
  · cases h
  · cases h
  · split at h
    · split at h
      · cases h
      · simp only [Prod.mk.injEq, Res.ok.injEq] at h
        rw [← h.1.2]
    · split at h
      · cases h
      · simp only [Prod.mk.injEq, Res.ok.injEq] at h
        rw [← h.1.2]

/-- The system's worker is settled. -/
def Sys.Settled (y : Sys) : Prop := y.worker.settle = y.worker

theorem Sys.settled_iff (y : Sys) : y.Settled ↔ y.worker.IsSettled := Worker.settle_eq_iff _

/-- Every step keeps the worker settled. -/
theorem Sys.step_settled (y : Sys) (st : Step) (h : y.Settled) : (y.step st).Settled := by
  rw [Sys.settled_iff] at h ⊢
  cases st with
  | call op =>
    simp only [Sys.step, Sys.call]
    cases hs : y.store with
    | none => exact h
    | some s => exact Worker.settle_isSettled _
  | flush cb =>
    simp only [Sys.step, Sys.flush]
    cases hs : y.store with
    | none => exact h
    | some s => exact Worker.settle_isSettled _
  | worker out =>
    simp only [Sys.step, Sys.workerStep]
    cases hs : y.store with
    | none => exact h
    | some s => exact WCtx.step_isSettled _ _
  | workerIdle =>
    simp only [Sys.step, Sys.workerIdle]
    cases hs : y.store with
    | none => exact h
    | some s => exact WCtx.runQuiet_isSettled _ _ h
  | drain =>
    simp only [Sys.step, Sys.drain]
    cases hs : y.store with
    | none => exact h
    | some s => exact h
  | drop =>
    simp only [Sys.step, Sys.dropStore]
    cases hs : y.store with
    | none => exact h
    | some s => intro hpc; cases hpc
  | openWith cfg =>
    simp only [Sys.step, Sys.open]
    split
    · exact h
    · split
      · rename_i heq
        intro _; exact openStore_worker_queue heq
      · exact h
      · exact h

theorem Sys.run_settled (steps : List Step) : ∀ (y : Sys), y.Settled → (y.run steps).Settled := by
  induction steps with
  | nil => intro y h; exact h
  | cons st rest ih =>
    intro y h
    simp only [Sys.run, List.foldl_cons]
    exact ih _ (y.step_settled st h)

theorem Sys.fresh_settled (cfg : Cfg) : (Sys.fresh cfg).Settled :=
  Sys.step_settled ({} : Sys) (.openWith cfg) (by rfl)

/-- Every state reachable from a freshly opened store, by ANY steps, is settled. -/
theorem Sys.reachable_settled (cfg : Cfg) (steps : List Step) :
    ((Sys.fresh cfg).run steps).Settled :=
  Sys.run_settled steps _ (Sys.fresh_settled cfg)

/-! ### A rejected call is the identity on the system -/

theorem Sys.call_rejected_eq (y : Sys) (s : Store) (op : Op) (k : ErrKind) (hs : y.store = some s)
    (hset : y.Settled) (h : s.call y.fs.has op = (.err k, s, [])) :
    y.call op = (.err k, y, []) := by
  unfold Sys.Settled at hset
  obtain ⟨fs, locked, dump, store, worker, cfg⟩ := y
  simp only at hs hset h
  subst hs
  simp only [Sys.call, h, applyEffs, hset]
  rfl

/-! ### Batches: the accepted prefix -/

/-- If the entries `pre` are all accepted, a longer batch continues from the
store, segment and effects they produced (with some `fsHas'`: the files the
prefix created exist by now). -/
theorem appendBatch_prefix_ok (pre : List (LogId × Bytes)) :
    ∀ (fsHas : Nat → Bool) (s : Store) (seg : Seg) (effs : List Eff) (seg' : Seg) (s' : Store)
      (effs' : List Eff),
    Store.appendBatch fsHas pre s seg effs = (.ok seg', s', effs') →
    ∃ fsHas' : Nat → Bool, ∀ post,
      Store.appendBatch fsHas (pre ++ post) s seg effs = Store.appendBatch fsHas' post s' seg' effs' := by
  induction pre with
  | nil =>
    intro fsHas s seg effs seg' s' effs' h
    simp only [Store.appendBatch, Prod.mk.injEq, Res.ok.injEq] at h
    obtain ⟨h1, h2, h3⟩ := h
    subst h1; subst h2; subst h3
    exact ⟨fsHas, fun post => rfl⟩
  | cons e rest ih =>
    obtain ⟨id, p⟩ := e
    intro fsHas s seg effs seg' s' effs' h
    by_cases hidxD12 : id.index + 1 = U64
    · rw [appendBatch_cons_refused_D12 _ _ _ _ _ _ _ hidxD12] at h; cases h
    rw [appendBatch_cons_small_D12 _ _ _ _ _ _ _ hidxD12] at h
    cases ha : s.appendAndApply fsHas (.append id p) with
    | mk res x =>
      obtain ⟨s1, e1⟩ := x
      rw [ha] at h
      cases res with
      | ok seg1 =>
        simp only at h
        obtain ⟨fsHas', hf⟩ := ih _ s1 seg1 (effs ++ e1) seg' s' effs' h
        refine ⟨fsHas', fun post => ?_⟩
        rw [List.cons_append]
        rw [appendBatch_cons_small_D12 _ _ _ _ _ _ _ hidxD12]
        rw [ha]
        exact hf post
      | err k => simp only at h; cases h
      | panic m => simp only at h; cases h

/-- A batch whose first rejected entry comes right after the accepted prefix
`pre`: the result is the store and the effects of `pre`. -/
theorem appendBatch_rejected_after (fsHas : Nat → Bool) (pre rest : List (LogId × Bytes))
    (id : LogId) (p : Bytes) (s s' : Store) (seg seg' : Seg) (effs effs' : List Eff) (k : ErrKind)
    (h : Store.appendBatch fsHas pre s seg effs = (.ok seg', s', effs'))
    (hk : s'.st.apply (.append id p) = .err k) :
    Store.appendBatch fsHas (pre ++ (id, p) :: rest) s seg effs =
      (.err (if id.index + 1 = U64 then .invalidInput else k), s', effs') := by
  obtain ⟨fsHas', hf⟩ := appendBatch_prefix_ok pre fsHas s seg effs seg' s' effs' h
  rw [hf]
  by_cases hidxD12 : id.index + 1 = U64
  · rw [appendBatch_cons_refused_D12 _ _ _ _ _ _ _ hidxD12, if_pos hidxD12]
  · simp [Store.appendBatch, Store.appendAndApply, hk, hidxD12]

theorem call_append_rejected_after (fsHas : Nat → Bool) (pre rest : List (LogId × Bytes))
    (id : LogId) (p : Bytes) (s s' : Store) (seg' : Seg) (effs' : List Eff) (k : ErrKind)
    (h : s.call fsHas (.append pre) = (.ok seg', s', effs'))
    (hk : s'.st.apply (.append id p) = .err k) :
    s.call fsHas (.append (pre ++ (id, p) :: rest)) =
      (.err (if id.index + 1 = U64 then .invalidInput else k), s', effs') := by
  simp only [Store.call] at h ⊢
  cases hl : lastSegment s.openOffsets with
  | none => rw [hl] at h; cases h
  | some seg0 =>
    rw [hl] at h
    simp only at h ⊢
    exact appendBatch_rejected_after fsHas pre rest id p s s' seg0 seg' [] effs' k h hk

/-- System level: the system after the whole batch is the system after its
accepted prefix, with the same events. -/
theorem Sys.call_append_rejected_after (y : Sys) (s s' : Store) (pre rest : List (LogId × Bytes))
    (id : LogId) (p : Bytes) (seg' : Seg) (effs' : List Eff) (k : ErrKind)
    (hs : y.store = some s)
    (h : s.call y.fs.has (.append pre) = (.ok seg', s', effs'))
    (hk : s'.st.apply (.append id p) = .err k) :
    (y.call (.append (pre ++ (id, p) :: rest))).2 = (y.call (.append pre)).2 ∧
    (y.call (.append (pre ++ (id, p) :: rest))).1 =
      (if (applyEffs effs' y.fs y.worker []).1
        then .err (if id.index + 1 = U64 then .invalidInput else k) else .err .sendFailed) := by
  have h2 := _root_.RaftLog.call_append_rejected_after y.fs.has pre rest id p s s' seg' effs' k h hk
  simp only [Sys.call, hs, h, h2]
  exact ⟨trivial, trivial⟩

/-! ### The reference log's verdict is the store's verdict -/

theorem Abs.rejects_vote {s : Store} {r : RefLog} (h : Abs s r) (fsHas : Nat → Bool) (v : Vote)
    (k : ErrKind) (hr : r.call (.saveVote v) = .error k) :
    s.call fsHas (.saveVote v) = (.err k, s, []) := by
  simp only [RefLog.call] at hr
  split at hr
  · cases hr
  · rename_i hc
    injection hr with hr
    subst hr
    have : s.st.apply (.saveVote v) = .err .voteReversal := by
      simp only [RState.apply, RState.updateVote, h.st, RefLog.state]
      simp [hc]
    simp [Store.call, Store.appendAndApply, this]

theorem Abs.rejects_commit {s : Store} {r : RefLog} (h : Abs s r) (fsHas : Nat → Bool) (id : LogId)
    (k : ErrKind) (hr : r.call (.commit id) = .error k) :
    s.call fsHas (.commit id) = (.err k, s, []) := by
  simp only [RefLog.call] at hr
  split at hr
  · rename_i hc
    injection hr with hr
    subst hr
    have : s.st.apply (.commit id) = .err .logIdReversal := by
      simp only [RState.apply, RState.commit, h.st, RefLog.state]
      simp [hc]
    simp [Store.call, Store.appendAndApply, this]
  · cases hr

theorem Abs.logGet_none_of_entryAt {s : Store} {r : RefLog} (h : Abs s r) {i : Nat}
    (he : r.entryAt i = none) : s.logGet i = none := by
  have hk := find_keys_eq (l := s.log) (es := r.entries) h.log i
  unfold RefLog.entryAt at he
  rw [he] at hk
  unfold Store.logGet
  cases hf : s.log.find? (fun e => e.1 = i) with
  | none => rfl
  | some x => rw [hf] at hk; simp at hk

theorem Abs.rejects_truncate {s : Store} {r : RefLog} (h : Abs s r) (fsHas : Nat → Bool) (idx : Nat)
    (k : ErrKind) (hr : r.call (.truncate idx) = .error k) :
    s.call fsHas (.truncate idx) = (.err k, s, []) := by
  have hpu : s.st.purged = r.purged := by rw [h.st]; rfl
  simp only [RefLog.call] at hr
  simp only [Store.call]
  rw [nextIndexChecked_eq h.pf.purged]
  simp only [hpu]
  split at hr
  · cases hr
  · rename_i hne
    rw [if_neg hne]
    split at hr
    · rename_i h0
      injection hr with hr
      subst hr
      rw [if_pos h0]
    · rename_i h0
      rw [if_neg h0]
      split at hr
      · rename_i hea
        injection hr with hr
        subst hr
        rw [h.logGet_none_of_entryAt hea]
      · cases hr

theorem Abs.rejects_append1 {s : Store} {r : RefLog} (h : Abs s r) (fsHas : Nat → Bool) (id : LogId)
    (p : Bytes) (k : ErrKind) (hr : r.append1 id p = .error k) :
    s.st.apply (.append id p) = .err k := by
  have hla : s.st.last = r.last := by rw [h.st]; rfl
  unfold RefLog.append1 at hr
  simp only [RState.apply, RState.append, hla]
  split at hr
  · rename_i hc
    injection hr with hr
    subst hr
    simp [hc]
  · rename_i hc
    rw [if_neg hc]
    split at hr
    · rename_i l hl
      split at hr
      · rename_i hne
        injection hr with hr
        subst hr
        have hsm : optSmall (some l) := by
          have := h.pf.last
          rw [hla, hl] at this
          exact this
        have := nextIndexChecked_eq hsm
        simp only [nextIndex] at this
        simp only [hl, this]
        simp [hne]
      · cases hr
    · cases hr

theorem Abs.rejects_append_single {s : Store} {r : RefLog} (h : Abs s r) (fsHas : Nat → Bool)
    (id : LogId) (p : Bytes) (k : ErrKind) (hr : r.call (.append [(id, p)]) = .error k) :
    s.call fsHas (.append [(id, p)]) =
      (.err (if id.index + 1 = U64 then .invalidInput else k), s, []) := by
  have h1 : r.append1 id p = .error k := by
    simp only [RefLog.call, RefLog.appendAll] at hr
    split at hr
    · cases hr
    · rename_i k' hk'
      injection hr with hr
      subst hr
      exact hk'
  have h2 := h.rejects_append1 fsHas id p k h1
  obtain ⟨seg0, hseg⟩ := lastSegment_some h.pf.open2
  by_cases hidxD12 : id.index + 1 = U64
  · simp [Store.call, hseg, Store.appendBatch, hidxD12]
  · simp [Store.call, hseg, Store.appendBatch, Store.appendAndApply, h2, hidxD12]

/-- Which ops journal a single record. -/
def Op.single : Op → Prop
  | .append es => ∃ id p, es = [(id, p)]
  | _ => True

/-- **Same verdict.** A single-record op the reference log rejects is rejected
by the store with the same error kind, the store is returned unchanged and no
effect is emitted. -/
theorem Abs.rejects {s : Store} {r : RefLog} (h : Abs s r) (fsHas : Nat → Bool) (op : Op)
    (hop : op.single) (hsm : op.small) (k : ErrKind) (hr : r.call op = .error k) :
    s.call fsHas op = (.err k, s, []) := by
  cases op with
  | saveVote v => exact h.rejects_vote fsHas v k hr
  | commit id => exact h.rejects_commit fsHas id k hr
  | truncate idx => exact h.rejects_truncate fsHas idx k hr
  | append es =>
    obtain ⟨id, p, he⟩ := hop
    subst he
    have hidx : ¬ id.index + 1 = U64 := by
      have : id.index + 1 < U64 := hsm (id, p) List.mem_cons_self
      omega
    have := h.rejects_append_single fsHas id p k hr
    rwa [if_neg hidx] at this
  | purge upto =>
    simp only [RefLog.call] at hr
    split at hr <;> cases hr
  | saveUserData d => simp only [RefLog.call] at hr; cases hr

/-- D12: without `small` the store still rejects (store unchanged, nothing
emitted); only the error kind may be `InvalidInput` instead of the reference
log's (an `append` whose id has index u64::MAX is refused up front). -/
theorem Abs.rejects_any_D12 {s : Store} {r : RefLog} (h : Abs s r) (fsHas : Nat → Bool) (op : Op)
    (hop : op.single) (k : ErrKind) (hr : r.call op = .error k) :
    ∃ k', s.call fsHas op = (.err k', s, []) ∧ (op.small → k' = k) := by
  cases op with
  | saveVote v => exact ⟨k, h.rejects_vote fsHas v k hr, fun _ => rfl⟩
  | commit id => exact ⟨k, h.rejects_commit fsHas id k hr, fun _ => rfl⟩
  | truncate idx => exact ⟨k, h.rejects_truncate fsHas idx k hr, fun _ => rfl⟩
  | append es =>
    obtain ⟨id, p, he⟩ := hop
    subst he
    refine ⟨_, h.rejects_append_single fsHas id p k hr, ?_⟩
    intro hsm
    have hidx : ¬ id.index + 1 = U64 := by
      have : id.index + 1 < U64 := hsm (id, p) List.mem_cons_self
      omega
    rw [if_neg hidx]
  | purge upto =>
    simp only [RefLog.call] at hr
    split at hr <;> cases hr
  | saveUserData d => simp only [RefLog.call] at hr; cases hr

/-- `purge` and `saveUserData` are never rejected by the reference log. -/
theorem RefLog.never_rejects (r : RefLog) (op : Op)
    (hop : (∃ id, op = .purge id) ∨ (∃ d, op = .saveUserData d)) : ∃ r', r.call op = .ok r' := by
  rcases hop with ⟨id, rfl⟩ | ⟨d, rfl⟩
  · simp only [RefLog.call]
    split <;> exact ⟨_, rfl⟩
  · exact ⟨_, rfl⟩

end RaftLog
