/-
C07 after crash recovery, part 3: the payload cache of the store `open` builds
on a crash image (complete predecessors; the newest chunk reused, truncated and
followed by a fresh chunk, or removed and recreated), for ANY cache limits — the
counterpart of `openStore_ck_C7c` (Proofs/ReadRestartCache.lean) for damaged
directories — and the read invariant `ReadInvC7c` of the recovered system.

All names carry the suffix `C7c`.
-/
import RaftLogModel.Proofs.ReadRestartCycles
import RaftLogModel.Proofs.ReadRestartFresh
import RaftLogModel.Props.C05Crash
namespace RaftLog

/-! ### What `openStore` returns, in terms of the loop's accumulator -/

theorem openStore_shape_C7c {cfg : Cfg} {fs fs' : Fs} {s' : Store} {w' : Worker} {evs : List Ev}
    (h : openStore cfg fs = (.ok (s', w'), fs', evs)) :
    ∃ x a, openLoop cfg fs.linkedIds { sm := emptyStore cfg, fs := fs } = (.ok x, a) ∧
      s'.cache = a.sm.cache ∧ s'.st = a.sm.st ∧ s'.log = a.sm.log ∧
      w' = { files := [⟨s'.openId, prevLastOf s'.closed⟩] } ∧
      ((∃ lastC, a.sm.closed.getLast? = some lastC ∧ a.lastTruncated = false ∧
          s'.closed = a.sm.closed.dropLast ∧ s'.openId = lastC.id) ∨
        (s'.closed = a.sm.closed ∧ s'.openId = a.prevEnd.getD 0)) := by
  rcases hl : openLoop cfg fs.linkedIds { sm := emptyStore cfg, fs := fs } with ⟨res, a⟩
  unfold openStore at h
  simp only [hl] at h
  cases res with
  | err k => simp at h
  | panic m => simp at h
  | ok x =>
    refine ⟨x, a, rfl, ?_⟩
    simp only at h
    by_cases hre : (!a.sm.closed.isEmpty && !a.lastTruncated) = true
    · rw [if_pos hre] at h
      cases hg : a.sm.closed.getLast? with
      | none => rw [hg] at h; simp at h
      | some lastC =>
        rw [hg] at h
        simp only [Prod.mk.injEq, Res.ok.injEq] at h
        obtain ⟨⟨hs, hw⟩, _, _⟩ := h
        subst hs; subst hw
        have hlt : a.lastTruncated = false := by
          cases hx : a.lastTruncated with
          | false => rfl
          | true => rw [hx] at hre; simp at hre
        refine ⟨rfl, rfl, rfl, ?_, .inl ⟨lastC, rfl, hlt, rfl, rfl⟩⟩
        simp only [Store.openId, prevLastOf]
        rfl
    · rw [if_neg hre] at h
      by_cases hh : a.fs.has (a.prevEnd.getD 0) = true
      · rw [if_pos hh] at h; simp at h
      · rw [if_neg hh] at h
        simp only [Prod.mk.injEq, Res.ok.injEq] at h
        obtain ⟨⟨hs, hw⟩, _, _⟩ := h
        subst hs; subst hw
        refine ⟨rfl, rfl, rfl, ?_, .inr ⟨rfl, rfl⟩⟩
        simp only [Store.openId, prevLastOf, List.headD_cons]
        cases a.sm.closed.getLast? <;> rfl

/-! ### The loop on a directory with complete predecessors, with the cache -/

/-- `openLoop_image_ok_C5b` with the cache: the chunks `jc` are complete files,
the newest chunk `oid` parses to the first `j` records of `jo`; the replay checks
hold along the replayed prefix. -/
theorem openLoop_image_ck_C7c (cfg : Cfg) (ht : cfg.truncate = true) {img : Fs}
    {jc : List (Closed × List Record)} {oid : Nat} {jo : List Record} {stC : RState} {lC : Log}
    {g0 : File} {j : Nat} {e : ParseEnd} {rest : Bytes} {stJ : RState} {lJ : Log}
    (hids : img.linkedIds = jc.map (·.1.id) ++ [oid])
    (hfiles : ∀ p ∈ jc, ∃ f, img.find p.1.id = some f ∧ f.data = encAll p.2 ∧ AllWF p.2 ∧ p.2 ≠ [] ∧
      offsetsFrom p.1.id (sizes p.2) = p.1.offsets)
    (hrep : RepC jc {} [] stC lC)
    (hch : Chained (jc.map (·.1.offsets) ++ [offsetsFrom oid (sizes jo)]))
    (hg0 : img.find oid = some g0)
    (hparse : parseChunk g0.data = (sized (jo.take j), e, rest))
    (hcase : (e = .clean ∧ rest = []) ∨
     (e = .eof ∧ rest ≠ [] ∧ j < jo.length ∧ ∃ r t, r.WF ∧ t ≠ [] ∧ rest ++ t = encRecord r) ∨
     (∃ m, 1 ≤ m ∧ rest = List.replicate m 0 ∧ e = if m < 28 then .eof else .invalid))
    (hstJ : stRun (jo.take j) stC = some stJ) (hlJ : idxRun (chunkOps oid (jo.take j)) lC = some lJ)
    (hok : HOK (flatOps jc ++ chunkOps oid (jo.take j)) (emptyStore cfg))
    (hlt : ∀ p ∈ jc, p.1.id ≠ oid) :
    ∃ a', openLoop cfg img.linkedIds { sm := emptyStore cfg, fs := img } = (.ok a', a') ∧
      a'.sm.st = stJ ∧ a'.sm.log = lJ ∧
      CK0C7c a'.sm (flatOps jc ++ chunkOps oid (jo.take j)) ∧ CKresC7c oid a'.sm ∧
      a'.sm.cache.lastEvictable = prevLastOf (jc.map (·.1)) ∧
      ((a'.sm.closed = jc.map (·.1) ∧ a'.lastTruncated = true ∧ a'.prevEnd = some oid) ∨
        (∃ c, a'.sm.closed = jc.map (·.1) ++ [c] ∧ c.id = oid ∧ ∃ k, a'.prevEnd = some (oid + k))) := by
  have hchc : Chained (jc.map (·.1.offsets)) := chained_prefix_C5b _ _ hch
  have hck0 : CK0C7c (emptyStore cfg) [] := by
    refine ⟨⟨⟨rfl, List.Pairwise.nil⟩, fun e he => (by cases he)⟩, SortedLog.nil,
      fun e he => (by cases he), fun e he => (by cases he), fun e he => (by cases he)⟩
  obtain ⟨a1, m1, m2, m3, m4, _, _, _, _, _, m10, m11, _, _, m14⟩ :=
    loads_ck_C7c cfg jc { sm := emptyStore cfg, fs := img } [] (chunkOps oid (jo.take j)) stC lC hrep
      hfiles hchc (fun p _ => rfl) rfl hck0 hok
  rw [List.nil_append] at m10
  obtain ⟨hfs1, hevs1⟩ := m1.fs_evs
  obtain ⟨g1, hfg1, hd1, _, _⟩ := Fs.find_syncAll_some (jc.map (·.1.id)) hg0
  obtain ⟨p1, p2⟩ := loads_prevEnd_C5b jc _ _ m1
    (fun p hp => by
      obtain ⟨f, k1, k2, k3, _, k5⟩ := hfiles p hp
      exact ⟨f, k1, k2, k3, k5⟩)
  have hgap : gapCheck a1 oid = false := by
    cases hl : jc.getLast? with
    | none =>
      have : jc = [] := List.getLast?_eq_none_iff.mp hl
      rw [p1 this]; rfl
    | some p =>
      have hp := p2 p hl
      obtain ⟨ys, hsplit⟩ := List.getLast?_eq_some_iff.mp hl
      have : lastOff p.1.offsets = oid := by
        rw [hsplit, List.map_append, List.append_assoc] at hch
        have := chained_last_C5b _ _ _ hch
        rw [offsetsFrom_headD_C5b] at this
        exact this
      simp [gapCheck, hp, this]
  have hf1 : a1.fs.find oid = some g1 := by rw [hfs1]; exact hfg1
  have hoc := openChunk_prefix_C5b ht hparse hcase oid
  rw [← hd1] at hoc
  have hcl1 : a1.sm.closed = jc.map (·.1) := by rw [m4]; rfl
  -- the cache before the newest chunk
  have hcpre : CK0C7c a1.pre.sm (flatOps jc) := m10.of_fields rfl rfl rfl rfl
  have hokpre : HOK (chunkOps oid (jo.take j) ++ []) a1.pre.sm := by
    rw [List.append_nil]; exact m11.of_fields rfl rfl rfl
  have hres0 : CKresC7c oid a1.pre.sm := by
    intro x hx hj _
    exfalso
    have hx' : x ∈ lC := by
      have : a1.pre.sm.log = a1.sm.log := rfl
      rw [this, m3] at hx; exact hx
    rcases idxRun_chunk_C7c hrep.idx x hx' with k | ⟨op, hop, k⟩
    · cases k
    · obtain ⟨p, hp, hop'⟩ := mem_flatOps.mp hop
      have := opsFrom_chunk_C7c hop'
      rw [this] at k
      exact hlt p hp (by rw [← k, hj])
  have hle0 : a1.pre.sm.cache.lastEvictable = prevLastOf (jc.map (·.1)) := by
    show a1.lastLogId = _
    rw [m14, hcl1]
  obtain ⟨sm2, hrep2, k1, k2, k3, kle, k4, _, k6⟩ :=
    replay_ck_C7c oid (jo.take j) oid a1.pre.sm (flatOps jc) [] stJ lJ hcpre hokpre
      (by show stRun (jo.take j) a1.sm.st = some stJ; rw [m2]; exact hstJ)
      (by show idxRun (opsFrom oid oid (jo.take j)) a1.sm.log = some lJ; rw [m3]; exact hlJ)
  have hloop : openLoop cfg img.linkedIds { sm := emptyStore cfg, fs := img } =
      if jo.take j = [] then
        (.ok (a1.dropHeadless oid (tailTruncC5b (jo.take j) rest)),
          a1.dropHeadless oid (tailTruncC5b (jo.take j) rest))
      else
        (.ok (a1.loadedLastC5b oid (jo.take j) (tailTruncC5b (jo.take j) rest) sm2),
          a1.loadedLastC5b oid (jo.take j) (tailTruncC5b (jo.take j) rest) sm2) := by
    rw [hids, m1.openLoop_append [oid]]
    exact openLoop_last_C5b hgap hf1 hoc hrep2
  by_cases hnil : jo.take j = []
  · rw [if_pos hnil] at hloop
    refine ⟨_, hloop, ?_, ?_, ?_, ?_, ?_, .inl ⟨?_, rfl, rfl⟩⟩
    rotate_right
    · show (a1.pre.afterTrunc oid _).sm.closed = _
      rw [afterTrunc_sm_eq_C5b]; exact hcl1
    · show (a1.pre.afterTrunc oid _).sm.st = stJ
      rw [afterTrunc_sm_eq_C5b]
      rw [hnil] at hstJ
      simp only [stRun, Option.some.injEq] at hstJ
      rw [← hstJ]; exact m2
    · show (a1.pre.afterTrunc oid _).sm.log = lJ
      rw [afterTrunc_sm_eq_C5b]
      rw [hnil] at hlJ
      simp only [chunkOps, opsFrom, idxRun, Option.some.injEq] at hlJ
      rw [← hlJ]; exact m3
    · show CK0C7c (a1.pre.afterTrunc oid _).sm _
      rw [afterTrunc_sm_eq_C5b, hnil]
      simpa [chunkOps, opsFrom] using hcpre
    · show CKresC7c oid (a1.pre.afterTrunc oid _).sm
      rw [afterTrunc_sm_eq_C5b]; exact hres0
    · show (a1.pre.afterTrunc oid _).sm.cache.lastEvictable = _
      rw [afterTrunc_sm_eq_C5b]; exact hle0
  · rw [if_neg hnil] at hloop
    refine ⟨_, hloop, k1, k2, k4.of_fields rfl rfl rfl rfl, ?_, ?_,
      .inr ⟨⟨offsetsFrom oid (sizes (jo.take j)), sm2.st⟩, ?_, ?_, (encAll (jo.take j)).length, ?_⟩⟩
    · exact k6 oid hres0
    · show sm2.cache.lastEvictable = _
      rw [kle]; exact hle0
    · show sm2.closed ++ _ = _
      rw [k3.closed]
      show a1.sm.closed ++ _ = _
      rw [hcl1]
    · simp only [Closed.id, offsetsFrom_headD_C5b]
    · show some (lastOff (offsetsFrom oid (sizes (jo.take j)))) = _
      rw [lastOff_sized]

/-! ### From the journal to the read invariant -/

theorem opsFrom_located_C7c {chunk : Nat} : ∀ {rs : List Record} {start : Nat} {op : JOp},
    op ∈ opsFrom chunk start rs →
    op.chunk = chunk ∧ start ≤ op.seg.off ∧ op.seg.size = (encRecord op.r).length ∧
    ∃ pre post, encAll rs = pre ++ encRecord op.r ++ post ∧ pre.length = op.seg.off - start := by
  intro rs
  induction rs with
  | nil => intro start op h; cases h
  | cons r rs ih =>
    intro start op h
    simp only [opsFrom, List.mem_cons] at h
    rcases h with e | e
    · subst e
      exact ⟨rfl, Nat.le_refl _, rfl, [], encAll rs, by simp [encAll_cons], by simp⟩
    · obtain ⟨h1, h2, h3, pre, post, h4, h5⟩ := ih e
      refine ⟨h1, by omega, h3, encRecord r ++ pre, post, ?_, ?_⟩
      · rw [encAll_cons, h4]; simp
      · rw [List.length_append, h5]; omega

/-- An index entry that points to an `Append` record of the journal is located
in the byte string of its chunk. -/
theorem located_of_op_C7c {s : Store} {fs : Fs} {w : Worker} {jc : List (Closed × List Record)}
    {jo : List Record} (g : RepG s fs w jc jo) {x : Nat × LogData} {p : Bytes}
    (h : opAt x p ∈ allOps s jc jo) : Located s fs w x.2 (encRecord (.append x.2.id p)) := by
  rcases List.mem_append.mp h with h1 | h1
  · obtain ⟨q, hq, hop⟩ := mem_flatOps.mp h1
    obtain ⟨k1, k2, k3, pre, post, k4, k5⟩ := opsFrom_located_C7c hop
    simp only [opAt] at k1 k2 k3 k4 k5
    have hb := (g.closedRecs q hq).2.2.2
    refine ⟨.inr ⟨q.1, g.mem_closed hq, k1.symm⟩, by rw [k1]; exact k2, k3, pre, post, ?_, ?_⟩
    · rw [k1, hb]; exact k4
    · rw [k1]; exact k5
  · obtain ⟨k1, k2, k3, pre, post, k4, k5⟩ := opsFrom_located_C7c h1
    simp only [opAt] at k1 k2 k3 k4 k5
    have hb := g.openRecs.2.2.2
    refine ⟨.inl k1, by rw [k1]; exact k2, k3, pre, post, ?_, ?_⟩
    · rw [k1, hb]; exact k4
    · rw [k1]; exact k5

theorem RepC.split_C7c : ∀ (pre : List (Closed × List Record)) (c : Closed) (rs : List Record)
    (post : List (Closed × List Record)) (st st' : RState) (l l' : Log),
    RepC (pre ++ (c, rs) :: post) st l st' l' →
    ∃ l1, stRun (flatRecs (pre ++ [(c, rs)])) st = some c.state ∧
      idxRun (flatOps (pre ++ [(c, rs)])) l = some l1 ∧
      (∀ e ∈ l1, optLe (some e.2.id) c.state.last = true) ∧ RepC post c.state l1 st' l' := by
  intro pre
  induction pre with
  | nil =>
    intro c rs post st st' l l' h
    obtain ⟨st1, l1, g1, g2, g3, g4, _, g5⟩ := h
    subst g3
    exact ⟨l1, by simpa [flatRecs] using g1, by simpa [flatOps] using g2, g4, g5⟩
  | cons q pre ih =>
    intro c rs post st st' l l' h
    obtain ⟨c0, rs0⟩ := q
    obtain ⟨st1, l1, g1, g2, _, _, _, g5⟩ := h
    obtain ⟨l2, k1, k2, k3, k4⟩ := ih c rs post st1 st' l1 l' g5
    refine ⟨l2, ?_, ?_, k3, k4⟩
    · simp only [List.cons_append, flatRecs, stRun_append, g1, Option.bind_some]
      exact k1
    · simp only [List.cons_append, flatOps, idxRun_append, g2, Option.bind_some]
      exact k2

theorem pairwise_split_lt_C7c {α : Type} (f : α → Nat) {a : List α} {b : α} {c : List α} {t : List Nat}
    (h : ((a ++ b :: c).map f ++ t).Pairwise (· < ·)) :
    (∀ x ∈ a, f x < f b) ∧ (∀ x ∈ c, f b < f x) ∧ (∀ y ∈ t, f b < y) := by
  simp only [List.map_append, List.map_cons, List.append_assoc, List.cons_append] at h
  rw [List.pairwise_append] at h
  obtain ⟨_, h2, h3⟩ := h
  rw [List.pairwise_cons] at h2
  refine ⟨fun x hx => ?_, fun x hx => ?_, fun y hy => ?_⟩
  · exact h3 (f x) (List.mem_map.mpr ⟨x, hx, rfl⟩) (f b) List.mem_cons_self
  · exact h2.1 (f x) (List.mem_append_left _ (List.mem_map.mpr ⟨x, hx, rfl⟩))
  · exact h2.1 y (List.mem_append_right _ hy)

/-- The split of the journal at the end of a closed chunk. -/
theorem journal_split_C7c {s : Store} {fs : Fs} {w : Worker} {jc : List (Closed × List Record)}
    {jo : List Record} (g : RepG s fs w jc jo) (hj : JInv s fs w) {c : Closed} (hc : c ∈ s.closed) :
    ∃ pre rs post l1, jc = pre ++ (c, rs) :: post ∧
      allOps s jc jo = flatOps (pre ++ [(c, rs)]) ++ (flatOps post ++ chunkOps s.openId jo) ∧
      flatOps (pre ++ [(c, rs)]) ≠ [] ∧
      stRunO (flatOps (pre ++ [(c, rs)])) {} = some c.state ∧
      stRunO (flatOps post ++ chunkOps s.openId jo) c.state = some s.st ∧
      idxRun (flatOps post ++ chunkOps s.openId jo) l1 = some s.log ∧
      (∀ e ∈ l1, optLe (some e.2.id) c.state.last = true) ∧
      (∀ op ∈ flatOps (pre ++ [(c, rs)]), op.chunk ≤ c.id) ∧
      (∀ op ∈ flatOps post ++ chunkOps s.openId jo, c.id < op.chunk) := by
  rw [← g.closedEq] at hc
  obtain ⟨q, hq, hqc⟩ := List.mem_map.mp hc
  obtain ⟨pre, post, hsplit⟩ := List.append_of_mem hq
  obtain ⟨c0, rs⟩ := q
  simp only at hqc
  subst hqc
  obtain ⟨stC, lC, g1, g2, g3, _⟩ := g.run
  have g1' := g1
  rw [hsplit] at g1'
  obtain ⟨l1, k1, k2, k3, k4⟩ := RepC.split_C7c pre c0 rs post {} stC [] lC g1'
  have hs := hj.chunkIds_sorted
  rw [Store.chunkIds_eq, ← g.closedEq, hsplit, List.map_map] at hs
  obtain ⟨s1, s2, s3⟩ := pairwise_split_lt_C7c (fun q : Closed × List Record => q.1.id) hs
  have hrs : rs ≠ [] := by
    obtain ⟨x, tl, e⟩ := (g.closedRecs (c0, rs) hq).2.1
    simp only at e
    rw [e]; simp
  refine ⟨pre, rs, post, l1, hsplit, ?_, ?_, ?_, ?_, ?_, k3, ?_, ?_⟩
  · simp only [allOps, hsplit, flatOps_append, flatOps, List.append_nil, List.append_assoc]
  · simp only [flatOps_append, flatOps, List.append_nil]
    intro h
    have := (List.append_eq_nil_iff.mp h).2
    cases rs with
    | nil => exact hrs rfl
    | cons r rs' => simp [chunkOps, opsFrom] at this
  · rw [stRunO, flatOps_map_r]; exact k1
  · rw [stRunO, List.map_append, flatOps_map_r]
    simp only [chunkOps, opsFrom_map_r]
    rw [stRun_append, k4.st]; exact g2
  · rw [idxRun_append, k4.idx]; exact g3
  · intro op hop
    obtain ⟨q, hq', hop'⟩ := mem_flatOps.mp hop
    rw [opsFrom_chunk_C7c hop']
    rcases List.mem_append.mp hq' with h1 | h1
    · exact Nat.le_of_lt (s1 q h1)
    · simp only [List.mem_singleton] at h1; subst h1; exact Nat.le_refl _
  · intro op hop
    rcases List.mem_append.mp hop with h1 | h1
    · obtain ⟨q, hq', hop'⟩ := mem_flatOps.mp h1
      rw [opsFrom_chunk_C7c hop']
      exact s2 q hq'
    · rw [opsFrom_chunk_C7c h1]
      exact s3 s.openId (by simp)

/-- **The closed-chunk invariant, from a fresh journal.** -/
theorem closedOK_of_journal_C7c {s : Store} {fs : Fs} {w : Worker} {jc : List (Closed × List Record)}
    {jo : List Record} {m : Option LogId} (g : RepG s fs w jc jo) (hj : JInv s fs w)
    (hF : FTotC7c (allOps s jc jo) m) (hpts : ∀ x ∈ s.log, ∃ p, opAt x p ∈ allOps s jc jo) :
    ClosedOKC7c (optMaxC7b m s.st.purged) s := by
  intro c hc
  obtain ⟨pre, rs, post, l1, _, hall, hne, hQ, hR, _, _, hlo, hhi⟩ := journal_split_C7c g hj hc
  rw [hall] at hF
  obtain ⟨ha, hb⟩ := FTotC7c.split hF hne hQ hR
  refine ⟨ha, fun x hx hle => ?_⟩
  obtain ⟨p, hp⟩ := hpts x hx
  rw [hall] at hp
  rcases List.mem_append.mp hp with h1 | h1
  · have := hlo _ h1
    simp only [opAt] at this
    omega
  · have := hb _ h1 x.2.id p rfl
    rw [hle] at this; cases this

/-- Entries of a closed chunk are at or below its closing `last`, from the journal. -/
theorem clast_of_journal_C7c {s : Store} {fs : Fs} {w : Worker} {jc : List (Closed × List Record)}
    {jo : List Record} (g : RepG s fs w jc jo) (hj : JInv s fs w) :
    ∀ x ∈ s.log, ∀ c ∈ s.closed, c.id = x.2.chunk → optLe (some x.2.id) c.state.last = true := by
  intro x hx c hc hid
  obtain ⟨pre, rs, post, l1, _, _, _, _, _, hidx, hbelow, _, hhi⟩ := journal_split_C7c g hj hc
  rcases idxRun_chunk_C7c hidx x hx with k | ⟨op, hop, k⟩
  · exact hbelow x k
  · have := hhi op hop
    omega

/-- **From a fresh journal and the cache facts of a replay to the read-path
invariant.** The store has just been built by `open` (its worker tracks only the
open chunk file, with the closing `last` of the last closed chunk); its journal
is fresh; the cache satisfies what a replay establishes (`CK0C7c`, `CKresC7c`);
the eviction boundary is `none` or the closing `last` of a closed chunk. -/
theorem rdInv_of_journal_C7c {s : Store} {fs : Fs} {w : Worker} {r : RefLog}
    {jc : List (Closed × List Record)} {jo : List Record} {m : Option LogId}
    (hinv : RInv s fs w r) (g : RepG s fs w jc jo) (hF : FTotC7c (allOps s jc jo) m)
    (hcinv : CacheInv s)
    (hpts : ∀ x ∈ s.log, ∃ p, opAt x p ∈ allOps s jc jo)
    (hval : ∀ x ∈ s.log, ∀ p, (x.2.id, p) ∈ s.cache.items → opAt x p ∈ allOps s jc jo)
    (hres : CKresC7c s.openId s)
    (hle : s.cache.lastEvictable = none ∨ ∃ c ∈ s.closed, s.cache.lastEvictable = c.state.last)
    (hw : w = { files := [⟨s.openId, prevLastOf s.closed⟩] }) :
    RdInvC7b (optMaxC7b m r.purged) s fs w r ∧ ClosedOKC7c (optMaxC7b m r.purged) s := by
  have hj := hinv.j
  have hpu : s.st.purged = r.purged := by rw [hinv.abs.st]; rfl
  have hk : ClosedOKC7c (optMaxC7b m r.purged) s := by
    rw [← hpu]; exact closedOK_of_journal_C7c g hj hF hpts
  have hpay : PayG s r jc jo := hinv.payG_C5b g
  have hcur : w.cur = s.openId := by subst hw; simp [Worker.cur, newestId]
  have hfents : w.fents = [⟨s.openId, prevLastOf s.closed⟩] := by
    subst hw; simp [Worker.fents, WPc.held, reqEnts]
  have hpl := hk.prevLast hj
  have hbnd : EntOKC7b (optMaxC7b m r.purged) s s.openId s.cache.lastEvictable := by
    rcases hle with h0 | ⟨c, hc, h0⟩
    · rw [h0]; exact ⟨by simp, fun x _ hle => by simp at hle⟩
    · rw [h0]
      have := hj.closed_lt hc
      exact (hk c hc).mono (by omega)
  have hloc : ∀ x ∈ s.log, ∃ p, (x.2.id, p) ∈ r.entries ∧
      Located s fs w x.2 (encRecord (.append x.2.id p)) := by
    intro x hx
    obtain ⟨p, hp⟩ := hpts x hx
    exact ⟨p, hpay x hx p hp, located_of_op_C7c g hp⟩
  refine ⟨⟨⟨hinv.abs.st, hinv.abs.log, hinv.abs.wf, hcinv, hinv.abs.pf⟩, ?_, hloc,
    clast_of_journal_C7c g hj, ?_, by rw [hcur]; exact hbnd, ?_, ?_⟩, hk⟩
  · -- cval
    intro e he a ha hae
    have hkey : (a.1.index, a.1) ∈ logKeys s.log := by
      rw [hinv.abs.log]; exact List.mem_map.mpr ⟨a, ha, rfl⟩
    obtain ⟨le, hle', hlk⟩ := List.mem_map.mp hkey
    simp only [Prod.mk.injEq] at hlk
    have hmem : (le.2.id, e.2) ∈ s.cache.items := by
      rw [hlk.2, hae]; exact he
    have hpe : (le.2.id, e.2) ∈ r.entries := hpay le hle' e.2 (hval le hle' e.2 hmem)
    rw [hlk.2] at hpe
    rcases pairwise_mem_cases hinv.abs.wf.mono hpe ha with h1 | h1 | h1
    · rw [← h1]
    · simp only [LogId.lt_irrefl] at h1; cases h1.1
    · simp only [LogId.lt_irrefl] at h1; cases h1.1
  · -- res
    intro x hx
    rw [hcur]
    obtain ⟨p, _, hl, _⟩ := hloc x hx
    rcases hl with h1 | ⟨c, hc, h1⟩
    · left
      apply hres x hx h1
      cases hb : optLe (some x.2.id) s.cache.lastEvictable with
      | false => rfl
      | true =>
        have := hbnd.2 x hx hb
        omega
    · right
      have := hj.closed_lt hc
      omega
  · -- ents
    intro f hf
    rw [hfents] at hf
    simp only [List.mem_singleton] at hf
    subst hf
    exact hpl
  · -- lastB
    have := hF.lastB g.flat_run.1
    rw [hpu] at this
    exact this

/-! ### The recovered system -/

/-- The replay checks for a prefix of a journal whose checks hold after its first
record: what the cache analysis of `open` needs, on an empty store. -/
theorem hok_prefix_C7c (cfg : Cfg) {L P t : List JOp} (hL : L = P ++ t)
    (hhead : ∃ hd tl x, L = hd :: tl ∧ hd.r = .state x)
    (hrun : ∀ hd tl, L = hd :: tl → ∀ x, hd.r = .state x → RunOK tl x []) :
    HOK P (emptyStore cfg) := by
  cases P with
  | nil => exact .inl trivial
  | cons p P' =>
    right
    obtain ⟨hd, tl, x, hLe, hx⟩ := hhead
    rw [hL, List.cons_append, List.cons.injEq] at hLe
    obtain ⟨e1, e2⟩ := hLe
    subst e1
    refine ⟨rfl, p, P', x, rfl, hx, ?_⟩
    have := hrun p (P' ++ t) (by rw [hL]; rfl) x hx
    exact (RunOK_append.mp this).1

/-- **The system `open` builds on a crash image satisfies the read invariant.**
`y` satisfies the crash invariant of C05 (`CrashInvC5b`) and the journal-freshness
invariant (`FSysC7c`, ghost value `m`: the largest id appended so far); `img` is a
crash image of its directory without torn predecessor; `cfg'.truncate = true`.
Then `open` succeeds, and the recovered system satisfies `ReadInvC7c` for the
recovered reference prefix `r'` and a ghost value `m'' ≤ m`, besides the crash
invariant of C05 again. -/
theorem recover_readInv_C7c {y : Sys} {r : RefLog} {W : List Op} {A E K : Nat} {m : Option LogId}
    (h : CrashInvC5b y r W A E K) (hf : FSysC7c y r W m) {img : Fs} (hc : CrashImage y.fs img)
    (hnt : NoTornPredecessor img) (cfg' : Cfg) (ht : cfg'.truncate = true) :
    ∃ s' w' fs' evs n r' A' m'', openStore cfg' img = (.ok (s', w'), fs', evs) ∧
      RefLog.run {} (W.take n) = some r' ∧ (E ≤ A → K ≤ n) ∧
      CrashInvC5b (recoveredSysC5b cfg' s' w' fs') r' (W.take n) A' s'.openEnd n ∧
      ReadInvC7c (recoveredSysC5b cfg' s' w' fs') r' m'' ∧ optLe m'' m = true ∧
      FSysC7c (recoveredSysC5b cfg' s' w' fs') r' (W.take n) m'' ∧
      (w'.quiet = true ∧ s'.pending = [] ∧ s'.removed = [] ∧ w'.postponed = []) ∧
      s'.cfg = cfg' := by
  -- the recovered system and its C05 invariants (as in `recover_CrashInv_C5b`)
  have hrec : ∃ s' w' fs' evs n r' A', openStore cfg' img = (.ok (s', w'), fs', evs) ∧
      RefLog.run {} (W.take n) = some r' ∧ (E ≤ A → K ≤ n) ∧
      CrashInvC5b (recoveredSysC5b cfg' s' w' fs') r' (W.take n) A' s'.openEnd n ∧
      (w'.quiet = true ∧ s'.pending = [] ∧ s'.removed = [] ∧ w'.postponed = []) ∧
      s'.cfg = cfg' ∧ TInvC5b s' fs' w' r' (W.take n) [] := by
    obtain ⟨B, hh, hg, hS, hT⟩ := h
    have hpay := gpay_of_tsys_C5b hT
    obtain ⟨⟨s, hs, _, _⟩, ⟨s1, hs1, hli⟩, _, _⟩ := hh
    rw [hs] at hs1; cases hs1
    obtain ⟨s0, Bh, gs, hs0, hgi⟩ := hg
    rw [hs] at hs0; cases hs0
    have hlinked : y.fs.linkedIds = (s.liftC3b (ghostClosedC3b gs)).chunkIds := by
      rw [liftC3b_chunkIds]; exact hgi.linkedIds hli
    obtain ⟨s', w', fs', evs, n, r', A', q1, q2, q3, q4, q5, q6, q7, q8, qcfg, jc', jo', q9⟩ :=
      ghost_recover_full_C5b hgi.base hgi.ack (smallJ_lift_C5b (hS s hs) _) (hpay s r A E K Bh gs hs hgi)
        (hgi.live hli) hlinked hli.nodup hc hnt cfg' ht
    obtain ⟨f1, f2, f3, f4⟩ := q9.worker_facts
    obtain ⟨pl, hw⟩ := q9.worker
    have hnd : w'.pc ≠ .dead := by rw [f4]; intro e; cases e
    have hwfS : SysWF (recoveredSysC5b cfg' s' w' fs') := by
      intro _
      constructor
      · show Worker.WF w'
        rw [hw]; simp [Worker.WF]
      · exact .of_not_writing (by intro todo b t e; rw [hw] at e; cases e)
    have hunl : UnlPostC3b w' := by
      intro ids hh; rw [f4] at hh; cases hh
    have hq : w'.queue = [] := by rw [hw]
    have hTinv : TInvC5b s' fs' w' r' (W.take n) [] :=
      ⟨by rw [Store.liftC3b_nil]; exact q6, ⟨[], by
        show [] = [] ++ (w'.toRemove ++ s'.removed)
        rw [f3, q9.removed]; rfl⟩, hunl⟩
    refine ⟨s', w', fs', evs, n, r', A', q1, q2, q3, ⟨Bh, ?_, ?_, ?_, ?_⟩,
      ⟨by simp [Worker.quiet, f4, hq], q9.pending, q9.removed, by rw [hw]⟩, qcfg, hTinv⟩
    · exact ⟨⟨s', rfl, hnd, q4⟩, ⟨s', rfl, q7⟩, q9.covered, hwfS⟩
    · refine ⟨s', Bh, [], rfl, ?_, (fun p hp => by cases hp), ?_, q5, List.Pairwise.nil,
        (fun p hp => by cases hp), hunl⟩
      · exact q4
      · show w'.toRemove ++ s'.removed = _
        rw [f3, q9.removed]; rfl
    · intro s2 hs2
      have : s2 = s' := by
        simp only [recoveredSysC5b, Option.some.injEq] at hs2; exact hs2.symm
      subst this; exact q8
    · exact ⟨s', [], rfl, hTinv⟩
  obtain ⟨s', w', fs', evs, n, r', A', q1, q2, q3, q4, q7, qcfg, qT⟩ := hrec

  refine ⟨s', w', fs', evs, n, r', A', ?_⟩
  have hcsys := q4.csys
  obtain ⟨⟨sR, hsR, hdR, hinv'⟩, _⟩ := hcsys
  have : sR = s' := by
    simp only [recoveredSysC5b, Option.some.injEq] at hsR; exact hsR.symm
  subst this
  have hinv'' : RInv sR fs' w' r' := hinv'
  -- the ghost store and the image
  obtain ⟨B, hh, hg, _, _⟩ := h
  obtain ⟨⟨s, hs, _, _⟩, ⟨s1, hs1, hli⟩, _, _⟩ := hh
  rw [hs] at hs1; cases hs1
  obtain ⟨s0, Bh, gs, hs0, hgi⟩ := hg
  rw [hs] at hs0; cases hs0
  obtain ⟨jc, jo, g, hhist⟩ := hgi.base.hist
  have hlinked : y.fs.linkedIds = (s.liftC3b (ghostClosedC3b gs)).chunkIds := by
    rw [liftC3b_chunkIds]; exact hgi.linkedIds hli
  obtain ⟨stC, lC, g0, j, e, rest, n2, r2, l, N0, himg, hjl, hparse, hdata, hcase, hstJ, hlJ, hbelow,
    hP, _⟩ :=
    ghost_prep_C5b g hgi.base.inv.j hhist hgi.ack (hgi.base.dur.live_durable_C3 g) (hgi.live hli) hlinked
      hli.nodup hc hnt
  obtain ⟨s2, w2, fs2, evs2, jc', jo', p1, p2, p3, p4, _, _, _, p8, _, p10, _⟩ :=
    openStore_image_C5b cfg' ht himg hjl hparse hdata hcase hstJ hlJ hbelow
  rw [q1] at p1
  simp only [Prod.mk.injEq, Res.ok.injEq] at p1
  obtain ⟨⟨e1, e2⟩, e3, _⟩ := p1
  subst e1; subst e2; subst e3
  have g' : RepG sR fs' w' jc' jo' := p2.repG
  -- the replay checks along the replayed prefix
  obtain ⟨jc0, jo0, gg0, _, gr0⟩ := hgi.base.inv.rep
  obtain ⟨u1, u2⟩ := g.unique_C3b gg0
  subst u1; subst u2
  obtain ⟨t, ht'⟩ := hP
  have hok : HOK (flatOps jc ++ chunkOps (s.liftC3b (ghostClosedC3b gs)).openId (jo.take j))
      (emptyStore cfg') :=
    hok_prefix_C7c cfg' ht'.symm (allOps_head_state g) gr0
  obtain ⟨a', hloop, a1, a2, a3, a4, a5, a6⟩ :=
    openLoop_image_ck_C7c cfg' ht himg.ids himg.files' himg.rep himg.chained himg.g0 hparse hcase hstJ
      hlJ hok (fun p hp => Nat.ne_of_lt (himg.lt p hp))
  obtain ⟨x, a, hloop2, c1, c2, c3, c4, c5⟩ := openStore_shape_C7c q1
  rw [hloop] at hloop2
  simp only [Prod.mk.injEq, Res.ok.injEq] at hloop2
  obtain ⟨_, ea⟩ := hloop2
  subst ea
  generalize hoid : (s.liftC3b (ghostClosedC3b gs)).openId = oid at *
  generalize hPdef : flatOps jc ++ chunkOps oid (jo.take j) = P at *
  have hPsub : ∀ op ∈ P, op ∈ allOps sR jc' jo' := by
    intro op hop
    rcases p10 with ⟨k, _⟩ | ⟨k, _⟩
    · rw [k]; exact hop
    · rw [k]; exact List.mem_append_left _ hop
  -- the structure of the recovered chunk table
  have hpre : jc.map (·.1) <+: sR.closed ∧ oid ≤ sR.openId := by
    rcases a6 with ⟨k1, k2, k3⟩ | ⟨c, k1, k2, kk, k3⟩
    · rcases c5 with ⟨lastC, _, m2, _, _⟩ | ⟨m1, m2⟩
      · rw [k2] at m2; cases m2
      · rw [m1, k1, m2, k3]; exact ⟨List.prefix_refl _, Nat.le_refl _⟩
    · rcases c5 with ⟨lastC, m0, _, m1, m2⟩ | ⟨m1, m2⟩
      · rw [k1] at m0 m1
        simp only [List.getLast?_append, List.getLast?_singleton, Option.some_or,
          Option.some.injEq] at m0
        subst m0
        rw [List.dropLast_concat] at m1
        rw [m1, m2, k2]; exact ⟨List.prefix_refl _, Nat.le_refl _⟩
      · rw [m1, k1, m2, k3]; exact ⟨List.prefix_append _ _, by simp⟩
  -- the cache facts on the recovered store
  have hcinv : CacheInv sR :=
    ⟨by rw [c1]; exact a3.cinv.ok, by rw [c1, c2]; exact a3.cinv.le_last⟩
  have hpts : ∀ x ∈ sR.log, ∃ p, opAt x p ∈ allOps sR jc' jo' := by
    intro x hx
    rw [c3] at hx
    obtain ⟨p, hp⟩ := a3.pts x hx
    exact ⟨p, hPsub _ hp⟩
  have hval : ∀ x ∈ sR.log, ∀ p, (x.2.id, p) ∈ sR.cache.items → opAt x p ∈ allOps sR jc' jo' := by
    intro x hx p hp
    rw [c3] at hx; rw [c1] at hp
    exact hPsub _ (a3.val x hx p hp)
  have hres : CKresC7c sR.openId sR := by
    intro x hx hch hgt
    rw [c3] at hx
    obtain ⟨p, hp⟩ := a3.pts x hx
    rw [← hPdef] at hp
    rcases List.mem_append.mp hp with h1 | h1
    · exfalso
      obtain ⟨q, hq, hop⟩ := mem_flatOps.mp h1
      have hc1 := opsFrom_chunk_C7c hop
      simp only [opAt] at hc1
      have := himg.lt q hq
      have := hpre.2
      omega
    · have hc1 := opsFrom_chunk_C7c h1
      simp only [opAt] at hc1
      rw [c1] at hgt ⊢
      exact a4 x hx hc1 hgt
  have hle : sR.cache.lastEvictable = none ∨ ∃ c ∈ sR.closed, sR.cache.lastEvictable = c.state.last := by
    rw [c1, a5]
    unfold prevLastOf
    cases hl : (jc.map (·.1)).getLast? with
    | none => exact .inl rfl
    | some c => exact .inr ⟨c, hpre.1.subset (List.mem_of_getLast? hl), rfl⟩
  -- the journal of the recovered store is fresh
  obtain ⟨sF, T, hsF, hFinv⟩ := hf
  rw [hs] at hsF; cases hsF
  obtain ⟨jcT, joT, gT, hFT⟩ := hFinv.fresh
  have hids : T.map Closed.id = (hFinv.tinv.ids.choose) ++ (ghostClosedC3b gs).map Closed.id := by
    rw [← hgi.order]; exact hFinv.tinv.ids.choose_spec
  obtain ⟨preT, hsuf⟩ := journal_suffix_C5b gT g hids
  have hFG : FTotC7c (allOps (s.liftC3b (ghostClosedC3b gs)) jc jo) m := by
    rw [hsuf] at hFT
    exact hFT.suffix (by rw [← hsuf]; exact gT.flat_run.1) (allOps_head_state g)
  have hstP : stRunO P {} = some sR.st := by rw [p3]; exact p8
  have hFR : ∃ m'', FTotC7c (allOps sR jc' jo') m'' ∧ optLe m'' m = true := by
    by_cases hPnil : P = []
    · -- nothing was replayed: the recovered journal is the head record of a fresh chunk
      rw [hPnil] at hstP
      simp only [stRunO, List.map_nil, stRun, Option.some.injEq] at hstP
      rcases p10 with ⟨k, _⟩ | ⟨k, _⟩
      · exfalso
        obtain ⟨hd, tl, _, hk, _⟩ := allOps_head_state g'
        rw [k, hPnil] at hk; cases hk
      · rw [k, hPnil, List.nil_append]
        refine ⟨none, ⟨headOpC5b sR.st sR.openId, [], sR.st, none, rfl, rfl, ?_, trivial, rfl⟩, by simp⟩
        rw [← hstP]; rfl
    · rw [← ht'] at hFG
      obtain ⟨m1, hF1, hle1⟩ := hFG.prefix_le hPnil (by rw [ht']; exact g.flat_run.1)
      rcases p10 with ⟨k, _⟩ | ⟨k, _⟩
      · exact ⟨m1, by rw [k]; exact hF1, hle1⟩
      · refine ⟨m1, ?_, hle1⟩
        rw [k]
        exact hF1.snoc (op := headOpC5b sR.st sR.openId) hstP ⟨rfl, rfl⟩
  obtain ⟨m'', hFR', hle''⟩ := hFR
  obtain ⟨hrd, hk⟩ := rdInv_of_journal_C7c hinv'' g' hFR' hcinv hpts hval hres hle c4
  -- well-formed spec entries
  have hpay : PayG sR r' jc' jo' := hinv''.payG_C5b g'
  have hew : r'.EntriesWF := by
    intro en hen
    have hkey : (en.1.index, en.1) ∈ logKeys sR.log := by
      rw [hinv''.abs.log]; exact List.mem_map.mpr ⟨en, hen, rfl⟩
    obtain ⟨le, hle', hlk⟩ := List.mem_map.mp hkey
    simp only [Prod.mk.injEq] at hlk
    obtain ⟨p, hp⟩ := hpts le hle'
    have hpe := hpay le hle' p hp
    rw [hlk.2] at hpe
    have : p = en.2 := hinv''.abs.wf.payload_unique hpe hen
    have hwf := g'.ops_wf_C5b _ hp
    simp only [opAt] at hwf
    rw [hlk.2, this] at hwf
    exact hwf
  exact ⟨m'', q1, q2, q3, q4, ⟨sR, rfl, hdR, hinv''.j, hrd, hew, hk⟩, hle'',
    ⟨sR, [], rfl, qT, by rw [Store.liftC3b_nil]; exact ⟨jc', jo', g', hFR'⟩⟩, q7, qcfg⟩

/-! ### Freshness relative to a smaller ghost value -/

theorem freshIds_mono_C7c (es : List (LogId × Bytes)) : ∀ (m m' x : Option LogId), optLe m' m = true →
    freshIdsC7b m es = some x → ∃ x', freshIdsC7b m' es = some x' ∧ optLe x' x = true := by
  induction es with
  | nil =>
    intro m m' x hle h
    simp only [freshIdsC7b, Option.some.injEq] at h
    subst h
    exact ⟨m', rfl, hle⟩
  | cons e rest ih =>
    obtain ⟨id, p⟩ := e
    intro m m' x hle h
    simp only [freshIdsC7b] at h ⊢
    split at h
    · rename_i hlt
      have hlt' : optLt m' (some id) = true := optLt_of_le_of_lt hle hlt
      rw [if_pos hlt']
      exact ih (some id) (some id) x (optLe_refl _) h
    · cases h

theorem freshOps_mono_C7c (ops : List Op) : ∀ (m m' x : Option LogId), optLe m' m = true →
    freshOpsC7b m ops = some x → ∃ x', freshOpsC7b m' ops = some x' ∧ optLe x' x = true := by
  induction ops with
  | nil =>
    intro m m' x hle h
    simp only [freshOpsC7b, Option.some.injEq] at h
    subst h
    exact ⟨m', rfl, hle⟩
  | cons op rest ih =>
    intro m m' x hle h
    simp only [freshOpsC7b] at h ⊢
    split at h
    · rename_i m1 h1
      have : ∃ m1', freshOpC7b m' op = some m1' ∧ optLe m1' m1 = true := by
        cases op with
        | append es => exact freshIds_mono_C7c es m m' m1 hle h1
        | saveVote v =>
          simp only [freshOpC7b, Option.some.injEq] at h1 ⊢; subst h1; exact ⟨m', rfl, hle⟩
        | truncate idx =>
          simp only [freshOpC7b, Option.some.injEq] at h1 ⊢; subst h1; exact ⟨m', rfl, hle⟩
        | purge id =>
          simp only [freshOpC7b, Option.some.injEq] at h1 ⊢; subst h1; exact ⟨m', rfl, hle⟩
        | commit id =>
          simp only [freshOpC7b, Option.some.injEq] at h1 ⊢; subst h1; exact ⟨m', rfl, hle⟩
        | saveUserData d =>
          simp only [freshOpC7b, Option.some.injEq] at h1 ⊢; subst h1; exact ⟨m', rfl, hle⟩
      obtain ⟨m1', k1, k2⟩ := this
      rw [k1]
      exact ih m1 m1' x k2 h
    · cases h

/-! ### The combined invariant for crash + recovery rounds -/

/-- The crash invariant of C05, journal freshness, and the read invariant. -/
def CrashReadInvC7c (y : Sys) (r : RefLog) (W : List Op) (A E K : Nat) (m : Option LogId) : Prop :=
  CrashInvC5b y r W A E K ∧ FSysC7c y r W m ∧ ReadInvC7c y r m

theorem fresh_crashReadInv_C7c (cfg : Cfg) : CrashReadInvC7c (Sys.fresh cfg) {} [] 0 0 0 none :=
  ⟨fresh_CrashInv_C5b cfg, fresh_FSys_C7c cfg, fresh_readInv_C7c cfg⟩

theorem run_crashReadInv_C7c (steps : List Step) (y : Sys) (r r' : RefLog) (W : List Op) (A E K : Nat)
    (m m' : Option LogId) (h : CrashReadInvC7c y r W A E K m)
    (hsteps : ∀ st ∈ steps, st.journal = true)
    (hr : r.run (stepOps steps) = some r') (hwf : ∀ op ∈ stepOps steps, op.WF ∧ op.small)
    (hfr : freshOpsC7b m (stepOps steps) = some m')
    (hnd : (y.run steps).worker.pc ≠ .dead) :
    CrashReadInvC7c (y.run steps) r' (W ++ expandOps r (stepOps steps)) (y.ackRun steps A) E K m' ∧
    ∀ pre op post, steps = pre ++ Step.call op :: post → ∃ seg, ((y.run pre).call op).1 = .ok seg := by
  obtain ⟨h1, h2, h3⟩ := h
  obtain ⟨k1, k2⟩ := run_readInv_C7c steps y r r' m m' h3 hsteps hr
    (fun op hop => ⟨(hwf op hop).2, (hwf op hop).1⟩) hfr hnd
  exact ⟨⟨run_CrashInv_C5b steps y r r' W A E K h1 hsteps hr hwf hnd,
    run_FSys_C7c steps y r r' W m m' h2 hsteps hr hwf hnd hfr, k1⟩, k2⟩

end RaftLog
