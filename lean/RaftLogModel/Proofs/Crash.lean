/-
C03, part 1: the crash model and what a crash leaves of a chunk file.

`CrashImage fs img`: `img` consists of exactly the linked files of `fs`, in the
same order, with the same ids, all linked and fully durable; per file
independently the content is either cut at any length between the durable
length and the written length (a process crash keeps everything written), or
cut at a record boundary at or above the durable length and followed by a run
of zero bytes that does not exceed the written length.

Under the journal invariant every chunk file is a byte prefix of the encodings
of the chunk's records, so every file of every crash image parses to a PREFIX
of the chunk's record list (`ParsesToPrefix`).
-/
import RaftLogModel.Proofs.Recover
import RaftLogModel.Proofs.JournalCor
namespace RaftLog

/-! ### The crash model -/

/-- File-relative record boundaries of the parse of `data`: the partial sums of
the sizes of the records `parseChunk` returns (`0` first). -/
def parseBounds (data : Bytes) : List Nat := offsetsFrom 0 ((parseChunk data).1.map (·.2))

/-- `g` is what a crash may leave of the linked file `f`. -/
def CutOf (f g : File) : Prop :=
  g.id = f.id ∧ g.linked = true ∧ g.durable = g.data.length ∧
  ((∃ k, f.durable ≤ k ∧ k ≤ f.data.length ∧ g.data = f.data.take k) ∨
   (∃ b m, f.durable ≤ b ∧ b ∈ parseBounds f.data ∧ 1 ≤ m ∧ m ≤ f.data.length - b ∧
      g.data = f.data.take b ++ List.replicate m 0))

/-- Two file lists of the same length, related file by file, in order. -/
inductive PairedBy (R : File → File → Prop) : List File → List File → Prop
  | nil : PairedBy R [] []
  | cons {a b : File} {l1 l2 : List File} : R a b → PairedBy R l1 l2 → PairedBy R (a :: l1) (b :: l2)

/-- The directories a crash of the process or the machine may leave. -/
def CrashImage (fs img : Fs) : Prop :=
  PairedBy CutOf (fs.filter (fun f => f.linked)) img

/-- A process crash: everything written survives. -/
def procCrash (fs : Fs) : Fs :=
  (fs.filter (fun f => f.linked)).map (fun f => { f with durable := f.data.length })

theorem procCrash_image (fs : Fs) (h : ∀ f ∈ fs, f.durable ≤ f.data.length) :
    CrashImage fs (procCrash fs) := by
  unfold CrashImage procCrash
  have : ∀ l : List File, (∀ f ∈ l, f.durable ≤ f.data.length ∧ f.linked = true) →
      PairedBy CutOf l (l.map (fun f => { f with durable := f.data.length })) := by
    intro l
    induction l with
    | nil => intro _; exact PairedBy.nil
    | cons f l ih =>
      intro hl
      refine PairedBy.cons ?_ (ih (fun x hx => hl x (List.mem_cons_of_mem _ hx)))
      obtain ⟨h1, h2⟩ := hl f List.mem_cons_self
      exact ⟨rfl, h2, rfl, Or.inl ⟨f.data.length, h1, Nat.le_refl _, by simp⟩⟩
  apply this
  intro f hf
  obtain ⟨h1, h2⟩ := List.mem_filter.mp hf
  exact ⟨h _ h1, h2⟩

/-- A power failure at the worst moment: only what is known durable survives. -/
def powerCrash (fs : Fs) : Fs :=
  (fs.filter (fun f => f.linked)).map
    (fun f => { f with data := f.data.take f.durable, durable := (f.data.take f.durable).length })

theorem powerCrash_image (fs : Fs) (h : ∀ f ∈ fs, f.durable ≤ f.data.length) :
    CrashImage fs (powerCrash fs) := by
  unfold CrashImage powerCrash
  have : ∀ l : List File, (∀ f ∈ l, f.durable ≤ f.data.length ∧ f.linked = true) →
      PairedBy CutOf l (l.map (fun f =>
        { f with data := f.data.take f.durable, durable := (f.data.take f.durable).length })) := by
    intro l
    induction l with
    | nil => intro _; exact PairedBy.nil
    | cons f l ih =>
      intro hl
      refine PairedBy.cons ?_ (ih (fun x hx => hl x (List.mem_cons_of_mem _ hx)))
      obtain ⟨h1, h2⟩ := hl f List.mem_cons_self
      exact ⟨rfl, h2, rfl, Or.inl ⟨f.durable, Nat.le_refl _, h1, rfl⟩⟩
  apply this
  intro f hf
  obtain ⟨h1, h2⟩ := List.mem_filter.mp hf
  exact ⟨h _ h1, h2⟩

/-- A crash image given by one choice `(k, m)` per linked file: keep `k` bytes,
then `m` zero bytes (`m = 0`: a plain cut). -/
def cutFile (f : File) (km : Nat × Nat) : File :=
  { f with data := f.data.take km.1 ++ List.replicate km.2 0,
           durable := (f.data.take km.1 ++ List.replicate km.2 0).length }

def cutCrashL : List File → List (Nat × Nat) → List File
  | f :: fs, km :: kms => cutFile f km :: cutCrashL fs kms
  | _, _ => []

def cutCrash (fs : Fs) (kms : List (Nat × Nat)) : Fs := cutCrashL (fs.filter (fun f => f.linked)) kms

/-- The choices are admissible for the file. -/
def cutOKFile (f : File) (km : Nat × Nat) : Bool :=
  f.linked && decide (f.durable ≤ km.1) && decide (km.1 ≤ f.data.length) &&
    (km.2 == 0 || (decide (km.1 ∈ parseBounds f.data) && decide (km.2 ≤ f.data.length - km.1)))

def cutOKL : List File → List (Nat × Nat) → Bool
  | [], [] => true
  | f :: fs, km :: kms => cutOKFile f km && cutOKL fs kms
  | _, _ => false

def cutOK (fs : Fs) (kms : List (Nat × Nat)) : Bool := cutOKL (fs.filter (fun f => f.linked)) kms

theorem cutCrash_image (fs : Fs) (kms : List (Nat × Nat)) (h : cutOK fs kms = true) :
    CrashImage fs (cutCrash fs kms) := by
  unfold CrashImage cutCrash
  unfold cutOK at h
  generalize fs.filter (fun f => f.linked) = l at h
  induction l generalizing kms with
  | nil =>
    cases kms with
    | nil => exact PairedBy.nil
    | cons km kms => simp [cutOKL] at h
  | cons f l ih =>
    cases kms with
    | nil => simp [cutOKL] at h
    | cons km kms =>
      simp only [cutOKL, Bool.and_eq_true] at h
      refine PairedBy.cons ?_ (ih kms h.2)
      obtain ⟨k, m⟩ := km
      simp only [cutOKFile, Bool.and_eq_true, Bool.or_eq_true, decide_eq_true_eq, beq_iff_eq] at h
      obtain ⟨⟨⟨⟨h1, h2⟩, h3⟩, h4⟩, _⟩ := h
      refine ⟨rfl, h1, rfl, ?_⟩
      rcases h4 with h4 | ⟨h4, h5⟩
      · left
        refine ⟨k, h2, h3, ?_⟩
        have h4' : m = 0 := h4
        simp [cutFile, h4']
      · by_cases hm : m = 0
        · left
          exact ⟨k, h2, h3, by simp [cutFile, hm]⟩
        · right
          exact ⟨k, m, h2, h4, by omega, h5, rfl⟩

/-! ### Lookup in a crash image -/

theorem forall2_find_C3 {R : File → File → Prop} (hR : ∀ a b, R a b → b.id = a.id) (id : Nat) :
    ∀ {l1 l2 : List File}, PairedBy R l1 l2 →
      (∀ f, l1.find? (fun x => x.id == id) = some f →
        ∃ g, l2.find? (fun x => x.id == id) = some g ∧ R f g) ∧
      (l1.find? (fun x => x.id == id) = none → l2.find? (fun x => x.id == id) = none) := by
  intro l1 l2 h
  induction h with
  | nil => exact ⟨fun f hf => (by cases hf), fun _ => rfl⟩
  | @cons a b l1 l2 hab _ ih =>
    have hid := hR a b hab
    simp only [List.find?_cons, hid]
    cases hc : a.id == id with
    | true =>
      refine ⟨fun f hf => ?_, fun hn => (by cases hn)⟩
      injection hf with hf; subst hf
      exact ⟨b, rfl, hab⟩
    | false => exact ih

theorem find_filter_linked_C3 (fs : Fs) (id : Nat) {f : File} (h : fs.find id = some f)
    (hl : f.linked = true) :
    (fs.filter (fun f => f.linked)).find? (fun x => x.id == id) = some f := by
  unfold Fs.find at h
  induction fs with
  | nil => cases h
  | cons a rest ih =>
    simp only [List.find?_cons] at h
    cases hc : a.id == id with
    | true =>
      rw [hc] at h
      injection h with h; subst h
      simp only [List.filter_cons, hl, if_true, List.find?_cons, hc]
    | false =>
      rw [hc] at h
      by_cases ha : a.linked = true
      · simp only [List.filter_cons, ha, if_true, List.find?_cons, hc]
        exact ih h
      · simp only [List.filter_cons, ha, Bool.false_eq_true, if_false]
        exact ih h

/-- A linked file of `fs` that `find` returns has its image in `img`. -/
theorem CrashImage.find {fs img : Fs} (h : CrashImage fs img) {id : Nat} {f : File}
    (hf : fs.find id = some f) (hl : f.linked = true) :
    ∃ g, img.find id = some g ∧ CutOf f g :=
  (forall2_find_C3 (R := CutOf) (fun _ _ hab => hab.1) id h).1 f (find_filter_linked_C3 fs id hf hl)

theorem CrashImage.all_linked {fs img : Fs} (h : CrashImage fs img) : ∀ g ∈ img, g.linked = true := by
  unfold CrashImage at h
  generalize fs.filter (fun f => f.linked) = l at h
  induction h with
  | nil => intro g hg; cases hg
  | @cons a b l1 l2 hab _ ih =>
    intro g hg
    rcases List.mem_cons.mp hg with e | e
    · subst e; exact hab.2.1
    · exact ih g e

theorem CrashImage.ids {fs img : Fs} (h : CrashImage fs img) :
    img.map (·.id) = (fs.filter (fun f => f.linked)).map (·.id) := by
  unfold CrashImage at h
  generalize fs.filter (fun f => f.linked) = l at h
  induction h with
  | nil => rfl
  | @cons a b l1 l2 hab _ ih => simp only [List.map_cons, ih, hab.1]

theorem linkedIds_eq_foldl_C3 (fs : Fs) :
    fs.linkedIds = ((fs.filter (fun f => f.linked)).map (·.id)).foldl (fun acc i => insertNat i acc) [] := by
  unfold Fs.linkedIds
  rw [List.foldl_map]

/-- `open` sees the same chunk ids in the crash image. -/
theorem CrashImage.linkedIds {fs img : Fs} (h : CrashImage fs img) : img.linkedIds = fs.linkedIds := by
  rw [linkedIds_eq_foldl_C3, linkedIds_eq_foldl_C3]
  have hall : img.filter (fun f => f.linked) = img := by
    apply List.filter_eq_self.mpr
    exact h.all_linked
  rw [hall, h.ids]

/-! ### Byte prefixes of `encAll rs` parse to prefixes of `rs` -/

theorem AllWF.take {rs : List Record} (h : AllWF rs) (j : Nat) : AllWF (rs.take j) :=
  fun r hr => h r (List.mem_of_mem_take hr)

/-- What the parse of a damaged chunk file looks like relative to the chunk's
record list `rs`: the first `j` records, then a clean end, a torn record
(`eof`), or a run of zero bytes (`eof` / `invalid`, all-zero rest). -/
def ParsesToPrefix (rs : List Record) (data : Bytes) : Prop :=
  ∃ j, j ≤ rs.length ∧ ∃ e rest, parseChunk data = (sized (rs.take j), e, rest) ∧
    data = encAll (rs.take j) ++ rest ∧
    ((e = .clean ∧ rest = []) ∨
     (e = .eof ∧ rest ≠ [] ∧ j < rs.length ∧ ∃ r t, r.WF ∧ t ≠ [] ∧ rest ++ t = encRecord r) ∨
     (∃ m, 1 ≤ m ∧ rest = List.replicate m 0 ∧ e = if m < 28 then .eof else .invalid))

/-- A byte prefix `d` of `encAll rs`: the complete records inside it, then
nothing (cut at a boundary) or a torn record. -/
theorem prefix_parse_C3 {rs : List Record} (h : AllWF rs) : ∀ (d t : Bytes), d ++ t = encAll rs →
    ∃ j rest, j ≤ rs.length ∧ d = encAll (rs.take j) ++ rest ∧
      (j < rs.length → d.length < (encAll (rs.take (j + 1))).length) ∧
      ((rest = [] ∧ parseChunk d = (sized (rs.take j), .clean, [])) ∨
       (rest ≠ [] ∧ j < rs.length ∧ (∃ r t', r.WF ∧ t' ≠ [] ∧ rest ++ t' = encRecord r) ∧
          parseChunk d = (sized (rs.take j), .eof, rest))) := by
  induction rs with
  | nil =>
    intro d t hd
    have hd' : d = [] := (List.append_eq_nil_iff.mp hd).1
    subst hd'
    exact ⟨0, [], Nat.le_refl _, rfl, fun h => absurd h (by simp), Or.inl ⟨rfl, parseChunk_nil⟩⟩
  | cons r rs ih =>
    intro d t hd
    obtain ⟨hr, hrs⟩ := h.cons
    rw [encAll_consP] at hd
    have key : (∃ c', d = encRecord r ++ c' ∧ encAll rs = c' ++ t) ∨
        (∃ a', a' ≠ [] ∧ encRecord r = d ++ a') := by
      rcases List.append_eq_append_iff.mp hd with ⟨a', h1, h2⟩ | ⟨c', h1, h2⟩
      · by_cases ha : a' = []
        · subst ha
          refine Or.inl ⟨[], ?_, ?_⟩
          · rw [h1]; simp
          · simpa using h2.symm
        · exact Or.inr ⟨a', ha, h1⟩
      · exact Or.inl ⟨c', h1, h2⟩
    rcases key with ⟨c', h1, h2⟩ | ⟨a', ha, h1⟩
    · obtain ⟨j, rest, hj, hc, hlen, hparse⟩ := ih hrs c' t h2.symm
      refine ⟨j + 1, rest, by simp only [List.length_cons]; omega, ?_, ?_, ?_⟩
      · rw [h1, hc]; simp
      · intro hlt
        have := hlen (by simp only [List.length_cons] at hlt; omega)
        rw [h1]
        simp only [List.take_succ_cons, encAll_consP, List.length_append]
        omega
      · rcases hparse with ⟨e1, e2⟩ | ⟨e1, e2, e3, e4⟩
        · refine Or.inl ⟨e1, ?_⟩
          rw [h1, parseChunk_cons hr, e2]
          simp [sized]
        · refine Or.inr ⟨e1, by simp only [List.length_cons]; omega, e3, ?_⟩
          rw [h1, parseChunk_cons hr, e4]
          simp [sized]
    · by_cases hdn : d = []
      · subst hdn
        refine ⟨0, [], Nat.zero_le _, rfl, fun _ => ?_, Or.inl ⟨rfl, parseChunk_nil⟩⟩
        have := encRecord_length_posP r
        simp only [List.take_succ_cons, List.take_zero, encAll_consP, encAll_nilP, List.append_nil,
          List.length_nil]
        omega
      · have hlen : d.length < (encRecord r).length := by
          have := congrArg List.length h1
          have hpos : 0 < a'.length := List.length_pos_iff.mpr ha
          simp only [List.length_append] at this
          omega
        refine ⟨0, d, Nat.zero_le _, by simp, fun _ => ?_, Or.inr ⟨hdn, by simp, ⟨r, a', hr, ha, h1.symm⟩, ?_⟩⟩
        · simp only [List.take_succ_cons, List.take_zero, encAll_consP, encAll_nilP, List.append_nil]
          exact hlen
        have := parse_cut' (rs := []) AllWF.nil hr hdn ⟨a', ha, h1.symm⟩
        simpa using this

theorem encAll_take_drop_C3 (rs : List Record) (i : Nat) :
    encAll rs = encAll (rs.take i) ++ encAll (rs.drop i) := by
  rw [← encAll_appendP, List.take_append_drop]

/-- Members of `offsetsFrom start (sizes rs)` are the ends of the prefixes of `rs`. -/
theorem mem_offsetsFrom_sizes_C3 {rs : List Record} : ∀ {start b : Nat},
    b ∈ offsetsFrom start (sizes rs) → ∃ i, i ≤ rs.length ∧ b = start + (encAll (rs.take i)).length := by
  induction rs with
  | nil =>
    intro start b hb
    simp only [sizes, List.map_nil, offsetsFrom, List.mem_singleton] at hb
    exact ⟨0, Nat.le_refl _, by simp [hb]⟩
  | cons r rs ih =>
    intro start b hb
    simp only [sizes, List.map_cons, offsetsFrom, List.mem_cons] at hb
    rcases hb with hb | hb
    · exact ⟨0, Nat.zero_le _, by simp [hb]⟩
    · obtain ⟨i, hi, e⟩ := ih hb
      refine ⟨i + 1, by simp only [List.length_cons]; omega, ?_⟩
      simp only [List.take_succ_cons, encAll_consP, List.length_append]
      omega

theorem parseBounds_of_parse_C3 {data : Bytes} {rs : List Record} {e : ParseEnd} {rest : Bytes}
    (h : parseChunk data = (sized rs, e, rest)) : parseBounds data = offsetsFrom 0 (sizes rs) := by
  unfold parseBounds
  rw [h, sized_map_snd]

/-- The image of a file whose content is a byte prefix of `encAll rs` parses to
a prefix of `rs`. -/
theorem cutOf_parses_C3 {rs : List Record} (h : AllWF rs) {f g : File} {t : Bytes}
    (hf : f.data ++ t = encAll rs) (hc : CutOf f g) : ParsesToPrefix rs g.data := by
  obtain ⟨_, _, _, hcut⟩ := hc
  rcases hcut with ⟨k, _, _, hg⟩ | ⟨b, m, _, hb, hm, _, hg⟩
  · have hd : g.data ++ (f.data.drop k ++ t) = encAll rs := by
      rw [hg, ← List.append_assoc, List.take_append_drop]; exact hf
    obtain ⟨j, rest, hj, hdata, _, hp⟩ := prefix_parse_C3 h _ _ hd
    rcases hp with ⟨e1, e2⟩ | ⟨e1, e2, e3, e4⟩
    · exact ⟨j, hj, .clean, [], by rw [e2], by rw [hdata, e1], Or.inl ⟨rfl, rfl⟩⟩
    · exact ⟨j, hj, .eof, rest, e4, hdata, Or.inr (Or.inl ⟨rfl, e1, e2, e3⟩)⟩
  · -- the parse of `f.data` itself
    obtain ⟨j, rest, hj, hdata, _, hp⟩ := prefix_parse_C3 h f.data t hf
    have hparse : ∃ e, parseChunk f.data = (sized (rs.take j), e, rest) := by
      rcases hp with ⟨e1, e2⟩ | ⟨_, _, _, e4⟩
      · exact ⟨.clean, by rw [e2, e1]⟩
      · exact ⟨.eof, e4⟩
    obtain ⟨e, hparse⟩ := hparse
    rw [parseBounds_of_parse_C3 hparse] at hb
    obtain ⟨i, hi, hbi⟩ := mem_offsetsFrom_sizes_C3 hb
    rw [List.length_take] at hi
    have hij : i ≤ j := by omega
    have htt : (rs.take j).take i = rs.take i := by
      rw [List.take_take]; congr 1; omega
    rw [htt] at hbi
    have htake : f.data.take b = encAll (rs.take i) := by
      rw [hdata, encAll_take_drop_C3 (rs.take j) i, htt, List.append_assoc]
      apply List.take_left'
      omega
    refine ⟨i, by omega, (if m < 28 then ParseEnd.eof else ParseEnd.invalid), List.replicate m 0, ?_, ?_,
      Or.inr (Or.inr ⟨m, hm, rfl, rfl⟩)⟩
    · rw [hg, htake]
      exact parse_zero_tail' (h.take i) hm
    · rw [hg, htake]

/-- Any cut of a byte prefix of `encAll rs`. -/
theorem take_parses_C3 {rs : List Record} (h : AllWF rs) {d t : Bytes} (hd : d ++ t = encAll rs)
    (k : Nat) : ParsesToPrefix rs (d.take k) := by
  have hd' : d.take k ++ (d.drop k ++ t) = encAll rs := by
    rw [← List.append_assoc, List.take_append_drop]; exact hd
  obtain ⟨j, rest, hj, hdata, _, hp⟩ := prefix_parse_C3 h _ _ hd'
  rcases hp with ⟨e1, e2⟩ | ⟨e1, e2, e3, e4⟩
  · exact ⟨j, hj, .clean, [], by rw [e2], by rw [hdata, e1], Or.inl ⟨rfl, rfl⟩⟩
  · exact ⟨j, hj, .eof, rest, e4, hdata, Or.inr (Or.inl ⟨rfl, e1, e2, e3⟩)⟩

/-- A zero-filled tail from a record boundary of a byte prefix of `encAll rs`. -/
theorem zeros_parses_C3 {rs : List Record} (h : AllWF rs) {d t : Bytes} (hd : d ++ t = encAll rs)
    {b : Nat} (hb : b ∈ parseBounds d) {m : Nat} (hm : 1 ≤ m) :
    ParsesToPrefix rs (d.take b ++ List.replicate m 0) := by
  obtain ⟨j, rest, hj, hdata, _, hp⟩ := prefix_parse_C3 h d t hd
  have hparse : ∃ e, parseChunk d = (sized (rs.take j), e, rest) := by
    rcases hp with ⟨e1, e2⟩ | ⟨_, _, _, e4⟩
    · exact ⟨.clean, by rw [e2, e1]⟩
    · exact ⟨.eof, e4⟩
  obtain ⟨e, hparse⟩ := hparse
  rw [parseBounds_of_parse_C3 hparse] at hb
  obtain ⟨i, hi, hbi⟩ := mem_offsetsFrom_sizes_C3 hb
  rw [List.length_take] at hi
  have hij : i ≤ j := by omega
  have htt : (rs.take j).take i = rs.take i := by
    rw [List.take_take]; congr 1; omega
  rw [htt] at hbi
  have htake : d.take b = encAll (rs.take i) := by
    rw [hdata, encAll_take_drop_C3 (rs.take j) i, htt, List.append_assoc]
    apply List.take_left'
    omega
  refine ⟨i, by omega, (if m < 28 then ParseEnd.eof else ParseEnd.invalid), List.replicate m 0, ?_, ?_,
    Or.inr (Or.inr ⟨m, hm, rfl, rfl⟩)⟩
  · rw [htake]
    exact parse_zero_tail' (h.take i) hm
  · rw [htake]

/-! ### Lower bound: what is durable is parsed -/

theorem encAll_take_lt_C3 {rs : List Record} {i j : Nat} (hi : i ≤ rs.length) (hj : j < i) :
    (encAll (rs.take j)).length < (encAll (rs.take i)).length := by
  have e : rs.take i = rs.take j ++ (rs.take i).drop j := by
    have := List.take_append_drop j (rs.take i)
    rw [List.take_take] at this
    have hm : min j i = j := by omega
    rw [hm] at this
    exact this.symm
  have hne : (rs.take i).drop j ≠ [] := by
    intro h0
    have := congrArg List.length h0
    simp only [List.length_drop, List.length_take, List.length_nil] at this
    omega
  have hpos := encAll_length_pos hne
  rw [e, encAll_appendP, List.length_append]
  omega

theorem encAll_take_le_C3 (rs : List Record) (i : Nat) :
    (encAll (rs.take i)).length ≤ (encAll rs).length := by
  rw [encAll_take_drop_C3 rs i, List.length_append]
  omega

/-- The parse of what a crash leaves: a prefix `rs.take j` of the records, and
every record that ends within the durable part of the file is among them. -/
def ParsesLo (rs : List Record) (lo : Nat) (data : Bytes) : Prop :=
  ∃ j, j ≤ rs.length ∧ (∃ e rest, parseChunk data = (sized (rs.take j), e, rest)) ∧
    ∀ i, i ≤ rs.length → (encAll (rs.take i)).length ≤ lo → i ≤ j

theorem cutOf_parses_lo_C3 {rs : List Record} (h : AllWF rs) {f g : File} {t : Bytes}
    (hf : f.data ++ t = encAll rs) (hc : CutOf f g) : ParsesLo rs f.durable g.data := by
  obtain ⟨_, _, _, hcut⟩ := hc
  rcases hcut with ⟨k, hk1, hk2, hg⟩ | ⟨b, m, hb1, hb, hm, _, hg⟩
  · have hd : g.data ++ (f.data.drop k ++ t) = encAll rs := by
      rw [hg, ← List.append_assoc, List.take_append_drop]; exact hf
    obtain ⟨j, rest, hj, hdata, hlen, hp⟩ := prefix_parse_C3 h _ _ hd
    have hgl : g.data.length = k := by rw [hg, List.length_take]; omega
    refine ⟨j, hj, ?_, ?_⟩
    · rcases hp with ⟨e1, e2⟩ | ⟨_, _, _, e4⟩
      · exact ⟨.clean, [], e2⟩
      · exact ⟨.eof, rest, e4⟩
    · intro i hi hle
      apply Nat.le_of_not_lt
      intro hlt
      have h1 := hlen (by omega)
      have h2 : (encAll (rs.take (j + 1))).length ≤ (encAll (rs.take i)).length := by
        by_cases e : j + 1 = i
        · rw [e]; exact Nat.le_refl _
        · exact Nat.le_of_lt (encAll_take_lt_C3 hi (by omega))
      omega
  · obtain ⟨j, rest, hj, hdata, _, hp⟩ := prefix_parse_C3 h f.data t hf
    have hparse : ∃ e, parseChunk f.data = (sized (rs.take j), e, rest) := by
      rcases hp with ⟨e1, e2⟩ | ⟨_, _, _, e4⟩
      · exact ⟨.clean, by rw [e2, e1]⟩
      · exact ⟨.eof, e4⟩
    obtain ⟨e, hparse⟩ := hparse
    rw [parseBounds_of_parse_C3 hparse] at hb
    obtain ⟨i0, hi0, hbi⟩ := mem_offsetsFrom_sizes_C3 hb
    rw [List.length_take] at hi0
    have hij : i0 ≤ j := by omega
    have htt : (rs.take j).take i0 = rs.take i0 := by
      rw [List.take_take]; congr 1; omega
    rw [htt] at hbi
    have htake : f.data.take b = encAll (rs.take i0) := by
      rw [hdata, encAll_take_drop_C3 (rs.take j) i0, htt, List.append_assoc]
      apply List.take_left'
      omega
    refine ⟨i0, by omega, ⟨_, _, by rw [hg, htake]; exact parse_zero_tail' (h.take i0) hm⟩, ?_⟩
    intro i hi hle
    apply Nat.le_of_not_lt
    intro hlt
    have := encAll_take_lt_C3 hi hlt
    omega

/-! ### S1: under the journal invariant -/

/-- The bytes of a chunk file are a byte prefix of the chunk's record encodings. -/
theorem JInv.file_prefix_C3 {s : Store} {fs : Fs} {w : Worker} (hj : JInv s fs w) :
    ∀ offs ∈ s.chunks, ∃ rs, AllWF rs ∧ (∃ st rest, rs = .state st :: rest) ∧
      offsetsFrom (offs.headD 0) (recSizes rs) = offs ∧
      ∃ t, fdata fs (offs.headD 0) ++ t = encAll rs := by
  intro offs ho
  simp only [Store.chunks, List.mem_append, List.mem_map, List.mem_singleton] at ho
  rcases ho with ⟨c, hc, rfl⟩ | rfl
  · obtain ⟨rs, h1, h2, h3, h4⟩ := hj.closedBytes c hc
    exact ⟨rs, h1, h2, h3, w.inflight c.id, h4⟩
  · obtain ⟨rs, h1, h2, h3, h4⟩ := hj.openBytes
    exact ⟨rs, h1, h2, h3, w.inflight s.openId ++ s.pending, by rw [← List.append_assoc]; exact h4⟩

theorem fdata_of_find_C3 {fs : Fs} {id : Nat} {f : File} (h : fs.find id = some f) :
    fdata fs id = f.data := by
  unfold fdata; rw [h]

end RaftLog
