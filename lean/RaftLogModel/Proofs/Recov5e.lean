/-
C05 (crash recoverability), part 5: the invariants of the recovered store. Well-formed
and small state / index map from the journal prefix; the replay checks (`RunG`) for the
prefix (and the head record of a fresh chunk).
-/
import RaftLogModel.Proofs.Recov5d
namespace RaftLog

/-! ### What a replay yields from good records -/

/-- Ids in the result of an index run come from the start map or from `Append` records. -/
theorem idxRun_ids_C5b (Pr : LogId → Prop) : ∀ (ops : List JOp) (l l' : Log),
    (∀ e ∈ l, Pr e.2.id) → (∀ op ∈ ops, ∀ id p, op.r = .append id p → Pr id) →
    idxRun ops l = some l' → ∀ e ∈ l', Pr e.2.id := by
  intro ops
  induction ops with
  | nil => intro l l' hl _ h; simp only [idxRun, Option.some.injEq] at h; subst h; exact hl
  | cons op ops ih =>
    intro l l' hl hops h
    simp only [idxRun] at h
    cases h1 : idxLogO op.r op.chunk op.seg l with
    | none => rw [h1] at h; cases h
    | some l1 =>
      rw [h1] at h
      simp only at h
      refine ih l1 l' ?_ (fun o ho => hops o (List.mem_cons_of_mem _ ho)) h
      intro e he
      cases hr : op.r with
      | saveVote v => rw [hr] at h1; simp [idxLogO] at h1; subst h1; exact hl e he
      | commit id => rw [hr] at h1; simp [idxLogO] at h1; subst h1; exact hl e he
      | state x => rw [hr] at h1; simp [idxLogO] at h1; subst h1; exact hl e he
      | append id p =>
        rw [hr] at h1
        simp only [idxLogO, Option.some.injEq] at h1
        subst h1
        rcases mem_logInsert he with k | k
        · subst k; exact hops op List.mem_cons_self id p hr
        · exact hl e k
      | truncateAfter o =>
        rw [hr] at h1
        simp only [idxLogO] at h1
        split at h1
        · cases h1
        · injection h1 with h1; subst h1; exact hl e (List.mem_filter.mp he).1
      | purgeUpto id =>
        rw [hr] at h1
        simp only [idxLogO] at h1
        split at h1
        · cases h1
        · injection h1 with h1; subst h1; exact hl e (List.mem_filter.mp he).1

theorem stRun_small_C5b : ∀ (rs : List Record) (st st' : RState), (∀ r ∈ rs, RecSmall r) → StSmall st →
    stRun rs st = some st' → StSmall st' := by
  intro rs
  induction rs with
  | nil => intro st st' _ hs h; simp only [stRun, Option.some.injEq] at h; subst h; exact hs
  | cons r rs ih =>
    intro st st' hr hs h
    simp only [stRun] at h
    cases ha : st.apply r with
    | ok st1 =>
      rw [ha] at h
      have h1 := hr r List.mem_cons_self
      exact ih st1 st' (fun x hx => hr x (List.mem_cons_of_mem _ hx))
        (apply_small h1.1 h1.2 hs.1 hs.2 ha) h
    | err k => rw [ha] at h; cases h
    | panic m => rw [ha] at h; cases h

/-! ### The records of the retained journal -/

/-- Every record of the journal is well-formed. -/
theorem RepG.ops_wf_C5b {s : Store} {fs : Fs} {w : Worker} {jc : List (Closed × List Record)}
    {jo : List Record} (g : RepG s fs w jc jo) : ∀ op ∈ allOps s jc jo, op.r.WF := by
  intro op hop
  have : op.r ∈ (allOps s jc jo).map (·.r) := List.mem_map.mpr ⟨op, hop, rfl⟩
  rw [allOps_map_r] at this
  rcases List.mem_append.mp this with k | k
  · exact flatRecs_wf_C5b (fun p hp => (g.closedRecs p hp).1) _ k
  · exact g.openRecs.1 _ k

theorem flatRecs_mem_C5b {jc : List (Closed × List Record)} {r : Record} (h : r ∈ flatRecs jc) :
    ∃ p ∈ jc, r ∈ p.2 := by
  induction jc with
  | nil => cases h
  | cons q rest ih =>
    obtain ⟨c, rs⟩ := q
    simp only [flatRecs, List.mem_append] at h
    rcases h with k | k
    · exact ⟨(c, rs), List.mem_cons_self, k⟩
    · obtain ⟨p, hp, hr⟩ := ih k
      exact ⟨p, List.mem_cons_of_mem _ hp, hr⟩

/-- Every record of the journal is small, if every file holds a small journal. -/
theorem RepG.ops_small_C5b {s : Store} {fs : Fs} {w : Worker} {jc : List (Closed × List Record)}
    {jo : List Record} (g : RepG s fs w jc jo) (hj : JInv s fs w) (hS : SmallJ s fs w) :
    ∀ op ∈ allOps s jc jo, RecSmall op.r := by
  intro op hop
  have : op.r ∈ (allOps s jc jo).map (·.r) := List.mem_map.mpr ⟨op, hop, rfl⟩
  rw [allOps_map_r] at this
  rcases List.mem_append.mp this with k | k
  · obtain ⟨p, hp, hr⟩ := flatRecs_mem_C5b k
    obtain ⟨k1, _, _, k4⟩ := g.closedRecs p hp
    obtain ⟨rs, m1, m2, m3⟩ := hS p.1.id (hj.closedFs _ (g.mem_closed hp))
    have : p.2 = rs := encAll_inj_C3b k1 m1 (by rw [← k4, m3])
    rw [this] at hr
    exact m2 _ hr
  · obtain ⟨k1, _, _, k4⟩ := g.openRecs
    obtain ⟨rs, m1, m2, m3⟩ := hS s.openId (hj.annFs _ hj.openId_mem)
    have : jo = rs := encAll_inj_C3b k1 m1 (by rw [← k4, m3])
    rw [this] at k
    exact m2 _ k

theorem smallJ_lift_C5b {s : Store} {fs : Fs} {w : Worker} (h : SmallJ s fs w) (cs : List Closed) :
    SmallJ (s.liftC3b cs) fs w := by
  intro id hid
  obtain ⟨rs, h1, h2, h3⟩ := h id hid
  exact ⟨rs, h1, h2, h3⟩

/-- State and index map replayed from a prefix of a good journal. -/
theorem prefix_good_C5b {L P : List JOp} (hP : P <+: L) (hwf : ∀ op ∈ L, op.r.WF)
    (hsm : ∀ op ∈ L, RecSmall op.r) {st : RState} {l : Log}
    (h1 : stRunO P {} = some st) (h2 : idxRun P [] = some l) :
    st.WF ∧ (∀ e ∈ l, e.2.id.WF) ∧ StSmall st ∧ ∀ e ∈ l, smallId e.2.id := by
  have hmem : ∀ op ∈ P, op ∈ L := fun op hop => hP.subset hop
  refine ⟨?_, ?_, ?_, ?_⟩
  · apply stRun_wf_C5b _ _ _ _ emptyState_wf_C5b h1
    intro r hr
    obtain ⟨op, hop, e⟩ := List.mem_map.mp hr
    rw [← e]; exact hwf op (hmem op hop)
  · apply idxRun_ids_C5b LogId.WF P [] l (fun e he => by cases he) _ h2
    intro op hop id p hr
    have := hwf op (hmem op hop)
    rw [hr] at this
    exact this.1
  · apply stRun_small_C5b _ _ _ _ (show StSmall {} from ⟨trivial, trivial⟩) h1
    intro r hr
    obtain ⟨op, hop, e⟩ := List.mem_map.mp hr
    rw [← e]; exact hsm op (hmem op hop)
  · apply idxRun_ids_C5b smallId P [] l (fun e he => by cases he) _ h2
    intro op hop id p hr
    have := (hsm op (hmem op hop)).1
    rw [hr] at this
    exact this

/-! ### The replay checks on the recovered journal -/

theorem runG_recovered_C5b {G s' : Store} {jc jc' : List (Closed × List Record)} {jo jo' : List Record}
    {P : List JOp} (hrun : RunG G jc jo) (hP : P <+: allOps G jc jo)
    (hst : stRunO P {} = some s'.st)
    (hall : allOps s' jc' jo' = P ∨ allOps s' jc' jo' = P ++ [headOpC5b s'.st s'.openId]) :
    RunG s' jc' jo' := by
  intro hd tl hcons x hx
  cases P with
  | nil =>
    rcases hall with e | e
    · rw [e] at hcons; cases hcons
    · rw [e] at hcons
      simp only [List.nil_append, List.cons.injEq] at hcons
      rw [← hcons.2]; trivial
  | cons p0 P' =>
    obtain ⟨t, ht⟩ := hP
    have hG : allOps G jc jo = p0 :: (P' ++ t) := by rw [← ht]; rfl
    have hhd : hd = p0 := by
      rcases hall with e | e <;> rw [e] at hcons <;> simp only [List.cons_append, List.cons.injEq] at hcons <;>
        exact hcons.1.symm
    subst hhd
    have hok := hrun hd (P' ++ t) hG x hx
    have hokP := (RunOK_append.mp hok).1
    rcases hall with e | e
    · rw [e] at hcons
      simp only [List.cons.injEq, true_and] at hcons
      rw [← hcons]; exact hokP
    · rw [e] at hcons
      simp only [List.cons_append, List.cons.injEq, true_and] at hcons
      rw [← hcons]
      apply RunOK_append.mpr
      refine ⟨hokP, ?_⟩
      intro st' l' h1 _
      have : stRunO (hd :: P') {} = stRunO P' x := by
        simp only [stRunO, List.map_cons, stRun, hx, RState.apply]
      rw [this, h1] at hst
      injection hst with hst
      subst hst
      exact ⟨rfl, fun _ _ _ _ => trivial⟩

theorem mem_flatRecs_C5b {jc : List (Closed × List Record)} {p : Closed × List Record} (hp : p ∈ jc)
    {r : Record} (hr : r ∈ p.2) : r ∈ flatRecs jc := by
  induction jc with
  | nil => cases hp
  | cons q rest ih =>
    obtain ⟨c, rs⟩ := q
    simp only [flatRecs, List.mem_append]
    rcases List.mem_cons.mp hp with k | k
    · subst k; exact Or.inl hr
    · exact Or.inr (ih k)

/-- The recovered directory holds small journals, if the recovered journal is small. -/
theorem RecovC5b.smallJ {s' : Store} {w' : Worker} {fs' : Fs} {jc' : List (Closed × List Record)}
    {jo' : List Record} (h : RecovC5b s' w' fs' jc' jo')
    (hsm : ∀ op ∈ allOps s' jc' jo', RecSmall op.r) : SmallJ s' fs' w' := by
  have hrec : ∀ r ∈ flatRecs jc' ++ jo', RecSmall r := by
    intro r hr
    rw [← allOps_map_r s'] at hr
    obtain ⟨op, hop, e⟩ := List.mem_map.mp hr
    rw [← e]; exact hsm op hop
  intro id hid
  obtain ⟨f, hf, hfid⟩ := List.mem_map.mp hid
  have hhas : fs'.has id = true := (Fs.has_iff h.nodup id).mpr ⟨f, hf, h.allLinked f hf, hfid⟩
  have hmem := h.has id hhas
  rw [Store.chunkIds_eq] at hmem
  rcases List.mem_append.mp hmem with k | k
  · obtain ⟨c, hc, e⟩ := List.mem_map.mp k
    obtain ⟨p, hp, e2⟩ := h.mem_closed hc
    obtain ⟨f', k1, _, k3, _, k5⟩ := h.files p hp
    have hid' : p.1.id = id := by rw [e2]; exact e
    refine ⟨p.2, k5.1, fun r hr => hrec r (List.mem_append_left _ (mem_flatRecs_C5b hp hr)), ?_⟩
    rw [h.chunkBytes_eq, ← hid', fdata_of_find_C3 k1, k3]
  · simp only [List.mem_singleton] at k
    subst k
    obtain ⟨f', k1, _, k3, k5, _⟩ := h.openFile
    refine ⟨jo', k5.1, fun r hr => hrec r (List.mem_append_right _ hr), ?_⟩
    rw [h.chunkBytes_eq, fdata_of_find_C3 k1, k3]

/-! ### Payloads along the journal -/

/-- **Payload mirroring.** For every prefix `P` of the journal of `G`: an index entry of
the replay of `P` that points to an `Append` record of `P` carries the payload the
reference log holds for that id after the corresponding prefix of the writes. -/
def JPayC5b (G : Store) (fs : Fs) (w : Worker) (W : List Op) : Prop :=
  ∀ jc jo N0, RepG G fs w jc jo → W.length = N0 + cntW (allOps G jc jo) →
    ∀ P, P <+: allOps G jc jo → ∀ r' l, RefLog.run {} (W.take (N0 + cntW P)) = some r' →
      idxRun P [] = some l → ∀ e ∈ l, ∀ p, opAt e p ∈ P → (e.2.id, p) ∈ r'.entries

theorem payG_recovered_C5b {s' : Store} {jc' : List (Closed × List Record)} {jo' : List Record}
    {P : List JOp} {r' : RefLog}
    (hidx : idxRun P [] = some s'.log)
    (hpay : ∀ e ∈ s'.log, ∀ p, opAt e p ∈ P → (e.2.id, p) ∈ r'.entries)
    (hall : allOps s' jc' jo' = P ∨ allOps s' jc' jo' = P ++ [headOpC5b s'.st s'.openId]) :
    PayG s' r' jc' jo' := by
  intro e he p hop
  apply hpay e he p
  rcases hall with k | k
  · rw [k] at hop; exact hop
  · rw [k] at hop
    rcases List.mem_append.mp hop with k2 | k2
    · exact k2
    · simp only [List.mem_singleton, opAt, headOpC5b, JOp.mk.injEq] at k2
      cases k2.1

/-! ### Assembly: the recovered system satisfies the invariants -/

/-- **The recovered store satisfies the replay and linked-files invariants** for the
reference log `r'` reached by the first `n` entry-level writes. -/
theorem ghost_recover_C5b {G : Store} {fs : Fs} {w : Worker} {r : RefLog} {W : List Op}
    {Bh A E K : Nat} (hi : HInv G fs w r W Bh A E K) (hack : Bh ≤ A)
    (hS : SmallJ G fs w) (hpay : JPayC5b G fs w W)
    (hlive : ∀ id ∈ G.chunkIds, fs.has id = true) (hlinked : fs.linkedIds = G.chunkIds)
    (hn : (Fs.ids fs).Nodup) {img : Fs} (hc : CrashImage fs img) (hnt : NoTornPredecessor img)
    (cfg' : Cfg) (ht : cfg'.truncate = true) :
    ∃ s' w' fs' evs n r', openStore cfg' img = (.ok (s', w'), fs', evs) ∧
      RefLog.run {} (W.take n) = some r' ∧ (E ≤ A → K ≤ n) ∧
      RInv s' fs' w' r' ∧ LInv s' fs' w' ∧ w'.pc = .idle ∧ w'.queue = [] ∧
      s'.cfg = cfg' ∧ s'.pending = [] ∧ s'.removed = [] ∧
      s'.cache.maxItems = cfg'.cacheItems ∧ s'.cache.capacity = cfg'.cacheCap ∧
      SmallJ s' fs' w' ∧ (∃ jc' jo', RecovC5b s' w' fs' jc' jo') := by
  obtain ⟨jc, jo, g, hhist⟩ := hi.hist
  obtain ⟨s', w', fs', evs, jc', jo', P, n, r', q1, q2, q3, q4, q5, q6, q7, q8, q9, ⟨N0, hN, hn0⟩,
    q11, q12, q13, q14, q15, _, _⟩ :=
    ghost_open_C5b g hi.inv.j hhist hack (hi.dur.live_durable_C3 g) hlive hlinked hn hc hnt cfg' ht
  have q9 : allOps s' jc' jo' = P ∨ allOps s' jc' jo' = P ++ [headOpC5b s'.st s'.openId] := by
    rcases q9 with ⟨k, _⟩ | ⟨k, _⟩
    · exact Or.inl k
    · exact Or.inr k
  obtain ⟨jc0, jo0, g0, gp0, gr0⟩ := hi.inv.rep
  obtain ⟨e1, e2⟩ := g.unique_C3b g0
  subst e1; subst e2
  obtain ⟨w1, w2, w3, w4⟩ := prefix_good_C5b q6 g.ops_wf_C5b (g.ops_small_C5b hi.inv.j hS) q7 q8
  have hpayP : ∀ e ∈ s'.log, ∀ p, opAt e p ∈ P → (e.2.id, p) ∈ r'.entries := by
    intro e he p hop
    exact hpay jc jo N0 g hN P q6 r' s'.log (by rw [← hn0]; exact q11) q8 e he p hop
  have hrinv : RInv s' fs' w' r' :=
    q2.rinv w1 w2 q13 q14 q12 w3 w4 (payG_recovered_C5b q8 hpayP q9) (runG_recovered_C5b gr0 q6 q7 q9)
  obtain ⟨f1, _, _, f4⟩ := q2.worker_facts
  obtain ⟨pl, hw'⟩ := q2.worker
  refine ⟨s', w', fs', evs, n, r', q1, q11, q15, hrinv, q2.linv, f4, by rw [hw'], q3, q2.pending,
    q2.removed, q4, q5, ?_, ⟨jc', jo', q2⟩⟩
  -- every file of the recovered directory holds a small journal
  apply q2.smallJ
  intro op hop
  have hPgood : ∀ o ∈ P, RecSmall o.r := fun o ho => g.ops_small_C5b hi.inv.j hS o (q6.subset ho)
  rcases q9 with k | k
  · rw [k] at hop; exact hPgood op hop
  · rw [k] at hop
    rcases List.mem_append.mp hop with k2 | k2
    · exact hPgood op k2
    · simp only [List.mem_singleton] at k2
      subst k2
      exact ⟨trivial, fun x hx => by
        simp only [headOpC5b, Record.state.injEq] at hx; subst hx; exact w3⟩

end RaftLog
