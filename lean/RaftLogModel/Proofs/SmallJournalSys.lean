/-
C16 for recovery, system level: `SmallSys y` (every file of `y` is a prefix of
a small journal, `SmallJ`) along histories with clean restarts; what `drop`
leaves in the files, at ANY point; `FsSmall`.
-/
import RaftLogModel.Proofs.SmallJournal
import RaftLogModel.Proofs.RejectSys
namespace RaftLog

def SmallSys (y : Sys) : Prop := ∀ s, y.store = some s → SmallJ s y.fs y.worker

theorem SmallJ.settle {s : Store} {fs : Fs} {w : Worker} (h : SmallJ s fs w) : SmallJ s fs w.settle :=
  h.transport (fun _ hid => hid) (fun id => by simp only [chunkBytes, Worker.settle_inflight])

/-! ### Steps -/

theorem SmallSys.call {y : Sys} {r r' : RefLog} (h : RSys y r) (hS : SmallSys y) {op : Op}
    (hl : r.legal op = true) (hc : r.call op = .ok r') (hsm : op.small) (hwf : op.WF) :
    SmallSys (y.call op).2.1 := by
  obtain ⟨s, hs, hd, hi⟩ := h
  have hfs := Fs.has_false_of_lt hi.j.fsLt
  obtain ⟨seg, s', effs, heq, _, hS'⟩ := call_RS y.fs.has hi (hS s hs) hfs hl hc hsm hwf
  obtain ⟨e1, _⟩ := Sys.call_eq y op s hs hd
  rw [e1, heq]
  intro s2 hs2
  have : s' = s2 := by injection hs2
  subst this
  exact hS'.settle

theorem SmallSys.flush {y : Sys} {r : RefLog} (h : RSys y r) (hS : SmallSys y) (cb : Option Nat) :
    SmallSys (y.flush cb).2.1 := by
  obtain ⟨s, hs, hd, hi⟩ := h
  rw [Sys.flush_eq y cb s hs hd]
  intro s2 hs2
  have : (s.flush cb).1 = s2 := by injection hs2
  subst this
  have h1 : SmallJ (s.flush cb).1 (effFs (s.flush cb).2 y.fs) (y.worker.push (effQ (s.flush cb).2)) :=
    (hS s hs).transport (fun id hid => by rw [effFs_flush] at hid; exact hid) (flush_bytes hi.j cb)
  exact h1.settle

theorem SmallJ.wstep {s : Store} {c c' : WCtx} (h : SmallJ s c.fs c.w) (g : StepGood c c')
    (hids : Fs.ids c'.fs = Fs.ids c.fs) (cache : Cache) :
    SmallJ ({ s with cache := cache } : Store) c'.fs c'.w :=
  h.transport (fun id hid => by rw [hids] at hid; exact hid)
    (fun id => by
      have e : chunkBytes ({ s with cache := cache } : Store) c'.fs c'.w id = chunkBytes s c'.fs c'.w id :=
        chunkBytes_congr c'.fs c'.w id rfl rfl
      rw [e]
      simp only [chunkBytes]; rw [g.bytes])

theorem SmallSys.worker {y : Sys} {r : RefLog} (h : RSys y r) (hS : SmallSys y) (out : Outcome)
    (hnd : (y.workerStep out).1.worker.pc ≠ .dead) : SmallSys (y.workerStep out).1 := by
  obtain ⟨s, hs, hd, hi⟩ := h
  simp only [Sys.workerStep, hs] at hnd ⊢
  have g := WCtx.step_good { w := y.worker, fs := y.fs, cache := s.cache } out hi.j.wok
    (hi.j.annFs _ (by simp [Worker.announced])) hnd
  have hids := WCtx.step_ids { w := y.worker, fs := y.fs, cache := s.cache } out
  intro s2 hs2
  have e : ({ s with cache := (WCtx.step { w := y.worker, fs := y.fs, cache := s.cache } out).cache } : Store)
      = s2 := by injection hs2
  subst e
  exact SmallJ.wstep (c := { w := y.worker, fs := y.fs, cache := s.cache }) (hS s hs) g hids _

theorem SmallSys.workerIdle {y : Sys} {r : RefLog} (h : RSys y r) (hS : SmallSys y)
    (hnd : y.workerIdle.1.worker.pc ≠ .dead) : SmallSys y.workerIdle.1 := by
  obtain ⟨s, hs, hd, hi⟩ := h
  simp only [Sys.workerIdle, hs] at hnd ⊢
  have g := WCtx.runQuiet_good y.worker.fuel { w := y.worker, fs := y.fs, cache := s.cache }
    hi.j.wok hi.j.annFs hnd
  have hids := WCtx.runQuiet_ids y.worker.fuel { w := y.worker, fs := y.fs, cache := s.cache }
  intro s2 hs2
  have e : ({ s with cache := (WCtx.runQuiet y.worker.fuel
      { w := y.worker, fs := y.fs, cache := s.cache }).cache } : Store) = s2 := by injection hs2
  subst e
  exact SmallJ.wstep (c := { w := y.worker, fs := y.fs, cache := s.cache }) (hS s hs) g hids _

theorem SmallSys.drain {y : Sys} (hS : SmallSys y) : SmallSys y.drain := by
  unfold Sys.drain
  cases hs : y.store with
  | none => simp only; exact hS
  | some s =>
    simp only
    intro s2 hs2
    have e : ({ s with cache := s.cache.drainEvictable } : Store) = s2 := by injection hs2
    subst e
    exact (hS s hs).transport (fun _ hid => hid) (fun id => chunkBytes_congr y.fs y.worker id rfl rfl)

theorem fresh_SmallSys (cfg : Cfg) : SmallSys (Sys.fresh cfg) := by
  have hshape : ∃ s, (Sys.fresh cfg).store = some s ∧ s.pending = [] ∧
      s.openOffsets = [0, 0 + (encRecord (.state {})).length] ∧
      (Sys.fresh cfg).fs = [{ id := 0, data := encRecord (.state {}) }] ∧
      (Sys.fresh cfg).worker = { files := [⟨0, none⟩] } := by
    simp [Sys.fresh, Sys.open, openStore, Fs.linkedIds, openLoop, emptyStore, Fs.has, Fs.find,
      Fs.create, Fs.write, Fs.update]
  obtain ⟨s0, hs0, h4, h5, h6, h7⟩ := hshape
  intro s hs
  rw [hs0] at hs; cases hs
  intro id hid
  rw [h6] at hid
  simp only [Fs.ids, List.map_cons, List.map_nil, List.mem_singleton] at hid
  subst hid
  have hinf : (Sys.fresh cfg).worker.inflight 0 = [] := by
    rw [h7]; simp [Worker.inflight, infl, Worker.rest, WPc.inHand, WPc.todoBytes, inflightFrom]
  have hfd : fdata (Sys.fresh cfg).fs 0 = encRecord (.state {}) := by
    rw [h6]; simp [fdata, Fs.find]
  refine ⟨[.state {}], ?_, ?_, ?_⟩
  · intro x hx
    simp only [List.mem_singleton] at hx; subst hx
    exact ⟨trivial, trivial, trivial, trivial, trivial⟩
  · intro x hx
    simp only [List.mem_singleton] at hx; subst hx
    refine ⟨trivial, ?_⟩
    intro z hz
    injection hz with hz
    subst hz
    exact ⟨trivial, trivial⟩
  · simp only [chunkBytes, hfd, hinf, h4]
    simp

theorem SmallSys.step {y : Sys} {r r' : RefLog} (h : RSys y r) (hS : SmallSys y) (st : Step)
    (hst : st.journal = true)
    (hr : r.run (stepOps [st]) = some r') (hwf : ∀ op, st = .call op → op.WF ∧ op.small)
    (hnd : (y.step st).worker.pc ≠ .dead) : SmallSys (y.step st) := by
  cases st with
  | drop => cases hst
  | openWith c => cases hst
  | drain => exact hS.drain
  | flush cb => exact SmallSys.flush h hS cb
  | worker out => exact SmallSys.worker h hS out hnd
  | workerIdle => exact SmallSys.workerIdle h hS hnd
  | call op =>
    simp only [stepOps, RefLog.run] at hr
    split at hr
    · rename_i hl
      split at hr
      · rename_i r1 hc
        exact SmallSys.call h hS hl hc (hwf op rfl).2 (hwf op rfl).1
      · cases hr
    · cases hr

theorem run_SmallSys (steps : List Step) : ∀ (y : Sys) (r r' : RefLog), RSys y r → SmallSys y →
    (∀ st ∈ steps, st.journal = true) → r.run (stepOps steps) = some r' →
    (∀ op ∈ stepOps steps, op.WF ∧ op.small) → (y.run steps).worker.pc ≠ .dead →
    SmallSys (y.run steps) := by
  induction steps with
  | nil => intro y r r' _ hS _ _ _ _; exact hS
  | cons st rest ih =>
    intro y r r' h hS hst hr hwf hnd
    simp only [Sys.run, List.foldl_cons] at hnd ⊢
    have hrest : ∀ s ∈ rest, s.journal = true := fun s hs => hst s (List.mem_cons_of_mem _ hs)
    have hnd1 : (y.step st).worker.pc ≠ .dead := by
      intro hdead
      exact hnd (Sys.run_dead rest _ hrest hdead)
    rw [stepOps_cons, RefLog.run_append] at hr
    cases hr1 : r.run (stepOps [st]) with
    | none => rw [hr1] at hr; cases hr
    | some r1 =>
      rw [hr1] at hr
      simp only [Option.bind_some] at hr
      have hwf1 : ∀ op, st = .call op → op.WF ∧ op.small := by
        intro op e; subst e; exact hwf op (by simp [stepOps])
      have hwf2 : ∀ op ∈ stepOps rest, op.WF ∧ op.small := by
        intro op hop
        apply hwf op
        rw [stepOps_cons]; exact List.mem_append_right _ hop
      exact ih (y.step st) r1 r' (h.step st (hst st List.mem_cons_self) hr1 hwf1 hnd1)
        (hS.step h st (hst st List.mem_cons_self) hr1 hwf1 hnd1) hrest hr hwf2 hnd

/-! ### Clean restart -/

theorem restart_SmallSys (y : Sys) (r : RefLog) (cfg' : Cfg) (h : CSys y r) (hS : SmallSys y)
    (hc : ∃ s, y.store = some s ∧ y.worker.quiet = true ∧ s.pending = [] ∧ s.removed = [] ∧
      y.worker.postponed = []) :
    SmallSys ((y.step .drop).step (.openWith cfg')) := by
  obtain ⟨s, hs, hq, hp, hrem, hpost⟩ := hc
  obtain ⟨⟨s0, hs0, hd, hinv⟩, ⟨s1, hs1, hli⟩⟩ := h
  rw [hs] at hs0 hs1; cases hs0; cases hs1
  obtain ⟨hpc, hqe⟩ := quiet_alive hq hd
  have hinf := inflight_quiet hpc hqe
  have htr : y.worker.toRemove = [] := by rw [toRemove_quiet hpc hqe]; exact hpost
  obtain ⟨d1, d2, _, _⟩ := dropStore_quiet y s hs hpc hqe
  have hlinked := hli.linkedIds_eq hinv.j hrem htr
  obtain ⟨s', ho, _, _, _, k4, k5, _⟩ := openStore_of_rep cfg' hinv hinf hp hlinked
  have hy2 : (y.step .drop).step (.openWith cfg') =
      { ({ (y.step .drop) with cfg := cfg' } : Sys) with
        fs := y.fs.syncAll s.chunkIds, store := some s',
        worker := { files := [⟨s.openId, prevLastOf s.closed⟩] }, locked := true } := by
    simp only [Sys.step, Sys.open, d2, d1, ho]
    simp
  rw [hy2]
  intro s2 hs2
  have e : s' = s2 := by injection hs2
  subst e
  obtain ⟨f1, _, _⟩ := reopen_worker_facts s.openId (prevLastOf s.closed)
  refine (hS s hs).transport (fun _ hid => (by
    have e0 := Fs.ids_syncAll y.fs s.chunkIds
    rw [← e0]; exact hid)) (fun id => ?_)
  have e1 : s'.openId = s.openId := by simp [Store.openId, k4]
  simp only [chunkBytes, f1, hinf, k5, hp, e1, fdata_syncAll]

/-! ### From small journals to `FsSmall` -/

theorem encAll_prefix_recordsSJ : ∀ (rs' rs : List Record) (x : Bytes), AllWF rs' → AllWF rs →
    encAll rs' ++ x = encAll rs → ∃ more, rs = rs' ++ more := by
  intro rs'
  induction rs' with
  | nil => intro rs _ _ _ _; exact ⟨rs, rfl⟩
  | cons r' rest ih =>
    intro rs x h1 h2 he
    cases rs with
    | nil =>
      exfalso
      simp only [encAll_cons, encAll_nil, List.append_assoc, List.append_eq_nil_iff] at he
      exact encRecord_ne_nil r' he.1
    | cons r rs2 =>
      simp only [encAll_cons, List.append_assoc] at he
      have e1 := record_rt r' (encAll rest ++ x) (h1 r' List.mem_cons_self)
      have e2 := record_rt r (encAll rs2) (h2 r List.mem_cons_self)
      rw [he, e2] at e1
      injection e1 with e3 e4
      subst e3
      obtain ⟨more, hm⟩ := ih rs2 x (fun a ha => h1 a (List.mem_cons_of_mem _ ha))
        (fun a ha => h2 a (List.mem_cons_of_mem _ ha)) e4.symm
      exact ⟨more, by rw [hm]; rfl⟩

theorem DataSmall_of_prefixSJ {data tail : Bytes} {rs : List Record} (hwf : AllWF rs)
    (hsm : AllSmallSJ rs) (h : data ++ tail = encAll rs) : DataSmall data := by
  obtain ⟨rs', h1, h2, h3, _⟩ := parseChunk_canon data
  have he : encAll rs' ++ ((parseChunk data).2.2 ++ tail) = encAll rs := by
    rw [← h, ← List.append_assoc, ← h3]
  obtain ⟨more, hm⟩ := encAll_prefix_recordsSJ rs' rs _ h2 hwf he
  intro x hx
  rw [h1] at hx
  have : x.1 ∈ rs' := by
    rw [← sized_map_fst rs']
    exact List.mem_map.mpr ⟨x, hx, rfl⟩
  exact hsm x.1 (by rw [hm]; exact List.mem_append_left _ this)

/-- Every file holds a prefix of a small journal. -/
def PrefixSmall (fs : Fs) : Prop :=
  ∀ id ∈ Fs.ids fs, ∃ rs tail, AllWF rs ∧ AllSmallSJ rs ∧ fdata fs id ++ tail = encAll rs

theorem PrefixSmall.fsSmall {fs : Fs} (h : PrefixSmall fs) : FsSmall fs := by
  intro id _ f hf
  have hid : id ∈ Fs.ids fs := (Fs.find_isSome_iff fs id).mp (by rw [hf]; rfl)
  obtain ⟨rs, tail, h1, h2, h3⟩ := h id hid
  have hfd : fdata fs id = f.data := by unfold fdata; rw [hf]
  rw [hfd] at h3
  exact DataSmall_of_prefixSJ h1 h2 h3

theorem SmallJ.prefixSmall {s : Store} {fs : Fs} {w : Worker} (h : SmallJ s fs w) : PrefixSmall fs := by
  intro id hid
  obtain ⟨rs, h1, h2, h3⟩ := h id hid
  exact ⟨rs, w.inflight id ++ (if s.openId = id then s.pending else []), h1, h2, by
    rw [← h3]; simp [chunkBytes]⟩

/-! ### What `drop` leaves in the files -/

/-- One worker step, whatever happens (also when the worker dies): every file
afterwards is the file before plus a prefix of what was in flight to it. -/
theorem WCtx.step_fdata_prefix (c : WCtx) (out : Outcome) (hcur : c.w.cur ∈ Fs.ids c.fs) :
    ∀ id, ∃ ext, fdata (c.step out).fs id ++ ext = fdata c.fs id ++ c.w.inflight id := by
  have hcur' : newestId c.w.files ∈ Fs.ids c.fs := hcur
  have hwr : ∀ (d rest' : Bytes) (todoRest : List Bytes) (b : List WReq) (t : Option WReq),
      c.w.pc = .writing ((d ++ rest') :: todoRest) b t → ∀ id,
      ∃ ext, fdata (c.fs.write (newestId c.w.files) d) id ++ ext = fdata c.fs id ++ c.w.inflight id := by
    intro d rest' todoRest b t hpc id
    rw [fdata_write _ _ _ _ hcur']
    simp only [Worker.inflight, infl, Worker.cur, hpc, WPc.todoBytes, List.flatten_cons]
    by_cases e : newestId c.w.files = id
    · exact ⟨rest' ++ todoRest.flatten ++ inflightFrom (newestId c.w.files) c.w.rest id, by simp [e]⟩
    · exact ⟨inflightFrom (newestId c.w.files) c.w.rest id, by simp [e]⟩
  apply WCtx.step_elim (P := fun c' => ∀ id, ∃ ext, fdata c'.fs id ++ ext = fdata c.fs id ++ c.w.inflight id)
    c out
  · intro _ _ id; exact ⟨_, rfl⟩
  · intro _ _ id; exact ⟨c.w.inflight id, by simp⟩
  · intro r _ _ _ id; exact ⟨c.w.inflight id, by simp⟩
  · intro r _ _ _ id; exact ⟨c.w.inflight id, by simp⟩
  · intro b t _ _ id; exact ⟨c.w.inflight id, by simp⟩
  · intro d rest b t _ _ _ id; exact ⟨c.w.inflight id, by simp⟩
  · intro d rest b t k hpc _ _ _ _ id
    have hpc' : c.w.pc = .writing ((d.take k ++ d.drop k) :: rest) b t := by
      rw [List.take_append_drop]; exact hpc
    simpa using hwr (d.take k) (d.drop k) rest b t hpc' id
  · intro d b t hpc _ _ id
    have hpc' : c.w.pc = .writing ((d ++ []) :: []) b t := by rw [List.append_nil]; exact hpc
    simpa using hwr d [] [] b t hpc' id
  · intro d d' rest b t hpc _ _ id
    have hpc' : c.w.pc = .writing ((d ++ []) :: d' :: rest) b t := by rw [List.append_nil]; exact hpc
    simpa using hwr d [] (d' :: rest) b t hpc' id
  · intro b t _ _ _ id; exact ⟨c.w.inflight id, by simp⟩
  · intro b t f rest _ _ _ _ id; exact ⟨c.w.inflight id, by simp⟩
  · intro b t f rest _ _ _ _ id; exact ⟨c.w.inflight id, by simp [fdata_sync]⟩
  · intro b t _ _ _ id; exact ⟨c.w.inflight id, by simp⟩
  · intro b t f rest _ _ _ _ id; exact ⟨c.w.inflight id, by simp⟩
  · intro b t f rest _ _ _ _ id; exact ⟨c.w.inflight id, by simp [fdata_sync]⟩
  · intro _ _ id; exact ⟨c.w.inflight id, by simp⟩
  · intro i rest _ _ _ id; exact ⟨c.w.inflight id, by simp⟩
  · intro i _ _ _ id; exact ⟨c.w.inflight id, by simp [fdata_unlink]⟩
  · intro i j rest _ _ _ id; exact ⟨c.w.inflight id, by simp [fdata_unlink]⟩

theorem WCtx.runQuiet_fdata_prefix (n : Nat) : ∀ (c : WCtx), c.w.pc.ok c.w.files →
    (∀ a ∈ c.w.announced, a ∈ Fs.ids c.fs) →
    ∀ id, ∃ ext, fdata (WCtx.runQuiet n c).fs id ++ ext = fdata c.fs id ++ c.w.inflight id := by
  induction n with
  | zero => intro c _ _ id; exact ⟨_, rfl⟩
  | succ n ih =>
    intro c hok hann id
    unfold WCtx.runQuiet
    split
    · exact ⟨_, rfl⟩
    · have hcur : c.w.cur ∈ Fs.ids c.fs := hann _ (by simp [Worker.announced])
      by_cases hd : (c.step .ok).w.pc = .dead
      · rw [WCtx.runQuiet_dead n _ hd]
        exact WCtx.step_fdata_prefix c .ok hcur id
      · have g := WCtx.step_good c .ok hok hcur hd
        have hids := WCtx.step_ids c .ok
        obtain ⟨ext, he⟩ := ih (c.step .ok) g.wok
          (fun a ha => by rw [hids]; exact hann a (g.ann.subset ha)) id
        exact ⟨ext, by rw [he, g.bytes]⟩

/-- **`drop` at any point** of a settled system under the journal invariant:
every file afterwards is the file before plus a prefix of what was in flight
to it (the pending buffer is lost); no file appears or disappears. -/
theorem dropStore_fdata_prefix (y : Sys) (s : Store) (hs : y.store = some s)
    (hj : JInv s y.fs y.worker) (hset : y.Settled) :
    (∀ id, ∃ ext, fdata y.dropStore.1.fs id ++ ext = fdata y.fs id ++ y.worker.inflight id) ∧
    Fs.ids y.dropStore.1.fs = Fs.ids y.fs := by
  by_cases hpc : y.worker.pc = .idle
  · have hqe : y.worker.queue = [] := (y.settled_iff.mp hset) hpc
    obtain ⟨d1, _⟩ := dropStore_quiet y s hs hpc hqe
    rw [d1]
    exact ⟨fun id => ⟨_, rfl⟩, rfl⟩
  · have hfs : y.dropStore.1.fs = (WCtx.runQuiet
        ({ y.worker with senderAlive := false } : Worker).fuel
        { w := { y.worker with senderAlive := false }, fs := y.fs, cache := s.cache }).fs := by
      simp only [Sys.dropStore, hs]
    rw [hfs]
    refine ⟨fun id => ?_, WCtx.runQuiet_ids _ _⟩
    exact WCtx.runQuiet_fdata_prefix _
      { w := { y.worker with senderAlive := false }, fs := y.fs, cache := s.cache } hj.wok hj.annFs id

theorem dropStore_prefixSmall (y : Sys) (s : Store) (hs : y.store = some s)
    (hj : JInv s y.fs y.worker) (hset : y.Settled) (hS : SmallJ s y.fs y.worker) :
    PrefixSmall y.dropStore.1.fs := by
  obtain ⟨h1, h2⟩ := dropStore_fdata_prefix y s hs hj hset
  intro id hid
  rw [h2] at hid
  obtain ⟨rs, k1, k2, k3⟩ := hS id hid
  obtain ⟨ext, he⟩ := h1 id
  refine ⟨rs, ext ++ (if s.openId = id then s.pending else []), k1, k2, ?_⟩
  rw [← List.append_assoc, he, ← k3]
  simp [chunkBytes]

/-- `Sys.open` panics only if `openStore` does. -/
theorem Sys.open_panic {y : Sys} {m : String} (h : y.open.1 = .panic m) :
    (openStore y.cfg y.fs).1 = .panic m := by
  unfold Sys.open at h
  split at h
  · cases h
  · split at h
    · cases h
    · cases h
    · rename_i heq
      rw [heq]
      simp only at h ⊢
      cases h
      rfl

end RaftLog
