/-
C07 after crash recovery, part 2: the journal of an `AppendsFresh` history is a
fresh journal (`FTotC7c`, Proofs/ReadRestartJournal.lean) — along histories.

`FJC7c s fs w m`: the replay invariant's record lists of the store form a fresh
journal whose ghost value (largest id appended) is `m`. It is kept by every
journalled record that passes `FreshChkC7c` (`fresh_step_C7c`, with rotation),
by batches and every public call whose appended ids are above `m`
(`call_F_C7c`), by flush, worker steps, cache changes.

As in the payload-mirroring development of C05 (Proofs/Recov5h.lean …), the
invariant is maintained for the store with ALL chunks dropped so far put back
(`T`, never shortened — `FInvC7c`, on top of `TInvC5b`), so that the journal
only grows; the journal of every directory (`open` reads the chunk files that
are still linked) is a chunk-aligned suffix of it.

All names carry the suffix `C7c`.
-/
import RaftLogModel.Proofs.Recov5k
import RaftLogModel.Proofs.ReadTrunc
import RaftLogModel.Proofs.ReadRestartJournal
namespace RaftLog

/-! ### The store-level invariant -/

/-- The journal of the store (record lists of the replay invariant) is fresh,
with ghost value `m`. -/
def FJC7c (s : Store) (fs : Fs) (w : Worker) (m : Option LogId) : Prop :=
  ∃ jc jo, RepG s fs w jc jo ∧ FTotC7c (allOps s jc jo) m

/-- For whatever witnesses the replay invariant has. -/
theorem FJC7c.of_repG {s : Store} {fs : Fs} {w : Worker} {m : Option LogId} (h : FJC7c s fs w m)
    {jc : List (Closed × List Record)} {jo : List Record} (g : RepG s fs w jc jo) :
    FTotC7c (allOps s jc jo) m := by
  obtain ⟨jc0, jo0, g0, h0⟩ := h
  obtain ⟨e1, e2⟩ := g.unique_C3b g0
  subst e1; subst e2
  exact h0

theorem FJC7c.transport {s s2 : Store} {fs fs2 : Fs} {w w2 : Worker} {m : Option LogId}
    (h : FJC7c s fs w m)
    (h1 : s2.st = s.st) (h2 : s2.log = s.log) (h3 : s2.openOffsets = s.openOffsets)
    (h5 : s2.closed = s.closed)
    (hb : ∀ id, chunkBytes s2 fs2 w2 id = chunkBytes s fs w id) : FJC7c s2 fs2 w2 m := by
  obtain ⟨jc, jo, g, hg⟩ := h
  have e1 : s2.openId = s.openId := by simp [Store.openId, h3]
  have e2 : allOps s2 jc jo = allOps s jc jo := by simp [allOps, e1]
  exact ⟨jc, jo, g.transport h1 h2 h3 h5 hb, by rw [e2]; exact hg⟩

/-! ### One journalled record -/

theorem fresh_step_C7c {s : Store} {fs : Fs} {w : Worker} {r r' : RefLog} {m : Option LogId}
    (fsHas : Nat → Bool) {rec : Record} (hinv : RInv s fs w r) (hf : FJC7c s fs w m)
    (hfs : ∀ i, s.openEnd ≤ i → fsHas i = false) (ok : StepOK s r r' rec) (hwf : rec.WF)
    (hchk : FreshChkC7c rec s.st m) :
    ∃ s' effs, s.appendAndApply fsHas rec = (.ok ⟨s.openEnd, (encRecord rec).length⟩, s', effs) ∧
      RInv s' (effFs effs fs) (w.push (effQ effs)) r' ∧
      FJC7c s' (effFs effs fs) (w.push (effQ effs)) (freshMC7c rec m) ∧ s.openEnd ≤ s'.openEnd ∧
      (∀ i, Eff.create i ∈ effs → s.openEnd ≤ i ∧ i < s'.openEnd) := by
  obtain ⟨s', effs, heq, hinv', hend, hcr⟩ := rinv_step fsHas hinv hfs ok hwf
  refine ⟨s', effs, heq, hinv', ?_, hend, hcr⟩
  have hshape := appendAndApply_shape s fsHas ok.hst ok.small
  have hne := hinv.j.openBytes.ne_nil
  generalize hs3 : ({ s with
      pending := s.pending ++ encRecord rec,
      openOffsets := s.openOffsets ++ [s.openEnd + (encRecord rec).length],
      log := idxLog rec (Store.openId { s with pending := s.pending ++ encRecord rec, openOffsets := s.openOffsets ++ [s.openEnd + (encRecord rec).length] }) ⟨s.openEnd, (encRecord rec).length⟩ s.log,
      cache := idxCache rec s.cache, st := r'.state } : Store) = s3 at hshape
  have f1 : s3.pending = s.pending ++ encRecord rec := by rw [← hs3]
  have f2 : s3.openOffsets = s.openOffsets ++ [s.openEnd + (encRecord rec).length] := by rw [← hs3]
  have f3 : s3.closed = s.closed := by rw [← hs3]
  have f4 : s3.st = r'.state := by rw [← hs3]
  have hid : Store.openId { s with pending := s.pending ++ encRecord rec, openOffsets := s.openOffsets ++ [s.openEnd + (encRecord rec).length] } = s.openId := by
    simp only [Store.openId]; exact headD_append_of_ne_nil hne _
  have f5 : s3.log = idxLog rec s.openId ⟨s.openEnd, (encRecord rec).length⟩ s.log := by
    rw [← hs3, hid]
  have hstWF : s3.st.WF := by rw [f4]; exact apply_wf hinv.j.stWF hwf ok.hst
  have hlogWF : ∀ e ∈ s3.log, e.2.id.WF := by
    obtain ⟨x, _, _, _, _⟩ := applyIndex_fields (s := s) (chunk := s.openId)
      (seg := ⟨s.openEnd, (encRecord rec).length⟩) hwf hinv.j.logWF (applyIndex_eq s ok.small _ _)
    rw [f5]; exact x
  obtain ⟨hj3, e1, e2, _⟩ := hinv.j.journal (s3 := s3) (r := rec) hwf hstWF hlogWF f2 f1 f3
  have hfs3 : fsHas s3.openEnd = false := hfs _ (by rw [e2]; omega)
  obtain ⟨s4, effs4, heq4, g1, g2, _, g4, _⟩ := tryCloseFull_ok s3 fsHas hfs3
  rw [heq4] at hshape
  rw [hshape] at heq
  simp only [Prod.mk.injEq, true_and] at heq
  obtain ⟨rfl, rfl⟩ := heq
  -- the journal of the new state
  obtain ⟨jc, jo, g, hg⟩ := hf
  obtain ⟨g3, hops3⟩ := g.journal_C3 hinv.j hwf f2 f1 f3 (by rw [f4]; exact ok.hst)
    (by rw [f5]; exact idxLogO_of_small ok.small _ _ _)
  have hbelow : ∀ e ∈ s3.log, optLe (some e.2.id) s3.st.last = true := by
    have := hinv'.abs.log_below
    rw [g1, g2] at this
    exact this
  obtain ⟨jc4, jo4, g4', _, _, hops4⟩ := g3.tryCloseFull_C3 hj3 hbelow heq4
  have hF3 : FTotC7c (allOps s3 jc (jo ++ [rec])) (freshMC7c rec m) := by
    rw [hops3]
    exact hg.snoc (op := ⟨rec, s.openId, ⟨s.openEnd, (encRecord rec).length⟩⟩) g.flat_run.1 hchk
  refine ⟨jc4, jo4, g4', ?_⟩
  rcases hops4 with e | e
  · rw [e]; exact hF3
  · rw [e]
    exact hF3.snoc (op := ⟨.state s3.st, s3.openEnd, ⟨s3.openEnd, (encRecord (.state s3.st)).length⟩⟩)
      g3.flat_run.1 ⟨rfl, rfl⟩

/-! ### Batches and calls (without dropping chunks) -/

theorem appendBatch_F_C7c (es : List (LogId × Bytes)) :
    ∀ (s : Store) (r r' : RefLog) (fsHas : Nat → Bool) (seg : Seg) (effs : List Eff)
      (fs : Fs) (w : Worker) (m m' : Option LogId),
    RInv s (effFs effs fs) (w.push (effQ effs)) r → FJC7c s (effFs effs fs) (w.push (effQ effs)) m →
    (∀ i, s.openEnd ≤ i → fsHas i = false) →
    r.appendAll es = .ok r' → (∀ e ∈ es, smallId e.1) → (∀ e ∈ es, e.1.WF ∧ bytesWF e.2) →
    freshIdsC7b m es = some m' →
    ∃ seg' s' effs', Store.appendBatch fsHas es s seg effs = (.ok seg', s', effs') ∧
      RInv s' (effFs effs' fs) (w.push (effQ effs')) r' ∧
      FJC7c s' (effFs effs' fs) (w.push (effQ effs')) m' := by
  induction es with
  | nil =>
    intro s r r' fsHas seg effs fs w m m' h hf _ hc _ _ hfr
    simp only [RefLog.appendAll] at hc
    injection hc with hc
    subst hc
    simp only [freshIdsC7b, Option.some.injEq] at hfr
    subst hfr
    exact ⟨seg, s, effs, by simp [Store.appendBatch], h, hf⟩
  | cons e rest ih =>
    obtain ⟨id, p⟩ := e
    intro s r r' fsHas seg effs fs w m m' h hf hfs hc hsm hwf hfr
    simp only [RefLog.appendAll] at hc
    simp only [freshIdsC7b] at hfr
    split at hfr
    · rename_i hlt
      split at hc
      · rename_i r1 hc1
        have ok := stepOK_append1 h.abs hc1 (hsm (id, p) List.mem_cons_self)
        obtain ⟨_, _, _, _, hpg⟩ := RefLog.append1_facts h.abs.wf hc1
        have hpu : s.st.purged = r.purged := by rw [h.abs.st]; rfl
        obtain ⟨s1, e1, heq1, hinv1, hf1, hend1, hcr1⟩ :=
          fresh_step_C7c fsHas h hf hfs ok (hwf (id, p) List.mem_cons_self)
            (show FreshChkC7c (.append id p) s.st m from ⟨hlt, by rw [hpu]; exact hpg.1⟩)
        rw [← effFs_append, Worker.push_push, ← effQ_append] at hinv1 hf1
        have hfs1 : ∀ i, s1.openEnd ≤ i →
            (fsHas i || e1.any (fun e => e == Eff.create i)) = false := by
          intro i hi
          have h1 : fsHas i = false := hfs i (by omega)
          have h2 : e1.any (fun e => e == Eff.create i) = false := by
            rw [List.any_eq_false]
            intro x hx hxe
            have : x = Eff.create i := by simpa using hxe
            subst this
            have := hcr1 i hx
            omega
          simp [h1, h2]
        obtain ⟨seg2, s2, e2, heq2, hinv2, hf2⟩ :=
          ih s1 r1 r' _ ⟨s.openEnd, (encRecord (.append id p)).length⟩ (effs ++ e1) fs w (some id) m'
            hinv1 hf1 hfs1 hc
            (fun e he => hsm e (List.mem_cons_of_mem _ he))
            (fun e he => hwf e (List.mem_cons_of_mem _ he)) hfr
        refine ⟨seg2, s2, e2, ?_, hinv2, hf2⟩
        have hidxD12 : id.index + 1 ≠ U64 := by
          have : id.index + 1 < U64 := hsm (id, p) List.mem_cons_self
          omega
        rw [appendBatch_cons_small_D12 _ _ _ _ _ _ _ hidxD12]
        rw [heq1]
        simp only
        exact heq2
      · cases hc
    · cases hfr

/-- Every call except a purge that journals a record. -/
theorem call_F_C7c {s : Store} {fs : Fs} {w : Worker} {r r' : RefLog} {m m' : Option LogId}
    (fsHas : Nat → Bool) {op : Op}
    (h : RInv s fs w r) (hf : FJC7c s fs w m) (hfs : ∀ i, s.openEnd ≤ i → fsHas i = false)
    (hl : r.legal op = true) (hc : r.call op = .ok r') (hsm : op.small) (hwf : op.WF)
    (hnp : ∀ upto, op = .purge upto → upto.index < nextIndex r.purged)
    (hfr : freshOpC7b m op = some m') :
    ∃ seg s' effs, s.call fsHas op = (.ok seg, s', effs) ∧
      FJC7c s' (effFs effs fs) (w.push (effQ effs)) m' := by
  have hpu : s.st.purged = r.purged := by rw [h.abs.st]; rfl
  have step : ∀ {rec : Record}, StepOK s r r' rec → rec.WF → FreshChkC7c rec s.st m →
      freshMC7c rec m = m' →
      ∃ seg s' effs, s.appendAndApply fsHas rec = (.ok seg, s', effs) ∧
        FJC7c s' (effFs effs fs) (w.push (effQ effs)) m' := by
    intro rec ok hw hchk hm
    obtain ⟨s', effs, heq, _, hf', _, _⟩ := fresh_step_C7c fsHas h hf hfs ok hw hchk
    exact ⟨_, s', effs, heq, by rw [← hm]; exact hf'⟩
  cases op with
  | saveVote v =>
    simp only [freshOpC7b, Option.some.injEq] at hfr
    simp only [RefLog.call] at hc
    split at hc
    · rename_i hcond
      injection hc with hc; subst hc
      exact step (stepOK_plain (rec := .saveVote v) h.abs
        (by simp [RState.apply, RState.updateVote, h.abs.st, RefLog.state, hcond])
        (Or.inl ⟨v, rfl⟩) rfl rfl rfl) hwf trivial hfr
    · cases hc
  | commit id =>
    simp only [freshOpC7b, Option.some.injEq] at hfr
    simp only [RefLog.call] at hc
    split at hc
    · cases hc
    · rename_i hcond
      injection hc with hc; subst hc
      exact step (stepOK_plain (rec := .commit id) h.abs
        (by simp [RState.apply, RState.commit, h.abs.st, RefLog.state, hcond])
        (Or.inr (Or.inl ⟨id, rfl⟩)) rfl rfl rfl) hwf trivial hfr
  | saveUserData d =>
    simp only [freshOpC7b, Option.some.injEq] at hfr
    simp only [RefLog.call] at hc
    injection hc with hc; subst hc
    refine step (stepOK_plain (rec := .state { s.st with userData := d }) h.abs
      (by simp [RState.apply, h.abs.st, RefLog.state])
      (Or.inr (Or.inr ⟨_, rfl, rfl, rfl⟩)) rfl rfl rfl) ?_ ⟨rfl, rfl⟩ hfr
    obtain ⟨h1, h2, h3, h4, _⟩ := h.j.stWF
    exact ⟨h1, h2, h3, h4, by cases d <;> simp [Op.WF] at hwf ⊢ <;> exact hwf⟩
  | append es =>
    simp only [freshOpC7b] at hfr
    simp only [Store.call]
    obtain ⟨seg0, hseg⟩ := lastSegment_some h.abs.pf.open2
    rw [hseg]
    simp only
    obtain ⟨seg', s', effs', heq, _, hf'⟩ :=
      appendBatch_F_C7c es s r r' fsHas seg0 [] fs w m m' (by simpa [effFs, effQ] using h)
        (by simpa [effFs, effQ] using hf) hfs hc hsm hwf hfr
    exact ⟨seg', s', effs', heq, hf'⟩
  | truncate idx =>
    simp only [freshOpC7b, Option.some.injEq] at hfr
    simp only [Store.call]
    rw [nextIndexChecked_eq h.abs.pf.purged]
    simp only [hpu]
    rcases RefLog.truncate_arg hc with ⟨h1, h2⟩ | ⟨h1, h2, e, he, h3⟩
    · rw [if_pos h1]
      subst h2
      exact step (stepOK_truncateAfter h.abs (Or.inl rfl) (hpu ▸ h.abs.pf.purged))
        (by rw [← hpu]; exact h.j.stWF.2.2.2.1) trivial hfr
    · rw [if_neg h1, if_neg h2]
      obtain ⟨d, hd, hde, hds⟩ := h.abs.logGet_of_entryAt he
      rw [hd]
      simp only [hde]
      subst h3
      obtain ⟨x, hx, hxd⟩ := logGet_mem hd
      have hidwf : e.1.WF := by rw [← hde, ← hxd]; exact h.j.logWF x hx
      exact step (stepOK_truncateAfter h.abs (Or.inr ⟨e, (RefLog.entryAt_some he).1, rfl⟩)
        (by rw [← hde]; exact hds)) hidwf trivial hfr
  | purge upto =>
    simp only [freshOpC7b, Option.some.injEq] at hfr
    subst hfr
    have hnn := hnp upto rfl
    have hidxD12 : upto.index + 1 ≠ U64 := by
      have : upto.index + 1 < U64 := hsm
      omega
    simp only [Store.call, if_neg hidxD12]
    rw [nextIndexChecked_eq h.abs.pf.purged]
    simp only [hpu]
    rw [if_pos hnn]
    obtain ⟨seg0, hseg⟩ := lastSegment_some h.abs.pf.open2
    rw [hseg]
    exact ⟨seg0, s, [], rfl, by simpa [effFs, effQ] using hf⟩

/-! ### Flush, settle, cache changes, worker steps -/

theorem flush_F_C7c {s : Store} {fs : Fs} {w : Worker} {m : Option LogId} (hj : JInv s fs w)
    (h : FJC7c s fs w m) (cb : Option Nat) :
    FJC7c (s.flush cb).1 (effFs (s.flush cb).2 fs) (w.push (effQ (s.flush cb).2)) m :=
  h.transport rfl rfl rfl rfl (flush_bytes hj cb)

theorem FJC7c.settle {s : Store} {fs : Fs} {w : Worker} {m : Option LogId} (h : FJC7c s fs w m) :
    FJC7c s fs w.settle m :=
  h.transport rfl rfl rfl rfl (fun id => by simp only [chunkBytes, Worker.settle_inflight])

theorem FJC7c.of_cache {s : Store} {fs : Fs} {w : Worker} {m : Option LogId} (h : FJC7c s fs w m)
    (c : Cache) : FJC7c { s with cache := c } fs w m :=
  h.transport rfl rfl rfl rfl (fun id => chunkBytes_congr fs w id rfl rfl)

theorem FJC7c.worker {s : Store} {c c' : WCtx} {m : Option LogId} (h : FJC7c s c.fs c.w m)
    (g : StepGood c c') : FJC7c s c'.fs c'.w m :=
  h.transport rfl rfl rfl rfl (fun id => by simp only [chunkBytes]; rw [g.bytes])

theorem FJC7c.congr {s s2 : Store} {fs : Fs} {w : Worker} {m : Option LogId} (h : FJC7c s fs w m)
    (h1 : s2.st = s.st) (h2 : s2.log = s.log)
    (h3 : s2.openOffsets = s.openOffsets) (h4 : s2.pending = s.pending) (h5 : s2.closed = s.closed) :
    FJC7c s2 fs w m :=
  h.transport h1 h2 h3 h5 (fun id => chunkBytes_congr fs w id h3 h4)

/-! ### With all dropped chunks put back -/

/-- `TInvC5b` (payload mirroring for the store with all dropped chunks `T` put
back) together with freshness of that store's journal. -/
structure FInvC7c (s : Store) (fs : Fs) (w : Worker) (r : RefLog) (W : List Op) (T : List Closed)
    (m : Option LogId) : Prop where
  tinv : TInvC5b s fs w r W T
  fresh : FJC7c (s.liftC3b T) fs w m

theorem FInvC7c.of_cache {s : Store} {fs : Fs} {w : Worker} {r : RefLog} {W : List Op} {T : List Closed}
    {m : Option LogId} (h : FInvC7c s fs w r W T m) (c : Cache) :
    FInvC7c { s with cache := c } fs w r W T m :=
  ⟨h.tinv.of_cache c, h.fresh.of_cache c⟩

theorem FInvC7c.step {s : Store} {c : WCtx} {r : RefLog} {W : List Op} {T : List Closed}
    {m : Option LogId} (out : Outcome) (h : FInvC7c s c.fs c.w r W T m)
    (hnd : (c.step out).w.pc ≠ .dead) : FInvC7c s (c.step out).fs (c.step out).w r W T m := by
  have hj := h.tinv.pinv.inv.j
  have hcur : c.w.cur ∈ Fs.ids c.fs := hj.annFs _ (by simp [Worker.announced])
  have g := WCtx.step_good c out hj.wok hcur hnd
  exact ⟨h.tinv.step out hnd, h.fresh.worker g⟩

theorem FInvC7c.runQuiet {s : Store} {r : RefLog} {W : List Op} {T : List Closed} {m : Option LogId}
    (n : Nat) : ∀ (c : WCtx), FInvC7c s c.fs c.w r W T m → (WCtx.runQuiet n c).w.pc ≠ .dead →
    FInvC7c s (WCtx.runQuiet n c).fs (WCtx.runQuiet n c).w r W T m := by
  induction n with
  | zero => intro c h _; exact h
  | succ n ih =>
    intro c h hnd
    unfold WCtx.runQuiet at hnd ⊢
    by_cases hq : c.w.quiet = true
    · simp only [hq, if_true] at hnd ⊢
      exact h
    · simp only [hq] at hnd ⊢
      have hnd1 : (c.step .ok).w.pc ≠ .dead := by
        intro hdead
        rw [WCtx.runQuiet_dead n _ hdead] at hnd
        exact hnd hdead
      exact ih (c.step .ok) (h.step .ok hnd1) hnd

theorem FInvC7c.flush {s : Store} {fs : Fs} {w : Worker} {r : RefLog} {W : List Op} {T : List Closed}
    {m : Option LogId} (h : FInvC7c s fs w r W T m) (cb : Option Nat) :
    FInvC7c (s.flush cb).1 (effFs (s.flush cb).2 fs) (w.push (effQ (s.flush cb).2)).settle r W T m :=
  ⟨h.tinv.flush cb, (flush_F_C7c h.tinv.pinv.inv.j h.fresh cb).settle⟩

theorem FInvC7c.call_lifted {s : Store} {fs : Fs} {w : Worker} {r r' : RefLog} {W : List Op}
    {T : List Closed} {m m' : Option LogId} (fsHas : Nat → Bool) {op : Op} (h : FInvC7c s fs w r W T m)
    (hlift : (s.liftC3b T).call fsHas op = liftResC3b T (s.call fsHas op))
    (hrem : (s.call fsHas op).2.1.removed = s.removed)
    (hfs : ∀ i, s.openEnd ≤ i → fsHas i = false)
    (hl : r.legal op = true) (hc : r.call op = .ok r') (hsm : op.small) (hwf : op.WF)
    (hnp : ∀ upto, op = .purge upto → upto.index < nextIndex r.purged)
    (hfr : freshOpC7b m op = some m') :
    FInvC7c (s.call fsHas op).2.1 (effFs (s.call fsHas op).2.2 fs)
      (w.push (effQ (s.call fsHas op).2.2)).settle r' (W ++ op.expand1 r) T m' := by
  refine ⟨h.tinv.call_lifted fsHas hlift hrem hfs hl hc hsm hwf hnp, ?_⟩
  obtain ⟨seg, s', effs, heq, hf'⟩ :=
    call_F_C7c fsHas h.tinv.pinv.inv h.fresh hfs hl hc hsm hwf hnp hfr
  rw [hlift] at heq
  simp only [liftResC3b, Prod.mk.injEq] at heq
  obtain ⟨_, hs', heffs⟩ := heq
  subst hs'; subst heffs
  exact hf'.settle

theorem FInvC7c.call_purge {s : Store} {fs : Fs} {w : Worker} {r r' : RefLog} {W : List Op}
    {T : List Closed} {m : Option LogId} (fsHas : Nat → Bool) {upto : LogId}
    (h : FInvC7c s fs w r W T m)
    (hfs : ∀ i, s.openEnd ≤ i → fsHas i = false)
    (hl : r.legal (.purge upto) = true) (hc : r.call (.purge upto) = .ok r')
    (hsm : (Op.purge upto).small) (hwf : (Op.purge upto).WF)
    (hnn : ¬ upto.index < nextIndex r.purged) :
    ∃ T', FInvC7c (s.call fsHas (.purge upto)).2.1 (effFs (s.call fsHas (.purge upto)).2.2 fs)
      (w.push (effQ (s.call fsHas (.purge upto)).2.2)).settle r' (W ++ [.purge upto]) T' m := by
  have habs := h.tinv.pinv.inv.abs
  have hpu : s.st.purged = r.purged := by
    have := habs.st
    simp only [Store.liftC3b_st] at this
    rw [this]; rfl
  have hc0 := hc
  simp only [RefLog.call, if_neg hnn] at hc
  injection hc with hc
  have ok := stepOK_purgeUpto habs hl hnn hsm
  rw [hc] at ok
  have hrun1 : r.run [.purge upto] = some r' := run_single_C3 hl hc0
  obtain ⟨s'0, effs0, heq0, hinv0, _, _⟩ := pinv_step_C5b fsHas h.tinv.pinv hfs ok hwf hrun1 rfl
  obtain ⟨s'1, effs1', heq1, _, hf1, _, _⟩ :=
    fresh_step_C7c fsHas h.tinv.pinv.inv h.fresh hfs ok hwf
      (show FreshChkC7c (.purgeUpto upto) (s.liftC3b T).st m from trivial)
  rw [heq0] at heq1
  simp only [Prod.mk.injEq, true_and] at heq1
  obtain ⟨e1, e2⟩ := heq1
  subst e1; subst e2
  rw [appendAndApply_lift_C3b] at heq0
  rcases hx : s.appendAndApply fsHas (.purgeUpto upto) with ⟨res, s1, effs1⟩
  rw [hx] at heq0
  simp only [liftResC3b, Prod.mk.injEq] at heq0
  obtain ⟨hres, hs'0, heffs0⟩ := heq0
  subst hres; subst hs'0; subst heffs0
  have hfacts := appendAndApply_facts_C3b s fsHas (.purgeUpto upto)
  rw [hx] at hfacts
  obtain ⟨_, hrm1, _⟩ := hfacts
  simp only at hrm1
  have hn : nextIndexChecked s.st.purged = some (nextIndex r.purged) := by
    have := nextIndexChecked_eq habs.pf.purged
    simp only [Store.liftC3b_st] at this
    rw [this, hpu]
  have hidxD12 : upto.index + 1 ≠ U64 := by
    have : upto.index + 1 < U64 := hsm
    omega
  rw [call_purge_C3b s fsHas upto _ hn hnn hidxD12 hx]
  simp only
  obtain ⟨pre, hpre, hids, _⟩ := popObsolete_pre_C3b upto s1.closed
  generalize hs2 : ({ s1 with closed := (popObsolete upto s1.closed).2, removed := s1.removed ++ (popObsolete upto s1.closed).1 } : Store) = s2
  have k1 : s2.st = s1.st := by rw [← hs2]
  have k2 : s2.log = s1.log := by rw [← hs2]
  have k3 : s2.openOffsets = s1.openOffsets := by rw [← hs2]
  have k4 : s2.pending = s1.pending := by rw [← hs2]
  have k5 : s2.closed = (popObsolete upto s1.closed).2 := by rw [← hs2]
  have k6 : s2.removed = s.removed ++ pre.map Closed.id := by rw [← hs2, ← hids, ← hrm1]
  have kcl : (s2.liftC3b (T ++ pre)).closed = (s1.liftC3b T).closed := by
    simp only [Store.liftC3b_closed, k5, List.append_assoc]
    rw [← hpre]
  refine ⟨T ++ pre, ⟨(hinv0.congr (s2 := s2.liftC3b (T ++ pre)) k1 k2 k3 k4 kcl).settle, ?_,
    (h.tinv.unl.push _).settle⟩, (hf1.congr (s2 := s2.liftC3b (T ++ pre)) k1 k2 k3 k4 kcl).settle⟩
  obtain ⟨D, hD⟩ := h.tinv.ids
  refine ⟨D, ?_⟩
  have hnr : rmIds (effQ effs1) = [] := by
    have := NoRmC3b.appendAndApply s fsHas (.purgeUpto upto)
    rw [hx] at this
    exact this
  rw [Worker.toRemove_settle, toRemove_push_C3b, hnr, List.append_nil, k6, List.map_append, hD]
  simp

/-! ### System level -/

def FSysC7c (y : Sys) (r : RefLog) (W : List Op) (m : Option LogId) : Prop :=
  ∃ s T, y.store = some s ∧ FInvC7c s y.fs y.worker r W T m

theorem FSysC7c.tsys {y : Sys} {r : RefLog} {W : List Op} {m : Option LogId} (h : FSysC7c y r W m) :
    TSysC5b y r W := by
  obtain ⟨s, T, hs, hg⟩ := h
  exact ⟨s, T, hs, hg.tinv⟩

theorem FSysC7c.step {y : Sys} {r r' : RefLog} {W : List Op} {m m' : Option LogId}
    (h : FSysC7c y r W m) (st : Step)
    (hd : y.worker.pc ≠ .dead)
    (hst : st.journal = true) (hr : r.run (stepOps [st]) = some r')
    (hwf : ∀ op, st = .call op → op.WF ∧ op.small) (hnd : (y.step st).worker.pc ≠ .dead)
    (hfr : freshOpsC7b m (stepOps [st]) = some m') :
    FSysC7c (y.step st) r' (W ++ expandOps r (stepOps [st])) m' := by
  obtain ⟨s, T, hs, hg⟩ := h
  cases st with
  | drop => cases hst
  | openWith c => cases hst
  | drain =>
    simp only [stepOps, RefLog.run, Option.some.injEq] at hr; subst hr
    simp only [stepOps, freshOpsC7b, Option.some.injEq] at hfr; subst hfr
    simp only [stepOps, expandOps, List.append_nil]
    show FSysC7c y.drain r W m
    simp only [Sys.drain, hs]
    exact ⟨_, T, rfl, hg.of_cache _⟩
  | flush cb =>
    simp only [stepOps, RefLog.run, Option.some.injEq] at hr; subst hr
    simp only [stepOps, freshOpsC7b, Option.some.injEq] at hfr; subst hfr
    simp only [stepOps, expandOps, List.append_nil]
    show FSysC7c (y.flush cb).2.1 r W m
    rw [Sys.flush_eq y cb s hs hd]
    exact ⟨_, T, rfl, hg.flush cb⟩
  | worker out =>
    simp only [stepOps, RefLog.run, Option.some.injEq] at hr; subst hr
    simp only [stepOps, freshOpsC7b, Option.some.injEq] at hfr; subst hfr
    simp only [stepOps, expandOps, List.append_nil]
    have hnd' : (y.workerStep out).1.worker.pc ≠ .dead := hnd
    show FSysC7c (y.workerStep out).1 r W m
    simp only [Sys.workerStep, hs] at hnd' ⊢
    have h' := FInvC7c.step (c := { w := y.worker, fs := y.fs, cache := s.cache }) out hg hnd'
    exact ⟨_, T, rfl, h'.of_cache _⟩
  | workerIdle =>
    simp only [stepOps, RefLog.run, Option.some.injEq] at hr; subst hr
    simp only [stepOps, freshOpsC7b, Option.some.injEq] at hfr; subst hfr
    simp only [stepOps, expandOps, List.append_nil]
    have hnd' : y.workerIdle.1.worker.pc ≠ .dead := hnd
    show FSysC7c y.workerIdle.1 r W m
    simp only [Sys.workerIdle, hs] at hnd' ⊢
    have h' := FInvC7c.runQuiet y.worker.fuel { w := y.worker, fs := y.fs, cache := s.cache } hg hnd'
    exact ⟨_, T, rfl, h'.of_cache _⟩
  | call op =>
    simp only [stepOps, RefLog.run] at hr
    simp only [stepOps, freshOpsC7b] at hfr
    split at hfr
    · rename_i m1 hfr1
      simp only [Option.some.injEq] at hfr; subst hfr
      split at hr
      · rename_i hl
        split at hr
        · rename_i r1 hc
          simp only [Option.some.injEq] at hr; subst hr
          have hex : expandOps r (stepOps [.call op]) = op.expand1 r := by
            simp [stepOps, expandOps, hc]
          rw [hex]
          obtain ⟨hopwf, hopsm⟩ := hwf op rfl
          have hfs : ∀ i, s.openEnd ≤ i → y.fs.has i = false :=
            Fs.has_false_of_lt (k := s.openEnd) hg.tinv.pinv.inv.j.fsLt
          obtain ⟨e1, _⟩ := Sys.call_eq y op s hs hd
          show FSysC7c (y.call op).2.1 r1 (W ++ op.expand1 r) m1
          rw [e1]
          have habs := hg.tinv.pinv.inv.abs
          have hpu : s.st.purged = r.purged := by
            have := habs.st
            simp only [Store.liftC3b_st] at this
            rw [this]; rfl
          have hn : nextIndexChecked s.st.purged = some (nextIndex r.purged) := by
            have := nextIndexChecked_eq habs.pf.purged
            simp only [Store.liftC3b_st] at this
            rw [this, hpu]
          by_cases hp : ∃ upto, op = .purge upto
          · obtain ⟨upto, rfl⟩ := hp
            simp only [freshOpC7b, Option.some.injEq] at hfr1
            subst hfr1
            by_cases hnn : upto.index < nextIndex r.purged
            · obtain ⟨k1, k2⟩ := call_lift_purge_noop_C3b s T y.fs.has upto _ hn hnn
              exact ⟨_, T, rfl, hg.call_lifted y.fs.has k1 k2 hfs hl hc hopsm hopwf
                (fun u e => by cases e; exact hnn) rfl⟩
            · obtain ⟨T', h'⟩ := hg.call_purge y.fs.has hfs hl hc hopsm hopwf hnn
              have hex1 : (Op.purge upto).expand1 r = [.purge upto] := by simp [Op.expand1, hnn]
              rw [hex1]
              exact ⟨_, T', rfl, h'⟩
          · have hp' : ∀ upto, op ≠ .purge upto := fun upto e => hp ⟨upto, e⟩
            exact ⟨_, T, rfl, hg.call_lifted y.fs.has (call_lift_C3b s _ y.fs.has op hp')
              (call_removed_C3b s y.fs.has op hp') hfs hl hc hopsm hopwf
              (fun u e => absurd e (hp' u)) hfr1⟩
        · cases hr
      · cases hr
    · cases hfr

theorem freshOps_cons_C7c (m : Option LogId) (st : Step) (rest : List Step) :
    freshOpsC7b m (stepOps (st :: rest)) =
      (freshOpsC7b m (stepOps [st])).bind (fun m1 => freshOpsC7b m1 (stepOps rest)) := by
  cases st <;> simp only [stepOps, freshOpsC7b, Option.bind_some]
  rename_i op
  cases freshOpC7b m op <;> rfl

theorem run_FSys_C7c (steps : List Step) : ∀ (y : Sys) (r r' : RefLog) (W : List Op)
    (m m' : Option LogId),
    FSysC7c y r W m → (∀ st ∈ steps, st.journal = true) →
    r.run (stepOps steps) = some r' → (∀ op ∈ stepOps steps, op.WF ∧ op.small) →
    (y.run steps).worker.pc ≠ .dead → freshOpsC7b m (stepOps steps) = some m' →
    FSysC7c (y.run steps) r' (W ++ expandOps r (stepOps steps)) m' := by
  induction steps with
  | nil =>
    intro y r r' W m m' h _ hr _ _ hfr
    simp only [stepOps, RefLog.run, Option.some.injEq] at hr; subst hr
    simp only [stepOps, freshOpsC7b, Option.some.injEq] at hfr; subst hfr
    simpa [stepOps, expandOps, Sys.run] using h
  | cons st rest ih =>
    intro y r r' W m m' h hst hr hwf hnd hfr
    simp only [Sys.run, List.foldl_cons] at hnd ⊢
    have hrest : ∀ s ∈ rest, s.journal = true := fun s hs => hst s (List.mem_cons_of_mem _ hs)
    have hnd1 : (y.step st).worker.pc ≠ .dead := by
      intro hdead
      exact hnd (Sys.run_dead rest _ hrest hdead)
    have hd0 : y.worker.pc ≠ .dead := by
      intro hdead
      have := Sys.run_dead [st] y (fun s hs => by
        simp only [List.mem_singleton] at hs; subst hs; exact hst _ List.mem_cons_self) hdead
      exact hnd1 this
    rw [stepOps_cons, RefLog.run_append] at hr
    rw [freshOps_cons_C7c] at hfr
    cases hr1 : r.run (stepOps [st]) with
    | none => rw [hr1] at hr; cases hr
    | some r1 =>
      rw [hr1] at hr
      simp only [Option.bind_some] at hr
      cases hm1 : freshOpsC7b m (stepOps [st]) with
      | none => rw [hm1] at hfr; cases hfr
      | some m1 =>
        rw [hm1] at hfr
        simp only [Option.bind_some] at hfr
        have hwf1 : ∀ op, st = .call op → op.WF ∧ op.small := by
          intro op e; subst e; exact hwf op (by simp [stepOps])
        have hwf2 : ∀ op ∈ stepOps rest, op.WF ∧ op.small := by
          intro op hop
          apply hwf op
          rw [stepOps_cons]; exact List.mem_append_right _ hop
        have h1 := h.step st hd0 (hst st List.mem_cons_self) hr1 hwf1 hnd1 hm1
        have h2 := ih (y.step st) r1 r' _ m1 m' h1 hrest hr hwf2 hnd hfr
        rw [stepOps_cons, expandOps_append _ _ r r1 hr1, ← List.append_assoc]
        exact h2

theorem fresh_FSys_C7c (cfg : Cfg) : FSysC7c (Sys.fresh cfg) {} [] none := by
  obtain ⟨⟨s, hs, hd, hi⟩, _, _, _⟩ := fresh_HSys cfg
  have hshape : ∃ s, (Sys.fresh cfg).store = some s ∧ s.st = {} ∧ s.closed = [] ∧ s.removed = [] ∧
      s.openOffsets = [0, 0 + (encRecord (.state {})).length] ∧
      (Sys.fresh cfg).worker = { files := [⟨0, none⟩] } := by
    simp [Sys.fresh, Sys.open, openStore, Fs.linkedIds, openLoop, emptyStore, Fs.has, Fs.find,
      Fs.create, Fs.write, Fs.update]
  obtain ⟨s0, hs0, hst, hcl, h1, hoff, h2⟩ := hshape
  rw [hs] at hs0; cases hs0
  have hp : PInvC5b s (Sys.fresh cfg).fs (Sys.fresh cfg).worker {} [] := by
    refine ⟨hi.inv, hi.run, ?_⟩
    obtain ⟨jc, jo, g, N0, hN, hmir, _, _⟩ := hi.hist
    refine ⟨jc, jo, N0, g, hN, ?_⟩
    intro P hP r' l hr hl e he
    obtain ⟨r'', m1, _, l', m3, m4⟩ := hmir P hP (Nat.zero_le _)
    simp only [List.take_nil, RefLog.run, Option.some.injEq] at m1
    subst m1
    rw [hl] at m3
    injection m3 with m3
    subst m3
    have : logKeys l = [] := m4
    have hl0 : l = [] := by
      cases l with
      | nil => rfl
      | cons a t => simp [logKeys] at this
    rw [hl0] at he; cases he
  refine ⟨s, [], hs, ⟨by rw [Store.liftC3b_nil]; exact hp, ⟨[], ?_⟩, ?_⟩, ?_⟩
  · rw [h1, h2]
    simp [Worker.toRemove, WPc.unl, WPc.inHand, rmIds]
  · rw [h2]
    intro ids hh
    cases hh
  · -- the journal of the fresh store: one `State {}` record
    rw [Store.liftC3b_nil]
    obtain ⟨jc, jo, g, _⟩ := hi.hist
    refine ⟨jc, jo, g, ?_⟩
    have hjc : jc = [] := by
      have := g.closedEq
      rw [hcl] at this
      exact List.map_eq_nil_iff.mp this
    subst hjc
    obtain ⟨_, ⟨x, rest, hjo⟩, hoffs, _⟩ := g.openRecs
    have hlen := congrArg List.length hoffs
    rw [hoff, offsetsFrom_length] at hlen
    simp only [recSizes, List.length_map, hjo, List.length_cons, List.length_nil] at hlen
    have hrest : rest = [] := List.eq_nil_of_length_eq_zero (by omega)
    subst hrest
    subst hjo
    obtain ⟨stC, lC, g1, g2, _, _⟩ := g.run
    obtain ⟨rfl, _⟩ := g1
    simp only [stRun, RState.apply, Option.some.injEq] at g2
    refine ⟨⟨.state x, s.openId, ⟨s.openId, (encRecord (.state x)).length⟩⟩, [], x, none, ?_, rfl, ?_,
      trivial, rfl⟩
    · simp only [allOps, flatOps, chunkOps, opsFrom, List.nil_append]
    · rw [g2, hst]; rfl

end RaftLog
