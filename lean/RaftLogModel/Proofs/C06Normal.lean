/-
C06 normalisation: every journal history of well-formed calls reaches the same
system as a LEGAL history (calls accepted by the reference log, small), obtained
by following the reference log: rejected single-record calls and refused
(index u64::MAX) purges are removed, a batch `append es` is replaced by
`append pre` for the longest prefix `pre` of `es` that the reference log accepts
and the store does not refuse.

All names carry the suffix `C6N`.
-/
import RaftLogModel.Props.C06Sys
import RaftLogModel.Props.C03Quiet
namespace RaftLog

/-! ### The normalisation -/

/-- The longest prefix of a batch that is accepted entry by entry by the
reference log and contains no entry with index u64::MAX (which the store
refuses before validation), together with the reference log after it. -/
def acceptedPrefixC6N (r : RefLog) : List (LogId × Bytes) → List (LogId × Bytes) × RefLog
  | [] => ([], r)
  | (id, p) :: rest =>
    if id.index + 1 = U64 then ([], r) else
    match r.append1 id p with
    | .ok r' => ((id, p) :: (acceptedPrefixC6N r' rest).1, (acceptedPrefixC6N r' rest).2)
    | .error _ => ([], r)

/-- A call that journals one record: kept iff the reference log accepts it. -/
def keepIfOkC6N (r : RefLog) (op : Op) : Option Step × RefLog :=
  match r.call op with
  | .ok r' => (some (.call op), r')
  | .error _ => (none, r)

/-- One step of the normalisation: the step to emit (`none`: the step is
removed) and the reference log after it. -/
def normStepC6N (r : RefLog) : Step → Option Step × RefLog
  | .call (.append es) =>
    (some (.call (.append (acceptedPrefixC6N r es).1)), (acceptedPrefixC6N r es).2)
  | .call (.purge id) => if id.index + 1 = U64 then (none, r) else keepIfOkC6N r (.purge id)
  | .call (.saveVote v) => keepIfOkC6N r (.saveVote v)
  | .call (.commit id) => keepIfOkC6N r (.commit id)
  | .call (.truncate idx) => keepIfOkC6N r (.truncate idx)
  | .call (.saveUserData d) => keepIfOkC6N r (.saveUserData d)
  | st => (some st, r)

def consOptC6N : Option Step → List Step → List Step
  | some st, l => st :: l
  | none, l => l

/-- **The normalisation**, following the reference log from `r`: the normalised
history and the reference log at its end. -/
def normalizeC6N (r : RefLog) : List Step → List Step × RefLog
  | [] => ([], r)
  | st :: rest =>
    (consOptC6N (normStepC6N r st).1 (normalizeC6N (normStepC6N r st).2 rest).1,
      (normalizeC6N (normStepC6N r st).2 rest).2)

/-- A purge step is refused by the store (index u64::MAX) or Raft-legal for `r`. -/
def purgeOkC6N (r : RefLog) : Step → Bool
  | .call (.purge id) => decide (id.index + 1 = U64) || r.legal (.purge id)
  | _ => true

/-- Every purge of the history that the store does not refuse (index below
u64::MAX) is Raft-legal (`RefLog.legal`, DESIGN Appendix D) for the reference
log at the point where it is issued. (The reference log never REJECTS a purge, so
an illegal purge cannot be normalised away; all history theorems assume legal
purges.) -/
def purgesLegalC6N (r : RefLog) : List Step → Bool
  | [] => true
  | st :: rest => purgeOkC6N r st && purgesLegalC6N (normStepC6N r st).2 rest

def Step.isCallC6N : Step → Bool
  | .call _ => true
  | _ => false

/-! ### The accepted prefix -/

theorem acceptedPrefix_spec_C6N (es : List (LogId × Bytes)) : ∀ (r : RefLog),
    r.appendAll (acceptedPrefixC6N r es).1 = .ok (acceptedPrefixC6N r es).2 ∧
    (∀ e ∈ (acceptedPrefixC6N r es).1, e.1.index + 1 ≠ U64) ∧
    ((acceptedPrefixC6N r es).1 = es ∨
      ∃ id p rest, es = (acceptedPrefixC6N r es).1 ++ (id, p) :: rest ∧
        (id.index + 1 = U64 ∨ ∃ k, (acceptedPrefixC6N r es).2.append1 id p = .error k)) := by
  induction es with
  | nil => intro r; exact ⟨rfl, fun e he => (by cases he), Or.inl rfl⟩
  | cons e rest ih =>
    obtain ⟨id, p⟩ := e
    intro r
    by_cases hU : id.index + 1 = U64
    · simp only [acceptedPrefixC6N, if_pos hU]
      exact ⟨rfl, fun e he => (by cases he), Or.inr ⟨id, p, rest, rfl, Or.inl hU⟩⟩
    · cases ha : r.append1 id p with
      | error k =>
        simp only [acceptedPrefixC6N, if_neg hU, ha]
        exact ⟨rfl, fun e he => (by cases he), Or.inr ⟨id, p, rest, rfl, Or.inr ⟨k, ha⟩⟩⟩
      | ok r' =>
        obtain ⟨h1, h2, h3⟩ := ih r'
        simp only [acceptedPrefixC6N, if_neg hU, ha]
        refine ⟨?_, ?_, ?_⟩
        · simp only [RefLog.appendAll, ha]; exact h1
        · intro e he
          rcases List.mem_cons.1 he with he | he
          · subst he; exact hU
          · exact h2 e he
        · rcases h3 with h3 | ⟨id', p', rest', h3, h4⟩
          · left; rw [h3]
          · right
            refine ⟨id', p', rest', ?_, h4⟩
            rw [List.cons_append, ← h3]

theorem acceptedPrefix_sub_C6N (es : List (LogId × Bytes)) (r : RefLog) :
    ∀ e ∈ (acceptedPrefixC6N r es).1, e ∈ es := by
  intro e he
  rcases (acceptedPrefix_spec_C6N es r).2.2 with h | ⟨id, p, rest, h, _⟩
  · rw [h] at he; exact he
  · rw [h]; exact List.mem_append_left _ he

theorem acceptedPrefix_length_C6N (es : List (LogId × Bytes)) (r : RefLog) :
    (acceptedPrefixC6N r es).1.length ≤ es.length := by
  rcases (acceptedPrefix_spec_C6N es r).2.2 with h | ⟨id, p, rest, h, _⟩
  · rw [h]; exact Nat.le_refl _
  · have := congrArg List.length h
    simp only [List.length_append, List.length_cons] at this
    omega

/-! ### Batches: a refused or rejected entry after the accepted prefix -/

theorem appendBatch_stopped_after_C6N (fsHas : Nat → Bool) (pre rest : List (LogId × Bytes))
    (id : LogId) (p : Bytes) (s s' : Store) (seg seg' : Seg) (effs effs' : List Eff)
    (h : Store.appendBatch fsHas pre s seg effs = (.ok seg', s', effs'))
    (hk : id.index + 1 = U64 ∨ ∃ k, s'.st.apply (.append id p) = .err k) :
    ∃ k', Store.appendBatch fsHas (pre ++ (id, p) :: rest) s seg effs = (.err k', s', effs') := by
  obtain ⟨fsHas', hf⟩ := appendBatch_prefix_ok pre fsHas s seg effs seg' s' effs' h
  rw [hf]
  by_cases hidxD12 : id.index + 1 = U64
  · rw [appendBatch_cons_refused_D12 _ _ _ _ _ _ _ hidxD12]; exact ⟨_, rfl⟩
  · rcases hk with hk | ⟨k, hk⟩
    · exact absurd hk hidxD12
    · exact ⟨k, by simp [Store.appendBatch, Store.appendAndApply, hk, hidxD12]⟩

theorem call_append_stopped_after_C6N (fsHas : Nat → Bool) (pre rest : List (LogId × Bytes))
    (id : LogId) (p : Bytes) (s s' : Store) (seg' : Seg) (effs' : List Eff)
    (h : s.call fsHas (.append pre) = (.ok seg', s', effs'))
    (hk : id.index + 1 = U64 ∨ ∃ k, s'.st.apply (.append id p) = .err k) :
    ∃ k', s.call fsHas (.append (pre ++ (id, p) :: rest)) = (.err k', s', effs') := by
  simp only [Store.call] at h ⊢
  cases hl : lastSegment s.openOffsets with
  | none => rw [hl] at h; cases h
  | some seg0 =>
    rw [hl] at h
    simp only at h ⊢
    exact appendBatch_stopped_after_C6N fsHas pre rest id p s s' seg0 seg' [] effs' h hk

/-- System level: the system after the whole batch is the system after the
prefix before the first refused / rejected entry. -/
theorem Sys.call_append_stopped_after_C6N (y : Sys) (s s' : Store)
    (pre rest : List (LogId × Bytes)) (id : LogId) (p : Bytes) (seg' : Seg) (effs' : List Eff)
    (hs : y.store = some s)
    (h : s.call y.fs.has (.append pre) = (.ok seg', s', effs'))
    (hk : id.index + 1 = U64 ∨ ∃ k, s'.st.apply (.append id p) = .err k) :
    (y.call (.append (pre ++ (id, p) :: rest))).2.1 = (y.call (.append pre)).2.1 := by
  obtain ⟨k', h2⟩ := _root_.RaftLog.call_append_stopped_after_C6N y.fs.has pre rest id p s s' seg'
    effs' h hk
  simp only [Sys.call, hs, h, h2]

/-- From the C02 invariant: the batch `es` and its accepted prefix lead to the
same system. -/
theorem CSys.append_prefix_C6N {y : Sys} {r : RefLog} (h : CSys y r) (es : List (LogId × Bytes))
    (hwf : (Op.append es).WF) :
    y.step (.call (.append es)) = y.step (.call (.append (acceptedPrefixC6N r es).1)) ∧
    r.legal (.append (acceptedPrefixC6N r es).1) = true ∧
    r.call (.append (acceptedPrefixC6N r es).1) = .ok (acceptedPrefixC6N r es).2 ∧
    (Op.append (acceptedPrefixC6N r es).1).WF ∧ (Op.append (acceptedPrefixC6N r es).1).small := by
  obtain ⟨h1, h2, h3⟩ := acceptedPrefix_spec_C6N es r
  have hc : r.call (.append (acceptedPrefixC6N r es).1) = .ok (acceptedPrefixC6N r es).2 := h1
  have hl : r.legal (.append (acceptedPrefixC6N r es).1) = true := by
    simp only [RefLog.legal, hc]
  have hwf' : (Op.append (acceptedPrefixC6N r es).1).WF :=
    fun e he => hwf e (acceptedPrefix_sub_C6N es r e he)
  have hsm : (Op.append (acceptedPrefixC6N r es).1).small := by
    intro e he
    have := (hwf' e he).1.2
    have := h2 e he
    simp only [smallId]
    omega
  refine ⟨?_, hl, hc, hwf', hsm⟩
  rcases h3 with h3 | ⟨id, p, rest, h3, h4⟩
  · rw [h3]
  · obtain ⟨hR1, seg, hok⟩ := h.1.call hl hc hsm hwf'
    obtain ⟨s, hs, hd, _⟩ := h.1
    obtain ⟨e1, e2⟩ := Sys.call_eq y (.append (acceptedPrefixC6N r es).1) s hs hd
    obtain ⟨s1, hs1, _, hinv1⟩ := hR1
    rw [e1] at hs1
    simp only [Option.some.injEq] at hs1
    rw [e2] at hok
    have hcall : s.call y.fs.has (.append (acceptedPrefixC6N r es).1) =
        (.ok seg, (s.call y.fs.has (.append (acceptedPrefixC6N r es).1)).2.1,
          (s.call y.fs.has (.append (acceptedPrefixC6N r es).1)).2.2) := by
      rw [← hok]
    have hk : id.index + 1 = U64 ∨ ∃ k,
        (s.call y.fs.has (.append (acceptedPrefixC6N r es).1)).2.1.st.apply (.append id p)
          = .err k := by
      rcases h4 with h4 | ⟨k, h4⟩
      · exact Or.inl h4
      · exact Or.inr ⟨k, by rw [hs1]; exact hinv1.abs.rejects_append1 y.fs.has id p k h4⟩
    have := Sys.call_append_stopped_after_C6N y s _ (acceptedPrefixC6N r es).1 rest id p seg _ hs
      hcall hk
    rw [← h3] at this
    exact this

/-! ### One step -/

theorem Sys.step_call_rejected_C6N (y : Sys) (s : Store) (op : Op) (k : ErrKind)
    (hs : y.store = some s) (hset : y.Settled) (h : s.call y.fs.has op = (.err k, s, [])) :
    y.step (.call op) = y := by
  show (y.call op).2.1 = y
  rw [c06_sys_rejected_is_identity y s op k hs hset h]

theorem keepIfOk_spec_C6N {y : Sys} {r : RefLog} (h : CSys y r) (hset : y.Settled) (op : Op)
    (hop : op.single) (hsm : op.small) (hl : ∀ r', r.call op = .ok r' → r.legal op = true) :
    match (keepIfOkC6N r op).1 with
    | none => y.step (.call op) = y ∧ (keepIfOkC6N r op).2 = r
    | some st' => st' = .call op ∧ r.legal op = true ∧ r.call op = .ok (keepIfOkC6N r op).2 := by
  unfold keepIfOkC6N
  cases hc : r.call op with
  | error k =>
    have := (c06_sys_same_verdict_csys y r h hset op hop hsm k hc).1
    show y.step (.call op) = y ∧ r = r
    refine ⟨?_, rfl⟩
    show (y.call op).2.1 = y
    rw [this]
  | ok r' =>
    show Step.call op = Step.call op ∧ r.legal op = true ∧ Except.ok r' = Except.ok r'
    exact ⟨rfl, hl r' hc, rfl⟩

theorem legal_of_ok_C6N (r r' : RefLog) (op : Op) (hnp : ∀ id, op ≠ .purge id)
    (hc : r.call op = .ok r') : r.legal op = true := by
  cases op with
  | purge id => exact absurd rfl (hnp id)
  | saveVote v => simp only [RefLog.legal, hc]
  | commit id => simp only [RefLog.legal, hc]
  | truncate idx => simp only [RefLog.legal, hc]
  | saveUserData d => simp only [RefLog.legal, hc]
  | append es => simp only [RefLog.legal, hc]

/-- What one normalisation step does, under the C02 invariant. -/
theorem normStep_spec_C6N {y : Sys} {r : RefLog} (h : CSys y r) (hset : y.Settled) (st : Step)
    (hj : st.journal = true) (hwf : ∀ op, st = .call op → op.WF)
    (hpl : ∀ id, st = .call (.purge id) → id.index + 1 = U64 ∨ r.legal (.purge id) = true) :
    match (normStepC6N r st).1 with
    | none => y.step st = y ∧ (normStepC6N r st).2 = r ∧ st.isCallC6N = true
    | some st' => y.step st' = y.step st ∧ st'.journal = true ∧
        r.run (stepOps [st']) = some (normStepC6N r st).2 ∧
        (∀ op ∈ stepOps [st'], op.WF ∧ op.small) ∧ st'.isCallC6N = st.isCallC6N ∧
        (st.isCallC6N = false → st' = st) := by
  have single : ∀ op, st = .call op → op.single → op.small →
      (∀ r', r.call op = .ok r' → r.legal op = true) →
      normStepC6N r st = keepIfOkC6N r op →
      match (normStepC6N r st).1 with
      | none => y.step st = y ∧ (normStepC6N r st).2 = r ∧ st.isCallC6N = true
      | some st' => y.step st' = y.step st ∧ st'.journal = true ∧
          r.run (stepOps [st']) = some (normStepC6N r st).2 ∧
          (∀ op ∈ stepOps [st'], op.WF ∧ op.small) ∧ st'.isCallC6N = st.isCallC6N ∧
          (st.isCallC6N = false → st' = st) := by
    intro op e hop hsm hl hn
    subst e
    have := keepIfOk_spec_C6N h hset op hop hsm hl
    rw [hn]
    cases hk : (keepIfOkC6N r op).1 with
    | none =>
      rw [hk] at this
      exact ⟨this.1, this.2, rfl⟩
    | some st' =>
      rw [hk] at this
      obtain ⟨e, hleg, hc⟩ := this
      subst e
      refine ⟨rfl, rfl, ?_, ?_, rfl, fun _ => rfl⟩
      · simp only [stepOps, RefLog.run, hleg, hc, if_true]
      · intro op' hop'
        simp only [stepOps, List.mem_singleton] at hop'
        subst hop'
        exact ⟨hwf _ rfl, hsm⟩
  cases st with
  | drop => cases hj
  | openWith c => cases hj
  | flush cb =>
    exact ⟨rfl, rfl, rfl, fun op hop => (by cases hop), rfl, fun _ => rfl⟩
  | worker out =>
    exact ⟨rfl, rfl, rfl, fun op hop => (by cases hop), rfl, fun _ => rfl⟩
  | workerIdle =>
    exact ⟨rfl, rfl, rfl, fun op hop => (by cases hop), rfl, fun _ => rfl⟩
  | drain =>
    exact ⟨rfl, rfl, rfl, fun op hop => (by cases hop), rfl, fun _ => rfl⟩
  | call op =>
    cases op with
    | saveVote v =>
      exact single _ rfl trivial trivial
        (fun r' hc => legal_of_ok_C6N r r' _ (fun id e => by cases e) hc) rfl
    | commit id =>
      exact single _ rfl trivial trivial
        (fun r' hc => legal_of_ok_C6N r r' _ (fun id e => by cases e) hc) rfl
    | truncate idx =>
      exact single _ rfl trivial trivial
        (fun r' hc => legal_of_ok_C6N r r' _ (fun id e => by cases e) hc) rfl
    | saveUserData d =>
      exact single _ rfl trivial trivial
        (fun r' hc => legal_of_ok_C6N r r' _ (fun id e => by cases e) hc) rfl
    | purge id =>
      by_cases hU : id.index + 1 = U64
      · have hn : normStepC6N r (.call (.purge id)) = (none, r) := by
          simp only [normStepC6N, if_pos hU]
        rw [hn]
        obtain ⟨s, hs, _, _⟩ := h.1
        refine ⟨?_, rfl, rfl⟩
        exact Sys.step_call_rejected_C6N y s _ .invalidInput hs hset
          (by simp only [Store.call, if_pos hU])
      · have hn : normStepC6N r (.call (.purge id)) = keepIfOkC6N r (.purge id) := by
          simp only [normStepC6N, if_neg hU]
        have hwfid : id.WF := hwf _ rfl
        have hsm : (Op.purge id).small := by
          have := hwfid.2
          simp only [Op.small, smallId]; omega
        refine single _ rfl trivial hsm (fun r' _ => ?_) hn
        rcases hpl id rfl with h1 | h1
        · exact absurd h1 hU
        · exact h1
    | append es =>
      obtain ⟨g1, g2, g3, g4, g5⟩ := h.append_prefix_C6N es (hwf _ rfl)
      refine ⟨g1.symm, rfl, ?_, ?_, rfl, fun e => by cases e⟩
      · simp only [stepOps, RefLog.run, g2, g3, if_true]
        rfl
      · intro op' hop'
        simp only [stepOps, List.mem_singleton] at hop'
        subst hop'
        exact ⟨g4, g5⟩

/-! ### Histories -/

theorem Sys.run_cons_C6N (y : Sys) (st : Step) (rest : List Step) :
    y.run (st :: rest) = (y.step st).run rest := rfl

/-- Calls do not move the acknowledged position. -/
theorem Sys.ackStep_call_C6N (y : Sys) (st : Step) (h : st.isCallC6N = true) (A : Nat) :
    y.ackStep st A = A := by
  cases st with
  | call op => cases hs : y.store <;> simp only [Sys.ackStep]
  | flush cb => cases h
  | worker out => cases h
  | workerIdle => cases h
  | drain => cases h
  | drop => cases h
  | openWith c => cases h

/-- **Normalisation.** Along every journal history of well-formed calls with
legal purges and the worker alive at the end: the normalised history is a legal
history of well-formed small calls, reaches the SAME system, and the C02
invariant holds at the end for the reference log the normalisation computed. -/
theorem normalize_run_C6N (steps : List Step) : ∀ (y : Sys) (r : RefLog), CSys y r → y.Settled →
    (∀ st ∈ steps, st.journal = true) → (∀ op ∈ stepOps steps, op.WF) →
    purgesLegalC6N r steps = true → (y.run steps).worker.pc ≠ .dead →
    y.run (normalizeC6N r steps).1 = y.run steps ∧
    (∀ st ∈ (normalizeC6N r steps).1, st.journal = true) ∧
    r.run (stepOps (normalizeC6N r steps).1) = some (normalizeC6N r steps).2 ∧
    (∀ op ∈ stepOps (normalizeC6N r steps).1, op.WF ∧ op.small) ∧
    CSys (y.run steps) (normalizeC6N r steps).2 ∧
    ∀ A, y.ackRun (normalizeC6N r steps).1 A = y.ackRun steps A := by
  induction steps with
  | nil =>
    intro y r h _ _ _ _ _
    exact ⟨rfl, fun st hst => (by cases hst), rfl, fun op hop => (by cases hop), h, fun A => rfl⟩
  | cons st rest ih =>
    intro y r h hset hst hwf hpl hnd
    rw [Sys.run_cons_C6N] at hnd ⊢
    have hrest : ∀ s ∈ rest, s.journal = true := fun s hs => hst s (List.mem_cons_of_mem _ hs)
    have hj : st.journal = true := hst st List.mem_cons_self
    have hnd1 : (y.step st).worker.pc ≠ .dead := by
      intro hdead
      exact hnd (Sys.run_dead rest _ hrest hdead)
    have hwf1 : ∀ op, st = .call op → op.WF := by
      intro op e; subst e; exact hwf op (by simp [stepOps])
    have hwf2 : ∀ op ∈ stepOps rest, op.WF := by
      intro op hop
      apply hwf op
      rw [stepOps_cons]; exact List.mem_append_right _ hop
    simp only [purgesLegalC6N, Bool.and_eq_true] at hpl
    obtain ⟨hpl1, hpl2⟩ := hpl
    have hpl1' : ∀ id, st = .call (.purge id) →
        id.index + 1 = U64 ∨ r.legal (.purge id) = true := by
      intro id e; subst e
      simpa [purgeOkC6N] using hpl1
    have hsp := normStep_spec_C6N h hset st hj hwf1 hpl1'
    have hset1 : (y.step st).Settled := Sys.step_settled y st hset
    simp only [normalizeC6N]
    cases hk : (normStepC6N r st).1 with
    | none =>
      rw [hk] at hsp
      obtain ⟨e1, e2, e3⟩ := hsp
      rw [e2] at hpl2 ⊢
      rw [e1] at hnd ⊢
      obtain ⟨k1, k2, k3, k4, k5, k6⟩ := ih y r h hset hrest hwf2 hpl2 hnd
      refine ⟨k1, k2, k3, k4, k5, fun A => ?_⟩
      simp only [consOptC6N]
      rw [k6 A]
      show y.ackRun rest A = (y.step st).ackRun rest (y.ackStep st A)
      rw [e1, Sys.ackStep_call_C6N y st e3]
    | some st' =>
      rw [hk] at hsp
      obtain ⟨e1, j1, r1, w1, c1, c2⟩ := hsp
      have hC1 : CSys (y.step st) (normStepC6N r st).2 := by
        have := run_CSys [st'] y r _ h (fun s hs => by
          simp only [List.mem_singleton] at hs; subst hs; exact j1) r1 w1
          (by show (y.step st').worker.pc ≠ .dead; rw [e1]; exact hnd1)
        rw [← e1]; exact this
      obtain ⟨k1, k2, k3, k4, k5, k6⟩ := ih (y.step st) _ hC1 hset1 hrest hwf2 hpl2 hnd
      simp only [consOptC6N]
      refine ⟨?_, ?_, ?_, ?_, k5, ?_⟩
      · rw [Sys.run_cons_C6N, e1]; exact k1
      · intro s hs
        rcases List.mem_cons.1 hs with hs | hs
        · subst hs; exact j1
        · exact k2 s hs
      · rw [stepOps_cons, RefLog.run_append, r1]
        exact k3
      · intro op hop
        rw [stepOps_cons] at hop
        rcases List.mem_append.1 hop with hop | hop
        · exact w1 op hop
        · exact k4 op hop
      · intro A
        show (y.step st').ackRun _ (y.ackStep st' A) = (y.step st).ackRun rest (y.ackStep st A)
        have hA : y.ackStep st' A = y.ackStep st A := by
          cases hc : st.isCallC6N with
          | true =>
            rw [Sys.ackStep_call_C6N y st hc, Sys.ackStep_call_C6N y st' (by rw [c1, hc])]
          | false => rw [c2 hc]
        rw [e1, hA]
        exact k6 _

/-! ### Splitting a history -/

theorem normalize_append_C6N (a b : List Step) : ∀ (r : RefLog),
    normalizeC6N r (a ++ b) =
      ((normalizeC6N r a).1 ++ (normalizeC6N (normalizeC6N r a).2 b).1,
        (normalizeC6N (normalizeC6N r a).2 b).2) := by
  induction a with
  | nil => intro r; rfl
  | cons st rest ih =>
    intro r
    simp only [List.cons_append, normalizeC6N, ih]
    cases (normStepC6N r st).1 <;> rfl

theorem purgesLegal_append_C6N (a b : List Step) : ∀ (r : RefLog),
    purgesLegalC6N r (a ++ b) = (purgesLegalC6N r a && purgesLegalC6N (normalizeC6N r a).2 b) := by
  induction a with
  | nil => intro r; simp only [List.nil_append, purgesLegalC6N, normalizeC6N, Bool.true_and]
  | cons st rest ih =>
    intro r
    simp only [List.cons_append, purgesLegalC6N, normalizeC6N, ih, Bool.and_assoc]

/-! ### Shape of the normalised history -/

theorem normStep_shape_C6N (r : RefLog) (st : Step) :
    match (normStepC6N r st).1 with
    | none => st.isCallC6N = true
    | some st' => st'.isCallC6N = st.isCallC6N ∧ (st.isCallC6N = false → st' = st) := by
  have keep : ∀ op, match (keepIfOkC6N r op).1 with
      | none => (Step.call op).isCallC6N = true
      | some st' => st'.isCallC6N = (Step.call op).isCallC6N ∧
          ((Step.call op).isCallC6N = false → st' = .call op) := by
    intro op
    unfold keepIfOkC6N
    cases r.call op with
    | ok r' => exact ⟨rfl, fun _ => rfl⟩
    | error k => exact rfl
  cases st with
  | drop => exact ⟨rfl, fun _ => rfl⟩
  | openWith c => exact ⟨rfl, fun _ => rfl⟩
  | flush cb => exact ⟨rfl, fun _ => rfl⟩
  | worker out => exact ⟨rfl, fun _ => rfl⟩
  | workerIdle => exact ⟨rfl, fun _ => rfl⟩
  | drain => exact ⟨rfl, fun _ => rfl⟩
  | call op =>
    cases op with
    | saveVote v => exact keep (.saveVote v)
    | commit id => exact keep (.commit id)
    | truncate idx => exact keep (.truncate idx)
    | saveUserData d => exact keep (.saveUserData d)
    | append es => exact ⟨rfl, fun e => by cases e⟩
    | purge id =>
      by_cases hU : id.index + 1 = U64
      · have hn : normStepC6N r (.call (.purge id)) = (none, r) := by
          simp only [normStepC6N, if_pos hU]
        rw [hn]; rfl
      · have hn : normStepC6N r (.call (.purge id)) = keepIfOkC6N r (.purge id) := by
          simp only [normStepC6N, if_neg hU]
        rw [hn]; exact keep _

theorem normalize_length_C6N (steps : List Step) : ∀ (r : RefLog),
    (normalizeC6N r steps).1.length ≤ steps.length := by
  induction steps with
  | nil => intro r; exact Nat.le_refl _
  | cons st rest ih =>
    intro r
    simp only [normalizeC6N]
    have := ih (normStepC6N r st).2
    cases (normStepC6N r st).1 with
    | none => simp only [consOptC6N, List.length_cons]; omega
    | some st' => simp only [consOptC6N, List.length_cons]; omega

theorem normalize_noncalls_C6N (steps : List Step) : ∀ (r : RefLog),
    (normalizeC6N r steps).1.filter (fun st => !st.isCallC6N) =
      steps.filter (fun st => !st.isCallC6N) := by
  induction steps with
  | nil => intro r; rfl
  | cons st rest ih =>
    intro r
    simp only [normalizeC6N]
    have hs := normStep_shape_C6N r st
    have := ih (normStepC6N r st).2
    cases hk : (normStepC6N r st).1 with
    | none =>
      rw [hk] at hs
      simp only [consOptC6N, List.filter_cons, hs, Bool.not_true]
      exact this
    | some st' =>
      rw [hk] at hs
      obtain ⟨h1, h2⟩ := hs
      simp only [consOptC6N, List.filter_cons, h1]
      cases hc : st.isCallC6N with
      | true => simpa using this
      | false =>
        rw [h2 hc]
        simpa using this

/-- The calls of the normalised history, one by one: a sublist-like relation
(`kept`, `removed`, `append` replaced by a prefix). -/
inductive NormRelC6N : List Step → List Step → Prop
  | nil : NormRelC6N [] []
  | keep (st : Step) {a b : List Step} : NormRelC6N a b → NormRelC6N (st :: a) (st :: b)
  | remove (op : Op) {a b : List Step} : NormRelC6N a b → NormRelC6N (.call op :: a) b
  | cut (pre post : List (LogId × Bytes)) {a b : List Step} : NormRelC6N a b →
      NormRelC6N (.call (.append (pre ++ post)) :: a) (.call (.append pre) :: b)

theorem normalize_rel_C6N (steps : List Step) : ∀ (r : RefLog),
    NormRelC6N steps (normalizeC6N r steps).1 := by
  induction steps with
  | nil => intro r; exact .nil
  | cons st rest ih =>
    intro r
    simp only [normalizeC6N]
    have ihr := ih (normStepC6N r st).2
    have keep : ∀ op, normStepC6N r st = keepIfOkC6N r op → st = .call op →
        NormRelC6N (st :: rest)
          (consOptC6N (normStepC6N r st).1 (normalizeC6N (normStepC6N r st).2 rest).1) := by
      intro op hn e
      subst e
      have hk : (keepIfOkC6N r op).1 = none ∨ (keepIfOkC6N r op).1 = some (.call op) := by
        unfold keepIfOkC6N
        cases r.call op with
        | ok r' => exact Or.inr rfl
        | error k => exact Or.inl rfl
      rw [hn] at ihr ⊢
      rcases hk with hk | hk
      · rw [hk]; exact .remove op ihr
      · rw [hk]; exact .keep _ ihr
    cases st with
    | drop => exact .keep _ ihr
    | openWith c => exact .keep _ ihr
    | flush cb => exact .keep _ ihr
    | worker out => exact .keep _ ihr
    | workerIdle => exact .keep _ ihr
    | drain => exact .keep _ ihr
    | call op =>
      cases op with
      | saveVote v => exact keep _ rfl rfl
      | commit id => exact keep _ rfl rfl
      | truncate idx => exact keep _ rfl rfl
      | saveUserData d => exact keep _ rfl rfl
      | purge id =>
        by_cases hU : id.index + 1 = U64
        · have hn : normStepC6N r (.call (.purge id)) = (none, r) := by
            simp only [normStepC6N, if_pos hU]
          rw [hn] at ihr ⊢
          exact .remove _ ihr
        · have hn : normStepC6N r (.call (.purge id)) = keepIfOkC6N r (.purge id) := by
            simp only [normStepC6N, if_neg hU]
          exact keep _ hn rfl
      | append es =>
        show NormRelC6N _ (.call (.append (acceptedPrefixC6N r es).1) :: _)
        rcases (acceptedPrefix_spec_C6N es r).2.2 with h | ⟨id, p, rest', h, _⟩
        · have : NormRelC6N (.call (.append ((acceptedPrefixC6N r es).1 ++ [])) :: rest)
              (.call (.append (acceptedPrefixC6N r es).1) ::
                (normalizeC6N (normStepC6N r (.call (.append es))).2 rest).1) := .cut _ _ ihr
          rw [List.append_nil, h] at this
          rw [h]
          exact this
        · have : NormRelC6N
              (.call (.append ((acceptedPrefixC6N r es).1 ++ (id, p) :: rest')) :: rest)
              (.call (.append (acceptedPrefixC6N r es).1) ::
                (normalizeC6N (normStepC6N r (.call (.append es))).2 rest).1) := .cut _ _ ihr
          rw [← h] at this
          exact this

end RaftLog
