/-
C03 without "no removal outstanding", part 3: the ids the worker still has to unlink,
as a LIST (`Worker.toRemove`: postponed, being unlinked, named by removal requests not
handled yet — in this order). A worker step keeps the list, or — an `unlink` — removes
its head and unlinks exactly that file. The caller thread appends to it (flush).
-/
import RaftLogModel.Proofs.CrashQG2
namespace RaftLog

/-- While the worker is unlinking, nothing is postponed. -/
def UnlPostC3b (w : Worker) : Prop := ∀ ids, w.pc = .unlinking ids → w.postponed = []

theorem toRecv_tr_C3b (c : WCtx) : c.toRecv.w.toRemove = c.w.postponed ++ rmIds c.w.queue := by
  rcases c.toRecv_cases with ⟨r, q, hq, e⟩ | ⟨hq, _, e⟩ | ⟨hq, _, e⟩
  · rw [e, hq]
    cases r <;> simp [Worker.toRemove, WPc.unl, WPc.inHand, rmIds]
  · rw [e]; simp [Worker.toRemove, WPc.unl, WPc.inHand, rmIds, hq]
  · rw [e]; simp [Worker.toRemove, WPc.unl, WPc.inHand, rmIds, hq]

theorem toRecv_unl_C3b (c : WCtx) : UnlPostC3b c.toRecv.w := by
  intro ids h
  have := c.toRecv_pc.1
  rw [h] at this
  cases this

theorem nonFlush_tr_C3b (c : WCtx) (r : WReq) (hr : r.isWrite = false) :
    (c.nonFlush r).w.toRemove = c.w.postponed ++ rmIds (r :: c.w.queue) := by
  cases r with
  | write u d cb => cases hr
  | appendFile n p =>
    have e : c.nonFlush (.appendFile n p) =
        ({ c with w := { c.w with files := c.w.files ++ [FileEnt.mk n p] } } : WCtx).toRecv := rfl
    rw [e, toRecv_tr_C3b]
    simp [rmIds]
  | removeChunks ids =>
    by_cases hl : c.w.lastSyncFailed = true
    · have e : c.nonFlush (.removeChunks ids) =
          ({ c with w := { c.w with postponed := c.w.postponed ++ ids } } : WCtx).toRecv := by
        simp [WCtx.nonFlush, hl]
      rw [e, toRecv_tr_C3b]
      simp [rmIds]
    · have hf : c.w.lastSyncFailed = false := by simpa using hl
      cases hall : c.w.postponed ++ ids with
      | nil =>
        have e : c.nonFlush (.removeChunks ids) = c.toRecv := by
          simp [WCtx.nonFlush, hf, hall]
        rw [e, toRecv_tr_C3b]
        have h1 : c.w.postponed = [] := (List.append_eq_nil_iff.mp hall).1
        have h2 : ids = [] := (List.append_eq_nil_iff.mp hall).2
        simp [rmIds, h1, h2]
      | cons i rest =>
        have e : c.nonFlush (.removeChunks ids) =
            { c with w := { c.w with pc := .unlinking (i :: rest), postponed := [] } } := by
          simp [WCtx.nonFlush, hf, hall]
        rw [e]
        simp only [Worker.toRemove, WPc.unl, WPc.inHand, List.nil_append, rmIds]
        rw [← hall, List.append_assoc]

theorem nonFlush_unl_C3b (c : WCtx) (r : WReq) : UnlPostC3b (c.nonFlush r).w := by
  intro ids h
  exact ((c.nonFlush_pc r).2.2 ids h).2.1

theorem finishBatch_tr_C3b (c : WCtx) (b : List WReq) (t : Option WReq) (ok : Bool) (ht : tailOK t) :
    (c.finishBatch b t ok).w.toRemove = c.w.postponed ++ rmIds (t.toList ++ c.w.queue) := by
  rw [WCtx.finishBatch_eq]
  cases t with
  | none =>
    rw [nonFlush_tr_C3b _ _ rfl]
    simp [rmIds]
  | some r =>
    cases r with
    | write u d cb => exact absurd (ht _ rfl) (by simp [WReq.isWrite])
    | removeChunks ids =>
      rw [nonFlush_tr_C3b _ _ rfl]
      simp
    | appendFile n p =>
      rw [nonFlush_tr_C3b _ _ rfl]
      simp [rmIds]

theorem finishBatch_unl_C3b (c : WCtx) (b : List WReq) (t : Option WReq) (ok : Bool) :
    UnlPostC3b (c.finishBatch b t ok).w := by
  intro ids h
  exact ((c.finishBatch_pc b t ok).2.2 ids h).2.1

theorem startSync_tr_C3b (c : WCtx) (b : List WReq) (t : Option WReq) (ht : tailOK t) :
    (c.startSync b t).w.toRemove = c.w.postponed ++ rmIds (t.toList ++ c.w.queue) ∧
      UnlPostC3b (c.startSync b t).w := by
  rcases c.startSync_cases b t with ⟨_, e⟩ | ⟨f, _, e⟩ | ⟨_, e⟩
  · rw [e]; exact ⟨finishBatch_tr_C3b c b t true ht, finishBatch_unl_C3b c b t true⟩
  · rw [e]
    exact ⟨by simp [Worker.toRemove, WPc.unl, WPc.inHand], fun ids h => by simp at h⟩
  · rw [e]
    exact ⟨by simp [Worker.toRemove, WPc.unl, WPc.inHand], fun ids h => by simp at h⟩

theorem startWrites_tr_C3b (c : WCtx) (b : List WReq) (t : Option WReq) (ht : tailOK t) :
    (c.startWrites b t).w.toRemove = c.w.postponed ++ rmIds (t.toList ++ c.w.queue) ∧
      UnlPostC3b (c.startWrites b t).w := by
  rcases c.startWrites_cases b t with ⟨_, e⟩ | ⟨_, e⟩
  · rw [e]; exact startSync_tr_C3b c b t ht
  · rw [e]
    exact ⟨by simp [Worker.toRemove, WPc.unl, WPc.inHand], fun ids h => by simp at h⟩

/-- What one worker step does to the removal list and to the linked files. -/
structure TStepC3b (c c' : WCtx) : Prop where
  unl : UnlPostC3b c'.w
  tr : (c'.w.toRemove = c.w.toRemove ∧ ∀ id, c'.fs.has id = c.fs.has id) ∨
       (∃ i, c.w.toRemove = i :: c'.w.toRemove ∧ (∀ id, c'.fs.has id = (c.fs.has id && id != i)) ∧
          ∃ ids, c.w.pc = .unlinking (i :: ids))

theorem WCtx.step_tstep_C3b (c : WCtx) (out : Outcome) (hok : c.w.pc.ok c.w.files)
    (hu : UnlPostC3b c.w) (hnd : (c.step out).w.pc ≠ .dead) : TStepC3b c (c.step out) := by
  revert hnd
  apply WCtx.step_elim (P := fun c' => c'.w.pc ≠ .dead → TStepC3b c c') c out
  · intro _ _ _; exact ⟨hu, Or.inl ⟨rfl, fun _ => rfl⟩⟩
  · -- idle
    intro hpc _ _
    refine ⟨toRecv_unl_C3b c, Or.inl ⟨?_, fun id => by rw [WCtx.toRecv_fs]⟩⟩
    rw [toRecv_tr_C3b]
    simp [Worker.toRemove, hpc, WPc.unl, WPc.inHand]
  · -- got a write
    intro r hpc hr _ _
    obtain ⟨h1, h2, h3⟩ := collectBatch_spec 1024 c.w.queue
    obtain ⟨k1, k2⟩ := startWrites_tr_C3b (c.setQueue (collectBatch 1024 c.w.queue).2.2)
      (r :: (collectBatch 1024 c.w.queue).1) (collectBatch 1024 c.w.queue).2.1 h3
    refine ⟨k2, Or.inl ⟨?_, fun id => by rw [WCtx.startWrites_fs]; rfl⟩⟩
    rw [k1]
    simp only [WCtx.setQueue_w]
    have hq : rmIds ([r] ++ c.w.queue) = rmIds ((collectBatch 1024 c.w.queue).2.1.toList ++
        (collectBatch 1024 c.w.queue).2.2) := by
      conv => lhs; rw [h1]
      rw [rmIds_append, rmIds_append, rmIds_append, rmIds_writes _ h2,
        rmIds_writes [r] (by intro y hy; simp at hy; subst hy; exact hr), rmIds_append]
      simp
    simp only [Worker.toRemove, hpc, WPc.unl, WPc.inHand, hq, List.append_nil]
  · -- got a non-write
    intro r hpc hr _ _
    refine ⟨nonFlush_unl_C3b c r, Or.inl ⟨?_, fun id => by rw [WCtx.nonFlush_fs]⟩⟩
    rw [nonFlush_tr_C3b c r hr]
    simp [Worker.toRemove, hpc, WPc.unl, WPc.inHand]
  · -- writing []
    intro b t hpc _ _
    have ht : tailOK t := by rw [hpc] at hok; exact hok
    obtain ⟨k1, k2⟩ := startSync_tr_C3b c b t ht
    refine ⟨k2, Or.inl ⟨?_, fun id => by rw [WCtx.startSync_fs]⟩⟩
    rw [k1]
    simp [Worker.toRemove, hpc, WPc.unl, WPc.inHand]
  · -- write fails
    intro d rest b t _ _ _ hnd
    exact absurd (WCtx.die_dead _ _) hnd
  · -- partial write
    intro d rest b t k hpc _ _ _ _ _
    refine ⟨fun ids h => by simp at h, Or.inl ⟨?_, fun id => by simp [Fs.has_write]⟩⟩
    simp [Worker.toRemove, hpc, WPc.unl, WPc.inHand]
  · -- last write
    intro d b t hpc _ _ _
    have ht : tailOK t := by rw [hpc] at hok; exact hok
    obtain ⟨k1, k2⟩ := startSync_tr_C3b (c.wrote (newestId c.w.files) d) b t ht
    refine ⟨k2, Or.inl ⟨?_, fun id => by rw [WCtx.startSync_fs]; simp [Fs.has_write]⟩⟩
    rw [k1]
    simp [Worker.toRemove, hpc, WPc.unl, WPc.inHand]
  · -- more writes
    intro d d' rest b t hpc _ _ _
    refine ⟨fun ids h => by simp at h, Or.inl ⟨?_, fun id => by simp [Fs.has_write]⟩⟩
    simp [Worker.toRemove, hpc, WPc.unl, WPc.inHand]
  · -- syncOld, no files
    intro b t hpc _ _ _
    have ht : tailOK t := by rw [hpc] at hok; exact hok.1
    refine ⟨finishBatch_unl_C3b c b t true, Or.inl ⟨?_, fun id => by rw [WCtx.finishBatch_fs]⟩⟩
    rw [finishBatch_tr_C3b c b t true ht]
    simp [Worker.toRemove, hpc, WPc.unl, WPc.inHand]
  · -- syncOld fails
    intro b t f rest hpc _ _ _ _
    have ht : tailOK t := by rw [hpc] at hok; exact hok.1
    refine ⟨finishBatch_unl_C3b _ b t false, Or.inl ⟨?_, fun id => by rw [WCtx.finishBatch_fs]; rfl⟩⟩
    rw [finishBatch_tr_C3b _ b t false ht]
    simp [Worker.toRemove, hpc, WPc.unl, WPc.inHand]
  · -- syncOld ok
    intro b t f rest hpc _ _ _ _
    have ht : tailOK t := by rw [hpc] at hok; exact hok.1
    obtain ⟨k1, k2⟩ := startSync_tr_C3b ((c.setFiles rest).synced f.id) b t ht
    refine ⟨k2, Or.inl ⟨?_, fun id => by rw [WCtx.startSync_fs]; simp [Fs.has_sync]⟩⟩
    rw [k1]
    simp [Worker.toRemove, hpc, WPc.unl, WPc.inHand]
  · -- syncNew, no files
    intro b t hpc _ _ _
    have ht : tailOK t := by rw [hpc] at hok; exact hok
    refine ⟨finishBatch_unl_C3b c b t true, Or.inl ⟨?_, fun id => by rw [WCtx.finishBatch_fs]⟩⟩
    rw [finishBatch_tr_C3b c b t true ht]
    simp [Worker.toRemove, hpc, WPc.unl, WPc.inHand]
  · -- syncNew fails
    intro b t f rest hpc _ _ _ _
    have ht : tailOK t := by rw [hpc] at hok; exact hok
    refine ⟨finishBatch_unl_C3b _ b t false, Or.inl ⟨?_, fun id => by rw [WCtx.finishBatch_fs]; rfl⟩⟩
    rw [finishBatch_tr_C3b _ b t false ht]
    simp [Worker.toRemove, hpc, WPc.unl, WPc.inHand]
  · -- syncNew ok
    intro b t f rest hpc _ _ _ _
    have ht : tailOK t := by rw [hpc] at hok; exact hok
    refine ⟨finishBatch_unl_C3b _ b t true,
      Or.inl ⟨?_, fun id => by rw [WCtx.finishBatch_fs]; simp [Fs.has_sync]⟩⟩
    rw [finishBatch_tr_C3b _ b t true ht]
    simp [Worker.toRemove, hpc, WPc.unl, WPc.inHand]
  · -- unlinking []
    intro hpc _ _
    refine ⟨toRecv_unl_C3b c, Or.inl ⟨?_, fun id => by rw [WCtx.toRecv_fs]⟩⟩
    rw [toRecv_tr_C3b]
    simp [Worker.toRemove, hpc, WPc.unl, WPc.inHand]
  · -- unlink fails
    intro i rest _ _ _ hnd
    exact absurd (WCtx.die_dead _ _) hnd
  · -- last unlink
    intro i hpc _ _ _
    have hp := hu _ hpc
    refine ⟨toRecv_unl_C3b _, Or.inr ⟨i, ?_, fun id => by rw [WCtx.toRecv_fs]; simp [Fs.has_unlink],
      [], hpc⟩⟩
    rw [toRecv_tr_C3b]
    simp [Worker.toRemove, hpc, WPc.unl, WPc.inHand, hp]
  · -- more unlinks
    intro i j rest hpc _ _ _
    have hp := hu _ hpc
    refine ⟨?_, Or.inr ⟨i, ?_, fun id => by simp [Fs.has_unlink], j :: rest, hpc⟩⟩
    · intro ids _
      simpa using hp
    · simp [Worker.toRemove, hpc, WPc.unl, WPc.inHand, hp]

/-! ### The caller-thread side -/

theorem toRemove_push_C3b (w : Worker) (q : List WReq) :
    (w.push q).toRemove = w.toRemove ++ rmIds q := by
  simp only [Worker.toRemove, Worker.push, ← List.append_assoc, rmIds_append]

theorem UnlPostC3b.push {w : Worker} (h : UnlPostC3b w) (q : List WReq) : UnlPostC3b (w.push q) := h

theorem UnlPostC3b.settle {w : Worker} (h : UnlPostC3b w) : UnlPostC3b w.settle := by
  unfold Worker.settle
  split
  · intro ids hh; simp at hh
  · exact h

/-- Calls send no removal request. -/
def NoRmC3b (effs : List Eff) : Prop := rmIds (effQ effs) = []

theorem NoRmC3b.nil : NoRmC3b [] := rfl

theorem NoRmC3b.append {a b : List Eff} (ha : NoRmC3b a) (hb : NoRmC3b b) : NoRmC3b (a ++ b) := by
  unfold NoRmC3b at *
  rw [effQ_append, rmIds_append, ha, hb]; rfl

theorem NoRmC3b.tryCloseFull (s : Store) (fsHas : Nat → Bool) : NoRmC3b (s.tryCloseFull fsHas).2.2 := by
  unfold Store.tryCloseFull NoRmC3b
  by_cases hf : s.isOpenFull = true
  · by_cases he : fsHas s.openEnd = true
    · simp [hf, he, effQ, rmIds]
    · by_cases hp : s.pending.isEmpty = true <;> simp [hf, he, hp, effQ, rmIds]
  · simp [hf, effQ, rmIds]

theorem NoRmC3b.appendAndApply (s : Store) (fsHas : Nat → Bool) (r : Record) :
    NoRmC3b (s.appendAndApply fsHas r).2.2 := by
  unfold Store.appendAndApply
  split
  · exact .nil
  · exact .nil
  · dsimp only
    split
    · exact .nil
    · rename_i st' _ _ s2 _
      have := NoRmC3b.tryCloseFull ({ s2 with st := st' } : Store) fsHas
      generalize Store.tryCloseFull ({ s2 with st := st' } : Store) fsHas = x at this ⊢
      obtain ⟨res, s4, effs⟩ := x
      cases res <;> exact this

theorem NoRmC3b.appendBatch (fsHas : Nat → Bool) (es : List (LogId × Bytes)) (s : Store) (seg : Seg)
    (effs : List Eff) (h : NoRmC3b effs) : NoRmC3b (Store.appendBatch fsHas es s seg effs).2.2 := by
  induction es generalizing fsHas s seg effs with
  | nil => exact h
  | cons e rest ih =>
    obtain ⟨id, p⟩ := e
    unfold Store.appendBatch
    have h1 := NoRmC3b.appendAndApply s fsHas (.append id p)
    split
    · exact h
    split
    · rename_i seg' s' e' heq
      rw [heq] at h1
      exact ih _ _ _ _ (h.append h1)
    · rename_i k s' e' heq
      rw [heq] at h1
      exact h.append h1
    · rename_i m s' e' heq
      rw [heq] at h1
      exact h.append h1

theorem NoRmC3b.call (s : Store) (fsHas : Nat → Bool) (op : Op) : NoRmC3b (s.call fsHas op).2.2 := by
  cases op with
  | saveVote v => exact .appendAndApply _ _ _
  | commit id => exact .appendAndApply _ _ _
  | saveUserData d => exact .appendAndApply _ _ _
  | append es =>
    simp only [Store.call]
    split
    · exact .nil
    · exact .appendBatch _ _ _ _ _ .nil
  | truncate idx =>
    simp only [Store.call]
    split
    · exact .nil
    · split
      · exact .appendAndApply _ _ _
      · split
        · exact .nil
        · split
          · exact .nil
          · exact .appendAndApply _ _ _
  | purge upto =>
    simp only [Store.call]
    split
    · exact .nil
    split
    · exact .nil
    · split
      · split <;> exact .nil
      · have := NoRmC3b.appendAndApply s fsHas (.purgeUpto upto)
        generalize s.appendAndApply fsHas (.purgeUpto upto) = x at this ⊢
        obtain ⟨res, s4, effs⟩ := x
        cases res <;> exact this

/-! ### The per-chunk guard under the caller-thread steps -/

theorem WGuardAtC3b.push {B x : Nat} {w : Worker} (h : WGuardAtC3b B x w) (q : List WReq)
    (hq : AllGeC3b B q) : WGuardAtC3b B x (w.push q) := by
  have h1 : GXC3b B x (w.push q).rest w.postponed (PcSafeC3b B w) := by
    rw [Worker.push_rest]; exact GXC3b.push h hq
  exact h1

theorem WGuardAtC3b.settle {B x : Nat} {w : Worker} (h : WGuardAtC3b B x w) :
    WGuardAtC3b B x w.settle := by
  unfold Worker.settle
  split
  · rename_i r q hpc hq
    have h0 : GXC3b B x (r :: q) w.postponed (w.lastSyncFailed = true) := by
      simpa [WGuardAtC3b, Worker.rest, hpc, hq, WPc.inHand, PcSafeC3b] using h
    simpa [WGuardAtC3b, Worker.rest, WPc.inHand, PcSafeC3b] using h0
  · exact h

/-- A guarded id is postponed or named by a removal request not handled yet. -/
theorem WGuardAtC3b.mem {B x : Nat} {w : Worker} (h : WGuardAtC3b B x w) :
    x ∈ w.postponed ∨ x ∈ rmIds w.rest := by
  rcases h with ⟨pre, suf, h1, _, _, h5⟩ | ⟨_, _, h3⟩
  · right; rw [h1, rmIds_append]; exact List.mem_append_right _ h5
  · exact h3

/-- After a flush, every id of the removal list is guarded for every `B` at or below
the journal end. -/
theorem flush_guardAt_C3b {B x : Nat} (s : Store) (w : Worker) (cb : Option Nat)
    (hmk : B ≤ s.openEnd) (hx : x ∈ s.removed) :
    WGuardAtC3b B x (w.push (effQ (s.flush cb).2)).settle := by
  rw [flush_effQ_C3]
  apply WGuardAtC3b.settle
  have hrm : ¬ s.removed.isEmpty = true := by
    intro e
    have : s.removed = [] := by simpa using e
    rw [this] at hx; cases hx
  simp only [hrm, Bool.false_eq_true, if_false]
  have : GXC3b B x (w.push [.write s.openEnd s.pending cb, .removeChunks s.removed]).rest
      w.postponed (PcSafeC3b B w) := by
    rw [Worker.push_rest]
    refine Or.inl ⟨w.rest, _, rfl, ?_, ⟨_, _, rfl, rfl⟩, by simpa [rmIds] using hx⟩
    intro r hr hw
    rcases List.mem_cons.mp hr with k | k
    · subst k; exact hmk
    · simp only [List.mem_singleton] at k
      subst k; cases hw
  exact this

theorem flush_allGe_C3b {B : Nat} (s : Store) (cb : Option Nat) (hmk : B ≤ s.openEnd) :
    AllGeC3b B (effQ (s.flush cb).2) := by
  rw [flush_effQ_C3]
  intro r hr hw
  rcases List.mem_cons.mp hr with k | k
  · subst k; exact hmk
  · by_cases hrm : s.removed.isEmpty = true
    · simp [hrm] at k
    · simp only [hrm, Bool.false_eq_true, if_false, List.mem_singleton] at k
      subst k; cases hw

theorem flush_rmIds_C3b (s : Store) (cb : Option Nat) : rmIds (effQ (s.flush cb).2) = s.removed := by
  rw [flush_effQ_C3]
  by_cases hrm : s.removed.isEmpty = true
  · have : s.removed = [] := by simpa using hrm
    simp [rmIds, this]
  · simp [hrm, rmIds]

end RaftLog
