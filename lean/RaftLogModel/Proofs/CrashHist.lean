/-
C03, part 3: every prefix of the journal is the journal of a prefix of the
entry-level writes.

The history is expanded to entry-level writes (`expandOps`: an `append es` is one
write per entry, a no-op purge is no write). `HInv s fs w r W B` adds to the
replay invariant `RInv s fs w r`: `W` (the writes issued so far) reaches `r`, and
every prefix `P` of the retained journal that ends at or beyond the marker `B`
mirrors a prefix `W'` of `W`: replaying `P` from the empty state and index map
gives the state and the index keys of the reference log reached by `W'`.

`B` is the journal end right after the last purge call that took chunks out of
the chunk table (0 if there was none): replaying a retained journal whose
oldest chunks have been dropped gives the index map of the full history only
once the purge record that made them obsolete has been replayed.
-/
import RaftLogModel.Proofs.CrashOpen
namespace RaftLog

/-! ### Entry-level writes -/

/-- The entry-level writes of one op issued on the reference log `r`. -/
def Op.expand1 (r : RefLog) : Op → List Op
  | .append es => es.map (fun e => Op.append [e])
  | .purge upto => if upto.index < nextIndex r.purged then [] else [.purge upto]
  | .saveVote v => [.saveVote v]
  | .commit id => [.commit id]
  | .truncate idx => [.truncate idx]
  | .saveUserData d => [.saveUserData d]

/-- The entry-level writes of a list of ops issued from the reference log `r`. -/
def expandOps : RefLog → List Op → List Op
  | _, [] => []
  | r, op :: rest =>
    match r.call op with
    | .ok r' => op.expand1 r ++ expandOps r' rest
    | .error _ => []

theorem run_single_C3 {r r' : RefLog} {op : Op} (hl : r.legal op = true) (hc : r.call op = .ok r') :
    r.run [op] = some r' := by
  simp [RefLog.run, hl, hc]

theorem run_append1_C3 {r r1 : RefLog} {id : LogId} {p : Bytes} (h : r.append1 id p = .ok r1) :
    r.run [.append [(id, p)]] = some r1 := by
  have hc : r.call (.append [(id, p)]) = .ok r1 := by
    simp [RefLog.call, RefLog.appendAll, h]
  exact run_single_C3 (by simp [RefLog.legal, hc]) hc

theorem run_appendAll_C3 (es : List (LogId × Bytes)) : ∀ (r r' : RefLog), r.appendAll es = .ok r' →
    r.run (es.map (fun e => Op.append [e])) = some r' := by
  induction es with
  | nil =>
    intro r r' h
    simp only [RefLog.appendAll] at h
    injection h with h; subst h; rfl
  | cons e rest ih =>
    obtain ⟨id, p⟩ := e
    intro r r' h
    simp only [RefLog.appendAll] at h
    split at h
    · rename_i r1 h1
      have := run_append1_C3 h1
      have e2 : (((id, p) :: rest).map (fun e => Op.append [e]))
          = [Op.append [(id, p)]] ++ rest.map (fun e => Op.append [e]) := rfl
      rw [e2, RefLog.run_append, this]
      exact ih r1 r' h
    · cases h

/-- The expansion of one legal accepted op reaches the same reference log. -/
theorem run_expand1_C3 {r r' : RefLog} {op : Op} (hl : r.legal op = true) (hc : r.call op = .ok r') :
    r.run (op.expand1 r) = some r' := by
  cases op with
  | saveVote v => exact run_single_C3 hl hc
  | commit id => exact run_single_C3 hl hc
  | truncate idx => exact run_single_C3 hl hc
  | saveUserData d => exact run_single_C3 hl hc
  | append es => exact run_appendAll_C3 es r r' hc
  | purge upto =>
    simp only [Op.expand1]
    by_cases hn : upto.index < nextIndex r.purged
    · rw [if_pos hn]
      simp only [RefLog.call, if_pos hn] at hc
      injection hc with hc; subst hc; rfl
    · rw [if_neg hn]
      exact run_single_C3 hl hc

theorem expandOps_append (a b : List Op) : ∀ (r r1 : RefLog), r.run a = some r1 →
    expandOps r (a ++ b) = expandOps r a ++ expandOps r1 b := by
  induction a with
  | nil =>
    intro r r1 h
    simp only [RefLog.run, Option.some.injEq] at h; subst h; rfl
  | cons op rest ih =>
    intro r r1 h
    simp only [RefLog.run] at h
    split at h
    · split at h
      · rename_i r2 hc
        simp only [List.cons_append, expandOps, hc, List.append_assoc]
        rw [ih r2 r1 h]
      · cases h
    · cases h

/-- The expanded history reaches the same reference log. -/
theorem run_expandOps_C3 (ops : List Op) : ∀ (r r' : RefLog), r.run ops = some r' →
    r.run (expandOps r ops) = some r' := by
  induction ops with
  | nil => intro r r' h; exact h
  | cons op rest ih =>
    intro r r' h
    simp only [RefLog.run] at h
    split at h
    · rename_i hl
      split at h
      · rename_i r2 hc
        simp only [expandOps, hc]
        rw [RefLog.run_append, run_expand1_C3 hl hc]
        exact ih r2 r' h
      · cases h
    · cases h

/-! ### Prefixes of the journal and prefixes of the writes -/

/-- Replaying `P` from the empty state and index map gives the state and the
index keys of the reference log that the writes `W'` reach. -/
def Mirrors (P : List JOp) (W' : List Op) : Prop :=
  ∃ r', RefLog.run {} W' = some r' ∧ stRunO P {} = some r'.state ∧
    ∃ l, idxRun P [] = some l ∧ logKeys l = entKeys r'.entries

theorem mirrors_nil_C3 : Mirrors [] [] :=
  ⟨{}, rfl, rfl, [], rfl, rfl⟩

/-- A rotation head: the first record of its chunk. -/
def JOp.isHead (op : JOp) : Bool := op.seg.off == op.chunk

/-- The number of journal records that are writes (not rotation heads). -/
def cntW (P : List JOp) : Nat := (P.filter (fun op => !op.isHead)).length

theorem cntW_append (a b : List JOp) : cntW (a ++ b) = cntW a + cntW b := by
  simp [cntW, List.filter_append]

theorem cntW_prefix_le {P L : List JOp} (h : P <+: L) : cntW P ≤ cntW L := by
  obtain ⟨t, rfl⟩ := h
  rw [cntW_append]; omega

theorem sizeSum_prefix_le {P L : List JOp} (h : P <+: L) : sizeSum P ≤ sizeSum L := by
  obtain ⟨t, rfl⟩ := h
  rw [sizeSum_append]; omega

/-- The journal position `E` corresponds to the write count `K`: a prefix of the
journal ends at `E` and holds (with the `N0` dropped ones) exactly `K` writes —
or `E` lies in the dropped part and at least `K` writes were dropped. -/
def CntAt (L : List JOp) (start N0 E K : Nat) : Prop :=
  (∃ Q, Q <+: L ∧ start + sizeSum Q = E ∧ N0 + cntW Q = K) ∨ (E ≤ start ∧ K ≤ N0)

/-- Every prefix `P` of the journal `L` (first record at offset `start`) that
ends at or beyond `B` mirrors the first `N0 + cntW P` writes of `W` (`N0` = the
writes whose records were dropped with their chunks); all of `W` is accounted
for; `B` is 0 or a record boundary of `L`; and the tracked journal position `E`
corresponds to the write count `K`. -/
def HistG (L : List JOp) (start : Nat) (W : List Op) (B E K : Nat) : Prop :=
  ∃ N0, W.length = N0 + cntW L ∧
    (∀ P, P <+: L → B ≤ start + sizeSum P → Mirrors P (W.take (N0 + cntW P))) ∧
    (B = 0 ∨ ∃ Q, Q <+: L ∧ B = start + sizeSum Q) ∧ CntAt L start N0 E K

theorem HistG.snoc {L : List JOp} {start : Nat} {W Wn : List Op} {B E K : Nat} {op : JOp}
    (h : HistG L start W B E K) (hlen : Wn.length = if op.isHead then 0 else 1)
    (hfull : Mirrors (L ++ [op]) (W ++ Wn)) :
    HistG (L ++ [op]) start (W ++ Wn) B E K := by
  obtain ⟨N0, h1, h2, h3, h4⟩ := h
  have hc : cntW (L ++ [op]) = cntW L + Wn.length := by
    rw [cntW_append, hlen]
    cases hh : op.isHead <;> simp [cntW, hh]
  refine ⟨N0, by rw [List.length_append, hc]; omega, ?_, ?_, ?_⟩
  rotate_left 2
  · rcases h4 with ⟨Q, hQ, e1, e2⟩ | e
    · exact Or.inl ⟨Q, hQ.trans (List.prefix_append _ _), e1, e2⟩
    · exact Or.inr e
  · intro P hP hB
    rcases List.prefix_concat_iff.mp hP with e | e
    · subst e
      have : N0 + cntW (L ++ [op]) = (W ++ Wn).length := by rw [List.length_append, hc]; omega
      rw [this, List.take_length]
      exact hfull
    · have hle : N0 + cntW P ≤ W.length := by have := cntW_prefix_le e; omega
      rw [List.take_append_of_le_length hle]
      exact h2 P e hB
  · rcases h3 with e | ⟨Q, hQ, e⟩
    · exact Or.inl e
    · exact Or.inr ⟨Q, hQ.trans (List.prefix_append _ _), e⟩

/-- After chunks `D` were dropped from the front: only the whole retained journal
ends at or beyond the new marker; the tracked position moves with the start. -/
theorem HistG.whole {L D : List JOp} {start start0 : Nat} {W : List Op} {B0 E K : Nat}
    (hold : HistG (D ++ L) start0 W B0 E K) (hstart : start = start0 + sizeSum D)
    (hpos : ∀ op ∈ L, 0 < op.seg.size) (hfull : Mirrors L W) :
    HistG L start W (start + sizeSum L) E K := by
  obtain ⟨N0, hN, _, _, hc⟩ := hold
  rw [cntW_append] at hN
  refine ⟨N0 + cntW D, by omega, ?_, Or.inr ⟨L, List.prefix_refl _, rfl⟩, ?_⟩
  · intro P hP hB
    obtain ⟨t, ht⟩ := hP
    cases t with
    | nil =>
      rw [List.append_nil] at ht
      subst ht
      have : N0 + cntW D + cntW P = W.length := by omega
      rw [this, List.take_length]
      exact hfull
    | cons op t' =>
      exfalso
      have hmem : op ∈ L := by rw [← ht]; simp
      have := hpos op hmem
      rw [← ht, sizeSum_append] at hB
      simp only [sizeSum, List.map_cons, sumNat] at hB
      omega
  · rcases hc with ⟨Q, hQ, e1, e2⟩ | ⟨e1, e2⟩
    · rcases List.prefix_or_prefix_of_prefix hQ (List.prefix_append D L) with k | k
      · right
        have h1 := sizeSum_prefix_le k
        have h2 := cntW_prefix_le k
        exact ⟨by omega, by omega⟩
      · left
        obtain ⟨Q', rfl⟩ := k
        refine ⟨Q', (List.prefix_append_right_inj _).mp hQ, ?_, ?_⟩
        · rw [sizeSum_append] at e1; omega
        · rw [cntW_append] at e2; omega
    · right
      exact ⟨by omega, by omega⟩

/-- Retarget: track the current journal end and the current number of writes. -/
theorem HistG.retarget {L : List JOp} {start : Nat} {W : List Op} {B E K : Nat}
    (h : HistG L start W B E K) : HistG L start W B (start + sizeSum L) W.length := by
  obtain ⟨N0, h1, h2, h3, _⟩ := h
  exact ⟨N0, h1, h2, h3, Or.inl ⟨L, List.prefix_refl _, rfl, h1.symm⟩⟩

/-! ### Sizes and positions -/

theorem opsFrom_size_C3 {chunk start : Nat} {rs : List Record} {op : JOp}
    (h : op ∈ opsFrom chunk start rs) : op.seg.size = (encRecord op.r).length := by
  induction rs generalizing start with
  | nil => cases h
  | cons r rs ih =>
    simp only [opsFrom, List.mem_cons] at h
    rcases h with e | e
    · subst e; rfl
    · exact ih e

theorem sizeSum_opsFrom_C3 (chunk start : Nat) (rs : List Record) :
    sizeSum (opsFrom chunk start rs) = (encAll rs).length := by
  induction rs generalizing start with
  | nil => rfl
  | cons r rs ih =>
    simp only [opsFrom, sizeSum, List.map_cons, sumNat, encAll_cons, List.length_append]
    have := ih (start + (encRecord r).length)
    simp only [sizeSum] at this
    rw [this]

theorem allOps_size_pos_C3 (s : Store) (jc : List (Closed × List Record)) (jo : List Record) :
    ∀ op ∈ allOps s jc jo, 0 < op.seg.size := by
  intro op hop
  have : ∃ chunk start rs, op ∈ opsFrom chunk start rs := by
    rcases List.mem_append.mp hop with h | h
    · obtain ⟨p, _, hp⟩ := mem_flatOps.mp h
      exact ⟨_, _, _, hp⟩
    · exact ⟨_, _, _, h⟩
  obtain ⟨chunk, start, rs, h⟩ := this
  rw [opsFrom_size_C3 h]
  exact encRecord_length_pos _

theorem abut_end_C3 : ∀ (jc : List (Closed × List Record)) (q : Closed × List Record),
    AbutC3 (jc ++ [q]) →
    headIdC3 (jc ++ [q]) + sizeSum (flatOps (jc ++ [q])) = q.1.id + (encAll q.2).length := by
  intro jc
  induction jc with
  | nil =>
    intro q _
    simp only [List.nil_append, headIdC3, flatOps, List.append_nil, chunkOps, sizeSum_opsFrom_C3]
  | cons p jc ih =>
    intro q ha
    have hih := ih q ha.tail
    have hnext : headIdC3 (jc ++ [q]) = p.1.id + (encAll p.2).length := by
      cases jc with
      | nil => exact ha.1
      | cons p2 jc' => exact ha.1
    obtain ⟨c, rs⟩ := p
    simp only [List.cons_append, headIdC3, flatOps, sizeSum_append, chunkOps, sizeSum_opsFrom_C3] at hih hnext ⊢
    omega

/-- The retained journal ends at the journal end. -/
theorem RepG.journal_end_C3 {s : Store} {fs : Fs} {w : Worker} {jc : List (Closed × List Record)}
    {jo : List Record} (g : RepG s fs w jc jo) (hj : JInv s fs w) :
    s.jstart + sizeSum (allOps s jc jo) = s.openEnd := by
  have hrecs := liveChunks_recs_C3 g
  have habut : AbutC3 (liveChunksC3 s jc jo) := by
    apply abut_of_chained_C3
    · rw [liveChunks_offsets_C3 g]; exact hj.chained
    · intro p hp
      obtain ⟨k1, k2, k3, _, _⟩ := hrecs p hp
      have := lastOff_offsetsFrom p.1.id (recSizes p.2)
      rw [k3, ← encAll_length] at this
      exact this
  have h1 := abut_end_C3 jc _ habut
  have h2 : headIdC3 (jc ++ [((⟨s.openOffsets, s.st⟩ : Closed), jo)]) = s.jstart := by
    unfold Store.jstart
    rw [← g.closedEq]
    cases jc with
    | nil => rfl
    | cons p jc' => rfl
  have h3 := g.openRecs.lastOff_eq
  have h4 := liveChunks_flatOps_C3 s jc jo
  simp only [liveChunksC3] at h4
  rw [h2, h4] at h1
  simp only [Store.openEnd, Closed.id] at h1 h3 ⊢
  omega

/-! ### Witness-level versions of the replay steps -/

theorem RepG.journal_C3 {s s3 : Store} {fs : Fs} {w : Worker} {r : Record}
    {jc : List (Closed × List Record)} {jo : List Record}
    (g : RepG s fs w jc jo) (hj : JInv s fs w) (hr : r.WF)
    (hoff : s3.openOffsets = s.openOffsets ++ [s.openEnd + (encRecord r).length])
    (hp : s3.pending = s.pending ++ encRecord r) (hc : s3.closed = s.closed)
    (hst : s.st.apply r = .ok s3.st)
    (hlog : idxLogO r s.openId ⟨s.openEnd, (encRecord r).length⟩ s.log = some s3.log) :
    RepG s3 fs w jc (jo ++ [r]) ∧
      allOps s3 jc (jo ++ [r]) = allOps s jc jo ++
        [⟨r, s.openId, ⟨s.openEnd, (encRecord r).length⟩⟩] := by
  have hne := hj.openBytes.ne_nil
  have e1 : s3.openId = s.openId := by
    simp only [Store.openId, hoff]; exact headD_append_of_ne_nil hne _
  have hb := chunkBytes_journal (s := s) (s3 := s3) fs w hne hoff hp
  have hend : s.openId + (encAll jo).length = s.openEnd := by
    have := g.openRecs.lastOff_eq
    simp only [Store.openEnd, Store.openId] at this ⊢
    omega
  have hops : allOps s3 jc (jo ++ [r]) = allOps s jc jo ++
      [⟨r, s.openId, ⟨s.openEnd, (encRecord r).length⟩⟩] := by
    simp only [allOps, e1, chunkOps_snoc, hend, List.append_assoc]
  refine ⟨⟨by rw [hc]; exact g.closedEq, ?_, ?_, ?_⟩, hops⟩
  · intro p hp'
    have hlt := hj.closed_lt (g.mem_closed hp')
    have hne' : ¬ s.openId = p.1.id := by omega
    rw [hb, if_neg hne', List.append_nil]
    exact g.closedRecs p hp'
  · rw [hoff, e1, hb, if_pos rfl]
    exact g.openRecs.snoc hr
  · obtain ⟨stC, lC, g1, g2, g3, g4⟩ := g.run
    refine ⟨stC, lC, g1, ?_, ?_, ?_⟩
    · rw [stRun_append, g2]
      simp only [Option.bind_some, stRun, hst]
    · rw [e1, chunkOps_snoc, idxRun_append, g3]
      simp only [Option.bind_some, idxRun, hend, hlog]
    · intro hne2
      obtain ⟨tl, htl⟩ := g4 hne2
      exact ⟨tl ++ [r], by rw [htl]; rfl⟩

theorem RepG.rotate_C3 {s s' : Store} {fs : Fs} {w : Worker}
    {jc : List (Closed × List Record)} {jo : List Record}
    (g : RepG s fs w jc jo) (hj : JInv s fs w)
    (hbelow : ∀ e ∈ s.log, optLe (some e.2.id) s.st.last = true)
    (hst : s'.st = s.st) (hlog : s'.log = s.log)
    (hoff : s'.openOffsets = [s.openEnd, s.openEnd + (encRecord (.state s.st)).length])
    (hpend : s'.pending = []) (hclosed : s'.closed = s.closed ++ [⟨s.openOffsets, s.st⟩]) :
    RepG s' ((fs.create s.openEnd).write s.openEnd (encRecord (.state s.st)))
      (w.push ((if s.pending.isEmpty then [] else [.write s.openEnd s.pending none]) ++
        [.appendFile s.openEnd s.st.last])) (jc ++ [(⟨s.openOffsets, s.st⟩, jo)]) [.state s.st] ∧
    allOps s' (jc ++ [(⟨s.openOffsets, s.st⟩, jo)]) [.state s.st] = allOps s jc jo ++
      [⟨.state s.st, s.openEnd, ⟨s.openEnd, (encRecord (.state s.st)).length⟩⟩] := by
  obtain ⟨hb1, hb2⟩ := rotate_bytes hj hoff hpend
  have hlt := hj.openId_lt
  have e1 : s'.openId = s.openEnd := by simp [Store.openId, hoff]
  have hops : allOps s' (jc ++ [(⟨s.openOffsets, s.st⟩, jo)]) [.state s.st] = allOps s jc jo ++
      [⟨.state s.st, s.openEnd, ⟨s.openEnd, (encRecord (.state s.st)).length⟩⟩] := by
    simp only [allOps, flatOps_append, flatOps, List.append_nil, e1, chunkOps, opsFrom,
      List.append_assoc]
    rfl
  refine ⟨⟨?_, ?_, ?_, ?_⟩, hops⟩
  · rw [hclosed, List.map_append, g.closedEq]; rfl
  · intro p hp
    rcases List.mem_append.mp hp with h1 | h1
    · have := hj.closed_lt (g.mem_closed h1)
      rw [hb1 _ (by omega)]
      exact g.closedRecs p h1
    · simp only [List.mem_singleton] at h1
      subst h1
      show ChunkRecs s.openOffsets jo (chunkBytes s' _ _ s.openId)
      rw [hb1 _ (by omega)]
      exact g.openRecs
  · rw [hoff, e1, hb2]
    exact ChunkRecs.fresh s.openEnd hj.stWF
  · obtain ⟨stC, lC, g1, g2, g3, g4⟩ := g.run
    refine ⟨s.st, s.log, g1.snoc g2 g3 rfl hbelow g4, ?_, ?_, fun _ => ⟨[], rfl⟩⟩
    · rw [hst]; simp [stRun, RState.apply]
    · rw [hlog]; simp [chunkOps, opsFrom, idxRun, idxLogO]

theorem jstart_rotate_C3 {s s' : Store} (hclosed : s'.closed = s.closed ++ [⟨s.openOffsets, s.st⟩]) :
    s'.jstart = s.jstart := by
  unfold Store.jstart
  rw [hclosed]
  cases s.closed with
  | nil => rfl
  | cons c rest => rfl

/-- `tryCloseFull` on the witnesses: unchanged, or one more chunk whose head is
the `State` record of the current state. -/
theorem RepG.tryCloseFull_C3 {s s' : Store} {fs : Fs} {w : Worker} {fsHas : Nat → Bool}
    {effs : List Eff} {jc : List (Closed × List Record)} {jo : List Record}
    (g : RepG s fs w jc jo) (hj : JInv s fs w)
    (hbelow : ∀ e ∈ s.log, optLe (some e.2.id) s.st.last = true)
    (heq : s.tryCloseFull fsHas = (.ok (), s', effs)) :
    ∃ jc' jo', RepG s' (effFs effs fs) (w.push (effQ effs)) jc' jo' ∧ s'.jstart = s.jstart ∧
      s'.removed = s.removed ∧
      (allOps s' jc' jo' = allOps s jc jo ∨
        allOps s' jc' jo' = allOps s jc jo ++
          [⟨.state s.st, s.openEnd, ⟨s.openEnd, (encRecord (.state s.st)).length⟩⟩]) := by
  unfold Store.tryCloseFull at heq
  by_cases hf : s.isOpenFull = true
  · by_cases he : fsHas s.openEnd = true
    · simp [hf, he] at heq
    · simp only [hf, he, Bool.not_true, Bool.false_eq_true, if_false, Prod.mk.injEq, true_and] at heq
      obtain ⟨rfl, rfl⟩ := heq
      have e1 : effFs ([Eff.create s.openEnd, Eff.writeHead s.openEnd (encRecord (.state s.st))] ++
          (if s.pending.isEmpty then [] else [Eff.send (.write s.openEnd s.pending none)]) ++
          [Eff.send (.appendFile s.openEnd s.st.last)]) fs
          = (fs.create s.openEnd).write s.openEnd (encRecord (.state s.st)) := by
        by_cases hp : s.pending.isEmpty = true <;> simp [effFs, hp]
      have e2 : effQ ([Eff.create s.openEnd, Eff.writeHead s.openEnd (encRecord (.state s.st))] ++
          (if s.pending.isEmpty then [] else [Eff.send (.write s.openEnd s.pending none)]) ++
          [Eff.send (.appendFile s.openEnd s.st.last)])
          = (if s.pending.isEmpty then [] else [.write s.openEnd s.pending none]) ++
            [.appendFile s.openEnd s.st.last] := by
        by_cases hp : s.pending.isEmpty = true <;> simp [effQ, hp]
      rw [e1, e2]
      obtain ⟨k1, k2⟩ := g.rotate_C3 hj hbelow (s' := ({ s with
        closed := s.closed ++ [⟨s.openOffsets, s.st⟩],
        openOffsets := [s.openEnd, s.openEnd + (encRecord (.state s.st)).length],
        pending := [] } : Store)) rfl rfl rfl rfl rfl
      exact ⟨_, _, k1, jstart_rotate_C3 rfl, rfl, Or.inr k2⟩
  · simp only [hf, Bool.not_false, if_true, Prod.mk.injEq, true_and] at heq
    obtain ⟨rfl, rfl⟩ := heq
    refine ⟨jc, jo, ?_, rfl, rfl, Or.inl rfl⟩
    simpa [effFs, effQ] using g

/-- Dropping the obsolete closed chunks (purge) on the witnesses. -/
theorem RepG.pop_C3 {s s2 : Store} {fs : Fs} {w : Worker} {jc : List (Closed × List Record)}
    {jo : List Record} (g : RepG s fs w jc jo) (upto : LogId)
    (habove : ∀ e ∈ s.log, optLt (some upto) (some e.2.id) = true)
    (h1 : s2.st = s.st) (h2 : s2.log = s.log) (h3 : s2.openOffsets = s.openOffsets)
    (h4 : s2.pending = s.pending) (h5 : s2.closed = (popObsolete upto s.closed).2) :
    ∃ jc' pre, RepG s2 fs w jc' jo ∧ allOps s jc jo = flatOps pre ++ allOps s2 jc' jo := by
  obtain ⟨stC, lC, g1, g2, g3, g4⟩ := g.run
  obtain ⟨jc', stC', lC', m1, m2, m3, m4, m5, m6, pre, m7⟩ :=
    RepC.pop upto g.openRecs.2.1 habove jc stC lC g1 g2 g3 g.heads
  have e1 : s2.openId = s.openId := by simp [Store.openId, h3]
  have hb : ∀ id, chunkBytes s2 fs w id = chunkBytes s fs w id :=
    fun id => chunkBytes_congr fs w id h3 h4
  refine ⟨jc', pre, ⟨by rw [h5, ← g.closedEq]; exact m1, ?_, by rw [h3, e1, hb]; exact g.openRecs,
    ⟨stC', lC', m3, by rw [h1]; exact m4, by rw [e1, h2]; exact m5, ?_⟩⟩, ?_⟩
  rotate_left 2
  · simp only [allOps, m7, flatOps_append, e1, List.append_assoc]
  · intro p hp
    rw [hb]
    exact g.closedRecs p (m2 p hp)
  · intro hne
    rw [m6 hne]
    apply g4
    intro e
    subst e
    cases jc' with
    | nil => exact hne rfl
    | cons q _ => exact absurd (m2 q List.mem_cons_self) (by simp)

/-- The whole retained journal mirrors all the writes. -/
theorem mirrors_full_C3 {s : Store} {fs : Fs} {w : Worker} {jc : List (Closed × List Record)}
    {jo : List Record} {r : RefLog} {W : List Op} (g : RepG s fs w jc jo) (hst : s.st = r.state)
    (hlog : logKeys s.log = entKeys r.entries) (hrun : RefLog.run {} W = some r) :
    Mirrors (allOps s jc jo) W := by
  obtain ⟨k1, k2⟩ := g.flat_run
  exact ⟨r, hrun, by rw [k1, hst], s.log, k2, hlog⟩

end RaftLog
