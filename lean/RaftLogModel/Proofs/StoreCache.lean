/-
Store-level cache invariant (C15): counter exact, keys sorted, every resident
key at or below `last`. Preserved by every public call, by the worker's
boundary updates and by `drain`.
-/
import RaftLogModel.Proofs.Cache
import RaftLogModel.Proofs.StoreBasic
namespace RaftLog

structure CacheInv (s : Store) : Prop where
  ok : s.cache.OK
  le_last : KeysLe s.cache.items s.st.last

theorem KeysLe.mono {l : Items} {a b : Option LogId} (h : KeysLe l a) (hab : optLe a b = true) :
    KeysLe l b := fun e he => optLe_trans (h e he) hab

theorem KeysLe.of_suffix {pre l : Items} {o : Option LogId} (h : KeysLe (pre ++ l) o) : KeysLe l o :=
  fun e he => h e (List.mem_append_right _ he)

theorem KeysLe.of_prefix {l post : Items} {o : Option LogId} (h : KeysLe (l ++ post) o) : KeysLe l o :=
  fun e he => h e (List.mem_append_left _ he)

theorem tryEvict_items_suffix (c : Cache) (h : c.OK) : ∃ pre, c.items = pre ++ c.tryEvict.items := by
  obtain ⟨pre, h1, _, _⟩ := evictLoop_spec c.maxItems c.capacity c.lastEvictable c.size c.items h.size_eq
  exact ⟨pre, h1⟩

/-- `last` after a successful `RState.apply`, per record kind. -/
theorem apply_append_last {st st' : RState} {id : LogId} {p : Bytes}
    (h : st.apply (.append id p) = .ok st') : st'.last = some id ∧ optLe (some id) st.last = false := by
  simp only [RState.apply, RState.append] at h
  split at h
  · cases h
  · rename_i hle
    have hle' : optLe (some id) st.last = false := by simpa using hle
    split at h
    · injection h with h; subst h; exact ⟨rfl, hle'⟩
    · split at h
      · cases h
      · split at h
        · cases h
        · injection h with h; subst h; exact ⟨rfl, hle'⟩

theorem purge_last_ge (st : RState) (id : LogId) : optLe st.last (st.purge id).last = true := by
  unfold RState.purge
  by_cases h1 : optLt st.purged (some id) <;> by_cases h2 : optLt st.last (some id) <;> simp [h1, h2]
  · exact optLe_of_lt h2
  · exact optLe_refl _
  · exact optLe_of_lt h2
  · exact optLe_refl _

theorem truncLoop_keys_le (key : LogId) (c : Cache) (h : c.OK) :
    KeysLe (c.truncateAfter key).items (some key) := by
  have hs : c.size = sumLen c.items.reverse := by rw [sumLen_reverse]; exact h.size_eq
  obtain ⟨pre, h1, _, h3⟩ := truncLoop_spec key c.size c.items.reverse hs
  -- the kept part, reversed back, is a prefix of the sorted items; its last
  -- element is not above `key`, hence none is
  intro e he
  simp only [Cache.truncateAfter, List.mem_reverse] at he
  have hrs : c.items.reverse.Pairwise (fun a b => b.1.lt a.1 = true) := (Sorted.reverse_iff _).1 h.sorted
  rw [h1] at hrs
  have hkept := (List.pairwise_append.mp hrs).2.1
  -- kept = x :: xs with ¬ key < x, and every later element is below x
  cases hk : (truncLoop key c.size c.items.reverse).2 with
  | nil => rw [hk] at he; cases he
  | cons x xs =>
    rw [hk] at he hkept
    have hx : key.lt x.1 = false := h3 x (by rw [hk]; rfl)
    have hxle : x.1.le key = true := (LogId.not_lt_iff_le _ _).1 hx
    cases he with
    | head => simpa using hxle
    | tail _ he' =>
      have : e.1.lt x.1 = true := (List.pairwise_cons.mp hkept).1 e he'
      simpa using LogId.le_trans (LogId.le_of_lt this) hxle

theorem truncateAfter_items_prefix (key : LogId) (c : Cache) (h : c.OK) :
    ∃ post, c.items = (c.truncateAfter key).items ++ post := by
  have hs : c.size = sumLen c.items.reverse := by rw [sumLen_reverse]; exact h.size_eq
  obtain ⟨pre, h1, _, _⟩ := truncLoop_spec key c.size c.items.reverse hs
  refine ⟨pre.reverse, ?_⟩
  have := congrArg List.reverse h1
  simpa [Cache.truncateAfter] using this

theorem purgeUpto_items_suffix (key : LogId) (c : Cache) (h : c.OK) :
    ∃ pre, c.items = pre ++ (c.purgeUpto key).items := by
  obtain ⟨pre, h1, _⟩ := purgeLoop_spec key c.lastEvictable c.size c.items h.size_eq
  exact ⟨pre, h1⟩

/-- The index/cache half of `apply` followed by the state update keeps the
cache invariant, for every record a public call can produce. -/
theorem applyIndex_cacheInv {s s2 : Store} {r : Record} {chunk : Nat} {seg : Seg} {st' : RState}
    (hinv : CacheInv s) (hst : s.st.apply r = .ok st') (hr : ∀ x, r = .state x → x.last = s.st.last)
    (h : s.applyIndex r chunk seg = some s2) : CacheInv { s2 with st := st' } := by
  cases r with
  | saveVote v =>
    simp only [Store.applyIndex, Option.some.injEq] at h; subst h
    simp only [RState.apply, RState.updateVote] at hst
    split at hst
    · injection hst with hst; subst hst; exact ⟨hinv.ok, hinv.le_last⟩
    · cases hst
  | commit id =>
    simp only [Store.applyIndex, Option.some.injEq] at h; subst h
    simp only [RState.apply, RState.commit] at hst
    split at hst
    · cases hst
    · injection hst with hst; subst hst; exact ⟨hinv.ok, hinv.le_last⟩
  | state x =>
    simp only [Store.applyIndex, Option.some.injEq] at h; subst h
    simp only [RState.apply, Res.ok.injEq] at hst; subst hst
    refine ⟨hinv.ok, ?_⟩
    have := hr x rfl
    simp only [this]; exact hinv.le_last
  | append id p =>
    simp only [Store.applyIndex, Option.some.injEq] at h; subst h
    obtain ⟨hl, hnle⟩ := apply_append_last hst
    have hlt : ∀ e ∈ s.cache.items, e.1.lt id = true := by
      intro e he
      have h1 := hinv.le_last e he
      cases hlast : s.st.last with
      | none => rw [hlast] at h1; simp at h1
      | some l =>
        rw [hlast] at h1 hnle
        simp only [optLe_some_some] at h1 hnle
        exact LogId.lt_of_le_of_lt h1 ((LogId.not_le_iff_lt _ _).1 hnle)
    refine ⟨Cache.insert_ok id p hinv.ok hlt, ?_⟩
    simp only [hl]
    -- resident keys after the insert are a suffix of old ++ [new]
    unfold Cache.insert
    have hok : ({ s.cache with items := insertSorted id p s.cache.items,
                                size := s.cache.size + p.length } : Cache).OK := by
      refine ⟨?_, ?_⟩
      · simp only [insertSorted_of_all_lt id p s.cache.items hlt, sumLen_append, sumLen]
        have := hinv.ok.size_eq; omega
      · simp only [insertSorted_of_all_lt id p s.cache.items hlt]
        unfold Sorted
        rw [List.pairwise_append]
        refine ⟨hinv.ok.sorted, List.pairwise_singleton _ _, ?_⟩
        intro a ha b hb; simp at hb; subst hb; exact hlt a ha
    obtain ⟨pre, hpre⟩ := tryEvict_items_suffix _ hok
    have hall : KeysLe (insertSorted id p s.cache.items) (some id) := by
      rw [insertSorted_of_all_lt id p s.cache.items hlt]
      intro e he
      rcases List.mem_append.mp he with h1 | h1
      · simpa using LogId.le_of_lt (hlt e h1)
      · simp at h1; subst h1; simp [LogId.le_refl]
    simp only at hpre
    rw [hpre] at hall
    exact hall.of_suffix
  | truncateAfter o =>
    simp only [Store.applyIndex] at h
    split at h
    · cases h
    · simp only [Option.some.injEq] at h; subst h
      simp only [RState.apply, Res.ok.injEq] at hst; subst hst
      cases o with
      | none =>
        exact ⟨Cache.clear_ok _, by intro e he; simp [Cache.clear] at he⟩
      | some id =>
        refine ⟨Cache.truncateAfter_ok id hinv.ok, ?_⟩
        simp only [RState.truncateAfter]
        split
        · exact truncLoop_keys_le id s.cache hinv.ok
        · obtain ⟨post, hpost⟩ := truncateAfter_items_prefix id s.cache hinv.ok
          have := hinv.le_last
          rw [hpost] at this
          exact this.of_prefix
  | purgeUpto id =>
    simp only [Store.applyIndex] at h
    split at h
    · cases h
    · simp only [Option.some.injEq] at h; subst h
      simp only [RState.apply, Res.ok.injEq] at hst; subst hst
      refine ⟨Cache.purgeUpto_ok id hinv.ok, ?_⟩
      obtain ⟨pre, hpre⟩ := purgeUpto_items_suffix id s.cache hinv.ok
      have := hinv.le_last
      rw [hpre] at this
      exact this.of_suffix.mono (purge_last_ge _ _)

end RaftLog

namespace RaftLog

theorem tryCloseFull_cache (s : Store) (fsHas : Nat → Bool) :
    (s.tryCloseFull fsHas).2.1.cache = s.cache ∧ (s.tryCloseFull fsHas).2.1.st = s.st := by
  unfold Store.tryCloseFull
  by_cases hf : s.isOpenFull <;> by_cases he : fsHas s.openEnd <;> simp [hf, he]

theorem appendAndApply_cacheInv {s : Store} (fsHas : Nat → Bool) (r : Record)
    (hinv : CacheInv s) (hr : ∀ x, r = .state x → x.last = s.st.last) :
    CacheInv (s.appendAndApply fsHas r).2.1 := by
  unfold Store.appendAndApply
  split
  · exact hinv
  · exact hinv
  · rename_i st' hst
    simp only
    split
    · exact ⟨hinv.ok, hinv.le_last⟩
    · rename_i s2 hs2
      have hinv1 : CacheInv { s with pending := s.pending ++ encRecord r,
                                     openOffsets := s.openOffsets ++ [s.openEnd + (encRecord r).length] } :=
        ⟨hinv.ok, hinv.le_last⟩
      have h3 := applyIndex_cacheInv hinv1 hst hr hs2
      have hc := tryCloseFull_cache { s2 with st := st' } fsHas
      split <;> rename_i heq <;>
        (rw [heq] at hc; exact ⟨by rw [hc.1]; exact h3.ok, by rw [hc.1, hc.2]; exact h3.le_last⟩)

theorem appendBatch_cacheInv (fsHas : Nat → Bool) (es : List (LogId × Bytes)) (s : Store) (seg : Seg)
    (effs : List Eff) (hinv : CacheInv s) : CacheInv (Store.appendBatch fsHas es s seg effs).2.1 := by
  induction es generalizing s seg effs fsHas with
  | nil => exact hinv
  | cons e rest ih =>
    obtain ⟨id, p⟩ := e
    unfold Store.appendBatch
    have h1 := appendAndApply_cacheInv fsHas (.append id p) hinv (by intro x hx; cases hx)
    split
    · exact hinv
    split
    · rename_i seg' s' e' heq
      rw [heq] at h1
      exact ih _ s' seg' _ h1
    · rename_i k s' e' heq; rw [heq] at h1; exact h1
    · rename_i m s' e' heq; rw [heq] at h1; exact h1

/-- Every public write call preserves the cache invariant, accepted or not. -/
theorem call_cacheInv {s : Store} (fsHas : Nat → Bool) (op : Op) (hinv : CacheInv s) :
    CacheInv (s.call fsHas op).2.1 := by
  cases op with
  | saveVote v => exact appendAndApply_cacheInv fsHas _ hinv (by intro x hx; cases hx)
  | commit id => exact appendAndApply_cacheInv fsHas _ hinv (by intro x hx; cases hx)
  | saveUserData d =>
    exact appendAndApply_cacheInv fsHas _ hinv (by intro x hx; injection hx with hx; subst hx; rfl)
  | append es =>
    simp only [Store.call]
    split
    · exact hinv
    · exact appendBatch_cacheInv fsHas es s _ [] hinv
  | truncate idx =>
    simp only [Store.call]
    split
    · exact hinv
    · split
      · exact appendAndApply_cacheInv fsHas _ hinv (by intro x hx; cases hx)
      · split
        · exact hinv
        · split
          · exact hinv
          · exact appendAndApply_cacheInv fsHas _ hinv (by intro x hx; cases hx)
  | purge upto =>
    simp only [Store.call]
    split
    · exact hinv
    split
    · exact hinv
    · split
      · split <;> exact hinv
      · have h1 := appendAndApply_cacheInv fsHas (.purgeUpto upto) hinv (by intro x hx; cases hx)
        split
        · rename_i seg s' effs heq
          rw [heq] at h1
          exact ⟨h1.ok, h1.le_last⟩
        · rename_i other hne
          exact h1

theorem flush_cacheInv {s : Store} (cb : Option Nat) (hinv : CacheInv s) : CacheInv (s.flush cb).1 :=
  ⟨hinv.ok, hinv.le_last⟩

end RaftLog
