/-
C05 (crash recoverability), part 12: a crash DURING recovery. The directory `open` leaves
(`RecovC5b`) is again a directory whose every crash image can be opened, and `open` recovers
the same state and index map.
-/
import RaftLogModel.Proofs.Recov5k
namespace RaftLog

theorem RecovC5b.chunkIds_sorted {s' : Store} {w' : Worker} {fs' : Fs} {jc' : List (Closed × List Record)}
    {jo' : List Record} (h : RecovC5b s' w' fs' jc' jo') : s'.chunkIds.Pairwise (· < ·) := by
  apply chained_heads_sorted s'.chunks h.chained
  intro x hx
  simp only [Store.chunks, List.mem_append, List.mem_map, List.mem_singleton] at hx
  rcases hx with ⟨c, hc, rfl⟩ | rfl
  · obtain ⟨p, hp, e⟩ := h.mem_closed hc
    obtain ⟨_, _, _, _, _, k5⟩ := h.files p hp
    rw [← e]; exact k5.chunkOK.head_lt
  · exact h.openChunkOK.head_lt

theorem RecovC5b.linkedIds_eq {s' : Store} {w' : Worker} {fs' : Fs} {jc' : List (Closed × List Record)}
    {jo' : List Record} (h : RecovC5b s' w' fs' jc' jo') : fs'.linkedIds = s'.chunkIds := by
  obtain ⟨k1, k2⟩ := Fs.linkedIds_spec h.nodup
  apply sorted_ext (fun x : Nat => x) _ _ k1 h.chunkIds_sorted
  intro x
  rw [k2]
  exact ⟨h.has x, h.linv.live x⟩

/-- **A crash right after recovery (or within the write of the new head) is recoverable.**
`fs'` is the directory a successful `open` left (`RecovC5b`). For every crash image of `fs'`,
`open` (with `truncate`) succeeds again and returns the same state and the same index map. -/
theorem recov_crash_again_C5b {s' : Store} {w' : Worker} {fs' : Fs} {jc' : List (Closed × List Record)}
    {jo' : List Record} (h : RecovC5b s' w' fs' jc' jo')
    (hbelow : ∀ e ∈ s'.log, optLe (some e.2.id) s'.st.last = true)
    {img2 : Fs} (hc : CrashImage fs' img2) (cfg'' : Cfg) (ht : cfg''.truncate = true) :
    ∃ s'' w'' fs'' evs'' jc'' jo'', openStore cfg'' img2 = (.ok (s'', w''), fs'', evs'') ∧
      RecovC5b s'' w'' fs'' jc'' jo'' ∧ s''.st = s'.st ∧ s''.log = s'.log := by
  obtain ⟨stC, lC, r1, r2, r3, r4⟩ := h.run
  obtain ⟨f0, hf0, hfl0, hfd0, hcr0, hdur0⟩ := h.openFile
  obtain ⟨g0, hg0, hcut0⟩ := hc.find hf0 hfl0
  have hids : img2.linkedIds = jc'.map (·.1.id) ++ [s'.openId] := by
    rw [hc.linkedIds, h.linkedIds_eq, Store.chunkIds_eq, ← h.closedEq, List.map_map]
    rfl
  have himg : ImgHypC5b img2 jc' s'.openId jo' stC lC g0 := by
    refine ⟨hc.ids_nodup_C5b h.nodup, hc.durable_C5b, hids, ?_, r1, ?_, hg0, hcr0.1, hcr0.2.1, r4⟩
    · intro p hp
      obtain ⟨f, k1, k2, k3, k4, k5⟩ := h.files p hp
      obtain ⟨g, m1, m2⟩ := hc.find k1 k2
      have hwhole := cutOf_whole_C5b (rs := p.2) (t := []) (by rw [List.append_nil]; exact k3)
        (by rw [k4, k3]; exact Nat.le_refl _) m2
      exact ⟨g, m1, hwhole, k5.1, k5.2.1, k5.2.2.1⟩
    · have := h.chained
      simp only [Store.chunks] at this
      rw [← h.closedEq, List.map_map] at this
      have e : offsetsFrom s'.openId (sizes jo') = s'.openOffsets := hcr0.2.2.1
      rw [e]
      exact this
  obtain ⟨j, hjl, e, rest, hparse, hdata, hcase, hlo⟩ :=
    cutOf_parse_both_C5b hcr0.1 (t := []) (by rw [List.append_nil]; exact hfd0) hcut0
  -- what the parsed prefix replays to
  have hkey : stRun (jo'.take j) stC = some s'.st ∧
      idxRun (chunkOps s'.openId (jo'.take j)) lC = some s'.log := by
    rcases hdur0 with hd | ⟨hd, hjo, hnil⟩
    · have : jo'.take j = jo' := by
        apply take_full_of_length_C3
        have h1 := hlo jo'.length (Nat.le_refl _) (by rw [List.take_length, hd, hfd0]; exact Nat.le_refl _)
        rw [List.take_length] at h1
        have h2 := encAll_take_le_C3 jo' j
        omega
      rw [this]; exact ⟨r2, r3⟩
    · rw [hjo] at r2 r3 hjl ⊢
      have hst : stC = s'.st := by
        by_cases hne : jc' = []
        · subst hne
          obtain ⟨e1, _⟩ := r1
          rw [e1, hnil rfl]
        · obtain ⟨tl, e⟩ := r4 hne
          rw [hjo] at e
          injection e with e1 _
          injection e1 with e1
          exact e1.symm
      have hlg : lC = s'.log := by
        simp only [chunkOps, opsFrom, idxRun, idxLogO, Option.some.injEq] at r3
        exact r3
      simp only [List.length_cons, List.length_nil] at hjl
      have hj01 : j = 0 ∨ j = 1 := by omega
      rcases hj01 with e0 | e0 <;> subst e0
      · simp only [List.take_zero, stRun, chunkOps, opsFrom, idxRun]
        exact ⟨by rw [hst], by rw [hlg]⟩
      · exact ⟨r2, r3⟩
  obtain ⟨s'', w'', fs'', evs'', jc'', jo'', q1, q2, q3, q4, _⟩ :=
    openStore_image_C5b cfg'' ht himg hjl hparse hdata hcase hkey.1 hkey.2 hbelow
  exact ⟨s'', w'', fs'', evs'', jc'', jo'', q1, q2, q3, q4⟩

end RaftLog
