/-
C05 (crash recoverability), part 4: crash images of reachable directories. The chunks
of the ghost store (dropped chunks whose files are still linked, then the live chunks)
with their record lists describe every crash image; with no torn predecessor the
hypotheses of `openStore_image_C5b` hold.
-/
import RaftLogModel.Proofs.Recov5c
import RaftLogModel.Proofs.SmallJournalSys
namespace RaftLog

/-! ### Files of a crash image -/

theorem CrashImage.durable_C5b {fs img : Fs} (h : CrashImage fs img) :
    ∀ g ∈ img, g.linked = true ∧ g.durable = g.data.length := by
  unfold CrashImage at h
  generalize fs.filter (fun f => f.linked) = l at h
  induction h with
  | nil => intro g hg; cases hg
  | @cons a b l1 l2 hab _ ih =>
    intro g hg
    rcases List.mem_cons.mp hg with e | e
    · subst e; exact ⟨hab.2.1, hab.2.2.1⟩
    · exact ih g e

theorem CrashImage.ids_nodup_C5b {fs img : Fs} (h : CrashImage fs img) (hn : (Fs.ids fs).Nodup) :
    (Fs.ids img).Nodup := by
  unfold Fs.ids
  rw [h.ids]
  exact hn.sublist (List.Sublist.map _ List.filter_sublist)

/-! ### No torn predecessor -/

/-- Every linked file of the directory except the newest parses cleanly and is exactly as
long as the distance to the next linked chunk id. -/
def NoTornPredecessor (img : Fs) : Prop :=
  ∀ pre a b post, img.linkedIds = pre ++ a :: b :: post →
    ∃ g, img.find a = some g ∧ (parseChunk g.data).2.1 = .clean ∧ a + g.data.length = b

theorem parsesToPrefix_full_C5b {rs : List Record} {data : Bytes} (h : ParsesToPrefix rs data)
    (hclean : (parseChunk data).2.1 = .clean) (hlen : data.length = (encAll rs).length) :
    data = encAll rs := by
  obtain ⟨j, hj, e, rest, hp, hd, hcase⟩ := h
  rw [hp] at hclean
  simp only at hclean
  subst hclean
  have hrest : rest = [] := by
    rcases hcase with ⟨_, e2⟩ | ⟨e1, _⟩ | ⟨m, _, _, e2⟩
    · exact e2
    · cases e1
    · split at e2 <;> cases e2
  subst hrest
  rw [List.append_nil] at hd
  rw [hd] at hlen
  rw [hd, take_full_of_length_C3 hlen]

theorem noTorn_files_C5b {img : Fs} (hnt : NoTornPredecessor img) :
    ∀ (jl : List (Closed × List Record)) (last : Closed × List Record) (pre : List Nat),
    img.linkedIds = pre ++ (jl ++ [last]).map (·.1.id) → AbutC3 (jl ++ [last]) →
    (∀ p ∈ jl, ∀ g, img.find p.1.id = some g → ParsesToPrefix p.2 g.data) →
    ∀ p ∈ jl, ∃ g, img.find p.1.id = some g ∧ g.data = encAll p.2 := by
  intro jl
  induction jl with
  | nil => intro _ _ _ _ _ p hp; cases hp
  | cons p0 rest ih =>
    intro last pre hids habut hparse p hp
    have hnext : ∃ q tl, rest ++ [last] = q :: tl := by
      cases rest with
      | nil => exact ⟨last, [], rfl⟩
      | cons q tl => exact ⟨q, tl ++ [last], rfl⟩
    obtain ⟨q, tl, hq⟩ := hnext
    have hids' : img.linkedIds = pre ++ p0.1.id :: q.1.id :: tl.map (·.1.id) := by
      rw [hids, List.cons_append, List.map_cons, hq, List.map_cons]
    have hab : q.1.id = p0.1.id + (encAll p0.2).length := by
      rw [List.cons_append, hq] at habut
      exact habut.1
    rcases List.mem_cons.mp hp with e | e
    · subst e
      obtain ⟨g, k1, k2, k3⟩ := hnt pre p.1.id q.1.id (tl.map (·.1.id)) hids'
      refine ⟨g, k1, parsesToPrefix_full_C5b (hparse p List.mem_cons_self g k1) k2 (by omega)⟩
    · apply ih last (pre ++ [p0.1.id]) _ habut.tail (fun x hx => hparse x (List.mem_cons_of_mem _ hx)) p e
      rw [hids]
      simp

/-! ### The crash image of a directory described by replay witnesses -/

theorem abut_liveChunks_C5b {s : Store} {fs : Fs} {w : Worker} {jc : List (Closed × List Record)}
    {jo : List Record} (g : RepG s fs w jc jo) (hj : JInv s fs w) : AbutC3 (liveChunksC3 s jc jo) := by
  have hrecs := liveChunks_recs_C3 g
  apply abut_of_chained_C3
  · rw [liveChunks_offsets_C3 g]; exact hj.chained
  · intro p hp
    obtain ⟨k1, k2, k3, _, _⟩ := hrecs p hp
    have := lastOff_offsetsFrom p.1.id (recSizes p.2)
    rw [k3, ← encAll_length] at this
    exact this

/-- `fs` is the directory of a store `G` with replay witnesses `jc`, `jo` whose linked
files are exactly its chunks; `img` is a crash image without torn predecessor. -/
theorem ghost_imgHyp_C5b {G : Store} {fs : Fs} {w : Worker} {jc : List (Closed × List Record)}
    {jo : List Record} (g : RepG G fs w jc jo) (hj : JInv G fs w)
    (hlive : ∀ id ∈ G.chunkIds, fs.has id = true) (hlinked : fs.linkedIds = G.chunkIds)
    (hn : (Fs.ids fs).Nodup) {img : Fs} (hc : CrashImage fs img) (hnt : NoTornPredecessor img) :
    ∃ stC lC g0 f0, ImgHypC5b img jc G.openId jo stC lC g0 ∧ stRun jo stC = some G.st ∧
      idxRun (chunkOps G.openId jo) lC = some G.log ∧ fs.find G.openId = some f0 ∧ CutOf f0 g0 ∧
      (∃ t, f0.data ++ t = encAll jo) := by
  have hrecs := liveChunks_recs_C3 g
  have habut := abut_liveChunks_C5b g hj
  obtain ⟨stC, lC, r1, r2, r3, r4⟩ := g.run
  have hids : img.linkedIds = jc.map (·.1.id) ++ [G.openId] := by
    rw [hc.linkedIds, hlinked, ← liveChunks_ids_C3 g]
    simp only [liveChunksC3, List.map_append, List.map_cons, List.map_nil]
    rfl
  -- every chunk: its file, the image of the file, the parse of the image
  have hfile : ∀ p ∈ liveChunksC3 G jc jo, ∃ f g', fs.find p.1.id = some f ∧
      img.find p.1.id = some g' ∧ CutOf f g' ∧ (∃ t, f.data ++ t = encAll p.2) ∧
      ParsesToPrefix p.2 g'.data := by
    intro p hp
    obtain ⟨k1, _, _, k4, t, k5⟩ := hrecs p hp
    obtain ⟨f, hf, hfl⟩ := has_find_C3 (hlive _ k4)
    obtain ⟨g', hg1, hg2⟩ := hc.find hf hfl
    rw [fdata_of_find_C3 hf] at k5
    exact ⟨f, g', hf, hg1, hg2, ⟨t, k5⟩, cutOf_parses_C3 k1 k5 hg2⟩
  have hfull := noTorn_files_C5b hnt jc ((⟨G.openOffsets, G.st⟩ : Closed), jo) []
    (by rw [hids]; simp only [List.nil_append, List.map_append, List.map_cons, List.map_nil]; rfl)
    habut
    (fun p hp g' hg' => by
      obtain ⟨f, g'', _, k2, _, _, k5⟩ := hfile p (List.mem_append_left _ hp)
      rw [k2] at hg'; cases hg'; exact k5)
  obtain ⟨f0, g0, hf0, hg0, hcut0, ht0, _⟩ :=
    hfile ((⟨G.openOffsets, G.st⟩ : Closed), jo) (List.mem_append_right _ (List.mem_singleton.mpr rfl))
  have hopen := hrecs ((⟨G.openOffsets, G.st⟩ : Closed), jo)
    (List.mem_append_right _ (List.mem_singleton.mpr rfl))
  refine ⟨stC, lC, g0, f0, ⟨hc.ids_nodup_C5b hn, hc.durable_C5b, hids, ?_, r1, ?_, hg0, hopen.1,
    hopen.2.1, r4⟩, r2, r3, hf0, hcut0, ht0⟩
  · intro p hp
    obtain ⟨k1, k2, k3, _, _⟩ := hrecs p (List.mem_append_left _ hp)
    obtain ⟨g', m1, m2⟩ := hfull p hp
    exact ⟨g', m1, m2, k1, k2, k3⟩
  · have := hj.chained
    rw [← liveChunks_offsets_C3 g] at this
    simp only [liveChunksC3, List.map_append, List.map_cons, List.map_nil] at this
    have e : offsetsFrom G.openId (sizes jo) = G.openOffsets := hopen.2.2.1
    rw [e]
    exact this

/-! ### The replayed prefix and the history -/

theorem take_eq_of_sized_C5b {rs : List Record} {i j : Nat} (h : sized (rs.take i) = sized (rs.take j)) :
    rs.take i = rs.take j := by
  have := congrArg (fun l => l.map (·.1)) h
  simp only [sized_map_fst] at this
  exact this

/-- What a crash leaves of the newest chunk file: a parse to `jo.take j` that covers every
record ending within the durable part. -/
theorem cutOf_parse_both_C5b {jo : List Record} (hwf : AllWF jo) {f g : File} {t : Bytes}
    (hf : f.data ++ t = encAll jo) (hc : CutOf f g) :
    ∃ j, j ≤ jo.length ∧ ∃ e rest, parseChunk g.data = (sized (jo.take j), e, rest) ∧
      g.data = encAll (jo.take j) ++ rest ∧
      ((e = .clean ∧ rest = []) ∨
       (e = .eof ∧ rest ≠ [] ∧ j < jo.length ∧ ∃ r t, r.WF ∧ t ≠ [] ∧ rest ++ t = encRecord r) ∨
       (∃ m, 1 ≤ m ∧ rest = List.replicate m 0 ∧ e = if m < 28 then .eof else .invalid)) ∧
      ∀ i, i ≤ jo.length → (encAll (jo.take i)).length ≤ f.durable →
        (encAll (jo.take i)).length ≤ (encAll (jo.take j)).length := by
  obtain ⟨j, hj, e, rest, hp, hd, hcase⟩ := cutOf_parses_C3 hwf hf hc
  obtain ⟨j', hj', ⟨e', rest', hp'⟩, hlo⟩ := cutOf_parses_lo_C3 hwf hf hc
  refine ⟨j, hj, e, rest, hp, hd, hcase, ?_⟩
  intro i hi hle
  have hij := hlo i hi hle
  have heq : jo.take j' = jo.take j := by
    apply take_eq_of_sized_C5b
    rw [hp] at hp'
    exact (congrArg (fun x => x.1) hp').symm
  rw [← heq]
  have : jo.take i = (jo.take j').take i := by
    rw [List.take_take]; congr 1; omega
  rw [this]
  exact encAll_take_le_C3 _ _

theorem stRunO_split_C5b {jc : List (Closed × List Record)} {stC st : RState} {lC : Log}
    {oid : Nat} {rs : List Record} (hrep : RepC jc {} [] stC lC)
    (h : stRunO (flatOps jc ++ chunkOps oid rs) {} = some st) : stRun rs stC = some st := by
  rw [stRunO_append] at h
  have : stRunO (flatOps jc) {} = some stC := by
    simp only [stRunO, flatOps_map_r]; exact hrep.st
  rw [this] at h
  simpa only [Option.bind_some, stRunO, chunkOps, opsFrom_map_r] using h

theorem idxRun_split_C5b {jc : List (Closed × List Record)} {stC : RState} {lC l : Log}
    {oid : Nat} {rs : List Record} (hrep : RepC jc {} [] stC lC)
    (h : idxRun (flatOps jc ++ chunkOps oid rs) [] = some l) : idxRun (chunkOps oid rs) lC = some l := by
  rw [idxRun_append, hrep.idx] at h
  exact h

/-- Index entries of a map whose keys are those of a well-formed reference log are at or
below its `last`. -/
theorem below_of_keys_C5b {l : Log} {r' : RefLog} (hwf : r'.WF) (hk : logKeys l = entKeys r'.entries) :
    ∀ e ∈ l, optLe (some e.2.id) r'.state.last = true := by
  intro e he
  have : (e.1, e.2.id) ∈ logKeys l := List.mem_map.mpr ⟨e, he, rfl⟩
  rw [hk] at this
  obtain ⟨a, ha, hae⟩ := List.mem_map.mp this
  simp only [Prod.mk.injEq] at hae
  have := (hwf.below a ha).1
  rw [hae.2] at this
  exact this

/-- Everything `open` needs to know about a crash image (without torn predecessor) of a
reachable directory, in terms of the invariants of the ghost store `G`: the description of
the image, the parse of the newest file, the journal prefix `P` it amounts to, and the
reference log that prefix mirrors. -/
theorem ghost_prep_C5b {G : Store} {fs : Fs} {w : Worker} {jc : List (Closed × List Record)}
    {jo : List Record} {W : List Op} {Bh A E K : Nat}
    (g : RepG G fs w jc jo) (hj : JInv G fs w)
    (hhist : HistG (allOps G jc jo) G.jstart W Bh E K) (hack : Bh ≤ A)
    (hD : ∀ p ∈ liveChunksC3 G jc jo, ∀ f, fs.find p.1.id = some f →
      min (encAll p.2).length (A - p.1.id) ≤ f.durable)
    (hlive : ∀ id ∈ G.chunkIds, fs.has id = true) (hlinked : fs.linkedIds = G.chunkIds)
    (hn : (Fs.ids fs).Nodup) {img : Fs} (hc : CrashImage fs img) (hnt : NoTornPredecessor img) :
    ∃ stC lC g0 j e rest n r' l N0, ImgHypC5b img jc G.openId jo stC lC g0 ∧ j ≤ jo.length ∧
      parseChunk g0.data = (sized (jo.take j), e, rest) ∧ g0.data = encAll (jo.take j) ++ rest ∧
      ((e = .clean ∧ rest = []) ∨
       (e = .eof ∧ rest ≠ [] ∧ j < jo.length ∧ ∃ r t, r.WF ∧ t ≠ [] ∧ rest ++ t = encRecord r) ∨
       (∃ m, 1 ≤ m ∧ rest = List.replicate m 0 ∧ e = if m < 28 then .eof else .invalid)) ∧
      stRun (jo.take j) stC = some r'.state ∧ idxRun (chunkOps G.openId (jo.take j)) lC = some l ∧
      (∀ e ∈ l, optLe (some e.2.id) r'.state.last = true) ∧
      flatOps jc ++ chunkOps G.openId (jo.take j) <+: allOps G jc jo ∧
      W.length = N0 + cntW (allOps G jc jo) ∧
      n = N0 + cntW (flatOps jc ++ chunkOps G.openId (jo.take j)) ∧
      RefLog.run {} (W.take n) = some r' ∧ r'.WF ∧ logKeys l = entKeys r'.entries ∧ (E ≤ A → K ≤ n) ∧
      Bh ≤ G.jstart + sizeSum (flatOps jc ++ chunkOps G.openId (jo.take j)) := by
  obtain ⟨stC, lC, g0, f0, himg, hrs, hri, hf0, hcut, ⟨t, ht0⟩⟩ :=
    ghost_imgHyp_C5b g hj hlive hlinked hn hc hnt
  obtain ⟨j, hjl, e, rest, hparse, hdata, hcase, hlo⟩ := cutOf_parse_both_C5b himg.wfo ht0 hcut
  -- the prefix
  have hP : flatOps jc ++ chunkOps G.openId (jo.take j) <+: allOps G jc jo := by
    simp only [allOps]
    exact (List.prefix_append_right_inj _).mpr (opsFrom_take_prefix_C3 _ _ _ _)
  have habut := abut_liveChunks_C5b g hj
  have hstart : G.jstart + sizeSum (flatOps jc) = G.openId := by
    have h1 := abut_end_C3 jc ((⟨G.openOffsets, G.st⟩ : Closed), jo) habut
    have h2 := liveChunks_head_C3 g
    simp only [liveChunksC3] at h2
    rw [h2, flatOps_append, sizeSum_append] at h1
    simp only [flatOps, List.append_nil, chunkOps, sizeSum_opsFrom_C3] at h1
    have : (⟨G.openOffsets, G.st⟩ : Closed).id = G.openId := rfl
    rw [this] at h1
    omega
  have hsizeP : sizeSum (flatOps jc ++ chunkOps G.openId (jo.take j))
      = sizeSum (flatOps jc) + (encAll (jo.take j)).length := by
    rw [sizeSum_append]; simp only [chunkOps, sizeSum_opsFrom_C3]
  have hpos := allOps_size_pos_C3 G jc jo
  -- every prefix that ends at or below the acknowledged position was replayed
  have hlow : ∀ Q, Q <+: allOps G jc jo → G.jstart + sizeSum Q ≤ A →
      Q <+: flatOps jc ++ chunkOps G.openId (jo.take j) := by
    intro Q hQ hQA
    apply prefix_of_sizeSum_le_C3b hQ hP hpos
    rw [hsizeP]
    rcases List.prefix_or_prefix_of_prefix hQ (List.prefix_append (flatOps jc) (chunkOps G.openId jo))
      with k | k
    · have := sizeSum_prefix_le k; omega
    · obtain ⟨Q', rfl⟩ := k
      have hQ' : Q' <+: chunkOps G.openId jo := (List.prefix_append_right_inj _).mp hQ
      obtain ⟨e1, e2⟩ := prefix_opsFrom_C3 hQ'
      rw [sizeSum_append] at hQA ⊢
      have hsz : sizeSum Q' = (encAll (jo.take Q'.length)).length := by
        have h := sizeSum_opsFrom_C3 G.openId G.openId (jo.take Q'.length)
        rw [← e1] at h; exact h
      have hdur := hD ((⟨G.openOffsets, G.st⟩ : Closed), jo)
        (List.mem_append_right _ (List.mem_singleton.mpr rfl)) f0 hf0
      have hid : (⟨G.openOffsets, G.st⟩ : Closed).id = G.openId := rfl
      simp only [hid] at hdur
      have hle2 := encAll_take_le_C3 jo Q'.length
      have := hlo Q'.length e2 (by omega)
      omega
  obtain ⟨N0, hN, hmir, hbd, hcnt⟩ := hhist
  have hB : Bh ≤ G.jstart + sizeSum (flatOps jc ++ chunkOps G.openId (jo.take j)) := by
    rcases hbd with e0 | ⟨Q, hQ, e0⟩
    · omega
    · have := sizeSum_prefix_le (hlow Q hQ (by omega))
      omega
  obtain ⟨r', m1, m2, l, m3, m4⟩ := hmir _ hP hB
  have hwf' : r'.WF := RefLog.run_wf_C3b _ _ _ RefLog.wf_empty m1
  have hstJ := stRunO_split_C5b himg.rep m2
  have hlJ := idxRun_split_C5b himg.rep m3
  refine ⟨stC, lC, g0, j, e, rest, N0 + cntW (flatOps jc ++ chunkOps G.openId (jo.take j)), r', l, N0,
    himg, hjl, hparse, hdata, hcase, hstJ, hlJ, below_of_keys_C5b hwf' m4, hP, hN, rfl, m1, hwf', m4, ?_, hB⟩
  intro hEA
  rcases hcnt with ⟨Q, hQ, e1, e2⟩ | ⟨_, e2⟩
  · have := cntW_prefix_le (hlow Q hQ (by omega))
    omega
  · omega

/-- **Recovery on a crash image of a reachable directory** (in terms of the invariants of
the ghost store `G`): `open` succeeds; the recovered store is described by `RecovC5b`;
its state and index map are the replay of a prefix `P` of the journal that mirrors the
first `n` entry-level writes. -/
theorem ghost_open_C5b {G : Store} {fs : Fs} {w : Worker} {jc : List (Closed × List Record)}
    {jo : List Record} {W : List Op} {Bh A E K : Nat}
    (g : RepG G fs w jc jo) (hj : JInv G fs w)
    (hhist : HistG (allOps G jc jo) G.jstart W Bh E K) (hack : Bh ≤ A)
    (hD : ∀ p ∈ liveChunksC3 G jc jo, ∀ f, fs.find p.1.id = some f →
      min (encAll p.2).length (A - p.1.id) ≤ f.durable)
    (hlive : ∀ id ∈ G.chunkIds, fs.has id = true) (hlinked : fs.linkedIds = G.chunkIds)
    (hn : (Fs.ids fs).Nodup) {img : Fs} (hc : CrashImage fs img) (hnt : NoTornPredecessor img)
    (cfg' : Cfg) (ht : cfg'.truncate = true) :
    ∃ s' w' fs' evs jc' jo' P n r', openStore cfg' img = (.ok (s', w'), fs', evs) ∧
      RecovC5b s' w' fs' jc' jo' ∧ s'.cfg = cfg' ∧
      s'.cache.maxItems = cfg'.cacheItems ∧ s'.cache.capacity = cfg'.cacheCap ∧
      P <+: allOps G jc jo ∧ stRunO P {} = some s'.st ∧ idxRun P [] = some s'.log ∧
      ((allOps s' jc' jo' = P ∧ ∀ f, fs'.find s'.openId = some f → f.durable = f.data.length) ∨
        (allOps s' jc' jo' = P ++ [headOpC5b s'.st s'.openId] ∧ jo' = [.state s'.st])) ∧
      (∃ N0, W.length = N0 + cntW (allOps G jc jo) ∧ n = N0 + cntW P) ∧
      RefLog.run {} (W.take n) = some r' ∧ r'.WF ∧
      s'.st = r'.state ∧ logKeys s'.log = entKeys r'.entries ∧ (E ≤ A → K ≤ n) ∧
      Bh ≤ G.jstart + sizeSum P ∧ s'.jstart = G.jstart := by
  obtain ⟨stC, lC, g0, j, e, rest, n, r', l, N0, himg, hjl, hparse, hdata, hcase, hstJ, hlJ, hbelow,
    hP, hN, hn0, m1, hwf', m4, hEA, hB⟩ := ghost_prep_C5b g hj hhist hack hD hlive hlinked hn hc hnt
  obtain ⟨s', w', fs', evs, jc', jo', q1, q2, q3, q4, q5, q6, q7, q8, q9, q10, q11⟩ :=
    openStore_image_C5b cfg' ht himg hjl hparse hdata hcase hstJ hlJ hbelow
  refine ⟨s', w', fs', evs, jc', jo', _, n, r',
    q1, q2, q5, q6, q7, hP, by rw [q3]; exact q8, by rw [q4]; exact q9, q10, ⟨N0, hN, hn0⟩, m1, hwf', q3,
    by rw [q4]; exact m4, hEA, hB, ?_⟩
  rw [q11, jstart_eq_headD_C5b G, ← g.closedEq, List.map_map]
  rfl

end RaftLog
