/-
Journal invariant, worker side: one worker step (any outcome that does not kill
the worker) moves bytes from "in flight" to the file they were meant for and
changes nothing else: `fdata fs id ++ w.inflight id` is the same for every id.
-/
import RaftLogModel.Proofs.Journal
namespace RaftLog

/-! ### Queues -/

theorem Worker.inflight_eq (w : Worker) (id : Nat) :
    w.inflight id = infl (newestId w.files) w.pc.todoBytes (w.pc.inHand ++ w.queue) id := rfl

theorem Worker.announced_eq (w : Worker) :
    w.announced = newestId w.files :: annIds (w.pc.inHand ++ w.queue) := rfl

theorem inflightFrom_writes (cur : Nat) (b R : List WReq) (id : Nat)
    (hb : ∀ r ∈ b, r.isWrite = true) :
    inflightFrom cur (b ++ R) id =
      (if cur = id then (b.map WReq.data).flatten else []) ++ inflightFrom cur R id := by
  induction b with
  | nil => simp
  | cons r b ih =>
    have ih' := ih (fun x hx => hb x (List.mem_cons_of_mem _ hx))
    have hr := hb r List.mem_cons_self
    cases r with
    | write u d cb =>
      simp only [List.cons_append, inflightFrom, ih', List.map_cons, WReq.data, List.flatten_cons]
      by_cases e : cur = id <;> simp [e]
    | appendFile n p => cases hr
    | removeChunks ids => cases hr

theorem annIds_writes (b R : List WReq) (hb : ∀ r ∈ b, r.isWrite = true) :
    annIds (b ++ R) = annIds R := by
  induction b with
  | nil => rfl
  | cons r b ih =>
    have ih' := ih (fun x hx => hb x (List.mem_cons_of_mem _ hx))
    have hr := hb r List.mem_cons_self
    cases r with
    | write u d cb => simpa [annIds] using ih'
    | appendFile n p => cases hr
    | removeChunks ids => cases hr

theorem flatten_filter_nonempty (l : List Bytes) :
    (l.filter (fun d => !d.isEmpty)).flatten = l.flatten := by
  induction l with
  | nil => rfl
  | cons d l ih =>
    cases d with
    | nil => simpa using ih
    | cons x xs => simp [ih]

theorem collectBatch_spec (n : Nat) (q : List WReq) :
    q = (collectBatch n q).1 ++ (collectBatch n q).2.1.toList ++ (collectBatch n q).2.2 ∧
    (∀ r ∈ (collectBatch n q).1, r.isWrite = true) ∧ tailOK (collectBatch n q).2.1 := by
  induction n generalizing q with
  | zero => exact ⟨by simp [collectBatch], by simp [collectBatch], by intro r h; simp [collectBatch] at h⟩
  | succ n ih =>
    cases q with
    | nil => exact ⟨by simp [collectBatch], by simp [collectBatch], by intro r h; simp [collectBatch] at h⟩
    | cons r q =>
      by_cases hr : r.isWrite = true
      · obtain ⟨h1, h2, h3⟩ := ih q
        simp only [collectBatch, hr, if_true]
        refine ⟨?_, ?_, h3⟩
        · simp only [List.cons_append]
          rw [← h1]
        · intro x hx
          rcases List.mem_cons.mp hx with e | e
          · subst e; exact hr
          · exact h2 x e
      · simp only [collectBatch, hr]
        refine ⟨by simp, by simp, ?_⟩
        intro x hx
        simp at hx
        subst hx
        simpa using hr

theorem newestId_append (files : List FileEnt) (f : FileEnt) : newestId (files ++ [f]) = f.id := by
  simp [newestId]

theorem newestId_cons (f : FileEnt) {rest : List FileEnt} (h : rest ≠ []) :
    newestId (f :: rest) = newestId rest := by
  cases rest with
  | nil => exact absurd rfl h
  | cons g gs => simp [newestId, List.getLast?_cons_cons]

/-! ### The effect of the worker's helper functions on its abstract state -/

/-- Worker `w'` is well-shaped, has exactly the bytes of the abstract state
`(cur, tb, rest)` in flight, and announces a suffix of its ids. -/
structure WRel (cur : Nat) (tb : Bytes) (rest : List WReq) (w' : Worker) : Prop where
  wok : w'.pc.ok w'.files
  bytes : ∀ id, w'.inflight id = infl cur tb rest id
  ann : w'.announced <:+ cur :: annIds rest

theorem WRel.mono {cur cur' : Nat} {tb tb' : Bytes} {rest rest' : List WReq} {w' : Worker}
    (h : WRel cur' tb' rest' w') (h1 : ∀ id, infl cur' tb' rest' id = infl cur tb rest id)
    (h2 : (cur' :: annIds rest') <:+ (cur :: annIds rest)) : WRel cur tb rest w' :=
  ⟨h.wok, fun id => (h.bytes id).trans (h1 id), h.ann.trans h2⟩

theorem WCtx.toRecv_rel (c : WCtx) (hnd : c.toRecv.w.pc ≠ .dead) :
    WRel (newestId c.w.files) [] c.w.queue c.toRecv.w := by
  cases hq : c.w.queue with
  | nil =>
    by_cases hs : c.w.senderAlive = true
    · have e : c.toRecv = { c with w := { c.w with pc := .idle } } := by
        simp [WCtx.toRecv, hq, hs]
      rw [e]
      refine ⟨trivial, fun id => ?_, ?_⟩
      · simp [Worker.inflight_eq, WPc.todoBytes, WPc.inHand, hq]
      · simp [Worker.announced_eq, WPc.inHand, hq]
    · exfalso; apply hnd
      simp [WCtx.toRecv, hq, hs, WCtx.emit]
  | cons r q =>
    have e : c.toRecv = { c with w := { c.w with pc := .got r, queue := q } } := by
      simp [WCtx.toRecv, hq]
    rw [e]
    refine ⟨trivial, fun id => ?_, ?_⟩
    · simp [Worker.inflight_eq, WPc.todoBytes, WPc.inHand]
    · simp [Worker.announced_eq, WPc.inHand]

theorem infl_appendFile (cur n : Nat) (p : Option LogId) (q : List WReq) (id : Nat) :
    infl n [] q id = infl cur [] (.appendFile n p :: q) id := by
  simp [infl, inflightFrom]

theorem infl_removeChunks (cur : Nat) (ids : List Nat) (q : List WReq) (id : Nat) :
    infl cur [] q id = infl cur [] (.removeChunks ids :: q) id := by
  simp [infl, inflightFrom]

theorem WCtx.nonFlush_rel (c : WCtx) (r : WReq) (hr : r.isWrite = false)
    (hnd : (c.nonFlush r).w.pc ≠ .dead) :
    WRel (newestId c.w.files) [] (r :: c.w.queue) (c.nonFlush r).w := by
  cases r with
  | write u d cb => cases hr
  | appendFile n p =>
    have e : c.nonFlush (.appendFile n p) =
        ({ c with w := { c.w with files := c.w.files ++ [FileEnt.mk n p] } } : WCtx).toRecv := rfl
    rw [e] at hnd ⊢
    have h := WCtx.toRecv_rel _ hnd
    simp only [newestId_append] at h
    exact h.mono (fun id => infl_appendFile _ n p _ id) (by simp [annIds])
  | removeChunks ids =>
    by_cases hl : c.w.lastSyncFailed = true
    · have e : c.nonFlush (.removeChunks ids) =
          ({ c with w := { c.w with postponed := c.w.postponed ++ ids } } : WCtx).toRecv := by
        simp [WCtx.nonFlush, hl]
      rw [e] at hnd ⊢
      have h := WCtx.toRecv_rel _ hnd
      exact h.mono (fun id => infl_removeChunks _ ids _ id) (by simp [annIds])
    · cases hall : c.w.postponed ++ ids with
      | nil =>
        have e : c.nonFlush (.removeChunks ids) = c.toRecv := by
          simp [WCtx.nonFlush, hl, hall]
        rw [e] at hnd ⊢
        have h := WCtx.toRecv_rel _ hnd
        exact h.mono (fun id => infl_removeChunks _ ids _ id) (by simp [annIds])
      | cons i rest =>
        have e : c.nonFlush (.removeChunks ids) =
            { c with w := { c.w with pc := .unlinking (i :: rest), postponed := [] } } := by
          simp [WCtx.nonFlush, hl, hall]
        rw [e]
        refine ⟨trivial, fun id => ?_, ?_⟩
        · simp [Worker.inflight_eq, WPc.todoBytes, WPc.inHand, infl, inflightFrom]
        · simp [Worker.announced_eq, WPc.inHand, annIds]

theorem WCtx.finishBatch_rel (c : WCtx) (batch : List WReq) (tail : Option WReq) (ok : Bool)
    (ht : tailOK tail) (hnd : (c.finishBatch batch tail ok).w.pc ≠ .dead) :
    WRel (newestId c.w.files) [] (tail.toList ++ c.w.queue) (c.finishBatch batch tail ok).w := by
  unfold WCtx.finishBatch at hnd ⊢
  cases tail with
  | none =>
    simp only at hnd ⊢
    have h := WCtx.nonFlush_rel _ (.removeChunks []) rfl hnd
    have h' := h.mono (cur := newestId c.w.files) (tb := []) (rest := c.w.queue)
      (fun id => by simp [foldl_emit_w, infl, inflightFrom]) (by simp [foldl_emit_w, annIds])
    simpa using h'
  | some r =>
    cases r with
    | write u d cb => exact absurd (ht _ rfl) (by simp [WReq.isWrite])
    | appendFile n p =>
      simp only at hnd ⊢
      have h := WCtx.nonFlush_rel _ (.removeChunks []) rfl hnd
      refine h.mono (fun id => ?_) ?_
      · simp [foldl_emit_w, newestId_append, infl, inflightFrom]
      · simp [foldl_emit_w, newestId_append, annIds]
    | removeChunks ids =>
      simp only at hnd ⊢
      have h := WCtx.nonFlush_rel _ (.removeChunks ids) rfl hnd
      simpa [foldl_emit_w] using h

theorem WCtx.startSync_rel (c : WCtx) (batch : List WReq) (tail : Option WReq)
    (ht : tailOK tail) (hnd : (c.startSync batch tail).w.pc ≠ .dead) :
    WRel (newestId c.w.files) [] (tail.toList ++ c.w.queue) (c.startSync batch tail).w := by
  cases hf : c.w.files with
  | nil =>
    have e : c.startSync batch tail = c.finishBatch batch tail true := by
      simp [WCtx.startSync, hf]
    rw [e] at hnd ⊢
    have h := WCtx.finishBatch_rel c batch tail true ht hnd
    rwa [hf] at h
  | cons f rest =>
    cases rest with
    | nil =>
      have e : (c.startSync batch tail).w = { c.w with pc := .syncNew batch tail } := by
        simp [WCtx.startSync, hf]
      rw [e]
      refine ⟨ht, fun id => ?_, ?_⟩
      · simp [Worker.inflight_eq, WPc.todoBytes, WPc.inHand, hf]
      · simp [Worker.announced_eq, WPc.inHand, hf]
    | cons g gs =>
      have e : (c.startSync batch tail).w = { c.w with pc := .syncOld batch tail } := by
        simp [WCtx.startSync, hf]
      rw [e]
      refine ⟨⟨ht, by simp [hf]⟩, fun id => ?_, ?_⟩
      · simp [Worker.inflight_eq, WPc.todoBytes, WPc.inHand, hf]
      · simp [Worker.announced_eq, WPc.inHand, hf]

theorem WCtx.startWrites_rel (c : WCtx) (batch : List WReq) (tail : Option WReq)
    (ht : tailOK tail) (hnd : (c.startWrites batch tail).w.pc ≠ .dead) :
    WRel (newestId c.w.files) (batch.map WReq.data).flatten (tail.toList ++ c.w.queue)
      (c.startWrites batch tail).w := by
  have hfl := flatten_filter_nonempty (batch.map WReq.data)
  cases htodo : (batch.map WReq.data).filter (fun d => !d.isEmpty) with
  | nil =>
    have e : c.startWrites batch tail = c.startSync batch tail := by
      simp [WCtx.startWrites, htodo]
    rw [e] at hnd ⊢
    rw [htodo] at hfl
    rw [← hfl]
    exact WCtx.startSync_rel c batch tail ht hnd
  | cons d rest =>
    have e : c.startWrites batch tail =
        { c with w := { c.w with pc := .writing (d :: rest) batch tail } } := by
      simp [WCtx.startWrites, htodo]
    rw [e]
    rw [htodo] at hfl
    refine ⟨ht, fun id => ?_, ?_⟩
    · simp only [Worker.inflight_eq, WPc.todoBytes, WPc.inHand, hfl]
    · simp [Worker.announced_eq, WPc.inHand]

/-! ### One worker step -/

/-- What a worker step that does not kill the worker guarantees. -/
structure StepGood (c c' : WCtx) : Prop where
  wok : c'.w.pc.ok c'.w.files
  bytes : ∀ id, fdata c'.fs id ++ c'.w.inflight id = fdata c.fs id ++ c.w.inflight id
  ann : c'.w.announced <:+ c.w.announced

theorem StepGood.of_rel {c c' : WCtx} {cur : Nat} {tb : Bytes} {rest : List WReq}
    (h : WRel cur tb rest c'.w)
    (hb : ∀ id, fdata c'.fs id ++ infl cur tb rest id = fdata c.fs id ++ c.w.inflight id)
    (ha : cur :: annIds rest <:+ c.w.announced) : StepGood c c' :=
  ⟨h.wok, fun id => by rw [h.bytes id]; exact hb id, h.ann.trans ha⟩

theorem WCtx.die_dead (c : WCtx) (l : List WReq) : (c.die l).w.pc = .dead := by
  simp [WCtx.die, WCtx.emit]

/-- Writing `d` (a prefix of the data still to write) to the newest file. -/
theorem write_bytes (fs : Fs) (cur : Nat) (d tb : Bytes) (R : List WReq) (id : Nat)
    (h : cur ∈ Fs.ids fs) :
    fdata (fs.write cur d) id ++ infl cur tb R id = fdata fs id ++ infl cur (d ++ tb) R id := by
  rw [fdata_write _ _ _ _ h]
  by_cases e : cur = id <;> simp [infl, e]

theorem WCtx.step_good (c : WCtx) (out : Outcome) (hok : c.w.pc.ok c.w.files)
    (hcur : c.w.cur ∈ Fs.ids c.fs) (hnd : (c.step out).w.pc ≠ .dead) : StepGood c (c.step out) := by
  have hcur' : newestId c.w.files ∈ Fs.ids c.fs := hcur
  cases hpc : c.w.pc with
  | dead =>
    exfalso; apply hnd
    simp [WCtx.step, hpc]
  | idle =>
    have e : c.step out = c.toRecv := by simp [WCtx.step, hpc]
    rw [e] at hnd ⊢
    refine StepGood.of_rel (WCtx.toRecv_rel c hnd) (fun id => ?_) ?_
    · rw [WCtx.toRecv_fs, Worker.inflight_eq, hpc]; simp [WPc.todoBytes, WPc.inHand]
    · rw [Worker.announced_eq, hpc]; simp [WPc.inHand]
  | got r =>
    by_cases hr : r.isWrite = true
    · have e : c.step out = ({ c with w := { c.w with queue := (collectBatch 1024 c.w.queue).2.2 } } : WCtx).startWrites
          (r :: (collectBatch 1024 c.w.queue).1) (collectBatch 1024 c.w.queue).2.1 := by
        simp [WCtx.step, hpc, hr]
      obtain ⟨h1, h2, h3⟩ := collectBatch_spec 1024 c.w.queue
      rw [e] at hnd ⊢
      have hb : ∀ x ∈ r :: (collectBatch 1024 c.w.queue).1, x.isWrite = true := by
        intro x hx
        rcases List.mem_cons.mp hx with e' | e'
        · subst e'; exact hr
        · exact h2 x e'
      have hq : c.w.pc.inHand ++ c.w.queue = (r :: (collectBatch 1024 c.w.queue).1) ++
          ((collectBatch 1024 c.w.queue).2.1.toList ++ (collectBatch 1024 c.w.queue).2.2) := by
        rw [hpc]
        simp only [WPc.inHand, List.cons_append, List.nil_append, List.cons.injEq, true_and]
        rw [← List.append_assoc, ← h1]
      refine StepGood.of_rel (WCtx.startWrites_rel _ _ _ h3 hnd) (fun id => ?_) ?_
      · rw [WCtx.startWrites_fs, Worker.inflight_eq, hq, hpc]
        simp only [WPc.todoBytes, infl, inflightFrom_writes _ _ _ _ hb]
        by_cases e' : newestId c.w.files = id <;> simp [e']
      · rw [Worker.announced_eq, hq, annIds_writes _ _ hb]
        exact List.suffix_refl _
    · have hr' : r.isWrite = false := by simpa using hr
      have e : c.step out = c.nonFlush r := by simp [WCtx.step, hpc, hr']
      rw [e] at hnd ⊢
      refine StepGood.of_rel (WCtx.nonFlush_rel c r hr' hnd) (fun id => ?_) ?_
      · rw [WCtx.nonFlush_fs, Worker.inflight_eq, hpc]; simp [WPc.todoBytes, WPc.inHand]
      · rw [Worker.announced_eq, hpc]; simp [WPc.inHand]
  | writing todo batch tail =>
    rw [hpc] at hok
    have ht : tailOK tail := hok
    have hinfl : ∀ id, c.w.inflight id = infl (newestId c.w.files) todo.flatten (tail.toList ++ c.w.queue) id := by
      intro id; rw [Worker.inflight_eq, hpc]; rfl
    have hann : c.w.announced = newestId c.w.files :: annIds (tail.toList ++ c.w.queue) := by
      rw [Worker.announced_eq, hpc]; rfl
    cases todo with
    | nil =>
      have e : c.step out = c.startSync batch tail := by simp [WCtx.step, hpc]
      rw [e] at hnd ⊢
      refine StepGood.of_rel (WCtx.startSync_rel c batch tail ht hnd) (fun id => ?_) ?_
      · rw [WCtx.startSync_fs, hinfl]; simp
      · rw [hann]; exact List.suffix_refl _
    | cons d rest =>
      -- the two ways a write makes progress
      have full : ∀ c1 : WCtx, c1.w = c.w → c1.fs = c.fs.write (newestId c.w.files) d →
          ∀ c' : WCtx, (c' = match rest with
            | [] => c1.startSync batch tail
            | _ => { c1 with w := { c1.w with pc := .writing rest batch tail } }) →
          c'.w.pc ≠ .dead → StepGood c c' := by
        intro c1 hw hfs c' hc' hnd'
        cases rest with
        | nil =>
          simp only at hc'
          subst hc'
          have h := WCtx.startSync_rel c1 batch tail ht hnd'
          rw [hw] at h
          refine StepGood.of_rel h (fun id => ?_) ?_
          · rw [WCtx.startSync_fs, hfs, hinfl, write_bytes _ _ _ _ _ _ hcur']; simp
          · rw [hann]; exact List.suffix_refl _
        | cons d2 rest2 =>
          simp only at hc'
          subst hc'
          refine ⟨?_, fun id => ?_, ?_⟩
          · simpa [WPc.ok, hw] using ht
          · rw [hinfl]
            simp only [Worker.inflight_eq, hw, WPc.todoBytes, WPc.inHand, hfs]
            rw [write_bytes _ _ _ _ _ _ hcur']; simp
          · rw [hann]
            simp only [Worker.announced_eq, hw, WPc.inHand]
            exact List.suffix_refl _
      cases out with
      | ok =>
        exact full (({ c with fs := c.fs.write (newestId c.w.files) d } : WCtx).emit
            (.write "w" (newestId c.w.files) d true)) rfl rfl (c.step .ok)
            (by cases rest <;> simp [WCtx.step, hpc]) hnd
      | eio =>
        exfalso; apply hnd
        simp [WCtx.step, hpc, WCtx.die_dead]
      | short k =>
        by_cases hk : (if k = 0 then 1 else k) < d.length
        · have e : c.step (.short k) =
              { (({ c with fs := c.fs.write (newestId c.w.files) (d.take (if k = 0 then 1 else k)) } : WCtx).emit
                  (.write "w" (newestId c.w.files) (d.take (if k = 0 then 1 else k)) true)) with
                w := { c.w with pc := .writing (d.drop (if k = 0 then 1 else k) :: rest) batch tail } } := by
            simp [WCtx.step, hpc, hk]
          rw [e]
          refine ⟨?_, fun id => ?_, ?_⟩
          · simpa [WPc.ok] using ht
          · rw [hinfl]
            simp only [Worker.inflight_eq, WPc.todoBytes, WPc.inHand, WCtx.emit_fs]
            rw [write_bytes _ _ _ _ _ _ hcur']
            simp only [List.flatten_cons, ← List.append_assoc, List.take_append_drop]
          · rw [hann]
            simp only [Worker.announced_eq, WPc.inHand]
            exact List.suffix_refl _
        · exact full (({ c with fs := c.fs.write (newestId c.w.files) d } : WCtx).emit
            (.write "w" (newestId c.w.files) d true)) rfl rfl (c.step (.short k))
            (by cases rest <;> simp [WCtx.step, hpc, hk]) hnd
  | syncOld batch tail =>
    rw [hpc] at hok
    obtain ⟨ht, hlen⟩ : tailOK tail ∧ 2 ≤ c.w.files.length := hok
    have hinfl : ∀ id, c.w.inflight id = infl (newestId c.w.files) [] (tail.toList ++ c.w.queue) id := by
      intro id; rw [Worker.inflight_eq, hpc]; rfl
    have hann : c.w.announced = newestId c.w.files :: annIds (tail.toList ++ c.w.queue) := by
      rw [Worker.announced_eq, hpc]; rfl
    cases hf : c.w.files with
    | nil => rw [hf] at hlen; simp at hlen
    | cons f rest =>
      have hne : rest ≠ [] := by
        intro h0; rw [hf, h0] at hlen; simp at hlen
      have fail : ∀ c1 : WCtx, c1.w = c.w → c1.fs = c.fs →
          (c1.finishBatch batch tail false).w.pc ≠ .dead → StepGood c (c1.finishBatch batch tail false) := by
        intro c1 hw hfs hnd'
        have h := WCtx.finishBatch_rel c1 batch tail false ht hnd'
        rw [hw] at h
        refine StepGood.of_rel h (fun id => ?_) ?_
        · rw [WCtx.finishBatch_fs, hfs, hinfl]
        · rw [hann]; exact List.suffix_refl _
      have good : ∀ c1 : WCtx, c1.w = { c.w with files := rest } → c1.fs = c.fs.sync f.id →
          (c1.startSync batch tail).w.pc ≠ .dead → StepGood c (c1.startSync batch tail) := by
        intro c1 hw hfs hnd'
        have h := WCtx.startSync_rel c1 batch tail ht hnd'
        rw [hw] at h
        simp only at h
        rw [← newestId_cons f hne, ← hf] at h
        refine StepGood.of_rel h (fun id => ?_) ?_
        · rw [WCtx.startSync_fs, hfs, hinfl, fdata_sync]
        · rw [hann]; exact List.suffix_refl _
      cases out with
      | eio =>
        have e : c.step .eio = (c.emit (.sync "w" f.id false)).finishBatch batch tail false := by
          simp [WCtx.step, hpc, hf]
        rw [e] at hnd ⊢
        exact fail _ rfl rfl hnd
      | ok =>
        have e : c.step .ok = (({ c with fs := c.fs.sync f.id, w := { c.w with files := rest } } : WCtx).emit
            (.sync "w" f.id true)).startSync batch tail := by
          simp [WCtx.step, hpc, hf]
        rw [e] at hnd ⊢
        exact good _ rfl rfl hnd
      | short k =>
        have e : c.step (.short k) = (({ c with fs := c.fs.sync f.id, w := { c.w with files := rest } } : WCtx).emit
            (.sync "w" f.id true)).startSync batch tail := by
          simp [WCtx.step, hpc, hf]
        rw [e] at hnd ⊢
        exact good _ rfl rfl hnd
  | syncNew batch tail =>
    rw [hpc] at hok
    have ht : tailOK tail := hok
    have hinfl : ∀ id, c.w.inflight id = infl (newestId c.w.files) [] (tail.toList ++ c.w.queue) id := by
      intro id; rw [Worker.inflight_eq, hpc]; rfl
    have hann : c.w.announced = newestId c.w.files :: annIds (tail.toList ++ c.w.queue) := by
      rw [Worker.announced_eq, hpc]; rfl
    have fin : ∀ (c1 : WCtx) (ok : Bool), c1.w = c.w → (∀ id, fdata c1.fs id = fdata c.fs id) →
        (c1.finishBatch batch tail ok).w.pc ≠ .dead → StepGood c (c1.finishBatch batch tail ok) := by
      intro c1 ok hw hfs hnd'
      have h := WCtx.finishBatch_rel c1 batch tail ok ht hnd'
      rw [hw] at h
      refine StepGood.of_rel h (fun id => ?_) ?_
      · rw [WCtx.finishBatch_fs, hfs, hinfl]
      · rw [hann]; exact List.suffix_refl _
    cases hf : c.w.files with
    | nil =>
      have e : c.step out = c.finishBatch batch tail true := by simp [WCtx.step, hpc, hf]
      rw [e] at hnd ⊢
      exact fin c true rfl (fun _ => rfl) hnd
    | cons f rest =>
      cases out with
      | eio =>
        have e : c.step .eio = (c.emit (.sync "w" f.id false)).finishBatch batch tail false := by
          simp [WCtx.step, hpc, hf]
        rw [e] at hnd ⊢
        exact fin _ false rfl (fun _ => rfl) hnd
      | ok =>
        have e : c.step .ok = (({ c with fs := c.fs.sync f.id } : WCtx).emit
            (.sync "w" f.id true)).finishBatch batch tail true := by
          simp [WCtx.step, hpc, hf]
        rw [e] at hnd ⊢
        exact fin _ true rfl (fun id => fdata_sync _ _ _) hnd
      | short k =>
        have e : c.step (.short k) = (({ c with fs := c.fs.sync f.id } : WCtx).emit
            (.sync "w" f.id true)).finishBatch batch tail true := by
          simp [WCtx.step, hpc, hf]
        rw [e] at hnd ⊢
        exact fin _ true rfl (fun id => fdata_sync _ _ _) hnd
  | unlinking ids =>
    have hinfl : ∀ id, c.w.inflight id = infl (newestId c.w.files) [] c.w.queue id := by
      intro id; rw [Worker.inflight_eq, hpc]; rfl
    have hann : c.w.announced = newestId c.w.files :: annIds c.w.queue := by
      rw [Worker.announced_eq, hpc]; rfl
    have recv : ∀ c1 : WCtx, c1.w = c.w → (∀ id, fdata c1.fs id = fdata c.fs id) →
        c1.toRecv.w.pc ≠ .dead → StepGood c c1.toRecv := by
      intro c1 hw hfs hnd'
      have h := WCtx.toRecv_rel c1 hnd'
      rw [hw] at h
      refine StepGood.of_rel h (fun id => ?_) ?_
      · rw [WCtx.toRecv_fs, hfs, hinfl]
      · rw [hann]; exact List.suffix_refl _
    cases ids with
    | nil =>
      have e : c.step out = c.toRecv := by simp [WCtx.step, hpc]
      rw [e] at hnd ⊢
      exact recv c rfl (fun _ => rfl) hnd
    | cons i rest =>
      have good : ∀ c' : WCtx, (c' = match rest with
            | [] => (({ c with fs := c.fs.unlink i } : WCtx).emit (.unlink "w" i true)).toRecv
            | _ => { (({ c with fs := c.fs.unlink i } : WCtx).emit (.unlink "w" i true)) with
                      w := { c.w with pc := .unlinking rest } }) →
          c'.w.pc ≠ .dead → StepGood c c' := by
        intro c' hc' hnd'
        cases rest with
        | nil =>
          simp only at hc'
          subst hc'
          exact recv _ rfl (fun id => fdata_unlink _ _ _) hnd'
        | cons i2 rest2 =>
          simp only at hc'
          subst hc'
          refine ⟨trivial, fun id => ?_, ?_⟩
          · rw [hinfl]
            simp only [Worker.inflight_eq, WPc.todoBytes, WPc.inHand, WCtx.emit_fs, fdata_unlink]
            rfl
          · rw [hann]
            simp only [Worker.announced_eq, WPc.inHand]
            exact List.suffix_refl _
      cases out with
      | eio =>
        exfalso; apply hnd
        simp [WCtx.step, hpc, WCtx.die_dead]
      | ok => exact good (c.step .ok) (by cases rest <;> simp [WCtx.step, hpc]) hnd
      | short k => exact good (c.step (.short k)) (by cases rest <;> simp [WCtx.step, hpc]) hnd

end RaftLog
