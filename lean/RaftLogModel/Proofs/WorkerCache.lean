/-
A worker step touches the payload cache only through `set_last_evictable`:
resident entries, byte counter and limits are unchanged.
-/
import RaftLogModel.Model.Worker
namespace RaftLog

/-- Same resident set, counter and limits (the boundary may differ). -/
def SameItems (a b : Cache) : Prop :=
  a.items = b.items ∧ a.size = b.size ∧ a.maxItems = b.maxItems ∧ a.capacity = b.capacity

theorem SameItems.refl (a : Cache) : SameItems a a := ⟨rfl, rfl, rfl, rfl⟩
theorem SameItems.trans {a b c : Cache} (h1 : SameItems a b) (h2 : SameItems b c) : SameItems a c :=
  ⟨h1.1.trans h2.1, h1.2.1.trans h2.2.1, h1.2.2.1.trans h2.2.2.1, h1.2.2.2.trans h2.2.2.2⟩

@[simp] theorem WCtx.emit_cache (c : WCtx) (e : Ev) : (c.emit e).cache = c.cache := rfl
@[simp] theorem WCtx.emit_w (c : WCtx) (e : Ev) : (c.emit e).w = c.w := rfl
@[simp] theorem WCtx.emit_fs (c : WCtx) (e : Ev) : (c.emit e).fs = c.fs := rfl

theorem foldl_emit_cache {α} (f : α → Ev) (l : List α) (c : WCtx) :
    (l.foldl (fun c i => c.emit (f i)) c).cache = c.cache := by
  induction l generalizing c with
  | nil => rfl
  | cons x xs ih => simp [List.foldl_cons, ih]

theorem WCtx.die_cache (c : WCtx) (inHand : List WReq) : (c.die inHand).cache = c.cache := by
  simp [WCtx.die, foldl_emit_cache]

theorem WCtx.toRecv_cache (c : WCtx) : c.toRecv.cache = c.cache := by
  unfold WCtx.toRecv
  split
  · rfl
  · split <;> rfl

theorem WCtx.nonFlush_cache (c : WCtx) (r : WReq) : (c.nonFlush r).cache = c.cache := by
  unfold WCtx.nonFlush
  split
  · simp [WCtx.toRecv_cache]
  · dsimp only
    split
    · simp [WCtx.toRecv_cache]
    · split
      · exact WCtx.toRecv_cache c
      · rfl
  · exact WCtx.toRecv_cache c

theorem WCtx.finishBatch_cache (c : WCtx) (batch : List WReq) (tail : Option WReq) (ok : Bool) :
    (c.finishBatch batch tail ok).cache = c.cache := by
  unfold WCtx.finishBatch
  cases tail with
  | none => simp [WCtx.nonFlush_cache, foldl_emit_cache]
  | some r => cases r <;> simp [WCtx.nonFlush_cache, foldl_emit_cache]

theorem WCtx.startSync_same (c : WCtx) (batch : List WReq) (tail : Option WReq) :
    SameItems (c.startSync batch tail).cache c.cache := by
  unfold WCtx.startSync
  split
  · rw [WCtx.finishBatch_cache]; exact SameItems.refl _
  · exact ⟨rfl, rfl, rfl, rfl⟩
  · exact SameItems.refl _

theorem WCtx.startWrites_same (c : WCtx) (batch : List WReq) (tail : Option WReq) :
    SameItems (c.startWrites batch tail).cache c.cache := by
  unfold WCtx.startWrites
  cases (batch.map WReq.data).filter (fun d => !d.isEmpty) with
  | nil => exact WCtx.startSync_same c batch tail
  | cons x xs => exact SameItems.refl _

macro "wc_close" : tactic => `(tactic| first
  | exact SameItems.refl _
  | (rw [WCtx.toRecv_cache]; exact SameItems.refl _)
  | (rw [WCtx.finishBatch_cache]; exact SameItems.refl _)
  | (rw [WCtx.die_cache]; exact SameItems.refl _)
  | (rw [WCtx.nonFlush_cache]; exact SameItems.refl _)
  | exact WCtx.startSync_same _ _ _
  | exact WCtx.startWrites_same _ _ _)

theorem WCtx.step_same (c : WCtx) (out : Outcome) : SameItems (c.step out).cache c.cache := by
  unfold WCtx.step
  repeat' (first | wc_close | split | dsimp only)

theorem WCtx.runQuiet_same (n : Nat) (c : WCtx) : SameItems (WCtx.runQuiet n c).cache c.cache := by
  induction n generalizing c with
  | zero => exact SameItems.refl _
  | succ n ih =>
    unfold WCtx.runQuiet
    split
    · exact SameItems.refl _
    · exact (ih _).trans (WCtx.step_same c .ok)

end RaftLog
