/-
C14 (busy drop), run and system level: `drop` issued while the worker still has
work leaves the system in exactly the state that `workerIdle` followed by `drop`
leaves it (`Sys.dropStore_busy_C14b`); the sender half of the channel exists
along every history without `drop`; an all-ok run keeps "no failed sync, nothing
postponed".
-/
import RaftLogModel.Proofs.BusyDropWorker
import RaftLogModel.Proofs.ReplayRestart
namespace RaftLog

/-! ### `senderAlive` only changes in `drop` -/

@[simp] theorem WCtx.startSync_aliveC14b (c : WCtx) (b : List WReq) (t : Option WReq) :
    (c.startSync b t).w.senderAlive = c.w.senderAlive := by
  rcases c.startSync_cases b t with ⟨_, he⟩ | ⟨f, _, he⟩ | ⟨_, he⟩ <;> rw [he]
  exact c.finishBatch_aliveW b t true

@[simp] theorem WCtx.startWrites_aliveC14b (c : WCtx) (b : List WReq) (t : Option WReq) :
    (c.startWrites b t).w.senderAlive = c.w.senderAlive := by
  rcases c.startWrites_cases b t with ⟨_, he⟩ | ⟨_, he⟩ <;> rw [he]
  exact c.startSync_aliveC14b b t

theorem WCtx.step_senderAliveC14b (c : WCtx) (out : Outcome) :
    (c.step out).w.senderAlive = c.w.senderAlive := by
  apply c.step_elim (P := fun c' => c'.w.senderAlive = c.w.senderAlive) out <;> intros <;> simp

theorem WCtx.runQuiet_senderAliveC14b (n : Nat) (c : WCtx) :
    (WCtx.runQuiet n c).w.senderAlive = c.w.senderAlive := by
  induction n generalizing c with
  | zero => rfl
  | succ n ih =>
    cases hq : c.w.quiet with
    | true => rw [WCtx.runQuiet_of_quiet _ _ hq]
    | false => rw [WCtx.runQuiet_succ_of_not_quiet _ _ hq, ih, c.step_senderAliveC14b]

theorem applyEffs_senderAliveC14b (effs : List Eff) (fs : Fs) (w : Worker) (evs : List Ev) :
    (applyEffs effs fs w evs).2.2.1.senderAlive = w.senderAlive := by
  induction effs generalizing fs w evs with
  | nil => rfl
  | cons e rest ih =>
    cases e with
    | create id => exact ih _ _ _
    | createFailed id => exact ih _ _ _
    | writeHead id bs => exact ih _ _ _
    | send r =>
      by_cases hp : w.pc = .dead
      · rw [(applyEffs_send_dead r rest fs w evs hp).2.2]
      · rw [applyEffs_send_alive r rest fs w evs hp, ih]; rfl

theorem Worker.settle_senderAliveC14b (w : Worker) : w.settle.senderAlive = w.senderAlive := by
  rcases w.settle_cases with ⟨r, q, _, _, he⟩ | he <;> rw [he]

theorem Sys.step_senderAliveC14b (y : Sys) (st : Step) (hst : st.journal = true) :
    (y.step st).worker.senderAlive = y.worker.senderAlive := by
  cases st with
  | call op =>
    simp only [Sys.step, Sys.call]
    cases hs : y.store with
    | none => rfl
    | some s => simp only; rw [Worker.settle_senderAliveC14b, applyEffs_senderAliveC14b]
  | flush cb =>
    simp only [Sys.step, Sys.flush]
    cases hs : y.store with
    | none => rfl
    | some s => simp only; rw [Worker.settle_senderAliveC14b, applyEffs_senderAliveC14b]
  | worker out =>
    simp only [Sys.step, Sys.workerStep]
    cases hs : y.store with
    | none => rfl
    | some s => exact WCtx.step_senderAliveC14b _ out
  | workerIdle =>
    simp only [Sys.step, Sys.workerIdle]
    cases hs : y.store with
    | none => rfl
    | some s => exact WCtx.runQuiet_senderAliveC14b _ _
  | drain =>
    simp only [Sys.step, Sys.drain]
    cases hs : y.store <;> rfl
  | drop => cases hst
  | openWith cfg => cases hst

theorem Sys.run_senderAliveC14b (steps : List Step) (y : Sys) (hst : ∀ st ∈ steps, st.journal = true) :
    (y.run steps).worker.senderAlive = y.worker.senderAlive := by
  induction steps generalizing y with
  | nil => rfl
  | cons st rest ih =>
    show ((y.step st).run rest).worker.senderAlive = _
    rw [ih _ (fun x hx => hst x (List.mem_cons_of_mem _ hx)),
      y.step_senderAliveC14b st (hst st List.mem_cons_self)]

theorem Sys.fresh_run_senderAliveC14b (cfg : Cfg) (steps : List Step)
    (hst : ∀ st ∈ steps, st.journal = true) :
    ((Sys.fresh cfg).run steps).worker.senderAlive = true := by
  rw [Sys.run_senderAliveC14b steps _ hst]
  exact (fresh_alive cfg).2

/-! ### The all-ok run commutes with closing the channel -/

theorem WCtx.closeC14b_quiet (c : WCtx) (h : c.w.quiet = true) : c.closeC14b.w.quiet = true := by
  unfold Worker.quiet at h
  cases hpc : c.w.pc with
  | idle =>
    rw [hpc] at h
    simp only [List.isEmpty_iff] at h
    rw [WCtx.closeC14b_idle _ hpc h]
    rfl
  | dead =>
    rw [WCtx.closeC14b_of_ne _ (by simp [hpc])]
    simp [Worker.quiet, hpc]
  | _ => simp [hpc] at h

theorem WCtx.closeC14b_not_quiet (c : WCtx) (h : c.w.quiet = false) :
    c.closeC14b = c.killC14b ∧ c.killC14b.w.quiet = false := by
  have h2 : c.killC14b.w.quiet = false := h
  refine ⟨?_, h2⟩
  by_cases hpc : c.w.pc = .idle
  · apply WCtx.closeC14b_of_queue
    intro hq
    simp [Worker.quiet, hpc, hq] at h
  · exact WCtx.closeC14b_of_ne _ hpc

/-- With the same fuel: the closed-channel run is the live-channel run, closed. -/
theorem WCtx.runQuiet_closeC14b (n : Nat) (c : WCtx) (ha : c.w.senderAlive = true) :
    WCtx.runQuiet n c.closeC14b = (WCtx.runQuiet n c).closeC14b := by
  induction n generalizing c with
  | zero => rfl
  | succ n ih =>
    cases hq : c.w.quiet with
    | true =>
      rw [WCtx.runQuiet_of_quiet _ _ hq, WCtx.runQuiet_of_quiet _ _ (c.closeC14b_quiet hq)]
    | false =>
      obtain ⟨h1, h2⟩ := c.closeC14b_not_quiet hq
      rw [WCtx.runQuiet_succ_of_not_quiet _ _ hq, h1, WCtx.runQuiet_succ_of_not_quiet _ _ h2,
        c.step_killC14b ha hq]
      exact ih _ (by rw [c.step_senderAliveC14b]; exact ha)

/-- Once the run is quiet, more fuel changes nothing. -/
theorem WCtx.runQuiet_addC14b (n k : Nat) (c : WCtx) (h : (WCtx.runQuiet n c).w.quiet = true) :
    WCtx.runQuiet (n + k) c = WCtx.runQuiet n c := by
  induction n generalizing c with
  | zero =>
    have : c.w.quiet = true := h
    rw [WCtx.runQuiet_of_quiet _ _ this, WCtx.runQuiet_of_quiet _ _ this]
  | succ n ih =>
    cases hq : c.w.quiet with
    | true => rw [WCtx.runQuiet_of_quiet _ _ hq, WCtx.runQuiet_of_quiet _ _ hq]
    | false =>
      rw [WCtx.runQuiet_succ_of_not_quiet _ _ hq] at h ⊢
      rw [show n + 1 + k = (n + k) + 1 by omega, WCtx.runQuiet_succ_of_not_quiet _ _ hq]
      exact ih _ h

/-- Any two sufficient amounts of fuel give the same run. -/
theorem WCtx.runQuiet_fuel_irrelC14b (n m : Nat) (c : WCtx) (hn : c.w.drainCost ≤ n)
    (hm : c.w.drainCost ≤ m) : WCtx.runQuiet n c = WCtx.runQuiet m c := by
  rcases Nat.le_total n m with h | h
  · obtain ⟨k, rfl⟩ := Nat.exists_eq_add_of_le h
    exact (WCtx.runQuiet_addC14b n k c (WCtx.runQuiet_quiet n c hn)).symm
  · obtain ⟨k, rfl⟩ := Nat.exists_eq_add_of_le h
    exact WCtx.runQuiet_addC14b m k c (WCtx.runQuiet_quiet m c hm)

/-- Whatever `closeC14b` did, forcing `pc := dead` gives the same worker. -/
theorem WCtx.closeC14b_w_dead (c : WCtx) :
    ({ c.closeC14b.w with pc := .dead } : Worker) = { c.w with pc := .dead, senderAlive := false } := by
  unfold WCtx.closeC14b
  split <;> rfl

@[simp] theorem WCtx.closeC14b_fs (c : WCtx) : c.closeC14b.fs = c.fs := by
  unfold WCtx.closeC14b
  split <;> rfl

@[simp] theorem WCtx.closeC14b_cache (c : WCtx) : c.closeC14b.cache = c.cache := by
  unfold WCtx.closeC14b
  split <;> rfl

theorem WCtx.closeC14b_evs (c : WCtx) :
    c.closeC14b.evs = c.evs ++ (if c.w.pc = .idle ∧ c.w.queue = [] then [.workerExit true] else []) := by
  unfold WCtx.closeC14b
  split
  · rfl
  · simp

/-! ### System level -/

/-- The worker context `workerIdle` starts from. -/
def Sys.idleCtxC14b (y : Sys) (s : Store) : WCtx := { w := y.worker, fs := y.fs, cache := s.cache }

/-- The worker context when `workerIdle` returns. -/
def Sys.idleEndC14b (y : Sys) (s : Store) : WCtx :=
  WCtx.runQuiet (y.idleCtxC14b s).w.fuel (y.idleCtxC14b s)

theorem Sys.workerIdle_eqC14b (y : Sys) (s : Store) (hs : y.store = some s) :
    y.workerIdle = ({ y with worker := (y.idleEndC14b s).w, fs := (y.idleEndC14b s).fs,
                             store := some { s with cache := (y.idleEndC14b s).cache } },
                    (y.idleEndC14b s).evs) := by
  simp only [Sys.workerIdle, hs]
  rfl

/-- The system state when `workerIdle` returns. -/
def Sys.idleSysC14b (y : Sys) (s : Store) : Sys :=
  let c := y.idleEndC14b s
  { y with worker := c.w, fs := c.fs, store := some { s with cache := c.cache } }

theorem Sys.step_workerIdle_eqC14b (y : Sys) (s : Store) (hs : y.store = some s) :
    y.step .workerIdle = y.idleSysC14b s := by
  show y.workerIdle.1 = _
  rw [y.workerIdle_eqC14b s hs]
  rfl

theorem WCtx.toRecv_idle_emptyC14b (c : WCtx) (hpc : c.w.pc = .idle) (hq : c.w.queue = [])
    (ha : c.w.senderAlive = true) : c.toRecv = c := by
  obtain ⟨⟨files, pc, queue, lsf, post, alive⟩, fs, cache, evs⟩ := c
  simp only at hpc hq ha
  subst hpc hq ha
  rfl

/-- **The join in `drop` is the idle run, then the exit.** With the sender alive
and the structural invariant `TodoOK`: the worker context when `drop` returns is
the context when `workerIdle` returns, with the channel closed and the worker
thread gone. -/
theorem Sys.dropEnd_eq_closeC14b (y : Sys) (s : Store) (ha : y.worker.senderAlive = true)
    (ht : y.worker.TodoOK) : y.dropEnd s = (y.idleEndC14b s).closeC14b := by
  have hfuel0 : (y.idleCtxC14b s).w.drainCost ≤ (y.idleCtxC14b s).w.fuel := by
    have := (y.idleCtxC14b s).w.drainCost_le_fuel ht
    omega
  have hfuel1 : (y.dropCtx s).w.drainCost ≤ (y.dropCtx s).w.fuel := by
    have := (y.dropCtx s).w.drainCost_le_fuel (y.dropCtx_todoOK s ht)
    omega
  unfold Sys.dropEnd Sys.idleEndC14b
  rcases y.dropCtx_cases s with ⟨hpc, he⟩ | ⟨hpc, he⟩
  · -- blocked in `recv`
    have he' : y.dropCtx s = (y.idleCtxC14b s).toRecv.closeC14b := by
      rw [he]; exact WCtx.toRecv_killC14b (y.idleCtxC14b s) ha
    by_cases hq : y.worker.queue = []
    · have hquiet : (y.idleCtxC14b s).w.quiet = true := by
        simp [Worker.quiet, Sys.idleCtxC14b, hpc, hq]
      rw [WCtx.toRecv_idle_emptyC14b (y.idleCtxC14b s) hpc hq ha] at he'
      rw [he', WCtx.runQuiet_of_quiet _ _ hquiet, WCtx.runQuiet_of_quiet _ _ (WCtx.closeC14b_quiet _ hquiet)]
    · have hnq : (y.idleCtxC14b s).w.quiet = false := by
        simp [Worker.quiet, Sys.idleCtxC14b, hpc, hq]
      have hstep : (y.idleCtxC14b s).step .ok = (y.idleCtxC14b s).toRecv :=
        WCtx.step_idleC14b _ _ hpc
      have hdec := (y.idleCtxC14b s).step_ok_decreases hnq
      rw [hstep] at hdec
      have hne : (y.idleCtxC14b s).toRecv.w.pc ≠ .idle := by
        rcases (y.idleCtxC14b s).toRecv_cases with ⟨r, q, _, h⟩ | ⟨h0, _, _⟩ | ⟨h0, _, _⟩
        · rw [h]; simp
        · exact absurd h0 hq
        · exact absurd h0 hq
      have hclose : (y.idleCtxC14b s).toRecv.closeC14b = (y.idleCtxC14b s).toRecv.killC14b :=
        WCtx.closeC14b_of_ne _ hne
      have hcost : (y.dropCtx s).w.drainCost = (y.idleCtxC14b s).toRecv.w.drainCost := by
        rw [he', hclose]; rfl
      -- the idle run: one step to `toRecv`, then the rest
      obtain ⟨k, hk⟩ : ∃ k, (y.idleCtxC14b s).w.fuel = k + 1 := ⟨(y.idleCtxC14b s).w.fuel - 1, by omega⟩
      rw [hk, WCtx.runQuiet_succ_of_not_quiet _ _ hnq, hstep]
      rw [WCtx.runQuiet_fuel_irrelC14b k (y.dropCtx s).w.fuel _ (by omega) (by omega)]
      have key := WCtx.runQuiet_closeC14b (y.dropCtx s).w.fuel (y.idleCtxC14b s).toRecv
        (by rw [WCtx.toRecv_aliveW]; exact ha)
      rw [← he'] at key
      exact key
  · -- working
    have he' : y.dropCtx s = (y.idleCtxC14b s).closeC14b := by
      rw [he, WCtx.closeC14b_of_ne _ hpc]; rfl
    have hf : (y.dropCtx s).w.fuel = (y.idleCtxC14b s).w.fuel := by rw [he]; rfl
    rw [hf, he']
    exact WCtx.runQuiet_closeC14b _ _ ha

/-- The state after a `drop`, in terms of the idle run: the file system is the
one `workerIdle` leaves; the worker is the idle worker, exited. -/
theorem Sys.dropStore_busy_eqC14b (y : Sys) (s : Store) (hs : y.store = some s)
    (ha : y.worker.senderAlive = true) (ht : y.worker.TodoOK) :
    y.dropStore.1 = { y with worker := { (y.idleEndC14b s).w with pc := .dead, senderAlive := false },
                             fs := (y.idleEndC14b s).fs, store := none, locked := false } ∧
    y.dropStore.2 = (y.idleEndC14b s).evs ++
      (if (y.idleEndC14b s).w.pc = .idle ∧ (y.idleEndC14b s).w.queue = [] then [.workerExit true] else []) := by
  rw [y.dropStore_eq s hs, y.dropEnd_eq_closeC14b s ha ht, WCtx.closeC14b_w_dead, WCtx.closeC14b_fs,
    WCtx.closeC14b_evs]
  exact ⟨rfl, rfl⟩

/-- **Drop with a busy worker = let the worker finish, then drop.** The whole
system state (file system, lock, store, worker, configuration) after `drop` is
the state after `workerIdle` followed by `drop`. -/
theorem Sys.dropStore_busy_C14b (y : Sys) (s : Store) (hs : y.store = some s)
    (ha : y.worker.senderAlive = true) (ht : y.worker.TodoOK) :
    y.step .drop = (y.step .workerIdle).step .drop ∧
    (y.step .drop).fs = (y.step .workerIdle).fs ∧
    (y.step .drop).store = none ∧ (y.step .drop).locked = false ∧
    (y.step .drop).worker.pc = .dead ∧
    (y.step .drop).worker = { (y.step .workerIdle).worker with pc := .dead, senderAlive := false } := by
  have h1 := (y.dropStore_busy_eqC14b s hs ha ht).1
  have hI : y.step .workerIdle = y.idleSysC14b s := y.step_workerIdle_eqC14b s hs
  have hquiet : (y.idleEndC14b s).w.quiet = true := WCtx.runQuiet_fuel_quiet _ ht
  have haI : (y.idleEndC14b s).w.senderAlive = true := by
    unfold Sys.idleEndC14b
    rw [WCtx.runQuiet_senderAliveC14b]; exact ha
  have htI : (y.idleEndC14b s).w.TodoOK := WCtx.runQuiet_todoOK _ _ ht
  -- the second drop starts from a quiet worker
  have h2 := ((y.step .workerIdle).dropStore_busy_eqC14b { s with cache := (y.idleEndC14b s).cache }
    (by rw [hI]; rfl) (by rw [hI]; exact haI) (by rw [hI]; exact htI)).1
  have hend : (y.step .workerIdle).idleEndC14b { s with cache := (y.idleEndC14b s).cache } =
      { w := (y.idleEndC14b s).w, fs := (y.idleEndC14b s).fs, cache := (y.idleEndC14b s).cache } := by
    unfold Sys.idleEndC14b
    rw [WCtx.runQuiet_of_quiet _ _ (by rw [hI]; exact hquiet), hI]
    rfl
  rw [hend] at h2
  have hd : y.step .drop = y.dropStore.1 := rfl
  have hd2 : (y.step .workerIdle).step .drop = (y.step .workerIdle).dropStore.1 := rfl
  refine ⟨?_, ?_, ?_, ?_, ?_, ?_⟩
  · rw [hd, hd2, h1, h2, hI]; rfl
  · rw [hd, h1, hI]; rfl
  · rw [hd, h1]
  · rw [hd, h1]
  · rw [hd, h1]
  · rw [hd, h1, hI]; rfl

/-! ### "No failed sync, nothing postponed" is kept by the all-ok run -/

theorem stepLsf_okC14b (c : WCtx) (h : c.w.lastSyncFailed = false) : stepLsf c .ok = false := by
  unfold stepLsf
  split
  · rfl
  · simp [h]
  · exact h

theorem WCtx.step_ok_noPostponedC14b (c : WCtx) (hw : c.w.WF) (hl : c.w.lastSyncFailed = false)
    (hp : c.w.postponed = []) :
    (c.step .ok).w.lastSyncFailed = false ∧ (c.step .ok).w.postponed = [] := by
  have h1 : (c.step .ok).w.lastSyncFailed = false := by
    rw [c.step_lsf .ok hw]; exact stepLsf_okC14b c hl
  refine ⟨h1, ?_⟩
  rcases (c.step_removal .ok hw).postponed with h | ⟨ids, _, h2, _⟩ | ⟨ids, _, _, h⟩
  · rw [h]; exact hp
  · rw [h1] at h2; cases h2
  · exact h

theorem WCtx.runQuiet_noPostponedC14b (n : Nat) (c : WCtx) (hw : c.w.WF) (hl : c.w.lastSyncFailed = false)
    (hp : c.w.postponed = []) :
    (WCtx.runQuiet n c).w.lastSyncFailed = false ∧ (WCtx.runQuiet n c).w.postponed = [] := by
  have := WCtx.runQuiet_induct
    (P := fun c => c.w.WF ∧ c.w.lastSyncFailed = false ∧ c.w.postponed = [])
    (fun c hc _ => ⟨c.step_wf .ok hc.1, c.step_ok_noPostponedC14b hc.1 hc.2.1 hc.2.2⟩) n c ⟨hw, hl, hp⟩
  exact this.2

theorem Sys.workerIdle_noPostponedC14b (y : Sys) (s : Store) (hs : y.store = some s) (hw : y.worker.WF)
    (hl : y.worker.lastSyncFailed = false) (hp : y.worker.postponed = []) :
    (y.step .workerIdle).worker.postponed = [] := by
  show y.workerIdle.1.worker.postponed = []
  rw [y.workerIdle_eqC14b s hs]
  exact (WCtx.runQuiet_noPostponedC14b _ _ hw hl hp).2

/-- The all-ok run never kills the worker. -/
theorem Sys.workerIdle_aliveC14b (y : Sys) (s : Store) (hs : y.store = some s)
    (hd : y.worker.pc ≠ .dead) (ha : y.worker.senderAlive = true) :
    (y.step .workerIdle).worker.pc ≠ .dead := by
  show y.workerIdle.1.worker.pc ≠ .dead
  rw [y.workerIdle_eqC14b s hs]
  exact (WCtx.runQuiet_alive _ (y.idleCtxC14b s) ⟨hd, ha⟩).1

theorem Sys.workerIdle_quietC14b (y : Sys) (s : Store) (hs : y.store = some s) (ht : y.worker.TodoOK) :
    (y.step .workerIdle).worker.quiet = true := by
  show y.workerIdle.1.worker.quiet = true
  rw [y.workerIdle_eqC14b s hs]
  exact WCtx.runQuiet_fuel_quiet _ ht


/-- The store after `workerIdle`: only the cache may differ. -/
theorem Sys.workerIdle_storeC14b (y : Sys) (s : Store) (hs : y.store = some s) :
    ∃ sI, (y.step .workerIdle).store = some sI ∧ sI.pending = s.pending ∧ sI.removed = s.removed ∧
      sI.st = s.st ∧ sI.log = s.log ∧ sI.closed = s.closed ∧ sI.openOffsets = s.openOffsets := by
  rw [y.step_workerIdle_eqC14b s hs]
  exact ⟨_, rfl, rfl, rfl, rfl, rfl, rfl, rfl⟩

theorem Step.keepsStore_of_journalC14b {st : Step} (h : st.journal = true) : st.keepsStore = true := by
  cases st <;> first | rfl | cases h

end RaftLog
